import ProcSim.Lemmas.LoadedRoutes
import ProcSim.Props.C16b
import ProcSim.Props.C09
import ProcSim.Props.C01
import ProcSim.Props.C02
import ProcSim.Props.C06
import ProcSim.Props.C07
import ProcSim.Props.C08
/-!
# Loaded processors are well-formed (`wfProc`) as soon as the read lock is not after the write lock

The simulator theorems quantify over processors satisfying `Spec.wfProc`. `Lemmas/LoadedRoutes.lean` reduces it to
(`wfProc_iff_struct_counts_order`)

* `structOK p` — names unique, sink-first order, predecessors duplicate-free (every loaded processor:
  `loaded_structOK`, `Props/C16b.lean`),
* every unit has a capability (every loaded processor: C09, `noEmptyUnit`),
* `lockCountsAll p` — every maximal capability route from an input-boundary port crosses exactly one read-locking and
  one write-locking unit (every loaded processor: C09, `exactLocks`, through the bridge between the two route
  enumerations `routesFrom_map_mem`),
* `readNotAfterWrite p` — on each of these routes the read-locking unit is not after the write-locking unit. **This
  the loader does not check** (`LoadedWFExamples.swapped`: an accepted description whose processor violates it), so
  it remains a hypothesis.

`loaded_wfProc` — a loaded processor with `readNotAfterWrite` satisfies `wfProc`; hence C01, C02, C06, C07, C08 hold
for it (C03, C04, C05 hold for every loaded processor, `Props/C16b.lean`).
-/
namespace ProcSim
open Spec

variable {N : Type} [DecidableEq N] [LT N] [DecidableRel (α := N) (· < ·)]

/-- every loaded processor: every unit has a capability, and every route `wfProc` looks at crosses exactly one
read-locking and one write-locking unit -/
theorem loaded_caps_lockCounts (fold : N → N) {d : Loader.Desc N} {p : Proc N}
    (h : Loader.load fold d = .ok p) (hn : (p.allUnits.map (·.name)).Nodup) :
    p.allUnits.all (fun u => !u.caps.isEmpty) = true ∧ lockCountsAll p = true := by
  have h09 := Loader.C09_accepted_wellformed fold h
  refine ⟨?_, ?_⟩
  · rw [List.all_eq_true]
    intro u hu
    have := h09.noEmptyUnit u hu
    cases hc : u.caps with
    | nil => exact absurd hc this
    | cons a l => rfl
  · unfold lockCountsAll
    rw [routesAll_iff]
    intro c _ s hs hcs r hr
    exact lockCountsOK_of_locksExact hn h09.acyclic (mem_allUnits_of_mem_inBoundary hs) hcs
      (h09.exactLocks s hs c hcs) r hr

/-- **A loaded processor whose read locks are not after its write locks is well-formed.** -/
theorem loaded_wfProc (ho : Loader.StrictTotal N) (fold : N → N) {d : Loader.Desc N} {p : Proc N}
    (h : Loader.load fold d = .ok p) (hrw : readNotAfterWrite p = true) : wfProc p = true := by
  have hs := loaded_structOK ho fold h
  obtain ⟨h1, h2⟩ := loaded_caps_lockCounts fold h (structOK_nodup_names hs)
  exact (wfProc_iff_struct_counts_order p).2 ⟨hs, h1, h2, hrw⟩

/-- for a loaded processor `wfProc` says exactly `readNotAfterWrite` -/
theorem loaded_wfProc_iff (ho : Loader.StrictTotal N) (fold : N → N) {d : Loader.Desc N} {p : Proc N}
    (h : Loader.load fold d = .ok p) : wfProc p = true ↔ readNotAfterWrite p = true :=
  ⟨fun hw => ((wfProc_iff_struct_counts_order p).1 hw).2.2.2, loaded_wfProc ho fold h⟩

/-! ## the simulator properties for loaded processors -/

section corollaries
variable (ho : Loader.StrictTotal N) (fold : N → N) {d : Loader.Desc N} {p : Proc N}
  (hl : Loader.load fold d = .ok p) (hrw : readNotAfterWrite p = true)
  (prog : List (Instr N)) (tbl : List (Util N)) (stalled : Bool)
include ho hl hrw

/-- **C01 for loaded processors.** -/
theorem C01_loaded (hp : Hazards.ProgOK prog) (h : Diagram p prog tbl stalled) :
    (Spec.C01 (ctx p prog tbl stalled)).ok = true :=
  C01_hazard_order p prog tbl stalled (loaded_wfProc ho fold hl hrw) hp h

/-- **C02 for loaded processors.** -/
theorem C02_loaded (hp : Hazards.ProgOK prog) (h : Diagram p prog tbl stalled) :
    (Spec.C02 (ctx p prog tbl stalled)).ok = true :=
  C02_data_stall_exact p prog tbl stalled (loaded_wfProc ho fold hl hrw) hp h

/-- **C06 for loaded processors.** -/
theorem C06_loaded (h : Diagram p prog tbl stalled) : (Spec.C06 (ctx p prog tbl stalled)).ok = true :=
  C06_issue ho p prog tbl stalled (loaded_wfProc ho fold hl hrw) h

/-- **C07 for loaded processors.** -/
theorem C07_loaded (h : Diagram p prog tbl stalled) : (Spec.C07 (ctx p prog tbl stalled)).ok = true :=
  C07_advance p prog tbl stalled (loaded_wfProc ho fold hl hrw) h

/-- **C08 for loaded processors.** -/
theorem C08_loaded (hp : Hazards.ProgOK prog) (h : Diagram p prog tbl stalled) :
    (Spec.C08 (ctx p prog tbl stalled)).ok = true :=
  C08_genuine_deadlock p prog tbl stalled (loaded_wfProc ho fold hl hrw) hp h

/-- the run of a loaded processor ends with a diagram or the stall error, never with a fault -/
theorem C08_no_fault_loaded (hp : Hazards.ProgOK prog) :
    ∃ tbl, simulate p prog = .done tbl ∨ simulate p prog = .stall tbl :=
  C08_no_fault p prog (loaded_wfProc ho fold hl hrw) hp

end corollaries

/-! ## Non-vacuity -/
namespace LoadedWFExamples

/-- the fork/join processor of `C16bExamples` (text-level names): loaded, `readNotAfterWrite`, hence `wfProc` -/
example : (match Loader.load ICase.lower C16bExamples.desc with
    | .ok p => readNotAfterWrite p && wfProc p
    | .error _ => false) = true := by decide

example : ∀ p, Loader.load ICase.lower C16bExamples.desc = .ok p → readNotAfterWrite p = true → wfProc p = true :=
  fun _ h hrw => loaded_wfProc Loader.StrictTotal.listChar ICase.lower h hrw

/-- the DAG description of `Loader.C12Examples.exDesc` (`Nat` names) -/
example : (match Loader.load id Loader.C12Examples.exDesc with
    | .ok p => readNotAfterWrite p && wfProc p
    | .error _ => false) = true := by decide

/-- **The hypothesis cannot be dropped**: the loader accepts a chain whose input port holds the *write* lock and
whose output port holds the *read* lock (one of each on the only route, as C09 demands); the processor satisfies
`structOK` and `lockCountsAll` but neither `readNotAfterWrite` nor `wfProc`. -/
def swapped : Loader.Desc Nat :=
  ⟨[⟨1, 1, [100], false, true, []⟩, ⟨2, 1, [100], true, false, []⟩], [[1, 2]]⟩

example : (match Loader.load id swapped with
    | .ok p => structOK p && lockCountsAll p && !readNotAfterWrite p && !wfProc p
    | .error _ => false) = true := by decide

end LoadedWFExamples

end ProcSim
