import ProcSim.Gen.SimUtils
import ProcSim.Model.Sim
/-!
# Translator tie for `src/sim_services/_utils.py` (leaf predicates of C04 and C05)

`ProcSim.Gen.sim_utils` is **generated** from the Python source by `checks/py2lean.py` on every check run.  The two
functions are the tests every move and every issue makes before an instruction enters a unit:

* `unit_full(width, unit_util)`   — the fullness test of C04 (`len(unit_util) == width`);
* `mem_unavail(mem_busy, mem_req)` — the memory-port test of C05 (`mem_busy and mem_req`, consumed by truthiness).

The theorems say that the generated code computes exactly the tests the simulator model (`fillLoop`, `tryPorts` in
`ProcSim/Model/Sim.lean`) makes at those points, and never raises.
-/
namespace ProcSim.GenTie
open PyLite ProcSim ProcSim.Gen.sim_utils

/-- the translated `unit_full` never raises and is the model's test `cur.length = width` -/
theorem gen_unit_full (width : Nat) (cur : List Nat) :
    unit_full width cur = .ok (decide (cur.length = width)) := by
  simp [unit_full, pyEq, PyEq.pyEq, pyLen, PyLen.pyLen, pure, Except.pure]

/-- the translated `mem_unavail` never raises and is the model's test `mem && ma` -/
theorem gen_mem_unavail (mem ma : Bool) : mem_unavail mem ma = .ok (mem && ma) := by
  cases mem <;> cases ma <;> rfl

/-- the step of the model's fill loop (`UnitSink._fill` / `_mov_candidate`) written with the translated predicates: a
candidate is taken iff the unit is not full and the memory port is not unavailable for it -/
theorem fillLoop_cons_gen {N : Type} [DecidableEq N] (prog : List (Instr N)) (d : UnitM N) (c : N × Nat) (cs : List (N × Nat))
    (cur : List HI) (mem : Bool) (moved : List (N × Nat)) :
    fillLoop prog d (c :: cs) cur mem moved =
      (match unit_full d.width (cur.map (·.idx)), mem_unavail mem (capIn prog c.2 d.acl) with
       | .ok true, _ => (cur, mem, moved)
       | .ok false, .ok true => fillLoop prog d cs cur mem moved
       | .ok false, .ok false =>
           fillLoop prog d cs (cur ++ [⟨c.2, .U⟩]) (mem || capIn prog c.2 d.acl) (moved ++ [c])
       | _, _ => (cur, mem, moved)) := by
  rw [gen_unit_full, gen_mem_unavail]
  simp only [fillLoop, List.length_map]
  by_cases h : cur.length = d.width
  · simp [h]
  · simp only [h, if_false, decide_false]
    cases hm : (mem && capIn prog c.2 d.acl) <;> simp

/-- the step of the model's issue loop (`_accept_in_unit`) written with the translated predicates -/
theorem tryPorts_cons_gen {N : Type} [DecidableEq N] (cap : N) (i : Nat) (port : UnitM N) (ps : List (UnitM N))
    (u : Util N) (mem : Bool) (hc : cap ∈ port.caps) :
    tryPorts cap i (port :: ps) u mem =
      (match mem_unavail mem (decide (cap ∈ port.acl)), unit_full port.width ((u.get port.name).map (·.idx)) with
       | .ok false, .ok false =>
           some (u.set port.name (u.get port.name ++ [⟨i, .U⟩]), mem || decide (cap ∈ port.acl))
       | _, _ => tryPorts cap i ps u mem) := by
  rw [gen_unit_full, gen_mem_unavail]
  simp only [tryPorts, hc, if_true, List.length_map]
  cases hm : (mem && decide (cap ∈ port.acl)) <;> by_cases h : (u.get port.name).length = port.width <;> simp [h]

/-! non-vacuity -/
example : (unit_full 2 [7, 9]).toOption = some true := by decide
example : (unit_full 2 [7]).toOption = some false := by decide
example : (mem_unavail true true).toOption = some true := by decide
example : (mem_unavail true false).toOption = some false := by decide

end ProcSim.GenTie
