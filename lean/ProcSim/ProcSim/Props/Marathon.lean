import ProcSim.Model.Canon
/-!
# The closed form the "marathon" cases of the simulator check use — kernel-checked for small sizes (TESTS, not a theorem)

`harness/comp_sim.py: marathon_case` runs the real simulator on `n` independent instructions (no sources, destinations
cycling over 7 registers) on a processor that is one in-out unit of width 1 holding both locks, for `n` in the
thousands, and judges the outcome against the closed form "exactly `n` cycles, cycle `t+1` shows instruction `t` alone and
unstalled".  For the model that closed form is an instance of C03 / C06 / C08; it is **not** proved here for every `n` —
below it is evaluated by the kernel (`decide`) for `n = 0 … 9`, which ties the formula to the model's definitions for
those sizes and nothing more.
-/
namespace ProcSim

/-- one in-out unit `0` of width 1, capability `0`, both locks -/
def marathonProc : Proc Nat := ⟨[], [], [⟨0, 1, [0], true, true, []⟩], []⟩

/-- `n` independent instructions writing registers `1 + (i mod 7)` -/
def marathonProg (n : Nat) : List (Instr Nat) := (List.range n).map (fun i => ⟨[], 1 + i % 7, 0⟩)

/-- the closed form: outcome `done` (code 0), `n` rows, row `t` = unit 0 hosting `(t, U)` (label rank 2) -/
def marathonExpected (n : Nat) : Nat × List (List (Nat × List (Nat × Nat))) :=
  (0, (List.range n).map (fun t => [(0, [(t, 2)])]))

example : outcomeCanon (simulate marathonProc (marathonProg 0)) = marathonExpected 0 := by decide
example : outcomeCanon (simulate marathonProc (marathonProg 1)) = marathonExpected 1 := by decide
example : outcomeCanon (simulate marathonProc (marathonProg 2)) = marathonExpected 2 := by decide
example : outcomeCanon (simulate marathonProc (marathonProg 5)) = marathonExpected 5 := by decide
example : outcomeCanon (simulate marathonProc (marathonProg 8)) = marathonExpected 8 := by decide
example : outcomeCanon (simulate marathonProc (marathonProg 9)) = marathonExpected 9 := by decide

end ProcSim
