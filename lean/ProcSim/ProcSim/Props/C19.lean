import ProcSim.Lemmas.Queue
/-!
# C19 — register access queues serve requests in registration order

"For any sequence of read/write requests registered in program order, a request can be served exactly when every
request registered before it has been removed, except that reads in an unbroken run of reads are served together
and a write registered directly after its owner's own read can be served with that read once no other reader
remains.  Removing served requests in any permitted order never fails and ends with an empty queue."

* model of `reg_access.py`: `ProcSim/Model/Queue.lean` (`Queue.build`, `Queue.canAccess`, `Queue.dequeue`);
* request-level specification: `ProcSim/Spec/Queue.lean` (`abs`, `canServe`, `removeSpec`, `runHistory`, …);
* helper lemmas: `ProcSim/Lemmas/Queue.lean`.

All statements quantify over request sequences and removal histories of any length.
-/
namespace ProcSim
open Spec QueueLemmas

/-! ## representation invariant -/

/-- every queue the builder produces is well formed -/
theorem C19_build_wf (reqs : List Req) : WFq (Queue.build reqs) :=
  foldl_push_wf reqs (q := []) trivial

/-- a successful `dequeue` keeps a queue well formed -/
theorem C19_dequeue_wf {q q' : Queue} {o : Nat} (h : WFq q) (hd : q.dequeue o = some q') : WFq q' :=
  dequeue_wf h hd

/-- hence every queue reachable from a built one by successful `dequeue`s is well formed -/
theorem C19_reachable_wf {reqs : List Req} {q : Queue} (h : Reachable reqs q) : WFq q := by
  obtain ⟨os, hos⟩ := h
  exact runHistory_wf (C19_build_wf reqs) hos

/-- the Bool checker used by the driver decides the invariant -/
theorem C19_wfq_iff (q : Queue) : wfq q = true ↔ WFq q := wfq_iff q

/-! ## the built queue stands for the registered sequence -/

/-- "registered in program order" implies that no read is registered twice inside one run of reads -/
theorem C19_programOrder_runsDistinct {reqs : List Req} (h : programOrder reqs = true) : RunsDistinct reqs :=
  programOrder_runsDistinct h

/-- … and that no request is registered twice at all -/
theorem C19_programOrder_nodup {reqs : List Req} (h : programOrder reqs = true) : reqs.Nodup :=
  programOrder_nodup h

theorem C19_abs_build (reqs : List Req) (h : RunsDistinct reqs) : abs (Queue.build reqs) = reqs := by
  have := abs_foldl_push reqs [] (by simpa using h)
  simpa [Queue.build] using this

/-! ## refinement: the queue operations are the request-level operations -/

/-- `can_access` is `canServe` on the pending list (`none` = `IndexError` on the empty queue on both sides) -/
theorem C19_canAccess_refines (q : Queue) (h : WFq q) (wr : Bool) (o : Nat) :
    q.canAccess wr o = canServe (abs q) wr o :=
  canAccess_refines h wr o

/-- `dequeue` is `removeSpec` on the pending list (`none` = the Python exception, on both sides) -/
theorem C19_dequeue_refines (q : Queue) (h : WFq q) (o : Nat) :
    (q.dequeue o).map abs = removeSpec (abs q) o :=
  dequeue_refines h o

/-- the same for whole histories of removals -/
theorem C19_history_refines (q : Queue) (h : WFq q) (os : List Nat) :
    (runHistory q os).map abs = runSpec (abs q) os :=
  runHistory_refines h os

/-- what one successful `dequeue o` removes: the head write of `o`, or `o`'s read out of the leading run of reads -/
theorem C19_dequeue_removes {q q' : Queue} {o : Nat} (h : WFq q) (hd : q.dequeue o = some q') :
    abs q = (true, o) :: abs q' ∨ (o ∈ leadReads (abs q) ∧ abs q' = (abs q).erase (false, o)) := by
  have hr := dequeue_refines h o
  rw [hd] at hr
  exact (removeSpec_eq_some_iff _ _ _).1 hr.symm

/-! ## first sentence of the property: when can a request be served -/

/-- `o` is in the leading run of reads iff `o`'s read is pending and every request before it is a read -/
theorem C19_mem_leadReads_iff (pending : List Req) (o : Nat) :
    o ∈ leadReads pending ↔ ∃ pre post, pending = pre ++ (false, o) :: post ∧ ∀ r ∈ pre, r.1 = false :=
  mem_leadReads_iff pending o

/-- "the leading run is exactly its owner's own read and the write directly follows" -/
theorem C19_own_read_write_iff (pending : List Req) (o : Nat) :
    (leadReads pending = [o] ∧ (afterReads pending).head? = some (true, o)) ↔
      ∃ rest, pending = (false, o) :: (true, o) :: rest :=
  own_read_write_iff pending o

/-- request-level form: the three ways of being servable, and no other -/
theorem C19_served_iff (pending : List Req) (wr : Bool) (o : Nat) :
    canServe pending wr o = some true ↔
      (wr, o) ∈ pending ∧
      ((wr = false ∧ o ∈ leadReads pending) ∨
       (wr = true ∧ (pending.head? = some (true, o) ∨
          (leadReads pending = [o] ∧ (afterReads pending).head? = some (true, o))))) := by
  constructor
  · intro h
    exact ⟨mem_of_canServe h, (canServe_eq_some_true_iff pending wr o).1 h⟩
  · rintro ⟨_, h⟩
    exact (canServe_eq_some_true_iff pending wr o).2 h

/-- In a duplicate-free registered sequence, a pending request is the oldest pending one iff every request
registered before it has been removed. -/
theorem C19_head_iff_earlier_removed {reqs pending : List Req} (hnd : reqs.Nodup)
    (hsub : pending.Sublist reqs) (x : Req) :
    pending.head? = some x ↔
      x ∈ pending ∧ ∀ pre post, reqs = pre ++ x :: post → ∀ r ∈ pre, r ∉ pending :=
  head_iff_earlier_removed hnd hsub x

/-- along any history of successful removals the pending list is an order-preserving sublist of what was
registered -/
theorem C19_pending_sublist (reqs : List Req) (h : RunsDistinct reqs) (os : List Nat) (q : Queue)
    (hq : runHistory (Queue.build reqs) os = some q) : (abs q).Sublist reqs := by
  have hr := runHistory_refines (C19_build_wf reqs) os
  rw [hq, C19_abs_build reqs h] at hr
  exact runSpec_sublist hr.symm

/-- **First sentence of C19, in the words of the text.**  `reqs` registered in program order, `q` any queue
reachable from `build reqs` by successful removals, `abs q` the requests still pending.  Then `can_access`
grants request `(wr, o)` exactly when it is pending and

* every request registered before it has been removed, or
* it is a read and every request still pending before it is a read (unbroken run of reads), or
* it is a write, its owner's own read is the oldest pending request and the write directly follows it (so no other
  reader remains in front of it). -/
theorem C19_served_iff_reachable (reqs : List Req) (hpo : programOrder reqs = true) (q : Queue)
    (hq : Reachable reqs q) (wr : Bool) (o : Nat) :
    q.canAccess wr o = some true ↔
      (wr, o) ∈ abs q ∧
      ((∀ pre post, reqs = pre ++ (wr, o) :: post → ∀ r ∈ pre, r ∉ abs q) ∨
       (wr = false ∧ ∃ pre post, abs q = pre ++ (false, o) :: post ∧ ∀ r ∈ pre, r.1 = false) ∨
       (wr = true ∧ ∃ rest, abs q = (false, o) :: (true, o) :: rest)) := by
  have hwf := C19_reachable_wf hq
  obtain ⟨os, hos⟩ := hq
  have hsub := C19_pending_sublist reqs (programOrder_runsDistinct hpo) os q hos
  have hhead := head_iff_earlier_removed (programOrder_nodup hpo) hsub (wr, o)
  rw [canAccess_refines hwf, C19_served_iff]
  constructor
  · rintro ⟨hm, h⟩
    refine ⟨hm, ?_⟩
    rcases h with ⟨hw, hl⟩ | ⟨hw, hh | hh⟩
    · exact Or.inr (Or.inl ⟨hw, (mem_leadReads_iff _ _).1 hl⟩)
    · subst hw; exact Or.inl (hhead.1 hh).2
    · exact Or.inr (Or.inr ⟨hw, (own_read_write_iff _ _).1 hh⟩)
  · rintro ⟨hm, h⟩
    refine ⟨hm, ?_⟩
    rcases h with h | ⟨hw, h⟩ | ⟨hw, h⟩
    · have hh := hhead.2 ⟨hm, h⟩
      cases wr with
      | true => exact Or.inr ⟨rfl, Or.inl hh⟩
      | false =>
        refine Or.inl ⟨rfl, ?_⟩
        cases hp : abs q with
        | nil => rw [hp] at hh; simp at hh
        | cons x t =>
          rw [hp] at hh
          simp only [List.head?_cons, Option.some.injEq] at hh
          subst hh; simp
    · exact Or.inl ⟨hw, (mem_leadReads_iff _ _).2 h⟩
    · exact Or.inr ⟨hw, Or.inr ((own_read_write_iff _ _).2 h)⟩

/-- In program order, a pending write that directly follows its owner's pending read was registered directly
after it: nothing was ever registered between the two. -/
theorem C19_own_pair_adjacent_in_reqs (reqs : List Req) (hpo : programOrder reqs = true) (pending : List Req)
    (hsub : pending.Sublist reqs) (o : Nat) (rest : List Req)
    (hp : pending = (false, o) :: (true, o) :: rest) :
    ∃ pre post, reqs = pre ++ (false, o) :: (true, o) :: post :=
  own_pair_adjacent hpo (hp ▸ hsub)

/-! ## second sentence: removing served requests never fails and ends with an empty queue -/

/-- a removal is permitted (`removable`) exactly when the owner has a request that is being served -/
theorem C19_removable_iff_served (q : Queue) (h : WFq q) (o : Nat) :
    removable (abs q) o = true ↔ (q.canAccess true o = some true ∨ q.canAccess false o = some true) := by
  rw [canAccess_refines h, canAccess_refines h]
  constructor
  · exact canServe_of_removable
  · rintro (h | h) <;> exact removable_of_canServe h

/-- (a) a permitted removal never fails — and `dequeue` raises exactly when the removal is not permitted -/
theorem C19_dequeue_isSome (q : Queue) (h : WFq q) (o : Nat) :
    (q.dequeue o).isSome = removable (abs q) o := by
  rw [removable, ← dequeue_refines h o]
  cases q.dequeue o <;> rfl

theorem C19_permitted_removal_succeeds (q : Queue) (h : WFq q) (o : Nat)
    (hp : removable (abs q) o = true) : ∃ q', q.dequeue o = some q' := by
  rw [← C19_dequeue_isSome q h o] at hp
  exact Option.isSome_iff_exists.1 hp

/-- (e) the owner of a served request can always remove: `dequeue` succeeds -/
theorem C19_served_removal_succeeds (q : Queue) (h : WFq q) (wr : Bool) (o : Nat)
    (hs : q.canAccess wr o = some true) : ∃ q', q.dequeue o = some q' := by
  apply C19_permitted_removal_succeeds q h o
  rw [canAccess_refines h] at hs
  exact removable_of_canServe hs

/-- (e) a served read / a served head write is the request that `dequeue` removes -/
theorem C19_served_read_removed (q : Queue) (h : WFq q) (o : Nat) (hs : q.canAccess false o = some true) :
    ∃ q', q.dequeue o = some q' ∧ abs q' = (abs q).erase (false, o) := by
  obtain ⟨q', hq'⟩ := C19_served_removal_succeeds q h false o hs
  refine ⟨q', hq', ?_⟩
  rw [canAccess_refines h, canServe_eq_some_true_iff] at hs
  rcases C19_dequeue_removes h hq' with hd | hd
  · rcases hs with ⟨_, hl⟩ | ⟨hw, _⟩
    · rw [hd] at hl; simp at hl
    · cases hw
  · exact hd.2

/-- (e) self-dependent instruction (defect D1): when both the read and the write of one owner are granted, the
write directly follows the read at the front, and the two `dequeue`s the simulator then issues both succeed and
remove exactly these two requests. -/
theorem C19_own_pair_dequeues (q : Queue) (h : WFq q) (o : Nat)
    (hr : q.canAccess false o = some true) (hw : q.canAccess true o = some true) :
    ∃ q1 q2 rest, abs q = (false, o) :: (true, o) :: rest ∧
      q.dequeue o = some q1 ∧ abs q1 = (true, o) :: rest ∧
      q1.dequeue o = some q2 ∧ abs q2 = rest := by
  rw [canAccess_refines h] at hr hw
  obtain ⟨rest, hshape⟩ := own_pair_shape hr hw
  have hrs := removeSpec_own_pair o rest
  have h1 := dequeue_refines h o
  rw [hshape, hrs.1] at h1
  cases hd1 : q.dequeue o with
  | none => rw [hd1] at h1; simp at h1
  | some q1 =>
    rw [hd1] at h1
    have ha1 : abs q1 = (true, o) :: rest := by simpa using h1
    have hwf1 := dequeue_wf h hd1
    have h2 := dequeue_refines hwf1 o
    rw [ha1, hrs.2] at h2
    cases hd2 : q1.dequeue o with
    | none => rw [hd2] at h2; simp at h2
    | some q2 =>
      rw [hd2] at h2
      exact ⟨q1, q2, rest, hshape, rfl, ha1, hd2, by simpa using h2⟩

/-- (b) progress: in a non-empty queue some owner has a permitted removal -/
theorem C19_progress (q : Queue) (h : WFq q) (hne : q ≠ []) : ∃ o, removable (abs q) o = true :=
  exists_removable (fun e => hne ((abs_eq_nil_iff h).1 e))

/-- (c) a successful `dequeue` removes exactly one request -/
theorem C19_dequeue_length {q q' : Queue} {o : Nat} (h : WFq q) (hd : q.dequeue o = some q') :
    (abs q').length + 1 = (abs q).length := by
  have hr := dequeue_refines h o
  rw [hd] at hr
  exact removeSpec_length hr.symm

/-- (d) a history of removals succeeds on the queue iff it is a permitted history of the pending list -/
theorem C19_permitted_history_iff (q : Queue) (h : WFq q) (os : List Nat) :
    PermittedHistory (abs q) os ↔ ∃ q', runHistory q os = some q' := by
  rw [permittedHistory_iff, ← runHistory_refines h os]
  cases runHistory q os <;> simp

/-- (d) a successful history of `n` removals leaves `n` requests fewer -/
theorem C19_history_length {q q' : Queue} {os : List Nat} (h : WFq q) (hr : runHistory q os = some q') :
    (abs q').length + os.length = (abs q).length := by
  have h1 := runHistory_refines h os
  rw [hr] at h1
  exact runSpec_length h1.symm

/-- (d) no dead-lock inside the queue: from any well-formed queue some permitted history empties it -/
theorem C19_history_extends (q : Queue) (h : WFq q) :
    ∃ os, PermittedHistory (abs q) os ∧ runHistory q os = some [] ∧ os.length = (abs q).length := by
  obtain ⟨os, hos⟩ := exists_runSpec_empty (abs q)
  have hp : PermittedHistory (abs q) os := (permittedHistory_iff _ _).2 (by simp [hos])
  obtain ⟨q', hq'⟩ := (C19_permitted_history_iff q h os).1 hp
  have h1 := runHistory_refines h os
  rw [hq', hos] at h1
  have hnil : q' = [] := (abs_eq_nil_iff (runHistory_wf h hq')).1 (by simpa using h1)
  subst hnil
  have := runSpec_length hos
  exact ⟨os, hp, hq', by simpa using this⟩

/-- **Second sentence of C19.**  `reqs` registered in program order, `q0 = build reqs`.

1. every permitted history of removals succeeds (never raises), keeps the queue well formed, and leaves an
   order-preserving sublist of `reqs` with exactly one request fewer per removal;
2. a successful history has emptied the queue exactly when it is as long as `reqs` (so any complete permitted
   order of removals ends with the empty queue, and no shorter one does);
3. every successful history can be extended by permitted removals to one that ends with the empty queue (no
   dead-lock inside the queue). -/
theorem C19_removals_total (reqs : List Req) (hpo : programOrder reqs = true) (os : List Nat) :
    (PermittedHistory reqs os →
      ∃ q, runHistory (Queue.build reqs) os = some q ∧ WFq q ∧ (abs q).Sublist reqs ∧
        (abs q).length + os.length = reqs.length) ∧
    (∀ q, runHistory (Queue.build reqs) os = some q → (q = [] ↔ os.length = reqs.length)) ∧
    (∀ q, runHistory (Queue.build reqs) os = some q →
      ∃ os', PermittedHistory (abs q) os' ∧ runHistory (Queue.build reqs) (os ++ os') = some [] ∧
        (os ++ os').length = reqs.length) := by
  have hrd := programOrder_runsDistinct hpo
  have hwf := C19_build_wf reqs
  have habs := C19_abs_build reqs hrd
  refine ⟨?_, ?_, ?_⟩
  · intro hp
    rw [← habs] at hp
    obtain ⟨q, hq⟩ := (C19_permitted_history_iff _ hwf os).1 hp
    have hl := C19_history_length hwf hq
    rw [habs] at hl
    exact ⟨q, hq, runHistory_wf hwf hq, C19_pending_sublist reqs hrd os q hq, hl⟩
  · intro q hq
    have hl := C19_history_length hwf hq
    rw [habs] at hl
    have hwq := runHistory_wf hwf hq
    constructor
    · intro e; subst e; simpa using hl
    · intro e
      apply (abs_eq_nil_iff hwq).1
      apply List.length_eq_zero_iff.1
      omega
  · intro q hq
    have hwq := runHistory_wf hwf hq
    obtain ⟨os', hp, hr, hlen⟩ := C19_history_extends q hwq
    have hl := C19_history_length hwf hq
    rw [habs] at hl
    refine ⟨os', hp, ?_, ?_⟩
    · rw [runHistory_append, hq]; exact hr
    · rw [List.length_append]; omega

/-! ## non-vacuity -/

section examples

-- `reqs0` below: a program-order sequence with two self-dependent owners (1 and 2)
local notation "reqs0" => ([(false, 0), (false, 1), (true, 1), (false, 2), (true, 2), (false, 3)] : List Req)

example : programOrder reqs0 = true := by decide
example : runsDistinct reqs0 = true := by decide
example : Queue.build reqs0 = [⟨false, [0, 1]⟩, ⟨true, [1]⟩, ⟨false, [2]⟩, ⟨true, [2]⟩, ⟨false, [3]⟩] := by decide
example : abs (Queue.build reqs0) = reqs0 := by decide
example : wfq (Queue.build reqs0) = true := by decide
-- reads of the leading run are served together; the write of 1 waits for the other reader 0
example : (Queue.build reqs0).canAccess false 0 = some true := by decide
example : (Queue.build reqs0).canAccess false 1 = some true := by decide
example : (Queue.build reqs0).canAccess true 1 = some false := by decide
example : (Queue.build reqs0).canAccess false 2 = some false := by decide
-- once reader 0 is removed, owner 1 is granted read and write together
example : ((Queue.build reqs0).dequeue 0).bind (fun q => q.canAccess true 1) = some true := by decide
example : ((Queue.build reqs0).dequeue 0).bind (fun q => q.canAccess false 1) = some true := by decide
-- defect D1: a lone self-dependent instruction is granted both its read and its write
example : (Queue.build [(false, 0), (true, 0)]).canAccess false 0 = some true ∧
    (Queue.build [(false, 0), (true, 0)]).canAccess true 0 = some true := by decide
example : runHistory (Queue.build [(false, 0), (true, 0)]) [0, 0] = some [] := by decide
-- the empty queue raises
example : (Queue.build []).canAccess true 0 = none ∧ (Queue.build []).dequeue 0 = none := by decide
-- complete permitted histories end with the empty queue, in either order of the two leading readers
example : runHistory (Queue.build reqs0) [0, 1, 1, 2, 2, 3] = some [] := by decide
example : runHistory (Queue.build reqs0) [1, 0, 1, 2, 2, 3] = some [] := by decide
-- a removal that is not permitted raises (owner 1's write while reader 0 is still pending)
example : runHistory (Queue.build reqs0) [1, 1] = none := by decide
example : removable (abs (Queue.build reqs0)) 2 = false := by decide
-- without the hypothesis of C19_abs_build the builder's set merges a repeated read
example : abs (Queue.build [(false, 0), (false, 0)]) = [(false, 0)] := by decide

end examples

end ProcSim
