import ProcSim.Props.C06
import ProcSim.Props.C08
/-!
# C06 on the stall path

`Spec.C06Stall`: when the run ends in a stall error, the next instruction (if any) found every supporting input port
full — in the last recorded row, or in the empty record before the first cycle when the carried diagram is empty.  It is
the issue half of "nothing can progress" (`Spec.frozen`), so it follows from C08's second clause.
-/
namespace ProcSim
open Spec

variable {N : Type} [DecidableEq N] [LT N] [DecidableRel (α := N) (· < ·)]

/-- **C06 for the cycle in which a dead-lock is detected.** For every well-formed processor, every program and the
diagram carried by a stall error: the next instruction was held back with every supporting input port full. -/
theorem C06_stall_held_back (p : Proc N) (prog : List (Instr N)) (tbl : List (Util N)) (stalled : Bool)
    (hwf : wfProc p = true) (hprog : Hazards.ProgOK prog) (h : Diagram p prog tbl stalled) :
    (Spec.C06Stall (ctx p prog tbl stalled)).ok = true := by
  have h8 := C08_stall_frozen p prog tbl stalled hwf hprog h
  simp only [Spec.C08, List.getD_eq_getElem?_getD, List.getElem?_cons_succ, List.getElem?_cons_zero,
    Option.getD_some] at h8
  simp only [Spec.C06Stall, Clauses.ok, List.all_cons, List.all_nil, Bool.and_true]
  cases hs : (ctx p prog tbl stalled).stalled with
  | false => simp
  | true =>
    rw [hs] at h8
    simp only [Bool.not_true, Bool.false_or] at h8 ⊢
    unfold Spec.frozen at h8
    rw [Bool.and_eq_true] at h8
    exact h8.2

end ProcSim
