import ProcSim.Lemmas.StructWF
/-!
# C03 — each instruction follows one legal gap-free route from an input to an output

For every well-formed processor, every program and every diagram `simulate` hands out (returned, or carried by the
stall error) the nine clauses of the checker `Spec.C03` hold:

1. the instructions in the diagram are a prefix `0..k-1` of the program;
2. only program instructions and only unit names appear;
3. a returned diagram contains every instruction;
4. every instruction of the diagram occupies one unit per cycle over one contiguous span of cycles,
5. starting in an input-boundary port,
6. every occupied unit supporting its capability,
7. its labels inside each unit reading `D..D, U, S..S` (`D+` alone only for a stay that reaches the frozen last cycle
   of a stall diagram),
8. every change of unit following a declared connection and never leaving from `D`,
9. ending unstalled (`U`) in an output-boundary port (unless still in flight in the last cycle of a stall diagram).

Proof architecture (`Lemmas/RoutesCore.lean`, `Lemmas/Routes.lean`): the two-row relation `Step` is proved once for
`runCycle` (every hosted instruction stayed / moved along a declared connection out of a non-`D` label / was issued
into a supporting input port; instructions vanish only from the output boundary when not `D`); the state invariant
`RouteInv` chains it over the table together with the entered counters and bounds the retirement counter, so that a
finished state hosts only `U` instructions in output ports; `Routed.routeOf` turns this into a list-level
description `RouteOf` of `Ctx.positions i`, from which the clauses are list arguments.
-/
namespace ProcSim
open Spec
open Routes

attribute [local implicit_reducible] AMap

variable {N : Type} [DecidableEq N]

/-! ## Readable form -/

/-- the labels of one stay in a unit read `D..D, U, S..S`; with an open end `D, …, D` (at least one) is allowed too -/
def StayLabels (openEnd : Bool) (ls : List Stall) : Prop :=
  (∃ k m, ls = List.replicate k Stall.D ++ Stall.U :: List.replicate m Stall.S) ∨
  (openEnd = true ∧ ∃ k, ls = List.replicate (k + 1) Stall.D)

/-- **The route of instruction `i` is legal** (clauses 4–9), `l = c.positions i` being its `(cycle, unit, label)`
positions in diagram order. -/
structure GoodRoute (c : Ctx N) (i : Nat) : Prop where
  /-- one position per cycle, over consecutive cycles -/
  contiguous : Adjacent (fun a b => b.1 = a.1 + 1) (c.positions i)
  /-- starts in an input-boundary port -/
  starts : ∃ x, (c.positions i).head? = some x ∧ x.2.1.name ∈ c.p.inBoundary.map (·.name)
  /-- every occupied unit supports the capability -/
  supports : ∀ x ∈ c.positions i, capIn c.prog i x.2.1.caps = true
  /-- labels per stay (`stays` = maximal runs in the same unit); the stay reaching the last cycle of a stall diagram
  has an open end -/
  labels : ∀ s ∈ stays (c.positions i),
    StayLabels (c.stalled && (s.getLast?.map (·.1 + 1)) == some c.T) (s.map (·.2.2))
  /-- a change of unit follows a declared connection and does not leave from `D` -/
  moves : Adjacent (fun a b => a.2.1.name = b.2.1.name ∨ (a.2.1.name ∈ predsOf c.p b.2.1.name ∧ a.2.2 ≠ .D))
    (c.positions i)
  /-- ends unstalled in an output-boundary port, unless in flight in the last cycle of a stall diagram -/
  ends : ∃ x, (c.positions i).getLast? = some x ∧
    ((c.stalled = true ∧ x.1 + 1 = c.T) ∨ (x.2.1.name ∈ c.p.outBoundary ∧ x.2.2 = .U))

/-- **C03, readable form.** -/
structure C03_Holds (c : Ctx N) : Prop where
  /-- the instructions in the diagram are exactly `0 … enteredCount - 1` -/
  isPrefix : ∀ i, i < c.n → (c.issued i = true ↔ i < c.enteredCount)
  /-- only program instructions are hosted -/
  inProgram : ∀ t, t < c.T → ∀ u ∈ c.units, ∀ h ∈ c.occ t u.name, h.idx < c.n
  /-- only units of the processor host anything -/
  unitsOnly : ∀ t, t < c.T → ∀ e ∈ AMap.toList (c.row t), e.2 = [] ∨ e.1 ∈ c.units.map (·.name)
  /-- a returned diagram contains every instruction -/
  complete : c.stalled = false → c.enteredCount = c.n
  /-- every instruction of the diagram has a legal route -/
  route : ∀ i, i < c.enteredCount → GoodRoute c i

theorem stayOK_iff (o : Bool) : ∀ ls, stayOK o ls = true ↔ StayLabels o ls
  | [] => by
    simp only [stayOK, Bool.false_eq_true, false_iff]
    rintro (⟨k, m, h⟩ | ⟨_, k, h⟩)
    · cases k <;> simp [List.replicate_succ] at h
    · simp [List.replicate_succ] at h
  | .S :: rest => by
    simp only [stayOK, Bool.false_eq_true, false_iff]
    rintro (⟨k, m, h⟩ | ⟨_, k, h⟩)
    · cases k <;> simp [List.replicate_succ] at h
    · simp [List.replicate_succ] at h
  | .U :: rest => by
    simp only [stayOK]
    constructor
    · intro h
      left
      refine ⟨0, rest.length, ?_⟩
      simp only [List.replicate_zero, List.nil_append, List.cons.injEq, true_and]
      exact List.eq_replicate_iff.2 ⟨rfl, fun s hs => by simpa using List.all_eq_true.1 h s hs⟩
    · rintro (⟨k, m, h⟩ | ⟨_, k, h⟩)
      · cases k with
        | zero =>
          simp only [List.replicate_zero, List.nil_append, List.cons.injEq, true_and] at h
          rw [h]; simp
        | succ k => simp [List.replicate_succ] at h
      · simp [List.replicate_succ] at h
  | .D :: rest => by
    have ih := stayOK_iff o rest
    simp only [stayOK]
    cases rest with
    | nil =>
      simp only [List.isEmpty_nil, if_true]
      constructor
      · intro h; right; exact ⟨h, 0, rfl⟩
      · rintro (⟨k, m, h⟩ | ⟨h, _⟩)
        · cases k with
          | zero => simp at h
          | succ k => simp [List.replicate_succ] at h
        · exact h
    | cons r rest' =>
      simp only [List.isEmpty_cons, Bool.false_eq_true, if_false]
      rw [ih]
      constructor
      · rintro (⟨k, m, h⟩ | ⟨ho, k, h⟩)
        · left; exact ⟨k + 1, m, by rw [h]; simp [List.replicate_succ]⟩
        · right; exact ⟨ho, k + 1, by rw [h]; simp [List.replicate_succ]⟩
      · rintro (⟨k, m, h⟩ | ⟨ho, k, h⟩)
        · cases k with
          | zero => simp at h
          | succ k => left; exact ⟨k, m, by simpa [List.replicate_succ] using h⟩
        · cases k with
          | zero => simp [List.replicate_succ] at h
          | succ k => right; exact ⟨ho, k, by simpa [List.replicate_succ] using h⟩

/-! ## From the route to the readable form -/

/-- a route (`Lemmas/Routes.lean`) is a legal route in the sense of the checker -/
theorem RouteOf.good {c : Ctx N} {E : Nat → Nat} {i : Nat} (h : RouteOf c E i (c.positions i)) : GoodRoute c i := by
  have hne := h.ne
  refine ⟨h.chain.imp (fun a b hab => hab.1), ?_, ?_, ?_, ?_, ?_⟩
  · cases hp : c.positions i with
    | nil => exact absurd hp hne
    | cons x l =>
      refine ⟨x, rfl, ?_⟩
      have := (h.first x (by rw [hp]; rfl)).1
      exact List.mem_map.2 ⟨_, this, rfl⟩
  · refine forall_of_adjacent (P := fun x => capIn c.prog i x.2.1.caps = true) ?_ h.chain
      (fun x hx => (h.first x hx).2.2.1)
    intro a b hab ha
    rcases hab.2 with ⟨e, _⟩ | ⟨_, _, _, _, hcap⟩
    · rw [← e]; exact ha
    · exact hcap
  · have hall := stays_all_good c.stalled c.T hne h.chain (fun x hx => (h.first x hx).2.1) (by
      intro x hx hd
      rcases h.last x hx with ⟨h1, h2⟩ | ⟨_, h2⟩
      · simp [h1, h2]
      · rw [h2] at hd; cases hd)
    intro s hs
    exact (stayOK_iff _ _).1 (List.all_eq_true.1 hall s hs)
  · refine h.chain.imp ?_
    intro a b hab
    rcases hab.2 with ⟨e, _⟩ | ⟨_, hp, hd, _, _⟩
    · exact Or.inl (by rw [e])
    · exact Or.inr ⟨hp, hd⟩
  · cases hl : (c.positions i).getLast? with
    | none => exact absurd (List.getLast?_eq_none_iff.1 hl) hne
    | some x => exact ⟨x, rfl, h.last x hl⟩

/-- a routed context satisfies C03 -/
theorem Routed.c03_holds {c : Ctx N} {E : Nat → Nat} (h : Routed c E) : C03_Holds c := by
  have hk := h.enteredCount_eq
  refine ⟨?_, ?_, ?_, ?_, ?_⟩
  · intro i _
    rw [hk]; exact h.issued_iff i
  · intro t ht u _ x hx
    have h1 := (h.rowBase ht).idx_lt u.name x hx
    have h2 := h.mono (t := t + 1) (t' := c.T) (by omega) (Nat.le_refl _)
    have h3 := h.le_n
    omega
  · intro t ht e he
    exact (h.rowBase ht).entry_names (n := e.1) (l := e.2) he
  · intro hst
    rw [hk]; exact (h.done hst).1
  · intro i hi
    exact (h.routeOf (by rw [← hk]; exact hi)).good

/-! ## The Bool checker says exactly `C03_Holds` -/

theorem goodRoute_iff (c : Ctx N) (i : Nat) :
    GoodRoute c i ↔
      consec ((c.positions i).map (·.1)) = true ∧
      (match (c.positions i).head? with
        | some x => isInB c.p x.2.1.name
        | none => false) = true ∧
      (c.positions i).all (fun x => supports c.prog i x.2.1) = true ∧
      (stays (c.positions i)).all (fun s =>
        stayOK (c.stalled && (s.getLast?.map (·.1 + 1)) == some c.T) (s.map (·.2.2))) = true ∧
      pairsOK (fun a b => a.2.1.name = b.2.1.name ||
        (decide (a.2.1.name ∈ predsOf c.p b.2.1.name) && a.2.2 != .D)) (c.positions i) = true ∧
      (match (c.positions i).getLast? with
        | some x => (c.stalled && x.1 + 1 == c.T) || (isOutB c.p x.2.1.name && x.2.2 == .U)
        | none => false) = true := by
  have e1 := consec_iff_adjacent (fun x : Nat × UnitM N × Stall => x.1) (l := c.positions i)
  have e2 : (match (c.positions i).head? with
        | some x => isInB c.p x.2.1.name
        | none => false) = true ↔
      ∃ x, (c.positions i).head? = some x ∧ x.2.1.name ∈ c.p.inBoundary.map (·.name) := by
    cases (c.positions i).head? with
    | none => simp
    | some x => simp [isInB]
  have e3 : (c.positions i).all (fun x => supports c.prog i x.2.1) = true ↔
      ∀ x ∈ c.positions i, capIn c.prog i x.2.1.caps = true := by
    rw [List.all_eq_true]; rfl
  have e4 : (stays (c.positions i)).all (fun s =>
        stayOK (c.stalled && (s.getLast?.map (·.1 + 1)) == some c.T) (s.map (·.2.2))) = true ↔
      ∀ s ∈ stays (c.positions i),
        StayLabels (c.stalled && (s.getLast?.map (·.1 + 1)) == some c.T) (s.map (·.2.2)) := by
    rw [List.all_eq_true]
    exact forall_congr' (fun s => forall_congr' (fun _ => stayOK_iff _ _))
  have e5 := (pairsOK_iff_adjacent (fun a b : Nat × UnitM N × Stall => a.2.1.name = b.2.1.name ||
        (decide (a.2.1.name ∈ predsOf c.p b.2.1.name) && a.2.2 != .D)) (l := c.positions i)).trans
      (Adjacent_congr (S := fun a b => a.2.1.name = b.2.1.name ∨ (a.2.1.name ∈ predsOf c.p b.2.1.name ∧ a.2.2 ≠ .D))
        (fun a b => by simp))
  have e6 : (match (c.positions i).getLast? with
        | some x => (c.stalled && x.1 + 1 == c.T) || (isOutB c.p x.2.1.name && x.2.2 == .U)
        | none => false) = true ↔
      ∃ x, (c.positions i).getLast? = some x ∧
        ((c.stalled = true ∧ x.1 + 1 = c.T) ∨ (x.2.1.name ∈ c.p.outBoundary ∧ x.2.2 = .U)) := by
    cases (c.positions i).getLast? with
    | none => simp
    | some x => simp [isOutB]
  rw [e1, e2, e3, e4, e5, e6]
  exact ⟨fun h => ⟨h.contiguous, h.starts, h.supports, h.labels, h.moves, h.ends⟩,
    fun h => ⟨h.1, h.2.1, h.2.2.1, h.2.2.2.1, h.2.2.2.2.1, h.2.2.2.2.2⟩⟩

/-- **The Bool checker evaluated by the driver says exactly `C03_Holds`.** -/
theorem C03_ok_iff (c : Ctx N) : (Spec.C03 c).ok = true ↔ C03_Holds c := by
  simp only [Spec.C03, Clauses.ok, List.all_cons, List.all_nil, Bool.and_true, Bool.and_eq_true,
    List.all_eq_true, List.mem_range, beq_iff_eq, decide_eq_true_eq, Bool.or_eq_true]
  constructor
  · rintro ⟨h1, ⟨h2a, h2b⟩, h3, h4, h5, h6, h7, h8, h9⟩
    refine ⟨?_, h2a, ?_, ?_, ?_⟩
    · intro i hi
      have := h1 i hi
      rw [this]; simp
    · intro t ht e he
      have := h2b t ht e he
      simpa [List.isEmpty_iff] using this
    · intro hst
      rcases h3 with h3 | h3
      · rw [hst] at h3; cases h3
      · exact h3
    · intro i hi
      exact (goodRoute_iff c i).2 ⟨h4 i hi, h5 i hi, List.all_eq_true.2 (h6 i hi), List.all_eq_true.2 (h7 i hi),
        h8 i hi, h9 i hi⟩
  · intro h
    have hr := fun i hi => (goodRoute_iff c i).1 (h.route i hi)
    refine ⟨?_, ⟨h.inProgram, ?_⟩, ?_, fun i hi => (hr i hi).1, fun i hi => (hr i hi).2.1,
      fun i hi => List.all_eq_true.1 (hr i hi).2.2.1, fun i hi => List.all_eq_true.1 (hr i hi).2.2.2.1,
      fun i hi => (hr i hi).2.2.2.2.1, fun i hi => (hr i hi).2.2.2.2.2⟩
    · intro i hi
      have := h.isPrefix i hi
      cases hb : c.issued i <;> simp_all
    · intro t ht e he
      have := h.unitsOnly t ht e he
      simpa [List.isEmpty_iff] using this
    · cases hst : c.stalled with
      | true => exact Or.inl rfl
      | false => exact Or.inr (h.complete hst)

variable [LT N] [DecidableRel (α := N) (· < ·)]

/-! ## The theorems -/

/-- **C03 (readable form).** -/
theorem C03_routes' (p : Proc N) (prog : List (Instr N)) (tbl : List (Util N)) (stalled : Bool)
    (hwf : wfProc p = true) (h : Diagram p prog tbl stalled) : C03_Holds (ctx p prog tbl stalled) := by
  obtain ⟨E, hE⟩ := Diagram_routed hwf h
  exact hE.c03_holds

/-- **C03.** For a well-formed processor, every diagram of `simulate` — returned or carried by the stall error —
passes all nine clauses of the C03 checker. -/
theorem C03_routes (p : Proc N) (prog : List (Instr N)) (tbl : List (Util N)) (stalled : Bool)
    (hwf : wfProc p = true) (h : Diagram p prog tbl stalled) : (Spec.C03 (ctx p prog tbl stalled)).ok = true :=
  (C03_ok_iff _).2 (C03_routes' p prog tbl stalled hwf h)

/-! ## Non-vacuity

**Fork/join.** Input port `0` (width 2, read lock, capabilities `7` and `8`) forks into the internal units `1`
(capability `7`) and `2` (capability `8`), which join in the output port `3` (width 1, write lock). Four
instructions: `0: r11 := f(r10)` (cap 7), `1: r13 := f(r12)` (cap 8), `2: r11 := f(r11, r13)` (cap 7, *self-dependent*:
reads and writes `r11`, and depends on both older instructions), `3: r14 := f(r11)` (cap 8). The processor is
well-formed; the run returns the 10-cycle diagram below, in which instruction `1` is structurally stalled (`S`) at
the join in cycle 2 (the older instruction `0` takes the output port), instructions `2` and `3` wait data-stalled
(`D`) in the input port, and every route reads input port → branch → output port. -/
namespace C03Example

def u0 : UnitM Nat := ⟨0, 2, [7, 8], true, false, []⟩
def u1 : UnitM Nat := ⟨1, 1, [7], false, false, []⟩
def u2 : UnitM Nat := ⟨2, 1, [8], false, false, []⟩
def u3 : UnitM Nat := ⟨3, 1, [7, 8], false, true, []⟩
def proc : Proc Nat :=
  { inPorts := [u0], outPorts := [⟨u3, [1, 2]⟩], inOut := [], internal := [⟨u1, [0]⟩, ⟨u2, [0]⟩] }
def prog : List (Instr Nat) := [⟨[10], 11, 7⟩, ⟨[12], 13, 8⟩, ⟨[11, 13], 11, 7⟩, ⟨[11], 14, 8⟩]

example : wfProc proc = true := by decide

/-- the diagram `simulate` returns (rows = cycles; each row lists the units `3, 1, 2, 0` with their hosted
`⟨instruction, label⟩`) -/
def table : List (Util Nat) :=
  [[(3, []), (1, []), (2, []), (0, [⟨0, .U⟩, ⟨1, .U⟩])],
   [(3, []), (1, [⟨0, .U⟩]), (2, [⟨1, .U⟩]), (0, [⟨2, .D⟩, ⟨3, .D⟩])],
   [(3, [⟨0, .U⟩]), (1, []), (2, [⟨1, .S⟩]), (0, [⟨2, .D⟩, ⟨3, .D⟩])],
   [(3, [⟨1, .U⟩]), (1, []), (2, []), (0, [⟨2, .D⟩, ⟨3, .D⟩])],
   [(3, []), (1, []), (2, []), (0, [⟨2, .U⟩, ⟨3, .D⟩])],
   [(3, []), (1, [⟨2, .U⟩]), (2, []), (0, [⟨3, .D⟩])],
   [(3, [⟨2, .U⟩]), (1, []), (2, []), (0, [⟨3, .D⟩])],
   [(3, []), (1, []), (2, []), (0, [⟨3, .U⟩])],
   [(3, []), (1, []), (2, [⟨3, .U⟩]), (0, [])],
   [(3, [⟨3, .U⟩]), (1, []), (2, []), (0, [])]]

example : (match simulate proc prog with
    | .done tbl => tbl == table
    | _ => false) = true := by decide

/-- the routes the checker reads off the diagram: `(cycle, unit, label)` per instruction -/
def routes (tbl : List (Util Nat)) : List (List (Nat × Nat × Stall)) :=
  (List.range 4).map (fun i => ((ctx proc prog tbl false).positions i).map
    (fun (x : Nat × UnitM Nat × Stall) => (x.1, x.2.1.name, x.2.2)))

example : routes table =
    [[(0, 0, .U), (1, 1, .U), (2, 3, .U)],
     [(0, 0, .U), (1, 2, .U), (2, 2, .S), (3, 3, .U)],
     [(1, 0, .D), (2, 0, .D), (3, 0, .D), (4, 0, .U), (5, 1, .U), (6, 3, .U)],
     [(1, 0, .D), (2, 0, .D), (3, 0, .D), (4, 0, .D), (5, 0, .D), (6, 0, .D), (7, 0, .U), (8, 2, .U), (9, 3, .U)]] := by
  decide

/-- the checker accepts the diagram (evaluated) … -/
example : (Spec.C03 (ctx proc prog table false)).ok = true := by decide

def isDone : Outcome Nat → Bool
  | .done _ => true
  | _ => false

/-- … and the hypotheses of `C03_routes` are satisfiable: there is a diagram, and the theorem applies to it -/
example : ∃ tbl, Diagram proc prog tbl false ∧ (Spec.C03 (ctx proc prog tbl false)).ok = true := by
  have hd : isDone (simulate proc prog) = true := by decide
  cases h : simulate proc prog with
  | done tbl => exact ⟨tbl, Or.inl ⟨rfl, h⟩, C03_routes proc prog tbl false (by decide) (Or.inl ⟨rfl, h⟩)⟩
  | stall tbl => rw [h] at hd; cases hd
  | fault f => rw [h] at hd; cases hd

end C03Example

/-! **A stall diagram with instructions in flight.** Chain `0` (width 2, read lock) → `1` (write lock) → `2` (output,
capability `7` only). Instruction `0` has capability `9`, which the output port does not support: it stays in unit
`1` for ever (`U, S, …`); instruction `1` behind it is structurally stalled in the input port, instruction `2` reads
the register instruction `1` never gets to write: its stay is `D, D` and reaches the frozen last cycle (the open end
of clause 7). `simulate` raises the stall error with the 3-cycle diagram below; the theorem applies with
`stalled = true`. -/
namespace C03StallExample

def u0 : UnitM Nat := ⟨0, 2, [7, 9], true, false, []⟩
def u1 : UnitM Nat := ⟨1, 1, [7, 9], false, true, []⟩
def u2 : UnitM Nat := ⟨2, 1, [7], false, false, []⟩
def proc : Proc Nat := { inPorts := [u0], outPorts := [⟨u2, [1]⟩], inOut := [], internal := [⟨u1, [0]⟩] }
def prog : List (Instr Nat) := [⟨[10], 11, 9⟩, ⟨[12], 13, 7⟩, ⟨[13], 14, 7⟩]

example : wfProc proc = true := by decide

def table : List (Util Nat) :=
  [[(2, []), (1, []), (0, [⟨0, .U⟩, ⟨1, .U⟩])],
   [(2, []), (1, [⟨0, .U⟩]), (0, [⟨1, .S⟩, ⟨2, .D⟩])],
   [(2, []), (1, [⟨0, .S⟩]), (0, [⟨1, .S⟩, ⟨2, .D⟩])]]

example : (match simulate proc prog with
    | .stall tbl => tbl == table
    | _ => false) = true := by decide

example : (Spec.C03 (ctx proc prog table true)).ok = true := by decide

def isStall : Outcome Nat → Bool
  | .stall _ => true
  | _ => false

example : ∃ tbl, Diagram proc prog tbl true ∧ (Spec.C03 (ctx proc prog tbl true)).ok = true := by
  have hd : isStall (simulate proc prog) = true := by decide
  cases h : simulate proc prog with
  | done tbl => rw [h] at hd; cases hd
  | stall tbl => exact ⟨tbl, Or.inr ⟨rfl, h⟩, C03_routes proc prog tbl true (by decide) (Or.inr ⟨rfl, h⟩)⟩
  | fault f => rw [h] at hd; cases hd

end C03StallExample

/-! ## Corollaries: C03 needs only the structural part of `wfProc`

`structOK` (`Lemmas/StructWF.lean`) = unique unit names, sink-first order with existing non-output predecessors, no
repeated predecessor. Neither "every unit has a capability" nor the lock-placement condition on routes is used by the
route proofs; in particular C03 holds for every processor the loader produces (`Props/C16b.lean`). -/

section struct_
variable {N : Type} [DecidableEq N] [LT N] [DecidableRel (α := N) (· < ·)]

/-- **C03 from `structOK` (readable form).** -/
theorem C03_routes_struct' (p : Proc N) (prog : List (Instr N)) (tbl : List (Util N)) (stalled : Bool)
    (hs : structOK p = true) (h : Diagram p prog tbl stalled) : C03_Holds (ctx p prog tbl stalled) := by
  obtain ⟨E, hE⟩ := Diagram_routed_struct hs h
  exact hE.c03_holds

/-- **C03 from `structOK`.** -/
theorem C03_routes_struct (p : Proc N) (prog : List (Instr N)) (tbl : List (Util N)) (stalled : Bool)
    (hs : structOK p = true) (h : Diagram p prog tbl stalled) : (Spec.C03 (ctx p prog tbl stalled)).ok = true :=
  (C03_ok_iff _).2 (C03_routes_struct' p prog tbl stalled hs h)

end struct_

end ProcSim
