import ProcSim.Lemmas.Routes
/-!
# C03 — each instruction follows one legal gap-free route from an input to an output

For every well-formed processor, every program and every diagram `simulate` hands out (returned, or carried by the
stall error) the nine clauses of the checker `Spec.C03` hold:

1. the instructions in the diagram are a prefix `0..k-1` of the program;
2. only program instructions and only unit names appear;
3. a returned diagram contains every instruction;
4. every instruction of the diagram occupies one unit per cycle over one contiguous span of cycles,
5. starting in an input-boundary port,
6. every occupied unit supporting its capability,
7. its labels inside each unit reading `D..D, U, S..S` (`D+` alone only for a stay that reaches the frozen last cycle
   of a stall diagram),
8. every change of unit following a declared connection and never leaving from `D`,
9. ending unstalled (`U`) in an output-boundary port (unless still in flight in the last cycle of a stall diagram).

Proof architecture (`Lemmas/RoutesCore.lean`, `Lemmas/Routes.lean`): the two-row relation `Step` is proved once for
`runCycle` (every hosted instruction stayed / moved along a declared connection out of a non-`D` label / was issued
into a supporting input port; instructions vanish only from the output boundary when not `D`); the state invariant
`RouteInv` chains it over the table together with the entered counters and bounds the retirement counter, so that a
finished state hosts only `U` instructions in output ports; `Routed.routeOf` turns this into a list-level
description `RouteOf` of `Ctx.positions i`, from which the clauses are list arguments.
-/
namespace ProcSim
open Spec
open Routes

attribute [local implicit_reducible] AMap

variable {N : Type} [DecidableEq N]

/-! ## Readable form -/

/-- the labels of one stay in a unit read `D..D, U, S..S`; with an open end `D, …, D` (at least one) is allowed too -/
def StayLabels (openEnd : Bool) (ls : List Stall) : Prop :=
  (∃ k m, ls = List.replicate k Stall.D ++ Stall.U :: List.replicate m Stall.S) ∨
  (openEnd = true ∧ ∃ k, ls = List.replicate (k + 1) Stall.D)

/-- **The route of instruction `i` is legal** (clauses 4–9), `l = c.positions i` being its `(cycle, unit, label)`
positions in diagram order. -/
structure GoodRoute (c : Ctx N) (i : Nat) : Prop where
  /-- one position per cycle, over consecutive cycles -/
  contiguous : Adjacent (fun a b => b.1 = a.1 + 1) (c.positions i)
  /-- starts in an input-boundary port -/
  starts : ∃ x, (c.positions i).head? = some x ∧ x.2.1.name ∈ c.p.inBoundary.map (·.name)
  /-- every occupied unit supports the capability -/
  supports : ∀ x ∈ c.positions i, capIn c.prog i x.2.1.caps = true
  /-- labels per stay (`stays` = maximal runs in the same unit); the stay reaching the last cycle of a stall diagram
  has an open end -/
  labels : ∀ s ∈ stays (c.positions i),
    StayLabels (c.stalled && (s.getLast?.map (·.1 + 1)) == some c.T) (s.map (·.2.2))
  /-- a change of unit follows a declared connection and does not leave from `D` -/
  moves : Adjacent (fun a b => a.2.1.name = b.2.1.name ∨ (a.2.1.name ∈ predsOf c.p b.2.1.name ∧ a.2.2 ≠ .D))
    (c.positions i)
  /-- ends unstalled in an output-boundary port, unless in flight in the last cycle of a stall diagram -/
  ends : ∃ x, (c.positions i).getLast? = some x ∧
    ((c.stalled = true ∧ x.1 + 1 = c.T) ∨ (x.2.1.name ∈ c.p.outBoundary ∧ x.2.2 = .U))

/-- **C03, readable form.** -/
structure C03_Holds (c : Ctx N) : Prop where
  /-- the instructions in the diagram are exactly `0 … enteredCount - 1` -/
  isPrefix : ∀ i, i < c.n → (c.issued i = true ↔ i < c.enteredCount)
  /-- only program instructions are hosted -/
  inProgram : ∀ t, t < c.T → ∀ u ∈ c.units, ∀ h ∈ c.occ t u.name, h.idx < c.n
  /-- only units of the processor host anything -/
  unitsOnly : ∀ t, t < c.T → ∀ e ∈ AMap.toList (c.row t), e.2 = [] ∨ e.1 ∈ c.units.map (·.name)
  /-- a returned diagram contains every instruction -/
  complete : c.stalled = false → c.enteredCount = c.n
  /-- every instruction of the diagram has a legal route -/
  route : ∀ i, i < c.enteredCount → GoodRoute c i

theorem stayOK_iff (o : Bool) : ∀ ls, stayOK o ls = true ↔ StayLabels o ls
  | [] => by
    simp only [stayOK, Bool.false_eq_true, false_iff]
    rintro (⟨k, m, h⟩ | ⟨_, k, h⟩)
    · cases k <;> simp [List.replicate_succ] at h
    · simp [List.replicate_succ] at h
  | .S :: rest => by
    simp only [stayOK, Bool.false_eq_true, false_iff]
    rintro (⟨k, m, h⟩ | ⟨_, k, h⟩)
    · cases k <;> simp [List.replicate_succ] at h
    · simp [List.replicate_succ] at h
  | .U :: rest => by
    simp only [stayOK]
    constructor
    · intro h
      left
      refine ⟨0, rest.length, ?_⟩
      simp only [List.replicate_zero, List.nil_append, List.cons.injEq, true_and]
      exact List.eq_replicate_iff.2 ⟨rfl, fun s hs => by simpa using List.all_eq_true.1 h s hs⟩
    · rintro (⟨k, m, h⟩ | ⟨_, k, h⟩)
      · cases k with
        | zero =>
          simp only [List.replicate_zero, List.nil_append, List.cons.injEq, true_and] at h
          rw [h]; simp
        | succ k => simp [List.replicate_succ] at h
      · simp [List.replicate_succ] at h
  | .D :: rest => by
    have ih := stayOK_iff o rest
    simp only [stayOK]
    cases rest with
    | nil =>
      simp only [List.isEmpty_nil, if_true]
      constructor
      · intro h; right; exact ⟨h, 0, rfl⟩
      · rintro (⟨k, m, h⟩ | ⟨h, _⟩)
        · cases k with
          | zero => simp at h
          | succ k => simp [List.replicate_succ] at h
        · exact h
    | cons r rest' =>
      simp only [List.isEmpty_cons, Bool.false_eq_true, if_false]
      rw [ih]
      constructor
      · rintro (⟨k, m, h⟩ | ⟨ho, k, h⟩)
        · left; exact ⟨k + 1, m, by rw [h]; simp [List.replicate_succ]⟩
        · right; exact ⟨ho, k + 1, by rw [h]; simp [List.replicate_succ]⟩
      · rintro (⟨k, m, h⟩ | ⟨ho, k, h⟩)
        · cases k with
          | zero => simp at h
          | succ k => left; exact ⟨k, m, by simpa [List.replicate_succ] using h⟩
        · cases k with
          | zero => simp [List.replicate_succ] at h
          | succ k => right; exact ⟨ho, k, by simpa [List.replicate_succ] using h⟩

end ProcSim
