import ProcSim.Lemmas.Advance
/-!
# C07 — eager advance: structural stalls only for real contention, oldest first

For every well-formed processor, every program and every pair of consecutive cycles `t-1`, `t` of a diagram handed
out by `simulate`:

* **no bubble** — an instruction that is not data-stalled in a non-output unit `u` in cycle `t-1` and is still in `u`
  in cycle `t` stays only because every successor of `u` supporting its capability is full at the end of cycle `t`,
  or would need the memory port, which another instruction took in cycle `t`;
* **outputs flush** — an instruction that is not data-stalled in an output-boundary unit in cycle `t-1` is not in
  that unit in cycle `t`;
* **oldest first** — if `y` enters `d` in cycle `t` while an older `x < y`, ready in a predecessor of `d` that `d`
  supports, stays behind, then `d` needs the memory port for `x`, not for `y`, and another instruction took the port
  in cycle `t`.

Proof (`Lemmas/Advance.lean`, namespace `ProcSim.Adv`): one fill phase is analysed destination by destination. The stored order is
sink-first (`wfProc_destsOK`), so when a destination `d` is filled, each predecessor still holds exactly what is
left of its previous content (`stays`: anything that left went into an already processed — hence final —
destination, and no index is hosted twice, `RowND`); a ready instruction there is a candidate; `fillTaken_stop` /
`fillTaken_oldest` say why a candidate was not taken; a set memory flag has a witness among the taken candidates of
the destinations processed so far (`flag_witness`), and a taken candidate *enters* (`taken_facts`). After its own
processing `d` is final (its successors were filled earlier, the issue loop touches input-boundary ports only,
relabelling keeps indices), so "full when filled" is "full at the end of the cycle".
-/
namespace ProcSim
open Spec

attribute [local implicit_reducible] AMap

variable {N : Type} [DecidableEq N]

namespace C07

/-! ## the clauses, cycle by cycle -/

/-- body of the first clause of `Spec.C07` for cycle `t` -/
def noBubbleAt (c : Ctx N) (t : Nat) : Bool :=
  c.units.all (fun u => isOutB c.p u.name || (c.occ (t - 1) u.name).all (fun h =>
    h.st == .D || !c.isIn t u.name h.idx ||
    (succsOf c.p u.name).all (fun v => !supports c.prog h.idx v || c.full t v ||
      (needsMem c.prog h.idx v && c.memTakenByOther t h.idx))))

/-- body of the second clause -/
def flushAt (c : Ctx N) (t : Nat) : Bool :=
  c.units.all (fun u => !isOutB c.p u.name || (c.occ (t - 1) u.name).all (fun h =>
    h.st == .D || !c.isIn t u.name h.idx))

/-- body of the third clause -/
def oldestAt (c : Ctx N) (t : Nat) : Bool :=
  c.units.all (fun d => (c.occ t d.name).all (fun y => !c.entersAt t d.name y.idx ||
    (predsOf c.p d.name).all (fun pn => (c.occ (t - 1) pn).all (fun x =>
      !(decide (x.idx < y.idx) && x.st != .D && supports c.prog x.idx d && c.isIn t pn x.idx) ||
      (needsMem c.prog x.idx d && !needsMem c.prog y.idx d && c.memTakenByOther t x.idx)))))

theorem C07_eq (c : Ctx N) :
    Spec.C07 c =
      [ ("no bubble: a ready instruction stays only if every supporting successor is full or memory-blocked",
          ((List.range c.T).filter (· ≠ 0)).all (noBubbleAt c)),
        ("a ready instruction in an output port is gone in the next cycle",
          ((List.range c.T).filter (· ≠ 0)).all (flushAt c)),
        ("oldest first: a younger instruction never takes a place an older ready one could have used",
          ((List.range c.T).filter (· ≠ 0)).all (oldestAt c)) ] := rfl

/-! ## reading the context -/

section read
variable (p : Proc N) (prog : List (Instr N)) (tbl : List (Util N)) (stalled : Bool)

local notation "row" t => List.getD tbl t ([] : List (N × List HI))

omit [DecidableEq N] in
theorem ctx_prog : (ctx p prog tbl stalled).prog = prog := rfl
omit [DecidableEq N] in
theorem ctx_p : (ctx p prog tbl stalled).p = p := rfl
omit [DecidableEq N] in
theorem ctx_units : (ctx p prog tbl stalled).units = p.allUnits := rfl
theorem ctx_occ (t : Nat) (n : N) : (ctx p prog tbl stalled).occ t n = (row t).get n := rfl

theorem isIn_iff (t : Nat) (n : N) (i : Nat) :
    (ctx p prog tbl stalled).isIn t n i = true ↔ Adv.Hosts (row t) n i := by
  simp only [Ctx.isIn, Ctx.occ, Ctx.row, ctx, List.any_eq_true, beq_iff_eq, Adv.Hosts, List.mem_map]

theorem isIn_eq_false_iff (t : Nat) (n : N) (i : Nat) :
    (ctx p prog tbl stalled).isIn t n i = false ↔ ¬ Adv.Hosts (row t) n i := by
  rw [← isIn_iff p prog tbl stalled, Bool.not_eq_true]

theorem entersAt_iff {t : Nat} (ht : t ≠ 0) (n : N) (i : Nat) :
    (ctx p prog tbl stalled).entersAt t n i = true ↔ Adv.Hosts (row t) n i ∧ ¬ Adv.Hosts (row (t - 1)) n i := by
  unfold Ctx.entersAt
  simp only [ht, ne_eq, not_false_eq_true, decide_true, Bool.true_and, Bool.and_eq_true, Bool.not_eq_true',
    isIn_iff, isIn_eq_false_iff]

theorem full_iff (t : Nat) (v : UnitM N) :
    (ctx p prog tbl stalled).full t v = true ↔ v.width ≤ ((row t).get v.name).length := by
  unfold Ctx.full
  rw [ctx_occ]
  exact decide_eq_true_iff

theorem memTakenByOther_iff {t : Nat} (ht : t ≠ 0) (i : Nat) :
    (ctx p prog tbl stalled).memTakenByOther t i = true ↔ Adv.MemTakenByOther p prog (row (t - 1)) (row t) i := by
  unfold Ctx.memTakenByOther Adv.MemTakenByOther
  simp only [List.any_eq_true, Bool.and_eq_true, bne_iff_ne, ne_eq, entersAt_iff p prog tbl stalled ht]
  constructor
  · rintro ⟨w, hw, h, hh, ⟨hne, h1, h2⟩, h3⟩
    exact ⟨w, hw, h.idx, h1, hne, h2, h3⟩
  · rintro ⟨w, hw, j, h1, hne, h2, h3⟩
    obtain ⟨h, hh, rfl⟩ := List.mem_map.1 h1
    exact ⟨w, hw, h, hh, ⟨hne, h1, h2⟩, h3⟩

theorem isOutB_iff (n : N) : isOutB p n = true ↔ n ∈ p.outBoundary := by
  simp only [isOutB, decide_eq_true_eq]

theorem isOutB_eq_false_iff (n : N) : isOutB p n = false ↔ n ∉ p.outBoundary := by
  simp only [isOutB, decide_eq_false_iff_not]

/-- first clause, cycle `t` -/
theorem noBubbleAt_iff {t : Nat} (ht : t ≠ 0) :
    noBubbleAt (ctx p prog tbl stalled) t = true ↔
      ∀ u ∈ p.allUnits, u.name ∉ p.outBoundary → ∀ h ∈ (row (t - 1)).get u.name, h.st ≠ .D →
        Adv.Hosts (row t) u.name h.idx → ∀ v ∈ succsOf p u.name, supports prog h.idx v = true →
          v.width ≤ ((row t).get v.name).length ∨
            (needsMem prog h.idx v = true ∧ Adv.MemTakenByOther p prog (row (t - 1)) (row t) h.idx) := by
  unfold noBubbleAt
  simp only [List.all_eq_true, Bool.or_eq_true, Bool.and_eq_true, Bool.not_eq_true', beq_iff_eq,
    memTakenByOther_iff p prog tbl stalled ht, full_iff, isIn_eq_false_iff, isOutB_iff, ctx_prog, ctx_p, ctx_units,
    ctx_occ]
  constructor
  · intro H u hu hout h hh hnd hst v hv hsup
    rcases H u hu with h1 | h1
    · exact absurd h1 hout
    · rcases h1 h hh with (h2 | h2) | h2
      · exact absurd h2 hnd
      · exact absurd hst h2
      · rcases h2 v hv with (h3 | h3) | h3
        · rw [hsup] at h3; cases h3
        · exact Or.inl h3
        · exact Or.inr h3
  · intro H u hu
    by_cases hout : u.name ∈ p.outBoundary
    · exact Or.inl hout
    · right
      intro h hh
      by_cases hnd : h.st = .D
      · exact Or.inl (Or.inl hnd)
      · by_cases hst : Adv.Hosts (row t) u.name h.idx
        · right
          intro v hv
          cases hsup : supports prog h.idx v with
          | false => exact Or.inl (Or.inl rfl)
          | true =>
            rcases H u hu hout h hh hnd hst v hv hsup with h3 | h3
            · exact Or.inl (Or.inr h3)
            · exact Or.inr h3
        · exact Or.inl (Or.inr hst)

/-- second clause, cycle `t` -/
theorem flushAt_iff (t : Nat) :
    flushAt (ctx p prog tbl stalled) t = true ↔
      ∀ u ∈ p.allUnits, u.name ∈ p.outBoundary → ∀ h ∈ (row (t - 1)).get u.name, h.st ≠ .D →
        ¬ Adv.Hosts (row t) u.name h.idx := by
  unfold flushAt
  simp only [List.all_eq_true, Bool.or_eq_true, Bool.not_eq_true', beq_iff_eq, isIn_eq_false_iff,
    isOutB_eq_false_iff, ctx_p, ctx_units, ctx_occ]
  constructor
  · intro H u hu hout h hh hnd
    rcases H u hu with h1 | h1
    · exact absurd hout h1
    · rcases h1 h hh with h2 | h2
      · exact absurd h2 hnd
      · exact h2
  · intro H u hu
    by_cases hout : u.name ∈ p.outBoundary
    · right
      intro h hh
      by_cases hnd : h.st = .D
      · exact Or.inl hnd
      · exact Or.inr (H u hu hout h hh hnd)
    · exact Or.inl hout

/-- third clause, cycle `t` -/
theorem oldestAt_iff {t : Nat} (ht : t ≠ 0) :
    oldestAt (ctx p prog tbl stalled) t = true ↔
      ∀ d ∈ p.allUnits, ∀ y, Adv.Hosts (row t) d.name y → ¬ Adv.Hosts (row (t - 1)) d.name y →
        ∀ pn ∈ predsOf p d.name, ∀ x ∈ (row (t - 1)).get pn, x.idx < y → x.st ≠ .D →
          supports prog x.idx d = true → Adv.Hosts (row t) pn x.idx →
          needsMem prog x.idx d = true ∧ needsMem prog y d = false ∧
            Adv.MemTakenByOther p prog (row (t - 1)) (row t) x.idx := by
  unfold oldestAt
  simp only [List.all_eq_true, Bool.or_eq_true, Bool.and_eq_true, Bool.not_eq_true',
    memTakenByOther_iff p prog tbl stalled ht, ctx_prog, ctx_p, ctx_units, ctx_occ]
  constructor
  · intro H d hd y hy hyold pn hpn x hx hlt hnd hsup hst
    obtain ⟨y', hy', rfl⟩ := List.mem_map.1 hy
    rcases H d hd y' hy' with h1 | h1
    · have := (entersAt_iff p prog tbl stalled ht d.name y'.idx).2 ⟨hy, hyold⟩
      rw [this] at h1; cases h1
    · rcases h1 pn hpn x hx with h2 | h2
      · have h3 : (decide (x.idx < y'.idx) && x.st != Stall.D && supports prog x.idx d &&
            (ctx p prog tbl stalled).isIn t pn x.idx) = true := by
          simp only [Bool.and_eq_true, decide_eq_true_eq, bne_iff_ne, ne_eq, isIn_iff]
          exact ⟨⟨⟨hlt, hnd⟩, hsup⟩, hst⟩
        exact Bool.noConfusion (h3.symm.trans h2)
      · exact ⟨h2.1.1, h2.1.2, h2.2⟩
  · intro H d hd y' hy'
    cases hent : (ctx p prog tbl stalled).entersAt t d.name y'.idx with
    | false => exact Or.inl rfl
    | true =>
      right
      obtain ⟨hy, hyold⟩ := (entersAt_iff p prog tbl stalled ht d.name y'.idx).1 hent
      intro pn hpn x hx
      rcases Bool.eq_false_or_eq_true (decide (x.idx < y'.idx) && x.st != Stall.D && supports prog x.idx d &&
          (ctx p prog tbl stalled).isIn t pn x.idx) with h3 | h3
      · right
        simp only [Bool.and_eq_true, decide_eq_true_eq, bne_iff_ne, ne_eq, isIn_iff] at h3
        obtain ⟨⟨⟨hlt, hnd⟩, hsup⟩, hst⟩ := h3
        obtain ⟨a, b, c⟩ := H d hd y'.idx hy hyold pn hpn x hx hlt hnd hsup hst
        exact ⟨⟨a, b⟩, c⟩
      · exact Or.inl h3

end read
end C07

section okiff
variable (p : Proc N) (prog : List (Instr N)) (tbl : List (Util N)) (stalled : Bool)
local notation "row" t => List.getD tbl t ([] : List (N × List HI))

/-- **The Bool clauses of C07 say exactly**: every recorded cycle but the first is related to the cycle before by
`Adv.C07Rel` (no bubble / outputs flush / oldest first, see `Lemmas/Advance.lean`). -/
theorem C07_ok_iff :
    (Spec.C07 (ctx p prog tbl stalled)).ok = true ↔
      ∀ t, 0 < t → t < tbl.length → Adv.C07Rel p prog (row (t - 1)) (row t) := by
  rw [C07.C07_eq]
  simp only [Clauses.ok, List.all_cons, List.all_nil, Bool.and_true, Bool.and_eq_true, List.all_eq_true,
    List.mem_filter, List.mem_range, decide_eq_true_eq, ne_eq, Ctx.T]
  constructor
  · rintro ⟨h1, h2, h3⟩ t ht0 ht
    have ht' : t ≠ 0 := by omega
    have hm : t < (ctx p prog tbl stalled).tbl.length ∧ ¬ t = 0 := ⟨ht, ht'⟩
    exact ⟨(C07.noBubbleAt_iff p prog tbl stalled ht').1 (h1 t hm), (C07.flushAt_iff p prog tbl stalled t).1 (h2 t hm),
      (C07.oldestAt_iff p prog tbl stalled ht').1 (h3 t hm)⟩
  · intro H
    refine ⟨?_, ?_, ?_⟩
    · intro t ht
      exact (C07.noBubbleAt_iff p prog tbl stalled ht.2).2 (H t (by omega) ht.1).noBubble
    · intro t ht
      exact (C07.flushAt_iff p prog tbl stalled t).2 (H t (by omega) ht.1).flush
    · intro t ht
      exact (C07.oldestAt_iff p prog tbl stalled ht.2).2 (H t (by omega) ht.1).oldest

end okiff

variable [LT N] [DecidableRel (α := N) (· < ·)]

/-! ## the theorems -/

/-- **C07 (relational form).** Consecutive cycles of every diagram of a well-formed processor are related by
`Adv.C07Rel`. -/
theorem C07_advance_rel (p : Proc N) (prog : List (Instr N)) (tbl : List (Util N)) (stalled : Bool)
    (hwf : wfProc p = true) (h : Diagram p prog tbl stalled) :
    ∀ t, 0 < t → t < tbl.length →
      Adv.C07Rel p prog (tbl.getD (t - 1) ([] : List (N × List HI))) (tbl.getD t ([] : List (N × List HI))) := by
  intro t ht0 ht
  have := Adv.Diagram_C07Rel hwf h t ht
  rwa [prevRow, if_neg (by omega)] at this

/-- **C07.** For a well-formed processor, every diagram of `simulate` passes the C07 checker. -/
theorem C07_advance (p : Proc N) (prog : List (Instr N)) (tbl : List (Util N)) (stalled : Bool)
    (hwf : wfProc p = true) (h : Diagram p prog tbl stalled) :
    (Spec.C07 (ctx p prog tbl stalled)).ok = true :=
  (C07_ok_iff p prog tbl stalled).2 (C07_advance_rel p prog tbl stalled hwf h)

section readable
variable (p : Proc N) (prog : List (Instr N)) (tbl : List (Util N)) (stalled : Bool)

local notation "row" t => List.getD tbl t ([] : List (N × List HI))

/-- **C07 (a), readable: no bubble.** `h` is in non-output unit `u` in cycle `t-1`, not data-stalled, and still in
`u` in cycle `t`; then every successor `v` of `u` supporting its capability is full in cycle `t`, or needs the memory
port for it while another instruction `j` entered, in cycle `t`, a unit `w` whose ACL names `j`'s capability. -/
theorem C07_no_bubble (hwf : wfProc p = true) (hd : Diagram p prog tbl stalled)
    {t : Nat} (ht0 : 0 < t) (ht : t < tbl.length) {u : UnitM N} (hu : u ∈ p.allUnits) (hout : u.name ∉ p.outBoundary)
    {h : HI} (hh : h ∈ (row (t - 1)).get u.name) (hnd : h.st ≠ .D)
    (hst : h.idx ∈ ((row t).get u.name).map (·.idx))
    {v : UnitM N} (hv : v ∈ succsOf p u.name) (hsup : supports prog h.idx v = true) :
    v.width ≤ ((row t).get v.name).length ∨
      (needsMem prog h.idx v = true ∧
        ∃ w ∈ p.allUnits, ∃ j, j ∈ ((row t).get w.name).map (·.idx) ∧ j ≠ h.idx ∧
          j ∉ ((row (t - 1)).get w.name).map (·.idx) ∧ needsMem prog j w = true) :=
  (C07_advance_rel p prog tbl stalled hwf hd t ht0 ht).noBubble u hu hout h hh hnd hst v hv hsup

/-- **C07 (b), readable: outputs flush.** -/
theorem C07_outputs_flush (hwf : wfProc p = true) (hd : Diagram p prog tbl stalled)
    {t : Nat} (ht0 : 0 < t) (ht : t < tbl.length) {u : UnitM N} (hu : u ∈ p.allUnits) (hout : u.name ∈ p.outBoundary)
    {h : HI} (hh : h ∈ (row (t - 1)).get u.name) (hnd : h.st ≠ .D) :
    h.idx ∉ ((row t).get u.name).map (·.idx) :=
  (C07_advance_rel p prog tbl stalled hwf hd t ht0 ht).flush u hu hout h hh hnd

/-- **C07 (c), readable: oldest first.** `y` enters `d` in cycle `t`; an older `x`, not data-stalled in predecessor
`pn` of `d` in cycle `t-1` and supported by `d`, is still in `pn` in cycle `t`; then `d` needs the memory port for
`x`, not for `y`, and another instruction took the port in cycle `t`. -/
theorem C07_oldest_first (hwf : wfProc p = true) (hd : Diagram p prog tbl stalled)
    {t : Nat} (ht0 : 0 < t) (ht : t < tbl.length) {d : UnitM N} (hdu : d ∈ p.allUnits) {y : Nat}
    (hy : y ∈ ((row t).get d.name).map (·.idx)) (hyold : y ∉ ((row (t - 1)).get d.name).map (·.idx))
    {pn : N} (hpn : pn ∈ predsOf p d.name) {x : HI} (hx : x ∈ (row (t - 1)).get pn) (hlt : x.idx < y)
    (hnd : x.st ≠ .D) (hsup : supports prog x.idx d = true) (hst : x.idx ∈ ((row t).get pn).map (·.idx)) :
    needsMem prog x.idx d = true ∧ needsMem prog y d = false ∧
      ∃ w ∈ p.allUnits, ∃ j, j ∈ ((row t).get w.name).map (·.idx) ∧ j ≠ x.idx ∧
        j ∉ ((row (t - 1)).get w.name).map (·.idx) ∧ needsMem prog j w = true :=
  (C07_advance_rel p prog tbl stalled hwf hd t ht0 ht).oldest d hdu y hy hyold pn hpn x hx hlt hnd hsup hst

end readable

/-! ## Non-vacuity

Input port `0` (width 2, read lock, capabilities `7` and `8`) feeds the join `2` (width 1, ACL `[7]`) directly and
through unit `1` (width 1, capability `7` only) — two routes of unequal length; `2` feeds the output port `3` (width
1, write lock, ACL `[8]`). Program: `i0` (capability 8), `i1` (7), `i2` (8), no register shared.

Cycle 0: `i0`, `i1` issue into port `0`. Cycle 1: the join takes the oldest candidate `i0`; `i1` takes the long
route into unit `1`; `i2` issues. Cycle 2: `i0` enters the output port and takes the memory port (ACL `[8]`); the
join scans `i1` (in `1`) before `i2` (in `0`): `i1` needs the busy memory port (ACL `[7]`) and is skipped, the
younger `i2` does not and is taken. So in cycle 2 the premise of "oldest first" holds (`i2` enters `2` while the
older, ready `i1` stays in `1`) together with its conclusion, and the memory disjunct of "no bubble" is attained. -/
namespace C07Example

def u0 : UnitM Nat := ⟨0, 2, [7, 8], true, false, []⟩
def u1 : UnitM Nat := ⟨1, 1, [7], false, false, []⟩
def u2 : UnitM Nat := ⟨2, 1, [7, 8], false, false, [7]⟩
def u3 : UnitM Nat := ⟨3, 1, [7, 8], false, true, [8]⟩
def proc : Proc Nat :=
  { inPorts := [u0], outPorts := [⟨u3, [2]⟩], inOut := [], internal := [⟨u2, [0, 1]⟩, ⟨u1, [0]⟩] }
def prog : List (Instr Nat) := [⟨[10], 11, 8⟩, ⟨[12], 13, 7⟩, ⟨[14], 15, 8⟩]

example : wfProc proc = true := by decide

/-- the run returns a diagram; in cycle 2 the younger `i2` enters the join `2` while the older ready `i1` stays in
unit `1` (label `U` in cycle 1), because `i1` needs the memory port there, `i2` does not, and `i0` took it -/
example : (match simulate proc prog with
    | .done tbl =>
      let c := ctx proc prog tbl false
      c.entersAt 2 2 2 && c.isIn 2 1 1 && (c.occ 1 1 == [⟨1, .U⟩]) && supports prog 1 u2 &&
      needsMem prog 1 u2 && !needsMem prog 2 u2 && c.memTakenByOther 2 1 &&
      -- and the checker accepts the diagram
      (Spec.C07 c).ok
    | _ => false) = true := by decide

def isDone : Outcome Nat → Bool
  | .done _ => true
  | _ => false

/-- the hypotheses of `C07_advance` are satisfiable and the theorem applies to the diagram -/
example : ∃ tbl, Diagram proc prog tbl false ∧ (Spec.C07 (ctx proc prog tbl false)).ok = true := by
  have hd : isDone (simulate proc prog) = true := by decide
  cases h : simulate proc prog with
  | done tbl => exact ⟨tbl, Or.inl ⟨rfl, h⟩, C07_advance proc prog tbl false (by decide) (Or.inl ⟨rfl, h⟩)⟩
  | stall tbl => rw [h] at hd; cases hd
  | fault f => rw [h] at hd; cases hd

end C07Example

end ProcSim
