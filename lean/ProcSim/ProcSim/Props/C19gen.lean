import ProcSim.Gen.RegAccess
import ProcSim.Lemmas.Queue
import ProcSim.Props.C19
/-!
# Translator tie for `src/reg_access.py` (property C19; the queue layer of C01 / C02)

`ProcSim.Gen.reg_access` is **generated** from the Python source by `checks/py2lean.py` on every check run.  This file
proves that the generated definitions — Python's `RegAccQBuilder.append / create`, `RegAccessQueue.can_access /
dequeue`, the attrs constructors and the `_rev_groups` converter, with Python's exceptions as explicit results —
compute exactly the hand-written model `ProcSim.Queue` that every C19 / C01 / C02 theorem is about.

A change to `reg_access.py` changes the generated text; these proofs are then re-checked by Lean against the new text.
-/
namespace ProcSim.GenTie
open PyLite ProcSim ProcSim.Gen.reg_access ProcSim.Spec ProcSim.QueueLemmas

/-! ### runtime lemmas -/

theorem idxNeg_concat {α} (xs : List α) (x : α) : idxNeg (xs ++ [x]) 1 = .ok x := by
  simp [idxNeg]

theorem idxNeg_nil {α} (k : Nat) : idxNeg ([] : List α) k = .error .indexError := by
  simp [idxNeg]

theorem idxNeg_concat2 {α} (xs : List α) (y x : α) : idxNeg (xs ++ [y, x]) 2 = .ok y := by
  simp [idxNeg]

theorem setIdxNeg_concat {α} (xs : List α) (x v : α) : setIdxNeg (xs ++ [x]) 1 v = .ok (xs ++ [v]) := by
  simp [setIdxNeg]

theorem idxNeg_concat_two {α} (xs : List α) (y x : α) : idxNeg (xs ++ [y, x]) 1 = .ok x := by
  have : xs ++ [y, x] = (xs ++ [y]) ++ [x] := by simp
  rw [this, idxNeg_concat]

theorem setIdxNeg_concat_two {α} (xs : List α) (y x v : α) : setIdxNeg (xs ++ [y, x]) 1 v = .ok (xs ++ [y, v]) := by
  have : xs ++ [y, x] = (xs ++ [y]) ++ [x] := by simp
  rw [this, setIdxNeg_concat]; simp

theorem delIdxNeg_concat {α} (xs : List α) (x : α) : delIdxNeg (xs ++ [x]) 1 = .ok xs := by
  simp [delIdxNeg, List.eraseIdx_append_of_length_le]

/-- on duplicate-free member lists Python's set equality with a singleton is the model's list equality -/
theorem set_eq_single {os : List Nat} (hnd : os.Nodup) (o : Nat) :
    PySet.eq (⟨os⟩ : PySet Nat) (PySet.single o) = (os == [o]) := by
  simp only [PySet.eq, PySet.single]
  cases os with
  | nil => simp
  | cons a t =>
    cases t with
    | nil =>
      simp only [List.all_cons, List.mem_singleton, List.all_nil, Bool.and_true]
      by_cases h : a = o
      · subst h; simp
      · have h' : ¬ o = a := fun e => h e.symm
        simp [h, h']
    | cons b t' =>
      have : ¬ (a = o ∧ b = o) := by
        intro ⟨h1, h2⟩; subst h1; subst h2; simp at hnd
      simp
      intro h1 h2; exact absurd ⟨h1, h2⟩ this

/-! ### encoding of model values as the generated Python-side structures -/

/-- `AccessType` of the model's `wr` flag -/
def encT : Bool → AccessType | true => .WRITE | false => .READ
/-- an access group; the member set keeps the model's (duplicate-free) member list -/
def encG (g : Group) : AccessGroup := ⟨encT g.wr, ⟨g.owners⟩⟩
/-- `RegAccessQueue`: Python keeps the groups reversed (queue front = list tail) -/
def encQ (q : Queue) : RegAccessQueue := ⟨(q.map encG).reverse⟩
/-- `RegAccQBuilder`: groups in registration order -/
def encB (q : Queue) : RegAccQBuilder := ⟨q.map encG⟩

/-- a model `Option` result as a Python result raising `e` for `none` -/
def liftO {α} (e : PyErr) : Option α → PyM α | none => .error e | some a => .ok a

theorem encT_inj (a b : Bool) : (encT a = encT b) ↔ a = b := by
  cases a <;> cases b <;> simp [encT]

/-! ### the generated functions compute the model -/

/-- `RegAccessQueue.can_access` (generated from the source) = `Queue.canAccess`; the empty queue raises `IndexError` -/
theorem gen_can_access (q : Queue) (h : WFq q) (wr : Bool) (o : Nat) :
    (encQ q).can_access (encT wr) o = liftO .indexError (Queue.canAccess q wr o) := by
  cases q with
  | nil => simp [RegAccessQueue.can_access, encQ, idxNeg_nil, liftO, Queue.canAccess, bind, Except.bind]
  | cons g rest =>
    have hnd : g.owners.Nodup := ((WFq_cons g rest).1 h).1.2.1
    clear h
    obtain ⟨gw, gos⟩ := g
    simp only [RegAccessQueue.can_access, encQ, List.map_cons, List.reverse_cons, idxNeg_concat]
    cases rest with
    | nil =>
      simp only [bind, Except.bind, pure, Except.pure, encG, truthy, Truthy.truthy, pyIn, PySet.contains, pyAnd, pyLen,
        PyLen.pyLen, Queue.canAccess, liftO, pyEq, PyEq.pyEq, set_eq_single hnd]
      cases wr <;> cases gw <;> simp [encT] <;> first | rfl | (exact decide_eq_decide.mpr Iff.rfl) | (split <;> simp_all <;> exact decide_eq_decide.mpr Iff.rfl)
    | cons g2 rest2 =>
      have e : ∀ (xs : List AccessGroup) (a b : AccessGroup), xs ++ [a] ++ [b] = xs ++ [a, b] := by simp
      simp only [List.map_cons, List.reverse_cons, e, idxNeg_concat2]
      simp only [bind, Except.bind, pure, Except.pure, encG, truthy, Truthy.truthy, pyIn, PySet.contains, pyAnd, pyLen,
        PyLen.pyLen, Queue.canAccess, liftO, pyEq, PyEq.pyEq, set_eq_single hnd]
      cases wr <;> cases gw <;> simp [encT] <;> first | rfl | (exact decide_eq_decide.mpr Iff.rfl) | (split <;> simp_all <;> exact decide_eq_decide.mpr Iff.rfl)

/-- `RegAccessQueue.dequeue` (generated) = `Queue.dequeue`: `IndexError` on the empty queue, `KeyError` when the
owner is not in the front group, otherwise the new queue (an emptied front group is dropped) -/
theorem gen_dequeue (q : Queue) (o : Nat) :
    (encQ q).dequeue o =
      match Queue.dequeue q o with
      | some q' => .ok ((), encQ q')
      | none => .error (if q = [] then .indexError else .keyError) := by
  cases q with
  | nil => simp [RegAccessQueue.dequeue, encQ, idxNeg_nil, Queue.dequeue, bind, Except.bind]
  | cons g rest =>
    obtain ⟨gw, gos⟩ := g
    simp only [RegAccessQueue.dequeue, encQ, List.map_cons, List.reverse_cons, idxNeg_concat, setIdxNeg_concat,
      bind, Except.bind, pure, Except.pure, encG, pyRemove, PySet.remove, Queue.dequeue]
    by_cases hm : o ∈ gos
    · simp only [hm, if_true, idxNeg_concat, truthy, Truthy.truthy]
      by_cases he : (gos.erase o).isEmpty = true
      · simp [he, delIdxNeg_concat]
      · simp [he, encG]
    · simp [hm]

/-- `Queue.push` seen from the back of the list (where Python's builder works) -/
theorem push_concat (q : Queue) (g : Group) (wr : Bool) (o : Nat) :
    Queue.push (q ++ [g]) wr o =
      if wr = false ∧ g.wr = false then q ++ [⟨false, Queue.addOwner g.owners o⟩] else q ++ [g, ⟨wr, [o]⟩] := by
  induction q with
  | nil => simpa using push_single g wr o
  | cons a t ih =>
    cases t with
    | nil =>
      simp only [List.cons_append, List.nil_append, push_cons_cons] at ih ⊢
      rw [ih]; split <;> simp
    | cons b t' =>
      simp only [List.cons_append, push_cons_cons] at ih ⊢
      rw [ih]; split <;> simp

/-- `RegAccQBuilder._can_merge` (generated): a read, a non-empty builder, and a trailing read group -/
theorem gen_can_merge (q : Queue) (wr : Bool) :
    (encB q)._can_merge (encT wr) =
      .ok (match q.getLast? with
           | none => false
           | some g => !wr && !g.wr) := by
  rcases List.eq_nil_or_concat q with rfl | ⟨q', g, rfl⟩
  · cases wr <;>
      simp [RegAccQBuilder._can_merge, encB, pyAnd, bind, Except.bind, pure, Except.pure, truthy, Truthy.truthy, pyEq,
        PyEq.pyEq, encT]
  · obtain ⟨gw, gos⟩ := g
    cases wr <;> cases gw <;>
      simp [RegAccQBuilder._can_merge, encB, pyAnd, bind, Except.bind, pure, Except.pure, truthy, Truthy.truthy, pyEq,
        PyEq.pyEq, encT, encG, idxNeg_concat]

/-- `RegAccQBuilder.append` (generated) = `Queue.push`, and never raises -/
theorem gen_append (q : Queue) (wr : Bool) (o : Nat) :
    (encB q).append (encT wr) o = .ok ((), encB (q.push wr o)) := by
  simp only [RegAccQBuilder.append, bind, Except.bind, gen_can_merge]
  rcases List.eq_nil_or_concat q with rfl | ⟨q', g, rfl⟩
  · simp [pure, Except.pure, truthy, Truthy.truthy,
      AccessGroup.new, PySet.copy, PySet.ofList, PySet.empty, pyAppend, encB, idxNeg, setIdxNeg, pyAdd,
      PySet.add, encG, bind, Except.bind]
  · obtain ⟨gw, gos⟩ := g
    rw [List.concat_eq_append, push_concat]
    cases wr <;> cases gw <;>
      simp [pure, Except.pure, truthy, Truthy.truthy, bind, Except.bind,
        AccessGroup.new, PySet.copy, PySet.ofList, PySet.empty, pyAppend, encB, idxNeg_concat, setIdxNeg_concat, pyAdd,
        PySet.add, encG, encT, Queue.addOwner, idxNeg_concat_two, setIdxNeg_concat_two]
    split <;> rfl

/-- `RegAccQBuilder()` (generated attrs constructor) is the empty builder -/
theorem gen_new : RegAccQBuilder.new = .ok (encB []) := rfl

/-- `RegAccQBuilder.create` (generated; goes through the `_rev_groups` converter) yields the queue of the model -/
theorem gen_create (q : Queue) : (encB q).create = .ok (encQ q) := by
  simp [RegAccQBuilder.create, RegAccessQueue.new, _rev_groups, reversedList, encB, encQ, bind, Except.bind, pure,
    Except.pure]

/-! ### whole histories: what a Python caller does, step by step, with the generated code -/

/-- register the requests one by one with the generated `append` -/
def genAppendAll : RegAccQBuilder → List Req → PyM RegAccQBuilder
  | b, [] => .ok b
  | b, r :: rest => do
    let (_, b') ← b.append (encT r.1) r.2
    genAppendAll b' rest

/-- `RegAccQBuilder()`, `append` for every request, `create()` -/
def genBuild (reqs : List Req) : PyM RegAccessQueue := do
  let b ← RegAccQBuilder.new
  let b ← genAppendAll b reqs
  b.create

/-- a history of generated `dequeue` calls -/
def genRun : RegAccessQueue → List Nat → PyM RegAccessQueue
  | q, [] => .ok q
  | q, o :: os => do
    let (_, q') ← q.dequeue o
    genRun q' os

theorem genAppendAll_eq (q : Queue) (reqs : List Req) :
    genAppendAll (encB q) reqs = .ok (encB (reqs.foldl (fun q r => q.push r.1 r.2) q)) := by
  induction reqs generalizing q with
  | nil => rfl
  | cons r rest ih => simp [genAppendAll, gen_append, bind, Except.bind, ih]

/-- **building**: the generated constructor / `append` / `create` sequence never raises and yields exactly the model's
queue for the registered requests -/
theorem gen_build_eq (reqs : List Req) : genBuild reqs = .ok (encQ (Queue.build reqs)) := by
  simp [genBuild, gen_new, genAppendAll_eq, gen_create, Queue.build, bind, Except.bind]

/-- **histories**: a history of generated `dequeue`s succeeds exactly when the model's does, with the same queue -/
theorem gen_run_eq (q : Queue) (os : List Nat) :
    (genRun (encQ q) os).toOption = (runHistory q os).map encQ := by
  induction os generalizing q with
  | nil => simp [genRun, runHistory, Except.toOption]
  | cons o os ih =>
    simp only [genRun, runHistory_cons, gen_dequeue, bind, Except.bind]
    cases hd : q.dequeue o with
    | none => simp [Except.toOption]
    | some q' => simpa using ih q'

/-- **C19 for the code as translated from the source.**  For requests registered in program order through the
generated `RegAccQBuilder`, and any Python-side queue `pq` reached from the built queue by a history of generated
`dequeue` calls that did not raise: `pq` is the encoding of a model queue `q` with that same history, and the generated
`can_access` grants request `(wr, o)` exactly under the three conditions of the property (every earlier-registered
request removed / unbroken run of reads / the write directly following its owner's own sole read). -/
theorem C19_gen_served_iff (reqs : List Req) (hpo : programOrder reqs = true) (os : List Nat)
    (pq0 pq : RegAccessQueue) (hb : genBuild reqs = .ok pq0) (hr : genRun pq0 os = .ok pq) (wr : Bool) (o : Nat) :
    ∃ q, pq = encQ q ∧ runHistory (Queue.build reqs) os = some q ∧
      (pq.can_access (encT wr) o = .ok true ↔
        (wr, o) ∈ abs q ∧
        ((∀ pre post, reqs = pre ++ (wr, o) :: post → ∀ r ∈ pre, r ∉ abs q) ∨
         (wr = false ∧ ∃ pre post, abs q = pre ++ (false, o) :: post ∧ ∀ r ∈ pre, r.1 = false) ∨
         (wr = true ∧ ∃ rest, abs q = (false, o) :: (true, o) :: rest))) := by
  rw [gen_build_eq] at hb
  cases hb
  have h1 := gen_run_eq (Queue.build reqs) os
  rw [hr] at h1
  cases hq : runHistory (Queue.build reqs) os with
  | none => rw [hq] at h1; simp [Except.toOption] at h1
  | some q =>
    rw [hq] at h1
    have hpq : pq = encQ q := by simpa [Except.toOption] using h1
    refine ⟨q, hpq, rfl, ?_⟩
    have hreach : Reachable reqs q := ⟨os, hq⟩
    have hwf := C19_reachable_wf hreach
    rw [hpq, gen_can_access q hwf, ← C19_served_iff_reachable reqs hpo q hreach wr o]
    cases q.canAccess wr o with
    | none => simp [liftO]
    | some b => simp [liftO]

/-- **Second sentence of C19 for the translated code**: a generated `dequeue` raises exactly when the removal is not
permitted at the request level (owner has no servable request), and otherwise removes exactly that request. -/
theorem C19_gen_dequeue_total (q : Queue) (h : WFq q) (o : Nat) :
    (∃ pq', (encQ q).dequeue o = .ok ((), pq')) ↔ removable (abs q) o = true := by
  rw [gen_dequeue, ← C19_dequeue_isSome q h o]
  cases q.dequeue o with
  | none => simp
  | some q' => simp

/-! ### non-vacuity: the generated code runs, and the hypotheses above are satisfiable -/

/-- `ADD R1, R1, R2` followed by a reader of `R1`: requests for `R1` are read 0, write 0, read 1 -/
example : programOrder [(false, 0), (true, 0), (false, 1)] = true := by decide
example : (genBuild [(false, 0), (true, 0), (false, 1)]).toOption.map (fun q => q._queue.map (fun g => g.reqs.elems)) =
    some [[1], [0], [0]] := by decide
/-- the D1 situation on the generated code: owner 0's write is granted together with its own sole read -/
example : (do let q ← genBuild [(false, 0), (true, 0), (false, 1)]; q.can_access .WRITE 0).toOption = some true := by decide
example : (do let q ← genBuild [(false, 0), (true, 0), (false, 1)]; q.can_access .READ 1).toOption = some false := by decide
/-- Python's exceptions are explicit: `dequeue` of an absent owner is `KeyError`, on an empty queue `IndexError` -/
example : (do let q ← genBuild [(false, 0)]; q.dequeue 5).toOption = none := by decide
example : (match (do let q ← genBuild [(false, 0)]; let q ← genRun q [0]; q.can_access .READ 0) with
    | .error e => some e | .ok _ => none) = some PyErr.indexError := by decide

end ProcSim.GenTie
