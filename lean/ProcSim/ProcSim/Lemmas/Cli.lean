import ProcSim.Spec.Text
/-!
# Helper lemmas for C16 (the printed table renders the diagram) — core Lean only

Outline
1. `AMap` facts (own copies, in this namespace): absent key, unique keys, `set` on an absent key appends.
2. `updateAt` is `List.modify` guarded by the range test.
3. `fillInstrs`/`fillUnits`/`fillCycles` never fail when all indices are `< n`; the dict of instruction `i` becomes
   `expU i 0 d` — one entry `(t, posAt d[t] i)` per cycle in which `i` appears — when `i` appears at most once per cycle.
4. `flightRow` on a dict whose keys are `range' a b` (`b ≥ 1`) succeeds; its row reads the dict cell by cell.
5. `diagramOK` splits the diagram, for every instruction, into cycles without / with / without it.
6. `posAt` versus `Hosted` under unique keys; the strings `"<L>:<u>"` are injective for injective `sh`, never empty.
7. `lastBusy` and `lastTick` as least upper bounds.
-/
namespace ProcSim

attribute [local implicit_reducible] AMap
set_option linter.unusedSectionVars false

namespace CliLemmas
open Cli Spec.Text

/-! ## 1. `AMap` -/
section amap
variable {K V : Type} [DecidableEq K]

theorem get?_eq_none_iff (m : List (K × V)) (k : K) : AMap.get? m k = none ↔ ∀ kv ∈ m, kv.1 ≠ k := by
  induction m with
  | nil => simp
  | cons p m ih =>
    obtain ⟨k', v⟩ := p
    by_cases h : k' = k
    · simp [AMap.get?, h]
    · simp [AMap.get?, h, ih]

theorem mem_of_get? (m : List (K × V)) (k : K) (v : V) (h : AMap.get? m k = some v) : (k, v) ∈ m := by
  induction m with
  | nil => simp at h
  | cons p m ih =>
    obtain ⟨k', v'⟩ := p
    by_cases hk : k' = k
    · simp [AMap.get?, hk] at h; simp [hk, h]
    · simp [AMap.get?, hk] at h; exact List.mem_cons_of_mem _ (ih h)

theorem get?_of_mem (m : List (K × V)) (k : K) (v : V) (hn : (AMap.keys m).Nodup) (h : (k, v) ∈ m) :
    AMap.get? m k = some v := by
  induction m with
  | nil => simp at h
  | cons p m ih =>
    obtain ⟨k', v'⟩ := p
    simp only [AMap.keys, List.map_cons, List.nodup_cons] at hn
    rcases List.mem_cons.1 h with h | h
    · cases h; simp [AMap.get?]
    · have hne : k' ≠ k := by
        intro e; subst e
        exact hn.1 (List.mem_map.2 ⟨(k', v), h, rfl⟩)
      simp only [AMap.get?, hne, if_false]
      exact ih hn.2 h

theorem set_of_absent (m : List (K × V)) (k : K) (v : V) (h : AMap.get? m k = none) :
    AMap.set m k v = m ++ [(k, v)] := by
  induction m with
  | nil => rfl
  | cons p m ih =>
    obtain ⟨k', v'⟩ := p
    by_cases hk : k' = k
    · simp [AMap.get?, hk] at h
    · simp [AMap.get?, hk] at h
      simp [AMap.set, hk, ih h]

theorem get?_cons (k' : K) (v : V) (m : List (K × V)) (k : K) :
    AMap.get? ((k', v) :: m) k = if k' = k then some v else AMap.get? m k := rfl

end amap

variable {N : Type} [DecidableEq N]

/-! ## 2. `updateAt` -/

theorem updateAt_eq {α : Type} (l : List α) (i : Nat) (f : α → α) :
    updateAt l i f = if i < l.length then some (l.modify i f) else none := by
  induction l generalizing i with
  | nil => simp [updateAt]
  | cons x xs ih =>
    cases i with
    | zero => simp [updateAt, List.modify]
    | succ i =>
      simp only [updateAt, ih, List.length_cons, Nat.add_lt_add_iff_right]
      split <;> simp [List.modify]

/-! ## 3. filling the per-instruction dicts -/

/-- positions written for instruction `i` by the list `hs` of unit `u` -/
def wOf (u : N) (hs : List HI) (i : Nat) : List (Pos N) :=
  (hs.filter (fun h => h.idx == i)).map (fun h => ({ unit := u, st := h.st } : Pos N))

/-- positions written for instruction `i` by the entries `us`, in order -/
def writesOf (us : List (N × List HI)) (i : Nat) : List (Pos N) := us.flatMap (fun p => wOf p.1 p.2 i)

/-- the dict after writing `ws` under key `cp` -/
def applyW (cp : Nat) (m : List (Nat × Pos N)) (ws : List (Pos N)) : List (Nat × Pos N) :=
  ws.foldl (fun m p => AMap.set m cp p) m

theorem writesOf_nil (i : Nat) : writesOf ([] : List (N × List HI)) i = [] := rfl

theorem writesOf_cons (p : N × List HI) (us : List (N × List HI)) (i : Nat) :
    writesOf (p :: us) i = wOf p.1 p.2 i ++ writesOf us i := by
  simp [writesOf]

theorem applyW_append (cp : Nat) (m : List (Nat × Pos N)) (a b : List (Pos N)) :
    applyW cp m (a ++ b) = applyW cp (applyW cp m a) b := by
  simp [applyW, List.foldl_append]

theorem fillInstrs_spec (cp : Nat) (u : N) (hs : List HI) (icu : ICU N)
    (hidx : ∀ h ∈ hs, h.idx < icu.length) :
    ∃ icu', fillInstrs cp u hs icu = .ok icu' ∧ icu'.length = icu.length ∧
      ∀ i, icu'[i]? = (icu[i]?).map (fun m => applyW cp m (wOf u hs i)) := by
  induction hs generalizing icu with
  | nil =>
    refine ⟨icu, rfl, rfl, fun i => ?_⟩
    cases icu[i]? <;> simp [wOf, applyW]
  | cons h hs ih =>
    have hlt : h.idx < icu.length := hidx h (by simp)
    simp only [fillInstrs, updateAt_eq, hlt, if_true]
    obtain ⟨icu', h1, h2, h3⟩ := ih (icu.modify h.idx (fun m => AMap.set m cp { unit := u, st := h.st }))
      (fun x hx => by rw [List.length_modify]; exact hidx x (List.mem_cons_of_mem _ hx))
    refine ⟨icu', h1, by rw [h2, List.length_modify], fun i => ?_⟩
    rw [h3, List.getElem?_modify]
    cases icu[i]? with
    | none => rfl
    | some m =>
      by_cases hi : h.idx = i
      · subst hi
        simp [wOf, applyW]
      · have : (h.idx == i) = false := by simpa using hi
        simp [wOf, applyW, hi, this]

theorem fillUnits_spec (cp : Nat) (us : List (N × List HI)) (icu : ICU N)
    (hidx : ∀ p ∈ us, ∀ h ∈ p.2, h.idx < icu.length) :
    ∃ icu', fillUnits cp us icu = .ok icu' ∧ icu'.length = icu.length ∧
      ∀ i, icu'[i]? = (icu[i]?).map (fun m => applyW cp m (writesOf us i)) := by
  induction us generalizing icu with
  | nil =>
    refine ⟨icu, rfl, rfl, fun i => ?_⟩
    cases icu[i]? <;> simp [writesOf, applyW]
  | cons p us ih =>
    obtain ⟨u, l⟩ := p
    obtain ⟨icu1, h1, h2, h3⟩ := fillInstrs_spec cp u l icu (hidx (u, l) (by simp))
    obtain ⟨icu2, g1, g2, g3⟩ := ih icu1
      (fun q hq h hh => by rw [h2]; exact hidx q (List.mem_cons_of_mem _ hq) h hh)
    refine ⟨icu2, by simp [fillUnits, h1, g1], by rw [g2, h2], fun i => ?_⟩
    rw [g3, h3, writesOf_cons]
    cases icu[i]? with
    | none => rfl
    | some m => simp [applyW_append]

theorem wOf_nil (u : N) (i : Nat) : wOf u [] i = [] := rfl

/-- `BagValDict.items()` drops only entries that write nothing -/
theorem writesOf_items (c : Cycle N) (i : Nat) : writesOf (Bag.items c) i = writesOf c i := by
  induction c with
  | nil => rfl
  | cons p c ih =>
    obtain ⟨u, l⟩ := p
    unfold Bag.items at ih ⊢
    rw [List.filter_cons]
    cases l with
    | nil => simp [writesOf_cons, wOf_nil, ih]
    | cons h l => simp [writesOf_cons, ih]

/-- position of instruction `i` in a cycle record (the first one written) -/
def posAt (c : Cycle N) (i : Nat) : Option (Pos N) := (writesOf c i).head?

theorem applyW_of_le_one (cp : Nat) (m : List (Nat × Pos N)) (c : Cycle N) (i : Nat)
    (h : (writesOf c i).length ≤ 1) :
    applyW cp m (writesOf c i) = match posAt c i with
      | none => m
      | some p => AMap.set m cp p := by
  unfold posAt
  cases hw : writesOf c i with
  | nil => rfl
  | cons p ps =>
    cases ps with
    | nil => rfl
    | cons q qs => rw [hw] at h; simp at h

/-- the dict of instruction `i` built from the cycles `d` numbered from `cp` -/
def expU (i : Nat) : Nat → List (Cycle N) → List (Nat × Pos N)
  | _, [] => []
  | cp, c :: cs =>
    match posAt c i with
    | none => expU i (cp + 1) cs
    | some p => (cp, p) :: expU i (cp + 1) cs

theorem fillCycles_spec (d : List (Cycle N)) (cp : Nat) (icu : ICU N)
    (hidx : ∀ c ∈ d, ∀ p : N × List HI, p ∈ (c : List (N × List HI)) → ∀ h ∈ p.2, h.idx < icu.length)
    (hone : ∀ c ∈ d, ∀ i, i < icu.length → (writesOf c i).length ≤ 1)
    (hkeys : ∀ i (m : List (Nat × Pos N)), icu[i]? = some m → ∀ kv ∈ m, kv.1 < cp) :
    ∃ icu', fillCycles cp d icu = .ok icu' ∧ icu'.length = icu.length ∧
      ∀ i m, icu[i]? = some m → icu'[i]? = some (m ++ expU i cp d) := by
  induction d generalizing cp icu with
  | nil => exact ⟨icu, rfl, rfl, fun i m h => by simp [expU, h]⟩
  | cons c cs ih =>
    obtain ⟨icu1, h1, h2, h3⟩ := fillUnits_spec cp (Bag.items c) icu
      (fun p hp h hh => hidx c (by simp) p (List.mem_filter.1 hp).1 h hh)
    -- what one cycle does to the dict of instruction `i`
    have hstep : ∀ i m, icu[i]? = some m → icu1[i]? = some (match posAt c i with
        | none => m
        | some p => m ++ [(cp, p)]) := by
      intro i m hm
      have hi : i < icu.length := (List.getElem?_eq_some_iff.1 hm).1
      rw [h3, hm, writesOf_items, Option.map_some, applyW_of_le_one cp m c i (hone c (by simp) i hi)]
      cases posAt c i with
      | none => rfl
      | some p =>
        have : AMap.get? m cp = none := by
          rw [get?_eq_none_iff]
          intro kv hkv e
          have := hkeys i m hm kv hkv
          omega
        simp [set_of_absent m cp p this]
    obtain ⟨icu2, g1, g2, g3⟩ := ih (cp + 1) icu1
      (fun c' hc' p hp h hh => by rw [h2]; exact hidx c' (List.mem_cons_of_mem _ hc') p hp h hh)
      (fun c' hc' i hi => hone c' (List.mem_cons_of_mem _ hc') i (by rw [h2] at hi; exact hi))
      (by
        intro i m1 hm1 kv hkv
        have hi : i < icu.length := by rw [← h2]; exact (List.getElem?_eq_some_iff.1 hm1).1
        have hm := hstep i icu[i] (List.getElem?_eq_getElem hi)
        rw [hm1] at hm
        cases hp : posAt c i with
        | none =>
          rw [hp] at hm; simp only [Option.some.injEq] at hm; subst hm
          have := hkeys i _ (List.getElem?_eq_getElem hi) kv hkv
          omega
        | some p =>
          rw [hp] at hm; simp only [Option.some.injEq] at hm; subst hm
          rcases List.mem_append.1 hkv with hkv | hkv
          · have := hkeys i _ (List.getElem?_eq_getElem hi) kv hkv
            omega
          · simp at hkv; subst hkv; simp)
    refine ⟨icu2, by simp [fillCycles, h1, g1], by rw [g2, h2], fun i m hm => ?_⟩
    rw [g3 i _ (hstep i m hm)]
    cases hp : posAt c i with
    | none => simp [expU, hp]
    | some p => simp [expU, hp]

/-! ### the expected dict -/

theorem expU_append (i : Nat) (cp : Nat) (x y : List (Cycle N)) :
    expU i cp (x ++ y) = expU i cp x ++ expU i (cp + x.length) y := by
  induction x generalizing cp with
  | nil => simp [expU]
  | cons c cs ih =>
    simp only [List.cons_append, expU, List.length_cons]
    rw [ih (cp + 1), show cp + 1 + cs.length = cp + (cs.length + 1) by omega]
    cases posAt c i <;> simp

theorem expU_none (i : Nat) (cp : Nat) (x : List (Cycle N)) (h : ∀ c ∈ x, posAt c i = none) :
    expU i cp x = [] := by
  induction x generalizing cp with
  | nil => rfl
  | cons c cs ih =>
    simp only [expU, h c (by simp)]
    exact ih _ (fun c' hc' => h c' (List.mem_cons_of_mem _ hc'))

theorem keys_expU_all (i : Nat) (cp : Nat) (x : List (Cycle N)) (h : ∀ c ∈ x, (posAt c i).isSome = true) :
    (expU i cp x).map (·.1) = List.range' cp x.length := by
  induction x generalizing cp with
  | nil => rfl
  | cons c cs ih =>
    obtain ⟨p, hp⟩ := Option.isSome_iff_exists.1 (h c (by simp))
    simp only [expU, hp, List.map_cons, List.length_cons, List.range'_succ]
    rw [ih _ (fun c' hc' => h c' (List.mem_cons_of_mem _ hc'))]

theorem get?_expU (i : Nat) (cp : Nat) (d : List (Cycle N)) (t : Nat) :
    AMap.get? (expU i cp d) t = if t < cp then none else (d[t - cp]?).bind (fun c => posAt c i) := by
  induction d generalizing cp with
  | nil => simp [expU]
  | cons c cs ih =>
    by_cases h1 : t < cp
    · have h2 : t < cp + 1 := by omega
      cases hp : posAt c i with
      | none => simp [expU, hp, ih, h1, h2]
      | some p =>
        have : cp ≠ t := by omega
        simp [expU, hp, get?_cons, this, ih, h1, h2]
    · by_cases h3 : t = cp
      · subst h3
        cases hp : posAt c i with
        | none => simp [expU, hp, ih]
        | some p => simp [expU, hp, get?_cons]
      · have h2 : ¬ t < cp + 1 := by omega
        have h4 : t - cp = (t - (cp + 1)) + 1 := by omega
        have h5 : cp ≠ t := by omega
        cases hp : posAt c i with
        | none => simp [expU, hp, ih, h1, h2, h4]
        | some p => simp [expU, hp, get?_cons, h5, ih, h1, h2, h4]

end CliLemmas
end ProcSim
