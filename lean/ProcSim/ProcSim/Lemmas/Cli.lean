import ProcSim.Spec.Text
import ProcSim.Spec.Sim
/-!
# Helper lemmas for C16 (the printed table renders the diagram) — core Lean only

Outline
1. `AMap` facts (own copies, in this namespace): absent key, unique keys, `set` on an absent key appends.
2. `updateAt` is `List.modify` guarded by the range test.
3. `fillInstrs`/`fillUnits`/`fillCycles` never fail when all indices are `< n`; the dict of instruction `i` becomes
   `expU i 0 d` — one entry `(t, posAt d[t] i)` per cycle in which `i` appears — when `i` appears at most once per cycle.
4. `flightRow` on a dict whose keys are `range' a b` (`b ≥ 1`) succeeds; its row reads the dict cell by cell.
5. `diagramOK` splits the diagram, for every instruction, into cycles without / with / without it.
6. `posAt` versus `Hosted` under unique keys; the strings `"<L>:<u>"` are injective for injective `sh`, never empty.
7. `lastBusy` and `lastTick` as least upper bounds.
-/
namespace ProcSim

attribute [local implicit_reducible] AMap
set_option linter.unusedSectionVars false

namespace CliLemmas
open Cli Spec.Text

/-! ## 1. `AMap` -/
section amap
variable {K V : Type} [DecidableEq K]

theorem get?_eq_none_iff (m : List (K × V)) (k : K) : AMap.get? m k = none ↔ ∀ kv ∈ m, kv.1 ≠ k := by
  induction m with
  | nil => simp
  | cons p m ih =>
    obtain ⟨k', v⟩ := p
    by_cases h : k' = k
    · simp [AMap.get?, h]
    · simp [AMap.get?, h, ih]

theorem mem_of_get? (m : List (K × V)) (k : K) (v : V) (h : AMap.get? m k = some v) : (k, v) ∈ m := by
  induction m with
  | nil => simp at h
  | cons p m ih =>
    obtain ⟨k', v'⟩ := p
    by_cases hk : k' = k
    · simp [AMap.get?, hk] at h; simp [hk, h]
    · simp [AMap.get?, hk] at h; exact List.mem_cons_of_mem _ (ih h)

theorem get?_of_mem (m : List (K × V)) (k : K) (v : V) (hn : (AMap.keys m).Nodup) (h : (k, v) ∈ m) :
    AMap.get? m k = some v := by
  induction m with
  | nil => simp at h
  | cons p m ih =>
    obtain ⟨k', v'⟩ := p
    simp only [AMap.keys, List.map_cons, List.nodup_cons] at hn
    rcases List.mem_cons.1 h with h | h
    · cases h; simp [AMap.get?]
    · have hne : k' ≠ k := by
        intro e; subst e
        exact hn.1 (List.mem_map.2 ⟨(k', v), h, rfl⟩)
      simp only [AMap.get?, hne, if_false]
      exact ih hn.2 h

theorem set_of_absent (m : List (K × V)) (k : K) (v : V) (h : AMap.get? m k = none) :
    AMap.set m k v = m ++ [(k, v)] := by
  induction m with
  | nil => rfl
  | cons p m ih =>
    obtain ⟨k', v'⟩ := p
    by_cases hk : k' = k
    · simp [AMap.get?, hk] at h
    · simp [AMap.get?, hk] at h
      simp [AMap.set, hk, ih h]

theorem get?_cons (k' : K) (v : V) (m : List (K × V)) (k : K) :
    AMap.get? ((k', v) :: m) k = if k' = k then some v else AMap.get? m k := rfl

end amap

variable {N : Type} [DecidableEq N]

/-! ## 2. `updateAt` -/

theorem updateAt_eq {α : Type} (l : List α) (i : Nat) (f : α → α) :
    updateAt l i f = if i < l.length then some (l.modify i f) else none := by
  induction l generalizing i with
  | nil => simp [updateAt]
  | cons x xs ih =>
    cases i with
    | zero => simp [updateAt, List.modify]
    | succ i =>
      simp only [updateAt, ih, List.length_cons, Nat.add_lt_add_iff_right]
      split <;> simp [List.modify]

/-! ## 3. filling the per-instruction dicts -/

/-- positions written for instruction `i` by the list `hs` of unit `u` -/
def wOf (u : N) (hs : List HI) (i : Nat) : List (Pos N) :=
  (hs.filter (fun h => h.idx == i)).map (fun h => ({ unit := u, st := h.st } : Pos N))

/-- positions written for instruction `i` by the entries `us`, in order -/
def writesOf (us : List (N × List HI)) (i : Nat) : List (Pos N) := us.flatMap (fun p => wOf p.1 p.2 i)

/-- the dict after writing `ws` under key `cp` -/
def applyW (cp : Nat) (m : List (Nat × Pos N)) (ws : List (Pos N)) : List (Nat × Pos N) :=
  ws.foldl (fun m p => AMap.set m cp p) m

theorem writesOf_nil (i : Nat) : writesOf ([] : List (N × List HI)) i = [] := rfl

theorem writesOf_cons (p : N × List HI) (us : List (N × List HI)) (i : Nat) :
    writesOf (p :: us) i = wOf p.1 p.2 i ++ writesOf us i := by
  simp [writesOf]

theorem applyW_append (cp : Nat) (m : List (Nat × Pos N)) (a b : List (Pos N)) :
    applyW cp m (a ++ b) = applyW cp (applyW cp m a) b := by
  simp [applyW, List.foldl_append]

theorem fillInstrs_spec (cp : Nat) (u : N) (hs : List HI) (icu : List (List (Nat × Pos N)))
    (hidx : ∀ h ∈ hs, h.idx < icu.length) :
    ∃ icu', fillInstrs cp u hs icu = .ok icu' ∧ icu'.length = icu.length ∧
      ∀ i, icu'[i]? = (icu[i]?).map (fun m => applyW cp m (wOf u hs i)) := by
  induction hs generalizing icu with
  | nil =>
    refine ⟨icu, rfl, rfl, fun i => ?_⟩
    cases icu[i]? <;> simp [wOf, applyW]
  | cons h hs ih =>
    have hlt : h.idx < icu.length := hidx h (by simp)
    simp only [fillInstrs, updateAt_eq, hlt, if_true]
    obtain ⟨icu', h1, h2, h3⟩ := ih (icu.modify h.idx (fun m => AMap.set m cp { unit := u, st := h.st }))
      (fun x hx => by rw [List.length_modify]; exact hidx x (List.mem_cons_of_mem _ hx))
    refine ⟨icu', h1, by rw [h2, List.length_modify], fun i => ?_⟩
    rw [h3, List.getElem?_modify]
    cases icu[i]? with
    | none => rfl
    | some m =>
      by_cases hi : h.idx = i
      · subst hi
        simp [wOf, applyW]
      · have : (h.idx == i) = false := by simpa using hi
        simp [wOf, applyW, hi, this]

theorem fillUnits_spec (cp : Nat) (us : List (N × List HI)) (icu : List (List (Nat × Pos N)))
    (hidx : ∀ p ∈ us, ∀ h ∈ p.2, h.idx < icu.length) :
    ∃ icu', fillUnits cp us icu = .ok icu' ∧ icu'.length = icu.length ∧
      ∀ i, icu'[i]? = (icu[i]?).map (fun m => applyW cp m (writesOf us i)) := by
  induction us generalizing icu with
  | nil =>
    refine ⟨icu, rfl, rfl, fun i => ?_⟩
    cases icu[i]? <;> simp [writesOf, applyW]
  | cons p us ih =>
    obtain ⟨u, l⟩ := p
    obtain ⟨icu1, h1, h2, h3⟩ := fillInstrs_spec cp u l icu (hidx (u, l) (by simp))
    obtain ⟨icu2, g1, g2, g3⟩ := ih icu1
      (fun q hq h hh => by rw [h2]; exact hidx q (List.mem_cons_of_mem _ hq) h hh)
    refine ⟨icu2, by simp [fillUnits, h1, g1], by rw [g2, h2], fun i => ?_⟩
    rw [g3, h3, writesOf_cons]
    cases icu[i]? with
    | none => rfl
    | some m => simp [applyW_append]

theorem wOf_nil (u : N) (i : Nat) : wOf u [] i = [] := rfl

/-- `BagValDict.items()` drops only entries that write nothing -/
theorem writesOf_items (c : List (N × List HI)) (i : Nat) : writesOf (Bag.items c) i = writesOf c i := by
  induction c with
  | nil => rfl
  | cons p c ih =>
    obtain ⟨u, l⟩ := p
    unfold Bag.items at ih ⊢
    rw [List.filter_cons]
    cases l with
    | nil => simp [writesOf_cons, wOf_nil, ih]
    | cons h l => simp [writesOf_cons, ih]

/-- position of instruction `i` in a cycle record (the first one written) -/
def posAt (c : List (N × List HI)) (i : Nat) : Option (Pos N) := (writesOf c i).head?

theorem applyW_of_le_one (cp : Nat) (m : List (Nat × Pos N)) (c : List (N × List HI)) (i : Nat)
    (h : (writesOf c i).length ≤ 1) :
    applyW cp m (writesOf c i) = match posAt c i with
      | none => m
      | some p => AMap.set m cp p := by
  unfold posAt
  cases hw : writesOf c i with
  | nil => rfl
  | cons p ps =>
    cases ps with
    | nil => rfl
    | cons q qs => rw [hw] at h; simp at h

/-- the dict of instruction `i` built from the cycles `d` numbered from `cp` -/
def expU (i : Nat) : Nat → List (List (N × List HI)) → List (Nat × Pos N)
  | _, [] => []
  | cp, c :: cs =>
    match posAt c i with
    | none => expU i (cp + 1) cs
    | some p => (cp, p) :: expU i (cp + 1) cs

theorem fillCycles_spec (d : List (List (N × List HI))) (cp : Nat) (icu : List (List (Nat × Pos N)))
    (hidx : ∀ c ∈ d, ∀ p ∈ c, ∀ h ∈ p.2, h.idx < icu.length)
    (hone : ∀ c ∈ d, ∀ i, i < icu.length → (writesOf c i).length ≤ 1)
    (hkeys : ∀ (i : Nat) (m : List (Nat × Pos N)), icu[i]? = some m → ∀ kv ∈ m, kv.1 < cp) :
    ∃ icu', fillCycles cp d icu = .ok icu' ∧ icu'.length = icu.length ∧
      ∀ (i : Nat) (m : List (Nat × Pos N)), icu[i]? = some m → icu'[i]? = some (m ++ expU i cp d) := by
  induction d generalizing cp icu with
  | nil => exact ⟨icu, rfl, rfl, fun i m h => by simp [expU, h]⟩
  | cons c cs ih =>
    obtain ⟨icu1, h1, h2, h3⟩ := fillUnits_spec cp (Bag.items c) icu
      (fun p hp h hh => hidx c (by simp) p (List.mem_filter.1 hp).1 h hh)
    -- what one cycle does to the dict of instruction `i`
    have hstep : ∀ (i : Nat) (m : List (Nat × Pos N)), icu[i]? = some m → icu1[i]? = some (match posAt c i with
        | none => m
        | some p => m ++ [(cp, p)]) := by
      intro i m hm
      have hi : i < icu.length := (List.getElem?_eq_some_iff.1 hm).1
      rw [h3, hm, writesOf_items, Option.map_some, applyW_of_le_one cp m c i (hone c (by simp) i hi)]
      cases posAt c i with
      | none => rfl
      | some p =>
        have : AMap.get? m cp = none := by
          rw [get?_eq_none_iff]
          intro kv hkv e
          have := hkeys i m hm kv hkv
          omega
        simp [set_of_absent m cp p this]
    obtain ⟨icu2, g1, g2, g3⟩ := ih (cp + 1) icu1
      (fun c' hc' p hp h hh => by rw [h2]; exact hidx c' (List.mem_cons_of_mem _ hc') p hp h hh)
      (fun c' hc' i hi => hone c' (List.mem_cons_of_mem _ hc') i (by rw [h2] at hi; exact hi))
      (by
        intro i m1 hm1 kv hkv
        have hi : i < icu.length := by rw [← h2]; exact (List.getElem?_eq_some_iff.1 hm1).1
        have hm := hstep i icu[i] (List.getElem?_eq_getElem hi)
        rw [hm1] at hm
        cases hp : posAt c i with
        | none =>
          rw [hp] at hm; simp only [Option.some.injEq] at hm; subst hm
          have := hkeys i _ (List.getElem?_eq_getElem hi) kv hkv
          omega
        | some p =>
          rw [hp] at hm; simp only [Option.some.injEq] at hm; subst hm
          rcases List.mem_append.1 hkv with hkv | hkv
          · have := hkeys i _ (List.getElem?_eq_getElem hi) kv hkv
            omega
          · simp at hkv; subst hkv; simp)
    refine ⟨icu2, by simp [fillCycles, h1, g1], by rw [g2, h2], fun i m hm => ?_⟩
    rw [g3 i _ (hstep i m hm)]
    cases hp : posAt c i with
    | none => simp [expU, hp]
    | some p => simp [expU, hp]

/-! ### the expected dict -/

theorem expU_append (i : Nat) (cp : Nat) (x y : List (List (N × List HI))) :
    expU i cp (x ++ y) = expU i cp x ++ expU i (cp + x.length) y := by
  induction x generalizing cp with
  | nil => simp [expU]
  | cons c cs ih =>
    simp only [List.cons_append, expU, List.length_cons]
    rw [ih (cp + 1), show cp + 1 + cs.length = cp + (cs.length + 1) by omega]
    cases posAt c i <;> simp

theorem expU_none (i : Nat) (cp : Nat) (x : List (List (N × List HI))) (h : ∀ c ∈ x, posAt c i = none) :
    expU i cp x = [] := by
  induction x generalizing cp with
  | nil => rfl
  | cons c cs ih =>
    simp only [expU, h c (by simp)]
    exact ih _ (fun c' hc' => h c' (List.mem_cons_of_mem _ hc'))

theorem keys_expU_all (i : Nat) (cp : Nat) (x : List (List (N × List HI))) (h : ∀ c ∈ x, (posAt c i).isSome = true) :
    (expU i cp x).map (·.1) = List.range' cp x.length := by
  induction x generalizing cp with
  | nil => rfl
  | cons c cs ih =>
    obtain ⟨p, hp⟩ := Option.isSome_iff_exists.1 (h c (by simp))
    simp only [expU, hp, List.map_cons, List.length_cons, List.range'_succ]
    rw [ih _ (fun c' hc' => h c' (List.mem_cons_of_mem _ hc'))]

theorem get?_expU (i : Nat) (cp : Nat) (d : List (List (N × List HI))) (t : Nat) :
    AMap.get? (expU i cp d) t = if t < cp then none else (d[t - cp]?).bind (fun c => posAt c i) := by
  induction d generalizing cp with
  | nil => simp [expU]
  | cons c cs ih =>
    by_cases h1 : t < cp
    · have h2 : t < cp + 1 := by omega
      cases hp : posAt c i with
      | none => simp [expU, hp, ih, h1, h2]
      | some p =>
        have : cp ≠ t := by omega
        simp [expU, hp, get?_cons, this, ih, h1, h2]
    · by_cases h3 : t = cp
      · subst h3
        cases hp : posAt c i with
        | none => simp [expU, hp, ih]
        | some p => simp [expU, hp, get?_cons]
      · have h2 : ¬ t < cp + 1 := by omega
        have h4 : t - cp = (t - (cp + 1)) + 1 := by omega
        have h5 : cp ≠ t := by omega
        cases hp : posAt c i with
        | none => simp [expU, hp, ih, h1, h2, h4]
        | some p => simp [expU, hp, get?_cons, h5, ih, h1, h2, h4]

/-! ## 4. one flight row -/

theorem foldl_min_eq (a : Nat) (l : List Nat) (h : ∀ x ∈ l, a ≤ x) : l.foldl min a = a := by
  induction l with
  | nil => rfl
  | cons x xs ih =>
    have : min a x = a := Nat.min_eq_left (h x (by simp))
    simp only [List.foldl_cons, this]
    exact ih (fun y hy => h y (List.mem_cons_of_mem _ hy))

theorem minKey_range' (a b : Nat) (hb : 1 ≤ b) : minKey (List.range' a b) = some a := by
  obtain ⟨b', rfl⟩ : ∃ b', b = b' + 1 := ⟨b - 1, by omega⟩
  rw [List.range'_succ]
  simp only [minKey]
  rw [foldl_min_eq]
  intro x hx
  obtain ⟨j, _, rfl⟩ := List.mem_range'.1 hx
  omega

theorem lookupRange_spec (k : Nat) (U : List (Nat × Pos N)) (s len : Nat)
    (h : ∀ j, j < len → ∃ p, AMap.get? U (s + j) = some p) :
    ∃ ps, lookupRange k U s len = .ok ps ∧ ps.length = len ∧ ∀ j, j < len → AMap.get? U (s + j) = ps[j]? := by
  induction len generalizing s with
  | zero => exact ⟨[], rfl, rfl, fun j hj => by omega⟩
  | succ len ih =>
    obtain ⟨p, hp⟩ := h 0 (by omega)
    rw [Nat.add_zero] at hp
    obtain ⟨ps, h1, h2, h3⟩ := ih (s + 1) (fun j hj => by
      have := h (j + 1) (by omega)
      rwa [show s + (j + 1) = s + 1 + j by omega] at this)
    refine ⟨p :: ps, by simp [lookupRange, hp, h1], by simp [h2], fun j hj => ?_⟩
    cases j with
    | zero => simpa using hp
    | succ j =>
      have := h3 j (by omega)
      rw [show s + 1 + j = s + (j + 1) by omega] at this
      simpa using this

/-- a dict with the contiguous keys `a, …, a+b-1` yields the row `"" × a ++ stops`, read off the dict cell by cell -/
theorem flightRow_spec (sh : N → String) (k : Nat) (U : List (Nat × Pos N)) (a b : Nat) (hb : 1 ≤ b)
    (hk : U.map (·.1) = List.range' a b) :
    ∃ r, flightRow sh k U = .ok r ∧ r.length = a + b ∧
      (∀ t, (r[t]?).getD "" = ((AMap.get? U t).map (Pos.str sh)).getD "") ∧
      (∀ T, r.length ≤ T ↔ ∀ t, T ≤ t → AMap.get? U t = none) := by
  have hlen : U.length = b := by simpa using congrArg List.length hk
  have hin : ∀ t, AMap.get? U t = none ↔ ¬ (a ≤ t ∧ t < a + b) := by
    intro t
    rw [get?_eq_none_iff]
    constructor
    · intro h ⟨h1, h2⟩
      have : t ∈ U.map (·.1) := by rw [hk]; exact List.mem_range'.2 ⟨t - a, by omega, by omega⟩
      obtain ⟨kv, hkv, e⟩ := List.mem_map.1 this
      exact h kv hkv e
    · intro h kv hkv e
      have : kv.1 ∈ List.range' a b := by rw [← hk]; exact List.mem_map.2 ⟨kv, hkv, rfl⟩
      obtain ⟨j, hj, e'⟩ := List.mem_range'.1 this
      exact h ⟨by omega, by omega⟩
  obtain ⟨ps, h1, h2, h3⟩ := lookupRange_spec k U a b (fun j hj => by
    cases hg : AMap.get? U (a + j) with
    | some p => exact ⟨p, rfl⟩
    | none => exact absurd ⟨by omega, by omega⟩ ((hin _).1 hg))
  have hmin : minKey (AMap.keys U) = some a := by
    show minKey (U.map (·.1)) = some a
    rw [hk]; exact minKey_range' a b hb
  refine ⟨List.replicate a "" ++ ps.map (Pos.str sh), ?_, by simp [h2], fun t => ?_, fun T => ?_⟩
  · simp only [flightRow, hmin, hlen, h1]
  rotate_left
  · simp only [List.length_append, List.length_replicate, List.length_map, h2]
    constructor
    · intro hT t ht
      exact (hin t).2 (by omega)
    · intro h
      apply Classical.byContradiction
      intro hlt
      have := (hin (a + b - 1)).1 (h (a + b - 1) (by omega))
      omega
  · rw [List.getElem?_append, List.length_replicate]
    by_cases hta : t < a
    · have : AMap.get? U t = none := (hin t).2 (by omega)
      simp [hta, this]
    · simp only [hta, if_false, List.getElem?_map]
      by_cases htb : t < a + b
      · have := h3 (t - a) (by omega)
        rw [show a + (t - a) = t by omega] at this
        rw [this]
      · have hn : AMap.get? U t = none := (hin t).2 (by omega)
        have : ps[t - a]? = none := List.getElem?_eq_none (by omega)
        simp [hn, this]

/-! ## 5. what `diagramOK` says per instruction -/

/-- the count used by `diagramOK` -/
def occN (c : List (N × List HI)) (i : Nat) : Nat :=
  ((c.map (fun p => p.2.filter (fun h => h.idx == i))).flatten).length

theorem writesOf_length (c : List (N × List HI)) (i : Nat) : (writesOf c i).length = occN c i := by
  induction c with
  | nil => rfl
  | cons p c ih =>
    unfold occN at ih ⊢
    simp [writesOf_cons, wOf, ih]

theorem posAt_eq_none_iff (c : List (N × List HI)) (i : Nat) : posAt c i = none ↔ occN c i = 0 := by
  unfold posAt
  rw [List.head?_eq_none_iff, ← writesOf_length, List.length_eq_zero_iff]

theorem posAt_isSome_iff (c : List (N × List HI)) (i : Nat) : (posAt c i).isSome = true ↔ 1 ≤ occN c i := by
  have := posAt_eq_none_iff c i
  cases h : posAt c i with
  | none => simp [(this.1 h)]
  | some p =>
    have : occN c i ≠ 0 := fun e => by rw [this.2 e] at h; cases h
    simp; omega

theorem all_takeWhile {α : Type} (p : α → Bool) (l : List α) : ∀ x ∈ l.takeWhile p, p x = true := by
  induction l with
  | nil => simp
  | cons a l ih =>
    intro x hx
    rw [List.takeWhile_cons] at hx
    split at hx
    · rcases List.mem_cons.1 hx with h | h
      · subst h; assumption
      · exact ih x h
    · simp at hx

/-- readable form of `diagramOK` -/
structure DiagOK (d : List (List (N × List HI))) (n : Nat) : Prop where
  idx : ∀ c ∈ d, ∀ p ∈ c, ∀ h ∈ p.2, h.idx < n
  one : ∀ c ∈ d, ∀ i, i < n → occN c i ≤ 1
  split : ∀ i, i < n → ∃ A B C : List (List (N × List HI)), d = A ++ B ++ C ∧ B ≠ [] ∧
    (∀ c ∈ A, occN c i = 0) ∧ (∀ c ∈ B, occN c i = 1) ∧ (∀ c ∈ C, occN c i = 0)

theorem diagOK_of (d : List (List (N × List HI))) (n : Nat) (h : diagramOK d n = true) : DiagOK d n := by
  unfold diagramOK at h
  simp only [Bool.and_eq_true, List.all_eq_true, List.mem_range, decide_eq_true_eq] at h
  obtain ⟨h1, h2⟩ := h
  refine ⟨fun c hc p hp x hx => h1 c hc p hp x hx, ?_, ?_⟩
  · intro c hc i hi
    obtain ⟨⟨ha, _⟩, _⟩ := h2 i hi
    exact ha (occN c i) (List.mem_map.2 ⟨c, hc, rfl⟩)
  · intro i hi
    obtain ⟨⟨ha, hb⟩, hc⟩ := h2 i hi
    have hle : ∀ c ∈ d, occN c i ≤ 1 := fun c hc => ha (occN c i) (List.mem_map.2 ⟨c, hc, rfl⟩)
    let f : List (N × List HI) → Nat := fun c => occN c i
    replace hc : ∀ x ∈ ((d.map f).dropWhile (· == 0)).dropWhile (· == 1), (x == 0) = true := hc
    replace hb : (d.map f).any (· == 1) = true := hb
    rw [List.dropWhile_map, List.dropWhile_map] at hc
    refine ⟨d.takeWhile ((· == 0) ∘ f), (d.dropWhile ((· == 0) ∘ f)).takeWhile ((· == 1) ∘ f),
      (d.dropWhile ((· == 0) ∘ f)).dropWhile ((· == 1) ∘ f), ?_, ?_, ?_, ?_, ?_⟩
    · rw [List.append_assoc, List.takeWhile_append_dropWhile, List.takeWhile_append_dropWhile]
    · -- some cycle has count 1; it is neither in the leading nor in the trailing block
      obtain ⟨x, hx, hx1⟩ := List.any_eq_true.1 hb
      obtain ⟨c, hcd, rfl⟩ := List.mem_map.1 hx
      have hx1' : f c = 1 := by simpa using hx1
      intro hB
      have hd : d = d.takeWhile ((· == 0) ∘ f) ++ ((d.dropWhile ((· == 0) ∘ f)).takeWhile ((· == 1) ∘ f) ++
          (d.dropWhile ((· == 0) ∘ f)).dropWhile ((· == 1) ∘ f)) := by
        rw [List.takeWhile_append_dropWhile, List.takeWhile_append_dropWhile]
      rw [hB, List.nil_append] at hd
      rw [hd] at hcd
      rcases List.mem_append.1 hcd with hm | hm
      · have := all_takeWhile _ _ c hm
        simp [hx1'] at this
      · have := hc (f c) (List.mem_map.2 ⟨c, hm, rfl⟩)
        simp [hx1'] at this
    · intro c hm
      have := all_takeWhile _ _ c hm
      simpa using this
    · intro c hm
      have := all_takeWhile _ _ c hm
      simpa using this
    · intro c hm
      have := hc (f c) (List.mem_map.2 ⟨c, hm, rfl⟩)
      simpa using this

/-- per instruction: the dict built by `_cui_to_icu` has contiguous keys, and reads the diagram -/
theorem expU_shape (d : List (List (N × List HI))) (n i : Nat) (hd : DiagOK d n) (hi : i < n) :
    ∃ a b, 1 ≤ b ∧ (expU i 0 d).map (·.1) = List.range' a b ∧
      ∀ t, AMap.get? (expU i 0 d) t = (d[t]?).bind (fun c => posAt c i) := by
  obtain ⟨A, B, C, rfl, hB, hA0, hB1, hC0⟩ := hd.split i hi
  refine ⟨A.length, B.length, ?_, ?_, fun t => by simpa using get?_expU i 0 (A ++ B ++ C) t⟩
  · cases B with
    | nil => exact absurd rfl hB
    | cons _ _ => simp
  · rw [expU_append, expU_append, expU_none i _ A (fun c hc => (posAt_eq_none_iff c i).2 (hA0 c hc)),
      expU_none i _ C (fun c hc => (posAt_eq_none_iff c i).2 (hC0 c hc))]
    simp only [List.nil_append, List.append_nil, Nat.zero_add]
    exact keys_expU_all i _ B (fun c hc => (posAt_isSome_iff c i).2 (by rw [hB1 c hc]; exact Nat.le_refl 1))

/-! ## 6. `posAt` versus `Hosted`; the printed strings -/

theorem mem_writesOf (c : List (N × List HI)) (i : Nat) (p : Pos N) :
    p ∈ writesOf c i ↔ ∃ e ∈ c, ∃ h ∈ e.2, h.idx = i ∧ p = { unit := e.1, st := h.st } := by
  unfold writesOf wOf
  simp only [List.mem_flatMap, List.mem_map, List.mem_filter, beq_iff_eq]
  constructor
  · rintro ⟨e, he, h, ⟨hh, hi⟩, rfl⟩
    exact ⟨e, he, h, hh, hi, rfl⟩
  · rintro ⟨e, he, h, hh, hi, rfl⟩
    exact ⟨e, he, h, ⟨hh, hi⟩, rfl⟩

theorem bag_get_of_mem (c : List (N × List HI)) (u : N) (l : List HI) (hn : (AMap.keys c).Nodup) (h : (u, l) ∈ c) :
    Bag.get c u = l := by
  simp [Bag.get, get?_of_mem c u l hn h]

theorem mem_of_bag_get (c : List (N × List HI)) (u : N) (x : HI) (h : x ∈ Bag.get c u) : (u, Bag.get c u) ∈ c := by
  unfold Bag.get at h ⊢
  cases hg : AMap.get? c u with
  | none => rw [hg] at h; simp at h
  | some l => simpa using mem_of_get? c u l hg

theorem posAt_eq_some_iff (c : List (N × List HI)) (i : Nat) (u : N) (L : Stall) (hn : (AMap.keys c).Nodup)
    (hone : occN c i ≤ 1) :
    posAt c i = some { unit := u, st := L } ↔ ({ idx := i, st := L } : HI) ∈ Bag.get c u := by
  constructor
  · intro h
    have hm : ({ unit := u, st := L } : Pos N) ∈ writesOf c i := List.mem_of_mem_head? (by unfold posAt at h; simp [h])
    obtain ⟨e, he, x, hx, hxi, hp⟩ := (mem_writesOf c i _).1 hm
    obtain ⟨eu, el⟩ := e
    simp only [Pos.mk.injEq] at hp
    obtain ⟨rfl, rfl⟩ := hp
    rw [bag_get_of_mem c u el hn he]
    have : x = { idx := i, st := x.st } := by cases x; simp_all
    rw [← this]; exact hx
  · intro h
    have hm : ({ unit := u, st := L } : Pos N) ∈ writesOf c i :=
      (mem_writesOf c i _).2 ⟨(u, Bag.get c u), mem_of_bag_get c u _ h, _, h, rfl, rfl⟩
    rw [← writesOf_length] at hone
    unfold posAt
    cases hw : writesOf c i with
    | nil => rw [hw] at hm; simp at hm
    | cons p ps =>
      cases ps with
      | nil => rw [hw] at hm; simp at hm; simp [hm]
      | cons q qs => rw [hw] at hone; simp at hone

theorem posAt_eq_none_iff_hosted (c : List (N × List HI)) (i : Nat) (hn : (AMap.keys c).Nodup) :
    posAt c i = none ↔ ∀ (L : Stall) (u : N), ({ idx := i, st := L } : HI) ∉ Bag.get c u := by
  unfold posAt
  rw [List.head?_eq_none_iff]
  constructor
  · intro h L u hm
    have : ({ unit := u, st := L } : Pos N) ∈ writesOf c i :=
      (mem_writesOf c i _).2 ⟨(u, Bag.get c u), mem_of_bag_get c u _ hm, _, hm, rfl, rfl⟩
    rw [h] at this; simp at this
  · intro h
    cases hw : writesOf c i with
    | nil => rfl
    | cons p ps =>
      have hm : p ∈ writesOf c i := by rw [hw]; simp
      obtain ⟨e, he, x, hx, hxi, hp⟩ := (mem_writesOf c i _).1 hm
      obtain ⟨eu, el⟩ := e
      exfalso
      apply h x.st eu
      rw [bag_get_of_mem c eu el hn he]
      have : x = { idx := i, st := x.st } := by cases x; simp_all
      rw [← this]; exact hx

theorem code_toList (L : Stall) : L.code.toList = [match L with | .U => 'U' | .S => 'S' | .D => 'D'] := by
  cases L <;> decide

theorem str_toList (sh : N → String) (L : Stall) (u : N) :
    (L.code ++ ":" ++ sh u).toList = (match L with | .U => 'U' | .S => 'S' | .D => 'D') :: ':' :: (sh u).toList := by
  have : ":".toList = [':'] := by decide
  simp [String.toList_append, code_toList, this]

theorem str_ne_empty (sh : N → String) (L : Stall) (u : N) : L.code ++ ":" ++ sh u ≠ "" := by
  intro h
  have := congrArg String.toList h
  rw [str_toList] at this
  simp at this

theorem str_inj (sh : N → String) (hsh : Function.Injective sh) (L L' : Stall) (u u' : N)
    (h : L.code ++ ":" ++ sh u = L'.code ++ ":" ++ sh u') : L = L' ∧ u = u' := by
  have := congrArg String.toList h
  rw [str_toList, str_toList] at this
  simp only [List.cons.injEq, true_and] at this
  obtain ⟨h1, h2⟩ := this
  refine ⟨?_, hsh (String.toList_inj.1 h2)⟩
  cases L <;> cases L' <;> first | rfl | (exfalso; revert h1; decide)

theorem posStr (sh : N → String) (p : Pos N) : Pos.str sh p = p.st.code ++ ":" ++ sh p.unit := rfl

/-! ## 7. `lastBusy`, `lastTick` -/

theorem lastBusy_le_iff (d : List (List (N × List HI))) (T : Nat) :
    lastBusy d ≤ T ↔ ∀ t c, T ≤ t → d[t]? = some c → (Bag.items c).isEmpty = true := by
  induction d generalizing T with
  | nil => simp [lastBusy]
  | cons c cs ih =>
    simp only [lastBusy]
    by_cases hr : lastBusy cs > 0
    · simp only [hr, if_true]
      cases T with
      | zero =>
        constructor
        · intro h; omega
        · intro h
          exfalso
          have : lastBusy cs ≤ 0 := (ih 0).2 (fun t c' _ hc' => h (t + 1) c' (Nat.zero_le _) (by simpa using hc'))
          omega
      | succ T =>
        rw [Nat.add_le_add_iff_right, ih T]
        constructor
        · intro h t c' ht hc'
          cases t with
          | zero => omega
          | succ t => exact h t c' (by omega) (by simpa using hc')
        · intro h t c' ht hc'
          exact h (t + 1) c' (by omega) (by simpa using hc')
    · have hr0 : lastBusy cs ≤ 0 := by omega
      have hidle := (ih 0).1 hr0
      simp only [hr, if_false]
      constructor
      · intro h t c' ht hc'
        cases t with
        | zero =>
          simp at hc'; subst hc'
          cases hce : (Bag.items c).isEmpty with
          | true => rfl
          | false => simp [hce] at h; omega
        | succ t => exact hidle t c' (Nat.zero_le _) (by simpa using hc')
      · intro h
        cases T with
        | zero =>
          have := h 0 c (Nat.le_refl _) (by simp)
          simp [this]
        | succ T => split <;> omega

theorem lastTick_le_iff (rows : List (List String)) (T : Nat) :
    lastTick rows ≤ T ↔ ∀ r ∈ rows, r.length ≤ T := by
  induction rows with
  | nil => simp [lastTick]
  | cons r rs ih => simp [lastTick, Nat.max_le, ih]

theorem eq_of_le_iff (a b : Nat) (h : ∀ T, a ≤ T ↔ b ≤ T) : a = b :=
  Nat.le_antisymm ((h b).2 (Nat.le_refl _)) ((h a).1 (Nat.le_refl _))

/-- a cycle is idle iff no instruction `< n` has a position in it (when only instructions `< n` occur) -/
theorem items_isEmpty_iff (c : List (N × List HI)) (n : Nat) (hidx : ∀ p ∈ c, ∀ h ∈ p.2, h.idx < n) :
    (Bag.items c).isEmpty = true ↔ ∀ i, i < n → posAt c i = none := by
  rw [List.isEmpty_iff]
  unfold Bag.items
  rw [List.filter_eq_nil_iff]
  constructor
  · intro h i _
    unfold posAt
    rw [List.head?_eq_none_iff]
    cases hw : writesOf c i with
    | nil => rfl
    | cons p ps =>
      exfalso
      have hm : p ∈ writesOf c i := by rw [hw]; simp
      obtain ⟨e, he, x, hx, _, _⟩ := (mem_writesOf c i _).1 hm
      have := h e he
      cases hl : e.2 with
      | nil => rw [hl] at hx; simp at hx
      | cons _ _ => simp [hl] at this
  · intro h e he
    cases hl : e.2 with
    | nil => simp
    | cons x xs =>
      exfalso
      have hx : x ∈ e.2 := by rw [hl]; simp
      have hn := h x.idx (hidx e he x hx)
      unfold posAt at hn
      rw [List.head?_eq_none_iff] at hn
      have : ({ unit := e.1, st := x.st } : Pos N) ∈ writesOf c x.idx :=
        (mem_writesOf c _ _).2 ⟨e, he, x, hx, rfl, rfl⟩
      rw [hn] at this; simp at this

/-! ## 8. rows, keys, table -/

theorem flightRows_spec (sh : N → String) (icu : List (List (Nat × Pos N))) (k : Nat)
    (P : Nat → List String → Prop)
    (h : ∀ (j : Nat) (U : List (Nat × Pos N)), icu[j]? = some U → ∃ r, flightRow sh (k + j) U = .ok r ∧ P (k + j) r) :
    ∃ rows, flightRows sh k icu = .ok rows ∧ rows.length = icu.length ∧
      ∀ (j : Nat) (r : List String), rows[j]? = some r → P (k + j) r := by
  induction icu generalizing k with
  | nil => exact ⟨[], rfl, rfl, fun j r hr => by simp at hr⟩
  | cons U us ih =>
    obtain ⟨r, h1, h2⟩ := h 0 U (by simp)
    obtain ⟨rs, g1, g2, g3⟩ := ih (k + 1) (fun j U' hU' => by
      have := h (j + 1) U' (by simpa using hU')
      rwa [show k + (j + 1) = k + 1 + j by omega] at this)
    rw [Nat.add_zero] at h1 h2
    refine ⟨r :: rs, by simp [flightRows, h1, g1], by simp [g2], fun j r' hr' => ?_⟩
    cases j with
    | zero => simp at hr'; subst hr'; exact h2
    | succ j =>
      have := g3 j r' (by simpa using hr')
      rwa [show k + 1 + j = k + (j + 1) by omega] at this

theorem keyRows_length (k : Nat) (rows : List (List String)) : (keyRows k rows).length = rows.length := by
  induction rows generalizing k with
  | nil => rfl
  | cons r rs ih => simp [keyRows, ih]

theorem keyRows_getElem? (k : Nat) (rows : List (List String)) (j : Nat) :
    (keyRows k rows)[j]? = (rows[j]?).map (fun r => ("I" ++ toString (k + j)) :: r) := by
  induction rows generalizing k j with
  | nil => simp [keyRows]
  | cons r rs ih =>
    cases j with
    | zero => simp [keyRows]
    | succ j =>
      simp only [keyRows, List.getElem?_cons_succ, ih]
      rw [show k + 1 + j = k + (j + 1) by omega]

theorem cell_table_key (rows : List (List String)) (j : Nat) (hj : j < rows.length) :
    cell (table rows) (j + 1) 0 = "I" ++ toString (j + 1) := by
  unfold cell table
  rw [List.getElem?_cons_succ, keyRows_getElem?, List.getElem?_eq_getElem hj]
  simp only [Option.map_some, Option.bind_some, List.getElem?_cons_zero, Option.getD_some, Nat.add_comm 1 j]

theorem cell_table (rows : List (List String)) (j t : Nat) :
    cell (table rows) (j + 1) (t + 1) = (((rows[j]?).bind (·[t]?))).getD "" := by
  unfold cell table
  rw [List.getElem?_cons_succ, keyRows_getElem?]
  cases rows[j]? <;> simp

/-! ## 9. the checker `checkC16` -/

theorem mem_hostStrs (sh : N → String) (c : List (N × List HI)) (i : Nat) (s : String) :
    s ∈ hostStrs sh c i ↔ ∃ e ∈ c, ∃ h ∈ e.2, h.idx = i ∧ s = h.st.code ++ ":" ++ sh e.1 := by
  unfold hostStrs
  simp only [List.mem_flatten, List.mem_map]
  constructor
  · rintro ⟨l, ⟨e, he, rfl⟩, hs⟩
    obtain ⟨h, hh, rfl⟩ := List.mem_map.1 hs
    obtain ⟨hh1, hh2⟩ := List.mem_filter.1 hh
    exact ⟨e, he, h, hh1, by simpa using hh2, rfl⟩
  · rintro ⟨e, he, h, hh, hi, rfl⟩
    exact ⟨_, ⟨e, he, rfl⟩, List.mem_map.2 ⟨h, List.mem_filter.2 ⟨hh, by simpa using hi⟩, rfl⟩⟩

/-- the strings the checker collects for a cell -/
def hostStrsAt (sh : N → String) (d : List (List (N × List HI))) (t i : Nat) : List String :=
  match d[t]? with
  | some c => hostStrs sh c i
  | none => []

theorem mem_hostStrsAt (sh : N → String) (d : List (List (N × List HI))) (t i : Nat) (s : String)
    (hnd : ∀ c ∈ d, (AMap.keys c).Nodup) :
    s ∈ hostStrsAt sh d t i ↔ ∃ (L : Stall) (u : N), Hosted d t u i L ∧ s = L.code ++ ":" ++ sh u := by
  unfold hostStrsAt Hosted
  cases hc : d[t]? with
  | none => simp
  | some c =>
    have hcd : c ∈ d := List.mem_of_getElem? hc
    simp only [mem_hostStrs, Option.some.injEq, exists_eq_left']
    constructor
    · rintro ⟨e, he, h, hh, hi, rfl⟩
      obtain ⟨eu, el⟩ := e
      refine ⟨h.st, eu, ?_, rfl⟩
      rw [bag_get_of_mem c eu el (hnd c hcd) he]
      have : h = { idx := i, st := h.st } := by cases h; simp_all
      rw [← this]; exact hh
    · rintro ⟨L, u, hm, rfl⟩
      exact ⟨(u, Bag.get c u), mem_of_bag_get c u _ hm, _, hm, rfl, rfl⟩

/-- the Boolean test of `checkRowCells` for one cell -/
def cellBad (hs : List String) (x : String) : Bool :=
  match hs with
  | [] => x != ""
  | h :: rest => !(x == h && rest.all (· == h))

theorem cellBad_false_iff (hs : List String) (x : String) :
    cellBad hs x = false ↔ (hs = [] ∧ x = "") ∨ (hs ≠ [] ∧ ∀ s ∈ hs, s = x) := by
  cases hs with
  | nil => simp [cellBad]
  | cons h rest =>
    simp only [cellBad, Bool.not_eq_false', Bool.and_eq_true, beq_iff_eq, List.all_eq_true, reduceCtorEq, false_and,
      false_or, ne_eq, not_false_eq_true, true_and, List.mem_cons, forall_eq_or_imp]
    constructor
    · rintro ⟨rfl, h2⟩
      exact ⟨rfl, fun s hs => h2 s hs⟩
    · rintro ⟨rfl, h2⟩
      exact ⟨rfl, fun s hs => h2 s hs⟩

/-- per cell: the checker's test is the per-cell clause of `C16_Holds` -/
theorem cellBad_iff (sh : N → String) (hsh : Function.Injective sh) (d : List (List (N × List HI))) (x : String)
    (t i : Nat) (hnd : ∀ c ∈ d, (AMap.keys c).Nodup) :
    cellBad (hostStrsAt sh d t i) x = false ↔
      ((∀ (L : Stall) (u : N), x = L.code ++ ":" ++ sh u ↔ Hosted d t u i L) ∧
       (x = "" ↔ ∀ (L : Stall) (u : N), ¬ Hosted d t u i L)) := by
  have hmem := fun s => mem_hostStrsAt sh d t i s hnd
  rw [cellBad_false_iff]
  constructor
  · rintro (⟨h0, rfl⟩ | ⟨hne, hall⟩)
    · have hno : ∀ (L : Stall) (u : N), ¬ Hosted d t u i L := by
        intro L u hH
        have := (hmem _).2 ⟨L, u, hH, rfl⟩
        rw [h0] at this; simp at this
      exact ⟨fun L u => ⟨fun h => absurd h.symm (str_ne_empty sh L u), fun h => absurd h (hno L u)⟩,
        ⟨fun _ => hno, fun _ => rfl⟩⟩
    · obtain ⟨s0, hs0⟩ := List.exists_mem_of_ne_nil _ hne
      obtain ⟨L0, u0, hH0, e0⟩ := (hmem s0).1 hs0
      have hx : x = L0.code ++ ":" ++ sh u0 := by rw [← e0]; exact (hall s0 hs0).symm
      refine ⟨fun L u => ⟨fun h => ?_, fun h => ?_⟩, ⟨fun h => ?_, fun h => absurd hH0 (h L0 u0)⟩⟩
      · rw [hx] at h
        obtain ⟨rfl, rfl⟩ := str_inj sh hsh _ _ _ _ h
        exact hH0
      · exact (hall _ ((hmem _).2 ⟨L, u, h, rfl⟩)).symm
      · rw [hx] at h; exact absurd h (str_ne_empty sh L0 u0)
  · rintro ⟨h1, h2⟩
    cases hhs : hostStrsAt sh d t i with
    | nil =>
      refine .inl ⟨rfl, h2.2 ?_⟩
      intro L u hH
      have := (hmem _).2 ⟨L, u, hH, rfl⟩
      rw [hhs] at this; simp at this
    | cons s0 rest =>
      refine .inr ⟨by simp, ?_⟩
      intro s hs
      rw [← hhs] at hs
      obtain ⟨L, u, hH, rfl⟩ := (hmem s).1 hs
      exact ((h1 L u).2 hH).symm

theorem checkRowCells_succ (sh : N → String) (d : List (List (N × List HI))) (tbl : List (List String))
    (k t fuel : Nat) :
    checkRowCells sh d tbl k t (fuel + 1) =
      if cellBad (hostStrsAt sh d (t - 1) (k - 1)) (cell tbl k t) then
        some s!"cell (I{k}, {t}) is '<label>:<unit>' exactly when the diagram places the instruction there"
      else checkRowCells sh d tbl k (t + 1) fuel := by
  unfold hostStrsAt cellBad
  rw [checkRowCells]
  cases d[t - 1]? with
  | none => rfl
  | some c => cases hostStrs sh c (k - 1) <;> rfl

theorem checkRowCells_none_iff (sh : N → String) (d : List (List (N × List HI))) (tbl : List (List String))
    (k t fuel : Nat) :
    checkRowCells sh d tbl k t fuel = none ↔
      ∀ t', t ≤ t' → t' < t + fuel → cellBad (hostStrsAt sh d (t' - 1) (k - 1)) (cell tbl k t') = false := by
  induction fuel generalizing t with
  | zero => simp [checkRowCells]; intro t' h1 h2; omega
  | succ fuel ih =>
    rw [checkRowCells_succ]
    cases hb : cellBad (hostStrsAt sh d (t - 1) (k - 1)) (cell tbl k t) with
    | true =>
      simp only [if_true, reduceCtorEq, false_iff]
      intro h
      have := h t (Nat.le_refl _) (by omega)
      rw [hb] at this; cases this
    | false =>
      simp only [Bool.false_eq_true, if_false, ih]
      constructor
      · intro h t' h1 h2
        by_cases e : t' = t
        · subst e; exact hb
        · exact h t' (by omega) (by omega)
      · intro h t' h1 h2
        exact h t' (by omega) (by omega)

theorem checkRows_none_iff (sh : N → String) (d : List (List (N × List HI))) (tbl : List (List String))
    (width k fuel : Nat) :
    checkRows sh d tbl width k fuel = none ↔
      ∀ k', k ≤ k' → k' < k + fuel → (cell tbl k' 0 = "I" ++ toString k' ∧
        ∀ t', 1 ≤ t' → t' < 1 + width → cellBad (hostStrsAt sh d (t' - 1) (k' - 1)) (cell tbl k' t') = false) := by
  induction fuel generalizing k with
  | zero => simp [checkRows]; intro k' h1 h2; omega
  | succ fuel ih =>
    rw [checkRows]
    by_cases hkey : cell tbl k 0 = "I" ++ toString k
    · have hk' : (cell tbl k 0 != "I" ++ toString k) = false := by simpa using hkey
      simp only [hk', Bool.false_eq_true, if_false]
      cases hc : checkRowCells sh d tbl k 1 width with
      | some e =>
        simp only [reduceCtorEq, false_iff]
        intro h
        have := (h k (Nat.le_refl _) (by omega)).2
        rw [← checkRowCells_none_iff, hc] at this
        cases this
      | none =>
        simp only [ih]
        have hc' := (checkRowCells_none_iff sh d tbl k 1 width).1 hc
        constructor
        · intro h k' h1 h2
          by_cases e : k' = k
          · subst e; exact ⟨hkey, hc'⟩
          · exact h k' (by omega) (by omega)
        · intro h k' h1 h2
          exact h k' (by omega) (by omega)
    · have hk' : (cell tbl k 0 != "I" ++ toString k) = true := by simpa using hkey
      simp only [hk', if_true, reduceCtorEq, false_iff]
      intro h
      exact hkey (h k (Nat.le_refl _) (by omega)).1

theorem foldl_max_ge (tbl : List (List String)) (init : Nat) :
    init ≤ tbl.foldl (fun m r => max m r.length) init ∧
    ∀ r ∈ tbl, r.length ≤ tbl.foldl (fun m r => max m r.length) init := by
  induction tbl generalizing init with
  | nil => simp
  | cons r rs ih =>
    simp only [List.foldl_cons, List.mem_cons, forall_eq_or_imp]
    obtain ⟨h1, h2⟩ := ih (max init r.length)
    exact ⟨by omega, by omega, h2⟩

/-! ## 10. from C03's clauses to `diagramOK` -/

theorem consec_eq_range' (l : List Nat) (h : Spec.consec l = true) : l = List.range' (l.headD 0) l.length := by
  induction l with
  | nil => rfl
  | cons a l ih =>
    cases l with
    | nil => simp
    | cons b rest =>
      simp only [Spec.consec, Bool.and_eq_true, decide_eq_true_eq] at h
      obtain ⟨rfl, h2⟩ := h
      have := ih h2
      simp only [List.headD_cons, List.length_cons] at this ⊢
      rw [List.range'_succ, ← this]

theorem tail_zero_of_prefix (o : List Nat) (h1 : ∀ x ∈ o, x ≤ 1)
    (hp : ∀ j j' : Nat, j' < j → o[j]? = some 1 → o[j']? = some 1) :
    (o.dropWhile (· == 1)).all (· == 0) = true := by
  induction o with
  | nil => rfl
  | cons y o ih =>
    have hy : y ≤ 1 := h1 y (by simp)
    have hy' : y = 0 ∨ y = 1 := by omega
    rcases hy' with rfl | rfl
    · rw [List.dropWhile_cons]
      simp only [show ((0 : Nat) == 1) = false by decide, Bool.false_eq_true, if_false, List.all_cons,
        Bool.and_eq_true, List.all_eq_true]
      refine ⟨by decide, fun z hz => ?_⟩
      obtain ⟨j, hj⟩ := List.getElem?_of_mem hz
      have hz1 : z ≤ 1 := h1 z (List.mem_cons_of_mem _ hz)
      have hz' : z = 0 ∨ z = 1 := by omega
      rcases hz' with rfl | rfl
      · decide
      · have := hp (j + 1) 0 (by omega) (by simpa using hj)
        simp at this
    · rw [List.dropWhile_cons]
      simp only [show ((1 : Nat) == 1) = true by decide, if_true]
      exact ih (fun x hx => h1 x (List.mem_cons_of_mem _ hx))
        (fun j j' hjj h => by
          have := hp (j + 1) (j' + 1) (by omega) (by simpa using h)
          simpa using this)

theorem contig_of_convex (o : List Nat) (h1 : ∀ x ∈ o, x ≤ 1)
    (hc : ∀ t1 t2 t3 : Nat, t1 < t2 → t2 < t3 → o[t1]? = some 1 → o[t3]? = some 1 → o[t2]? = some 1) :
    ((o.dropWhile (· == 0)).dropWhile (· == 1)).all (· == 0) = true := by
  induction o with
  | nil => rfl
  | cons y o ih =>
    have hy : y ≤ 1 := h1 y (by simp)
    have hy' : y = 0 ∨ y = 1 := by omega
    rcases hy' with rfl | rfl
    · rw [List.dropWhile_cons]
      simp only [show ((0 : Nat) == 0) = true by decide, if_true]
      exact ih (fun x hx => h1 x (List.mem_cons_of_mem _ hx))
        (fun t1 t2 t3 h12 h23 a b => by
          have := hc (t1 + 1) (t2 + 1) (t3 + 1) (by omega) (by omega) (by simpa using a) (by simpa using b)
          simpa using this)
    · rw [List.dropWhile_cons]
      simp only [show ((1 : Nat) == 0) = false by decide, Bool.false_eq_true, if_false]
      rw [List.dropWhile_cons]
      simp only [show ((1 : Nat) == 1) = true by decide, if_true]
      exact tail_zero_of_prefix o (fun x hx => h1 x (List.mem_cons_of_mem _ hx))
        (fun j j' hjj h => by
          have := hc 0 (j' + 1) (j + 1) (by omega) (by omega) (by simp) (by simpa using h)
          simpa using this)

/-- pointwise introduction rule for `diagramOK` -/
theorem diagramOK_intro (d : List (List (N × List HI))) (n : Nat)
    (hidx : ∀ c ∈ d, ∀ p ∈ c, ∀ h ∈ p.2, h.idx < n)
    (hone : ∀ i, i < n → ∀ c ∈ d, occN c i ≤ 1)
    (hex : ∀ i, i < n → ∃ c ∈ d, occN c i = 1)
    (hconv : ∀ i, i < n → ∀ (t1 t2 t3 : Nat) (c1 c3 : List (N × List HI)), t1 < t2 → t2 < t3 →
      d[t1]? = some c1 → d[t3]? = some c3 → occN c1 i = 1 → occN c3 i = 1 → ∃ c2, d[t2]? = some c2 ∧ occN c2 i = 1) :
    diagramOK d n = true := by
  unfold diagramOK
  simp only [Bool.and_eq_true, List.all_eq_true, List.mem_range, decide_eq_true_eq]
  refine ⟨fun c hc p hp h hh => hidx c hc p hp h hh, fun i hi => ?_⟩
  show ((∀ x ∈ d.map (fun c => occN c i), x ≤ 1) ∧ (d.map (fun c => occN c i)).any (· == 1) = true) ∧
    ∀ x ∈ ((d.map (fun c => occN c i)).dropWhile (· == 0)).dropWhile (· == 1), (x == 0) = true
  have h1 : ∀ x ∈ d.map (fun c => occN c i), x ≤ 1 := by
    intro x hx
    obtain ⟨c, hc, rfl⟩ := List.mem_map.1 hx
    exact hone i hi c hc
  refine ⟨⟨h1, ?_⟩, ?_⟩
  · obtain ⟨c, hc, hc1⟩ := hex i hi
    exact List.any_eq_true.2 ⟨occN c i, List.mem_map.2 ⟨c, hc, rfl⟩, by simp [hc1]⟩
  · have := contig_of_convex (d.map (fun c => occN c i)) h1 (by
      intro t1 t2 t3 h12 h23 a b
      simp only [List.getElem?_map, Option.map_eq_some_iff] at a b ⊢
      obtain ⟨c1, hc1, e1⟩ := a
      obtain ⟨c3, hc3, e3⟩ := b
      exact hconv i hi t1 t2 t3 c1 c3 h12 h23 hc1 hc3 e1 e3)
    exact List.all_eq_true.1 this

/-- occurrences of instruction `i` in a list -/
def cntI (i : Nat) (l : List HI) : Nat := (l.filter (fun h => h.idx == i)).length

theorem occN_cons (p : N × List HI) (c : List (N × List HI)) (i : Nat) :
    occN (p :: c) i = cntI i p.2 + occN c i := by
  simp [occN, cntI]

theorem sum_le_sum_add {α : Type} (units : List α) (a b : α → Nat) (m : Nat) (h : ∀ u ∈ units, a u ≤ b u)
    (hm : m = 0 ∨ ∃ u0 ∈ units, a u0 + m ≤ b u0) : (units.map a).sum + m ≤ (units.map b).sum := by
  induction units generalizing m with
  | nil =>
    rcases hm with rfl | ⟨u0, hu0, _⟩
    · simp
    · simp at hu0
  | cons u us ih =>
    simp only [List.map_cons, List.sum_cons]
    have hu : a u ≤ b u := h u (by simp)
    have hus : ∀ v ∈ us, a v ≤ b v := fun v hv => h v (List.mem_cons_of_mem _ hv)
    rcases hm with rfl | ⟨u0, hu0, hle⟩
    · have := ih 0 hus (.inl rfl); omega
    · rcases List.mem_cons.1 hu0 with rfl | hu0
      · have := ih 0 hus (.inl rfl); omega
      · have := ih m hus (.inr ⟨u0, hu0, hle⟩); omega

theorem bag_get_cons (x : N) (l : List HI) (row : List (N × List HI)) (y : N) :
    Bag.get ((x, l) :: row) y = if x = y then l else Bag.get row y := by
  unfold Bag.get
  rw [get?_cons]
  split <;> rfl

/-- counting over the entries of a record is bounded by counting over the units' look-ups -/
theorem occN_le_units (units : List (UnitM N)) (row : List (N × List HI)) (i : Nat)
    (hn : (AMap.keys row).Nodup) (hnames : ∀ e ∈ row, e.2 ≠ [] → ∃ u ∈ units, u.name = e.1) :
    occN row i ≤ (units.map (fun u => cntI i (Bag.get row u.name))).sum := by
  induction row with
  | nil => simp [occN]
  | cons e row ih =>
    obtain ⟨x, l⟩ := e
    simp only [AMap.keys, List.map_cons, List.nodup_cons] at hn
    have ih' := ih hn.2 (fun e he hne => hnames e (List.mem_cons_of_mem _ he) hne)
    have hx : Bag.get row x = [] := by
      unfold Bag.get
      have : AMap.get? row x = none := by
        rw [get?_eq_none_iff]
        intro kv hkv e
        exact hn.1 (List.mem_map.2 ⟨kv, hkv, e⟩)
      simp [this]
    have hoc : occN ((x, l) :: row) i = cntI i l + occN row i := occN_cons (x, l) row i
    rw [hoc]
    have := sum_le_sum_add units (fun u => cntI i (Bag.get row u.name))
      (fun u => cntI i (Bag.get ((x, l) :: row) u.name)) (cntI i l)
      (fun u _ => by
        simp only [bag_get_cons]
        split
        · rename_i e; rw [← e, hx]; simp [cntI]
        · exact Nat.le_refl _)
      (by
        by_cases hc : cntI i l = 0
        · exact .inl hc
        · right
          have hl : l ≠ [] := by
            intro e; subst e; simp [cntI] at hc
          obtain ⟨u0, hu0, hname⟩ := hnames (x, l) (by simp) hl
          refine ⟨u0, hu0, ?_⟩
          simp only [bag_get_cons]
          rw [hname, hx]; simp [cntI])
    omega

theorem nodup_const_length {l : List Nat} {t : Nat} (hn : l.Nodup) (h : ∀ x ∈ l, x = t) : l.length ≤ 1 := by
  cases l with
  | nil => simp
  | cons a l =>
    cases l with
    | nil => simp
    | cons b l =>
      exfalso
      have ha := h a (by simp)
      have hb := h b (by simp)
      rw [List.nodup_cons] at hn
      exact hn.1 (by rw [ha, ← hb]; simp)

end CliLemmas
end ProcSim
