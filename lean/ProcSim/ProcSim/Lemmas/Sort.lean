import ProcSim.Model.Basic
/-!
# Facts about `isort` / `insertBy` / `dedup` of `Model/Basic.lean` (core Lean only)

All statements are about a Boolean comparison `le : α → α → Bool`.

* `isort_perm`                : `isort le l ~ l` (no hypothesis on `le`)
* `isort_pairwise`            : total + transitive `le` ⇒ the output is `Pairwise (le · · = true)`
* `eq_of_perm_of_pairwise`    : two sorted permutations of each other are equal when `le` is antisymmetric
                                *on the elements of the list*
* `isort_eq_of_perm`          : `l₁ ~ l₂ → isort le l₁ = isort le l₂`
* `perm_of_isort_eq`          : `isort le l₁ = isort le l₂ → l₁ ~ l₂` (no hypothesis on `le`)
* `isort_eq_iff_perm`         : both, for a total order
* `isort_of_pairwise`, `isort_idem` : a sorted list is a fixed point
* `isort_filter`              : stability — sorting commutes with `filter` (total + transitive `le`)
* `isort_stable`              : the elements equivalent to `a` keep their input order
* `mem_dedup`, `dedup_nodup`, `dedup_sublist`, `dedup_eq_self`, `dedup_eq_self_iff`
* `subset_of_nodup_subset_length_le`, `perm_of_nodup_subset_length_le` : pigeonhole on duplicate-free lists

All names live in the namespace `ProcSim.ISort` (`Lemmas/SimCore.lean` and `Lemmas/LoaderGraph.lean` have private
copies of `isort_perm`/`mem_isort` in their own namespaces; use `open ISort` or the qualified names).
-/
namespace ProcSim
namespace ISort

open List

/-- `le` is total -/
def TotalB {α : Type} (le : α → α → Bool) : Prop := ∀ x y, le x y = true ∨ le y x = true
/-- `le` is transitive -/
def TransB {α : Type} (le : α → α → Bool) : Prop := ∀ x y z, le x y = true → le y z = true → le x z = true
/-- `le` is antisymmetric on the members of `l` -/
def AntisymmOn {α : Type} (le : α → α → Bool) (l : List α) : Prop :=
  ∀ x, x ∈ l → ∀ y, y ∈ l → le x y = true → le y x = true → x = y

section isort
variable {α : Type} (le : α → α → Bool)

@[simp] theorem insertBy_nil (x : α) : insertBy le x [] = [x] := rfl
@[simp] theorem isort_nil : isort le ([] : List α) = [] := rfl
@[simp] theorem isort_cons (x : α) (l : List α) : isort le (x :: l) = insertBy le x (isort le l) := rfl

theorem insertBy_cons (x y : α) (ys : List α) :
    insertBy le x (y :: ys) = if le x y then x :: y :: ys else y :: insertBy le x ys := rfl

theorem insertBy_perm (x : α) (l : List α) : insertBy le x l ~ x :: l := by
  induction l with
  | nil => exact Perm.refl _
  | cons y ys ih =>
    rw [insertBy_cons]
    split
    · exact Perm.refl _
    · exact (Perm.cons y ih).trans (Perm.swap x y ys)

theorem isort_perm (l : List α) : isort le l ~ l := by
  induction l with
  | nil => exact Perm.refl _
  | cons x xs ih => exact (insertBy_perm le x _).trans (Perm.cons x ih)

theorem mem_insertBy {x y : α} {l : List α} : y ∈ insertBy le x l ↔ y = x ∨ y ∈ l := by
  rw [(insertBy_perm le x l).mem_iff, mem_cons]

@[simp] theorem mem_isort {x : α} {l : List α} : x ∈ isort le l ↔ x ∈ l := (isort_perm le l).mem_iff

@[simp] theorem length_insertBy (x : α) (l : List α) : (insertBy le x l).length = l.length + 1 := by
  rw [(insertBy_perm le x l).length_eq, length_cons]

@[simp] theorem length_isort (l : List α) : (isort le l).length = l.length := (isort_perm le l).length_eq

@[simp] theorem isort_eq_nil {l : List α} : isort le l = [] ↔ l = [] := by
  constructor
  · intro h
    have := length_isort le l
    rw [h] at this
    exact length_eq_zero_iff.1 this.symm
  · intro h; subst h; rfl

@[simp] theorem isort_isEmpty (l : List α) : (isort le l).isEmpty = l.isEmpty := (isort_perm le l).isEmpty_eq

variable {le}

theorem insertBy_pairwise (htot : TotalB le) (htr : TransB le) (x : α) {l : List α}
    (h : l.Pairwise (fun a b => le a b = true)) : (insertBy le x l).Pairwise (fun a b => le a b = true) := by
  induction l with
  | nil => exact pairwise_singleton _ _
  | cons y ys ih =>
    rw [insertBy_cons]
    have hy := pairwise_cons.1 h
    by_cases hxy : le x y = true
    · rw [if_pos hxy]
      refine pairwise_cons.2 ⟨?_, h⟩
      intro z hz
      rcases mem_cons.1 hz with rfl | hz
      · exact hxy
      · exact htr _ _ _ hxy (hy.1 z hz)
    · rw [if_neg hxy]
      have hyx : le y x = true := (htot x y).resolve_left hxy
      refine pairwise_cons.2 ⟨?_, ih hy.2⟩
      intro z hz
      rcases (mem_insertBy le).1 hz with rfl | hz
      · exact hyx
      · exact hy.1 z hz

/-- the output of `isort` is sorted -/
theorem isort_pairwise (htot : TotalB le) (htr : TransB le) (l : List α) :
    (isort le l).Pairwise (fun a b => le a b = true) := by
  induction l with
  | nil => exact Pairwise.nil
  | cons x xs ih => exact insertBy_pairwise htot htr x ih

/-- a sorted list is determined by its multiset, if `le` is antisymmetric on its members -/
theorem eq_of_perm_of_pairwise {l₁ l₂ : List α} (hanti : AntisymmOn le l₁) (hp : l₁ ~ l₂)
    (h₁ : l₁.Pairwise (fun a b => le a b = true)) (h₂ : l₂.Pairwise (fun a b => le a b = true)) : l₁ = l₂ := by
  induction l₁ generalizing l₂ with
  | nil => exact (hp.symm.eq_nil).symm
  | cons a t₁ ih =>
    cases l₂ with
    | nil => exact absurd hp.eq_nil (cons_ne_nil _ _)
    | cons b t₂ =>
      have h₁' := pairwise_cons.1 h₁
      have h₂' := pairwise_cons.1 h₂
      have hab : a = b := by
        have ha : a ∈ b :: t₂ := hp.mem_iff.1 (mem_cons_self ..)
        have hb : b ∈ a :: t₁ := hp.mem_iff.2 (mem_cons_self ..)
        rcases mem_cons.1 ha with h | ha'
        · exact h
        · rcases mem_cons.1 hb with h | hb'
          · exact h.symm
          · exact hanti a (mem_cons_self ..) b hb (h₁'.1 b hb') (h₂'.1 a ha')
      subst hab
      have hp' : t₁ ~ t₂ := (perm_cons a).1 hp
      rw [ih (fun x hx y hy => hanti x (mem_cons_of_mem _ hx) y (mem_cons_of_mem _ hy)) hp' h₁'.2 h₂'.2]

/-- a sorted list is a fixed point of `insertBy` at its head -/
theorem insertBy_of_forall_le {x : α} {l : List α} (h : ∀ y ∈ l, le x y = true) : insertBy le x l = x :: l := by
  cases l with
  | nil => rfl
  | cons y ys => rw [insertBy_cons, if_pos (h y (mem_cons_self ..))]

/-- a sorted list is a fixed point of `isort` (no hypothesis on `le`) -/
theorem isort_of_pairwise {l : List α} (h : l.Pairwise (fun a b => le a b = true)) : isort le l = l := by
  induction l with
  | nil => rfl
  | cons x xs ih =>
    have h' := pairwise_cons.1 h
    rw [isort_cons, ih h'.2, insertBy_of_forall_le h'.1]

theorem isort_idem (htot : TotalB le) (htr : TransB le) (l : List α) : isort le (isort le l) = isort le l :=
  isort_of_pairwise (isort_pairwise htot htr l)

/-- permutation-invariance: under a total, transitive `le` that is antisymmetric on the members of the list,
sorting forgets the input order -/
theorem isort_eq_of_perm (htot : TotalB le) (htr : TransB le) {l₁ l₂ : List α} (hanti : AntisymmOn le l₁)
    (hp : l₁ ~ l₂) : isort le l₁ = isort le l₂ := by
  refine eq_of_perm_of_pairwise ?_ (((isort_perm le l₁).trans hp).trans (isort_perm le l₂).symm)
    (isort_pairwise htot htr l₁) (isort_pairwise htot htr l₂)
  intro x hx y hy
  exact hanti x ((mem_isort le).1 hx) y ((mem_isort le).1 hy)

/-- equal sorted lists come from permutations of each other (any `le`) -/
theorem perm_of_isort_eq {l₁ l₂ : List α} (h : isort le l₁ = isort le l₂) : l₁ ~ l₂ :=
  (isort_perm le l₁).symm.trans (h ▸ isort_perm le l₂)

/-- `sorted(x) == sorted(y)` is multiset equality, for a total order -/
theorem isort_eq_iff_perm (htot : TotalB le) (htr : TransB le)
    (hanti : ∀ x y, le x y = true → le y x = true → x = y) {l₁ l₂ : List α} :
    isort le l₁ = isort le l₂ ↔ l₁ ~ l₂ :=
  ⟨perm_of_isort_eq, isort_eq_of_perm htot htr (fun x _ y _ => hanti x y)⟩

/-! ### stability -/

theorem insertBy_filter_neg (p : α → Bool) {x : α} (hx : p x = false) (l : List α) :
    (insertBy le x l).filter p = l.filter p := by
  induction l with
  | nil => simp [hx]
  | cons y ys ih =>
    rw [insertBy_cons]
    split
    · rw [filter_cons_of_neg (by simp [hx])]
    · by_cases hy : p y = true
      · rw [filter_cons_of_pos hy, filter_cons_of_pos hy, ih]
      · rw [filter_cons_of_neg hy, filter_cons_of_neg hy, ih]

theorem insertBy_filter_pos (htr : TransB le) (p : α → Bool) {x : α} (hx : p x = true) {l : List α}
    (h : l.Pairwise (fun a b => le a b = true)) :
    (insertBy le x l).filter p = insertBy le x (l.filter p) := by
  induction l with
  | nil => simp [hx]
  | cons y ys ih =>
    have h' := pairwise_cons.1 h
    rw [insertBy_cons]
    by_cases hxy : le x y = true
    · rw [if_pos hxy, filter_cons_of_pos hx]
      have hall : ∀ z ∈ (y :: ys).filter p, le x z = true := by
        intro z hz
        rcases mem_cons.1 (mem_filter.1 hz).1 with rfl | hz'
        · exact hxy
        · exact htr _ _ _ hxy (h'.1 z hz')
      rw [insertBy_of_forall_le hall]
    · rw [if_neg hxy]
      by_cases hy : p y = true
      · rw [filter_cons_of_pos hy, filter_cons_of_pos hy, insertBy_cons, if_neg hxy, ih h'.2]
      · rw [filter_cons_of_neg hy, filter_cons_of_neg hy, ih h'.2]

/-- **stability**: sorting commutes with taking a sub-selection, i.e. the relative order in which `isort` emits
any selection of the elements is the order in which sorting that selection alone emits them. -/
theorem isort_filter (htot : TotalB le) (htr : TransB le) (p : α → Bool) (l : List α) :
    (isort le l).filter p = isort le (l.filter p) := by
  induction l with
  | nil => rfl
  | cons x xs ih =>
    rw [isort_cons]
    by_cases hx : p x = true
    · rw [filter_cons_of_pos hx, isort_cons, insertBy_filter_pos htr p hx (isort_pairwise htot htr xs), ih]
    · rw [filter_cons_of_neg hx, insertBy_filter_neg p (by simpa using hx), ih]

/-- **stability** in the usual form: the elements equivalent to `a` (`le a b` and `le b a`) leave `isort` in the
order in which they entered. -/
theorem isort_stable (htot : TotalB le) (htr : TransB le) (a : α) (l : List α) :
    (isort le l).filter (fun b => le a b && le b a) = l.filter (fun b => le a b && le b a) := by
  rw [isort_filter htot htr]
  apply isort_of_pairwise
  have : ∀ x ∈ l.filter (fun b => le a b && le b a), ∀ y ∈ l.filter (fun b => le a b && le b a), le x y = true := by
    intro x hx y hy
    have hx' := (mem_filter.1 hx).2
    have hy' := (mem_filter.1 hy).2
    simp only [Bool.and_eq_true] at hx' hy'
    exact htr _ _ _ hx'.2 hy'.1
  exact Pairwise.imp_of_mem (R := fun _ _ => True) (fun {x y} hx hy _ => this x hx y hy)
    (pairwise_of_forall (fun _ _ => trivial))

end isort

/-! ### `dedup` -/

section dedup
variable {α : Type} [DecidableEq α]

@[simp] theorem dedup_nil : dedup ([] : List α) = [] := rfl
theorem dedup_cons (x : α) (xs : List α) : dedup (x :: xs) = x :: (dedup xs).filter (· ≠ x) := rfl

@[simp] theorem mem_dedup {a : α} {l : List α} : a ∈ dedup l ↔ a ∈ l := by
  induction l with
  | nil => simp
  | cons x xs ih =>
    rw [dedup_cons, mem_cons, mem_cons, mem_filter, ih]
    by_cases h : a = x <;> simp [h]

theorem dedup_nodup (l : List α) : (dedup l).Nodup := by
  induction l with
  | nil => exact Pairwise.nil
  | cons x xs ih =>
    rw [dedup_cons, nodup_cons]
    refine ⟨?_, Nodup.sublist filter_sublist ih⟩
    intro h
    simpa using (mem_filter.1 h).2

theorem dedup_sublist (l : List α) : (dedup l).Sublist l := by
  induction l with
  | nil => exact Sublist.slnil
  | cons x xs ih => exact Sublist.cons_cons x (filter_sublist.trans ih)

/-- a duplicate-free list is unchanged -/
theorem dedup_eq_self {l : List α} (h : l.Nodup) : dedup l = l := by
  induction l with
  | nil => rfl
  | cons x xs ih =>
    have h' := nodup_cons.1 h
    rw [dedup_cons, ih h'.2, filter_eq_self.2]
    intro a ha
    have : a ≠ x := fun e => h'.1 (e ▸ ha)
    simpa using this

theorem dedup_eq_self_iff {l : List α} : dedup l = l ↔ l.Nodup :=
  ⟨fun h => h ▸ dedup_nodup l, dedup_eq_self⟩

end dedup

/-! ### pigeonhole on duplicate-free lists -/

section nodup
variable {α : Type} [DecidableEq α]

/-- a duplicate-free list inside a list that is not longer exhausts it -/
theorem subset_of_nodup_subset_length_le {l₁ l₂ : List α} (h₁ : l₁.Nodup) (hs : ∀ x, x ∈ l₁ → x ∈ l₂)
    (hl : l₂.length ≤ l₁.length) : ∀ x, x ∈ l₂ → x ∈ l₁ := by
  induction l₁ generalizing l₂ with
  | nil =>
    have : l₂ = [] := length_eq_zero_iff.1 (Nat.le_zero.1 hl)
    subst this
    intro x hx; exact hx
  | cons a t ih =>
    have h₁' := nodup_cons.1 h₁
    have ha : a ∈ l₂ := hs a (mem_cons_self ..)
    have hs' : ∀ x, x ∈ t → x ∈ l₂.erase a := by
      intro x hx
      have hne : x ≠ a := fun e => h₁'.1 (e ▸ hx)
      exact (mem_erase_of_ne hne).2 (hs x (mem_cons_of_mem _ hx))
    have hl' : (l₂.erase a).length ≤ t.length := by
      rw [length_erase_of_mem ha]
      simp only [length_cons] at hl
      omega
    intro x hx
    by_cases hxa : x = a
    · subst hxa; exact mem_cons_self ..
    · exact mem_cons_of_mem _ (ih h₁'.2 hs' hl' x ((mem_erase_of_ne hxa).2 hx))

/-- … and then the two lists are permutations of each other -/
theorem perm_of_nodup_subset_length_le {l₁ l₂ : List α} (h₁ : l₁.Nodup) (hs : ∀ x, x ∈ l₁ → x ∈ l₂)
    (hl : l₂.length ≤ l₁.length) : l₁ ~ l₂ := by
  induction l₁ generalizing l₂ with
  | nil =>
    have : l₂ = [] := length_eq_zero_iff.1 (Nat.le_zero.1 hl)
    subst this
    exact Perm.refl _
  | cons a t ih =>
    have h₁' := nodup_cons.1 h₁
    have ha : a ∈ l₂ := hs a (mem_cons_self ..)
    have hs' : ∀ x, x ∈ t → x ∈ l₂.erase a := by
      intro x hx
      have hne : x ≠ a := fun e => h₁'.1 (e ▸ hx)
      exact (mem_erase_of_ne hne).2 (hs x (mem_cons_of_mem _ hx))
    have hl' : (l₂.erase a).length ≤ t.length := by
      rw [length_erase_of_mem ha]
      simp only [length_cons] at hl
      omega
    exact (Perm.cons a (ih h₁'.2 hs' hl')).trans (perm_cons_erase ha).symm

end nodup

end ISort
end ProcSim
