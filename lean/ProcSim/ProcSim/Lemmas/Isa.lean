import ProcSim.Spec.Text
import Batteries.Data.Char.AsciiCasing
/-!
# Helper lemmas for C15 (ISA loading, offered capabilities, compilation)

* ASCII folding: `upper x = upper y ↔ lower x = lower y` holds for **every** `List Char` (no ASCII hypothesis):
  `Char.toUpper`/`Char.toLower` only touch `a–z`/`A–Z`, so `toLower ∘ toUpper = toLower` and
  `toUpper ∘ toLower = toUpper` on all of `Char`.
* `AMap` laws beyond `get?_set_eq/ne`: `get? = none` iff the key is absent, `set` on an absent key appends.
* the capability registry (`foldl set`) and the loop invariant of `Isa.createIsa`.
-/
namespace ProcSim

attribute [local implicit_reducible] AMap

namespace IsaLemmas

open ICase (lower upper)

theorem lower_upper (x : List Char) : lower (upper x) = lower x := by
  simp [lower, upper, List.map_map, Function.comp_def]

theorem upper_lower (x : List Char) : upper (lower x) = upper x := by
  simp [lower, upper, List.map_map, Function.comp_def]

/-- no ASCII hypothesis needed -/
theorem upper_eq_iff_lower_eq {x y : List Char} : upper x = upper y ↔ lower x = lower y := by
  constructor
  · intro h
    have := congrArg lower h
    simpa [lower_upper] using this
  · intro h
    have := congrArg upper h
    simpa [upper_lower] using this

section AMapLaws
variable {K V : Type} [DecidableEq K]

theorem get?_eq_none_iff (m : List (K × V)) (k : K) : AMap.get? m k = none ↔ ∀ kv ∈ m, kv.1 ≠ k := by
  induction m with
  | nil => simp
  | cons p m ih =>
    obtain ⟨k', v⟩ := p
    by_cases h : k' = k
    · simp [AMap.get?, h]
    · simp [AMap.get?, h, ih]

theorem mem_of_get?_eq_some (m : List (K × V)) (k : K) (v : V) (h : AMap.get? m k = some v) : (k, v) ∈ m := by
  induction m with
  | nil => simp at h
  | cons p m ih =>
    obtain ⟨k', v'⟩ := p
    by_cases hk : k' = k
    · simp [AMap.get?, hk] at h; simp [hk, h]
    · simp [AMap.get?, hk] at h; exact List.mem_cons_of_mem _ (ih h)

theorem set_of_get?_eq_none (m : List (K × V)) (k : K) (v : V) (h : AMap.get? m k = none) :
    AMap.set m k v = m ++ [(k, v)] := by
  induction m with
  | nil => rfl
  | cons p m ih =>
    obtain ⟨k', v'⟩ := p
    by_cases hk : k' = k
    · simp [AMap.get?, hk] at h
    · simp [AMap.get?, hk] at h
      simp [AMap.set, hk, ih h]

end AMapLaws

open Spec Spec.Text
open Isa (Str IsaError CompileError Registry)

/-! ## offered capabilities and the capability registry -/

theorem offeredB_iff (caps : List Str) (cap : Str) :
    offeredB caps cap = true ↔ ∃ c ∈ caps, lower c = lower cap := by
  simp [offeredB]

theorem offeredB_false_iff (caps : List Str) (cap : Str) :
    offeredB caps cap = false ↔ ∀ c ∈ caps, lower c ≠ lower cap := by
  simp [offeredB]

theorem capFold_some (caps : List Str) (m : List (Str × Str)) (k v : Str)
    (h : AMap.get? (caps.foldl (fun m c => AMap.set m (lower c) c) m) k = some v) :
    (v ∈ caps ∧ lower v = k) ∨ AMap.get? m k = some v := by
  induction caps generalizing m with
  | nil => exact .inr h
  | cons c cs ih =>
    rcases ih _ h with h' | h'
    · exact .inl ⟨List.mem_cons_of_mem _ h'.1, h'.2⟩
    · by_cases hk : lower c = k
      · subst hk
        rw [AMap.get?_set_eq] at h'
        cases h'
        exact .inl ⟨by simp, rfl⟩
      · rw [AMap.get?_set_ne _ _ hk] at h'
        exact .inr h'

theorem capFold_none (caps : List Str) (m : List (Str × Str)) (k : Str) :
    AMap.get? (caps.foldl (fun m c => AMap.set m (lower c) c) m) k = none ↔
      AMap.get? m k = none ∧ ∀ c ∈ caps, lower c ≠ k := by
  induction caps generalizing m with
  | nil => simp
  | cons c cs ih =>
    rw [List.foldl_cons, ih]
    by_cases hk : lower c = k
    · subst hk; simp [AMap.get?_set_eq]
    · rw [AMap.get?_set_ne _ _ hk]; simp [hk]

theorem capRegistry_some (caps : List Str) (cap std : Str)
    (h : AMap.get? (Isa.capRegistry caps) (lower cap) = some std) : std ∈ caps ∧ lower std = lower cap := by
  rcases capFold_some caps [] _ _ h with h' | h'
  · exact h'
  · simp at h'

theorem capRegistry_none_iff (caps : List Str) (cap : Str) :
    AMap.get? (Isa.capRegistry caps) (lower cap) = none ↔ offeredB caps cap = false := by
  rw [offeredB_false_iff]
  unfold Isa.capRegistry
  rw [capFold_none]; simp

/-! ## collisions -/

/-- collision-freeness as a `Pairwise` -/
def NoColl (isa : List (Str × Str)) : Prop := isa.Pairwise (fun x y => lower x.1 ≠ lower y.1)

theorem collides_iff (isa : List (Str × Str)) : Collides isa ↔ ¬ NoColl isa := by
  unfold Collides NoColl
  rw [List.pairwise_iff_getElem]
  constructor
  · rintro ⟨i, j, hij, x, y, hx, hy, hxy⟩ h
    obtain ⟨hi, rfl⟩ := List.getElem?_eq_some_iff.1 hx
    obtain ⟨hj, rfl⟩ := List.getElem?_eq_some_iff.1 hy
    exact h i j hi hj hij hxy
  · intro h
    apply Classical.byContradiction
    intro hn
    apply h
    intro i j hi hj hij hxy
    exact hn ⟨i, j, hij, isa[i], isa[j], List.getElem?_eq_getElem hi, List.getElem?_eq_getElem hj, hxy⟩

theorem collidesB_iff_not_noColl (isa : List (Str × Str)) : collidesB isa = true ↔ ¬ NoColl isa := by
  induction isa with
  | nil => simp [collidesB, NoColl]
  | cons e es ih =>
    unfold NoColl at ih ⊢
    rw [List.pairwise_cons, collidesB, Bool.or_eq_true, ih]
    constructor
    · rintro (h | h) ⟨h1, h2⟩
      · obtain ⟨f, hf, hfe⟩ := List.any_eq_true.1 h
        exact h1 f hf (by simp at hfe; exact hfe.symm)
      · exact h h2
    · intro h
      by_cases h1 : es.any (fun f => lower f.1 == lower e.1) = true
      · exact .inl h1
      · refine .inr (fun h2 => h ⟨?_, h2⟩)
        intro f hf hfe
        exact h1 (List.any_eq_true.2 ⟨f, hf, by simp [hfe]⟩)

theorem collidesB_iff (isa : List (Str × Str)) : collidesB isa = true ↔ Collides isa := by
  rw [collidesB_iff_not_noColl, collides_iff]

theorem defective_false_iff (isa : List (Str × Str)) (caps : List Str) :
    (collidesB isa || isa.any (fun e => !offeredB caps e.2)) = false ↔
      (¬ Collides isa ∧ ∀ e ∈ isa, offeredB caps e.2 = true) := by
  rw [Bool.or_eq_false_iff, ← collidesB_iff]
  simp

/-- the duplicate named by the error really occurs, earlier spelling first -/
def RealDup (old new : Str) (isa : List (Str × Str)) : Prop :=
  ∃ i j : Nat, i < j ∧ ∃ x y : Str × Str, isa[i]? = some x ∧ isa[j]? = some y ∧ x.1 = old ∧ y.1 = new

theorem realDup_iff (old new : Str) (isa : List (Str × Str)) : realDup old new isa = true ↔ RealDup old new isa := by
  induction isa with
  | nil => simp [realDup, RealDup]
  | cons e es ih =>
    rw [realDup, Bool.or_eq_true, ih]
    constructor
    · rintro (h | ⟨i, j, hij, x, y, hx, hy, hxo, hyn⟩)
      · rw [Bool.and_eq_true] at h
        obtain ⟨f, hf, hfn⟩ := List.any_eq_true.1 h.2
        obtain ⟨j, hj⟩ := List.getElem?_of_mem hf
        exact ⟨0, j + 1, Nat.succ_pos _, e, f, rfl, by simpa using hj, by simpa using h.1, by simpa using hfn⟩
      · exact ⟨i + 1, j + 1, Nat.succ_lt_succ hij, x, y, by simpa using hx, by simpa using hy, hxo, hyn⟩
    · rintro ⟨i, j, hij, x, y, hx, hy, hxo, hyn⟩
      cases j with
      | zero => omega
      | succ j =>
        rw [List.getElem?_cons_succ] at hy
        cases i with
        | zero =>
          simp at hx; subst hx
          refine .inl ?_
          rw [Bool.and_eq_true]
          exact ⟨by simpa using hxo, List.any_eq_true.2 ⟨y, List.mem_of_getElem? hy, by simpa using hyn⟩⟩
        | succ i =>
          rw [List.getElem?_cons_succ] at hx
          exact .inr ⟨i, j, Nat.lt_of_succ_lt_succ hij, x, y, hx, hy, hxo, hyn⟩

/-! ## the loop of `_create_isa` -/

/-- observation of a `load_isa` result -/
def isaObsOf : Except IsaError (AMap Str Str) → IsaObs
  | .ok m => .ok m
  | .error (.dupInstr old new) => .dup old new
  | .error (.undefCap cap) => .undef cap

theorem modelIsaObs_eq (isa : List (Str × Str)) (caps : List Str) :
    modelIsaObs isa caps = isaObsOf (Isa.loadIsa isa caps) := by
  unfold modelIsaObs isaObsOf
  split <;> simp_all

/-- invariant of the comprehension of `_create_isa` after the entries `done` -/
structure LoadInv (caps : List Str) (done : List (Str × Str)) (instrReg : List (Str × Str))
    (acc : List (Str × Str)) : Prop where
  regNone : ∀ k, AMap.get? instrReg k = none → ∀ e ∈ done, lower e.1 ≠ k
  regSome : ∀ k old, AMap.get? instrReg k = some old →
    ∃ (i : Nat) (e : Str × Str), done[i]? = some e ∧ e.1 = old ∧ lower old = k
  nocoll : NoColl done
  offered : ∀ e ∈ done, offeredB caps e.2 = true
  len : acc.length = done.length
  look : ∀ e : Str × Str, e ∈ done → ∃ std, lookup acc (upper e.1) = some std ∧ std ∈ caps ∧ lower std = lower e.2
  keys : ∀ kv ∈ acc, ∃ e ∈ done, kv.1 = upper e.1

theorem LoadInv.init (caps : List Str) : LoadInv caps [] [] [] :=
  { regNone := by simp, regSome := by simp, nocoll := List.Pairwise.nil, offered := by simp, len := rfl,
    look := by simp, keys := by simp }

theorem LoadInv.step {caps : List Str} {done instrReg acc : List (Str × Str)} (inv : LoadInv caps done instrReg acc)
    (instr cap std : Str) (h1 : AMap.get? instrReg (lower instr) = none)
    (h2 : AMap.get? (Isa.capRegistry caps) (lower cap) = some std) :
    LoadInv caps (done ++ [(instr, cap)]) (AMap.set instrReg (lower instr) instr)
      (AMap.set acc (upper instr) std) := by
  obtain ⟨hstd, hlow⟩ := capRegistry_some caps cap std h2
  have hfresh : ∀ e ∈ done, lower e.1 ≠ lower instr := inv.regNone _ h1
  have hkey : AMap.get? acc (upper instr) = none := by
    rw [get?_eq_none_iff]
    intro kv hkv hk
    obtain ⟨e, he, hke⟩ := inv.keys kv hkv
    rw [hke] at hk
    exact hfresh e he (upper_eq_iff_lower_eq.1 hk)
  have hset : AMap.set acc (upper instr) std = acc ++ [(upper instr, std)] :=
    set_of_get?_eq_none _ _ _ hkey
  refine { regNone := ?_, regSome := ?_, nocoll := ?_, offered := ?_, len := ?_, look := ?_, keys := ?_ }
  · intro k hk e he
    have hne : lower instr ≠ k := by
      intro h; subst h; rw [AMap.get?_set_eq] at hk; cases hk
    rw [AMap.get?_set_ne _ _ hne] at hk
    rcases List.mem_append.1 he with he | he
    · exact inv.regNone k hk e he
    · simp at he; subst he; exact hne
  · intro k old hk
    by_cases hne : lower instr = k
    · subst hne
      rw [AMap.get?_set_eq] at hk
      cases hk
      exact ⟨done.length, (instr, cap), by simp, rfl, rfl⟩
    · rw [AMap.get?_set_ne _ _ hne] at hk
      obtain ⟨i, e, hi, he⟩ := inv.regSome k old hk
      have hlt : i < done.length := (List.getElem?_eq_some_iff.1 hi).1
      exact ⟨i, e, by rw [List.getElem?_append_left hlt]; exact hi, he⟩
  · unfold NoColl
    rw [List.pairwise_append]
    refine ⟨inv.nocoll, List.pairwise_singleton _ _, ?_⟩
    intro a ha b hb
    simp at hb; subst hb
    exact hfresh a ha
  · intro e he
    rcases List.mem_append.1 he with he | he
    · exact inv.offered e he
    · simp at he; subst he
      exact (offeredB_iff _ _).2 ⟨std, hstd, hlow⟩
  · rw [hset]; simp [inv.len]
  · intro e he
    rcases List.mem_append.1 he with he | he
    · obtain ⟨s, hs⟩ := inv.look e he
      refine ⟨s, ?_, hs.2⟩
      have hne : upper instr ≠ upper e.1 := fun h =>
        hfresh e he (upper_eq_iff_lower_eq.1 h.symm)
      unfold lookup at hs ⊢
      rw [AMap.get?_set_ne _ _ hne]; exact hs.1
    · simp at he; subst he
      exact ⟨std, by unfold lookup; exact AMap.get?_set_eq _ _ _, hstd, hlow⟩
  · intro kv hkv
    rw [hset] at hkv
    rcases List.mem_append.1 hkv with hkv | hkv
    · obtain ⟨e, he, hke⟩ := inv.keys kv hkv
      exact ⟨e, List.mem_append_left _ he, hke⟩
    · simp at hkv; subst hkv
      exact ⟨(instr, cap), by simp, rfl⟩

theorem createIsa_holds (caps : List Str) (rest done instrReg acc : List (Str × Str))
    (inv : LoadInv caps done instrReg acc) :
    C15_LoadHolds (done ++ rest) caps (isaObsOf (Isa.createIsa (Isa.capRegistry caps) instrReg acc rest)) := by
  induction rest generalizing done instrReg acc with
  | nil =>
    simp only [Isa.createIsa, isaObsOf, C15_LoadHolds, List.append_nil]
    exact ⟨fun h => (collides_iff _).1 h inv.nocoll, inv.offered, inv.len, inv.look, inv.keys⟩
  | cons ic rest ih =>
    obtain ⟨instr, cap⟩ := ic
    unfold Isa.createIsa
    cases h1 : AMap.get? instrReg (lower instr) with
    | some old =>
      simp only [isaObsOf, C15_LoadHolds]
      obtain ⟨i, e, hi, he, hlo⟩ := inv.regSome _ old h1
      have hlt : i < done.length := (List.getElem?_eq_some_iff.1 hi).1
      exact ⟨i, done.length, hlt, e, (instr, cap), by rw [List.getElem?_append_left hlt]; exact hi,
        by simp, he, rfl, hlo⟩
    | none =>
      cases h2 : AMap.get? (Isa.capRegistry caps) (lower cap) with
      | none =>
        simp only [isaObsOf, C15_LoadHolds]
        exact ⟨⟨(instr, cap), by simp, rfl⟩, (capRegistry_none_iff _ _).1 h2⟩
      | some std =>
        have := ih _ _ _ (inv.step instr cap std h1 h2)
        simpa using this

/-! ## `icaseSet` -/

theorem mem_icaseSet {l : List Str} {c : Str} (h : c ∈ Isa.icaseSet l) : c ∈ l := by
  induction l with
  | nil => simp [Isa.icaseSet] at h
  | cons d ds ih =>
    simp only [Isa.icaseSet, List.mem_cons, List.mem_filter] at h ⊢
    rcases h with h | h
    · exact .inl h
    · exact .inr (ih h.1)

theorem offeredB_icaseSet (l : List Str) (x : Str) : offeredB (Isa.icaseSet l) x = offeredB l x := by
  induction l with
  | nil => rfl
  | cons d ds ih =>
    rw [Bool.eq_iff_iff, offeredB_iff, offeredB_iff]
    have ih' := ih
    rw [Bool.eq_iff_iff, offeredB_iff, offeredB_iff] at ih'
    simp only [Isa.icaseSet, List.mem_cons, List.mem_filter]
    constructor
    · rintro ⟨c, hc | hc, hcx⟩
      · exact ⟨c, .inl hc, hcx⟩
      · obtain ⟨c', hc', hcx'⟩ := ih'.1 ⟨c, hc.1, hcx⟩
        exact ⟨c', .inr hc', hcx'⟩
    · rintro ⟨c, hc | hc, hcx⟩
      · exact ⟨c, .inl hc, hcx⟩
      · by_cases hd : lower d = lower x
        · exact ⟨d, .inl rfl, hd⟩
        · obtain ⟨c', hc', hcx'⟩ := ih'.2 ⟨c, hc, hcx⟩
          exact ⟨c', .inr ⟨hc', by simpa [hcx'] using fun h => hd h.symm⟩, hcx'⟩

theorem icaseSet_pairwise (l : List Str) : (Isa.icaseSet l).Pairwise (fun x y => lower x ≠ lower y) := by
  induction l with
  | nil => exact List.Pairwise.nil
  | cons d ds ih =>
    simp only [Isa.icaseSet]
    rw [List.pairwise_cons]
    refine ⟨?_, ih.filter _⟩
    intro c hc
    have := (List.mem_filter.1 hc).2
    intro h
    simp [h] at this

theorem noCaseDup_iff (l : List Str) : noCaseDup l = true ↔ l.Pairwise (fun x y => lower x ≠ lower y) := by
  induction l with
  | nil => simp [noCaseDup]
  | cons c cs ih =>
    rw [noCaseDup, Bool.and_eq_true, ih, List.pairwise_cons]
    simp only [Bool.not_eq_true', List.any_eq_false, beq_iff_eq]
    constructor
    · rintro ⟨h1, h2⟩
      exact ⟨fun d hd h => h1 d hd h.symm, h2⟩
    · rintro ⟨h1, h2⟩
      exact ⟨fun d hd h => h1 d hd h.symm, h2⟩

/-! ## compilation -/

/-- observation of a `compile_program` result -/
def compileObsOf : Except CompileError (List (Instr Str)) → CompileObs
  | .ok hw => .ok hw
  | .error e => .undef e.name e.message

theorem modelCompileObs_eq (isa : List (Str × Str)) (prog : List Program.ProgInstr) :
    modelCompileObs isa prog = compileObsOf (Isa.compileProgram isa prog) := by
  unfold modelCompileObs compileObsOf
  split <;> simp_all

/-- what a compiled instruction must be -/
def CompiledAs (isa : List (Str × Str)) (p : Program.ProgInstr) (h : Instr Str) : Prop :=
  h.srcs = p.srcs ∧ h.dst = p.dst ∧ lookup isa (upper p.name) = some h.cap

theorem compile_ok (isa : List (Str × Str)) (prog : List Program.ProgInstr)
    (hs : ∀ p ∈ prog, Program.sortedUniq p.srcs = p.srcs) (h : firstUnsupported isa prog = none) :
    ∃ hw, Isa.compileProgram isa prog = .ok hw ∧ Forall2 (CompiledAs isa) prog hw := by
  induction prog with
  | nil => exact ⟨[], rfl, trivial⟩
  | cons p ps ih =>
    unfold firstUnsupported at h
    split at h
    · rename_i hp
      obtain ⟨hw, hc, hf⟩ := ih (fun q hq => hs q (List.mem_cons_of_mem _ hq)) h
      unfold lookup at hp
      obtain ⟨cap, hcap⟩ := Option.isSome_iff_exists.1 hp
      refine ⟨{ srcs := Program.sortedUniq p.srcs, dst := p.dst, cap := cap } :: hw, ?_, ?_⟩
      · simp [Isa.compileProgram, hcap, hc]
      · exact ⟨⟨hs p (by simp), rfl, hcap⟩, hf⟩
    · cases h

theorem compile_err (isa : List (Str × Str)) (prog : List Program.ProgInstr) (p : Program.ProgInstr)
    (h : firstUnsupported isa prog = some p) :
    Isa.compileProgram isa prog = .error { name := p.name, line := p.line } := by
  induction prog with
  | nil => cases h
  | cons q qs ih =>
    unfold firstUnsupported at h
    split at h
    · rename_i hq
      unfold lookup at hq
      obtain ⟨cap, hcap⟩ := Option.isSome_iff_exists.1 hq
      simp [Isa.compileProgram, hcap, ih h]
    · rename_i hq
      cases h
      unfold lookup at hq
      have : AMap.get? isa (upper p.name) = none := by
        cases hx : AMap.get? isa (upper p.name) with
        | none => rfl
        | some v => simp [hx] at hq
      simp [Isa.compileProgram, this]

theorem compileProgram_length (isa : List (Str × Str)) (prog : List Program.ProgInstr) (hw : List (Instr Str))
    (h : Isa.compileProgram isa prog = .ok hw) : hw.length = prog.length := by
  induction prog generalizing hw with
  | nil => simp [Isa.compileProgram] at h; subst h; rfl
  | cons p ps ih =>
    unfold Isa.compileProgram at h
    split at h
    · cases h
    · split at h
      · cases h
      · rename_i rest hr
        cases h
        simp [ih rest hr]

theorem checkCompiled_iff (j : Nat) (isa : List (Str × Str)) (prog : List Program.ProgInstr) (hw : List (Instr Str)) :
    checkCompiled j isa prog hw = none ↔ Forall2 (CompiledAs isa) prog hw := by
  induction prog generalizing j hw with
  | nil => cases hw <;> simp [checkCompiled, Forall2]
  | cons p ps ih =>
    cases hw with
    | nil => simp [checkCompiled, Forall2]
    | cons h hs =>
      simp only [checkCompiled, Forall2, CompiledAs]
      by_cases h1 : h.srcs = p.srcs
      · by_cases h2 : h.dst = p.dst
        · by_cases h3 : lookup isa (upper p.name) = some h.cap
          · simp [h1, h2, h3, ih]
          · simp [h1, h2, h3]
        · simp [h1, h2]
      · simp [h1]

end IsaLemmas
end ProcSim
