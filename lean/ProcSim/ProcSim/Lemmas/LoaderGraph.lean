import ProcSim.Spec.Loader
/-!
# Graph foundations for the loader properties (C09 – C12)

Shared by the loader provers; names are meant to stay stable. Core Lean only.

* §0 `StrictTotal` — the order hypothesis on names (`Nat`, `String` instances)
* §1 `isort` / `sortNames` / `sortFU` — permutation, sortedness, canonicity
* §2 `pickSource` / `topoAux` / `topoOrder` / `isAcyclic`
* §3 `pickSink` / `postOrderAux` / `postOrder`
* §4 induction along a topological order, walks
* §5 well-formed working graphs (`Graph.WF`) and the graph operations (`removeNodes`, `setCaps`, …)
-/
namespace ProcSim
namespace Loader

/-! ## §0 order hypothesis -/

/-- a strict total order on names (what Python's `str` order is) -/
structure StrictTotal (N : Type) [LT N] : Prop where
  irrefl : ∀ a : N, ¬ a < a
  trans : ∀ a b c : N, a < b → b < c → a < c
  tri : ∀ a b : N, a < b ∨ a = b ∨ b < a

theorem StrictTotal.nat : StrictTotal Nat :=
  ⟨fun a => Nat.lt_irrefl a, fun _ _ _ => Nat.lt_trans, fun a b => Nat.lt_trichotomy a b⟩

theorem StrictTotal.string : StrictTotal String :=
  ⟨String.lt_irrefl, fun _ _ _ => String.lt_trans, fun a b => Std.lt_trichotomy a b⟩

namespace StrictTotal
variable {N : Type} [LT N] (ho : StrictTotal N)
include ho

theorem asymm {a b : N} (h : a < b) : ¬ b < a := fun h' => ho.irrefl a (ho.trans a b a h h')

/-- `a ≤ b :⇔ ¬ b < a` is total -/
theorem le_total (a b : N) : ¬ b < a ∨ ¬ a < b := by
  rcases ho.tri a b with h | h | h
  · exact .inl (ho.asymm h)
  · subst h; exact .inl (ho.irrefl a)
  · exact .inr (ho.asymm h)

/-- `a ≤ b :⇔ ¬ b < a` is transitive -/
theorem le_trans {a b c : N} (h1 : ¬ b < a) (h2 : ¬ c < b) : ¬ c < a := by
  intro h
  rcases ho.tri a b with h' | h' | h'
  · exact h2 (ho.trans c a b h h')
  · subst h'; exact h2 h
  · exact h1 h'

theorem le_antisymm {a b : N} (h1 : ¬ b < a) (h2 : ¬ a < b) : a = b := by
  rcases ho.tri a b with h | h | h
  · exact absurd h h2
  · exact h
  · exact absurd h h1

end StrictTotal

/-! ## §1 insertion sort -/

section Isort
variable {α : Type}

theorem insertBy_perm (le : α → α → Bool) (x : α) (l : List α) : (insertBy le x l).Perm (x :: l) := by
  induction l with
  | nil => exact .refl _
  | cons y ys ih =>
    simp only [insertBy]
    split
    · exact .refl _
    · exact (ih.cons y).trans (.swap x y ys)

theorem isort_perm (le : α → α → Bool) (l : List α) : (isort le l).Perm l := by
  induction l with
  | nil => exact .refl _
  | cons x xs ih => exact (insertBy_perm le x _).trans (ih.cons x)

@[simp] theorem mem_isort {le : α → α → Bool} {l : List α} {a : α} : a ∈ isort le l ↔ a ∈ l :=
  (isort_perm le l).mem_iff

@[simp] theorem length_isort (le : α → α → Bool) (l : List α) : (isort le l).length = l.length :=
  (isort_perm le l).length_eq

theorem isort_nodup_iff {le : α → α → Bool} {l : List α} : (isort le l).Nodup ↔ l.Nodup :=
  (isort_perm le l).nodup_iff

theorem insertBy_pairwise {le : α → α → Bool} (htot : ∀ a b, le a b = true ∨ le b a = true)
    (htr : ∀ a b c, le a b = true → le b c = true → le a c = true) (x : α) {l : List α}
    (h : l.Pairwise (fun a b => le a b = true)) : (insertBy le x l).Pairwise (fun a b => le a b = true) := by
  induction l with
  | nil => simp [insertBy]
  | cons y ys ih =>
    simp only [insertBy]
    rw [List.pairwise_cons] at h
    split
    next hxy =>
      refine List.pairwise_cons.2 ⟨?_, List.pairwise_cons.2 h⟩
      intro z hz
      rcases List.mem_cons.1 hz with rfl | hz
      · exact hxy
      · exact htr _ _ _ hxy (h.1 z hz)
    next hxy =>
      refine List.pairwise_cons.2 ⟨?_, ih h.2⟩
      intro z hz
      rcases List.mem_cons.1 ((insertBy_perm le x ys).mem_iff.1 hz) with rfl | hz
      · rcases htot z y with h' | h'
        · exact absurd h' hxy
        · exact h'
      · exact h.1 z hz

/-- `isort` sorts when `le` is total and transitive -/
theorem isort_sorted {le : α → α → Bool} (htot : ∀ a b, le a b = true ∨ le b a = true)
    (htr : ∀ a b c, le a b = true → le b c = true → le a c = true) (l : List α) :
    (isort le l).Pairwise (fun a b => le a b = true) := by
  induction l with
  | nil => simp [isort]
  | cons x xs ih => exact insertBy_pairwise htot htr x ih

end Isort

section SortNames
variable {N : Type} [LT N] [DecidableRel (α := N) (· < ·)]

theorem sortNames_perm (l : List N) : (sortNames l).Perm l := isort_perm _ l

@[simp] theorem mem_sortNames {l : List N} {a : N} : a ∈ sortNames l ↔ a ∈ l := (sortNames_perm l).mem_iff

theorem sortNames_nodup_iff {l : List N} : (sortNames l).Nodup ↔ l.Nodup := (sortNames_perm l).nodup_iff

@[simp] theorem sortNames_eq_nil {l : List N} : sortNames l = [] ↔ l = [] := by
  constructor
  · intro h; exact List.eq_nil_of_length_eq_zero (by rw [← (sortNames_perm l).length_eq, h]; rfl)
  · rintro rfl; rfl

theorem sortNames_sorted (ho : StrictTotal N) (l : List N) : (sortNames l).Pairwise (fun a b => ¬ b < a) := by
  have := isort_sorted (le := fun a b : N => !decide (b < a))
    (fun a b => by simpa using ho.le_total a b)
    (fun a b c h1 h2 => by simp only [Bool.not_eq_true', decide_eq_false_iff_not] at *; exact ho.le_trans h1 h2) l
  simpa [sortNames] using this

/-- a sorted list is determined by its elements: `sortNames` is a canonical form of the multiset -/
theorem sortNames_eq_of_perm (ho : StrictTotal N) {l₁ l₂ : List N} (h : l₁.Perm l₂) : sortNames l₁ = sortNames l₂ := by
  refine List.Perm.eq_of_pairwise (le := fun a b => ¬ b < a) ?_ (sortNames_sorted ho l₁) (sortNames_sorted ho l₂)
    ((sortNames_perm l₁).trans (h.trans (sortNames_perm l₂).symm))
  intro a b _ _ h1 h2
  exact ho.le_antisymm h1 h2

theorem sortNames_eq_iff_perm (ho : StrictTotal N) {l₁ l₂ : List N} : sortNames l₁ = sortNames l₂ ↔ l₁.Perm l₂ :=
  ⟨fun h => (sortNames_perm l₁).symm.trans (h ▸ sortNames_perm l₂), sortNames_eq_of_perm ho⟩

theorem sortFU_perm (l : List (FuncU N)) : (sortFU l).Perm l := isort_perm _ l

@[simp] theorem mem_sortFU {l : List (FuncU N)} {a : FuncU N} : a ∈ sortFU l ↔ a ∈ l := (sortFU_perm l).mem_iff

theorem sortFU_sorted (ho : StrictTotal N) (l : List (FuncU N)) :
    (sortFU l).Pairwise (fun a b => ¬ b.model.name < a.model.name) := by
  have := isort_sorted (le := fun a b : FuncU N => !decide (b.model.name < a.model.name))
    (fun a b => by simpa using ho.le_total a.model.name b.model.name)
    (fun a b c h1 h2 => by simp only [Bool.not_eq_true', decide_eq_false_iff_not] at *; exact ho.le_trans h1 h2) l
  simpa [sortFU] using this

end SortNames

/-! ## §2 topological order by repeated source selection -/

section Topo
variable {N : Type} [DecidableEq N]

theorem pickSource_some {edges : List (N × N)} {rem : List N} {u : N} (h : pickSource edges rem = some u) :
    u ∈ rem ∧ ∀ e ∈ edges, e.2 = u → e.1 ∉ rem := by
  unfold pickSource at h
  refine ⟨List.mem_of_find?_eq_some h, ?_⟩
  have := List.find?_some h
  simp only [List.all_eq_true, Bool.not_eq_true', Bool.and_eq_false_iff, decide_eq_false_iff_not] at this
  intro e he h2 h1
  rcases this e he with h' | h'
  · exact h' h2
  · exact h' h1

theorem pickSource_eq_none {edges : List (N × N)} {rem : List N} :
    pickSource edges rem = none ↔ ∀ u ∈ rem, ∃ e ∈ edges, e.2 = u ∧ e.1 ∈ rem := by
  unfold pickSource
  simp only [List.find?_eq_none, List.all_eq_true, Bool.not_eq_true', Bool.and_eq_false_iff,
    decide_eq_false_iff_not]
  constructor
  · intro h u hu
    apply Classical.byContradiction
    intro hc
    apply h u hu
    intro e he
    by_cases h2 : e.2 = u
    · by_cases h1 : e.1 ∈ rem
      · exact absurd ⟨e, he, h2, h1⟩ hc
      · exact .inr h1
    · exact .inl h2
  · intro h u hu h'
    obtain ⟨e, he, h2, h1⟩ := h u hu
    exact (h' e he).elim (fun h' => h' h2) (fun h' => h' h1)

theorem topoAux_subset (edges : List (N × N)) : ∀ (fuel : Nat) (rem : List N), ∀ x ∈ topoAux edges fuel rem, x ∈ rem
  | 0, _, x, h => by simp [topoAux] at h
  | fuel + 1, rem, x, h => by
    simp only [topoAux] at h
    split at h
    · simp at h
    next u hu =>
      rcases List.mem_cons.1 h with rfl | h
      · exact (pickSource_some hu).1
      · exact (List.mem_filter.1 (topoAux_subset edges fuel _ x h)).1

theorem topoAux_nodup (edges : List (N × N)) : ∀ (fuel : Nat) (rem : List N), (topoAux edges fuel rem).Nodup
  | 0, _ => by simp [topoAux]
  | fuel + 1, rem => by
    simp only [topoAux]
    split
    · simp
    next u hu =>
      refine List.nodup_cons.2 ⟨?_, topoAux_nodup edges fuel _⟩
      intro h
      have := (List.mem_filter.1 (topoAux_subset edges fuel _ u h)).2
      simp at this

/-- when `u` is selected, every predecessor of `u` among the initial units has been selected before -/
theorem topoAux_preds_before (edges : List (N × N)) : ∀ (fuel : Nat) (rem l1 l2 : List N) (u : N),
    topoAux edges fuel rem = l1 ++ u :: l2 → ∀ e ∈ edges, e.2 = u → e.1 ∈ rem → e.1 ∈ l1
  | 0, _, l1, l2, u, h => by cases l1 <;> simp [topoAux] at h
  | fuel + 1, rem, l1, l2, u, h => by
    intro e he h2 h1
    simp only [topoAux] at h
    split at h
    · cases l1 <;> simp at h
    next u0 hu0 =>
      cases l1 with
      | nil =>
        simp only [List.nil_append, List.cons.injEq] at h
        obtain ⟨rfl, -⟩ := h
        exact absurd h1 ((pickSource_some hu0).2 e he h2)
      | cons a l1' =>
        simp only [List.cons_append, List.cons.injEq] at h
        obtain ⟨rfl, h⟩ := h
        by_cases hx : e.1 = u0
        · rw [hx]; exact List.mem_cons_self
        · refine List.mem_cons_of_mem _ (topoAux_preds_before edges fuel _ l1' l2 u h e he h2 ?_)
          exact List.mem_filter.2 ⟨h1, by simpa using hx⟩

/-- a unit listed before another one is not its successor -/
theorem topoAux_forward (edges : List (N × N)) : ∀ (fuel : Nat) (rem : List N),
    (topoAux edges fuel rem).Pairwise (fun a b => (b, a) ∉ edges)
  | 0, _ => by simp [topoAux]
  | fuel + 1, rem => by
    simp only [topoAux]
    split
    · simp
    next u hu =>
      refine List.pairwise_cons.2 ⟨?_, topoAux_forward edges fuel _⟩
      intro b hb hmem
      exact (pickSource_some hu).2 (b, u) hmem rfl (List.mem_filter.1 (topoAux_subset edges fuel _ b hb)).1

theorem topoAux_no_loop (edges : List (N × N)) (fuel : Nat) (rem : List N) (u : N)
    (h : u ∈ topoAux edges fuel rem) : (u, u) ∉ edges := by
  obtain ⟨l1, l2, h'⟩ := List.append_of_mem h
  intro hmem
  have := topoAux_preds_before edges fuel rem l1 l2 u h' (u, u) hmem rfl (topoAux_subset edges fuel rem u h)
  have hn := topoAux_nodup edges fuel rem
  rw [h'] at hn
  exact (List.nodup_append.1 hn).2.2 u this u List.mem_cons_self rfl

theorem length_filter_ne_lt {l : List N} {u : N} (h : u ∈ l) : (l.filter (fun v => !decide (v = u))).length < l.length := by
  induction l with
  | nil => simp at h
  | cons a t ih =>
    by_cases ha : a = u
    · simp only [ha, decide_true, Bool.not_true, Bool.false_eq_true, not_false_eq_true, List.filter_cons_of_neg,
        List.length_cons]
      exact Nat.lt_succ_of_le (List.length_filter_le _ _)
    · have : u ∈ t := by
        rcases List.mem_cons.1 h with rfl | h
        · exact absurd rfl ha
        · exact h
      simp only [ha, decide_false, Bool.not_false, List.filter_cons_of_pos, List.length_cons]
      exact Nat.succ_lt_succ (ih this)

/-- removing the only occurrence: `l` is `u` plus the rest -/
theorem perm_cons_filter_ne {l : List N} {u : N} (h : u ∈ l)
    (hl : (l.filter (fun v => !decide (v = u))).length + 1 = l.length) :
    l.Perm (u :: l.filter (fun v => !decide (v = u))) := by
  induction l with
  | nil => simp at h
  | cons a t ih =>
    by_cases ha : a = u
    · subst ha
      simp only [decide_true, Bool.not_true, Bool.false_eq_true, not_false_eq_true, List.filter_cons_of_neg,
        List.length_cons, Nat.add_right_cancel_iff] at hl ⊢
      have : t.filter (fun v => !decide (v = a)) = t := List.filter_eq_self.2 (by
        have := List.length_filter_eq_length_iff.1 hl
        exact this)
      rw [this]
    · have hu : u ∈ t := by
        rcases List.mem_cons.1 h with rfl | h
        · exact absurd rfl ha
        · exact h
      simp only [ha, decide_false, Bool.not_false, List.filter_cons_of_pos, List.length_cons,
        Nat.add_right_cancel_iff] at hl ⊢
      exact ((ih hu hl).cons a).trans (.swap u a _)

theorem topoAux_length_le (edges : List (N × N)) : ∀ (fuel : Nat) (rem : List N),
    (topoAux edges fuel rem).length ≤ rem.length
  | 0, _ => by simp [topoAux]
  | fuel + 1, rem => by
    simp only [topoAux]
    split
    · simp
    next u hu =>
      have h1 := topoAux_length_le edges fuel (rem.filter (fun v => !decide (v = u)))
      have h2 := length_filter_ne_lt (pickSource_some hu).1
      simp only [List.length_cons]
      omega

/-- if every unit was consumed, the result is a permutation of the units (which then are pairwise distinct) -/
theorem topoAux_perm_of_length (edges : List (N × N)) : ∀ (fuel : Nat) (rem : List N),
    (topoAux edges fuel rem).length = rem.length → (topoAux edges fuel rem).Perm rem
  | 0, rem, h => by
    simp only [topoAux, List.length_nil] at h ⊢
    rw [List.eq_nil_of_length_eq_zero h.symm]
  | fuel + 1, rem, h => by
    simp only [topoAux] at h ⊢
    split at h
    · simp only [List.length_nil] at h
      rw [List.eq_nil_of_length_eq_zero h.symm]
    next u hu =>
      have h1 := topoAux_length_le edges fuel (rem.filter (fun v => !decide (v = u)))
      have h2 := length_filter_ne_lt (pickSource_some hu).1
      simp only [List.length_cons] at h
      have ih := topoAux_perm_of_length edges fuel (rem.filter (fun v => !decide (v = u))) (by omega)
      exact (ih.cons u).trans (perm_cons_filter_ne (pickSource_some hu).1 (by omega)).symm

/-! ### `topoOrder` / `isAcyclic` -/

theorem topoOrder_subset (g : Graph N) {u : N} (h : u ∈ topoOrder g) : u ∈ g.names :=
  topoAux_subset _ _ _ u h

theorem topoOrder_nodup (g : Graph N) : (topoOrder g).Nodup := topoAux_nodup _ _ _

/-- `a` listed before `b` ⇒ there is no connection `b → a` -/
theorem topoOrder_forward (g : Graph N) : (topoOrder g).Pairwise (fun a b => (b, a) ∉ g.edges) :=
  topoAux_forward _ _ _

theorem topoOrder_no_loop (g : Graph N) {u : N} (h : u ∈ topoOrder g) : (u, u) ∉ g.edges :=
  topoAux_no_loop _ _ _ u h

/-- every predecessor (among the units) of a listed unit is listed before it -/
theorem topoOrder_preds_before (g : Graph N) {l1 l2 : List N} {u a : N} (h : topoOrder g = l1 ++ u :: l2)
    (he : (a, u) ∈ g.edges) (ha : a ∈ g.names) : a ∈ l1 :=
  topoAux_preds_before _ _ _ l1 l2 u h (a, u) he rfl ha

theorem topoOrder_perm {g : Graph N} (h : isAcyclic g = true) : (topoOrder g).Perm g.names := by
  unfold isAcyclic at h
  apply topoAux_perm_of_length
  simp only [beq_iff_eq, topoOrder] at h
  simpa [Graph.names] using h

theorem names_nodup_of_isAcyclic {g : Graph N} (h : isAcyclic g = true) : g.names.Nodup :=
  (topoOrder_perm h).nodup_iff.1 (topoOrder_nodup g)

theorem mem_topoOrder {g : Graph N} (h : isAcyclic g = true) {u : N} : u ∈ topoOrder g ↔ u ∈ g.names :=
  (topoOrder_perm h).mem_iff

/-- in an acyclic graph every connection between units goes forward in `topoOrder` -/
theorem topoOrder_edge_split {g : Graph N} (h : isAcyclic g = true) {a b : N} (he : (a, b) ∈ g.edges)
    (ha : a ∈ g.names) (hb : b ∈ g.names) : ∃ l1 l2 l3, topoOrder g = l1 ++ a :: l2 ++ b :: l3 := by
  obtain ⟨m1, m2, hm⟩ := List.append_of_mem ((mem_topoOrder h).2 hb)
  have := topoOrder_preds_before g hm he ha
  obtain ⟨l1, l2, rfl⟩ := List.append_of_mem this
  exact ⟨l1, l2, m2, by simp [hm]⟩

end Topo

/-! ## §3 post-order (sink-first order) of the internal units -/

section Post
variable {N : Type} [DecidableEq N]
open Spec

theorem pickSink_some {rem : List (FuncU N)} {s : FuncU N} (h : pickSink rem = some s) :
    s ∈ rem ∧ ∀ w ∈ rem, s.model.name ∉ w.preds := by
  unfold pickSink at h
  refine ⟨List.mem_of_find?_eq_some h, ?_⟩
  have := List.find?_some h
  simpa using this

theorem pickSink_isSome {rem : List (FuncU N)} (h : ∃ a ∈ rem, ∀ w ∈ rem, a.model.name ∉ w.preds) :
    (pickSink rem).isSome = true := by
  unfold pickSink
  rw [List.find?_isSome]
  obtain ⟨a, ha, h⟩ := h
  exact ⟨a, ha, by simpa using h⟩

theorem postOrderAux_subset : ∀ (fuel : Nat) (rem l : List (FuncU N)), postOrderAux fuel rem = some l → ∀ x ∈ l, x ∈ rem
  | _, [], l, h, x, hx => by simp only [postOrderAux, Option.some.injEq] at h; subst h; simp at hx
  | 0, _ :: _, l, h, _, _ => by simp [postOrderAux] at h
  | fuel + 1, u :: us, l, h, x, hx => by
    simp only [postOrderAux] at h
    split at h
    · simp at h
    next s hs =>
      simp only [Option.map_eq_some_iff] at h
      obtain ⟨l', hl', rfl⟩ := h
      rcases List.mem_cons.1 hx with rfl | hx
      · exact (pickSink_some hs).1
      · exact (List.mem_filter.1 (postOrderAux_subset fuel _ l' hl' x hx)).1

/-- the result lists every unit before all of its predecessors -/
theorem postOrderAux_sinkFirst : ∀ (fuel : Nat) (rem l : List (FuncU N)), postOrderAux fuel rem = some l → SinkFirst l
  | _, [], l, h => by simp only [postOrderAux, Option.some.injEq] at h; subst h; simp [SinkFirst]
  | 0, _ :: _, l, h => by simp [postOrderAux] at h
  | fuel + 1, u :: us, l, h => by
    simp only [postOrderAux] at h
    split at h
    · simp at h
    next s hs =>
      simp only [Option.map_eq_some_iff] at h
      obtain ⟨l', hl', rfl⟩ := h
      have ih := postOrderAux_sinkFirst fuel _ l' hl'
      have hsub := postOrderAux_subset fuel _ l' hl'
      have hs' := pickSink_some hs
      refine ⟨List.pairwise_cons.2 ⟨?_, ih.1⟩, ?_⟩
      · intro b hb
        exact hs'.2 b (List.mem_filter.1 (hsub b hb)).1
      · intro a ha
        rcases List.mem_cons.1 ha with rfl | ha
        · exact hs'.2 _ hs'.1
        · exact ih.2 a ha

/-- the listed units have pairwise different names (a second unit of a name already listed is dropped) -/
theorem postOrderAux_names_nodup : ∀ (fuel : Nat) (rem l : List (FuncU N)), postOrderAux fuel rem = some l →
    (l.map (·.model.name)).Nodup
  | _, [], l, h => by simp only [postOrderAux, Option.some.injEq] at h; subst h; simp
  | 0, _ :: _, l, h => by simp [postOrderAux] at h
  | fuel + 1, u :: us, l, h => by
    simp only [postOrderAux] at h
    split at h
    · simp at h
    next s hs =>
      simp only [Option.map_eq_some_iff] at h
      obtain ⟨l', hl', rfl⟩ := h
      simp only [List.map_cons, List.nodup_cons]
      refine ⟨?_, postOrderAux_names_nodup fuel _ l' hl'⟩
      intro hm
      obtain ⟨x, hx, hxn⟩ := List.mem_map.1 hm
      have := (List.mem_filter.1 (postOrderAux_subset fuel _ l' hl' x hx)).2
      simp [hxn] at this

theorem filter_name_ne_eq_erase {rem : List (FuncU N)} {s : FuncU N} (hn : (rem.map (·.model.name)).Nodup)
    (hs : s ∈ rem) : rem.filter (fun w => !decide (w.model.name = s.model.name)) = rem.erase s := by
  induction rem with
  | nil => simp at hs
  | cons a t ih =>
    simp only [List.map_cons, List.nodup_cons] at hn
    by_cases ha : a = s
    · subst ha
      simp only [decide_true, Bool.not_true, Bool.false_eq_true, not_false_eq_true, List.filter_cons_of_neg,
        List.erase_cons_head]
      apply List.filter_eq_self.2
      intro x hx
      have : x.model.name ≠ a.model.name := fun h => hn.1 (h ▸ List.mem_map_of_mem hx)
      simp [this]
    · have hst : s ∈ t := by
        rcases List.mem_cons.1 hs with rfl | h
        · exact absurd rfl ha
        · exact h
      have hne : a.model.name ≠ s.model.name := fun h => hn.1 (h ▸ List.mem_map_of_mem hst)
      have hb : (a == s) = false := by simpa using ha
      simp only [hne, decide_false, Bool.not_false, List.filter_cons_of_pos, List.erase_cons, hb, Bool.false_eq_true,
        ↓reduceIte]
      rw [ih hn.2 hst]

/-- with pairwise different names the result is a permutation of the supplied units -/
theorem postOrderAux_perm : ∀ (fuel : Nat) (rem l : List (FuncU N)), (rem.map (·.model.name)).Nodup →
    postOrderAux fuel rem = some l → l.Perm rem
  | _, [], l, _, h => by simp only [postOrderAux, Option.some.injEq] at h; subst h; exact .refl _
  | 0, _ :: _, l, _, h => by simp [postOrderAux] at h
  | fuel + 1, u :: us, l, hn, h => by
    simp only [postOrderAux] at h
    split at h
    · simp at h
    next s hs =>
      simp only [Option.map_eq_some_iff] at h
      obtain ⟨l', hl', rfl⟩ := h
      have hs' := (pickSink_some hs).1
      rw [filter_name_ne_eq_erase hn hs'] at hl'
      have hn' : (((u :: us).erase s).map (·.model.name)).Nodup :=
        (List.Sublist.map _ List.erase_sublist).nodup hn
      exact ((postOrderAux_perm fuel _ l' hn' hl').cons s).trans (List.perm_cons_erase hs').symm

/-- the first unit of a sink-first list that occurs in `rem` is a sink of `rem` -/
theorem exists_sink_of_sinkFirst {l rem : List (FuncU N)} (hl : SinkFirst l) (hne : rem ≠ [])
    (hsub : ∀ x ∈ rem, x ∈ l) : ∃ a ∈ rem, ∀ w ∈ rem, a.model.name ∉ w.preds := by
  induction l with
  | nil =>
    cases rem with
    | nil => exact absurd rfl hne
    | cons a _ => exact absurd (hsub a List.mem_cons_self) (by simp)
  | cons a t ih =>
    by_cases ha : a ∈ rem
    · refine ⟨a, ha, fun w hw => ?_⟩
      rcases List.mem_cons.1 (hsub w hw) with rfl | hw'
      · exact hl.2 _ List.mem_cons_self
      · exact (List.pairwise_cons.1 hl.1).1 w hw'
    · apply ih ⟨(List.pairwise_cons.1 hl.1).2, fun x hx => hl.2 x (List.mem_cons_of_mem _ hx)⟩
      intro x hx
      rcases List.mem_cons.1 (hsub x hx) with rfl | h
      · exact absurd hx ha
      · exact h

theorem length_filter_name_ne_lt {rem : List (FuncU N)} {s : FuncU N} (hs : s ∈ rem) :
    (rem.filter (fun w => !decide (w.model.name = s.model.name))).length < rem.length := by
  induction rem with
  | nil => simp at hs
  | cons a t ih =>
    by_cases ha : a.model.name = s.model.name
    · simp only [ha, decide_true, Bool.not_true, Bool.false_eq_true, not_false_eq_true, List.filter_cons_of_neg,
        List.length_cons]
      exact Nat.lt_succ_of_le (List.length_filter_le _ _)
    · have : s ∈ t := by
        rcases List.mem_cons.1 hs with rfl | h
        · exact absurd rfl ha
        · exact h
      simp only [ha, decide_false, Bool.not_false, List.filter_cons_of_pos, List.length_cons]
      exact Nat.succ_lt_succ (ih this)

/-- if the units can be listed sink-first at all, the selection never gets stuck -/
theorem postOrderAux_isSome_of_sinkFirst {l : List (FuncU N)} (hl : SinkFirst l) :
    ∀ (fuel : Nat) (rem : List (FuncU N)), (∀ x ∈ rem, x ∈ l) → rem.length ≤ fuel → (postOrderAux fuel rem).isSome = true
  | _, [], _, _ => by simp [postOrderAux]
  | 0, _ :: _, _, h => by simp at h
  | fuel + 1, u :: us, hsub, hlen => by
    simp only [postOrderAux]
    have := pickSink_isSome (exists_sink_of_sinkFirst hl (List.cons_ne_nil u us) hsub)
    split
    next hnone => simp [hnone] at this
    next s hs =>
      simp only [Option.isSome_map]
      apply postOrderAux_isSome_of_sinkFirst hl fuel
      · intro x hx; exact hsub x (List.mem_filter.1 hx).1
      · have := length_filter_name_ne_lt (pickSink_some hs).1
        omega

/-- every supplied name is listed (exactly once, by `postOrderAux_names_nodup`) -/
theorem postOrderAux_names_cover : ∀ (fuel : Nat) (rem l : List (FuncU N)), postOrderAux fuel rem = some l →
    ∀ x ∈ rem, x.model.name ∈ l.map (·.model.name)
  | _, [], _, _, x, hx => by simp at hx
  | 0, _ :: _, l, h, _, _ => by simp [postOrderAux] at h
  | fuel + 1, u :: us, l, h, x, hx => by
    simp only [postOrderAux] at h
    split at h
    · simp at h
    next s hs =>
      simp only [Option.map_eq_some_iff] at h
      obtain ⟨l', hl', rfl⟩ := h
      by_cases hxs : x.model.name = s.model.name
      · simp [hxs]
      · refine List.mem_cons_of_mem _ (postOrderAux_names_cover fuel _ l' hl' x ?_)
        exact List.mem_filter.2 ⟨hx, by simpa using hxs⟩

theorem postOrder_names_cover {internal l : List (FuncU N)} (h : postOrder internal = some l) :
    ∀ x ∈ internal, x.model.name ∈ l.map (·.model.name) := postOrderAux_names_cover _ _ _ h

theorem postOrder_sinkFirst {internal l : List (FuncU N)} (h : postOrder internal = some l) : SinkFirst l :=
  postOrderAux_sinkFirst _ _ _ h

theorem postOrder_subset {internal l : List (FuncU N)} (h : postOrder internal = some l) : ∀ x ∈ l, x ∈ internal :=
  postOrderAux_subset _ _ _ h

theorem postOrder_names_nodup {internal l : List (FuncU N)} (h : postOrder internal = some l) :
    (l.map (·.model.name)).Nodup := postOrderAux_names_nodup _ _ _ h

theorem postOrder_perm {internal l : List (FuncU N)} (hn : (internal.map (·.model.name)).Nodup)
    (h : postOrder internal = some l) : l.Perm internal := postOrderAux_perm _ _ _ hn h

theorem postOrder_isSome_of_sinkFirst {internal l : List (FuncU N)} (hl : SinkFirst l) (hp : ∀ x ∈ internal, x ∈ l) :
    (postOrder internal).isSome = true := postOrderAux_isSome_of_sinkFirst hl _ _ hp (Nat.le_refl _)

end Post

/-! ## §4 induction along an acyclic order; walks -/

section Walks
variable {α : Type}
open Spec

/-- If `S` only relates an element of `l` to *later* elements, a property that follows from its validity on all
`S`-successors holds everywhere on `l`. -/
theorem pairwise_acyclic_induction {S : α → α → Prop} {P : α → Prop} {l : List α}
    (hp : l.Pairwise (fun a b => ¬ S b a)) (hirr : ∀ a ∈ l, ¬ S a a)
    (step : ∀ u ∈ l, (∀ v ∈ l, S u v → P v) → P u) : ∀ u ∈ l, P u := by
  induction l with
  | nil => intro u hu; simp at hu
  | cons a t ih =>
    rw [List.pairwise_cons] at hp
    have ht : ∀ u ∈ t, P u := by
      apply ih hp.2 (fun x hx => hirr x (List.mem_cons_of_mem _ hx))
      intro u hu hv
      apply step u (List.mem_cons_of_mem _ hu)
      intro v hv' hs
      rcases List.mem_cons.1 hv' with rfl | hv'
      · exact absurd hs (hp.1 u hu)
      · exact hv v hv' hs
    intro u hu
    rcases List.mem_cons.1 hu with rfl | hu
    · apply step u List.mem_cons_self
      intro v hv hs
      rcases List.mem_cons.1 hv with rfl | hv
      · exact absurd hs (hirr v List.mem_cons_self)
      · exact ht v hv
    · exact ht u hu

variable {N : Type}

@[simp] theorem WalkR_nil (R : N → N → Prop) : WalkR R [] := trivial
@[simp] theorem WalkR_singleton (R : N → N → Prop) (a : N) : WalkR R [a] := trivial
theorem WalkR_cons_cons {R : N → N → Prop} {a b : N} {l : List N} : WalkR R (a :: b :: l) ↔ R a b ∧ WalkR R (b :: l) := Iff.rfl

theorem WalkR.tail {R : N → N → Prop} {a : N} {l : List N} (h : WalkR R (a :: l)) : WalkR R l := by
  cases l with
  | nil => trivial
  | cons b l => exact h.2

theorem WalkR.mono {R R' : N → N → Prop} (hRR : ∀ a b, R a b → R' a b) : ∀ {l : List N}, WalkR R l → WalkR R' l
  | [], _ => trivial
  | [_], _ => trivial
  | _ :: b :: l, h => ⟨hRR _ _ h.1, WalkR.mono hRR (l := b :: l) h.2⟩

/-- a walk is `R`-related on consecutive elements; an equivalent reading with `head?` -/
theorem WalkR_cons_iff {R : N → N → Prop} {a : N} {l : List N} :
    WalkR R (a :: l) ↔ (∀ b, l.head? = some b → R a b) ∧ WalkR R l := by
  cases l with
  | nil => simp
  | cons b l => simp [WalkR_cons_cons]

theorem WalkR_append {R : N → N → Prop} : ∀ {l₁ l₂ : List N},
    WalkR R (l₁ ++ l₂) ↔ WalkR R l₁ ∧ WalkR R l₂ ∧ ∀ a b, l₁.getLast? = some a → l₂.head? = some b → R a b
  | [], l₂ => by simp
  | [a], l₂ => by
    rw [List.singleton_append, WalkR_cons_iff]
    simp only [WalkR_singleton, List.getLast?_singleton, Option.some.injEq, true_and]
    constructor
    · rintro ⟨h1, h2⟩; exact ⟨h2, fun a' b ha hb => ha ▸ h1 b hb⟩
    · rintro ⟨h1, h2⟩; exact ⟨fun b hb => h2 a b rfl hb, h1⟩
  | a :: b :: l, l₂ => by
    have ih := WalkR_append (R := R) (l₁ := b :: l) (l₂ := l₂)
    simp only [List.cons_append, WalkR_cons_cons] at ih ⊢
    rw [ih]
    simp only [List.getLast?_cons_cons]
    constructor
    · rintro ⟨h1, h2, h3, h4⟩; exact ⟨⟨h1, h2⟩, h3, h4⟩
    · rintro ⟨⟨h1, h2⟩, h3, h4⟩; exact ⟨h1, h2, h3, h4⟩

theorem WalkR_snoc {R : N → N → Prop} {l : List N} {a b : N} (h : WalkR R l) (hl : l.getLast? = some a) (hab : R a b) :
    WalkR R (l ++ [b]) := by
  rw [WalkR_append]
  refine ⟨h, trivial, ?_⟩
  intro a' b' ha' hb'
  simp only [List.head?_cons, Option.some.injEq] at hb'
  rw [hl] at ha'
  cases ha'; cases hb'; exact hab

/-- all elements satisfy `D`: the walk is a walk of the relation restricted to `D` -/
theorem WalkR_and_forall {R : N → N → Prop} {D : N → Prop} : ∀ {l : List N},
    (WalkR R l ∧ ∀ x ∈ l, D x) ↔ (WalkR (fun a b => R a b ∧ D b) l ∧ ∀ a, l.head? = some a → D a)
  | [] => by simp
  | [a] => by simp
  | a :: b :: l => by
    have ih := WalkR_and_forall (R := R) (D := D) (l := b :: l)
    simp only [WalkR_cons_cons, List.mem_cons, forall_eq_or_imp, List.head?_cons, Option.some.injEq, forall_eq'] at ih ⊢
    constructor
    · rintro ⟨⟨h1, h2⟩, h3, h4, h5⟩
      exact ⟨⟨⟨h1, h4⟩, (ih.1 ⟨h2, h4, h5⟩).1⟩, h3⟩
    · rintro ⟨⟨⟨h1, h4⟩, h2⟩, h3⟩
      have := ih.2 ⟨h2, h4⟩
      exact ⟨⟨h1, this.1⟩, h3, this.2⟩

/-- a rank that increases along `R` increases along a walk with at least one step -/
theorem walk_rank_lt {R : N → N → Prop} {f : N → Nat} (hf : ∀ x y, R x y → f x < f y) :
    ∀ (l : List N) (a b : N), WalkR R (a :: l ++ [b]) → f a < f b
  | [], a, b, h => hf a b h.1
  | c :: l, a, b, h => Nat.lt_trans (hf a c h.1) (walk_rank_lt hf l c b h.2)

/-- forward reachability from a set of sources -/
inductive ReachFrom (src : N → Prop) (R : N → N → Prop) : N → Prop
  | base {a : N} : src a → ReachFrom src R a
  | step {a b : N} : ReachFrom src R a → R a b → ReachFrom src R b

/-- reachability of a set of targets -/
inductive ReachTo (R : N → N → Prop) (tgt : N → Prop) : N → Prop
  | base {a : N} : tgt a → ReachTo R tgt a
  | step {a b : N} : R a b → ReachTo R tgt b → ReachTo R tgt a

theorem reachFrom_of_walk {src : N → Prop} {R : N → N → Prop} : ∀ (r : List N) (i u : N), ReachFrom src R i →
    r.head? = some i → WalkR R r → r.getLast? = some u → ReachFrom src R u
  | [], _, _, _, h, _, _ => by simp at h
  | [a], i, u, hi, h1, _, h3 => by
    simp only [List.head?_cons, Option.some.injEq, List.getLast?_singleton] at h1 h3
    subst h1 h3; exact hi
  | a :: b :: l, i, u, hi, h1, h2, h3 => by
    simp only [List.head?_cons, Option.some.injEq] at h1
    subst h1
    rw [List.getLast?_cons_cons] at h3
    exact reachFrom_of_walk (b :: l) b u (.step hi h2.1) rfl h2.2 h3

theorem reachFrom_iff_walk {src : N → Prop} {R : N → N → Prop} {u : N} :
    ReachFrom src R u ↔ ∃ r : List N, (∃ i, r.head? = some i ∧ src i) ∧ WalkR R r ∧ r.getLast? = some u := by
  constructor
  · intro h
    induction h with
    | base ha => exact ⟨[_], ⟨_, rfl, ha⟩, trivial, rfl⟩
    | @step a b _ hab ih =>
      obtain ⟨r, ⟨i, hi, hs⟩, hw, hl⟩ := ih
      refine ⟨r ++ [b], ⟨i, ?_, hs⟩, WalkR_snoc hw hl hab, by simp⟩
      cases r with
      | nil => simp at hi
      | cons x r => simpa using hi
  · rintro ⟨r, ⟨i, hi, hs⟩, hw, hl⟩
    exact reachFrom_of_walk r i u (.base hs) hi hw hl

theorem reachTo_iff_walk {R : N → N → Prop} {tgt : N → Prop} {u : N} :
    ReachTo R tgt u ↔ ∃ r : List N, r.head? = some u ∧ (∃ o, r.getLast? = some o ∧ tgt o) ∧ WalkR R r := by
  constructor
  · intro h
    induction h with
    | base ha => exact ⟨[_], rfl, ⟨_, rfl, ha⟩, trivial⟩
    | @step a b hab _ ih =>
      obtain ⟨r, hh, ⟨o, ho, hto⟩, hw⟩ := ih
      cases r with
      | nil => simp at hh
      | cons x r =>
        simp only [List.head?_cons, Option.some.injEq] at hh
        subst hh
        exact ⟨a :: x :: r, rfl, ⟨o, by rw [List.getLast?_cons_cons]; exact ho, hto⟩, hab, hw⟩
  · rintro ⟨r, hh, ⟨o, ho, hto⟩, hw⟩
    induction r generalizing u with
    | nil => simp at hh
    | cons x r ih =>
      simp only [List.head?_cons, Option.some.injEq] at hh
      subst hh
      cases r with
      | nil =>
        simp only [List.getLast?_singleton, Option.some.injEq] at ho
        subst ho; exact .base hto
      | cons y r =>
        rw [List.getLast?_cons_cons] at ho
        exact .step hw.1 (ih rfl hw.2 ho)

theorem ReachTo.mono {R R' : N → N → Prop} {tgt tgt' : N → Prop} (hR : ∀ a b, R a b → R' a b)
    (ht : ∀ a, tgt a → tgt' a) {u : N} (h : ReachTo R tgt u) : ReachTo R' tgt' u := by
  induction h with
  | base ha => exact .base (ht _ ha)
  | step hab _ ih => exact .step (hR _ _ hab) ih

theorem ReachFrom.mono {R R' : N → N → Prop} {src src' : N → Prop} (hR : ∀ a b, R a b → R' a b)
    (ht : ∀ a, src a → src' a) {u : N} (h : ReachFrom src R u) : ReachFrom src' R' u := by
  induction h with
  | base ha => exact .base (ht _ ha)
  | step _ hab ih => exact .step ih (hR _ _ hab)

end Walks

section TopoInd
variable {N : Type} [DecidableEq N]
open Spec

/-- in an acyclic graph: a property that follows from its validity on all successors holds for every unit -/
theorem topo_succ_induction {g : Graph N} (h : isAcyclic g = true) {P : N → Prop}
    (step : ∀ u ∈ g.names, (∀ v ∈ g.names, (u, v) ∈ g.edges → P v) → P u) : ∀ u ∈ g.names, P u := by
  have := pairwise_acyclic_induction (S := fun a b => (a, b) ∈ g.edges) (P := P) (l := topoOrder g)
    (topoOrder_forward g) (fun a ha => topoOrder_no_loop g ha)
    (fun u hu hv => step u ((mem_topoOrder h).1 hu) (fun v hv' => hv v ((mem_topoOrder h).2 hv')))
  exact fun u hu => this u ((mem_topoOrder h).2 hu)

/-- in an acyclic graph: a property that follows from its validity on all predecessors holds for every unit -/
theorem topo_pred_induction {g : Graph N} (h : isAcyclic g = true) {P : N → Prop}
    (step : ∀ u ∈ g.names, (∀ v ∈ g.names, (v, u) ∈ g.edges → P v) → P u) : ∀ u ∈ g.names, P u := by
  have := pairwise_acyclic_induction (S := fun a b => (b, a) ∈ g.edges) (P := P) (l := (topoOrder g).reverse)
    (List.pairwise_reverse.2 (topoOrder_forward g)) (fun a ha => topoOrder_no_loop g (List.mem_reverse.1 ha))
    (fun u hu hv => step u ((mem_topoOrder h).1 (List.mem_reverse.1 hu))
      (fun v hv' => hv v (List.mem_reverse.2 ((mem_topoOrder h).2 hv'))))
  exact fun u hu => this u (List.mem_reverse.2 ((mem_topoOrder h).2 hu))

theorem idxOf_lt_of_split {l1 l2 l3 : List N} {a b : N} (hn : (l1 ++ a :: l2 ++ b :: l3).Nodup) :
    (l1 ++ a :: l2 ++ b :: l3).idxOf a < (l1 ++ a :: l2 ++ b :: l3).idxOf b := by
  have h1 : (l1 ++ a :: l2 ++ b :: l3) = l1 ++ a :: (l2 ++ b :: l3) := by simp
  rw [h1] at hn ⊢
  have hn' := List.nodup_append.1 hn
  have ha : a ∉ l1 := fun h => hn'.2.2 a h a List.mem_cons_self rfl
  have hb : b ∉ l1 := fun h => hn'.2.2 b h b (by simp) rfl
  have hab : a ≠ b := by
    intro h; subst h
    have := (List.nodup_cons.1 hn'.2.1).1
    simp at this
  have hab' : (a == b) = false := by simpa using hab
  rw [List.idxOf_append, List.idxOf_append, if_neg ha, if_neg hb, List.idxOf_cons_self, List.idxOf_cons, hab']
  simp only [cond_false]
  omega

/-- the position in `topoOrder` increases along every connection between units -/
theorem topoOrder_idxOf_lt {g : Graph N} (h : isAcyclic g = true) {a b : N} (he : (a, b) ∈ g.edges)
    (ha : a ∈ g.names) (hb : b ∈ g.names) : (topoOrder g).idxOf a < (topoOrder g).idxOf b := by
  obtain ⟨l1, l2, l3, hs⟩ := topoOrder_edge_split h he ha hb
  have hn := topoOrder_nodup g
  rw [hs] at hn ⊢
  exact idxOf_lt_of_split hn

/-- an accepted graph has no closed walk -/
theorem isAcyclic_no_closed_walk {g : Graph N} (h : isAcyclic g = true)
    (hin : ∀ e ∈ g.edges, e.1 ∈ g.names ∧ e.2 ∈ g.names) :
    ¬ ∃ (u : N) (l : List N), WalkR (fun a b => (a, b) ∈ g.edges) (u :: l ++ [u]) := by
  rintro ⟨u, l, hw⟩
  have := walk_rank_lt (R := fun a b => (a, b) ∈ g.edges) (f := fun x => (topoOrder g).idxOf x)
    (fun x y hxy => topoOrder_idxOf_lt h hxy (hin _ hxy).1 (hin _ hxy).2) l u u hw
  exact Nat.lt_irrefl _ this

end TopoInd

/-! ## §5 the working graph and its operations -/

section GraphOps
set_option linter.unusedSectionVars false
variable {N : Type} [DecidableEq N]

/-- everything of a node except its capabilities (which `clean_struct` changes) -/
def GNode.strip (n : GNode N) : N × Int × Bool × Bool × List N := (n.name, n.width, n.rd, n.wr, n.acl)

namespace Graph

/-- well-formed working graph: distinct unit names, no repeated connection, connections join units -/
structure WF (g : Graph N) : Prop where
  namesNodup : g.names.Nodup
  edgesNodup : g.edges.Nodup
  edgesIn : ∀ e ∈ g.edges, e.1 ∈ g.names ∧ e.2 ∈ g.names

theorem mem_preds {g : Graph N} {a u : N} : a ∈ g.preds u ↔ (a, u) ∈ g.edges := by
  simp only [preds, List.mem_map, List.mem_filter, decide_eq_true_eq]
  constructor
  · rintro ⟨⟨x, y⟩, ⟨h1, h2⟩, h3⟩
    simp only at h2 h3; subst h2 h3; exact h1
  · intro h; exact ⟨(a, u), ⟨h, rfl⟩, rfl⟩

theorem mem_succs {g : Graph N} {u b : N} : b ∈ g.succs u ↔ (u, b) ∈ g.edges := by
  simp only [succs, List.mem_map, List.mem_filter, decide_eq_true_eq]
  constructor
  · rintro ⟨⟨x, y⟩, ⟨h1, h2⟩, h3⟩
    simp only at h2 h3; subst h2 h3; exact h1
  · intro h; exact ⟨(u, b), ⟨h, rfl⟩, rfl⟩

theorem preds_isEmpty_iff {g : Graph N} {u : N} : (g.preds u).isEmpty = true ↔ ∀ a, (a, u) ∉ g.edges := by
  rw [List.isEmpty_iff, List.eq_nil_iff_forall_not_mem]
  exact forall_congr' fun a => not_congr mem_preds

theorem succs_isEmpty_iff {g : Graph N} {u : N} : (g.succs u).isEmpty = true ↔ ∀ b, (u, b) ∉ g.edges := by
  rw [List.isEmpty_iff, List.eq_nil_iff_forall_not_mem]
  exact forall_congr' fun a => not_congr mem_succs

theorem mem_inPorts {g : Graph N} {u : N} : u ∈ g.inPorts ↔ u ∈ g.names ∧ ∀ a, (a, u) ∉ g.edges := by
  simp only [inPorts, List.mem_filter, preds_isEmpty_iff]

theorem mem_outPorts {g : Graph N} {u : N} : u ∈ g.outPorts ↔ u ∈ g.names ∧ ∀ b, (u, b) ∉ g.edges := by
  simp only [outPorts, List.mem_filter, succs_isEmpty_iff]

theorem preds_nodup {g : Graph N} (h : g.edges.Nodup) (u : N) : (g.preds u).Nodup := by
  unfold preds
  rw [List.Nodup, List.pairwise_map, List.pairwise_filter]
  refine List.Pairwise.imp ?_ h
  intro x y hxy hx hy hfst
  simp only [decide_eq_true_eq] at hx hy
  exact hxy (Prod.ext hfst (hx.trans hy.symm))

theorem mem_names {g : Graph N} {u : N} : u ∈ g.names ↔ ∃ n ∈ g.nodes, n.name = u := by
  simp [names]

theorem node?_some {g : Graph N} {u : N} {n : GNode N} (h : g.node? u = some n) : n ∈ g.nodes ∧ n.name = u := by
  unfold node? at h
  exact ⟨List.mem_of_find?_eq_some h, by simpa using List.find?_some h⟩

theorem node?_isSome_iff {g : Graph N} {u : N} : (g.node? u).isSome = true ↔ u ∈ g.names := by
  unfold node?
  rw [List.find?_isSome, mem_names]
  simp

theorem node?_eq_none_iff {g : Graph N} {u : N} : g.node? u = none ↔ u ∉ g.names := by
  rw [← node?_isSome_iff]; cases g.node? u <;> simp

/-- with distinct names, `node?` finds the node -/
theorem node?_of_mem {g : Graph N} (hn : g.names.Nodup) {n : GNode N} (h : n ∈ g.nodes) : g.node? n.name = some n := by
  obtain ⟨nodes, edges⟩ := g
  unfold node? names at *
  simp only at *
  induction nodes with
  | nil => simp at h
  | cons a t ih =>
    simp only [List.map_cons, List.nodup_cons] at hn
    by_cases ha : a.name = n.name
    · rcases List.mem_cons.1 h with rfl | h
      · simp
      · exact absurd (ha ▸ List.mem_map_of_mem h) hn.1
    · rcases List.mem_cons.1 h with rfl | h
      · exact absurd rfl ha
      · simp only [List.find?_cons, ha, decide_false]
        exact ih hn.2 h

theorem capsOf_of_mem {g : Graph N} (hn : g.names.Nodup) {n : GNode N} (h : n ∈ g.nodes) : g.capsOf n.name = n.caps := by
  simp [capsOf, node?_of_mem hn h]

theorem capsOf_of_not_mem {g : Graph N} {u : N} (h : u ∉ g.names) : g.capsOf u = [] := by
  simp [capsOf, node?_eq_none_iff.2 h]

/-! ### `removeNodes` -/

theorem names_removeNodes (g : Graph N) (dead : List N) :
    (g.removeNodes dead).names = g.names.filter (fun u => !decide (u ∈ dead)) := by
  simp only [names, removeNodes, List.filter_map]
  rfl

theorem mem_names_removeNodes {g : Graph N} {dead : List N} {u : N} :
    u ∈ (g.removeNodes dead).names ↔ u ∈ g.names ∧ u ∉ dead := by
  simp [names_removeNodes]

theorem mem_nodes_removeNodes {g : Graph N} {dead : List N} {n : GNode N} :
    n ∈ (g.removeNodes dead).nodes ↔ n ∈ g.nodes ∧ n.name ∉ dead := by
  simp [removeNodes]

theorem mem_edges_removeNodes {g : Graph N} {dead : List N} {e : N × N} :
    e ∈ (g.removeNodes dead).edges ↔ e ∈ g.edges ∧ e.1 ∉ dead ∧ e.2 ∉ dead := by
  simp [removeNodes]

theorem nodes_removeNodes_sublist (g : Graph N) (dead : List N) : (g.removeNodes dead).nodes.Sublist g.nodes :=
  List.filter_sublist

theorem WF.removeNodes {g : Graph N} (h : g.WF) (dead : List N) : (g.removeNodes dead).WF := by
  refine ⟨?_, ?_, ?_⟩
  · rw [names_removeNodes]; exact List.filter_sublist.nodup h.namesNodup
  · exact (List.filter_sublist (l := g.edges)).nodup h.edgesNodup
  · intro e he
    rw [mem_edges_removeNodes] at he
    exact ⟨mem_names_removeNodes.2 ⟨(h.edgesIn e he.1).1, he.2.1⟩, mem_names_removeNodes.2 ⟨(h.edgesIn e he.1).2, he.2.2⟩⟩

theorem node?_removeNodes {g : Graph N} {dead : List N} {u : N} (hu : u ∉ dead) :
    (g.removeNodes dead).node? u = g.node? u := by
  obtain ⟨nodes, edges⟩ := g
  simp only [node?, Graph.removeNodes]
  induction nodes with
  | nil => rfl
  | cons a t ih =>
    by_cases ha : a.name = u
    · subst ha
      simp [hu]
    · by_cases hd : a.name ∈ dead
      · simp [hd, ha, ih]
      · simp [hd, ha, ih]

theorem capsOf_removeNodes {g : Graph N} {dead : List N} {u : N} (hu : u ∉ dead) :
    (g.removeNodes dead).capsOf u = g.capsOf u := by
  simp [capsOf, node?_removeNodes hu]

theorem length_removeNodes_lt {g : Graph N} {dead : List N} {u : N} (hu : u ∈ g.names) (hd : u ∈ dead) :
    (g.removeNodes dead).nodes.length < g.nodes.length := by
  obtain ⟨n, hn, rfl⟩ := mem_names.1 hu
  simp only [Graph.removeNodes]
  apply Nat.lt_of_le_of_ne (List.length_filter_le _ _)
  intro h
  have := List.length_filter_eq_length_iff.1 h n hn
  simp [hd] at this

/-! ### `setCaps` -/

@[simp] theorem names_setCaps (g : Graph N) (u : N) (cs : List N) : (g.setCaps u cs).names = g.names := by
  simp only [names, setCaps, List.map_map]
  apply List.map_congr_left
  intro n _
  simp only [Function.comp]
  split <;> rfl

@[simp] theorem edges_setCaps (g : Graph N) (u : N) (cs : List N) : (g.setCaps u cs).edges = g.edges := rfl

theorem strip_setCaps (g : Graph N) (u : N) (cs : List N) :
    (g.setCaps u cs).nodes.map GNode.strip = g.nodes.map GNode.strip := by
  simp only [setCaps, List.map_map]
  apply List.map_congr_left
  intro n _
  simp only [Function.comp]
  split <;> rfl

theorem node?_setCaps (g : Graph N) (u x : N) (cs : List N) :
    (g.setCaps u cs).node? x = (g.node? x).map (fun n => if n.name = u then { n with caps := cs } else n) := by
  simp only [node?, setCaps, List.find?_map]
  congr 2
  funext n
  simp only [Function.comp]
  split <;> rfl

theorem capsOf_setCaps_self {g : Graph N} {u : N} (hu : u ∈ g.names) (cs : List N) : (g.setCaps u cs).capsOf u = cs := by
  have := node?_isSome_iff.2 hu
  obtain ⟨n, hn⟩ := Option.isSome_iff_exists.1 this
  simp [capsOf, node?_setCaps, hn, (node?_some hn).2]

theorem capsOf_setCaps_ne {g : Graph N} {u x : N} (hx : x ≠ u) (cs : List N) : (g.setCaps u cs).capsOf x = g.capsOf x := by
  simp only [capsOf, node?_setCaps]
  cases hn : g.node? x with
  | none => rfl
  | some n =>
    have : n.name ≠ u := (node?_some hn).2 ▸ hx
    simp [this]

end Graph

/-! ### `cleanUnit`, `cleanStruct`, `rmEmpty` -/

@[simp] theorem names_cleanUnit (g : Graph N) (u : N) : (cleanUnit g u).names = g.names := by
  unfold cleanUnit
  simp only
  split
  · rfl
  · exact Graph.names_setCaps g u _

theorem strip_cleanUnit (g : Graph N) (u : N) : (cleanUnit g u).nodes.map GNode.strip = g.nodes.map GNode.strip := by
  unfold cleanUnit
  simp only
  split
  · rfl
  · exact Graph.strip_setCaps g u _

/-- the connections into `u` whose source supports none of `u`'s capabilities go; everything else stays -/
theorem mem_edges_cleanUnit {g : Graph N} {u : N} {e : N × N} :
    e ∈ (cleanUnit g u).edges ↔ e ∈ g.edges ∧ (e.2 = u → ∃ c ∈ g.capsOf u, c ∈ g.capsOf e.1) := by
  unfold cleanUnit
  simp only
  split
  next h =>
    rw [Graph.preds_isEmpty_iff] at h
    constructor
    · intro he
      refine ⟨he, fun h2 => absurd he ?_⟩
      have := h e.1
      rwa [← h2] at this
    · exact fun h => h.1
  next h =>
    simp only [List.mem_filter, Bool.not_eq_true', Bool.and_eq_false_iff, decide_eq_false_iff_not]
    constructor
    · rintro ⟨he, h'⟩
      refine ⟨he, fun h2 => ?_⟩
      rcases h' with h' | h'
      · exact absurd h2 h'
      · have : (g.capsOf u).filter (fun c => decide (c ∈ g.capsOf e.1)) ≠ [] := by
          intro hn; simp [hn] at h'
        obtain ⟨c, hc⟩ := List.exists_mem_of_ne_nil _ this
        simp only [List.mem_filter, decide_eq_true_eq] at hc
        exact ⟨c, hc.1, hc.2⟩
    · rintro ⟨he, h'⟩
      refine ⟨he, ?_⟩
      by_cases h2 : e.2 = u
      · right
        obtain ⟨c, hc1, hc2⟩ := h' h2
        cases hf : (g.capsOf u).filter (fun c => decide (c ∈ g.capsOf e.1)) with
        | nil =>
          have : c ∈ (g.capsOf u).filter (fun c => decide (c ∈ g.capsOf e.1)) := by
            simp [List.mem_filter, hc1, hc2]
          rw [hf] at this; simp at this
        | cons _ _ => rfl
      · exact .inl h2

theorem edges_cleanUnit_sublist (g : Graph N) (u : N) : (cleanUnit g u).edges.Sublist g.edges := by
  unfold cleanUnit
  simp only
  split
  · exact List.Sublist.refl _
  · exact List.filter_sublist

theorem capsOf_cleanUnit_ne {g : Graph N} {u x : N} (hx : x ≠ u) : (cleanUnit g u).capsOf x = g.capsOf x := by
  unfold cleanUnit
  simp only
  split
  · rfl
  · exact Graph.capsOf_setCaps_ne hx _

/-- `_clean_unit`: a unit with predecessors keeps the declared capabilities some predecessor supports -/
theorem mem_capsOf_cleanUnit_self {g : Graph N} {u : N} (hu : u ∈ g.names) {c : N} :
    c ∈ (cleanUnit g u).capsOf u ↔
      c ∈ g.capsOf u ∧ ((∀ a, (a, u) ∉ g.edges) ∨ ∃ p, (p, u) ∈ g.edges ∧ c ∈ g.capsOf p) := by
  unfold cleanUnit
  simp only
  split
  next h =>
    rw [Graph.preds_isEmpty_iff] at h
    exact ⟨fun hc => ⟨hc, .inl h⟩, fun hc => hc.1⟩
  next h =>
    have hne : ¬ ∀ a, (a, u) ∉ g.edges := fun h' => h (Graph.preds_isEmpty_iff.2 h')
    have : (Graph.capsOf ⟨(g.setCaps u ((g.capsOf u).filter fun c => (g.preds u).any fun p => decide (c ∈ g.capsOf p))).nodes,
        g.edges.filter fun e => !(decide (e.2 = u) && ((g.capsOf u).filter fun c => decide (c ∈ g.capsOf e.1)).isEmpty)⟩ u)
        = (g.setCaps u ((g.capsOf u).filter fun c => (g.preds u).any fun p => decide (c ∈ g.capsOf p))).capsOf u := rfl
    rw [this, Graph.capsOf_setCaps_self hu]
    simp only [List.mem_filter, List.any_eq_true, decide_eq_true_eq, Graph.mem_preds]
    constructor
    · rintro ⟨h1, p, h2, h3⟩; exact ⟨h1, .inr ⟨p, h2, h3⟩⟩
    · rintro ⟨h1, h2 | ⟨p, h2, h3⟩⟩
      · exact absurd h2 hne
      · exact ⟨h1, p, h2, h3⟩

theorem capsOf_cleanUnit_self_sublist {g : Graph N} {u : N} (hu : u ∈ g.names) :
    ((cleanUnit g u).capsOf u).Sublist (g.capsOf u) := by
  unfold cleanUnit
  simp only
  split
  · exact List.Sublist.refl _
  · have : ∀ (cs : List N) (es : List (N × N)), Graph.capsOf ⟨(g.setCaps u cs).nodes, es⟩ u = (g.setCaps u cs).capsOf u :=
      fun _ _ => rfl
    rw [this, Graph.capsOf_setCaps_self hu]
    exact List.filter_sublist

theorem Graph.WF.cleanUnit {g : Graph N} (h : g.WF) (u : N) : (cleanUnit g u).WF := by
  refine ⟨by rw [names_cleanUnit]; exact h.namesNodup, (edges_cleanUnit_sublist g u).nodup h.edgesNodup, ?_⟩
  intro e he
  rw [names_cleanUnit]
  exact h.edgesIn e (mem_edges_cleanUnit.1 he).1

theorem foldl_cleanUnit_names (l : List N) (g : Graph N) : (l.foldl cleanUnit g).names = g.names := by
  induction l generalizing g with
  | nil => rfl
  | cons a t ih => simp [List.foldl_cons, ih]

theorem foldl_cleanUnit_strip (l : List N) (g : Graph N) :
    (l.foldl cleanUnit g).nodes.map GNode.strip = g.nodes.map GNode.strip := by
  induction l generalizing g with
  | nil => rfl
  | cons a t ih => simp [List.foldl_cons, ih, strip_cleanUnit]

theorem foldl_cleanUnit_WF (l : List N) {g : Graph N} (h : g.WF) : (l.foldl cleanUnit g).WF := by
  induction l generalizing g with
  | nil => exact h
  | cons a t ih => exact ih (h.cleanUnit a)

theorem foldl_cleanUnit_edges_sublist (l : List N) (g : Graph N) : (l.foldl cleanUnit g).edges.Sublist g.edges := by
  induction l generalizing g with
  | nil => exact List.Sublist.refl _
  | cons a t ih => exact (ih _).trans (edges_cleanUnit_sublist g a)

@[simp] theorem names_cleanStruct (g : Graph N) : (cleanStruct g).names = g.names := foldl_cleanUnit_names _ g

theorem strip_cleanStruct (g : Graph N) : (cleanStruct g).nodes.map GNode.strip = g.nodes.map GNode.strip :=
  foldl_cleanUnit_strip _ g

theorem Graph.WF.cleanStruct {g : Graph N} (h : g.WF) : (cleanStruct g).WF := foldl_cleanUnit_WF _ h

theorem Graph.WF.rmEmpty {g : Graph N} (h : g.WF) : (rmEmpty g).WF := h.removeNodes _

/-! ### `chkTerminals` -/

/-- invariants of the dead-end removal loop -/
theorem chkTerminals_ok_inv {in0 out0 : List N} {P : Graph N → Prop}
    (hstep : ∀ g, P g → (∀ u ∈ g.outPorts.filter (fun u => !decide (u ∈ out0)), u ∉ in0) →
      P (g.removeNodes (g.outPorts.filter (fun u => !decide (u ∈ out0))))) :
    ∀ (fuel : Nat) (g g2 : Graph N), P g → chkTerminals in0 out0 fuel g = .ok g2 → P g2
  | 0, g, g2, hP, h => by simp only [chkTerminals, Except.ok.injEq] at h; exact h ▸ hP
  | fuel + 1, g, g2, hP, h => by
    simp only [chkTerminals] at h
    split at h
    · simp only [Except.ok.injEq] at h; exact h ▸ hP
    · split at h
      · simp at h
      next hnone =>
        refine chkTerminals_ok_inv hstep fuel _ g2 (hstep g hP ?_) h
        intro u hu hin
        have := List.find?_eq_none.1 hnone u hu
        simp [hin] at this

/-- the loop stops only when every remaining sink is an original output port (the fuel is never exhausted) -/
theorem chkTerminals_ok_final {in0 out0 : List N} : ∀ (fuel : Nat) (g g2 : Graph N), g.nodes.length < fuel →
    chkTerminals in0 out0 fuel g = .ok g2 → ∀ u ∈ g2.outPorts, u ∈ out0
  | 0, g, g2, hf, _ => by simp at hf
  | fuel + 1, g, g2, hf, h => by
    simp only [chkTerminals] at h
    split at h
    next hemp =>
      simp only [Except.ok.injEq] at h
      subst h
      intro u hu
      rw [List.isEmpty_iff] at hemp
      apply Classical.byContradiction
      intro hno
      have : u ∈ g.outPorts.filter (fun u => !decide (u ∈ out0)) := List.mem_filter.2 ⟨hu, by simpa using hno⟩
      rw [hemp] at this
      simp at this
    next hemp =>
      split at h
      · simp at h
      · refine chkTerminals_ok_final fuel _ g2 ?_ h
        have hne : g.outPorts.filter (fun u => !decide (u ∈ out0)) ≠ [] := by
          intro hh; simp [hh] at hemp
        obtain ⟨u, hu⟩ := List.exists_mem_of_ne_nil _ hne
        have hu' := (Graph.mem_outPorts.1 (List.mem_filter.1 hu).1).1
        have := Graph.length_removeNodes_lt hu' hu
        omega

end GraphOps

/-! ## §6 stages 1–2: the graph `_create_graph` builds is well-formed -/

section Create
set_option linter.unusedSectionVars false
variable {N : Type} [DecidableEq N] (fold : N → N)

theorem lookupFold_some {reg : List N} {x y : N} (h : lookupFold fold reg x = some y) : y ∈ reg ∧ fold y = fold x := by
  unfold lookupFold at h
  exact ⟨List.mem_of_find?_eq_some h, by simpa using List.find?_some h⟩

theorem lookupFold_eq_none {reg : List N} {x : N} : lookupFold fold reg x = none ↔ ∀ y ∈ reg, fold y ≠ fold x := by
  unfold lookupFold
  simp

theorem addUnits_ok_names : ∀ (us : List (UnitD N)) (names reg : List N) (r : List (GNode N) × List N),
    addUnits fold us names reg = .ok r → r.1.map (·.name) = us.map (·.name)
  | [], _, _, r, h => by simp only [addUnits, Except.ok.injEq] at h; subst h; rfl
  | u :: us, names, reg, r, h => by
    simp only [addUnits] at h
    split at h
    · simp at h
    · split at h
      · simp at h
      · split at h
        · simp at h
        next r' hr' =>
          simp only [Except.ok.injEq] at h
          subst h
          simp [addUnits_ok_names us _ _ r' hr']

/-- accepted units: names pairwise different up to case (and different from the names registered before) -/
theorem addUnits_ok_distinct : ∀ (us : List (UnitD N)) (names reg : List N) (r : List (GNode N) × List N),
    addUnits fold us names reg = .ok r →
      (∀ u ∈ us, ∀ x ∈ names, fold x ≠ fold u.name) ∧ (us.map (·.name)).Pairwise (fun a b => fold a ≠ fold b)
  | [], _, _, _, _ => by simp
  | u :: us, names, reg, r, h => by
    simp only [addUnits] at h
    split at h
    · simp at h
    next hnone =>
      split at h
      · simp at h
      · split at h
        · simp at h
        next r' hr' =>
          have ih := addUnits_ok_distinct us _ _ r' hr'
          rw [lookupFold_eq_none] at hnone
          refine ⟨?_, ?_⟩
          · intro v hv x hx
            rcases List.mem_cons.1 hv with rfl | hv
            · exact hnone x hx
            · exact ih.1 v hv x (List.mem_append_left _ hx)
          · simp only [List.map_cons, List.pairwise_cons]
            refine ⟨?_, ih.2⟩
            intro b hb
            obtain ⟨v, hv, rfl⟩ := List.mem_map.1 hb
            exact ih.1 v hv u.name (List.mem_append_right _ List.mem_cons_self)

/-- accepted units have positive widths -/
theorem addUnits_ok_width : ∀ (us : List (UnitD N)) (names reg : List N) (r : List (GNode N) × List N),
    addUnits fold us names reg = .ok r → ∀ u ∈ us, 0 < u.width
  | [], _, _, _, _ => by simp
  | u :: us, names, reg, r, h => by
    simp only [addUnits] at h
    split at h
    · simp at h
    · split at h
      · simp at h
      next hw =>
        split at h
        · simp at h
        next r' hr' =>
          intro v hv
          rcases List.mem_cons.1 hv with rfl | hv
          · omega
          · exact addUnits_ok_width us _ _ r' hr' v hv

/-- the connections `_add_edge` accumulates -/
theorem addEdges_ok (names : List N) : ∀ (es : List (List N)) (acc r : List (N × N)),
    addEdges fold names es acc = .ok r →
      (acc.Nodup → r.Nodup) ∧
      (∀ e, e ∈ r ↔ e ∈ acc ∨ ∃ a b, [a, b] ∈ es ∧ lookupFold fold names a = some e.1 ∧ lookupFold fold names b = some e.2) ∧
      (∀ e ∈ es, ∃ a b, e = [a, b] ∧ (lookupFold fold names a).isSome = true ∧ (lookupFold fold names b).isSome = true)
  | [], acc, r, h => by
    simp only [addEdges, Except.ok.injEq] at h
    subst h
    simp
  | [] :: es, acc, r, h => by simp [addEdges] at h
  | [_] :: es, acc, r, h => by simp [addEdges] at h
  | (_ :: _ :: _ :: _) :: es, acc, r, h => by simp [addEdges] at h
  | [a, b] :: es, acc, r, h => by
    simp only [addEdges] at h
    split at h
    · simp at h
    next a' ha' =>
      split at h
      · simp at h
      next b' hb' =>
        have ih := addEdges_ok names es _ r h
        refine ⟨?_, ?_, ?_⟩
        · intro hn
          apply ih.1
          split
          · exact hn
          next hmem =>
            exact List.nodup_append.2 ⟨hn, by simp, by
              intro x hx y hy hxy
              simp only [List.mem_singleton] at hy
              subst hy; subst hxy; exact hmem hx⟩
        · intro x
          rw [ih.2.1]
          constructor
          · rintro (hx | ⟨c, d, hcd, hc, hd⟩)
            · split at hx
              · exact .inl hx
              · rcases List.mem_append.1 hx with hx | hx
                · exact .inl hx
                · simp only [List.mem_singleton] at hx
                  subst hx
                  exact .inr ⟨a, b, List.mem_cons_self, ha', hb'⟩
            · exact .inr ⟨c, d, List.mem_cons_of_mem _ hcd, hc, hd⟩
          · rintro (hx | ⟨c, d, hcd, hc, hd⟩)
            · left; split
              · exact hx
              · exact List.mem_append_left _ hx
            · rcases List.mem_cons.1 hcd with heq | hcd
              · simp only [List.cons.injEq, and_true] at heq
                obtain ⟨rfl, rfl⟩ := heq
                rw [ha'] at hc; rw [hb'] at hd
                simp only [Option.some.injEq] at hc hd
                have hx : x = (a', b') := Prod.ext hc.symm hd.symm
                left; split
                · rw [hx]; assumption
                · rw [hx]; exact List.mem_append_right _ List.mem_cons_self
              · exact .inr ⟨c, d, hcd, hc, hd⟩
        · intro x hx
          rcases List.mem_cons.1 hx with rfl | hx
          · exact ⟨a, b, rfl, by simp [ha'], by simp [hb']⟩
          · exact ih.2.2 x hx

section Order
variable [LT N] [DecidableRel (α := N) (· < ·)]

theorem createGraph_ok {d : Desc N} {gr : Graph N × List N} (h : createGraph fold d = .ok gr) :
    ∃ r es, addUnits fold d.units [] [] = .ok r ∧ addEdges fold (r.1.map (·.name)) d.edges [] = .ok es ∧
      gr = (⟨r.1, es⟩, r.2) := by
  unfold createGraph at h
  split at h
  · simp at h
  next r hr =>
    split at h
    · simp at h
    next es hes =>
      simp only [Except.ok.injEq] at h
      exact ⟨r, es, hr, hes, h.symm⟩

theorem createGraph_names {d : Desc N} {gr : Graph N × List N} (h : createGraph fold d = .ok gr) :
    gr.1.names = d.units.map (·.name) := by
  obtain ⟨r, es, hr, -, rfl⟩ := createGraph_ok fold h
  exact addUnits_ok_names fold _ _ _ r hr

theorem createGraph_names_foldDistinct {d : Desc N} {gr : Graph N × List N} (h : createGraph fold d = .ok gr) :
    gr.1.names.Pairwise (fun a b => fold a ≠ fold b) := by
  rw [createGraph_names fold h]
  obtain ⟨r, es, hr, -, rfl⟩ := createGraph_ok fold h
  exact (addUnits_ok_distinct fold _ _ _ r hr).2

theorem createGraph_WF {d : Desc N} {gr : Graph N × List N} (h : createGraph fold d = .ok gr) : gr.1.WF := by
  have hd := createGraph_names_foldDistinct fold h
  obtain ⟨r, es, hr, hes, rfl⟩ := createGraph_ok fold h
  have he := addEdges_ok fold _ _ _ _ hes
  refine ⟨hd.imp (fun hab heq => hab (congrArg fold heq)), he.1 List.nodup_nil, ?_⟩
  intro e hmem
  rcases (he.2.1 e).1 hmem with hx | ⟨a, b, -, ha, hb⟩
  · simp at hx
  · exact ⟨(lookupFold_some fold ha).1, (lookupFold_some fold hb).1⟩

/-- what an accepted `_prep_proc_desc` went through -/
theorem prepare_ok {g g2 : Graph N} (h : prepare g = .ok g2) :
    isAcyclic g = true ∧
    chkTerminals g.inPorts g.outPorts ((rmEmpty (cleanStruct g)).nodes.length + 1) (rmEmpty (cleanStruct g)) = .ok g2 ∧
    (g.inPorts.any (fun p => decide (p ∈ g2.names))) = true ∧ chkCaps g2 = .ok () := by
  unfold prepare at h
  split at h
  · simp at h
  next hac =>
    simp only at h
    split at h
    · simp at h
    next g2' hg2 =>
      split at h
      · simp at h
      next hany =>
        split at h
        · simp at h
        next hcaps =>
          simp only [Except.ok.injEq] at h
          subst h
          exact ⟨by simpa using hac, hg2, by simpa using hany, hcaps⟩

theorem load_ok {d : Desc N} {p : Proc N} (h : load fold d = .ok p) :
    ∃ g0 reg g2, createGraph fold d = .ok (g0, reg) ∧ prepare g0 = .ok g2 ∧ makeProcessor fold reg g2 = some p := by
  unfold load at h
  split at h
  · simp at h
  next gr hgr =>
    split at h
    · simp at h
    next g2 hg2 =>
      split at h
      next p' hp' =>
        simp only [Except.ok.injEq] at h
        subst h
        exact ⟨gr.1, gr.2, g2, hgr, hg2, hp'⟩
      · simp at h

end Order

/-- `chk_terminals` only removes units -/
theorem chkTerminals_ok_WF {in0 out0 : List N} {fuel : Nat} {g g2 : Graph N} (hg : g.WF)
    (h : chkTerminals in0 out0 fuel g = .ok g2) : g2.WF :=
  chkTerminals_ok_inv (P := fun g => g.WF) (fun _ hP _ => hP.removeNodes _) fuel g g2 hg h

/-- `g'` is the sub-graph of `g` induced by its units -/
structure Graph.Induced (g' g : Graph N) : Prop where
  nodes : g'.nodes.Sublist g.nodes
  edgesSub : g'.edges.Sublist g.edges
  edges : ∀ e, e ∈ g'.edges ↔ e ∈ g.edges ∧ e.1 ∈ g'.names ∧ e.2 ∈ g'.names

theorem Graph.Induced.refl {g : Graph N} (h : g.WF) : g.Induced g :=
  ⟨List.Sublist.refl _, List.Sublist.refl _, fun e => ⟨fun he => ⟨he, h.edgesIn e he⟩, fun he => he.1⟩⟩

theorem Graph.Induced.removeNodes {g' g : Graph N} (h : g'.Induced g) (dead : List N) : (g'.removeNodes dead).Induced g := by
  refine ⟨(Graph.nodes_removeNodes_sublist g' dead).trans h.nodes, List.filter_sublist.trans h.edgesSub, fun e => ?_⟩
  rw [Graph.mem_edges_removeNodes, h.edges e, Graph.mem_names_removeNodes, Graph.mem_names_removeNodes]
  constructor
  · rintro ⟨⟨h1, h2, h3⟩, h4, h5⟩; exact ⟨h1, ⟨h2, h4⟩, h3, h5⟩
  · rintro ⟨h1, ⟨h2, h4⟩, h3, h5⟩; exact ⟨⟨h1, h2, h3⟩, h4, h5⟩

theorem Graph.Induced.names_sublist {g' g : Graph N} (h : g'.Induced g) : g'.names.Sublist g.names :=
  h.nodes.map _

theorem Graph.Induced.WF {g' g : Graph N} (h : g'.Induced g) (hg : g.WF) : g'.WF :=
  ⟨h.names_sublist.nodup hg.namesNodup, h.edgesSub.nodup hg.edgesNodup, fun e he => ((h.edges e).1 he).2⟩

theorem chkTerminals_ok_induced {in0 out0 : List N} {fuel : Nat} {g0 g g2 : Graph N} (hg : g.Induced g0)
    (h : chkTerminals in0 out0 fuel g = .ok g2) : g2.Induced g0 :=
  chkTerminals_ok_inv (P := fun g => g.Induced g0) (fun _ hP _ => hP.removeNodes _) fuel g g2 hg h

end Create

/-! ## §7 `_make_processor`: the processor object in terms of the final graph -/

section MakeProc
set_option linter.unusedSectionVars false
open Spec

theorem perm_four_filters {α : Type} (p q : α → Bool) (l : List α) :
    l.Perm (l.filter (fun n => !p n && q n) ++ l.filter (fun n => !p n && !q n) ++
      l.filter (fun n => p n && !q n) ++ l.filter (fun n => p n && q n)) := by
  induction l with
  | nil => simp
  | cons a t ih =>
    cases hp : p a <;> cases hq : q a <;> simp only [List.filter_cons, hp, hq, Bool.not_false, Bool.not_true,
      Bool.and_self, Bool.and_false, Bool.and_true, if_true, if_false, Bool.false_eq_true, List.append_assoc, List.cons_append]
    · refine (ih.cons a).trans ?_
      have := (@List.perm_middle _ a (t.filter (fun n => !p n && q n)) (t.filter (fun n => !p n && !q n) ++ (t.filter (fun n => p n && !q n) ++ t.filter (fun n => p n && q n)))).symm
      simpa [List.append_assoc] using this
    · refine (ih.cons a).trans ?_
      simp [List.append_assoc]
    · refine (ih.cons a).trans ?_
      have := (@List.perm_middle _ a (t.filter (fun n => !p n && q n) ++ t.filter (fun n => !p n && !q n)) (t.filter (fun n => p n && !q n) ++ t.filter (fun n => p n && q n))).symm
      simpa [List.append_assoc] using this
    · refine (ih.cons a).trans ?_
      have := (@List.perm_middle _ a (t.filter (fun n => !p n && q n) ++ t.filter (fun n => !p n && !q n) ++ t.filter (fun n => p n && !q n)) (t.filter (fun n => p n && q n))).symm
      simpa [List.append_assoc] using this

variable {N : Type} [DecidableEq N] (fold : N → N) [LT N] [DecidableRel (α := N) (· < ·)]

/-- the unit has an incoming connection -/
def hasIn (g : Graph N) (n : GNode N) : Bool := !(g.preds n.name).isEmpty
/-- the unit has an outgoing connection -/
def hasOut (g : Graph N) (n : GNode N) : Bool := !(g.succs n.name).isEmpty
/-- `FuncUnit(_get_unit_entry(...), predecessors)` -/
def fuOf (reg : List N) (g : Graph N) (n : GNode N) : FuncU N := mkFuncU (mkModel fold reg n) (g.preds n.name)

theorem hasIn_iff {g : Graph N} {n : GNode N} : hasIn g n = true ↔ ∃ a, (a, n.name) ∈ g.edges := by
  unfold hasIn
  rw [Bool.not_eq_true', ← Bool.not_eq_true, Graph.preds_isEmpty_iff]
  exact ⟨fun h => Classical.byContradiction fun hc => h fun a ha => hc ⟨a, ha⟩, fun ⟨a, ha⟩ h => h a ha⟩

theorem hasOut_iff {g : Graph N} {n : GNode N} : hasOut g n = true ↔ ∃ b, (n.name, b) ∈ g.edges := by
  unfold hasOut
  rw [Bool.not_eq_true', ← Bool.not_eq_true, Graph.succs_isEmpty_iff]
  exact ⟨fun h => Classical.byContradiction fun hc => h fun a ha => hc ⟨a, ha⟩, fun ⟨a, ha⟩ h => h a ha⟩

@[simp] theorem fuOf_model (reg : List N) (g : Graph N) (n : GNode N) : (fuOf fold reg g n).model = mkModel fold reg n := rfl
@[simp] theorem fuOf_preds (reg : List N) (g : Graph N) (n : GNode N) : (fuOf fold reg g n).preds = sortNames (g.preds n.name) := rfl
@[simp] theorem mkModel_name (reg : List N) (n : GNode N) : (mkModel fold reg n).name = n.name := rfl

theorem makeProcessor_some {reg : List N} {g : Graph N} {p : Proc N} (h : makeProcessor fold reg g = some p) :
    ∃ io, postOrder ((g.nodes.filter (fun n => hasIn g n && hasOut g n)).map (fuOf fold reg g)) = some io ∧
      p = ⟨(g.nodes.filter (fun n => !hasIn g n && hasOut g n)).map (mkModel fold reg),
           sortFU ((g.nodes.filter (fun n => hasIn g n && !hasOut g n)).map (fuOf fold reg g)),
           (g.nodes.filter (fun n => !hasIn g n && !hasOut g n)).map (mkModel fold reg), io⟩ := by
  unfold makeProcessor mkProc at h
  simp only [Option.map_eq_some_iff] at h
  obtain ⟨io, hio, rfl⟩ := h
  exact ⟨io, hio, rfl⟩

/-- the internal units of the result are the supplied ones (the graph's unit names being distinct) -/
theorem makeProcessor_internal_perm {reg : List N} {g : Graph N} {p : Proc N} (hg : g.names.Nodup)
    (h : makeProcessor fold reg g = some p) :
    p.internal.Perm ((g.nodes.filter (fun n => hasIn g n && hasOut g n)).map (fuOf fold reg g)) := by
  obtain ⟨io, hio, rfl⟩ := makeProcessor_some fold h
  refine postOrder_perm ?_ hio
  simp only [List.map_map]
  exact (List.Sublist.map _ List.filter_sublist).nodup hg

theorem makeProcessor_allUnits_perm {reg : List N} {g : Graph N} {p : Proc N} (hg : g.names.Nodup)
    (h : makeProcessor fold reg g = some p) : p.allUnits.Perm (g.nodes.map (mkModel fold reg)) := by
  have hint := makeProcessor_internal_perm fold hg h
  obtain ⟨io, hio, rfl⟩ := makeProcessor_some fold h
  simp only at hint
  unfold Proc.allUnits
  simp only
  have h1 : ((sortFU ((g.nodes.filter (fun n => hasIn g n && !hasOut g n)).map (fuOf fold reg g))).map (·.model)).Perm
      ((g.nodes.filter (fun n => hasIn g n && !hasOut g n)).map (mkModel fold reg)) := by
    refine ((sortFU_perm _).map _).trans ?_
    simp [List.map_map, Function.comp_def]
  have h2 : (io.map (·.model)).Perm ((g.nodes.filter (fun n => hasIn g n && hasOut g n)).map (mkModel fold reg)) := by
    refine (hint.map _).trans ?_
    simp [List.map_map, Function.comp_def]
  refine (((List.Perm.refl _).append h1).append h2).trans ?_
  rw [← List.map_append, ← List.map_append, ← List.map_append]
  exact ((perm_four_filters (hasIn g) (hasOut g) g.nodes).map _).symm

theorem makeProcessor_procNames_perm {reg : List N} {g : Graph N} {p : Proc N} (hg : g.names.Nodup)
    (h : makeProcessor fold reg g = some p) : (procNames p).Perm g.names := by
  unfold procNames Graph.names
  refine ((makeProcessor_allUnits_perm fold hg h).map _).trans ?_
  simp [List.map_map, Function.comp_def]

/-- the units with a predecessor list are those with an incoming connection -/
theorem makeProcessor_mem_dests {reg : List N} {g : Graph N} {p : Proc N} (hg : g.names.Nodup)
    (h : makeProcessor fold reg g = some p) {f : FuncU N} :
    f ∈ p.outPorts ++ p.internal ↔ ∃ n ∈ g.nodes, hasIn g n = true ∧ f = fuOf fold reg g n := by
  have hint := makeProcessor_internal_perm fold hg h
  obtain ⟨io, hio, rfl⟩ := makeProcessor_some fold h
  simp only at hint
  simp only [List.mem_append, mem_sortFU, hint.mem_iff, List.mem_map, List.mem_filter, Bool.and_eq_true,
    Bool.not_eq_true']
  constructor
  · rintro (⟨n, ⟨hn, h1, -⟩, rfl⟩ | ⟨n, ⟨hn, h1, -⟩, rfl⟩) <;> exact ⟨n, hn, h1, rfl⟩
  · rintro ⟨n, hn, h1, rfl⟩
    cases h2 : hasOut g n
    · exact .inl ⟨n, ⟨hn, h1, h2⟩, rfl⟩
    · exact .inr ⟨n, ⟨hn, h1, h2⟩, rfl⟩

/-- the predecessor lists of the result are exactly the connections of the final graph -/
theorem makeProcessor_edgeB {reg : List N} {g : Graph N} {p : Proc N} (hg : g.WF)
    (h : makeProcessor fold reg g = some p) {a b : N} : edgeB p a b = true ↔ (a, b) ∈ g.edges := by
  unfold edgeB
  simp only [List.any_eq_true, Bool.and_eq_true, decide_eq_true_eq, makeProcessor_mem_dests fold hg.namesNodup h]
  constructor
  · rintro ⟨f, ⟨n, -, -, rfl⟩, hb, ha⟩
    simp only [fuOf_model, mkModel_name, fuOf_preds, mem_sortNames, Graph.mem_preds] at hb ha
    exact hb ▸ ha
  · intro he
    obtain ⟨n, hn, rfl⟩ := Graph.mem_names.1 (hg.edgesIn _ he).2
    exact ⟨fuOf fold reg g n, ⟨n, hn, hasIn_iff.2 ⟨a, he⟩, rfl⟩, rfl, by simpa [Graph.mem_preds] using he⟩

/-- classification of the units of the result by the connectivity in the final graph -/
theorem makeProcessor_classes {reg : List N} {g : Graph N} {p : Proc N} (hg : g.names.Nodup)
    (h : makeProcessor fold reg g = some p) (u : N) :
    (u ∈ p.inPorts.map (·.name) ↔ u ∈ g.names ∧ (¬ ∃ a, (a, u) ∈ g.edges) ∧ ∃ b, (u, b) ∈ g.edges) ∧
    (u ∈ p.outPorts.map (·.model.name) ↔ u ∈ g.names ∧ (∃ a, (a, u) ∈ g.edges) ∧ ¬ ∃ b, (u, b) ∈ g.edges) ∧
    (u ∈ p.inOut.map (·.name) ↔ u ∈ g.names ∧ (¬ ∃ a, (a, u) ∈ g.edges) ∧ ¬ ∃ b, (u, b) ∈ g.edges) ∧
    (u ∈ p.internal.map (·.model.name) ↔ u ∈ g.names ∧ (∃ a, (a, u) ∈ g.edges) ∧ ∃ b, (u, b) ∈ g.edges) := by
  have hint := makeProcessor_internal_perm fold hg h
  obtain ⟨io, hio, rfl⟩ := makeProcessor_some fold h
  simp only at hint
  have key : ∀ (P Q : GNode N → Bool) (A B : N → Prop), (∀ n, P n = true ↔ A n.name) → (∀ n, Q n = true ↔ B n.name) →
      ((∃ n, (n ∈ g.nodes ∧ P n = true ∧ Q n = true) ∧ n.name = u) ↔ u ∈ g.names ∧ A u ∧ B u) := by
    intro P Q A B hP hQ
    rw [Graph.mem_names]
    constructor
    · rintro ⟨n, ⟨hn, h1, h2⟩, rfl⟩; exact ⟨⟨n, hn, rfl⟩, (hP n).1 h1, (hQ n).1 h2⟩
    · rintro ⟨⟨n, hn, rfl⟩, h1, h2⟩; exact ⟨n, ⟨hn, (hP n).2 h1, (hQ n).2 h2⟩, rfl⟩
  have hI : ∀ n : GNode N, hasIn g n = true ↔ ∃ a, (a, n.name) ∈ g.edges := fun n => hasIn_iff
  have hO : ∀ n : GNode N, hasOut g n = true ↔ ∃ b, (n.name, b) ∈ g.edges := fun n => hasOut_iff
  have hI' : ∀ n : GNode N, (!hasIn g n) = true ↔ ¬ ∃ a, (a, n.name) ∈ g.edges := fun n => by
    rw [Bool.not_eq_true', ← Bool.not_eq_true, hI]
  have hO' : ∀ n : GNode N, (!hasOut g n) = true ↔ ¬ ∃ b, (n.name, b) ∈ g.edges := fun n => by
    rw [Bool.not_eq_true', ← Bool.not_eq_true, hO]
  refine ⟨?_, ?_, ?_, ?_⟩
  · simp only [List.map_map, List.mem_map, List.mem_filter, Bool.and_eq_true, Function.comp_def, mkModel_name]
    exact key _ _ (fun u => ¬ ∃ a, (a, u) ∈ g.edges) (fun u => ∃ b, (u, b) ∈ g.edges) hI' hO
  · rw [((sortFU_perm _).map (·.model.name)).mem_iff]
    simp only [List.map_map, List.mem_map, List.mem_filter, Bool.and_eq_true, Function.comp_def, fuOf_model, mkModel_name]
    exact key _ _ (fun u => ∃ a, (a, u) ∈ g.edges) (fun u => ¬ ∃ b, (u, b) ∈ g.edges) hI hO'
  · simp only [List.map_map, List.mem_map, List.mem_filter, Bool.and_eq_true, Function.comp_def, mkModel_name]
    exact key _ _ (fun u => ¬ ∃ a, (a, u) ∈ g.edges) (fun u => ¬ ∃ b, (u, b) ∈ g.edges) hI' hO'
  · rw [(hint.map (·.model.name)).mem_iff]
    simp only [List.map_map, List.mem_map, List.mem_filter, Bool.and_eq_true, Function.comp_def, fuOf_model, mkModel_name]
    exact key _ _ (fun u => ∃ a, (a, u) ∈ g.edges) (fun u => ∃ b, (u, b) ∈ g.edges) hI hO

end MakeProc

/-- an accepted description's final graph is a well-formed induced sub-graph of the cleaned graph -/
theorem prepare_induced {N : Type} [DecidableEq N] [LT N] [DecidableRel (α := N) (· < ·)] {g g2 : Graph N} (hg : g.WF) (h : prepare g = .ok g2) :
    g2.Induced (cleanStruct g) ∧ g2.WF := by
  have h1 := (prepare_ok h).2.1
  have hc : (cleanStruct g).WF := hg.cleanStruct
  have : (rmEmpty (cleanStruct g)).Induced (cleanStruct g) := (Graph.Induced.refl hc).removeNodes _
  have h2 := chkTerminals_ok_induced this h1
  exact ⟨h2, h2.WF hc⟩

end Loader
end ProcSim
