import ProcSim.Lemmas.SimCore
/-!
# Lemmas for C07 (eager advance, oldest first)

1. `fillTaken` with sorted candidates (`fillTaken_oldest`), flag facts.
2. `fillDests` over a list of destinations in *sink-first* order (`DestsOK`): a processed destination is final
   (`fillDests_get_of_not_involved`), a unit that is not processed only loses instructions, and what it loses sits in a
   processed destination (`fillDests_stay_or_moved`); the memory flag is set only by a taken candidate
   (`fillDests_flag`).
3. `wfProc` gives `DestsOK p.dests`.
4. Analysis of one fill phase (`fillCycle`) of a well-formed processor from a record satisfying `RowBase`/`RowND`:
   the relation `C07Rel` between the old record and the new one.
5. Lifting to diagrams.

All names live in the namespace `ProcSim.Adv`.
-/
namespace ProcSim
namespace Adv

attribute [local implicit_reducible] AMap

variable {N : Type} [DecidableEq N]

/-! ## 1. the fill loop on sorted candidates -/

/-- once the flag is set, no taken candidate needs memory -/
theorem fillTaken_mem_set (prog : List (Instr N)) (d : UnitM N) (cs : List (N × Nat)) (len : Nat) :
    ∀ b ∈ fillTaken prog d cs len true, capIn prog b.2 d.acl = false := by
  intro b hb
  have h := fillTaken_mem prog d cs len true
  have h1 : ((fillTaken prog d cs len true).filter (fun c => capIn prog c.2 d.acl)).length = 0 := by
    simp only [Bool.true_or, Bool.toNat_true] at h; omega
  cases hc : capIn prog b.2 d.acl with
  | false => rfl
  | true =>
    have : b ∈ (fillTaken prog d cs len true).filter (fun c => capIn prog c.2 d.acl) :=
      List.mem_filter.2 ⟨hb, hc⟩
    rw [List.length_eq_zero_iff.1 h1] at this
    cases this

/-- **Oldest first** for one destination: candidates are scanned in increasing program index; if a younger candidate
`b` was taken, every older candidate `a` was taken too, unless `a` needs the memory port, `b` does not, and the port
is busy at the end of the loop. -/
theorem fillTaken_oldest (prog : List (Instr N)) (d : UnitM N) (cs : List (N × Nat)) (len : Nat) (mem : Bool)
    (hs : cs.Pairwise (fun a b => a.2 ≤ b.2)) {a b : N × Nat} (ha : a ∈ cs)
    (hb : b ∈ fillTaken prog d cs len mem) (hlt : a.2 < b.2) :
    a ∈ fillTaken prog d cs len mem ∨
      (capIn prog a.2 d.acl = true ∧ capIn prog b.2 d.acl = false ∧
        (mem || (fillTaken prog d cs len mem).any (fun c => capIn prog c.2 d.acl)) = true) := by
  induction cs generalizing len mem with
  | nil => cases ha
  | cons c cs ih =>
    rw [List.pairwise_cons] at hs
    unfold fillTaken at hb ⊢
    by_cases h1 : len = d.width
    · rw [if_pos h1] at hb; cases hb
    · rw [if_neg h1] at hb ⊢
      by_cases h2 : (mem && capIn prog c.2 d.acl) = true
      · rw [if_pos h2] at hb ⊢
        rcases List.mem_cons.1 ha with e | e
        · subst e
          simp only [Bool.and_eq_true] at h2
          right
          obtain ⟨hm, hc⟩ := h2
          subst hm
          exact ⟨hc, fillTaken_mem_set prog d cs len b hb, by simp⟩
        · exact ih len mem hs.2 e hb
      · rw [if_neg h2] at hb ⊢
        rcases List.mem_cons.1 ha with e | e
        · subst e; exact Or.inl List.mem_cons_self
        · rcases List.mem_cons.1 hb with e' | e'
          · subst e'
            have := hs.1 a e
            omega
          · rcases ih (len + 1) (mem || capIn prog c.2 d.acl) hs.2 e e' with h | ⟨h3, h4, h5⟩
            · exact Or.inl (List.mem_cons_of_mem _ h)
            · refine Or.inr ⟨h3, h4, ?_⟩
              simp only [List.any_cons, Bool.or_eq_true] at h5 ⊢
              rcases h5 with (a1 | a1) | a1
              · exact Or.inl a1
              · exact Or.inr (Or.inl a1)
              · exact Or.inr (Or.inr a1)

/-! ## 2. `fillDests` in sink-first order -/

theorem fillDests_nil (prog : List (Instr N)) (u : Util N) (mem : Bool) : fillDests prog [] u mem = (u, mem) := rfl

theorem fillDests_cons (prog : List (Instr N)) (d : FuncU N) (ds : List (FuncU N)) (u : Util N) (mem : Bool) :
    fillDests prog (d :: ds) u mem = fillDests prog ds (fillUnit prog d u mem).1 (fillUnit prog d u mem).2 := rfl

theorem fillDests_append (prog : List (Instr N)) (a b : List (FuncU N)) (u : Util N) (mem : Bool) :
    fillDests prog (a ++ b) u mem = fillDests prog b (fillDests prog a u mem).1 (fillDests prog a u mem).2 := by
  induction a generalizing u mem with
  | nil => rfl
  | cons d a ih => simp only [List.cons_append, fillDests_cons, ih]

/-- the relation "processed earlier" must satisfy: a destination processed earlier is neither the same unit as nor a
predecessor of one processed later -/
def SinkFirst (a b : FuncU N) : Prop := a.model.name ≠ b.model.name ∧ a.model.name ∉ b.preds

/-- sink-first processing order without self loops -/
structure DestsOK (ds : List (FuncU N)) : Prop where
  pw : ds.Pairwise SinkFirst
  noself : ∀ d ∈ ds, d.model.name ∉ d.preds

omit [DecidableEq N] in
theorem DestsOK.tail {d : FuncU N} {ds : List (FuncU N)} (h : DestsOK (d :: ds)) : DestsOK ds :=
  ⟨(List.pairwise_cons.1 h.pw).2, fun d' hd' => h.noself d' (List.mem_cons_of_mem _ hd')⟩

omit [DecidableEq N] in
theorem DestsOK.left {a b : List (FuncU N)} (h : DestsOK (a ++ b)) : DestsOK a :=
  ⟨(List.pairwise_append.1 h.pw).1, fun d hd => h.noself d (List.mem_append_left _ hd)⟩

omit [DecidableEq N] in
theorem DestsOK.right {a b : List (FuncU N)} (h : DestsOK (a ++ b)) : DestsOK b :=
  ⟨(List.pairwise_append.1 h.pw).2.1, fun d hd => h.noself d (List.mem_append_right _ hd)⟩

omit [DecidableEq N] in
theorem DestsOK.cross {a b : List (FuncU N)} (h : DestsOK (a ++ b)) : ∀ x ∈ a, ∀ y ∈ b, SinkFirst x y :=
  (List.pairwise_append.1 h.pw).2.2

/-- filling destinations leaves every unit alone that is neither one of them nor one of their predecessors -/
theorem fillDests_get_of_not_involved (prog : List (Instr N)) (ds : List (FuncU N)) (u : Util N) (mem : Bool) {n : N}
    (h : ∀ d ∈ ds, d.model.name ≠ n ∧ n ∉ d.preds) : (fillDests prog ds u mem).1.get n = u.get n := by
  refine fillDests_induction prog (fun u' _ => u'.get n = u.get n) ds ?_ u mem rfl
  intro d hd u' mem' hu'
  rw [fillUnit_get_of_not_involved prog d u' mem' (h d hd).1 (h d hd).2, hu']

/-- a unit that is not among the processed destinations only loses instructions -/
theorem fillDests_get_sublist (prog : List (Instr N)) (ds : List (FuncU N)) (u : Util N) (mem : Bool) {n : N}
    (h : ∀ d ∈ ds, d.model.name ≠ n) : ((fillDests prog ds u mem).1.get n).Sublist (u.get n) := by
  refine fillDests_induction prog (fun u' _ => (u'.get n).Sublist (u.get n)) ds ?_ u mem (List.Sublist.refl _)
  intro d hd u' mem' hu'
  rw [fillUnit_get_of_ne prog d u' mem' (h d hd)]
  exact List.filter_sublist.trans hu'

/-- what a unit that is not among the processed destinations loses sits, at the end, in one of those destinations
that lists the unit as a predecessor -/
theorem fillDests_stay_or_moved (prog : List (Instr N)) (ds : List (FuncU N)) (hok : DestsOK ds) (u : Util N)
    (mem : Bool) {n : N} (h : ∀ d ∈ ds, d.model.name ≠ n) {x : HI} (hx : x ∈ u.get n) :
    x ∈ (fillDests prog ds u mem).1.get n ∨
      ∃ d ∈ ds, n ∈ d.preds ∧ x.idx ∈ ((fillDests prog ds u mem).1.get d.model.name).map (·.idx) := by
  induction ds generalizing u mem with
  | nil => exact Or.inl hx
  | cons d ds ih =>
    rw [fillDests_cons]
    have hdn : d.model.name ≠ n := h d List.mem_cons_self
    by_cases hk : x ∈ (fillUnit prog d u mem).1.get n
    · rcases ih hok.tail _ _ (fun d' hd' => h d' (List.mem_cons_of_mem _ hd')) hk with h1 | ⟨d', hd', h1, h2⟩
      · exact Or.inl h1
      · exact Or.inr ⟨d', List.mem_cons_of_mem _ hd', h1, h2⟩
    · right
      refine ⟨d, List.mem_cons_self, ?_⟩
      rw [fillUnit_get_of_ne prog d u mem hdn, List.mem_filter] at hk
      have hk' : (unitTaken prog d u mem).any (fun m => m.1 == n && m.2 == x.idx) = true := by
        cases hc : (unitTaken prog d u mem).any (fun m => m.1 == n && m.2 == x.idx) with
        | true => rfl
        | false => exact absurd ⟨hx, by simp [hc]⟩ hk
      obtain ⟨c, hc, hcn⟩ := List.any_eq_true.1 hk'
      simp only [Bool.and_eq_true, beq_iff_eq] at hcn
      have hpred : n ∈ d.preds := hcn.1 ▸ (mem_unitTaken hc).1
      refine ⟨hpred, ?_⟩
      have hfin : (fillDests prog ds (fillUnit prog d u mem).1 (fillUnit prog d u mem).2).1.get d.model.name =
          (fillUnit prog d u mem).1.get d.model.name := by
        apply fillDests_get_of_not_involved
        intro d' hd'
        have := (List.pairwise_cons.1 hok.pw).1 d' hd'
        exact ⟨fun e => this.1 e.symm, this.2⟩
      rw [hfin, fillUnit_get_self prog d u mem (hok.noself d List.mem_cons_self), List.map_append, List.mem_append]
      right
      rw [List.map_map]
      exact List.mem_map.2 ⟨c, hc, hcn.2⟩

/-- the memory flag is set only by a taken candidate that needs the port -/
theorem fillDests_flag (prog : List (Instr N)) (ds : List (FuncU N)) (u : Util N) (mem : Bool)
    (h : (fillDests prog ds u mem).2 = true) :
    mem = true ∨ ∃ pre d post, ds = pre ++ d :: post ∧
      ∃ c ∈ unitTaken prog d (fillDests prog pre u mem).1 (fillDests prog pre u mem).2,
        capIn prog c.2 d.model.acl = true := by
  induction ds generalizing u mem with
  | nil => exact Or.inl h
  | cons d ds ih =>
    rw [fillDests_cons] at h
    rcases ih _ _ h with h1 | ⟨pre, d', post, e, c, hc, hcap⟩
    · rw [fillUnit_snd, Bool.or_eq_true] at h1
      rcases h1 with h1 | h1
      · exact Or.inl h1
      · obtain ⟨c, hc, hcap⟩ := List.any_eq_true.1 h1
        exact Or.inr ⟨[], d, ds, rfl, c, hc, hcap⟩
    · exact Or.inr ⟨d :: pre, d', post, by rw [e]; rfl, c, by simpa only [fillDests_cons] using hc, hcap⟩

/-! ## 3. `wfProc` gives the sink-first order -/

open Spec

omit [DecidableEq N] in
theorem dests_names_nodup {p : Proc N} (hn : (p.allUnits.map (·.name)).Nodup) :
    (p.dests.map (·.model.name)).Nodup := by
  have e : p.allUnits.map (·.name) = (p.inPorts ++ p.inOut).map (·.name) ++ p.dests.map (·.model.name) := by
    simp [Proc.allUnits, Proc.dests, List.map_append, List.map_map, Function.comp_def]
  rw [e] at hn
  exact (List.nodup_append.1 hn).2.1

omit [DecidableEq N] in
/-- a destination is not an input-boundary port (unique names) -/
theorem dest_not_inBoundary {p : Proc N} (hn : (p.allUnits.map (·.name)).Nodup) {d : FuncU N} (hd : d ∈ p.dests) :
    d.model.name ∉ p.inBoundary.map (·.name) := by
  have e : p.allUnits.map (·.name) = (p.inPorts ++ p.inOut).map (·.name) ++ p.dests.map (·.model.name) := by
    simp [Proc.allUnits, Proc.dests, List.map_append, List.map_map, Function.comp_def]
  rw [e] at hn
  intro hmem
  have h1 : d.model.name ∈ (p.inPorts ++ p.inOut).map (·.name) := by
    simp only [Proc.inBoundary, List.map_append, List.mem_append] at hmem ⊢
    exact hmem.symm
  have h2 : d.model.name ∈ p.dests.map (·.model.name) := List.mem_map.2 ⟨d, hd, rfl⟩
  exact (List.nodup_append.1 hn).2.2 _ h1 _ h2 rfl

/-- **the stored order of a well-formed processor is sink-first** -/
theorem wfProc_destsOK {p : Proc N} (h : wfProc p = true) : DestsOK p.dests := by
  have hord := wfProc_orderOK h
  have hnd := dests_names_nodup (wfProc_nodup_names h)
  have hnd' : p.dests.Pairwise (fun a b => a.model.name ≠ b.model.name) := List.pairwise_map.1 hnd
  refine ⟨?_, wfProc_self_not_pred h⟩
  rw [List.pairwise_iff_getElem]
  intro i j hi hj hij
  have hne := (List.pairwise_iff_getElem.1 hnd') i j hi hj hij
  refine ⟨hne, fun hmem => ?_⟩
  obtain ⟨kq, hkq⟩ := destPos_isSome_of_mem (List.getElem_mem hi)
  obtain ⟨kd, hkd, hlt⟩ := (orderOK_pred hord (List.getElem_mem hj) hmem).2.2 kq hkq
  unfold destPos at hkq hkd
  rw [List.findIdx?_eq_some_iff_getElem] at hkq hkd
  obtain ⟨hkq1, _, hkq3⟩ := hkq
  obtain ⟨hkd1, hkd2, _⟩ := hkd
  have h1 : ¬ i < kq := fun hlt' => hkq3 i hlt' (by simp)
  have hkd2 : p.dests[kd].model.name = p.dests[j].model.name := by simpa using hkd2
  have h2 : kd = j := by
    rcases Nat.lt_trichotomy kd j with h' | h' | h'
    · exact absurd hkd2 ((List.pairwise_iff_getElem.1 hnd') kd j hkd1 hj h')
    · exact h'
    · exact absurd hkd2.symm ((List.pairwise_iff_getElem.1 hnd') j kd hj hkd1 h')
  omega

/-! ## 4. one fill phase of a well-formed processor -/

/-- instruction `i` is hosted by unit `n` in record `r` -/
abbrev Hosts (r : Util N) (n : N) (i : Nat) : Prop := i ∈ (r.get n).map (·.idx)

theorem eq_of_map_eq_of_nodup {α β : Type} (f : α → β) {l : List α} (h : (l.map f).Nodup) {a b : α} (ha : a ∈ l)
    (hb : b ∈ l) (e : f a = f b) : a = b := by
  induction l with
  | nil => cases ha
  | cons c l ih =>
    rw [List.map_cons, List.nodup_cons] at h
    rcases List.mem_cons.1 ha with e1 | e1 <;> rcases List.mem_cons.1 hb with e2 | e2
    · rw [e1, e2]
    · subst e1; exact absurd (e ▸ List.mem_map.2 ⟨b, e2, rfl⟩) h.1
    · subst e2; exact absurd (e ▸ List.mem_map.2 ⟨a, e1, rfl⟩ : f b ∈ l.map f) h.1
    · exact ih h.2 e1 e2

/-- the record after the moves and the issues of a cycle, as far as C07 needs it: the issue loop appends fresh
indices to input-boundary ports only, and no index is hosted twice -/
structure AfterMoves (p : Proc N) (prog : List (Instr N)) (old : Util N) (e : Nat) (F : Util N) : Prop where
  app : ∀ n, ∃ l', F.get n = (moveFlights p prog old).1.get n ++ l' ∧ ∀ x ∈ l', e ≤ x.idx
  same : ∀ n, n ∉ p.inBoundary.map (·.name) → F.get n = (moveFlights p prog old).1.get n
  nd : RowND F

/-- hypotheses on the record a cycle starts from -/
structure CycleHyp (p : Proc N) (e : Nat) (old : Util N) : Prop where
  wf : Spec.wfProc p = true
  base : RowBase p e old
  nd : RowND old

section cycle
variable {p : Proc N} {prog : List (Instr N)} {old : Util N} {e : Nat} {F : Util N}

/-- state of the move phase before the destination following `pre` is processed -/
def stBefore (p : Proc N) (prog : List (Instr N)) (old : Util N) (pre : List (FuncU N)) : Util N × Bool :=
  fillDests prog pre (flushOutputs p.outBoundary old) false

theorem moveFlights_split {pre post : List (FuncU N)} {d : FuncU N} (hs : p.dests = pre ++ d :: post) :
    moveFlights p prog old =
      fillDests prog post (fillUnit prog d (stBefore p prog old pre).1 (stBefore p prog old pre).2).1
        (fillUnit prog d (stBefore p prog old pre).1 (stBefore p prog old pre).2).2 := by
  unfold moveFlights stBefore
  rw [hs, fillDests_append, fillDests_cons]

/-- a processed destination is final for the rest of the move phase -/
theorem moveFlights_get_dest (hc : CycleHyp p e old) {pre post : List (FuncU N)} {d : FuncU N}
    (hs : p.dests = pre ++ d :: post) :
    (moveFlights p prog old).1.get d.model.name =
      (stBefore p prog old pre).1.get d.model.name ++
        (unitTaken prog d (stBefore p prog old pre).1 (stBefore p prog old pre).2).map (fun c => (⟨c.2, .U⟩ : HI)) := by
  have hok := wfProc_destsOK hc.wf
  rw [hs] at hok
  rw [moveFlights_split hs, fillDests_get_of_not_involved, fillUnit_get_self]
  · exact hok.noself d (by simp)
  · intro d' hd'
    have := (List.pairwise_cons.1 hok.right.pw).1 d' hd'
    exact ⟨fun e => this.1 e.symm, this.2⟩

/-- … and for the issue phase -/
theorem AfterMoves.get_dest (hF : AfterMoves p prog old e F) (hc : CycleHyp p e old) {pre post : List (FuncU N)}
    {d : FuncU N} (hs : p.dests = pre ++ d :: post) :
    F.get d.model.name =
      (stBefore p prog old pre).1.get d.model.name ++
        (unitTaken prog d (stBefore p prog old pre).1 (stBefore p prog old pre).2).map (fun c => (⟨c.2, .U⟩ : HI)) := by
  rw [hF.same _ (dest_not_inBoundary (wfProc_nodup_names hc.wf) (by rw [hs]; simp)), moveFlights_get_dest hc hs]

/-- before a unit is processed it only loses instructions -/
theorem stBefore_get_sublist (pre : List (FuncU N)) {n : N} (h : ∀ d ∈ pre, d.model.name ≠ n) :
    ((stBefore p prog old pre).1.get n).Sublist (old.get n) :=
  (fillDests_get_sublist prog pre _ false h).trans (flushOutputs_get_sublist _ _ _)

/-- a predecessor of the destination following `pre` has not been processed in `pre` -/
theorem pred_not_in_pre (hc : CycleHyp p e old) {pre post : List (FuncU N)} {d : FuncU N}
    (hs : p.dests = pre ++ d :: post) {n : N} (hn : n ∈ d.preds) : ∀ d' ∈ pre, d'.model.name ≠ n := by
  have hok := wfProc_destsOK hc.wf
  rw [hs] at hok
  intro d' hd' e1
  exact (hok.cross d' hd' d (by simp)).2 (e1 ▸ hn)

theorem self_not_in_pre (hc : CycleHyp p e old) {pre post : List (FuncU N)} {d : FuncU N}
    (hs : p.dests = pre ++ d :: post) : ∀ d' ∈ pre, d'.model.name ≠ d.model.name := by
  have hok := wfProc_destsOK hc.wf
  rw [hs] at hok
  intro d' hd'
  exact (hok.cross d' hd' d (by simp)).1

theorem dest_noself (hc : CycleHyp p e old) {d : FuncU N} (hd : d ∈ p.dests) : d.model.name ∉ d.preds :=
  wfProc_self_not_pred hc.wf d hd

/-- **What a taken candidate is**: it sat, not data-stalled, in a predecessor in the old record; the destination
supports it; it is in the destination (and was not) at the end of the cycle. -/
theorem taken_facts (hF : AfterMoves p prog old e F) (hc : CycleHyp p e old) {pre post : List (FuncU N)}
    {d : FuncU N} (hs : p.dests = pre ++ d :: post) {c : N × Nat}
    (hcm : c ∈ unitTaken prog d (stBefore p prog old pre).1 (stBefore p prog old pre).2) :
    c.1 ∈ d.preds ∧ (∃ x ∈ old.get c.1, x.idx = c.2 ∧ validCand prog d.model x = true) ∧
      Hosts F d.model.name c.2 ∧ ¬ Hosts old d.model.name c.2 := by
  have hd : d ∈ p.dests := by rw [hs]; simp
  obtain ⟨h1, x, hx, hv, hxi⟩ := mem_unitTaken hcm
  have hxo : x ∈ old.get c.1 := (stBefore_get_sublist pre (pred_not_in_pre hc hs h1)).subset hx
  refine ⟨h1, ⟨x, hxo, hxi, hv⟩, ?_, ?_⟩
  · show c.2 ∈ (F.get d.model.name).map (·.idx)
    rw [hF.get_dest hc hs, List.map_append, List.mem_append, List.map_map]
    exact Or.inr (List.mem_map.2 ⟨c, hcm, rfl⟩)
  · intro hold
    have : c.1 = d.model.name :=
      hc.nd.unique_host c.1 d.model.name c.2 (List.mem_map.2 ⟨x, hxo, hxi⟩) hold
    exact dest_noself hc hd (this ▸ h1)

/-- a ready instruction that is still in its unit at the end of the cycle was there when each successor was filled -/
theorem stays (hF : AfterMoves p prog old e F) (hc : CycleHyp p e old) {pre post : List (FuncU N)}
    {d : FuncU N} (hs : p.dests = pre ++ d :: post) {u : N} (hu : u ∈ d.preds) (hout : u ∉ p.outBoundary)
    {h : HI} (hh : h ∈ old.get u) (hst : Hosts F u h.idx) : h ∈ (stBefore p prog old pre).1.get u := by
  have hok := wfProc_destsOK hc.wf
  rw [hs] at hok
  have h0 : h ∈ (flushOutputs p.outBoundary old).get u := by rw [flushOutputs_get, if_neg hout]; exact hh
  rcases fillDests_stay_or_moved prog pre hok.left _ false (pred_not_in_pre hc hs hu) h0 with h1 | ⟨d', hd', h1, h2⟩
  · exact h1
  · exfalso
    have hd'mem : d' ∈ p.dests := by rw [hs]; exact List.mem_append_left _ hd'
    -- `d'` is final from here on
    obtain ⟨s1, s2, e1⟩ := List.append_of_mem hd'
    have hs' : p.dests = s1 ++ d' :: (s2 ++ d :: post) := by rw [hs, e1]; simp
    have hfin : (moveFlights p prog old).1.get d'.model.name = (stBefore p prog old pre).1.get d'.model.name := by
      rw [moveFlights_split hs, ← fillDests_cons]
      apply fillDests_get_of_not_involved
      intro d'' hd''
      have := hok.cross d' hd' d'' hd''
      exact ⟨fun e => this.1 e.symm, this.2⟩
    have hF' : Hosts F d'.model.name h.idx := by
      show h.idx ∈ (F.get d'.model.name).map (·.idx)
      rw [hF.same _ (dest_not_inBoundary (wfProc_nodup_names hc.wf) hd'mem), hfin]
      exact h2
    have : u = d'.model.name := hF.nd.unique_host u d'.model.name h.idx hst hF'
    exact dest_noself hc hd'mem (this ▸ h1)

/-- somebody other than `i` entered a unit whose ACL names its capability (Prop form of `Ctx.memTakenByOther`) -/
def MemTakenByOther (p : Proc N) (prog : List (Instr N)) (old new : Util N) (i : Nat) : Prop :=
  ∃ w ∈ p.allUnits, ∃ j, Hosts new w.name j ∧ j ≠ i ∧ ¬ Hosts old w.name j ∧ Spec.needsMem prog j w = true

/-- **the memory flag has a witness**: if the flag is set after `d` has been filled, an instruction needing the port
entered a destination processed so far; it is different from anything still sitting in a predecessor of `d` -/
theorem flag_witness (hF : AfterMoves p prog old e F) (hc : CycleHyp p e old) {pre post : List (FuncU N)}
    {d : FuncU N} (hs : p.dests = pre ++ d :: post)
    (hflag : (fillUnit prog d (stBefore p prog old pre).1 (stBefore p prog old pre).2).2 = true)
    {pn : N} (hpn : pn ∈ d.preds) {i : Nat} (hi : Hosts F pn i) : MemTakenByOther p prog old F i := by
  have hok := wfProc_destsOK hc.wf
  rw [hs] at hok
  have hfl : (fillDests prog (pre ++ [d]) (flushOutputs p.outBoundary old) false).2 = true := by
    rw [fillDests_append, fillDests_cons, fillDests_nil]; exact hflag
  rcases fillDests_flag prog _ _ _ hfl with h | ⟨pre', d'', post', e1, c, hcm, hcap⟩
  · cases h
  · have hs' : p.dests = pre' ++ d'' :: (post' ++ post) := by
      rw [hs, show pre ++ d :: post = (pre ++ [d]) ++ post by simp, e1]; simp
    obtain ⟨_, _, hin, hnold⟩ := taken_facts hF hc hs' hcm
    have hd''mem : d'' ∈ p.dests := by rw [hs']; simp
    refine ⟨d''.model, model_mem_allUnits_of_mem_dests hd''mem, c.2, hin, ?_, hnold, hcap⟩
    intro e2
    have : pn = d''.model.name := hF.nd.unique_host pn d''.model.name i hi (e2 ▸ hin)
    have hmem : d'' ∈ pre ++ [d] := by rw [e1]; simp
    rcases List.mem_append.1 hmem with h1 | h1
    · exact (hok.cross d'' h1 d (by simp)).2 (this ▸ hpn)
    · simp only [List.mem_singleton] at h1
      subst h1
      exact dest_noself hc hd''mem (this ▸ hpn)

/-- **how an instruction comes to be in a unit at the end of a cycle**: it was there after the flush, or it was
issued (fresh index, input-boundary port), or the unit is a destination and took it as a candidate -/
theorem enter_cases (hF : AfterMoves p prog old e F) (hc : CycleHyp p e old) {n : N} {i : Nat} (hi : Hosts F n i) :
    Hosts (flushOutputs p.outBoundary old) n i ∨ (e ≤ i ∧ n ∈ p.inBoundary.map (·.name)) ∨
      ∃ pre d post, p.dests = pre ++ d :: post ∧ d.model.name = n ∧
        ∃ c ∈ unitTaken prog d (stBefore p prog old pre).1 (stBefore p prog old pre).2, c.2 = i := by
  by_cases hd : ∃ d ∈ p.dests, d.model.name = n
  · obtain ⟨d, hd, rfl⟩ := hd
    obtain ⟨pre, post, hs⟩ := List.append_of_mem hd
    have hi' : i ∈ (F.get d.model.name).map (·.idx) := hi
    rw [hF.get_dest hc hs, List.map_append, List.mem_append, List.map_map] at hi'
    rcases hi' with h1 | h1
    · left
      exact ((fillDests_get_sublist prog pre _ false (self_not_in_pre hc hs)).map _).subset h1
    · right; right
      obtain ⟨c, hcm, e1⟩ := List.mem_map.1 h1
      exact ⟨pre, d, post, hs, rfl, c, hcm, e1⟩
  · have hnd : ∀ d ∈ p.dests, d.model.name ≠ n := fun d hd' e1 => hd ⟨d, hd', e1⟩
    have hsub : ((moveFlights p prog old).1.get n).Sublist ((flushOutputs p.outBoundary old).get n) :=
      fillDests_get_sublist prog p.dests _ false hnd
    by_cases hin : n ∈ p.inBoundary.map (·.name)
    · obtain ⟨l', e1, hl'⟩ := hF.app n
      have hi' : i ∈ (F.get n).map (·.idx) := hi
      rw [e1, List.map_append, List.mem_append] at hi'
      rcases hi' with h1 | h1
      · exact Or.inl ((hsub.map _).subset h1)
      · obtain ⟨x, hx, rfl⟩ := List.mem_map.1 h1
        exact Or.inr (Or.inl ⟨hl' x hx, hin⟩)
    · left
      have hi' : i ∈ (F.get n).map (·.idx) := hi
      rw [hF.same n hin] at hi'
      exact (hsub.map _).subset hi'

theorem mem_succsOf {p : Proc N} {n : N} {v : UnitM N} :
    v ∈ Spec.succsOf p n ↔ ∃ d ∈ p.dests, n ∈ d.preds ∧ d.model = v := by
  simp only [Spec.succsOf, List.mem_map, List.mem_filter, decide_eq_true_eq]
  constructor
  · rintro ⟨d, ⟨h1, h2⟩, h3⟩; exact ⟨d, h1, h2, h3⟩
  · rintro ⟨d, h1, h2, h3⟩; exact ⟨d, ⟨h1, h2⟩, h3⟩

/-- `predsOf` of a unit with predecessors: the unit is (the model of) a destination -/
theorem mem_predsOf {p : Proc N} {n pn : N} (h : pn ∈ Spec.predsOf p n) :
    ∃ d ∈ p.dests, d.model.name = n ∧ pn ∈ d.preds := by
  unfold Spec.predsOf at h
  split at h
  · next d hd =>
    exact ⟨d, List.mem_of_find?_eq_some hd, by simpa using List.find?_some hd, h⟩
  · cases h

theorem predsOf_of_mem {p : Proc N} (hn : (p.allUnits.map (·.name)).Nodup) {d : FuncU N} (hd : d ∈ p.dests) :
    Spec.predsOf p d.model.name = d.preds := by
  unfold Spec.predsOf
  cases hf : p.dests.find? (fun d' => d'.model.name = d.model.name) with
  | none =>
    have := List.find?_eq_none.1 hf d hd
    simp at this
  | some d' =>
    have h1 : d' ∈ p.dests := List.mem_of_find?_eq_some hf
    have h2 : d'.model.name = d.model.name := by simpa using List.find?_some hf
    rw [eq_of_map_eq_of_nodup (fun x : FuncU N => x.model.name) (dests_names_nodup hn) h1 hd h2]

/-- the candidate of a ready instruction still in a predecessor -/
theorem ready_is_candidate (hF : AfterMoves p prog old e F) (hc : CycleHyp p e old) {pre post : List (FuncU N)}
    {d : FuncU N} (hs : p.dests = pre ++ d :: post) {u : N} (hu : u ∈ d.preds) (hout : u ∉ p.outBoundary)
    {h : HI} (hh : h ∈ old.get u) (hnd : h.st ≠ .D) (hsup : Spec.supports prog h.idx d.model = true)
    (hst : Hosts F u h.idx) : (u, h.idx) ∈ candidates prog d (stBefore p prog old pre).1 := by
  refine mem_candidates.2 ⟨hu, h, stays hF hc hs hu hout hh hst, ?_, rfl⟩
  unfold validCand
  rw [Bool.and_eq_true]
  exact ⟨by simpa using hnd, hsup⟩

/-- a ready instruction still in a predecessor of `d` was not taken by `d` -/
theorem not_taken_of_stays (hF : AfterMoves p prog old e F) (hc : CycleHyp p e old) {pre post : List (FuncU N)}
    {d : FuncU N} (hs : p.dests = pre ++ d :: post) {u : N} (hu : u ∈ d.preds) {i : Nat} (hst : Hosts F u i) :
    (u, i) ∉ unitTaken prog d (stBefore p prog old pre).1 (stBefore p prog old pre).2 := by
  intro hcm
  obtain ⟨_, _, hin, _⟩ := taken_facts hF hc hs hcm
  have : u = d.model.name := hF.nd.unique_host u d.model.name i hst hin
  exact dest_noself hc (by rw [hs]; simp) (this ▸ hu)

/-- **(a) no bubble** for one cycle -/
theorem noBubble_cycle (hF : AfterMoves p prog old e F) (hc : CycleHyp p e old) {u : N} (hout : u ∉ p.outBoundary)
    {h : HI} (hh : h ∈ old.get u) (hnd : h.st ≠ .D) (hst : Hosts F u h.idx) {v : UnitM N}
    (hv : v ∈ Spec.succsOf p u) (hsup : Spec.supports prog h.idx v = true) :
    v.width ≤ (F.get v.name).length ∨
      (Spec.needsMem prog h.idx v = true ∧ MemTakenByOther p prog old F h.idx) := by
  obtain ⟨d, hd, hu, rfl⟩ := mem_succsOf.1 hv
  obtain ⟨pre, post, hs⟩ := List.append_of_mem hd
  have hcand := ready_is_candidate hF hc hs hu hout hh hnd hsup hst
  have hnt := not_taken_of_stays (prog := prog) hF hc hs hu hst
  rcases fillTaken_stop prog d.model (candidates prog d (stBefore p prog old pre).1)
    ((stBefore p prog old pre).1.get d.model.name).length (stBefore p prog old pre).2 with hfull | hall
  · left
    rw [hF.get_dest hc hs, List.length_append, List.length_map]
    unfold unitTaken
    omega
  · right
    rcases hall _ hcand with h1 | ⟨h1, h2⟩
    · exact absurd h1 hnt
    · refine ⟨h1, flag_witness hF hc hs ?_ hu hst⟩
      rw [fillUnit_snd]; exact h2

/-- **(b) outputs flush** for one cycle -/
theorem flush_cycle (hF : AfterMoves p prog old e F) (hc : CycleHyp p e old) {u : N} (hout : u ∈ p.outBoundary)
    {h : HI} (hh : h ∈ old.get u) (hnd : h.st ≠ .D) : ¬ Hosts F u h.idx := by
  intro hst
  rcases enter_cases hF hc hst with h1 | ⟨h1, _⟩ | ⟨pre, d, post, hs, hdn, c, hcm, hci⟩
  · have h1' : h.idx ∈ ((flushOutputs p.outBoundary old).get u).map (·.idx) := h1
    rw [flushOutputs_get, if_pos hout] at h1'
    obtain ⟨x, hx, hxi⟩ := List.mem_map.1 h1'
    obtain ⟨hx1, hx2⟩ := List.mem_filter.1 hx
    have : x = h := eq_of_map_eq_of_nodup (fun y : HI => y.idx) (hc.nd.nodup_unit u) hx1 hh hxi
    subst this
    exact hnd (by simpa using hx2)
  · have := hc.base.idx_lt u h hh
    omega
  · obtain ⟨_, _, _, hnold⟩ := taken_facts hF hc hs hcm
    apply hnold
    rw [hdn, hci]
    exact List.mem_map.2 ⟨h, hh, rfl⟩

/-- **(c) oldest first** for one cycle -/
theorem oldest_cycle (hF : AfterMoves p prog old e F) (hc : CycleHyp p e old) {dU : UnitM N} (hdU : dU ∈ p.allUnits)
    {y : Nat} (hy : Hosts F dU.name y) (hyold : ¬ Hosts old dU.name y) {pn : N} (hpn : pn ∈ Spec.predsOf p dU.name)
    {x : HI} (hx : x ∈ old.get pn) (hlt : x.idx < y) (hnd : x.st ≠ .D)
    (hsup : Spec.supports prog x.idx dU = true) (hst : Hosts F pn x.idx) :
    Spec.needsMem prog x.idx dU = true ∧ Spec.needsMem prog y dU = false ∧ MemTakenByOther p prog old F x.idx := by
  have hn := wfProc_nodup_names hc.wf
  obtain ⟨d, hd, hdn, hpn'⟩ := mem_predsOf hpn
  have hdm : d.model = dU := unit_eq_of_name_eq hn (model_mem_allUnits_of_mem_dests hd) hdU hdn
  subst hdm
  have hout : pn ∉ p.outBoundary := (orderOK_pred (wfProc_orderOK hc.wf) hd hpn').2.1
  rcases enter_cases hF hc hy with h1 | ⟨_, h1⟩ | ⟨pre, d', post, hs, hdn', c, hcm, hci⟩
  · exact absurd (((flushOutputs_get_sublist _ _ _).map _).subset h1) hyold
  · exact absurd h1 (dest_not_inBoundary hn hd)
  · have hd' : d' ∈ p.dests := by rw [hs]; simp
    have : d' = d := eq_of_map_eq_of_nodup (fun x : FuncU N => x.model.name) (dests_names_nodup hn) hd' hd hdn'
    subst this
    have hcand := ready_is_candidate hF hc hs hpn' hout hx hnd hsup hst
    have hnt := not_taken_of_stays (prog := prog) hF hc hs hpn' hst
    subst hci
    rcases fillTaken_oldest prog d'.model _ _ _ (candidates_sorted prog d' _) hcand hcm hlt with h1 | ⟨h1, h2, h3⟩
    · exact absurd h1 hnt
    · refine ⟨h1, h2, flag_witness hF hc hs ?_ hpn' hst⟩
      rw [fillUnit_snd]; exact h3

end cycle

/-! ### the relation between consecutive records -/

/-- The three statements of C07 between a record and the next one. -/
structure C07Rel (p : Proc N) (prog : List (Instr N)) (old new : Util N) : Prop where
  /-- no bubble -/
  noBubble : ∀ u ∈ p.allUnits, u.name ∉ p.outBoundary → ∀ h ∈ old.get u.name, h.st ≠ .D → Hosts new u.name h.idx →
    ∀ v ∈ Spec.succsOf p u.name, Spec.supports prog h.idx v = true →
      v.width ≤ (new.get v.name).length ∨
        (Spec.needsMem prog h.idx v = true ∧ MemTakenByOther p prog old new h.idx)
  /-- outputs flush -/
  flush : ∀ u ∈ p.allUnits, u.name ∈ p.outBoundary → ∀ h ∈ old.get u.name, h.st ≠ .D → ¬ Hosts new u.name h.idx
  /-- oldest first -/
  oldest : ∀ d ∈ p.allUnits, ∀ y, Hosts new d.name y → ¬ Hosts old d.name y →
    ∀ pn ∈ Spec.predsOf p d.name, ∀ x ∈ old.get pn, x.idx < y → x.st ≠ .D → Spec.supports prog x.idx d = true →
      Hosts new pn x.idx →
      Spec.needsMem prog x.idx d = true ∧ Spec.needsMem prog y d = false ∧ MemTakenByOther p prog old new x.idx

theorem MemTakenByOther.congr {p : Proc N} {prog : List (Instr N)} {old new new' : Util N}
    (hs : ∀ n, (new'.get n).map (·.idx) = (new.get n).map (·.idx)) {i : Nat}
    (h : MemTakenByOther p prog old new i) : MemTakenByOther p prog old new' i := by
  obtain ⟨w, hw, j, h1, h2, h3, h4⟩ := h
  exact ⟨w, hw, j, by show j ∈ _; rw [hs]; exact h1, h2, h3, h4⟩

/-- the relation only looks at the hosted indices of the new record -/
theorem C07Rel.congr {p : Proc N} {prog : List (Instr N)} {old new new' : Util N}
    (hs : ∀ n, (new'.get n).map (·.idx) = (new.get n).map (·.idx)) (h : C07Rel p prog old new) :
    C07Rel p prog old new' := by
  have hH : ∀ n i, Hosts new' n i → Hosts new n i := fun n i hi => by
    show i ∈ _; rw [← hs]; exact hi
  have hlen : ∀ n, (new'.get n).length = (new.get n).length := fun n => by
    have := congrArg List.length (hs n); simpa using this
  refine ⟨?_, ?_, ?_⟩
  · intro u hu hout x hx hnd hst v hv hsup
    rcases h.noBubble u hu hout x hx hnd (hH _ _ hst) v hv hsup with h1 | ⟨h1, h2⟩
    · left; rw [hlen]; exact h1
    · exact Or.inr ⟨h1, h2.congr hs⟩
  · intro u hu hout x hx hnd hst
    exact h.flush u hu hout x hx hnd (hH _ _ hst)
  · intro d hd y hy hyold pn hpn x hx hlt hnd hsup hst
    obtain ⟨h1, h2, h3⟩ := h.oldest d hd y (hH _ _ hy) hyold pn hpn x hx hlt hnd hsup (hH _ _ hst)
    exact ⟨h1, h2, h3.congr hs⟩

theorem C07Rel.of_cycle {p : Proc N} {prog : List (Instr N)} {old : Util N} {e : Nat} {F : Util N}
    (hF : AfterMoves p prog old e F) (hc : CycleHyp p e old) : C07Rel p prog old F :=
  ⟨fun _ _ hout _ hh hnd hst _ hv hsup => noBubble_cycle hF hc hout hh hnd hst hv hsup,
   fun _ _ hout _ hh hnd => flush_cycle hF hc hout hh hnd,
   fun _ hd _ hy hyold _ hpn _ hx hlt hnd hsup hst => oldest_cycle hF hc hd hy hyold hpn hx hlt hnd hsup hst⟩

/-! ## 5. cycles and diagrams -/

variable [LT N] [DecidableRel (α := N) (· < ·)]

/-- the record produced by the fill phase of a cycle -/
theorem afterMoves_fillCycle {p : Proc N} {prog : List (Instr N)} {old : Util N} {e : Nat} (hc : CycleHyp p e old) :
    AfterMoves p prog old e (fillCycle p prog old e).1 := by
  refine ⟨?_, ?_, ?_⟩
  · intro n
    obtain ⟨l', h1, h2⟩ := issueLoop_get_prefix (sortedInputs p) (prog.drop e) (moveFlights p prog old).1
      (moveFlights p prog old).2 e n
    exact ⟨l', h1, fun x hx => (h2 x hx).2.1⟩
  · intro n hn
    apply issueLoop_get_of_not_port
    intro hmem
    obtain ⟨m, hm, e1⟩ := List.mem_map.1 hmem
    exact hn (List.mem_map.2 ⟨m, mem_sortedInputs.1 hm, e1⟩)
  · exact hc.nd.after_fillCycle hc.base (wfProc_nodup_names hc.wf) (wfProc_preds_nodup hc.wf)
      (wfProc_self_not_pred hc.wf) prog

/-- every successful cycle of a well-formed processor relates the previous record to the new one by `C07Rel` -/
theorem runCycle_C07Rel {p : Proc N} {prog : List (Instr N)} (hwf : Spec.wfProc p = true) {s s' : SimState N}
    (hinv : CoreInv p prog s) (hs : runCycle p prog s = .ok (some s')) : C07Rel p prog s.util s'.util := by
  obtain ⟨lab, qs, hlab, _, _, rfl⟩ := runCycle_eq_some hs
  have hc : CycleHyp p s.entered s.util := ⟨hwf, hinv.row, hinv.nd⟩
  exact (C07Rel.of_cycle (afterMoves_fillCycle hc) hc).congr (labelAll_get_idx hlab)

/-- in every diagram of a well-formed processor, consecutive rows are related by `C07Rel` (the row before the first
is the empty record) -/
theorem Diagram_C07Rel {p : Proc N} {prog : List (Instr N)} (hwf : Spec.wfProc p = true) {tbl : List (Util N)}
    {stalled : Bool} (h : Spec.Diagram p prog tbl stalled) :
    ∀ t, t < tbl.length → C07Rel p prog (prevRow tbl t) (tbl.getD t ([] : List (N × List HI))) :=
  simulate_adjacent (CoreInv p prog) (CoreInv.init p prog) (fun _ _ hs hr => hs.step_wf hwf hr)
    (fun _ hs => hs.util_eq) (C07Rel p prog) (fun _ _ hs hr => runCycle_C07Rel hwf hs hr) tbl stalled h

end Adv
end ProcSim
