import ProcSim.Lemmas.Routes
/-!
# The structural part of `wfProc`

`structOK p` = the conjuncts of `Spec.wfProc` that concern the *shape* of the processor only: unit names are unique,
the stored order is sink-first with existing, non-output predecessors (`orderOK`), and no unit lists a predecessor
twice. It omits "every unit has a capability" and the lock-placement condition on routes. The route properties (C03)
— and C04, C05 — need nothing more; every processor produced by the loader satisfies it (`Props/C16b.lean`).

This file re-derives the lifting of `CoreInv` / `RouteInv` to diagrams from `structOK` (same proofs as in
`Lemmas/SimCore.lean` / `Lemmas/Routes.lean`, which take `wfProc` only to extract these facts).
-/
namespace ProcSim
open Spec
open Routes

attribute [local implicit_reducible] AMap

variable {N : Type} [DecidableEq N]

/-- structural well-formedness: unique unit names, sink-first order with existing non-output predecessors, no
repeated predecessor -/
def structOK (p : Proc N) : Bool :=
  decide (p.allUnits.map (·.name)).Nodup && orderOK p && p.dests.all (fun d => decide d.preds.Nodup)

theorem structOK_of_wfProc {p : Proc N} (h : wfProc p = true) : structOK p = true := by
  have h1 := wfProc_nodup_names h
  have h2 := wfProc_orderOK h
  have h3 := wfProc_preds_nodup h
  simp only [structOK, Bool.and_eq_true, decide_eq_true_eq, List.all_eq_true]
  exact ⟨⟨h1, h2⟩, h3⟩

theorem structOK_nodup_names {p : Proc N} (h : structOK p = true) : (p.allUnits.map (·.name)).Nodup := by
  simp only [structOK, Bool.and_eq_true, decide_eq_true_eq] at h
  exact h.1.1

theorem structOK_orderOK {p : Proc N} (h : structOK p = true) : orderOK p = true := by
  simp only [structOK, Bool.and_eq_true] at h
  exact h.1.2

theorem structOK_preds_nodup {p : Proc N} (h : structOK p = true) : ∀ d ∈ p.dests, d.preds.Nodup := by
  simp only [structOK, Bool.and_eq_true, List.all_eq_true, decide_eq_true_eq] at h
  exact h.2

theorem structOK_self_not_pred {p : Proc N} (h : structOK p = true) : ∀ d ∈ p.dests, d.model.name ∉ d.preds :=
  fun _ hd => orderOK_self_not_pred (structOK_orderOK h) hd

/-- the conjuncts of `wfProc` that `structOK` omits -/
theorem wfProc_iff_structOK_and (p : Proc N) :
    wfProc p = true ↔ structOK p = true ∧ p.allUnits.all (fun u => !u.caps.isEmpty) = true ∧
      (allCaps p).all (fun c =>
        (p.inBoundary.filter (fun u => decide (c ∈ u.caps))).all (fun s =>
          (routesFrom p c p.allUnits.length s).all routeLocksOK)) = true := by
  simp only [wfProc, structOK, Bool.and_eq_true]
  constructor
  · rintro ⟨⟨⟨⟨a, b⟩, c⟩, d⟩, e⟩; exact ⟨⟨⟨a, c⟩, e⟩, b, d⟩
  · rintro ⟨⟨⟨a, c⟩, e⟩, b, d⟩; exact ⟨⟨⟨⟨a, b⟩, c⟩, d⟩, e⟩

/-! ## `orderOK` from a sink-first listing -/

/-- `orderOK` from its intended reading: every predecessor is a unit that is not at the output boundary, no
destination is its own predecessor, and no destination is a predecessor of one listed after it (the destinations are
listed sink-first). -/
theorem orderOK_of_sinkFirst {p : Proc N} (hn : (p.allUnits.map (·.name)).Nodup)
    (hpred : ∀ d ∈ p.dests, ∀ q ∈ d.preds, q ∈ p.allUnits.map (·.name) ∧ q ∉ p.outBoundary)
    (hpw : p.dests.Pairwise (fun a b => a.model.name ∉ b.preds))
    (hself : ∀ d ∈ p.dests, d.model.name ∉ d.preds) : orderOK p = true := by
  simp only [orderOK, List.all_eq_true, Bool.and_eq_true, decide_eq_true_eq, isOutB, Bool.not_eq_true',
    decide_eq_false_iff_not]
  intro d hd q hq
  refine ⟨hpred d hd q hq, ?_⟩
  obtain ⟨pre, post, hsplit⟩ := List.append_of_mem hd
  rw [destPos_of_split hn hsplit]
  cases hkq : destPos p q with
  | none => rfl
  | some kq =>
    simp only [decide_eq_true_eq]
    -- the destination named `q`
    have hex : ∃ fq ∈ p.dests, fq.model.name = q := by
      unfold destPos at hkq
      obtain ⟨hlt, hp, _⟩ := List.findIdx?_eq_some_iff_getElem.1 hkq
      exact ⟨p.dests[kq], List.getElem_mem _, by simpa using hp⟩
    obtain ⟨fq, hfq, hfqn⟩ := hex
    rw [hsplit] at hpw
    obtain ⟨_, hdpost, hcross⟩ := List.pairwise_append.1 hpw
    have hnotpre : fq ∉ pre := by
      intro hm
      exact hcross fq hm d List.mem_cons_self (hfqn ▸ hq)
    have hned : fq ≠ d := by
      intro e; subst e
      exact hself fq hd (hfqn ▸ hq)
    have hpost : fq ∈ post := by
      rw [hsplit, List.mem_append, List.mem_cons] at hfq
      rcases hfq with h | h | h
      · exact absurd h hnotpre
      · exact absurd h hned
      · exact h
    obtain ⟨post1, post2, hs2⟩ := List.append_of_mem hpost
    have hsplit' : p.dests = (pre ++ d :: post1) ++ fq :: post2 := by rw [hsplit, hs2]; simp
    have := destPos_of_split hn hsplit'
    rw [hfqn, hkq] at this
    cases this
    simp only [List.length_append, List.length_cons]
    omega

variable [LT N] [DecidableRel (α := N) (· < ·)]

/-! ## the invariants from `structOK` -/

theorem CoreInv.step_struct {p : Proc N} {prog : List (Instr N)} (hs : structOK p = true)
    {s s' : SimState N} (h : CoreInv p prog s) (hr : runCycle p prog s = .ok (some s')) : CoreInv p prog s' :=
  h.step (structOK_nodup_names hs) (structOK_preds_nodup hs) (structOK_self_not_pred hs) hr

theorem Diagram_CoreInv_struct {p : Proc N} {prog : List (Instr N)} (hs : structOK p = true)
    {tbl : List (Util N)} {stalled : Bool} (h : Diagram p prog tbl stalled) :
    ∃ s, CoreInv p prog s ∧ tbl = s.table.reverse ∧ (stalled = true → runCycle p prog s = .ok none) ∧
      (stalled = false → s.finished prog = true) :=
  simulate_induction (CoreInv p prog) (CoreInv.init p prog) (fun _ _ hi hr => hi.step_struct hs hr) tbl stalled h

theorem Diagram_rowND_struct {p : Proc N} {prog : List (Instr N)} (hs : structOK p = true)
    {tbl : List (Util N)} {stalled : Bool} (h : Diagram p prog tbl stalled) :
    ∀ t, RowND (tbl.getD t ([] : List (N × List HI))) := by
  obtain ⟨s, hi, rfl, _⟩ := Diagram_CoreInv_struct hs h
  intro t
  rcases getD_mem_or_nil s.table.reverse t with e | e
  · rw [e]; exact RowND.nil
  · exact hi.nds _ (List.mem_reverse.1 e)

/-- `runCycle` satisfies the two-row relation, from `structOK` -/
theorem runCycle_step_struct {p : Proc N} {prog : List (Instr N)} (hs : structOK p = true) {s s' : SimState N}
    (h : CoreInv p prog s) (hr : runCycle p prog s = .ok (some s')) :
    Step p prog s.entered s.util s'.util s'.entered := by
  obtain ⟨lab, qs, hlab, _, _, rfl⟩ := runCycle_eq_some hr
  exact Step.of_labelAll (fillCycle_issueInv prog s.util s.entered (structOK_nodup_names hs) (structOK_orderOK hs))
    h.row h.nd (structOK_self_not_pred hs) hlab

theorem RouteInv.step_struct {p : Proc N} {prog : List (Instr N)} (hs : structOK p = true) {s s' : SimState N}
    (h : RouteInv p prog s) (hr : runCycle p prog s = .ok (some s')) : RouteInv p prog s' := by
  have hc := h.toCoreInv.step_struct hs hr
  have hst := runCycle_step_struct hs h.toCoreInv hr
  have hg := gone_step (structOK_nodup_names hs) (structOK_orderOK hs) hst h.row h.nd hc.row
  have hex := h.exit
  obtain ⟨lab, qs, hlab, _, _, rfl⟩ := runCycle_eq_some hr
  refine ⟨hc, ⟨s.entered, ?_, h.chain⟩, ?_⟩
  · rw [← h.util_eq]
    exact ⟨hst, h.row, h.nd, hc.row, hc.nd⟩
  · simp only at hg ⊢
    omega

theorem Diagram_RouteInv_struct {p : Proc N} {prog : List (Instr N)} (hs : structOK p = true)
    {tbl : List (Util N)} {stalled : Bool} (h : Diagram p prog tbl stalled) :
    ∃ s, RouteInv p prog s ∧ tbl = s.table.reverse ∧ (stalled = true → runCycle p prog s = .ok none) ∧
      (stalled = false → s.finished prog = true) :=
  simulate_induction (RouteInv p prog) (RouteInv.init p prog) (fun _ _ hi hr => hi.step_struct hs hr) tbl stalled h

/-- every diagram of a structurally well-formed processor is routed -/
theorem Diagram_routed_struct {p : Proc N} {prog : List (Instr N)} (hs : structOK p = true)
    {tbl : List (Util N)} {stalled : Bool} (h : Diagram p prog tbl stalled) :
    ∃ E : Nat → Nat, Routed (ctx p prog tbl stalled) E := by
  obtain ⟨s, hi, rfl, _, hfin⟩ := Diagram_RouteInv_struct hs h
  obtain ⟨E, h0, hlast, hall⟩ := hi.chain.toFun
  refine ⟨E, structOK_nodup_names hs, structOK_orderOK hs, h0, ?_, ?_, ?_⟩
  · show E s.table.reverse.length ≤ prog.length
    rw [List.length_reverse, hlast]; exact hi.entered_le
  · intro t ht
    exact hall t (by simpa [Ctx.T, ctx] using ht)
  · intro hst
    have hf := hfin hst
    simp only [SimState.finished, Bool.not_eq_true', Bool.or_eq_false_iff, decide_eq_false_iff_not,
      Nat.not_lt] at hf
    have hle := hi.entered_le
    refine ⟨?_, ?_⟩
    · show E s.table.reverse.length = prog.length
      rw [List.length_reverse, hlast]; omega
    · show ∀ n x, x ∈ (s.table.reverse.getD (s.table.reverse.length - 1) ([] : List (N × List HI))).get n →
        n ∈ p.outBoundary ∧ x.st = .U
      rw [List.length_reverse, ← head?_getD_eq_reverse_getD, ← hi.util_eq]
      exact all_retiring_of_le (structOK_nodup_names hs) hi.row hi.nd (by have := hi.exit; omega)

/-- `visited_walk` from `structOK` -/
theorem visited_walk_struct {p : Proc N} {prog : List (Instr N)} (hs : structOK p = true) {tbl : List (Util N)}
    {stalled : Bool} (h : Diagram p prog tbl stalled) (i t : Nat) :
    (∀ u ∈ (ctx p prog tbl stalled).visited i t, u ∈ p.allUnits ∧ capIn prog i u.caps = true) ∧
    (∀ u, ((ctx p prog tbl stalled).visited i t).head? = some u → u ∈ p.inBoundary) ∧
    Adjacent (fun a b : UnitM N => a = b ∨ a.name ∈ predsOf p b.name) ((ctx p prog tbl stalled).visited i t) := by
  obtain ⟨E, hE⟩ := Diagram_routed_struct hs h
  exact hE.visited_walk i t

end ProcSim
