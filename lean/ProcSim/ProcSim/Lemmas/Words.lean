import ProcSim.Spec.Text
import Batteries.Data.String.Lemmas
/-!
# `String.splitOn " "` and `Spec.Text.words` in terms of `List Char`

`String.splitOn` walks raw byte positions; Batteries proves the list reading of `String.splitToList` only
("TODO: splitOn"). `splitOn_space` is the analogous statement for the separator `" "`, proved the same way.
Consequence used by C15 (and usable for C14): a message ending in `" " ++ toString n` has the word `toString n`.
-/
set_option linter.deprecated false

namespace String

private theorem sp_get : Pos.Raw.get " " 0 = ' ' := by decide
private theorem sp_next : Pos.Raw.next " " 0 = ⟨1⟩ := by decide
private theorem sp_end : " ".rawEndPos = ⟨1⟩ := by decide

theorem splitOnAux_space_of_valid (l m r : List Char) (acc : List String) :
    splitOnAux (ofList (l ++ m ++ r)) " " ⟨utf8Len l⟩ ⟨utf8Len l + utf8Len m⟩ 0 acc =
      acc.reverse ++ (List.splitOnPPrepend (· == ' ') r m.reverse).map ofList := by
  unfold splitOnAux
  simp only [List.append_assoc, atEnd_iff, rawEndPos_ofList, utf8Len_append, Pos.Raw.mk_le_mk,
    Nat.add_le_add_iff_left, (by omega : utf8Len m + utf8Len r ≤ utf8Len m ↔ utf8Len r = 0),
    utf8Len_eq_zero, List.reverse_cons]
  split
  · subst r
    simpa using extract_of_valid l m []
  · obtain ⟨c, r, rfl⟩ := r.exists_cons_of_ne_nil ‹_›
    have h1 := get_of_valid (l ++ m) (c :: r)
    have h2 := next_of_valid (l ++ m) c r
    have h3 := extract_of_valid l m (c :: r)
    simp [-ofList_append] at h1 h2 h3
    have h0 : ({ byteIdx := utf8Len l + utf8Len m } : Pos.Raw).unoffsetBy 0 =
        { byteIdx := utf8Len l + utf8Len m } := by
      simp [Pos.Raw.unoffsetBy]
    rw [h1, h2, sp_get, sp_next, sp_end, h0, h2]
    simp only [Pos.Raw.mk_le_mk, Nat.le_refl, if_true]
    split <;> rename_i h
    · have hc : c = ' ' := by simpa using h
      subst hc
      have h4 : ({ byteIdx := utf8Len l + utf8Len m + ' '.utf8Size } : Pos.Raw).unoffsetBy ⟨1⟩ =
          { byteIdx := utf8Len l + utf8Len m } := by
        have : ' '.utf8Size = 1 := by decide
        simp [Pos.Raw.unoffsetBy, this]
      rw [h4, h3]
      simpa [Nat.add_assoc, List.splitOnPPrepend_cons_eq_if] using
        splitOnAux_space_of_valid (l ++ m ++ [' ']) [] r ((ofList m) :: acc)
    · have hc : (c == ' ') = false := by simpa using h
      simpa [List.splitOnPPrepend_cons_eq_if, hc, Nat.add_assoc] using
        splitOnAux_space_of_valid l (m ++ [c]) r acc
termination_by r.length

/-- `s.splitOn " "` splits the character list at every blank -/
theorem splitOn_space (s : String) :
    s.splitOn " " = (List.splitOnP (· == ' ') s.toList).map ofList := by
  have := splitOnAux_space_of_valid [] [] s.toList []
  simpa [splitOn] using this

end String

namespace ProcSim
namespace WordsLemmas
open Spec.Text

theorem splitOnPPrepend_none {α : Type} (p : α → Bool) (t acc : List α) (h : ∀ x ∈ t, p x = false) :
    List.splitOnPPrepend p t acc = [acc.reverse ++ t] := by
  induction t generalizing acc with
  | nil => simp
  | cons x t ih =>
    have hx : p x = false := h x (by simp)
    rw [List.splitOnPPrepend_cons_eq_if]
    simp only [hx, Bool.false_eq_true, if_false]
    rw [ih _ (fun y hy => h y (by simp [hy]))]
    simp

theorem mem_splitOnPPrepend_last {α : Type} (p : α → Bool) (a : List α) (sep : α) (t acc : List α)
    (hs : p sep = true) (h : ∀ x ∈ t, p x = false) :
    t ∈ List.splitOnPPrepend p (a ++ sep :: t) acc := by
  induction a generalizing acc with
  | nil =>
    rw [List.nil_append, List.splitOnPPrepend_cons_eq_if]
    simp only [hs, if_true]
    rw [List.splitOnP_eq_splitOnPPrepend, splitOnPPrepend_none p t [] h]
    simp
  | cons x a ih =>
    rw [List.cons_append, List.splitOnPPrepend_cons_eq_if]
    split
    · exact List.mem_cons_of_mem _ (ih [])
    · exact ih _

/-- a text ending in a blank followed by a non-empty blank-free `t` has the word `t` -/
theorem words_contains_of_suffix (s t : String) (a : List Char)
    (hs : s.toList = a ++ ' ' :: t.toList) (ht : ∀ c ∈ t.toList, c ≠ ' ') (hne : t ≠ "") :
    (words s).contains t = true := by
  have hmem : t.toList ∈ List.splitOnP (· == ' ') s.toList := by
    rw [hs, List.splitOnP_eq_splitOnPPrepend]
    exact mem_splitOnPPrepend_last _ a ' ' t.toList [] (by simp) (fun c hc => by simpa using ht c hc)
  rw [List.contains_iff_mem]
  unfold words
  rw [List.mem_filter]
  refine ⟨?_, by simpa using hne⟩
  rw [String.splitOn_space, List.mem_map]
  exact ⟨t.toList, hmem, by simp⟩

theorem toString_nat_no_blank (n : Nat) : ∀ c ∈ (toString n).toList, c ≠ ' ' := by
  intro c hc
  have hc' : c ∈ Nat.toDigits 10 n := by
    simpa [Nat.toString_eq_ofList_toDigits] using hc
  have := Nat.isDigit_of_mem_toDigits (by decide) (by decide) hc'
  intro h; subst h; exact absurd this (by decide)

theorem toString_nat_ne_empty (n : Nat) : toString n ≠ "" := by
  show Nat.repr n ≠ ""
  exact Nat.repr_ne_empty

/-- a message `pre ++ " " ++ toString n` has the word `toString n` -/
theorem words_contains_nat (pre : String) (n : Nat) :
    (words (pre ++ " " ++ toString n)).contains (toString n) = true :=
  words_contains_of_suffix _ _ pre.toList (by simp) (toString_nat_no_blank n) (toString_nat_ne_empty n)

end WordsLemmas
end ProcSim
