import ProcSim.Lemmas.SimCore
import ProcSim.Lemmas.RoutesCore
import ProcSim.Props.C19
/-!
# Register hazards: the access plan, the queue invariant and what it implies (C01, C02)

1. `reqsOf prog r` — the requests the access plan registers for register `r`, in program order;
   `buildPlan_get : (buildPlan prog).get r = Queue.build (reqsOf prog r)`, `programOrder_reqsOf`.
2. request-level facts about sorted pending lists (`canServe_sorted_iff`, `runSpec_batch`).
3. `PlanInv` — every queue stands for the requests not yet granted in a recorded row; initial state and
   preservation by `runCycle`.
4. per-row lifting principle `simulate_rows`.

Core Lean only (no Mathlib import).
-/
namespace ProcSim
open Spec QueueLemmas

attribute [local implicit_reducible] AMap

variable {N : Type} [DecidableEq N]

namespace Hazards

/-! ## 1. The access plan -/

/-- the requests instruction `i` registers on register `r`: its read (if `r` is a source), then its write (if `r` is
the destination) -/
def reqsOfInstr (r : N) (i : Nat) (ins : Instr N) : List Req :=
  (if r ∈ ins.srcs then [(false, i)] else []) ++ (if ins.dst = r then [(true, i)] else [])

def reqsFrom (r : N) : Nat → List (Instr N) → List Req
  | _, [] => []
  | i, ins :: rest => reqsOfInstr r i ins ++ reqsFrom r (i + 1) rest

/-- all requests on register `r`, in registration (= program) order -/
def reqsOf (prog : List (Instr N)) (r : N) : List Req := reqsFrom r 0 prog

/-- the sources of every instruction are pairwise distinct (guaranteed by the `HwInstruction` constructor, which
stores the sorted, de-duplicated tuple of sources) -/
def ProgOK (prog : List (Instr N)) : Prop := ∀ ins ∈ prog, ins.srcs.Nodup

/-- Bool version of `ProgOK` for the driver -/
def progOK (prog : List (Instr N)) : Bool := prog.all (fun ins => decide ins.srcs.Nodup)

theorem progOK_iff (prog : List (Instr N)) : progOK prog = true ↔ ProgOK prog := by
  simp [progOK, ProgOK]

theorem push_cons_ne_nil (g : Group) (X : Queue) (hX : X ≠ []) (wr : Bool) (o : Nat) :
    Queue.push (g :: X) wr o = g :: Queue.push X wr o := by
  cases X with
  | nil => exact absurd rfl hX
  | cons g' rest => rfl

theorem push_ne_nil (q : Queue) (wr : Bool) (o : Nat) : Queue.push q wr o ≠ [] := by
  match q with
  | [] => simp
  | [g] => rw [push_single]; split <;> simp
  | g :: g' :: rest => simp [push_cons_cons]

theorem addOwner_idem (os : List Nat) (o : Nat) : Queue.addOwner (Queue.addOwner os o) o = Queue.addOwner os o := by
  unfold Queue.addOwner
  by_cases h : o ∈ os <;> simp [h]

/-- registering the same read twice in a row is registering it once (Python: `set.add`) -/
theorem push_false_idem (q : Queue) (o : Nat) : (q.push false o).push false o = q.push false o := by
  induction q with
  | nil => simp [push_single, Queue.addOwner]
  | cons g rest ih =>
    cases rest with
    | nil =>
      rw [push_single]
      cases hg : g.wr with
      | false =>
        simp only [and_self, if_true]
        rw [push_single]; simp [addOwner_idem]
      | true =>
        simp only [Bool.true_eq_false, and_false, if_false]
        rw [push_cons_cons, push_single]; simp [Queue.addOwner]
    | cons g' rest' =>
      rw [push_cons_cons, push_cons_ne_nil _ _ (push_ne_nil _ _ _), ih]

theorem addReads_get (qs : Queues N) (i : Nat) (srcs : List N) (r : N) :
    (addReads qs i srcs).get r = if r ∈ srcs then (qs.get r).push false i else qs.get r := by
  induction srcs generalizing qs with
  | nil => simp [addReads]
  | cons a rs ih =>
    unfold addReads
    rw [ih, Queues.get_set]
    by_cases ha : a = r
    · subst ha
      by_cases hr : a ∈ rs
      · simp [hr, push_false_idem]
      · simp [hr]
    · have ha' : ¬ r = a := fun e => ha e.symm
      simp [ha, ha']

theorem addInstr_get (qs : Queues N) (i : Nat) (ins : Instr N) (r : N) :
    (addInstr qs i ins).get r = (reqsOfInstr r i ins).foldl (fun q x => q.push x.1 x.2) (qs.get r) := by
  unfold addInstr reqsOfInstr
  simp only [Queues.get_set, addReads_get]
  by_cases hd : ins.dst = r
  · subst hd
    by_cases hs : ins.dst ∈ ins.srcs <;> simp [hs]
  · by_cases hs : r ∈ ins.srcs <;> simp [hs, hd]

theorem buildPlanFrom_get (qs : Queues N) (i : Nat) (prog : List (Instr N)) (r : N) :
    (buildPlanFrom qs i prog).get r = (reqsFrom r i prog).foldl (fun q x => q.push x.1 x.2) (qs.get r) := by
  induction prog generalizing qs i with
  | nil => rfl
  | cons ins rest ih =>
    unfold buildPlanFrom reqsFrom
    rw [ih, addInstr_get, List.foldl_append]

/-- **The access plan**: the queue of register `r` is the queue built from `reqsOf prog r`. -/
theorem buildPlan_get (prog : List (Instr N)) (r : N) : (buildPlan prog).get r = Queue.build (reqsOf prog r) := by
  unfold buildPlan reqsOf Queue.build
  rw [buildPlanFrom_get]
  rfl

/-! ### membership and order of `reqsOf` -/

theorem mem_reqsOfInstr {r : N} {i : Nat} {ins : Instr N} {x : Req} :
    x ∈ reqsOfInstr r i ins ↔ x.2 = i ∧ (if x.1 then ins.dst = r else r ∈ ins.srcs) := by
  obtain ⟨w, o⟩ := x
  unfold reqsOfInstr
  by_cases hs : r ∈ ins.srcs <;> by_cases hd : ins.dst = r <;> cases w <;> simp [hs, hd, eq_comm]

theorem mem_reqsFrom {r : N} {i : Nat} {prog : List (Instr N)} {x : Req} :
    x ∈ reqsFrom r i prog ↔
      ∃ ins, i ≤ x.2 ∧ prog[x.2 - i]? = some ins ∧ (if x.1 then ins.dst = r else r ∈ ins.srcs) := by
  induction prog generalizing i with
  | nil => simp [reqsFrom]
  | cons ins rest ih =>
    unfold reqsFrom
    rw [List.mem_append, mem_reqsOfInstr, ih]
    constructor
    · rintro (⟨h1, h2⟩ | ⟨ins', h1, h2, h3⟩)
      · exact ⟨ins, by omega, by simp [h1], h2⟩
      · refine ⟨ins', by omega, ?_, h3⟩
        have e : x.2 - i = (x.2 - (i + 1)) + 1 := by omega
        rw [e]; simpa using h2
    · rintro ⟨ins', h1, h2, h3⟩
      by_cases e : x.2 = i
      · left
        rw [e] at h2
        simp only [Nat.sub_self, List.getElem?_cons_zero, Option.some.injEq] at h2
        subst h2
        exact ⟨e, h3⟩
      · right
        refine ⟨ins', by omega, ?_, h3⟩
        have e' : x.2 - i = (x.2 - (i + 1)) + 1 := by omega
        rw [e'] at h2; simpa using h2

/-- `(wr, i)` is registered on `r` iff instruction `i` exists and reads (`wr = false`) / writes (`wr = true`) `r` -/
theorem mem_reqsOf {prog : List (Instr N)} {r : N} {x : Req} :
    x ∈ reqsOf prog r ↔ ∃ ins, prog[x.2]? = some ins ∧ (if x.1 then ins.dst = r else r ∈ ins.srcs) := by
  unfold reqsOf
  rw [mem_reqsFrom]
  simp

theorem reqsFrom_key_ge {r : N} {i : Nat} {prog : List (Instr N)} {x : Req} (h : x ∈ reqsFrom r i prog) :
    2 * i ≤ key x := by
  obtain ⟨_, h1, _⟩ := mem_reqsFrom.1 h
  unfold key; omega

theorem reqsFrom_pairwise (r : N) (i : Nat) (prog : List (Instr N)) :
    (reqsFrom r i prog).Pairwise (fun a b => key a < key b) := by
  induction prog generalizing i with
  | nil => exact List.Pairwise.nil
  | cons ins rest ih =>
    unfold reqsFrom
    rw [List.pairwise_append]
    refine ⟨?_, ih (i + 1), ?_⟩
    · unfold reqsOfInstr
      by_cases hs : r ∈ ins.srcs <;> by_cases hd : ins.dst = r <;> simp [hs, hd, key]
    · intro a ha b hb
      have h1 := (mem_reqsOfInstr.1 ha).1
      have h2 := reqsFrom_key_ge hb
      obtain ⟨w, o⟩ := a
      obtain ⟨w', o'⟩ := b
      cases w <;> cases w' <;> simp [key] at h1 h2 ⊢ <;> omega

/-- the requests on one register are strictly sorted by `key` = 2·owner + isWrite -/
theorem reqsOf_pairwise (prog : List (Instr N)) (r : N) :
    (reqsOf prog r).Pairwise (fun a b => key a < key b) := reqsFrom_pairwise r 0 prog

theorem programOrder_of_pairwise {l : List Req} (h : l.Pairwise (fun a b => key a < key b)) :
    programOrder l = true := by
  induction l with
  | nil => rfl
  | cons a t ih =>
    cases t with
    | nil => rfl
    | cons b t' =>
      rw [List.pairwise_cons] at h
      obtain ⟨w1, o1⟩ := a
      obtain ⟨w2, o2⟩ := b
      unfold programOrder
      rw [ih h.2, Bool.and_true]
      have hk := h.1 (w2, o2) List.mem_cons_self
      cases w1 <;> cases w2 <;> simp [key] at hk ⊢ <;> omega

/-- the access plan registers requests in program order (the hypothesis of C19) -/
theorem programOrder_reqsOf (prog : List (Instr N)) (r : N) : programOrder (reqsOf prog r) = true :=
  programOrder_of_pairwise (reqsOf_pairwise prog r)

theorem reqsOf_nodup (prog : List (Instr N)) (r : N) : (reqsOf prog r).Nodup :=
  programOrder_nodup (programOrder_reqsOf prog r)

theorem abs_buildPlan (prog : List (Instr N)) (r : N) : abs ((buildPlan prog).get r) = reqsOf prog r := by
  rw [buildPlan_get]
  exact C19_abs_build _ (programOrder_runsDistinct (programOrder_reqsOf prog r))

theorem wf_buildPlan (prog : List (Instr N)) (r : N) : WFq ((buildPlan prog).get r) := by
  rw [buildPlan_get]; exact C19_build_wf _

/-! ## 2. Request-level facts about `key`-sorted pending lists -/

abbrev Sorted (P : List Req) : Prop := P.Pairwise (fun a b => key a < key b)

theorem Sorted.nodup {P : List Req} (h : Sorted P) : P.Nodup :=
  h.imp (fun {a b} hab e => by rw [e] at hab; exact Nat.lt_irrefl _ hab)

theorem Sorted.split {pre post : List Req} {y : Req} (h : Sorted (pre ++ y :: post)) :
    (∀ x ∈ pre, key x < key y) ∧ (∀ x ∈ post, key y < key x) ∧ Sorted pre := by
  rw [Sorted, List.pairwise_append, List.pairwise_cons] at h
  exact ⟨fun x hx => h.2.2 x hx y List.mem_cons_self, h.2.1.1, h.1⟩

theorem Sorted.mem_pre {pre post : List Req} {y x : Req} (h : Sorted (pre ++ y :: post))
    (hx : x ∈ pre ++ y :: post) (hk : key x < key y) : x ∈ pre := by
  rcases List.mem_append.1 hx with h1 | h1
  · exact h1
  · rcases List.mem_cons.1 h1 with e | e
    · subst e; exact absurd hk (Nat.lt_irrefl _)
    · have := h.split.2.1 x e; omega

/-- a servable request is pending; in particular the pending list is not empty -/
theorem canServe_isSome {P : List Req} (hne : P ≠ []) (wr : Bool) (o : Nat) : ∃ b, canServe P wr o = some b := by
  match P, hne with
  | (true, a) :: t, _ => exact ⟨_, rfl⟩
  | (false, a) :: t, _ =>
    cases wr
    · exact ⟨_, (canServe_read_head a t o).1⟩
    · exact ⟨_, (canServe_read_head a t o).2⟩

/-- **Servability on a sorted pending list**: a pending read can be served iff every older pending request is a read;
a pending write iff the only older pending request, if any, is its owner's own read. -/
theorem canServe_sorted_iff {P : List Req} (hs : Sorted P) {wr : Bool} {o : Nat} (hm : (wr, o) ∈ P) :
    canServe P wr o = some true ↔
      ∀ x ∈ P, key x < key (wr, o) → (if wr then x = (false, o) else x.1 = false) := by
  rw [canServe_eq_some_true_iff]
  obtain ⟨pre, post, hP⟩ := List.append_of_mem hm
  have hsp := hP ▸ hs
  constructor
  · rintro (⟨hw, hl⟩ | ⟨hw, hh | hh⟩)
    · subst hw
      obtain ⟨pre', post', hP', hpre'⟩ := (mem_leadReads_iff P o).1 hl
      intro x hx hk
      have hs' := hP' ▸ hs
      have := hs'.mem_pre (hP' ▸ hx) hk
      simpa using hpre' x this
    · subst hw
      intro x hx hk
      cases hPc : P with
      | nil => rw [hPc] at hx; cases hx
      | cons a t =>
        rw [hPc] at hh hx hs
        simp only [List.head?_cons, Option.some.injEq] at hh
        subst hh
        rcases List.mem_cons.1 hx with e | e
        · subst e; exact absurd hk (Nat.lt_irrefl _)
        · have := (List.pairwise_cons.1 hs).1 x e; omega
    · subst hw
      obtain ⟨rest, hr⟩ := (own_read_write_iff P o).1 hh
      intro x hx hk
      rw [hr] at hx hs
      rcases List.mem_cons.1 hx with e | e
      · simpa using e
      · rcases List.mem_cons.1 e with e | e
        · subst e; exact absurd hk (Nat.lt_irrefl _)
        · have := (List.pairwise_cons.1 (List.pairwise_cons.1 hs).2).1 x e; omega
  · intro h
    cases wr with
    | false =>
      refine Or.inl ⟨rfl, (mem_leadReads_iff P o).2 ⟨pre, post, hP, ?_⟩⟩
      intro x hx
      have := h x (by rw [hP]; exact List.mem_append_left _ hx) (hsp.split.1 x hx)
      simpa using this
    | true =>
      refine Or.inr ⟨rfl, ?_⟩
      have hall : ∀ x ∈ pre, x = (false, o) := fun x hx => by
        have := h x (by rw [hP]; exact List.mem_append_left _ hx) (hsp.split.1 x hx)
        simpa using this
      have hpn := hsp.split.2.2.nodup
      match pre, hall, hpn with
      | [], _, _ => left; rw [hP]; rfl
      | [a], hall, _ =>
        right
        have := hall a List.mem_cons_self
        subst this
        exact (own_read_write_iff P o).2 ⟨post, by rw [hP]; rfl⟩
      | a :: b :: t, hall, hpn =>
        have h1 := hall a List.mem_cons_self
        have h2 := hall b (List.mem_cons_of_mem _ List.mem_cons_self)
        rw [List.nodup_cons] at hpn
        exact absurd (by rw [h1, h2]; exact List.mem_cons_self) hpn.1

theorem mem_leadReads_erase {P : List Req} {o o' : Nat} (h : o' ∈ leadReads P) (hne : o' ≠ o) :
    o' ∈ leadReads (P.erase (false, o)) := by
  induction P with
  | nil => simp [leadReads] at h
  | cons x t ih =>
    obtain ⟨w, a⟩ := x
    cases w with
    | true => simp [leadReads] at h
    | false =>
      simp only [leadReads, List.mem_cons] at h
      by_cases ha : a = o
      · subst ha
        rw [List.erase_cons_head]
        rcases h with e | e
        · exact absurd e hne
        · exact e
      · have hne' : ((false, a) == ((false, o) : Req)) = false := by simp [ha]
        rw [List.erase_cons_tail (by simp [ha])]
        simp only [leadReads, List.mem_cons]
        rcases h with e | e
        · exact Or.inl e
        · exact Or.inr (ih e)

/-- removing distinct reads of the leading run, one after the other, never fails and removes exactly these -/
theorem runSpec_reads {P : List Req} (hP : P.Nodup) (rs : List Req) (hrs : rs.Nodup)
    (hrd : ∀ x ∈ rs, x.1 = false) (hl : ∀ x ∈ rs, x.2 ∈ leadReads P) :
    runSpec P (rs.map (·.2)) = some (P.filter (fun x => decide (x ∉ rs))) := by
  induction rs generalizing P with
  | nil => simp [runSpec, List.filter_eq_self.2]
  | cons y rs ih =>
    obtain ⟨w, o⟩ := y
    have hw : w = false := hrd _ List.mem_cons_self
    subst hw
    have ho : o ∈ leadReads P := hl _ List.mem_cons_self
    rw [List.nodup_cons] at hrs
    have hrem : removeSpec P o = some (P.erase (false, o)) :=
      (removeSpec_eq_some_iff _ _ _).2 (Or.inr ⟨ho, rfl⟩)
    rw [List.map_cons, runSpec_cons, hrem, Option.bind_some]
    rw [ih (hP.erase _) hrs.2 (fun x hx => hrd x (List.mem_cons_of_mem _ hx))]
    · rw [hP.erase_eq_filter, List.filter_filter]
      congr 1
      apply List.filter_congr
      intro x _
      by_cases e : x = (false, o) <;> simp [e, hrs.1]
    · intro x hx
      apply mem_leadReads_erase (hl x (List.mem_cons_of_mem _ hx))
      intro e
      apply hrs.1
      have h1 := hrd x (List.mem_cons_of_mem _ hx)
      obtain ⟨w', o'⟩ := x
      simp only at h1 e
      subst h1; subst e
      exact hx

theorem eq_pair_of_subset_pair {α : Type} {a b : α} {l : List α} (hn : l.Nodup) (hsub : ∀ x ∈ l, x = a ∨ x = b)
    (hs : [a, b].Sublist l) : l = [a, b] := by
  match l, hn, hsub, hs with
  | [], _, _, hs => cases hs
  | [x], _, _, hs => have := hs.length_le; simp at this
  | [x, y], _, _, hs => exact (hs.eq_of_length rfl).symm
  | x :: y :: z :: t, hn, hsub, _ =>
    exfalso
    have hx := hsub x (by simp)
    have hy := hsub y (by simp)
    have hz := hsub z (by simp)
    simp only [List.nodup_cons, List.mem_cons, not_or] at hn
    obtain ⟨⟨h1, h2, _⟩, ⟨h3, _⟩, _⟩ := hn
    rcases hx with rfl | rfl <;> rcases hy with rfl | rfl <;> rcases hz with rfl | rfl <;> simp_all

/-- **Batch removal.** All requests of `rs` can be served on the pending list `P`; whenever a write is in the batch
while its owner's own read is still pending, that read is in the batch before it. Then dequeuing the owners of `rs`
in order never fails and removes exactly the requests of `rs`. -/
theorem runSpec_batch {P : List Req} (hP : P.Nodup) (rs : List Req) (hrs : rs.Nodup)
    (hserv : ∀ x ∈ rs, canServe P x.1 x.2 = some true)
    (hown : ∀ o, (true, o) ∈ rs → (false, o) ∈ P → [(false, o), (true, o)].Sublist rs) :
    runSpec P (rs.map (·.2)) = some (P.filter (fun x => decide (x ∉ rs))) := by
  by_cases hall : ∀ x ∈ rs, x.1 = false
  · apply runSpec_reads hP rs hrs hall
    intro x hx
    rcases (canServe_eq_some_true_iff P x.1 x.2).1 (hserv x hx) with ⟨_, h⟩ | ⟨h, _⟩
    · exact h
    · rw [hall x hx] at h; cases h
  · have : ∃ o, (true, o) ∈ rs := by
      false_or_by_contra
      rename_i hno
      apply hall
      intro x hx
      obtain ⟨w, o⟩ := x
      cases w with
      | false => rfl
      | true => exact absurd ⟨o, hx⟩ hno
    obtain ⟨o, ho⟩ := this
    rcases (canServe_eq_some_true_iff P true o).1 (hserv _ ho) with ⟨h, _⟩ | ⟨_, hh | hh⟩
    · cases h
    · -- the head is the write of `o`
      cases hPc : P with
      | nil => rw [hPc] at hh; cases hh
      | cons a t =>
        rw [hPc] at hh
        simp only [List.head?_cons, Option.some.injEq] at hh
        subst hh
        have hx : ∀ x ∈ rs, x = (true, o) := by
          intro x hx
          have := hserv x hx
          rw [hPc, canServe_write_head] at this
          obtain ⟨w', o'⟩ := x
          simpa using this
        have hrs1 : rs = [(true, o)] := by
          match rs, hrs, hx, ho with
          | [y], _, hx, _ => rw [hx y List.mem_cons_self]
          | y :: z :: t, hrs, hx, _ =>
            have h1 := hx y List.mem_cons_self
            have h2 := hx z (List.mem_cons_of_mem _ List.mem_cons_self)
            rw [List.nodup_cons] at hrs
            exact absurd (by rw [h1, h2]; exact List.mem_cons_self) hrs.1
        rw [hPc] at hP
        have hnt : (true, o) ∉ t := (List.nodup_cons.1 hP).1
        rw [hrs1]
        simp only [List.map_cons, List.map_nil, runSpec_cons, removeSpec_write_head, if_true, Option.bind_some,
          runSpec, List.mem_singleton, Option.some.injEq]
        rw [List.filter_cons]
        simp only [not_true_eq_false, decide_false, Bool.false_eq_true, if_false]
        symm
        apply List.filter_eq_self.2
        intro x hx'
        simp only [decide_eq_true_eq]
        intro e; subst e; exact hnt hx'
    · -- own pair at the front
      obtain ⟨rest, hr⟩ := (own_read_write_iff P o).1 hh
      have hx : ∀ x ∈ rs, x = (false, o) ∨ x = (true, o) := by
        intro x hx
        have := hserv x hx
        obtain ⟨w', o'⟩ := x
        rcases (canServe_eq_some_true_iff P w' o').1 this with ⟨hw, hl⟩ | ⟨hw, h1 | h1⟩
        · subst hw
          rw [hh.1] at hl
          left; simpa using hl
        · subst hw
          rw [hr] at h1; simp at h1
        · subst hw
          rw [hh.1] at h1
          right; simpa using h1.1.symm
      have hrs2 : rs = [(false, o), (true, o)] :=
        eq_pair_of_subset_pair hrs hx (hown o ho (by rw [hr]; exact List.mem_cons_self))
      rw [hr] at hP
      simp only [List.nodup_cons, List.mem_cons, not_or] at hP
      rw [hrs2, hr]
      simp only [List.map_cons, List.map_nil, runSpec_cons, (removeSpec_own_pair o rest).1,
        (removeSpec_own_pair o rest).2, Option.bind_some, runSpec, Option.some.injEq]
      rw [List.filter_cons, List.filter_cons]
      simp only [List.mem_cons, true_or, or_true, not_true_eq_false, decide_false, Bool.false_eq_true, if_false]
      symm
      apply List.filter_eq_self.2
      intro x hx'
      simp only [decide_eq_true_eq, List.not_mem_nil, or_false, not_or]
      exact ⟨fun e => hP.1.2 (e ▸ hx'), fun e => hP.2.1 (e ▸ hx')⟩

/-! ## 3. The availability test -/

theorem canAll_ok_true_iff (qs : Queues N) (wr : Bool) (i : Nat) (rs : List N) :
    canAll qs wr i rs = .ok true ↔ ∀ r ∈ rs, (qs.get r).canAccess wr i = some true := by
  induction rs with
  | nil => simp [canAll]
  | cons r rs ih =>
    unfold canAll
    cases h : (qs.get r).canAccess wr i with
    | none => simp [h]
    | some b => cases b <;> simp [h, ih]

theorem canAll_ok_false {qs : Queues N} {wr : Bool} {i : Nat} {rs : List N} (h : canAll qs wr i rs = .ok false) :
    ∃ r ∈ rs, (qs.get r).canAccess wr i = some false := by
  induction rs with
  | nil => simp [canAll] at h
  | cons r rs ih =>
    unfold canAll at h
    cases hc : (qs.get r).canAccess wr i with
    | none => simp [hc] at h
    | some b =>
      cases b with
      | false => exact ⟨r, List.mem_cons_self, hc⟩
      | true =>
        simp only [hc] at h
        obtain ⟨r', hr', h'⟩ := ih h
        exact ⟨r', List.mem_cons_of_mem _ hr', h'⟩

/-- the registers unit `unit` locks for instruction `ins` -/
def lockedRegs (unit : UnitM N) (ins : Instr N) : List N :=
  (if unit.rd then ins.srcs else []) ++ (if unit.wr then [ins.dst] else [])

/-- the outcome of the read test of `_regs_avail` -/
def rdTest (qs : Queues N) (unit : UnitM N) (i : Nat) (ins : Instr N) : Except Fault Bool :=
  if unit.rd then canAll qs false i ins.srcs else .ok true

/-- the outcome of the write test of `_regs_avail` -/
def wrTest (qs : Queues N) (unit : UnitM N) (i : Nat) (ins : Instr N) : Except Fault Bool :=
  if unit.wr then canAll qs true i [ins.dst] else .ok true

theorem regsAvail_eq (qs : Queues N) (unit : UnitM N) (i : Nat) (ins : Instr N) :
    regsAvail qs unit i ins =
      match rdTest qs unit i ins with
      | .error f => .error f
      | .ok false => .ok none
      | .ok true =>
        match wrTest qs unit i ins with
        | .error f => .error f
        | .ok false => .ok none
        | .ok true => .ok (some (lockedRegs unit ins)) := rfl

theorem rdTest_ok_true_iff (qs : Queues N) (unit : UnitM N) (i : Nat) (ins : Instr N) :
    rdTest qs unit i ins = .ok true ↔
      (unit.rd = true → ∀ r ∈ ins.srcs, (qs.get r).canAccess false i = some true) := by
  unfold rdTest
  cases unit.rd <;> simp [canAll_ok_true_iff]

theorem wrTest_ok_true_iff (qs : Queues N) (unit : UnitM N) (i : Nat) (ins : Instr N) :
    wrTest qs unit i ins = .ok true ↔ (unit.wr = true → (qs.get ins.dst).canAccess true i = some true) := by
  unfold wrTest
  cases unit.wr <;> simp [canAll_ok_true_iff]

theorem rdTest_ok_false {qs : Queues N} {unit : UnitM N} {i : Nat} {ins : Instr N}
    (h : rdTest qs unit i ins = .ok false) :
    unit.rd = true ∧ ∃ r ∈ ins.srcs, (qs.get r).canAccess false i = some false := by
  unfold rdTest at h
  cases hr : unit.rd with
  | false => simp [hr] at h
  | true => simp only [hr, if_true] at h; exact ⟨rfl, canAll_ok_false h⟩

theorem wrTest_ok_false {qs : Queues N} {unit : UnitM N} {i : Nat} {ins : Instr N}
    (h : wrTest qs unit i ins = .ok false) :
    unit.wr = true ∧ (qs.get ins.dst).canAccess true i = some false := by
  unfold wrTest at h
  cases hr : unit.wr with
  | false => simp [hr] at h
  | true =>
    simp only [hr, if_true] at h
    obtain ⟨r, hr', h'⟩ := canAll_ok_false h
    simp only [List.mem_singleton] at hr'
    subst hr'
    exact ⟨rfl, h'⟩

/-- `_regs_avail` grants exactly when every asked `can_access` answers `True` -/
theorem regsAvail_some_iff (qs : Queues N) (unit : UnitM N) (i : Nat) (ins : Instr N) (regs : List N) :
    regsAvail qs unit i ins = .ok (some regs) ↔
      regs = lockedRegs unit ins ∧
      (unit.rd = true → ∀ r ∈ ins.srcs, (qs.get r).canAccess false i = some true) ∧
      (unit.wr = true → (qs.get ins.dst).canAccess true i = some true) := by
  rw [regsAvail_eq, ← rdTest_ok_true_iff, ← wrTest_ok_true_iff]
  cases h1 : rdTest qs unit i ins with
  | error f => simp
  | ok b =>
    cases b with
    | false => simp
    | true =>
      cases h2 : wrTest qs unit i ins with
      | error f => simp
      | ok b' => cases b' <;> simp [eq_comm]

/-- `_regs_avail` refuses (data stall) exactly when the read test or, after a passed read test, the write test
answers `False` -/
theorem regsAvail_none_iff (qs : Queues N) (unit : UnitM N) (i : Nat) (ins : Instr N) :
    regsAvail qs unit i ins = .ok none ↔
      rdTest qs unit i ins = .ok false ∨ (rdTest qs unit i ins = .ok true ∧ wrTest qs unit i ins = .ok false) := by
  rw [regsAvail_eq]
  cases h1 : rdTest qs unit i ins with
  | error f => simp
  | ok b =>
    cases b with
    | false => simp
    | true =>
      cases h2 : wrTest qs unit i ins with
      | error f => simp
      | ok b' => cases b' <;> simp

/-! ## 4. Granted accesses and the queue invariant -/

/-- unit `u` holds the lock of kind `wr` (`false` = read lock, `true` = write lock) -/
def lockOf : Bool → UnitM N → Bool
  | true, u => u.wr
  | false, u => u.rd

@[simp] theorem lockOf_true (u : UnitM N) : lockOf true u = u.wr := rfl
@[simp] theorem lockOf_false (u : UnitM N) : lockOf false u = u.rd := rfl

/-- in record `row`, instruction `i` is unstalled (`U`) in a unit holding the lock of kind `wr`: it performs that
access in this cycle -/
def accIn (p : Proc N) (row : Util N) (wr : Bool) (i : Nat) : Bool :=
  p.allUnits.any (fun u => lockOf wr u && (row.get u.name).any (fun h => h.idx == i && h.st == .U))

/-- access `(wr, i)` was performed in one of the rows of `tbl` -/
def grantedB (p : Proc N) (tbl : List (Util N)) (wr : Bool) (i : Nat) : Bool :=
  tbl.any (fun row => accIn p row wr i)

theorem accIn_iff {p : Proc N} {row : Util N} {wr : Bool} {i : Nat} :
    accIn p row wr i = true ↔ ∃ u ∈ p.allUnits, lockOf wr u = true ∧ (⟨i, .U⟩ : HI) ∈ row.get u.name := by
  simp only [accIn, List.any_eq_true, Bool.and_eq_true, beq_iff_eq]
  constructor
  · rintro ⟨u, hu, hl, h, hh, h1, h2⟩
    refine ⟨u, hu, hl, ?_⟩
    obtain ⟨a, b⟩ := h
    simp only at h1 h2
    subst h1; subst h2; exact hh
  · rintro ⟨u, hu, hl, hh⟩
    exact ⟨u, hu, hl, ⟨i, .U⟩, hh, rfl, rfl⟩

theorem grantedB_cons (p : Proc N) (row : Util N) (tbl : List (Util N)) (wr : Bool) (i : Nat) :
    grantedB p (row :: tbl) wr i = (accIn p row wr i || grantedB p tbl wr i) := rfl

theorem grantedB_nil (p : Proc N) (wr : Bool) (i : Nat) : grantedB p [] wr i = false := rfl

/-- **The queue invariant**: every access queue is well formed and stands for exactly the requests of the plan that
have not been granted in a recorded cycle. -/
structure PlanInv (p : Proc N) (prog : List (Instr N)) (s : SimState N) : Prop where
  wf : ∀ r, WFq (s.queues.get r)
  abs_eq : ∀ r, abs (s.queues.get r) = (reqsOf prog r).filter (fun x => !grantedB p s.table x.1 x.2)

theorem PlanInv.init (p : Proc N) (prog : List (Instr N)) : PlanInv p prog (initState prog) := by
  refine ⟨fun r => wf_buildPlan prog r, fun r => ?_⟩
  show abs ((buildPlan prog).get r) = _
  rw [abs_buildPlan]
  symm
  apply List.filter_eq_self.2
  intro x _
  rfl

theorem PlanInv.sorted {p : Proc N} {prog : List (Instr N)} {s : SimState N} (h : PlanInv p prog s) (r : N) :
    Sorted (abs (s.queues.get r)) := by
  rw [h.abs_eq]; exact (reqsOf_pairwise prog r).filter _

theorem PlanInv.mem_abs {p : Proc N} {prog : List (Instr N)} {s : SimState N} (h : PlanInv p prog s) {r : N}
    {x : Req} : x ∈ abs (s.queues.get r) ↔ x ∈ reqsOf prog r ∧ grantedB p s.table x.1 x.2 = false := by
  rw [h.abs_eq, List.mem_filter]; simp

/-! ### the deferred dequeues, register by register -/

theorem applyClears_runHistory {qs qs' : Queues N} {cs : List (N × Nat)} (h : applyClears qs cs = .ok qs') (r : N) :
    runHistory (qs.get r) ((cs.filter (fun c => decide (c.1 = r))).map (·.2)) = some (qs'.get r) := by
  induction cs generalizing qs with
  | nil => simp only [applyClears] at h; cases h; rfl
  | cons c cs ih =>
    obtain ⟨a, i⟩ := c
    unfold applyClears at h
    cases hd : (qs.get a).dequeue i with
    | none => simp [hd] at h
    | some q =>
      simp only [hd] at h
      have := ih h
      by_cases ha : a = r
      · subst ha
        simp only [List.filter_cons, decide_true, if_true, List.map_cons, runHistory_cons, hd, Option.bind_some]
        simpa using this
      · simp only [List.filter_cons, ha, decide_false, Bool.false_eq_true, if_false]
        rwa [Queues.get_set_ne _ _ ha] at this

/-- the clears requested by a successful `labelAll`, entry by entry -/
theorem labelAll_clears {units : List (UnitM N)} {prog : List (Instr N)} {qs : Queues N} {old u : Util N}
    {r : Util N × List (N × Nat)} (h : labelAll units prog qs old u = .ok r) :
    r.2 = (AMap.toList u).flatMap (fun e =>
      match lookupUnit units e.1 with
      | some unit => e.2.flatMap (fun x => clearsOf prog qs unit (old.get e.1) x.idx)
      | none => []) := by
  induction u generalizing r with
  | nil => rw [labelAll_nil] at h; cases h; rfl
  | cons e rest ih =>
    obtain ⟨n, l⟩ := e
    obtain ⟨r', hr', hcase⟩ := labelAll_cons_ok h
    rcases hcase with ⟨hl, rfl⟩ | ⟨hl, unit, rl, hlu, hll, rfl⟩
    · subst hl
      simp only [AMap.toList_cons, List.flatMap_cons, ih hr']
      cases lookupUnit units n <;> simp
    · simp only [AMap.toList_cons, List.flatMap_cons, ih hr', hlu, (labelList_ok hll).2]

/-! ### the requests granted in one cycle -/

theorem flatMap_congr' {α β : Type} {l : List α} {f g : α → List β} (h : ∀ a ∈ l, f a = g a) :
    l.flatMap f = l.flatMap g := by
  induction l with
  | nil => rfl
  | cons a t ih =>
    rw [List.flatMap_cons, List.flatMap_cons, h a List.mem_cons_self,
      ih (fun b hb => h b (List.mem_cons_of_mem _ hb))]

theorem sublist_flatMap_of_mem {α β : Type} {l : List α} (f : α → List β) {a : α} (h : a ∈ l) :
    (f a).Sublist (l.flatMap f) := by
  induction l with
  | nil => cases h
  | cons b t ih =>
    rw [List.flatMap_cons]
    rcases List.mem_cons.1 h with e | e
    · subst e; exact List.sublist_append_left _ _
    · exact (ih e).trans (List.sublist_append_right _ _)

theorem filter_eq_of_nodup {l : List N} (hl : l.Nodup) (r : N) :
    l.filter (fun x => decide (x = r)) = if r ∈ l then [r] else [] := by
  induction l with
  | nil => simp
  | cons a t ih =>
    rw [List.nodup_cons] at hl
    by_cases ha : a = r
    · subst ha
      have : t.filter (fun x => decide (x = a)) = [] := by rw [ih hl.2]; simp [hl.1]
      simp [List.filter_cons, this]
    · have ha' : ¬ r = a := fun e => ha e.symm
      simp [List.filter_cons, ha, ha', ih hl.2]

theorem eq_of_map_eq_of_nodup' {α β : Type} (f : α → β) {l : List α} (h : (l.map f).Nodup) {a b : α} (ha : a ∈ l)
    (hb : b ∈ l) (e : f a = f b) : a = b := by
  induction l with
  | nil => cases ha
  | cons c l ih =>
    simp only [List.map_cons, List.nodup_cons, List.mem_map, not_exists, not_and] at h
    rcases List.mem_cons.1 ha with rfl | ha' <;> rcases List.mem_cons.1 hb with rfl | hb'
    · rfl
    · exact absurd e.symm (h.1 b hb')
    · exact absurd e (h.1 a ha')
    · exact ih h.2 ha' hb'

/-- label `U` means: examined (not loaded before), and `_regs_avail` granted all locked registers -/
theorem labelOf_U_iff (prog : List (Instr N)) (qs : Queues N) (unit : UnitM N) (old : List HI) (i : Nat) :
    labelOf prog qs unit old i = .U ↔
      wasLoaded old i = false ∧ ∃ ins, prog[i]? = some ins ∧
        regsAvail qs unit i ins = .ok (some (lockedRegs unit ins)) := by
  unfold labelOf
  cases hw : wasLoaded old i with
  | true => simp
  | false =>
    simp only [Bool.false_eq_true, if_false, true_and]
    cases hp : prog[i]? with
    | none => simp
    | some ins =>
      cases hr : regsAvail qs unit i ins with
      | error f => simp [hr]
      | ok o =>
        cases o with
        | none => simp [hr]
        | some regs =>
          have := ((regsAvail_some_iff qs unit i ins regs).1 hr).1
          subst this
          simp [hr]

theorem clearsOf_eq (prog : List (Instr N)) (qs : Queues N) (unit : UnitM N) (old : List HI) (i : Nat) :
    clearsOf prog qs unit old i =
      if labelOf prog qs unit old i = .U then
        match prog[i]? with
        | some ins => (lockedRegs unit ins).map (fun x => (x, i))
        | none => []
      else [] := by
  unfold clearsOf labelOf
  cases hw : wasLoaded old i with
  | true => simp
  | false =>
    simp only [Bool.false_eq_true, if_false]
    cases hp : prog[i]? with
    | none => simp
    | some ins =>
      cases hr : regsAvail qs unit i ins with
      | error f => simp [hr]
      | ok o =>
        cases o with
        | none => simp [hr]
        | some regs =>
          have := ((regsAvail_some_iff qs unit i ins regs).1 hr).1
          subst this
          simp [hr]

/-- the requests on register `r` granted to instruction `i` when it is examined in `unit` -/
def instrReqs (prog : List (Instr N)) (qs : Queues N) (unit : UnitM N) (old : List HI) (r : N) (i : Nat) : List Req :=
  if labelOf prog qs unit old i = .U then
    match prog[i]? with
    | some ins =>
      (if unit.rd = true ∧ r ∈ ins.srcs then [(false, i)] else []) ++
      (if unit.wr = true ∧ ins.dst = r then [(true, i)] else [])
    | none => []
  else []

theorem clearsOf_owners {prog : List (Instr N)} (hprog : ProgOK prog) (qs : Queues N) (unit : UnitM N)
    (old : List HI) (r : N) (i : Nat) :
    ((clearsOf prog qs unit old i).filter (fun c => decide (c.1 = r))).map (·.2) =
      (instrReqs prog qs unit old r i).map (·.2) := by
  rw [clearsOf_eq]
  unfold instrReqs
  by_cases hl : labelOf prog qs unit old i = .U
  · simp only [hl, if_true]
    cases hp : prog[i]? with
    | none => rfl
    | some ins =>
      have hnd : ins.srcs.Nodup := hprog ins (List.mem_of_getElem? hp)
      simp only [lockedRegs, List.map_append, List.filter_append, List.filter_map, List.map_map]
      congr 1
      · cases unit.rd with
        | false => simp
        | true =>
          have : (ins.srcs.filter ((fun c : N × Nat => decide (c.1 = r)) ∘ fun x => (x, i))) =
              ins.srcs.filter (fun x => decide (x = r)) := rfl
          simp only [if_true, true_and, this, filter_eq_of_nodup hnd]
          by_cases hr : r ∈ ins.srcs <;> simp [hr]
      · cases unit.wr with
        | false => simp
        | true =>
          by_cases hd : ins.dst = r <;> simp [hd, List.filter_cons]
  · simp [hl]

theorem mem_instrReqs {prog : List (Instr N)} {qs : Queues N} {unit : UnitM N} {old : List HI} {r : N} {i : Nat}
    {x : Req} :
    x ∈ instrReqs prog qs unit old r i ↔
      x.2 = i ∧ labelOf prog qs unit old i = .U ∧ lockOf x.1 unit = true ∧
        ∃ ins, prog[i]? = some ins ∧ (if x.1 then ins.dst = r else r ∈ ins.srcs) := by
  obtain ⟨w, o⟩ := x
  unfold instrReqs lockOf
  by_cases hl : labelOf prog qs unit old i = .U
  · simp only [hl, if_true, true_and]
    cases hp : prog[i]? with
    | none => simp
    | some ins =>
      simp only [List.mem_append, Option.some.injEq, exists_eq_left']
      cases w <;> by_cases h1 : unit.rd = true <;> by_cases h2 : unit.wr = true <;>
        by_cases h3 : r ∈ ins.srcs <;> by_cases h4 : ins.dst = r <;> simp [h1, h2, h3, h4, eq_comm]
  · simp [hl]

theorem instrReqs_nodup (prog : List (Instr N)) (qs : Queues N) (unit : UnitM N) (old : List HI) (r : N) (i : Nat) :
    (instrReqs prog qs unit old r i).Nodup := by
  unfold instrReqs
  split
  · split
    · split <;> split <;> simp
    · simp
  · simp

/-- requests on `r` granted in one entry `(unit name, hosted instructions)` of the record -/
def entryReqs (units : List (UnitM N)) (prog : List (Instr N)) (qs : Queues N) (old : Util N) (r : N)
    (e : N × List HI) : List Req :=
  match lookupUnit units e.1 with
  | some unit => e.2.flatMap (fun x => instrReqs prog qs unit (old.get e.1) r x.idx)
  | none => []

/-- all requests on `r` granted when record `F` is labelled against the queues `qs` -/
def rowReqs (units : List (UnitM N)) (prog : List (Instr N)) (qs : Queues N) (old F : Util N) (r : N) : List Req :=
  (AMap.toList F).flatMap (entryReqs units prog qs old r)

/-- the owners dequeued from the queue of `r` at the end of the cycle are the owners of `rowReqs`, in order -/
theorem clears_owners {units : List (UnitM N)} {prog : List (Instr N)} (hprog : ProgOK prog) {qs : Queues N}
    {old F : Util N} {lab : Util N × List (N × Nat)} (h : labelAll units prog qs old F = .ok lab) (r : N) :
    (lab.2.filter (fun c => decide (c.1 = r))).map (·.2) = (rowReqs units prog qs old F r).map (·.2) := by
  rw [labelAll_clears h, rowReqs, List.filter_flatMap, List.map_flatMap, List.map_flatMap]
  apply flatMap_congr'
  intro e _
  unfold entryReqs
  cases lookupUnit units e.1 with
  | none => rfl
  | some unit =>
    simp only [List.filter_flatMap, List.map_flatMap]
    apply flatMap_congr'
    intro x _
    exact clearsOf_owners hprog qs unit _ r x.idx

/-- what a granted request of the cycle is: its owner is hosted in a unit holding the matching lock, gets label `U`
there, and accesses `r` that way -/
theorem mem_rowReqs {p : Proc N} (hn : (p.allUnits.map (·.name)).Nodup) {prog : List (Instr N)} {qs : Queues N}
    {old F : Util N} (hk : (AMap.keys F).Nodup) {r : N} {x : Req} :
    x ∈ rowReqs p.allUnits prog qs old F r ↔
      ∃ u ∈ p.allUnits, (∃ h ∈ F.get u.name, h.idx = x.2) ∧ labelOf prog qs u (old.get u.name) x.2 = .U ∧
        lockOf x.1 u = true ∧ ∃ ins, prog[x.2]? = some ins ∧ (if x.1 then ins.dst = r else r ∈ ins.srcs) := by
  unfold rowReqs
  rw [List.mem_flatMap]
  constructor
  · rintro ⟨e, he, hx⟩
    unfold entryReqs at hx
    cases hlu : lookupUnit p.allUnits e.1 with
    | none => simp [hlu] at hx
    | some unit =>
      simp only [hlu, List.mem_flatMap] at hx
      obtain ⟨h, hh, hx⟩ := hx
      obtain ⟨h1, h2, h3, h4⟩ := mem_instrReqs.1 hx
      obtain ⟨hu, hname⟩ := lookupUnit_some hlu
      have hget : F.get e.1 = e.2 := Util.get_of_mem hk he
      refine ⟨unit, hu, ⟨h, by rw [hname, hget]; exact hh, h1.symm⟩, ?_, h3, ?_⟩
      · rw [hname, h1]; exact h2
      · rw [h1]; exact h4
  · rintro ⟨u, hu, ⟨h, hh, hidx⟩, hl, hlock, hins⟩
    have hne : F.get u.name ≠ [] := fun e => by rw [e] at hh; cases hh
    refine ⟨(u.name, F.get u.name), Util.mem_of_get_ne_nil hne, ?_⟩
    unfold entryReqs
    simp only [lookupUnit_of_mem hn hu, List.mem_flatMap]
    refine ⟨h, hh, mem_instrReqs.2 ⟨hidx.symm, ?_, hlock, ?_⟩⟩
    · rw [hidx]; exact hl
    · rw [hidx]; exact hins

theorem nodup_of_map_fst_nodup {α β : Type} {l : List (α × β)} (h : (l.map (·.1)).Nodup) : l.Nodup := by
  induction l with
  | nil => exact List.nodup_nil
  | cons a t ih =>
    simp only [List.map_cons, List.nodup_cons, List.mem_map, not_exists, not_and] at h
    exact List.nodup_cons.2 ⟨fun hm => h.1 a hm rfl, ih h.2⟩

/-- no request is granted twice in one cycle -/
theorem rowReqs_nodup (units : List (UnitM N)) (prog : List (Instr N)) (qs : Queues N) (old : Util N) {F : Util N}
    (hk : (AMap.keys F).Nodup) (hnd : RowND F) (r : N) : (rowReqs units prog qs old F r).Nodup := by
  unfold rowReqs
  have key : ∀ e ∈ AMap.toList F, ∀ x ∈ entryReqs units prog qs old r e, x.2 ∈ (F.get e.1).map (·.idx) := by
    intro e he x hx
    unfold entryReqs at hx
    cases hlu : lookupUnit units e.1 with
    | none => simp [hlu] at hx
    | some unit =>
      simp only [hlu, List.mem_flatMap] at hx
      obtain ⟨h, hh, hx⟩ := hx
      rw [Util.get_of_mem hk he]
      exact List.mem_map.2 ⟨h, hh, ((mem_instrReqs.1 hx).1).symm⟩
  apply nodup_flatMap_of _ _ (nodup_of_map_fst_nodup hk)
  · intro e he
    unfold entryReqs
    cases hlu : lookupUnit units e.1 with
    | none => exact List.nodup_nil
    | some unit =>
      simp only
      have hidx : (e.2.map (·.idx)).Nodup := by
        have := hnd.nodup_unit e.1
        rwa [Util.get_of_mem hk he] at this
      apply nodup_flatMap_of
      · exact (List.Nodup.sublist (List.Sublist.refl _) (List.Pairwise.of_map _ (fun _ _ h => h) hidx |>.imp
          (fun {a b} hab e' => hab (by rw [e']))))
      · intro h _; exact instrReqs_nodup _ _ _ _ _ _
      · intro a ha b hb x hxa hxb
        have h1 := (mem_instrReqs.1 hxa).1
        have h2 := (mem_instrReqs.1 hxb).1
        exact eq_of_map_eq_of_nodup' (·.idx) hidx ha hb (h1.symm.trans h2)
  · intro a ha b hb x hxa hxb
    have h1 := key a ha x hxa
    have h2 := key b hb x hxb
    have hname := hnd.unique_host a.1 b.1 x.2 h1 h2
    have ea : F.get a.1 = a.2 := Util.get_of_mem hk ha
    have eb : F.get b.1 = b.2 := Util.get_of_mem hk hb
    obtain ⟨a1, a2⟩ := a
    obtain ⟨b1, b2⟩ := b
    simp only at hname ea eb
    subst hname
    rw [← ea, ← eb]

/-- every request granted in the cycle could be served on the queue as it was at the start of the cycle -/
theorem rowReqs_servable {p : Proc N} (hn : (p.allUnits.map (·.name)).Nodup) {prog : List (Instr N)}
    {qs : Queues N} {old F : Util N} (hk : (AMap.keys F).Nodup) {r : N} {x : Req}
    (hx : x ∈ rowReqs p.allUnits prog qs old F r) : (qs.get r).canAccess x.1 x.2 = some true := by
  obtain ⟨u, _, _, hl, hlock, ins, hins, hacc⟩ := (mem_rowReqs hn hk).1 hx
  obtain ⟨_, ins', hins', hra⟩ := (labelOf_U_iff _ _ _ _ _).1 hl
  rw [hins] at hins'
  cases hins'
  obtain ⟨_, hrd, hwr⟩ := (regsAvail_some_iff _ _ _ _ _).1 hra
  obtain ⟨w, o⟩ := x
  cases w with
  | false => exact hrd (by simpa [lockOf] using hlock) r (by simpa using hacc)
  | true =>
    have : ins.dst = r := by simpa using hacc
    subst this
    exact hwr (by simpa [lockOf] using hlock)

/-- the labelled record, unit by unit: same instructions, labels `labelOf` w.r.t. the unit itself -/
theorem mem_labelled {p : Proc N} (hn : (p.allUnits.map (·.name)).Nodup) {prog : List (Instr N)} {qs : Queues N}
    {old F : Util N} {lab : Util N × List (N × Nat)} (hlab : labelAll p.allUnits prog qs old F = .ok lab)
    {u : UnitM N} (hu : u ∈ p.allUnits) {h : HI} :
    h ∈ lab.1.get u.name ↔ ∃ y ∈ F.get u.name, h = ⟨y.idx, labelOf prog qs u (old.get u.name) y.idx⟩ := by
  have hg := labelAll_get hlab u.name
  by_cases hne : F.get u.name = []
  · rw [hg.1 hne, hne]; simp
  · obtain ⟨unit, hlu, e⟩ := hg.2 hne
    rw [lookupUnit_of_mem hn hu] at hlu
    cases hlu
    rw [e, List.mem_map]
    constructor
    · rintro ⟨y, hy, rfl⟩; exact ⟨y, hy, rfl⟩
    · rintro ⟨y, hy, rfl⟩; exact ⟨y, hy, rfl⟩

/-- the requests granted in the cycle are exactly the accesses the new row shows -/
theorem mem_rowReqs_iff_accIn {p : Proc N} (hn : (p.allUnits.map (·.name)).Nodup) {prog : List (Instr N)}
    {qs : Queues N} {old F : Util N} (hk : (AMap.keys F).Nodup) {lab : Util N × List (N × Nat)}
    (hlab : labelAll p.allUnits prog qs old F = .ok lab) {r : N} {x : Req} (hx : x ∈ reqsOf prog r) :
    x ∈ rowReqs p.allUnits prog qs old F r ↔ accIn p lab.1 x.1 x.2 = true := by
  rw [mem_rowReqs hn hk, accIn_iff]
  constructor
  · rintro ⟨u, hu, ⟨h, hh, hidx⟩, hl, hlock, _⟩
    refine ⟨u, hu, hlock, (mem_labelled hn hlab hu).2 ⟨h, hh, ?_⟩⟩
    rw [hidx, hl]
  · rintro ⟨u, hu, hlock, hm⟩
    obtain ⟨y, hy, e⟩ := (mem_labelled hn hlab hu).1 hm
    injection e with e1 e2
    refine ⟨u, hu, ⟨y, hy, e1.symm⟩, ?_, hlock, mem_reqsOf.1 hx⟩
    rw [e1]; exact e2.symm

variable [LT N] [DecidableRel (α := N) (· < ·)]

/-- **Path fact needed by the queue invariant** ("read before write"): an instruction examined in a unit that holds
the write lock but not the read lock has performed its read access in an earlier cycle. (Follows from `wfProc`: on
every route the read-locking unit is not after the write-locking unit — see `Lemmas/Routes`.) -/
def ReadFirst (p : Proc N) (prog : List (Instr N)) (s : SimState N) : Prop :=
  ∀ u ∈ p.allUnits, u.wr = true → u.rd = false →
    ∀ x ∈ (fillCycle p prog s.util s.entered).1.get u.name,
      wasLoaded (s.util.get u.name) x.idx = false → grantedB p s.table false x.idx = true

/-- **The dequeues of one cycle, register by register, at request level**: removing the owners of the granted requests
in encounter order never fails and removes exactly the granted requests. -/
theorem rowReqs_batch {p : Proc N} {prog : List (Instr N)} (hwf : wfProc p = true) {s : SimState N}
    (hc : CoreInv p prog s) (hinv : PlanInv p prog s) (hrf : ReadFirst p prog s) (r : N) :
    runSpec (abs (s.queues.get r))
      ((rowReqs p.allUnits prog s.queues s.util (fillCycle p prog s.util s.entered).1 r).map (·.2)) =
      some ((abs (s.queues.get r)).filter
        (fun x => decide (x ∉ rowReqs p.allUnits prog s.queues s.util (fillCycle p prog s.util s.entered).1 r))) := by
  have hn := wfProc_nodup_names hwf
  have hFb := hc.row.after_fillCycle hn prog
  have hFnd := hc.nd.after_fillCycle hc.row hn (wfProc_preds_nodup hwf) (wfProc_self_not_pred hwf) prog
  have hk := hFb.keys_nodup
  exact runSpec_batch (hinv.sorted r).nodup
    (rowReqs p.allUnits prog s.queues s.util (fillCycle p prog s.util s.entered).1 r)
    (rowReqs_nodup _ _ _ _ hk hFnd r)
    (fun x hx => by rw [← canAccess_refines (hinv.wf r)]; exact rowReqs_servable hn hk hx)
    (by
      intro o ho hpend
      obtain ⟨u, hu, ⟨h, hh, hidx⟩, hl, hlock, ins, hins, hacc⟩ := (mem_rowReqs hn hk).1 ho
      simp only at hidx hl hlock hins hacc
      obtain ⟨hreq, hng⟩ := hinv.mem_abs.1 hpend
      obtain ⟨ins', hins', hsrc⟩ := mem_reqsOf.1 hreq
      simp only at hins' hsrc hng
      rw [hins] at hins'; cases hins'
      have hsrc' : r ∈ ins.srcs := by simpa using hsrc
      have hacc' : ins.dst = r := by simpa using hacc
      have hwr : u.wr = true := by simpa [lockOf] using hlock
      cases hrd : u.rd with
      | false =>
        have hwl := ((labelOf_U_iff _ _ _ _ _).1 hl).1
        have := hrf u hu hwr hrd h hh (by rw [hidx]; exact hwl)
        rw [hidx, hng] at this; cases this
      | true =>
        have e1 : instrReqs prog s.queues u (s.util.get u.name) r h.idx = [(false, o), (true, o)] := by
          unfold instrReqs
          rw [hidx]
          simp [hl, hins, hrd, hwr, hsrc', hacc']
        rw [← e1]
        have hne : (fillCycle p prog s.util s.entered).1.get u.name ≠ [] := fun e => by rw [e] at hh; cases hh
        refine (List.Sublist.trans ?_
          (sublist_flatMap_of_mem (entryReqs p.allUnits prog s.queues s.util r) (Util.mem_of_get_ne_nil hne)))
        unfold entryReqs
        simp only [lookupUnit_of_mem hn hu]
        exact sublist_flatMap_of_mem (fun x => instrReqs prog s.queues u (s.util.get u.name) r x.idx) hh)

/-- **The queue invariant is preserved by a cycle.** In particular no `dequeue` of the cycle fails or removes a request
other than the one granted. -/
theorem PlanInv.step {p : Proc N} {prog : List (Instr N)} (hwf : wfProc p = true) (hprog : ProgOK prog)
    {s s' : SimState N} (hc : CoreInv p prog s) (hinv : PlanInv p prog s) (hrf : ReadFirst p prog s)
    (hs : runCycle p prog s = .ok (some s')) : PlanInv p prog s' := by
  obtain ⟨lab, qs, hlab, hclr, _, rfl⟩ := runCycle_eq_some hs
  have hn := wfProc_nodup_names hwf
  have hFb := hc.row.after_fillCycle hn prog
  have hFnd := hc.nd.after_fillCycle hc.row hn (wfProc_preds_nodup hwf) (wfProc_self_not_pred hwf) prog
  have hk := hFb.keys_nodup
  have main : ∀ r, WFq (qs.get r) ∧
      abs (qs.get r) = (abs (s.queues.get r)).filter
        (fun x => decide (x ∉ rowReqs p.allUnits prog s.queues s.util (fillCycle p prog s.util s.entered).1 r)) := by
    intro r
    have hrun := applyClears_runHistory hclr r
    rw [clears_owners hprog hlab r] at hrun
    refine ⟨runHistory_wf (hinv.wf r) hrun, ?_⟩
    have href := runHistory_refines (hinv.wf r)
      ((rowReqs p.allUnits prog s.queues s.util (fillCycle p prog s.util s.entered).1 r).map (·.2))
    rw [hrun] at href
    have hbatch := rowReqs_batch hwf hc hinv hrf r
    rw [hbatch] at href
    simpa using href
  refine ⟨fun r => (main r).1, fun r => ?_⟩
  show abs (qs.get r) = (reqsOf prog r).filter (fun x => !grantedB p (lab.1 :: s.table) x.1 x.2)
  rw [(main r).2, hinv.abs_eq, List.filter_filter]
  apply List.filter_congr
  intro x hx
  rw [grantedB_cons]
  have := mem_rowReqs_iff_accIn hn hk hlab hx
  by_cases hm : x ∈ rowReqs p.allUnits prog s.queues s.util (fillCycle p prog s.util s.entered).1 r
  · simp [hm, this.1 hm]
  · have : accIn p lab.1 x.1 x.2 = false := by
      cases h : accIn p lab.1 x.1 x.2 with
      | false => rfl
      | true => exact absurd (this.2 h) hm
    simp [hm, this]

/-! ## 5. Walks, maximal routes and the position of the locks

What `wfProc` says about routes (`routeLocksOK` on every maximal route of `routesFrom`) is transferred to walks: a walk
from an input-boundary port along declared connections through units supporting a capability is a prefix of a maximal
route. -/

section walks
omit [LT N] [DecidableRel (α := N) (· < ·)]

/-- a non-empty path along declared connections through units supporting capability `c` -/
def IsWalk (p : Proc N) (c : N) : List (UnitM N) → Prop
  | [] => False
  | [u] => c ∈ u.caps
  | u :: v :: rest => c ∈ u.caps ∧ v ∈ succsOf p u.name ∧ IsWalk p c (v :: rest)

theorem IsWalk.snoc {p : Proc N} {c : N} {w : List (UnitM N)} {q u : UnitM N} (h : IsWalk p c (w ++ [q]))
    (hs : u ∈ succsOf p q.name) (hc : c ∈ u.caps) : IsWalk p c (w ++ [q] ++ [u]) := by
  induction w with
  | nil => exact ⟨h, hs, hc⟩
  | cons a t ih =>
    cases t with
    | nil => exact ⟨h.1, h.2.1, ih h.2.2⟩
    | cons b t' => exact ⟨h.1, h.2.1, ih h.2.2⟩

theorem mem_succsOf' {p : Proc N} {n : N} {v : UnitM N} :
    v ∈ succsOf p n ↔ ∃ d ∈ p.dests, n ∈ d.preds ∧ d.model = v := by
  simp only [succsOf, List.mem_map, List.mem_filter, decide_eq_true_eq]
  constructor
  · rintro ⟨d, ⟨h1, h2⟩, h3⟩; exact ⟨d, h1, h2, h3⟩
  · rintro ⟨d, h1, h2, h3⟩; exact ⟨d, ⟨h1, h2⟩, h3⟩

/-- position in the processing order (sources that are no destination come last) -/
def rank (p : Proc N) (n : N) : Nat := (destPos p n).getD p.dests.length

theorem rank_le (p : Proc N) (n : N) : rank p n ≤ p.dests.length := by
  unfold rank destPos
  cases h : p.dests.findIdx? (fun d => decide (d.model.name = n)) with
  | none => simp
  | some k => have := (List.findIdx?_eq_some_iff_findIdx_eq.1 h).1; simp; omega

/-- connections lead to units processed earlier: the graph is acyclic -/
theorem rank_succ_lt {p : Proc N} (ho : orderOK p = true) {q : N} {v : UnitM N} (hv : v ∈ succsOf p q) :
    rank p v.name < rank p q := by
  obtain ⟨d, hd, hq, rfl⟩ := mem_succsOf'.1 hv
  obtain ⟨kd, hkd⟩ := destPos_isSome_of_mem hd
  have hlt : kd < p.dests.length := by
    unfold destPos at hkd
    exact (List.findIdx?_eq_some_iff_findIdx_eq.1 hkd).1
  unfold rank
  rw [hkd]
  cases hkq : destPos p q with
  | none => simpa using hlt
  | some kq =>
    obtain ⟨kd', hkd', hlt'⟩ := (orderOK_pred ho hd hq).2.2 kq hkq
    rw [hkd] at hkd'; cases hkd'
    simpa using hlt'

theorem IsWalk.length_le {p : Proc N} (ho : orderOK p = true) {c : N} {u : UnitM N} {rest : List (UnitM N)}
    (h : IsWalk p c (u :: rest)) : rest.length ≤ rank p u.name := by
  induction rest generalizing u with
  | nil => simp
  | cons v t ih =>
    have := ih h.2.2
    have := rank_succ_lt ho h.2.1
    simp only [List.length_cons]; omega

theorem routesFrom_ne_nil (p : Proc N) (c : N) (fuel : Nat) (u : UnitM N) :
    ∃ r ∈ routesFrom p c fuel u, ∃ t, r = u :: t := by
  induction fuel generalizing u with
  | zero => exact ⟨[u], by simp [routesFrom], [], rfl⟩
  | succ f ih =>
    unfold routesFrom
    simp only
    split
    · exact ⟨[u], by simp, [], rfl⟩
    · next hne =>
      cases hn : (succsOf p u.name).filter (fun v => decide (c ∈ v.caps)) with
      | nil => simp [hn] at hne
      | cons v vs =>
        obtain ⟨r, hr, t, rfl⟩ := ih v
        refine ⟨u :: v :: t, ?_, _, rfl⟩
        simp only [List.mem_map, List.mem_flatMap]
        exact ⟨v :: t, ⟨v, List.mem_cons_self, hr⟩, rfl⟩

/-- a walk is a prefix of a maximal route (if the fuel covers its length) -/
theorem IsWalk.prefix_route {p : Proc N} {c : N} {u : UnitM N} {rest : List (UnitM N)} (h : IsWalk p c (u :: rest))
    {fuel : Nat} (hf : rest.length ≤ fuel) : ∃ r ∈ routesFrom p c fuel u, (u :: rest) <+: r := by
  induction rest generalizing u fuel with
  | nil =>
    obtain ⟨r, hr, t, rfl⟩ := routesFrom_ne_nil p c fuel u
    exact ⟨_, hr, by simp⟩
  | cons v t ih =>
    cases fuel with
    | zero => simp at hf
    | succ f =>
      obtain ⟨r, hr, hpre⟩ := ih h.2.2 (fuel := f) (by simpa using hf)
      have hv : v ∈ (succsOf p u.name).filter (fun v => decide (c ∈ v.caps)) := by
        refine List.mem_filter.2 ⟨h.2.1, ?_⟩
        have : c ∈ v.caps := by
          cases t with
          | nil => exact h.2.2
          | cons _ _ => exact h.2.2.1
        simpa using this
      refine ⟨u :: r, ?_, (List.prefix_cons_inj u).2 hpre⟩
      unfold routesFrom
      simp only
      split
      · next he => rw [List.isEmpty_iff] at he; rw [he] at hv; cases hv
      · simp only [List.mem_map, List.mem_flatMap]
        exact ⟨r, ⟨v, hv, hr⟩, rfl⟩

theorem mem_dedup {α : Type} [DecidableEq α] {l : List α} {a : α} : a ∈ dedup l ↔ a ∈ l := by
  induction l with
  | nil => simp [dedup]
  | cons x xs ih =>
    unfold dedup
    by_cases e : a = x
    · subst e; simp
    · simp [List.mem_filter, ih, e]

theorem routeLocksOK_iff {r : List (UnitM N)} (h : routeLocksOK r = true) :
    ∃ a b : Nat, a ≤ b ∧ (∀ (k : Nat) (v : UnitM N), r[k]? = some v → v.rd = true → k = a) ∧
      (∀ (k : Nat) (v : UnitM N), r[k]? = some v → v.wr = true → k = b) ∧
      (∃ v : UnitM N, r[a]? = some v ∧ v.rd = true) ∧ (∃ v : UnitM N, r[b]? = some v ∧ v.wr = true) := by
  unfold routeLocksOK at h
  simp only at h
  split at h
  · next a b ha hb =>
    refine ⟨a, b, by simpa using h, ?_, ?_, ?_, ?_⟩
    · intro k v hk hv
      have : k ∈ (List.range r.length).filter (fun k => (r[k]?.map (·.rd)).getD false) := by
        refine List.mem_filter.2 ⟨List.mem_range.2 ?_, by simp [hk, hv]⟩
        exact (List.getElem?_eq_some_iff.1 hk).1
      rw [ha] at this; simpa using this
    · intro k v hk hv
      have : k ∈ (List.range r.length).filter (fun k => (r[k]?.map (·.wr)).getD false) := by
        refine List.mem_filter.2 ⟨List.mem_range.2 ?_, by simp [hk, hv]⟩
        exact (List.getElem?_eq_some_iff.1 hk).1
      rw [hb] at this; simpa using this
    · have : a ∈ (List.range r.length).filter (fun k => (r[k]?.map (·.rd)).getD false) := by rw [ha]; simp
      have h2 := (List.mem_filter.1 this).2
      cases hr : r[a]? with
      | none => simp [hr] at h2
      | some v => exact ⟨v, rfl, by simpa [hr] using h2⟩
    · have : b ∈ (List.range r.length).filter (fun k => (r[k]?.map (·.wr)).getD false) := by rw [hb]; simp
      have h2 := (List.mem_filter.1 this).2
      cases hr : r[b]? with
      | none => simp [hr] at h2
      | some v => exact ⟨v, rfl, by simpa [hr] using h2⟩
  · cases h

/-- **Where the locks are on a walk from an input-boundary port** (for a well-formed processor): the last unit `u` of the
walk is the only read-locking (write-locking) unit if it holds the read (write) lock, and if it holds the write lock
only, the read-locking unit was passed before. -/
theorem walk_locks {p : Proc N} (hwf : wfProc p = true) {c : N} {w : List (UnitM N)} {u : UnitM N}
    (hw : IsWalk p c (w ++ [u])) (hstart : ∃ v0 ∈ p.inBoundary, (w ++ [u]).head? = some v0) :
    (u.rd = true → w.any (·.rd) = false) ∧ (u.wr = true → w.any (·.wr) = false) ∧
    (u.wr = true → u.rd = false → w.any (·.rd) = true) := by
  obtain ⟨v0, hv0, hhead⟩ := hstart
  obtain ⟨rest, hW⟩ : ∃ rest, w ++ [u] = v0 :: rest := by
    cases hwu : w ++ [u] with
    | nil => simp at hwu
    | cons a t => rw [hwu] at hhead; simp at hhead; exact ⟨t, by rw [hhead]⟩
  rw [hW] at hw
  have ho := wfProc_orderOK hwf
  have hlen : rest.length ≤ p.allUnits.length := by
    have h1 := hw.length_le ho
    have h2 := rank_le p v0.name
    have h3 : p.dests.length ≤ p.allUnits.length := by
      simp only [Proc.allUnits, Proc.dests, List.length_append, List.length_map]; omega
    omega
  obtain ⟨r, hr, hpre⟩ := hw.prefix_route hlen
  have hc0 : c ∈ v0.caps := by
    cases rest with
    | nil => exact hw
    | cons _ _ => exact hw.1
  have hcap : c ∈ allCaps p := by
    unfold allCaps
    rw [mem_dedup, List.mem_flatMap]
    exact ⟨v0, mem_allUnits_of_mem_inBoundary hv0, hc0⟩
  have hok := wfProc_routes hwf c hcap v0 hv0 hc0 r hr
  obtain ⟨a, b, hab, hrd, hwr, ⟨va, hva, hvard⟩, _⟩ := routeLocksOK_iff hok
  rw [← hW] at hpre
  obtain ⟨t, ht⟩ := hpre
  -- positions inside the walk
  have hget : ∀ k, k < (w ++ [u]).length → r[k]? = (w ++ [u])[k]? := by
    intro k hk; rw [← ht]; exact List.getElem?_append_left hk
  have hu : r[w.length]? = some u := by
    rw [hget _ (by simp)]; simp
  have hwk : ∀ v ∈ w, ∃ k, k < w.length ∧ r[k]? = some v := by
    intro v hv
    obtain ⟨k, hk⟩ := List.mem_iff_getElem?.1 hv
    have hlt : k < w.length := (List.getElem?_eq_some_iff.1 hk).1
    refine ⟨k, hlt, ?_⟩
    rw [hget k (by simp; omega), List.getElem?_append_left hlt]; exact hk
  refine ⟨?_, ?_, ?_⟩
  · intro hurd
    have ea := hrd _ _ hu hurd
    rw [List.any_eq_false]
    intro v hv hvr
    obtain ⟨k, hk, hrk⟩ := hwk v hv
    have := hrd _ _ hrk hvr
    omega
  · intro huwr
    have eb := hwr _ _ hu huwr
    rw [List.any_eq_false]
    intro v hv hvr
    obtain ⟨k, hk, hrk⟩ := hwk v hv
    have := hwr _ _ hrk hvr
    omega
  · intro huwr hurd
    have eb := hwr _ _ hu huwr
    have hne : a ≠ w.length := by
      intro e; rw [e, hu] at hva; cases hva; rw [hurd] at hvard; cases hvard
    have hlt : a < w.length := by omega
    rw [List.any_eq_true]
    refine ⟨va, ?_, hvard⟩
    rw [hget a (by simp; omega), List.getElem?_append_left hlt] at hva
    exact List.mem_of_getElem? hva

end walks

/-! ## 6. The host invariant: where the locks of a hosted instruction's walk are, and what has been granted -/

section hosts
omit [LT N] [DecidableRel (α := N) (· < ·)]

/-- if `x` is hosted by unit `u` in a record without doubly hosted indices, the record shows access `k` of `x.idx`
exactly when `u` holds lock `k` and `x` is unstalled -/
theorem accIn_eq_of_hosted {p : Proc N} (hn : (p.allUnits.map (·.name)).Nodup) {row : Util N} (hnd : RowND row)
    {u : UnitM N} (hu : u ∈ p.allUnits) {x : HI} (hx : x ∈ row.get u.name) (k : Bool) :
    accIn p row k x.idx = (lockOf k u && x.st == .U) := by
  rw [Bool.eq_iff_iff, accIn_iff]
  constructor
  · rintro ⟨v, hv, hl, hm⟩
    have hname : v.name = u.name := hnd.unique_host v.name u.name x.idx
      (List.mem_map.2 ⟨_, hm, rfl⟩) (List.mem_map.2 ⟨x, hx, rfl⟩)
    have hvu : v = u := unit_eq_of_name_eq hn hv hu hname
    subst hvu
    have : (⟨x.idx, .U⟩ : HI) = x := eq_of_map_eq_of_nodup' (·.idx) (hnd.nodup_unit v.name) hm hx rfl
    rw [← this]; simp [hl]
  · intro h
    simp only [Bool.and_eq_true, beq_iff_eq] at h
    refine ⟨u, hu, h.1, ?_⟩
    have : (⟨x.idx, .U⟩ : HI) = x := by cases x; simp_all
    rw [this]; exact hx

/-- no row of `tbl` hosts index `i` ⇒ nothing of `i` has been granted -/
theorem grantedB_eq_false_of_not_hosted {p : Proc N} {tbl : List (Util N)} {i : Nat}
    (h : ∀ row ∈ tbl, ∀ n, ∀ x ∈ row.get n, x.idx ≠ i) (k : Bool) : grantedB p tbl k i = false := by
  unfold grantedB
  rw [List.any_eq_false]
  intro row hrow hacc
  obtain ⟨u, _, _, hm⟩ := accIn_iff.1 hacc
  exact h row hrow u.name _ hm rfl

theorem wasLoaded_eq_of_mem {l : List HI} (hnd : (l.map (·.idx)).Nodup) {y : HI} (hy : y ∈ l) :
    wasLoaded l y.idx = (y.st != .D) := by
  rw [Bool.eq_iff_iff, wasLoaded_iff]
  constructor
  · rintro ⟨o, ho, hoi, hod⟩
    have : o = y := eq_of_map_eq_of_nodup' (·.idx) hnd ho hy hoi
    subst this; simpa using hod
  · intro h; exact ⟨y, hy, rfl, by simpa using h⟩

theorem wasLoaded_eq_false_of_not_mem {l : List HI} {i : Nat} (h : ∀ y ∈ l, y.idx ≠ i) : wasLoaded l i = false := by
  cases hw : wasLoaded l i with
  | false => rfl
  | true =>
    obtain ⟨o, ho, hoi, _⟩ := (wasLoaded_iff l i).1 hw
    exact absurd hoi (h o ho)

/-- **Facts about one hosted instruction** `x` in unit `u`, w.r.t. the recorded rows `tbl`: it has walked from an
input-boundary port along declared connections through units `w` supporting its capability, and access `k` has been
granted to it iff it has passed (or is past the examination in) a unit holding lock `k`. -/
def HostOK (p : Proc N) (prog : List (Instr N)) (tbl : List (Util N)) (u : UnitM N) (x : HI) : Prop :=
  ∃ ins w, prog[x.idx]? = some ins ∧ IsWalk p ins.cap (w ++ [u]) ∧
    (∃ v0 ∈ p.inBoundary, (w ++ [u]).head? = some v0) ∧
    ∀ k, grantedB p tbl k x.idx = (w.any (lockOf k) || (lockOf k u && x.st != .D))

/-- the host invariant -/
def HazInv (p : Proc N) (prog : List (Instr N)) (s : SimState N) : Prop :=
  ∀ u ∈ p.allUnits, ∀ x ∈ s.util.get u.name, HostOK p prog s.table u x

theorem HazInv.init (p : Proc N) (prog : List (Instr N)) : HazInv p prog (initState prog) := by
  intro u _ x hx
  simp [initState] at hx

theorem capIn_eq_true {prog : List (Instr N)} {i : Nat} {caps : List N} (h : capIn prog i caps = true) :
    ∃ ins, prog[i]? = some ins ∧ ins.cap ∈ caps := by
  unfold capIn at h
  cases hp : prog[i]? with
  | none => simp [hp] at h
  | some ins => exact ⟨ins, rfl, by simpa [hp] using h⟩

/-- **Walk of an arriving or staying instruction.** Whatever the origin of instruction `i` in unit `u` of the next
record (stayed / moved / issued), it has a walk ending in `u`, and access `k` has been granted to it so far iff a unit
before `u` on the walk holds lock `k`, or `u` does and `i` was already loaded there. -/
theorem origin_walk {p : Proc N} {prog : List (Instr N)} (hwf : wfProc p = true) {s : SimState N}
    (hc : CoreInv p prog s) (hh : HazInv p prog s) {u : UnitM N} (hu : u ∈ p.allUnits) {i e' : Nat}
    (ho : Stayed p s.util u.name i ∨ Moved p prog s.util u.name i ∨ Issued p prog s.entered e' u.name i) :
    ∃ ins w, prog[i]? = some ins ∧ IsWalk p ins.cap (w ++ [u]) ∧
      (∃ v0 ∈ p.inBoundary, (w ++ [u]).head? = some v0) ∧
      ∀ k, grantedB p s.table k i = (w.any (lockOf k) || (lockOf k u && wasLoaded (s.util.get u.name) i)) := by
  have hn := wfProc_nodup_names hwf
  rcases ho with ⟨y, hy, hyi, _⟩ | ⟨d, hd, hdn, q, hq, y, hy, hyi, hyd, hcap⟩ | ⟨hge, _, port, hport, hpn, hcap⟩
  · -- stayed
    obtain ⟨ins, w, hins, hwalk, hstart, hg⟩ := hh u hu y hy
    subst hyi
    refine ⟨ins, w, hins, hwalk, hstart, fun k => ?_⟩
    rw [hg k, wasLoaded_eq_of_mem (hc.nd.nodup_unit u.name) hy]
  · -- moved from `q`
    have hqne : s.util.get q ≠ [] := fun e => by rw [e] at hy; cases hy
    obtain ⟨uq, huq, huqn⟩ := List.mem_map.1 (hc.row.names q hqne)
    subst huqn
    obtain ⟨ins, w, hins, hwalk, hstart, hg⟩ := hh uq huq y hy
    subst hyi
    have hdu : d.model = u := unit_eq_of_name_eq hn (model_mem_allUnits_of_mem_dests hd) hu hdn
    obtain ⟨ins', hins', hcap'⟩ := capIn_eq_true hcap
    rw [hins] at hins'; cases hins'
    refine ⟨ins, w ++ [uq], hins, hwalk.snoc (mem_succsOf'.2 ⟨d, hd, hq, hdu⟩) (hdu ▸ hcap'), ?_, fun k => ?_⟩
    · obtain ⟨v0, hv0, hhead⟩ := hstart
      refine ⟨v0, hv0, ?_⟩
      rw [List.head?_append, hhead]; rfl
    · have hwl : wasLoaded (s.util.get u.name) y.idx = false := by
        apply wasLoaded_eq_false_of_not_mem
        intro z hz hzi
        have : u.name = uq.name := hc.nd.unique_host u.name uq.name y.idx
          (List.mem_map.2 ⟨z, hz, hzi⟩) (List.mem_map.2 ⟨y, hy, rfl⟩)
        exact wfProc_self_not_pred hwf d hd (by rw [hdn, this]; exact hq)
      rw [hg k, hwl, List.any_append]
      have : (y.st != .D) = true := by simpa using hyd
      simp [this]
  · -- issued in this cycle
    have hpu : port = u := unit_eq_of_name_eq hn (mem_allUnits_of_mem_inBoundary hport) hu hpn
    subst hpu
    obtain ⟨ins, hins, hcap'⟩ := capIn_eq_true hcap
    refine ⟨ins, [], hins, hcap', ⟨port, hport, rfl⟩, fun k => ?_⟩
    have h1 : grantedB p s.table k i = false := by
      apply grantedB_eq_false_of_not_hosted
      intro row hrow n x hx hxi
      have := (hc.rows row hrow).idx_lt n x hx
      omega
    have h2 : wasLoaded (s.util.get port.name) i = false := by
      apply wasLoaded_eq_false_of_not_mem
      intro z hz hzi
      have := hc.row.idx_lt _ z hz
      omega
    rw [h1, h2]; simp

end hosts

/-- **The host invariant is preserved by a cycle.** -/
theorem HazInv.step {p : Proc N} {prog : List (Instr N)} (hwf : wfProc p = true) {s s' : SimState N}
    (hc : CoreInv p prog s) (hh : HazInv p prog s) (hs : runCycle p prog s = .ok (some s')) : HazInv p prog s' := by
  have hc' := hc.step_wf hwf hs
  obtain ⟨lab, qs, hlab, _, _, rfl⟩ := runCycle_eq_some hs
  have hn := wfProc_nodup_names hwf
  have hF := fillCycle_issueInv prog s.util s.entered hn (wfProc_orderOK hwf)
  intro u hu x hx
  obtain ⟨y, hy, rfl⟩ := (mem_labelled hn hlab hu).1 hx
  obtain ⟨ins, w, hins, hwalk, hstart, hg⟩ := origin_walk hwf hc hh hu (hF.origin u.name y hy)
  refine ⟨ins, w, hins, hwalk, hstart, fun k => ?_⟩
  show grantedB p (lab.1 :: s.table) k y.idx = _
  have hacc := accIn_eq_of_hosted hn hc'.nd hu hx k
  simp only at hacc
  rw [grantedB_cons, hacc, hg k]
  have hS := labelOf_eq_S_iff prog s.queues u (s.util.get u.name) y.idx
  generalize lockOf k u = L
  generalize w.any (lockOf k) = W
  cases hl : labelOf prog s.queues u (s.util.get u.name) y.idx <;>
    cases hw : wasLoaded (s.util.get u.name) y.idx <;> simp [hl, hw] at hS ⊢ <;>
    cases L <;> cases W <;> rfl

omit [LT N] [DecidableRel (α := N) (· < ·)] in
/-- **What is known when an instruction is examined** (it has an origin in unit `u` of the next record and is not yet
loaded there): no access of a kind its unit locks has been granted to it before, and in a unit holding only the write
lock its read access has been granted. -/
theorem examined_facts_origin {p : Proc N} {prog : List (Instr N)} (hwf : wfProc p = true) {s : SimState N}
    (hc : CoreInv p prog s) (hh : HazInv p prog s) {u : UnitM N} (hu : u ∈ p.allUnits) {i e' : Nat}
    (ho : Stayed p s.util u.name i ∨ Moved p prog s.util u.name i ∨ Issued p prog s.entered e' u.name i)
    (hwl : wasLoaded (s.util.get u.name) i = false) :
    (u.rd = true → grantedB p s.table false i = false) ∧
    (u.wr = true → grantedB p s.table true i = false) ∧
    (u.wr = true → u.rd = false → grantedB p s.table false i = true) := by
  obtain ⟨ins, w, hins, hwalk, hstart, hg⟩ := origin_walk hwf hc hh hu ho
  obtain ⟨h1, h2, h3⟩ := walk_locks hwf hwalk hstart
  have e1 : w.any (lockOf false) = w.any (·.rd) := rfl
  have e2 : w.any (lockOf true) = w.any (·.wr) := rfl
  refine ⟨fun hr => ?_, fun hw => ?_, fun hw hr => ?_⟩
  · rw [hg false, hwl, e1, h1 hr]; simp
  · rw [hg true, hwl, e2, h2 hw]; simp
  · rw [hg false, hwl, e1, h3 hw hr]; simp

theorem examined_facts {p : Proc N} {prog : List (Instr N)} (hwf : wfProc p = true) {s : SimState N}
    (hc : CoreInv p prog s) (hh : HazInv p prog s) {u : UnitM N} (hu : u ∈ p.allUnits) {x : HI}
    (hx : x ∈ (fillCycle p prog s.util s.entered).1.get u.name)
    (hwl : wasLoaded (s.util.get u.name) x.idx = false) :
    (u.rd = true → grantedB p s.table false x.idx = false) ∧
    (u.wr = true → grantedB p s.table true x.idx = false) ∧
    (u.wr = true → u.rd = false → grantedB p s.table false x.idx = true) :=
  examined_facts_origin hwf hc hh hu
    ((fillCycle_issueInv prog s.util s.entered (wfProc_nodup_names hwf) (wfProc_orderOK hwf)).origin u.name x hx) hwl

theorem HazInv.readFirst {p : Proc N} {prog : List (Instr N)} (hwf : wfProc p = true) {s : SimState N}
    (hc : CoreInv p prog s) (hh : HazInv p prog s) : ReadFirst p prog s :=
  fun _ hu hw hr _ hx hwl => (examined_facts hwf hc hh hu hx hwl).2.2 hw hr

/-! ## 7. The combined invariant and its lifting to the rows of a diagram -/

/-- everything the hazard proofs need about a reachable state -/
structure HazardInv (p : Proc N) (prog : List (Instr N)) (s : SimState N) : Prop where
  core : CoreInv p prog s
  plan : PlanInv p prog s
  host : HazInv p prog s

theorem HazardInv.init (p : Proc N) (prog : List (Instr N)) : HazardInv p prog (initState prog) :=
  ⟨CoreInv.init p prog, PlanInv.init p prog, HazInv.init p prog⟩

theorem HazardInv.step {p : Proc N} {prog : List (Instr N)} (hwf : wfProc p = true) (hprog : ProgOK prog)
    {s s' : SimState N} (h : HazardInv p prog s) (hs : runCycle p prog s = .ok (some s')) : HazardInv p prog s' :=
  ⟨h.core.step_wf hwf hs, h.plan.step hwf hprog h.core (h.host.readFirst hwf h.core) hs, h.host.step hwf h.core hs⟩

/-- every row of a newest-first table was produced by a successful cycle from an `Inv`-state whose table consists of
the older rows -/
def RowsOK (p : Proc N) (prog : List (Instr N)) (Inv : SimState N → Prop) : List (Util N) → Prop
  | [] => True
  | r :: rest =>
    (∃ s s', Inv s ∧ s.table = rest ∧ runCycle p prog s = .ok (some s') ∧ s'.util = r ∧ s'.table = r :: rest) ∧
    RowsOK p prog Inv rest

theorem RowsOK.row {p : Proc N} {prog : List (Instr N)} {Inv : SimState N → Prop} {table : List (Util N)}
    (h : RowsOK p prog Inv table) :
    ∀ t, t < table.length → ∃ s s', Inv s ∧ s.table = (table.reverse.take t).reverse ∧
      runCycle p prog s = .ok (some s') ∧ s'.util = table.reverse.getD t ([] : List (N × List HI)) ∧
      s'.table = (table.reverse.take (t + 1)).reverse := by
  induction table with
  | nil => intro t ht; simp at ht
  | cons r rest ih =>
    obtain ⟨h1, h2⟩ := h
    intro t ht
    simp only [List.length_cons] at ht
    by_cases hlt : t < rest.length
    · obtain ⟨s, s', a, b, c, d, e⟩ := ih h2 t hlt
      refine ⟨s, s', a, ?_, c, ?_, ?_⟩
      · rw [b, List.reverse_cons, List.take_append_of_le_length (by simp; omega)]
      · rw [d, List.reverse_cons, List.getD_eq_getElem?_getD, List.getD_eq_getElem?_getD,
          List.getElem?_append_left (by simpa using hlt)]
      · rw [e, List.reverse_cons, List.take_append_of_le_length (by simp; omega)]
    · have e : t = rest.length := by omega
      subst e
      obtain ⟨s, s', a, b, c, d, e⟩ := h1
      refine ⟨s, s', a, ?_, c, ?_, ?_⟩
      · rw [b, List.reverse_cons, List.take_append_of_le_length (by simp)]
        rw [show rest.length = rest.reverse.length by simp, List.take_length, List.reverse_reverse]
      · rw [d, List.reverse_cons, List.getD_eq_getElem?_getD]
        rw [List.getElem?_append_right (by simp)]; simp
      · rw [e, List.reverse_cons]
        rw [show rest.length + 1 = (rest.reverse ++ [r]).length by simp, List.take_length]
        simp

/-- **Per-row lifting principle.** For an invariant `Inv` of `runCycle`, every row `t` of every diagram was produced
by a successful cycle from an `Inv`-state whose table holds exactly the rows before `t`. -/
theorem simulate_rows {p : Proc N} {prog : List (Instr N)} (Inv : SimState N → Prop) (h0 : Inv (initState prog))
    (hstep : ∀ s s', Inv s → runCycle p prog s = .ok (some s') → Inv s') :
    ∀ tbl stalled, Diagram p prog tbl stalled → ∀ t, t < tbl.length →
      ∃ s s', Inv s ∧ s.table = (tbl.take t).reverse ∧ runCycle p prog s = .ok (some s') ∧
        s'.util = tbl.getD t ([] : List (N × List HI)) ∧ s'.table = (tbl.take (t + 1)).reverse := by
  intro tbl stalled hd
  obtain ⟨s, ⟨_, hrows⟩, ht, _⟩ := simulate_induction (p := p) (prog := prog)
    (fun s => Inv s ∧ RowsOK p prog Inv s.table) ⟨h0, trivial⟩
    (fun s s' hs hr => by
      refine ⟨hstep s s' hs.1 hr, ?_⟩
      obtain ⟨lab, qs, _, _, _, e⟩ := runCycle_eq_some hr
      subst e
      exact ⟨⟨s, _, hs.1, rfl, hr, rfl, rfl⟩, hs.2⟩)
    tbl stalled hd
  subst ht
  intro t hlt
  exact hrows.row t (by simpa using hlt)

/-- the rows of every diagram come from `HazardInv` states -/
theorem Diagram_hazard_rows {p : Proc N} {prog : List (Instr N)} (hwf : wfProc p = true) (hprog : ProgOK prog)
    {tbl : List (Util N)} {stalled : Bool} (hd : Diagram p prog tbl stalled) {t : Nat} (ht : t < tbl.length) :
    ∃ s s', HazardInv p prog s ∧ s.table = (tbl.take t).reverse ∧ runCycle p prog s = .ok (some s') ∧
      s'.util = tbl.getD t ([] : List (N × List HI)) ∧ s'.table = (tbl.take (t + 1)).reverse :=
  simulate_rows (HazardInv p prog) (HazardInv.init p prog) (fun _ _ h hs => h.step hwf hprog hs) tbl stalled hd t ht

/-! ## 8. Reading a diagram: `positions`, `accs`, `doneBefore` -/

section reading
omit [LT N] [DecidableRel (α := N) (· < ·)]

theorem mem_positions_iff (c : Ctx N) (i : Nat) (x : Nat × UnitM N × Stall) :
    x ∈ c.positions i ↔ x.1 < c.T ∧ x.2.1 ∈ c.p.allUnits ∧ (⟨i, x.2.2⟩ : HI) ∈ (c.row x.1).get x.2.1.name := by
  obtain ⟨t, u, l⟩ := x
  simp only [Ctx.positions, Ctx.units, Ctx.occ, List.mem_flatMap, List.mem_range, List.mem_map, List.mem_filter,
    beq_iff_eq, Prod.mk.injEq]
  constructor
  · rintro ⟨t', ht', u', hu', h, ⟨hh, hi⟩, rfl, rfl, rfl⟩
    refine ⟨ht', hu', ?_⟩
    cases h; simp only at hi; subst hi; exact hh
  · rintro ⟨ht, hu, hh⟩
    exact ⟨t, ht, u, hu, ⟨i, l⟩, ⟨hh, rfl⟩, rfl, rfl, rfl⟩

/-- `t ∈ accs wr i`: row `t` shows instruction `i` unstalled in a unit holding lock `wr` -/
theorem mem_accs_iff (c : Ctx N) (wr : Bool) (i t : Nat) :
    t ∈ c.accs wr i ↔ t < c.T ∧ accIn c.p (c.row t) wr i = true := by
  unfold Ctx.accs
  rw [List.mem_map, accIn_iff]
  constructor
  · rintro ⟨x, hx, rfl⟩
    obtain ⟨hpos, hf⟩ := List.mem_filter.1 hx
    obtain ⟨h1, h2, h3⟩ := (mem_positions_iff c i x).1 hpos
    simp only [Bool.and_eq_true, beq_iff_eq] at hf
    refine ⟨h1, x.2.1, h2, ?_, ?_⟩
    · cases wr <;> simpa using hf.2
    · rw [← hf.1]; exact h3
  · rintro ⟨ht, u, hu, hl, hm⟩
    refine ⟨(t, u, .U), List.mem_filter.2 ⟨(mem_positions_iff c i _).2 ⟨ht, hu, hm⟩, ?_⟩, rfl⟩
    cases wr <;> simpa using hl

/-- `doneBefore wr i t`: access `(wr, i)` is shown in one of the first `t` rows -/
theorem doneBefore_eq (p : Proc N) (prog : List (Instr N)) (tbl : List (Util N)) (st : Bool) (wr : Bool) (i t : Nat) :
    (ctx p prog tbl st).doneBefore wr i t = grantedB p (tbl.take t) wr i := by
  rw [Bool.eq_iff_iff]
  unfold Ctx.doneBefore grantedB
  simp only [List.any_eq_true, decide_eq_true_eq, mem_accs_iff]
  constructor
  · rintro ⟨t', ⟨hT, hacc⟩, hlt⟩
    refine ⟨tbl.getD t' [], ?_, hacc⟩
    rw [List.mem_take_iff_getElem]
    have hT' : t' < tbl.length := hT
    refine ⟨t', by omega, ?_⟩
    simp [List.getD_eq_getElem?_getD, hT']
  · rintro ⟨row, hrow, hacc⟩
    obtain ⟨t', ht', e⟩ := List.mem_take_iff_getElem.1 hrow
    have h1 : t' < tbl.length := by omega
    refine ⟨t', ⟨h1, ?_⟩, by omega⟩
    have : (ctx p prog tbl st).row t' = row := by
      simp [Ctx.row, ctx, List.getD_eq_getElem?_getD, h1, e]
    rw [this]; exact hacc

theorem grantedB_reverse (p : Proc N) (tbl : List (Util N)) (wr : Bool) (i : Nat) :
    grantedB p tbl.reverse wr i = grantedB p tbl wr i := by
  unfold grantedB; exact List.any_reverse

/-- **Core of C01, one cycle.** If request `x` on register `r` is granted in this cycle, every conflicting request `y`
of an older instruction on `r` was granted in an earlier recorded cycle. -/
theorem older_granted {p : Proc N} (hn : (p.allUnits.map (·.name)).Nodup) {prog : List (Instr N)} {s : SimState N}
    (hinv : PlanInv p prog s) {F : Util N} (hk : (AMap.keys F).Nodup) {r : N} {x y : Req}
    (hx : x ∈ rowReqs p.allUnits prog s.queues s.util F r) (hy : y ∈ reqsOf prog r) (hlt : y.2 < x.2)
    (hconf : y.1 = true ∨ x.1 = true) : grantedB p s.table y.1 y.2 = true := by
  have hserv := rowReqs_servable hn hk hx
  rw [canAccess_refines (hinv.wf r)] at hserv
  have hmem := mem_of_canServe hserv
  have hall := (canServe_sorted_iff (hinv.sorted r) hmem).1 hserv
  cases hg : grantedB p s.table y.1 y.2 with
  | true => rfl
  | false =>
    exfalso
    have hypend : y ∈ abs (s.queues.get r) := hinv.mem_abs.2 ⟨hy, hg⟩
    obtain ⟨ky, oy⟩ := y
    obtain ⟨kx, ox⟩ := x
    simp only at hlt hconf
    have hk' : key (ky, oy) < key (kx, ox) := by
      cases ky <;> cases kx <;> simp [key] <;> omega
    have := hall _ hypend hk'
    cases kx with
    | true =>
      simp only [if_true, Prod.mk.injEq] at this
      omega
    | false =>
      simp only [Bool.false_eq_true, if_false] at this
      rcases hconf with h | h
      · rw [this] at h; cases h
      · cases h

end reading

/-- **C01, request form.** In every diagram: if `(ki, i)` and `(kj, j)` are requests on the same register, `i` older
than `j`, at least one of them a write, then every cycle in which `j` performs its access is preceded by a strictly
earlier cycle in which `i` performs its own. -/
theorem ordered_of_conflict {p : Proc N} {prog : List (Instr N)} (hwf : wfProc p = true) (hprog : ProgOK prog)
    {tbl : List (Util N)} {stalled : Bool} (hd : Diagram p prog tbl stalled) {r : N} {i j : Nat} {ki kj : Bool}
    (hij : i < j) (hi : (ki, i) ∈ reqsOf prog r) (hj : (kj, j) ∈ reqsOf prog r) (hconf : ki = true ∨ kj = true) :
    orderedAcc (ctx p prog tbl stalled) ki kj i j = true := by
  unfold orderedAcc
  rw [List.all_eq_true]
  intro tj htj
  show (ctx p prog tbl stalled).doneBefore ki i tj = true
  rw [doneBefore_eq]
  obtain ⟨hT, hacc⟩ := (mem_accs_iff _ _ _ _).1 htj
  have hT' : tj < tbl.length := hT
  obtain ⟨s, s', hinv, htab, hrun, hutil, _⟩ := Diagram_hazard_rows hwf hprog hd hT'
  obtain ⟨lab, qs, hlab, _, _, e⟩ := runCycle_eq_some hrun
  subst e
  have hn := wfProc_nodup_names hwf
  have hk := (hinv.core.row.after_fillCycle hn prog).keys_nodup
  have hrow : (ctx p prog tbl stalled).row tj = lab.1 := hutil.symm
  rw [hrow] at hacc
  have hx := (mem_rowReqs_iff_accIn hn hk hlab hj).2 hacc
  have := older_granted hn hinv.plan hk hx hi hij hconf
  rw [htab, grantedB_reverse] at this
  exact this

/-- **Row view**: row `t` of a diagram is the labelling, against the queues of a `HazardInv` state whose table holds
the rows before `t`, of that state's filled record. -/
theorem row_view {p : Proc N} {prog : List (Instr N)} (hwf : wfProc p = true) (hprog : ProgOK prog)
    {tbl : List (Util N)} {stalled : Bool} (hd : Diagram p prog tbl stalled) {t : Nat} (ht : t < tbl.length) :
    ∃ s lab qs, HazardInv p prog s ∧ s.table = (tbl.take t).reverse ∧
      labelAll p.allUnits prog s.queues s.util (fillCycle p prog s.util s.entered).1 = .ok lab ∧
      applyClears s.queues lab.2 = .ok qs ∧ tbl.getD t ([] : List (N × List HI)) = lab.1 := by
  obtain ⟨s, s', hinv, htab, hrun, hutil, _⟩ := Diagram_hazard_rows hwf hprog hd ht
  obtain ⟨lab, qs, hlab, hclr, _, e⟩ := runCycle_eq_some hrun
  subst e
  exact ⟨s, lab, qs, hinv, htab, hlab, hclr, hutil.symm⟩

/-- a label of row `t`: the instruction is hosted in the filled record and the label is `labelOf` -/
theorem label_view {p : Proc N} {prog : List (Instr N)} (hwf : wfProc p = true) {s : SimState N}
    {lab : Util N × List (N × Nat)}
    (hlab : labelAll p.allUnits prog s.queues s.util (fillCycle p prog s.util s.entered).1 = .ok lab)
    {u : UnitM N} (hu : u ∈ p.allUnits) {i : Nat} {l : Stall} (hm : (⟨i, l⟩ : HI) ∈ lab.1.get u.name) :
    (∃ y ∈ (fillCycle p prog s.util s.entered).1.get u.name, y.idx = i) ∧
      l = labelOf prog s.queues u (s.util.get u.name) i := by
  obtain ⟨y, hy, e⟩ := (mem_labelled (wfProc_nodup_names hwf) hlab hu).1 hm
  injection e with e1 e2
  subst e1
  exact ⟨⟨y, hy, rfl⟩, e2⟩

/-- when an access is shown in row `t`, it is not shown in any earlier row -/
theorem acc_fresh {p : Proc N} {prog : List (Instr N)} (hwf : wfProc p = true) (hprog : ProgOK prog)
    {tbl : List (Util N)} {stalled : Bool} (hd : Diagram p prog tbl stalled) {k : Bool} {i t : Nat}
    (ht : t ∈ (ctx p prog tbl stalled).accs k i) : (ctx p prog tbl stalled).doneBefore k i t = false := by
  obtain ⟨hT, hacc⟩ := (mem_accs_iff _ _ _ _).1 ht
  have hT' : t < tbl.length := hT
  obtain ⟨s, lab, qs, hinv, htab, hlab, _, hrow⟩ := row_view hwf hprog hd hT'
  have hrow' : (ctx p prog tbl stalled).row t = lab.1 := hrow
  rw [hrow'] at hacc
  obtain ⟨u, hu, hlock, hm⟩ := accIn_iff.1 hacc
  obtain ⟨⟨y, hy, hyi⟩, hl⟩ := label_view hwf hlab hu hm
  have hwl := ((labelOf_U_iff _ _ _ _ _).1 hl.symm).1
  have hex := examined_facts hwf hinv.core hinv.host hu hy (by rw [hyi]; exact hwl)
  rw [doneBefore_eq, ← grantedB_reverse, ← htab, ← hyi]
  cases k with
  | false => exact hex.1 (by simpa using hlock)
  | true => exact hex.2.1 (by simpa using hlock)

/-- **every access is performed at most once** -/
theorem accs_unique {p : Proc N} {prog : List (Instr N)} (hwf : wfProc p = true) (hprog : ProgOK prog)
    {tbl : List (Util N)} {stalled : Bool} (hd : Diagram p prog tbl stalled) {k : Bool} {i t1 t2 : Nat}
    (h1 : t1 ∈ (ctx p prog tbl stalled).accs k i) (h2 : t2 ∈ (ctx p prog tbl stalled).accs k i) : t1 = t2 := by
  have key : ∀ a b, a ∈ (ctx p prog tbl stalled).accs k i → b ∈ (ctx p prog tbl stalled).accs k i → ¬ a < b := by
    intro a b ha hb hlt
    have := acc_fresh hwf hprog hd hb
    unfold Ctx.doneBefore at this
    rw [List.any_eq_false] at this
    exact this a ha (by simpa using hlt)
  have := key t1 t2 h1 h2
  have := key t2 t1 h2 h1
  omega

/-- **an instruction's read access is never after its write access** -/
theorem read_le_write {p : Proc N} {prog : List (Instr N)} (hwf : wfProc p = true) (hprog : ProgOK prog)
    {tbl : List (Util N)} {stalled : Bool} (hd : Diagram p prog tbl stalled) {i tr tw : Nat}
    (hr : tr ∈ (ctx p prog tbl stalled).accs false i) (hw : tw ∈ (ctx p prog tbl stalled).accs true i) : tr ≤ tw := by
  obtain ⟨hT, hacc⟩ := (mem_accs_iff _ _ _ _).1 hw
  have hT' : tw < tbl.length := hT
  obtain ⟨s, lab, qs, hinv, htab, hlab, _, hrow⟩ := row_view hwf hprog hd hT'
  have hrow' : (ctx p prog tbl stalled).row tw = lab.1 := hrow
  rw [hrow'] at hacc
  obtain ⟨u, hu, hlock, hm⟩ := accIn_iff.1 hacc
  have huw : u.wr = true := by simpa using hlock
  cases hur : u.rd with
  | true =>
    have : tw ∈ (ctx p prog tbl stalled).accs false i := by
      rw [mem_accs_iff]
      refine ⟨hT, ?_⟩
      rw [hrow', accIn_iff]
      exact ⟨u, hu, by simpa using hur, hm⟩
    exact Nat.le_of_eq (accs_unique hwf hprog hd hr this)
  | false =>
    obtain ⟨⟨y, hy, hyi⟩, hl⟩ := label_view hwf hlab hu hm
    have hwl := ((labelOf_U_iff _ _ _ _ _).1 hl.symm).1
    have hex := (examined_facts hwf hinv.core hinv.host hu hy (by rw [hyi]; exact hwl)).2.2 huw hur
    rw [hyi, htab, grantedB_reverse, ← doneBefore_eq p prog tbl stalled] at hex
    unfold Ctx.doneBefore at hex
    rw [List.any_eq_true] at hex
    obtain ⟨t', ht', hlt⟩ := hex
    have := accs_unique hwf hprog hd hr ht'
    have hlt' : t' < tw := by simpa using hlt
    omega

/-! ## 9. Exactness of the data-stall test, state level -/

section exact
omit [LT N] [DecidableRel (α := N) (· < ·)]

/-- `Spec.mustWait` with "performed before the cycle" given abstractly by `G` -/
def mustWaitG (c : Ctx N) (G : Bool → Nat → Bool) (i : Nat) (u : UnitM N) : Bool :=
  (u.rd && (c.srcs i).any (fun r => (List.range i).any (fun h => c.writes h r && !G true h))) ||
  (u.wr && (match c.dst? i with
    | none => false
    | some r =>
      (List.range i).any (fun h => (c.writes h r && !G true h) || (c.reads h r && !G false h))
      || (c.reads i r && !(G false i || u.rd))))

theorem mustWait_eq_G (c : Ctx N) (G : Bool → Nat → Bool) (i t : Nat) (u : UnitM N)
    (h : ∀ k j, c.doneBefore k j t = G k j) : mustWait c i t u = mustWaitG c G i u := by
  unfold mustWait mustWaitG
  simp only [h]
  cases c.dst? i <;> rfl

theorem writes_iff (c : Ctx N) (h : Nat) (r : N) : c.writes h r = true ↔ (true, h) ∈ reqsOf c.prog r := by
  rw [mem_reqsOf]
  unfold Ctx.writes Ctx.dst?
  cases c.prog[h]? with
  | none => simp
  | some ins => simp

theorem reads_iff (c : Ctx N) (h : Nat) (r : N) : c.reads h r = true ↔ (false, h) ∈ reqsOf c.prog r := by
  rw [mem_reqsOf]
  unfold Ctx.reads Ctx.srcs
  cases c.prog[h]? with
  | none => simp
  | some ins => simp

/-- an older write on `r` is outstanding iff a write of an older owner is pending in the queue of `r` -/
theorem olderWrite_iff {p : Proc N} {prog : List (Instr N)} {s : SimState N} (hinv : PlanInv p prog s) (c : Ctx N)
    (hc : c.prog = prog) (i : Nat) (r : N) :
    (List.range i).any (fun h => c.writes h r && !grantedB p s.table true h) = true ↔
      ∃ y ∈ abs (s.queues.get r), y.1 = true ∧ y.2 < i := by
  simp only [List.any_eq_true, List.mem_range, Bool.and_eq_true, Bool.not_eq_true', writes_iff, hc]
  constructor
  · rintro ⟨h, hlt, hw, hg⟩
    exact ⟨(true, h), hinv.mem_abs.2 ⟨hw, hg⟩, rfl, hlt⟩
  · rintro ⟨⟨k, h⟩, hy, hk, hlt⟩
    simp only at hk hlt
    subst hk
    obtain ⟨h1, h2⟩ := hinv.mem_abs.1 hy
    exact ⟨h, hlt, h1, h2⟩

/-- an older access on `r` is outstanding iff a request of an older owner is pending in the queue of `r` -/
theorem olderAny_iff {p : Proc N} {prog : List (Instr N)} {s : SimState N} (hinv : PlanInv p prog s) (c : Ctx N)
    (hc : c.prog = prog) (i : Nat) (r : N) :
    (List.range i).any (fun h => (c.writes h r && !grantedB p s.table true h) ||
        (c.reads h r && !grantedB p s.table false h)) = true ↔
      ∃ y ∈ abs (s.queues.get r), y.2 < i := by
  simp only [List.any_eq_true, List.mem_range, Bool.or_eq_true, Bool.and_eq_true, Bool.not_eq_true', writes_iff,
    reads_iff, hc]
  constructor
  · rintro ⟨h, hlt, ⟨hw, hg⟩ | ⟨hw, hg⟩⟩
    · exact ⟨(true, h), hinv.mem_abs.2 ⟨hw, hg⟩, hlt⟩
    · exact ⟨(false, h), hinv.mem_abs.2 ⟨hw, hg⟩, hlt⟩
  · rintro ⟨⟨k, h⟩, hy, hlt⟩
    obtain ⟨h1, h2⟩ := hinv.mem_abs.1 hy
    cases k with
    | true => exact ⟨h, hlt, Or.inl ⟨h1, h2⟩⟩
    | false => exact ⟨h, hlt, Or.inr ⟨h1, h2⟩⟩

theorem canAll_exact {qs : Queues N} {wr : Bool} {i : Nat} {rs : List N}
    (h : ∀ r ∈ rs, ∃ b, (qs.get r).canAccess wr i = some b) :
    ∃ b, canAll qs wr i rs = .ok b ∧ (b = true ↔ ∀ r ∈ rs, (qs.get r).canAccess wr i = some true) := by
  have hex : ∃ b, canAll qs wr i rs = .ok b := by
    induction rs with
    | nil => exact ⟨true, rfl⟩
    | cons r rs ih =>
      obtain ⟨b, hb⟩ := h r List.mem_cons_self
      unfold canAll
      cases b with
      | false => exact ⟨false, by simp [hb]⟩
      | true =>
        obtain ⟨b', hb'⟩ := ih (fun r' hr' => h r' (List.mem_cons_of_mem _ hr'))
        exact ⟨b', by simp [hb, hb']⟩
  obtain ⟨b, hb⟩ := hex
  refine ⟨b, hb, ?_⟩
  rw [← canAll_ok_true_iff, hb]
  constructor
  · intro e; rw [e]
  · intro e; injection e

/-- **the read test is exact**: it answers `False` iff an older write on a source is outstanding -/
theorem rdTest_exact {p : Proc N} {prog : List (Instr N)} {s : SimState N} (hinv : PlanInv p prog s) {u : UnitM N}
    {i : Nat} {ins : Instr N} (hins : prog[i]? = some ins)
    (hng : u.rd = true → grantedB p s.table false i = false) (c : Ctx N) (hc : c.prog = prog) :
    ∃ b, rdTest s.queues u i ins = .ok b ∧
      (b = false ↔ (u.rd && (c.srcs i).any (fun r =>
        (List.range i).any (fun h => c.writes h r && !grantedB p s.table true h))) = true) := by
  unfold rdTest
  cases hrd : u.rd with
  | false => exact ⟨true, rfl, by simp⟩
  | true =>
    have hsrcs : c.srcs i = ins.srcs := by simp [Ctx.srcs, hc, hins]
    have hpend : ∀ r ∈ ins.srcs, (false, i) ∈ abs (s.queues.get r) := fun r hr =>
      hinv.mem_abs.2 ⟨mem_reqsOf.2 ⟨ins, hins, by simpa using hr⟩, hng hrd⟩
    have hsome : ∀ r ∈ ins.srcs, ∃ b, (s.queues.get r).canAccess false i = some b := by
      intro r hr
      rw [canAccess_refines (hinv.wf r)]
      exact canServe_isSome (fun e => by have := hpend r hr; rw [e] at this; cases this) _ _
    obtain ⟨b, hb, hiff⟩ := canAll_exact hsome
    refine ⟨b, by simpa using hb, ?_⟩
    simp only [Bool.true_and, hsrcs]
    rw [List.any_eq_true]
    have hb' : b = false ↔ ¬ (∀ r ∈ ins.srcs, (s.queues.get r).canAccess false i = some true) := by
      rw [← hiff]; cases b <;> simp
    rw [hb']
    constructor
    · intro hne
      false_or_by_contra
      rename_i hno
      apply hne
      intro r hr
      rw [canAccess_refines (hinv.wf r), canServe_sorted_iff (hinv.sorted r) (hpend r hr)]
      intro y hy hk
      simp only [Bool.false_eq_true, if_false]
      cases hy1 : y.1 with
      | false => rfl
      | true =>
        exfalso
        apply hno
        refine ⟨r, hr, (olderWrite_iff hinv c hc i r).2 ⟨y, hy, hy1, ?_⟩⟩
        obtain ⟨k, h⟩ := y
        simp only at hy1; subst hy1
        simp [key] at hk; omega
    · rintro ⟨r, hr, hany⟩ hall
      obtain ⟨y, hy, hy1, hlt⟩ := (olderWrite_iff hinv c hc i r).1 hany
      have := hall r hr
      rw [canAccess_refines (hinv.wf r), canServe_sorted_iff (hinv.sorted r) (hpend r hr)] at this
      have := this y hy (by obtain ⟨k, h⟩ := y; simp only at hy1 hlt; subst hy1; simp [key]; omega)
      simp only [Bool.false_eq_true, if_false] at this
      rw [this] at hy1; cases hy1

/-- **the write test is exact**: it answers `False` iff an older access on the destination is outstanding -/
theorem wrTest_exact {p : Proc N} {prog : List (Instr N)} {s : SimState N} (hinv : PlanInv p prog s) {u : UnitM N}
    {i : Nat} {ins : Instr N} (hins : prog[i]? = some ins)
    (hng : u.wr = true → grantedB p s.table true i = false)
    (hrf : u.wr = true → u.rd = false → grantedB p s.table false i = true) (c : Ctx N) (hc : c.prog = prog) :
    ∃ b, wrTest s.queues u i ins = .ok b ∧
      (b = false ↔ (u.wr && (match c.dst? i with
        | none => false
        | some r =>
          (List.range i).any (fun h => (c.writes h r && !grantedB p s.table true h) ||
            (c.reads h r && !grantedB p s.table false h))
          || (c.reads i r && !(grantedB p s.table false i || u.rd)))) = true) := by
  unfold wrTest
  cases hwr : u.wr with
  | false => exact ⟨true, rfl, by simp⟩
  | true =>
    have hdst : c.dst? i = some ins.dst := by simp [Ctx.dst?, hc, hins]
    have hpend : (true, i) ∈ abs (s.queues.get ins.dst) :=
      hinv.mem_abs.2 ⟨mem_reqsOf.2 ⟨ins, hins, by simp⟩, hng hwr⟩
    have hsome : ∀ r ∈ [ins.dst], ∃ b, (s.queues.get r).canAccess true i = some b := by
      intro r hr
      simp only [List.mem_singleton] at hr; subst hr
      rw [canAccess_refines (hinv.wf _)]
      exact canServe_isSome (fun e => by rw [e] at hpend; cases hpend) _ _
    obtain ⟨b, hb, hiff⟩ := canAll_exact hsome
    refine ⟨b, by simpa using hb, ?_⟩
    have hextra : (c.reads i ins.dst && !(grantedB p s.table false i || u.rd)) = false := by
      cases hrd : u.rd with
      | true => simp
      | false => simp [hrf hwr hrd]
    simp only [Bool.true_and, hdst, hextra, Bool.or_false]
    rw [olderAny_iff hinv c hc i ins.dst]
    have hb' : b = false ↔ ¬ ((s.queues.get ins.dst).canAccess true i = some true) := by
      have : b = true ↔ (s.queues.get ins.dst).canAccess true i = some true := by simpa using hiff
      rw [← this]; cases b <;> simp
    rw [hb', canAccess_refines (hinv.wf _), canServe_sorted_iff (hinv.sorted _) hpend]
    simp only [if_true]
    constructor
    · intro hne
      false_or_by_contra
      rename_i hno
      apply hne
      intro y hy hk
      obtain ⟨k, h⟩ := y
      have hge : ¬ h < i := fun hlt => hno ⟨(k, h), hy, hlt⟩
      cases k <;> simp [key] at hk ⊢ <;> omega
    · rintro ⟨y, hy, hlt⟩ hall
      have := hall y hy (by obtain ⟨k, h⟩ := y; simp only at hlt; cases k <;> simp [key] <;> omega)
      rw [this] at hlt
      exact Nat.lt_irrefl _ hlt

/-- **`_regs_avail` is exact** for an examined instruction of a reachable state: it never raises, and it refuses iff
`mustWait` (w.r.t. the accesses shown in the recorded rows) holds. -/
theorem regsAvail_exact {p : Proc N} {prog : List (Instr N)} (hwf : wfProc p = true) {s : SimState N}
    (hinv : HazardInv p prog s) {u : UnitM N} (hu : u ∈ p.allUnits) {i e' : Nat}
    (ho : Stayed p s.util u.name i ∨ Moved p prog s.util u.name i ∨ Issued p prog s.entered e' u.name i)
    (hwl : wasLoaded (s.util.get u.name) i = false) {ins : Instr N} (hins : prog[i]? = some ins)
    (c : Ctx N) (hc : c.prog = prog) :
    ∃ o, regsAvail s.queues u i ins = .ok o ∧ (o = none ↔ mustWaitG c (grantedB p s.table) i u = true) := by
  obtain ⟨e1, e2, e3⟩ := examined_facts_origin hwf hinv.core hinv.host hu ho hwl
  obtain ⟨b1, hb1, hi1⟩ := rdTest_exact hinv.plan hins e1 c hc
  obtain ⟨b2, hb2, hi2⟩ := wrTest_exact hinv.plan hins e2 e3 c hc
  rw [regsAvail_eq, hb1, hb2]
  unfold mustWaitG
  rw [Bool.or_eq_true, ← hi1, ← hi2]
  cases b1 <;> cases b2 <;> simp

/-- the label of an examined instruction: `D` iff `mustWait`, else `U` -/
theorem labelOf_exact {p : Proc N} {prog : List (Instr N)} (hwf : wfProc p = true) {s : SimState N}
    (hinv : HazardInv p prog s) {u : UnitM N} (hu : u ∈ p.allUnits) {i e' : Nat}
    (ho : Stayed p s.util u.name i ∨ Moved p prog s.util u.name i ∨ Issued p prog s.entered e' u.name i)
    (hwl : wasLoaded (s.util.get u.name) i = false) {ins : Instr N} (hins : prog[i]? = some ins)
    (c : Ctx N) (hc : c.prog = prog) :
    labelOf prog s.queues u (s.util.get u.name) i =
      if mustWaitG c (grantedB p s.table) i u = true then .D else .U := by
  obtain ⟨o, ho', hiff⟩ := regsAvail_exact hwf hinv hu ho hwl hins c hc
  unfold labelOf
  simp only [hwl, Bool.false_eq_true, if_false, hins, ho']
  cases o with
  | none => simp [hiff.1 rfl]
  | some regs =>
    have : ¬ mustWaitG c (grantedB p s.table) i u = true := fun h => by have := hiff.2 h; cases this
    simp [this]

end exact

/-! ## 10. No fault: a cycle of a reachable state never raises -/

section nofault
omit [LT N] [DecidableRel (α := N) (· < ·)]

theorem labelList_ok_of {prog : List (Instr N)} {qs : Queues N} {unit : UnitM N} {old l : List HI}
    (h : ∀ x ∈ l, wasLoaded old x.idx = false →
      ∃ ins o, prog[x.idx]? = some ins ∧ regsAvail qs unit x.idx ins = .ok o) :
    ∃ r, labelList prog qs unit old l = .ok r := by
  induction l with
  | nil => exact ⟨_, rfl⟩
  | cons x xs ih =>
    obtain ⟨r, hr⟩ := ih (fun y hy => h y (List.mem_cons_of_mem _ hy))
    unfold labelList
    cases hw : wasLoaded old x.idx with
    | true => simp [hr]
    | false =>
      obtain ⟨ins, o, hins, ho⟩ := h x List.mem_cons_self hw
      simp only [Bool.false_eq_true, if_false, hins, ho, hr]
      cases o <;> exact ⟨_, rfl⟩

theorem labelAll_ok_of {units : List (UnitM N)} {prog : List (Instr N)} {qs : Queues N} {old : Util N} {F : Util N}
    (h : ∀ e ∈ AMap.toList F, e.2 ≠ [] → ∃ unit, lookupUnit units e.1 = some unit ∧
      ∀ x ∈ e.2, wasLoaded (old.get e.1) x.idx = false →
        ∃ ins o, prog[x.idx]? = some ins ∧ regsAvail qs unit x.idx ins = .ok o) :
    ∃ lab, labelAll units prog qs old F = .ok lab := by
  induction F with
  | nil => exact ⟨_, rfl⟩
  | cons e rest ih =>
    obtain ⟨n, l⟩ := e
    obtain ⟨r, hr⟩ := ih (fun e' he' => h e' (List.mem_cons_of_mem _ he'))
    unfold labelAll
    by_cases hl : l.isEmpty = true
    · simp [hl, hr]
    · have hne : l ≠ [] := fun e => hl (List.isEmpty_iff.2 e)
      obtain ⟨unit, hlu, hx⟩ := h (n, l) List.mem_cons_self hne
      obtain ⟨rl, hrl⟩ := labelList_ok_of hx
      simp only at hlu hrl
      simp [hl, hlu, hrl, hr]

theorem applyClears_ok_of {qs : Queues N} {cs : List (N × Nat)}
    (h : ∀ r, ∃ q', runHistory (qs.get r) ((cs.filter (fun c => decide (c.1 = r))).map (·.2)) = some q') :
    ∃ qs', applyClears qs cs = .ok qs' := by
  induction cs generalizing qs with
  | nil => exact ⟨_, rfl⟩
  | cons c cs ih =>
    obtain ⟨a, i⟩ := c
    unfold applyClears
    obtain ⟨q', hq'⟩ := h a
    simp only [List.filter_cons, decide_true, if_true, List.map_cons, runHistory_cons] at hq'
    cases hd : (qs.get a).dequeue i with
    | none => rw [hd] at hq'; cases hq'
    | some q =>
      rw [hd, Option.bind_some] at hq'
      simp only
      apply ih
      intro r
      by_cases ha : a = r
      · subst ha
        rw [Queues.get_set_eq]; exact ⟨q', hq'⟩
      · obtain ⟨q'', hq''⟩ := h r
        simp only [List.filter_cons, ha, decide_false, Bool.false_eq_true, if_false] at hq''
        rw [Queues.get_set_ne _ _ ha]; exact ⟨q'', hq''⟩

end nofault

/-- the labelling of a reachable state's filled record never raises (no `IndexError`/`KeyError` in `_chk_hazards`:
`can_access` is never asked on an emptied queue) -/
theorem labelAll_ok {p : Proc N} {prog : List (Instr N)} (hwf : wfProc p = true) {s : SimState N}
    (hinv : HazardInv p prog s) :
    ∃ lab, labelAll p.allUnits prog s.queues s.util (fillCycle p prog s.util s.entered).1 = .ok lab := by
  have hn := wfProc_nodup_names hwf
  have hFb := hinv.core.row.after_fillCycle hn prog
  have hF := fillCycle_issueInv prog s.util s.entered hn (wfProc_orderOK hwf)
  have hle := fillCycle_entered_le p prog s.util s.entered hinv.core.entered_le
  apply labelAll_ok_of
  intro e he hne
  have hget : (fillCycle p prog s.util s.entered).1.get e.1 = e.2 := Util.get_of_mem hFb.keys_nodup he
  obtain ⟨u, hu, hun⟩ := List.mem_map.1 (hFb.names e.1 (by rw [hget]; exact hne))
  refine ⟨u, by rw [← hun]; exact lookupUnit_of_mem hn hu, ?_⟩
  intro x hx hwl
  rw [← hget, ← hun] at hx
  have hlt := hFb.idx_lt _ x hx
  obtain ⟨ins, hins⟩ : ∃ ins, prog[x.idx]? = some ins :=
    ⟨prog[x.idx]'(by omega), List.getElem?_eq_getElem (by omega)⟩
  rw [← hun] at hwl
  obtain ⟨o, ho, _⟩ := regsAvail_exact hwf hinv hu (hF.origin u.name x hx) hwl hins (ctx p prog [] false) rfl
  exact ⟨ins, o, hins, ho⟩

/-- the deferred dequeues of a reachable state's cycle never raise -/
theorem applyClears_ok {p : Proc N} {prog : List (Instr N)} (hwf : wfProc p = true) (hprog : ProgOK prog)
    {s : SimState N} (hinv : HazardInv p prog s) {lab : Util N × List (N × Nat)}
    (hlab : labelAll p.allUnits prog s.queues s.util (fillCycle p prog s.util s.entered).1 = .ok lab) :
    ∃ qs, applyClears s.queues lab.2 = .ok qs := by
  apply applyClears_ok_of
  intro r
  rw [clears_owners hprog hlab r]
  have hb := rowReqs_batch hwf hinv.core hinv.plan (hinv.host.readFirst hwf hinv.core) r
  have href := runHistory_refines (hinv.plan.wf r)
    ((rowReqs p.allUnits prog s.queues s.util (fillCycle p prog s.util s.entered).1 r).map (·.2))
  rw [hb] at href
  cases hr : runHistory (s.queues.get r)
      ((rowReqs p.allUnits prog s.queues s.util (fillCycle p prog s.util s.entered).1 r).map (·.2)) with
  | none => rw [hr] at href; cases href
  | some q' => exact ⟨q', rfl⟩

/-- **A cycle of a reachable state never raises.** -/
theorem runCycle_ok {p : Proc N} {prog : List (Instr N)} (hwf : wfProc p = true) (hprog : ProgOK prog)
    {s : SimState N} (hinv : HazardInv p prog s) : ∃ o, runCycle p prog s = .ok o := by
  obtain ⟨lab, hlab⟩ := labelAll_ok hwf hinv
  obtain ⟨qs, hclr⟩ := applyClears_ok hwf hprog hinv hlab
  unfold runCycle
  simp only [hlab, hclr]
  split <;> exact ⟨_, rfl⟩

theorem simLoop_fault {p : Proc N} {prog : List (Instr N)} (Inv : SimState N → Prop)
    (hstep : ∀ s s', Inv s → runCycle p prog s = .ok (some s') → Inv s') :
    ∀ fuel s f, Inv s → simLoop p prog fuel s = .fault f →
      f = .fuel ∨ ∃ s', Inv s' ∧ runCycle p prog s' = .error f := by
  intro fuel
  induction fuel with
  | zero =>
    intro s f _ h
    unfold simLoop at h
    split at h
    · cases h
    · injection h with h; exact Or.inl h.symm
  | succ fuel ih =>
    intro s f hs h
    unfold simLoop at h
    split at h
    · cases h
    · cases hr : runCycle p prog s with
      | error f' =>
        rw [hr] at h
        injection h with h
        subst h
        exact Or.inr ⟨s, hs, hr⟩
      | ok o =>
        rw [hr] at h
        cases o with
        | none => cases h
        | some s' => exact ih s' f (hstep s s' hs hr) h

/-- **`simulate` never raises**: for a well-formed processor and a program without repeated sources the only possible
fault outcome of the model is running out of fuel (excluded by C08). -/
theorem no_fault {p : Proc N} {prog : List (Instr N)} (hwf : wfProc p = true) (hprog : ProgOK prog) {f : Fault}
    (h : simulate p prog = .fault f) : f = .fuel := by
  rcases simLoop_fault (HazardInv p prog) (fun _ _ hs hr => hs.step hwf hprog hr) _ _ f (HazardInv.init p prog) h with
    h | ⟨s', hs', hr⟩
  · exact h
  · obtain ⟨o, ho⟩ := runCycle_ok hwf hprog hs'
    rw [ho] at hr; cases hr

/-- no `IndexError` on an emptied access queue and no `KeyError`/`IndexError` in `dequeue` -/
theorem no_queue_fault {p : Proc N} {prog : List (Instr N)} (hwf : wfProc p = true) (hprog : ProgOK prog) :
    simulate p prog ≠ .fault .queueEmpty ∧ simulate p prog ≠ .fault .badDequeue := by
  constructor
  · intro h; have := no_fault hwf hprog h; cases this
  · intro h; have := no_fault hwf hprog h; cases this

omit [LT N] [DecidableRel (α := N) (· < ·)] in
/-- **Exactness in the stall-detecting (unrecorded) cycle**: an instruction that is data-stalled in the last record and
is labelled `D` again when that record is re-examined must wait w.r.t. the whole recorded diagram. -/
theorem stalled_D_mustWait {p : Proc N} {prog : List (Instr N)} (hwf : wfProc p = true) {s : SimState N}
    (hinv : HazardInv p prog s) {u : UnitM N} (hu : u ∈ p.allUnits) {x : HI} (hx : x ∈ s.util.get u.name)
    (hxD : x.st = .D) (hl : labelOf prog s.queues u (s.util.get u.name) x.idx = .D) (stalled : Bool) :
    mustWait (ctx p prog s.table.reverse stalled) x.idx s.table.length u = true := by
  have hwl : wasLoaded (s.util.get u.name) x.idx = false := by
    rw [wasLoaded_eq_of_mem (hinv.core.nd.nodup_unit u.name) hx, hxD]; rfl
  have hlt := hinv.core.row.idx_lt _ x hx
  have hle := hinv.core.entered_le
  obtain ⟨ins, hins⟩ : ∃ ins, prog[x.idx]? = some ins :=
    ⟨prog[x.idx]'(by omega), List.getElem?_eq_getElem (by omega)⟩
  have ho : Stayed p s.util u.name x.idx ∨ Moved p prog s.util u.name x.idx ∨
      Issued p prog s.entered s.entered u.name x.idx := Or.inl ⟨x, hx, rfl, fun _ => hxD⟩
  have := labelOf_exact hwf hinv hu ho hwl hins (ctx p prog s.table.reverse stalled) rfl
  rw [hl] at this
  rw [mustWait_eq_G _ (grantedB p s.table)]
  · by_cases hm : mustWaitG (ctx p prog s.table.reverse stalled) (grantedB p s.table) x.idx u = true
    · exact hm
    · rw [if_neg hm] at this; cases this
  · intro k j
    rw [doneBefore_eq, show s.table.length = s.table.reverse.length by simp, List.take_length, grantedB_reverse]

/-! ## 11. Every instruction that has left has performed both accesses -/

section maximal
omit [LT N] [DecidableRel (α := N) (· < ·)]

/-- consecutive units are connected -/
def SuccChain (p : Proc N) : List (UnitM N) → Prop
  | [] => True
  | [_] => True
  | a :: b :: rest => b ∈ succsOf p a.name ∧ SuccChain p (b :: rest)

theorem routesFrom_head (p : Proc N) (c : N) (fuel : Nat) (v : UnitM N) :
    ∀ r ∈ routesFrom p c fuel v, ∃ t, r = v :: t := by
  intro r hr
  cases fuel with
  | zero => simp [routesFrom] at hr; exact ⟨[], hr⟩
  | succ f =>
    unfold routesFrom at hr
    simp only at hr
    split at hr
    · simp at hr; exact ⟨[], hr⟩
    · simp only [List.mem_map] at hr
      obtain ⟨r', _, rfl⟩ := hr
      exact ⟨r', rfl⟩

theorem routesFrom_chain (p : Proc N) (c : N) (fuel : Nat) (v : UnitM N) :
    ∀ r ∈ routesFrom p c fuel v, SuccChain p r := by
  induction fuel generalizing v with
  | zero => intro r hr; simp [routesFrom] at hr; subst hr; trivial
  | succ f ih =>
    intro r hr
    unfold routesFrom at hr
    simp only at hr
    split at hr
    · simp at hr; subst hr; trivial
    · simp only [List.mem_map, List.mem_flatMap] at hr
      obtain ⟨r', ⟨w, hw, hr'⟩, rfl⟩ := hr
      obtain ⟨t, rfl⟩ := routesFrom_head p c f w r' hr'
      exact ⟨(List.mem_filter.1 hw).1, ih w _ hr'⟩

theorem SuccChain.next {p : Proc N} {l : List (UnitM N)} {a x : UnitM N} {t : List (UnitM N)}
    (h : SuccChain p (l ++ [a] ++ x :: t)) : x ∈ succsOf p a.name := by
  induction l with
  | nil => exact h.1
  | cons b l' ih =>
    cases l' with
    | nil => exact ih h.2
    | cons b' l'' => exact ih h.2

/-- **A walk from an input-boundary port that ends at the output boundary passes a read-locking and a write-locking
unit.** -/
theorem maximal_walk_locks {p : Proc N} (hwf : wfProc p = true) {c : N} {w : List (UnitM N)} {u : UnitM N}
    (hw : IsWalk p c (w ++ [u])) (hstart : ∃ v0 ∈ p.inBoundary, (w ++ [u]).head? = some v0)
    (hout : u.name ∈ p.outBoundary) : ∀ k, (w ++ [u]).any (lockOf k) = true := by
  obtain ⟨v0, hv0, hhead⟩ := hstart
  obtain ⟨rest, hW⟩ : ∃ rest, w ++ [u] = v0 :: rest := by
    cases hwu : w ++ [u] with
    | nil => simp at hwu
    | cons a t => rw [hwu] at hhead; simp at hhead; exact ⟨t, by rw [hhead]⟩
  rw [hW] at hw
  have ho := wfProc_orderOK hwf
  have hlen : rest.length ≤ p.allUnits.length := by
    have h1 := hw.length_le ho
    have h2 := rank_le p v0.name
    have h3 : p.dests.length ≤ p.allUnits.length := by
      simp only [Proc.allUnits, Proc.dests, List.length_append, List.length_map]; omega
    omega
  obtain ⟨r, hr, hpre⟩ := hw.prefix_route hlen
  have hc0 : c ∈ v0.caps := by
    cases rest with
    | nil => exact hw
    | cons _ _ => exact hw.1
  have hcap : c ∈ allCaps p := by
    unfold allCaps
    rw [mem_dedup, List.mem_flatMap]
    exact ⟨v0, mem_allUnits_of_mem_inBoundary hv0, hc0⟩
  have hok := wfProc_routes hwf c hcap v0 hv0 hc0 r hr
  have hchain := routesFrom_chain p c _ v0 r hr
  rw [← hW] at hpre
  obtain ⟨t, ht⟩ := hpre
  have htnil : t = [] := by
    cases t with
    | nil => rfl
    | cons x t' =>
      exfalso
      rw [← ht] at hchain
      obtain ⟨d, hd, hq, _⟩ := mem_succsOf'.1 hchain.next
      exact (orderOK_pred ho hd hq).2.1 hout
  subst htnil
  rw [List.append_nil] at ht
  subst ht
  obtain ⟨a, b, _, _, _, ⟨va, hva, hvard⟩, ⟨vb, hvb, hvbwr⟩⟩ := routeLocksOK_iff hok
  intro k
  rw [List.any_eq_true]
  cases k with
  | false => exact ⟨va, List.mem_of_getElem? hva, hvard⟩
  | true => exact ⟨vb, List.mem_of_getElem? hvb, hvbwr⟩

end maximal

/-- every issued instruction is still hosted or has performed both its read and its write access -/
def DoneInv (p : Proc N) (prog : List (Instr N)) (s : SimState N) : Prop :=
  ∀ i, i < s.entered → (∃ n, i ∈ (s.util.get n).map (·.idx)) ∨ ∀ k, grantedB p s.table k i = true

omit [LT N] [DecidableRel (α := N) (· < ·)] in
theorem DoneInv.init (p : Proc N) (prog : List (Instr N)) : DoneInv p prog (initState prog) := by
  intro i hi; simp [initState] at hi

omit [LT N] [DecidableRel (α := N) (· < ·)] in
/-- a not data-stalled instruction at the output boundary has performed both accesses -/
theorem granted_of_outB {p : Proc N} {prog : List (Instr N)} (hwf : wfProc p = true) {s : SimState N}
    (hh : HazInv p prog s) {u : UnitM N} (hu : u ∈ p.allUnits) (hout : u.name ∈ p.outBoundary) {y : HI}
    (hy : y ∈ s.util.get u.name) (hyd : y.st ≠ .D) : ∀ k, grantedB p s.table k y.idx = true := by
  obtain ⟨ins, w, _, hwalk, hstart, hg⟩ := hh u hu y hy
  intro k
  have := maximal_walk_locks hwf hwalk hstart hout k
  rw [hg k]
  rw [List.any_append] at this
  have hd : (y.st != .D) = true := by simpa using hyd
  simpa [hd] using this

theorem DoneInv.step {p : Proc N} {prog : List (Instr N)} (hwf : wfProc p = true) {s s' : SimState N}
    (hc : CoreInv p prog s) (hh : HazInv p prog s) (hdn : DoneInv p prog s)
    (hs : runCycle p prog s = .ok (some s')) : DoneInv p prog s' := by
  obtain ⟨lab, qs, hlab, _, _, rfl⟩ := runCycle_eq_some hs
  have hn := wfProc_nodup_names hwf
  have hF := fillCycle_issueInv prog s.util s.entered hn (wfProc_orderOK hwf)
  have hidx := labelAll_get_idx hlab
  intro i hi
  show (∃ n, i ∈ (lab.1.get n).map (·.idx)) ∨ ∀ k, grantedB p (lab.1 :: s.table) k i = true
  by_cases hlt : i < s.entered
  · rcases hdn i hlt with ⟨n, hn'⟩ | hg
    · obtain ⟨y, hy, hyi⟩ := List.mem_map.1 hn'
      by_cases hcond : n ∉ p.outBoundary ∨ y.st = .D
      · obtain ⟨n', hn''⟩ := hF.alive n y hy hcond
        left; exact ⟨n', by rw [hidx n', ← hyi]; exact hn''⟩
      · right
        have hout : n ∈ p.outBoundary := Classical.byContradiction (fun h => hcond (Or.inl h))
        have hyd : y.st ≠ .D := fun h => hcond (Or.inr h)
        have hne : s.util.get n ≠ [] := fun e => by rw [e] at hy; cases hy
        obtain ⟨u, hu, hun⟩ := List.mem_map.1 (hc.row.names n hne)
        subst hun
        intro k
        rw [grantedB_cons, ← hyi, granted_of_outB hwf hh hu hout hy hyd k]; simp
    · right; intro k; rw [grantedB_cons, hg k]; simp
  · obtain ⟨n, hn'⟩ := hF.hosted i (by omega) hi
    left; exact ⟨n, by rw [hidx n]; exact hn'⟩

end Hazards
end ProcSim
