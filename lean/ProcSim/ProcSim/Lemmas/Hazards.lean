import ProcSim.Lemmas.SimCore
import ProcSim.Props.C19
/-!
# Register hazards: the access plan, the queue invariant and what it implies (C01, C02)

1. `reqsOf prog r` — the requests the access plan registers for register `r`, in program order;
   `buildPlan_get : (buildPlan prog).get r = Queue.build (reqsOf prog r)`, `programOrder_reqsOf`.
2. request-level facts about sorted pending lists (`canServe_sorted_iff`, `runSpec_batch`).
3. `PlanInv` — every queue stands for the requests not yet granted in a recorded row; initial state and
   preservation by `runCycle`.
4. per-row lifting principle `simulate_rows`.

Core Lean only (no Mathlib import).
-/
namespace ProcSim
open Spec QueueLemmas

attribute [local implicit_reducible] AMap

variable {N : Type} [DecidableEq N]

namespace Hazards

/-! ## 1. The access plan -/

/-- the requests instruction `i` registers on register `r`: its read (if `r` is a source), then its write (if `r` is
the destination) -/
def reqsOfInstr (r : N) (i : Nat) (ins : Instr N) : List Req :=
  (if r ∈ ins.srcs then [(false, i)] else []) ++ (if ins.dst = r then [(true, i)] else [])

def reqsFrom (r : N) : Nat → List (Instr N) → List Req
  | _, [] => []
  | i, ins :: rest => reqsOfInstr r i ins ++ reqsFrom r (i + 1) rest

/-- all requests on register `r`, in registration (= program) order -/
def reqsOf (prog : List (Instr N)) (r : N) : List Req := reqsFrom r 0 prog

/-- the sources of every instruction are pairwise distinct (guaranteed by the `HwInstruction` constructor, which
stores the sorted, de-duplicated tuple of sources) -/
def ProgOK (prog : List (Instr N)) : Prop := ∀ ins ∈ prog, ins.srcs.Nodup

theorem push_cons_ne_nil (g : Group) (X : Queue) (hX : X ≠ []) (wr : Bool) (o : Nat) :
    Queue.push (g :: X) wr o = g :: Queue.push X wr o := by
  cases X with
  | nil => exact absurd rfl hX
  | cons g' rest => rfl

theorem push_ne_nil (q : Queue) (wr : Bool) (o : Nat) : Queue.push q wr o ≠ [] := by
  match q with
  | [] => simp
  | [g] => rw [push_single]; split <;> simp
  | g :: g' :: rest => simp [push_cons_cons]

theorem addOwner_idem (os : List Nat) (o : Nat) : Queue.addOwner (Queue.addOwner os o) o = Queue.addOwner os o := by
  unfold Queue.addOwner
  by_cases h : o ∈ os <;> simp [h]

/-- registering the same read twice in a row is registering it once (Python: `set.add`) -/
theorem push_false_idem (q : Queue) (o : Nat) : (q.push false o).push false o = q.push false o := by
  induction q with
  | nil => simp [push_single, Queue.addOwner]
  | cons g rest ih =>
    cases rest with
    | nil =>
      rw [push_single]
      cases hg : g.wr with
      | false =>
        simp only [and_self, if_true]
        rw [push_single]; simp [addOwner_idem]
      | true =>
        simp only [Bool.true_eq_false, and_false, if_false]
        rw [push_cons_cons, push_single]; simp [Queue.addOwner]
    | cons g' rest' =>
      rw [push_cons_cons, push_cons_ne_nil _ _ (push_ne_nil _ _ _), ih]

theorem addReads_get (qs : Queues N) (i : Nat) (srcs : List N) (r : N) :
    (addReads qs i srcs).get r = if r ∈ srcs then (qs.get r).push false i else qs.get r := by
  induction srcs generalizing qs with
  | nil => simp [addReads]
  | cons a rs ih =>
    unfold addReads
    rw [ih, Queues.get_set]
    by_cases ha : a = r
    · subst ha
      by_cases hr : a ∈ rs
      · simp [hr, push_false_idem]
      · simp [hr]
    · have ha' : ¬ r = a := fun e => ha e.symm
      simp [ha, ha']

theorem addInstr_get (qs : Queues N) (i : Nat) (ins : Instr N) (r : N) :
    (addInstr qs i ins).get r = (reqsOfInstr r i ins).foldl (fun q x => q.push x.1 x.2) (qs.get r) := by
  unfold addInstr reqsOfInstr
  simp only [Queues.get_set, addReads_get]
  by_cases hd : ins.dst = r
  · subst hd
    by_cases hs : ins.dst ∈ ins.srcs <;> simp [hs]
  · by_cases hs : r ∈ ins.srcs <;> simp [hs, hd]

theorem buildPlanFrom_get (qs : Queues N) (i : Nat) (prog : List (Instr N)) (r : N) :
    (buildPlanFrom qs i prog).get r = (reqsFrom r i prog).foldl (fun q x => q.push x.1 x.2) (qs.get r) := by
  induction prog generalizing qs i with
  | nil => rfl
  | cons ins rest ih =>
    unfold buildPlanFrom reqsFrom
    rw [ih, addInstr_get, List.foldl_append]

/-- **The access plan**: the queue of register `r` is the queue built from `reqsOf prog r`. -/
theorem buildPlan_get (prog : List (Instr N)) (r : N) : (buildPlan prog).get r = Queue.build (reqsOf prog r) := by
  unfold buildPlan reqsOf Queue.build
  rw [buildPlanFrom_get]
  rfl

/-! ### membership and order of `reqsOf` -/

theorem mem_reqsOfInstr {r : N} {i : Nat} {ins : Instr N} {x : Req} :
    x ∈ reqsOfInstr r i ins ↔ x.2 = i ∧ (if x.1 then ins.dst = r else r ∈ ins.srcs) := by
  obtain ⟨w, o⟩ := x
  unfold reqsOfInstr
  by_cases hs : r ∈ ins.srcs <;> by_cases hd : ins.dst = r <;> cases w <;> simp [hs, hd, eq_comm]

theorem mem_reqsFrom {r : N} {i : Nat} {prog : List (Instr N)} {x : Req} :
    x ∈ reqsFrom r i prog ↔
      ∃ ins, i ≤ x.2 ∧ prog[x.2 - i]? = some ins ∧ (if x.1 then ins.dst = r else r ∈ ins.srcs) := by
  induction prog generalizing i with
  | nil => simp [reqsFrom]
  | cons ins rest ih =>
    unfold reqsFrom
    rw [List.mem_append, mem_reqsOfInstr, ih]
    constructor
    · rintro (⟨h1, h2⟩ | ⟨ins', h1, h2, h3⟩)
      · exact ⟨ins, by omega, by simp [h1], h2⟩
      · refine ⟨ins', by omega, ?_, h3⟩
        have e : x.2 - i = (x.2 - (i + 1)) + 1 := by omega
        rw [e]; simpa using h2
    · rintro ⟨ins', h1, h2, h3⟩
      by_cases e : x.2 = i
      · left
        rw [e] at h2
        simp only [Nat.sub_self, List.getElem?_cons_zero, Option.some.injEq] at h2
        subst h2
        exact ⟨e, h3⟩
      · right
        refine ⟨ins', by omega, ?_, h3⟩
        have e' : x.2 - i = (x.2 - (i + 1)) + 1 := by omega
        rw [e'] at h2; simpa using h2

/-- `(wr, i)` is registered on `r` iff instruction `i` exists and reads (`wr = false`) / writes (`wr = true`) `r` -/
theorem mem_reqsOf {prog : List (Instr N)} {r : N} {x : Req} :
    x ∈ reqsOf prog r ↔ ∃ ins, prog[x.2]? = some ins ∧ (if x.1 then ins.dst = r else r ∈ ins.srcs) := by
  unfold reqsOf
  rw [mem_reqsFrom]
  simp

theorem reqsFrom_key_ge {r : N} {i : Nat} {prog : List (Instr N)} {x : Req} (h : x ∈ reqsFrom r i prog) :
    2 * i ≤ key x := by
  obtain ⟨_, h1, _⟩ := mem_reqsFrom.1 h
  unfold key; omega

theorem reqsFrom_pairwise (r : N) (i : Nat) (prog : List (Instr N)) :
    (reqsFrom r i prog).Pairwise (fun a b => key a < key b) := by
  induction prog generalizing i with
  | nil => exact List.Pairwise.nil
  | cons ins rest ih =>
    unfold reqsFrom
    rw [List.pairwise_append]
    refine ⟨?_, ih (i + 1), ?_⟩
    · unfold reqsOfInstr
      by_cases hs : r ∈ ins.srcs <;> by_cases hd : ins.dst = r <;> simp [hs, hd, key]
    · intro a ha b hb
      have h1 := (mem_reqsOfInstr.1 ha).1
      have h2 := reqsFrom_key_ge hb
      obtain ⟨w, o⟩ := a
      obtain ⟨w', o'⟩ := b
      cases w <;> cases w' <;> simp [key] at h1 h2 ⊢ <;> omega

/-- the requests on one register are strictly sorted by `key` = 2·owner + isWrite -/
theorem reqsOf_pairwise (prog : List (Instr N)) (r : N) :
    (reqsOf prog r).Pairwise (fun a b => key a < key b) := reqsFrom_pairwise r 0 prog

theorem programOrder_of_pairwise {l : List Req} (h : l.Pairwise (fun a b => key a < key b)) :
    programOrder l = true := by
  induction l with
  | nil => rfl
  | cons a t ih =>
    cases t with
    | nil => rfl
    | cons b t' =>
      rw [List.pairwise_cons] at h
      obtain ⟨w1, o1⟩ := a
      obtain ⟨w2, o2⟩ := b
      unfold programOrder
      rw [ih h.2, Bool.and_true]
      have hk := h.1 (w2, o2) List.mem_cons_self
      cases w1 <;> cases w2 <;> simp [key] at hk ⊢ <;> omega

/-- the access plan registers requests in program order (the hypothesis of C19) -/
theorem programOrder_reqsOf (prog : List (Instr N)) (r : N) : programOrder (reqsOf prog r) = true :=
  programOrder_of_pairwise (reqsOf_pairwise prog r)

theorem reqsOf_nodup (prog : List (Instr N)) (r : N) : (reqsOf prog r).Nodup :=
  programOrder_nodup (programOrder_reqsOf prog r)

theorem abs_buildPlan (prog : List (Instr N)) (r : N) : abs ((buildPlan prog).get r) = reqsOf prog r := by
  rw [buildPlan_get]
  exact C19_abs_build _ (programOrder_runsDistinct (programOrder_reqsOf prog r))

theorem wf_buildPlan (prog : List (Instr N)) (r : N) : WFq ((buildPlan prog).get r) := by
  rw [buildPlan_get]; exact C19_build_wf _

/-! ## 2. Request-level facts about `key`-sorted pending lists -/

abbrev Sorted (P : List Req) : Prop := P.Pairwise (fun a b => key a < key b)

theorem Sorted.nodup {P : List Req} (h : Sorted P) : P.Nodup :=
  h.imp (fun {a b} hab e => by rw [e] at hab; exact Nat.lt_irrefl _ hab)

theorem Sorted.split {pre post : List Req} {y : Req} (h : Sorted (pre ++ y :: post)) :
    (∀ x ∈ pre, key x < key y) ∧ (∀ x ∈ post, key y < key x) ∧ Sorted pre := by
  rw [Sorted, List.pairwise_append, List.pairwise_cons] at h
  exact ⟨fun x hx => h.2.2 x hx y List.mem_cons_self, h.2.1.1, h.1⟩

theorem Sorted.mem_pre {pre post : List Req} {y x : Req} (h : Sorted (pre ++ y :: post))
    (hx : x ∈ pre ++ y :: post) (hk : key x < key y) : x ∈ pre := by
  rcases List.mem_append.1 hx with h1 | h1
  · exact h1
  · rcases List.mem_cons.1 h1 with e | e
    · subst e; exact absurd hk (Nat.lt_irrefl _)
    · have := h.split.2.1 x e; omega

/-- a servable request is pending; in particular the pending list is not empty -/
theorem canServe_isSome {P : List Req} (hne : P ≠ []) (wr : Bool) (o : Nat) : ∃ b, canServe P wr o = some b := by
  match P, hne with
  | (true, a) :: t, _ => exact ⟨_, rfl⟩
  | (false, a) :: t, _ =>
    cases wr
    · exact ⟨_, (canServe_read_head a t o).1⟩
    · exact ⟨_, (canServe_read_head a t o).2⟩

/-- **Servability on a sorted pending list**: a pending read can be served iff every older pending request is a read;
a pending write iff the only older pending request, if any, is its owner's own read. -/
theorem canServe_sorted_iff {P : List Req} (hs : Sorted P) {wr : Bool} {o : Nat} (hm : (wr, o) ∈ P) :
    canServe P wr o = some true ↔
      ∀ x ∈ P, key x < key (wr, o) → (if wr then x = (false, o) else x.1 = false) := by
  rw [canServe_eq_some_true_iff]
  obtain ⟨pre, post, hP⟩ := List.append_of_mem hm
  have hsp := hP ▸ hs
  constructor
  · rintro (⟨hw, hl⟩ | ⟨hw, hh | hh⟩)
    · subst hw
      obtain ⟨pre', post', hP', hpre'⟩ := (mem_leadReads_iff P o).1 hl
      intro x hx hk
      have hs' := hP' ▸ hs
      have := hs'.mem_pre (hP' ▸ hx) hk
      simpa using hpre' x this
    · subst hw
      intro x hx hk
      cases hPc : P with
      | nil => rw [hPc] at hx; cases hx
      | cons a t =>
        rw [hPc] at hh hx hs
        simp only [List.head?_cons, Option.some.injEq] at hh
        subst hh
        rcases List.mem_cons.1 hx with e | e
        · subst e; exact absurd hk (Nat.lt_irrefl _)
        · have := (List.pairwise_cons.1 hs).1 x e; omega
    · subst hw
      obtain ⟨rest, hr⟩ := (own_read_write_iff P o).1 hh
      intro x hx hk
      rw [hr] at hx hs
      rcases List.mem_cons.1 hx with e | e
      · simpa using e
      · rcases List.mem_cons.1 e with e | e
        · subst e; exact absurd hk (Nat.lt_irrefl _)
        · have := (List.pairwise_cons.1 (List.pairwise_cons.1 hs).2).1 x e; omega
  · intro h
    cases wr with
    | false =>
      refine Or.inl ⟨rfl, (mem_leadReads_iff P o).2 ⟨pre, post, hP, ?_⟩⟩
      intro x hx
      have := h x (by rw [hP]; exact List.mem_append_left _ hx) (hsp.split.1 x hx)
      simpa using this
    | true =>
      refine Or.inr ⟨rfl, ?_⟩
      have hall : ∀ x ∈ pre, x = (false, o) := fun x hx => by
        have := h x (by rw [hP]; exact List.mem_append_left _ hx) (hsp.split.1 x hx)
        simpa using this
      have hpn := hsp.split.2.2.nodup
      match pre, hall, hpn with
      | [], _, _ => left; rw [hP]; rfl
      | [a], hall, _ =>
        right
        have := hall a List.mem_cons_self
        subst this
        exact (own_read_write_iff P o).2 ⟨post, by rw [hP]; rfl⟩
      | a :: b :: t, hall, hpn =>
        have h1 := hall a List.mem_cons_self
        have h2 := hall b (List.mem_cons_of_mem _ List.mem_cons_self)
        rw [List.nodup_cons] at hpn
        exact absurd (by rw [h1, h2]; exact List.mem_cons_self) hpn.1

theorem mem_leadReads_erase {P : List Req} {o o' : Nat} (h : o' ∈ leadReads P) (hne : o' ≠ o) :
    o' ∈ leadReads (P.erase (false, o)) := by
  induction P with
  | nil => simp [leadReads] at h
  | cons x t ih =>
    obtain ⟨w, a⟩ := x
    cases w with
    | true => simp [leadReads] at h
    | false =>
      simp only [leadReads, List.mem_cons] at h
      by_cases ha : a = o
      · subst ha
        rw [List.erase_cons_head]
        rcases h with e | e
        · exact absurd e hne
        · exact e
      · have hne' : ((false, a) == ((false, o) : Req)) = false := by simp [ha]
        rw [List.erase_cons_tail (by simp [ha])]
        simp only [leadReads, List.mem_cons]
        rcases h with e | e
        · exact Or.inl e
        · exact Or.inr (ih e)

/-- removing distinct reads of the leading run, one after the other, never fails and removes exactly these -/
theorem runSpec_reads {P : List Req} (hP : P.Nodup) (rs : List Req) (hrs : rs.Nodup)
    (hrd : ∀ x ∈ rs, x.1 = false) (hl : ∀ x ∈ rs, x.2 ∈ leadReads P) :
    runSpec P (rs.map (·.2)) = some (P.filter (fun x => decide (x ∉ rs))) := by
  induction rs generalizing P with
  | nil => simp [runSpec, List.filter_eq_self.2]
  | cons y rs ih =>
    obtain ⟨w, o⟩ := y
    have hw : w = false := hrd _ List.mem_cons_self
    subst hw
    have ho : o ∈ leadReads P := hl _ List.mem_cons_self
    rw [List.nodup_cons] at hrs
    have hrem : removeSpec P o = some (P.erase (false, o)) :=
      (removeSpec_eq_some_iff _ _ _).2 (Or.inr ⟨ho, rfl⟩)
    rw [List.map_cons, runSpec_cons, hrem, Option.bind_some]
    rw [ih (hP.erase _) hrs.2 (fun x hx => hrd x (List.mem_cons_of_mem _ hx))]
    · rw [hP.erase_eq_filter, List.filter_filter]
      congr 1
      apply List.filter_congr
      intro x _
      by_cases e : x = (false, o) <;> simp [e, hrs.1]
    · intro x hx
      apply mem_leadReads_erase (hl x (List.mem_cons_of_mem _ hx))
      intro e
      apply hrs.1
      have h1 := hrd x (List.mem_cons_of_mem _ hx)
      obtain ⟨w', o'⟩ := x
      simp only at h1 e
      subst h1; subst e
      exact hx

theorem eq_pair_of_subset_pair {α : Type} {a b : α} {l : List α} (hn : l.Nodup) (hsub : ∀ x ∈ l, x = a ∨ x = b)
    (hs : [a, b].Sublist l) : l = [a, b] := by
  match l, hn, hsub, hs with
  | [], _, _, hs => cases hs
  | [x], _, _, hs => have := hs.length_le; simp at this
  | [x, y], _, _, hs => exact (hs.eq_of_length rfl).symm
  | x :: y :: z :: t, hn, hsub, _ =>
    exfalso
    have hx := hsub x (by simp)
    have hy := hsub y (by simp)
    have hz := hsub z (by simp)
    simp only [List.nodup_cons, List.mem_cons, not_or] at hn
    obtain ⟨⟨h1, h2, _⟩, ⟨h3, _⟩, _⟩ := hn
    rcases hx with rfl | rfl <;> rcases hy with rfl | rfl <;> rcases hz with rfl | rfl <;> simp_all

/-- **Batch removal.** All requests of `rs` can be served on the pending list `P`; whenever a write is in the batch
while its owner's own read is still pending, that read is in the batch before it. Then dequeuing the owners of `rs`
in order never fails and removes exactly the requests of `rs`. -/
theorem runSpec_batch {P : List Req} (hP : P.Nodup) (rs : List Req) (hrs : rs.Nodup)
    (hserv : ∀ x ∈ rs, canServe P x.1 x.2 = some true)
    (hown : ∀ o, (true, o) ∈ rs → (false, o) ∈ P → [(false, o), (true, o)].Sublist rs) :
    runSpec P (rs.map (·.2)) = some (P.filter (fun x => decide (x ∉ rs))) := by
  by_cases hall : ∀ x ∈ rs, x.1 = false
  · apply runSpec_reads hP rs hrs hall
    intro x hx
    rcases (canServe_eq_some_true_iff P x.1 x.2).1 (hserv x hx) with ⟨_, h⟩ | ⟨h, _⟩
    · exact h
    · rw [hall x hx] at h; cases h
  · have : ∃ o, (true, o) ∈ rs := by
      false_or_by_contra
      rename_i hno
      apply hall
      intro x hx
      obtain ⟨w, o⟩ := x
      cases w with
      | false => rfl
      | true => exact absurd ⟨o, hx⟩ hno
    obtain ⟨o, ho⟩ := this
    rcases (canServe_eq_some_true_iff P true o).1 (hserv _ ho) with ⟨h, _⟩ | ⟨_, hh | hh⟩
    · cases h
    · -- the head is the write of `o`
      cases hPc : P with
      | nil => rw [hPc] at hh; cases hh
      | cons a t =>
        rw [hPc] at hh
        simp only [List.head?_cons, Option.some.injEq] at hh
        subst hh
        have hx : ∀ x ∈ rs, x = (true, o) := by
          intro x hx
          have := hserv x hx
          rw [hPc, canServe_write_head] at this
          obtain ⟨w', o'⟩ := x
          simpa using this
        have hrs1 : rs = [(true, o)] := by
          match rs, hrs, hx, ho with
          | [y], _, hx, _ => rw [hx y List.mem_cons_self]
          | y :: z :: t, hrs, hx, _ =>
            have h1 := hx y List.mem_cons_self
            have h2 := hx z (List.mem_cons_of_mem _ List.mem_cons_self)
            rw [List.nodup_cons] at hrs
            exact absurd (by rw [h1, h2]; exact List.mem_cons_self) hrs.1
        rw [hPc] at hP
        have hnt : (true, o) ∉ t := (List.nodup_cons.1 hP).1
        rw [hrs1]
        simp only [List.map_cons, List.map_nil, runSpec_cons, removeSpec_write_head, if_true, Option.bind_some,
          runSpec, List.mem_singleton, Option.some.injEq]
        rw [List.filter_cons]
        simp only [not_true_eq_false, decide_false, Bool.false_eq_true, if_false]
        symm
        apply List.filter_eq_self.2
        intro x hx'
        simp only [decide_eq_true_eq]
        intro e; subst e; exact hnt hx'
    · -- own pair at the front
      obtain ⟨rest, hr⟩ := (own_read_write_iff P o).1 hh
      have hx : ∀ x ∈ rs, x = (false, o) ∨ x = (true, o) := by
        intro x hx
        have := hserv x hx
        obtain ⟨w', o'⟩ := x
        rcases (canServe_eq_some_true_iff P w' o').1 this with ⟨hw, hl⟩ | ⟨hw, h1 | h1⟩
        · simp only at hw hl; subst hw
          rw [hh.1] at hl
          left; simpa using hl
        · simp only at hw h1; subst hw
          rw [hr] at h1; simp at h1
        · simp only at hw h1; subst hw
          rw [hh.1] at h1
          right; simpa using h1.1.symm
      have hrs2 : rs = [(false, o), (true, o)] :=
        eq_pair_of_subset_pair hrs hx (hown o ho (by rw [hr]; exact List.mem_cons_self))
      rw [hr] at hP
      simp only [List.nodup_cons, List.mem_cons, not_or] at hP
      rw [hrs2, hr]
      simp only [List.map_cons, List.map_nil, runSpec_cons, (removeSpec_own_pair o rest).1,
        (removeSpec_own_pair o rest).2, Option.bind_some, runSpec, Option.some.injEq]
      rw [List.filter_cons, List.filter_cons]
      simp only [List.mem_cons, true_or, or_true, not_true_eq_false, decide_false, Bool.false_eq_true, if_false]
      symm
      apply List.filter_eq_self.2
      intro x hx'
      simp only [decide_eq_true_eq, List.not_mem_nil, or_false, not_or]
      exact ⟨fun e => hP.1.2 (e ▸ hx'), fun e => hP.2.1 (e ▸ hx')⟩

end Hazards
end ProcSim
