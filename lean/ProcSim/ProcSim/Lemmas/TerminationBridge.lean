import ProcSim.Lemmas.Termination
import ProcSim.Lemmas.Hazards
/-!
# Bridge between the termination development (`Lemmas/Termination.lean`) and the register-queue invariant
(`Lemmas/Hazards.lean`)

* every reachable state (`Term.Reach`) satisfies `Hazards.HazardInv`;
* hence the `D` clause of "stall ⇒ frozen" (`Term.FrozenDClause`) holds for every well-formed processor and every
  program whose instructions have duplicate-free source tuples (`Hazards.ProgOK`).
-/
namespace ProcSim
namespace Term

open Spec

variable {N : Type} [DecidableEq N] [LT N] [DecidableRel (α := N) (· < ·)]

theorem Reach.hazardInv {p : Proc N} {prog : List (Instr N)} (hwf : wfProc p = true) (hprog : Hazards.ProgOK prog)
    {s : SimState N} (h : Reach p prog s) : Hazards.HazardInv p prog s := by
  induction h with
  | init => exact Hazards.HazardInv.init p prog
  | step _ hr ih => exact ih.step hwf hprog hr

/-- the `D` clause of "stall ⇒ frozen" holds (exactness of data stalls for the unrecorded stall-detecting cycle) -/
theorem frozenDClause_holds {p : Proc N} {prog : List (Instr N)} (hwf : wfProc p = true)
    (hprog : Hazards.ProgOK prog) : FrozenDClause p prog := by
  intro s hs _ u hu x hx hxD hl
  exact Hazards.stalled_D_mustWait hwf (hs.hazardInv hwf hprog) hu hx hxD hl true

end Term
end ProcSim
