import ProcSim.Lemmas.LoaderC10
import ProcSim.Lemmas.LoaderRoutes
/-!
# The `Bool` side of C10: the path searches of `Spec/Loader.lean` decide `Feeds`, `KeptConn`, `Live`

For a declarative description graph `g : DG N` with pairwise different unit names (`g.names.Nodup`), connections
between listed units (`ConnIn g`) and no closed walk (`g.rgAll.Acyclic`):

* `feedsB_iff`      — `g.feedsB c u = true ↔ g.Feeds c u`
* `capsIn_keptTable`/`mem_keptTable_iff` — the table lists exactly the fed capabilities
* `keptConnB_iff`   — `g.keptConnB a b = true ↔ g.KeptConn a b`
* `liveB_iff`, `mem_liveUnits_iff` — `g.liveB u = true ↔ g.Live u`

The searches are sound without any hypothesis; completeness needs the fuel `|names|` to be enough, i.e. that a
walk never repeats a unit (acyclicity, `LoaderRoutes.nodup_of_acyclic`).
-/
set_option linter.unusedSectionVars false

namespace ProcSim
namespace Loader
open Spec

variable {N : Type} [DecidableEq N]

namespace Spec.DG
variable (g : DG N)

/-- every connection joins two listed units -/
def ConnIn : Prop := ∀ a b, (a, b) ∈ g.conns → a ∈ g.names ∧ b ∈ g.names

variable {g}

theorem conn_iff {a b : N} : g.conn a b = true ↔ (a, b) ∈ g.conns := by
  unfold DG.conn; exact decide_eq_true_iff

theorem mem_preds {u v : N} : v ∈ g.preds u ↔ v ∈ g.names ∧ g.conn v u = true := by
  simp [DG.preds, List.mem_filter]

theorem mem_succs {u v : N} : v ∈ g.succs u ↔ v ∈ g.names ∧ g.conn u v = true := by
  simp [DG.succs, List.mem_filter]

theorem declares_iff {u c : N} : g.declares u c = true ↔ ∃ x ∈ g.units, x.name = u ∧ c ∈ x.caps := by
  simp [DG.declares, List.any_eq_true]

theorem declares_mem_names {u c : N} (h : g.declares u c = true) : u ∈ g.names := by
  obtain ⟨x, hx, rfl, -⟩ := declares_iff.1 h
  exact List.mem_map_of_mem hx

theorem unit?_of_mem (hn : g.names.Nodup) {x : UnitD N} (hx : x ∈ g.units) : g.unit? x.name = some x := by
  obtain ⟨units, conns⟩ := g
  unfold DG.unit? DG.names at *
  simp only at *
  induction units with
  | nil => simp at hx
  | cons a t ih =>
    simp only [List.map_cons, List.nodup_cons] at hn
    by_cases ha : a.name = x.name
    · rcases List.mem_cons.1 hx with rfl | h
      · simp
      · exact absurd (ha ▸ List.mem_map_of_mem h) hn.1
    · rcases List.mem_cons.1 hx with rfl | h
      · exact absurd rfl ha
      · simp only [List.find?_cons, ha, decide_false]
        exact ih hn.2 h

theorem unit?_some {u : N} {x : UnitD N} (h : g.unit? u = some x) : x ∈ g.units ∧ x.name = u := by
  unfold DG.unit? at h
  exact ⟨List.mem_of_find?_eq_some h, by simpa using List.find?_some h⟩

/-- `Feeds` as forward reachability -/
theorem feeds_iff_reach {c u : N} : g.Feeds c u ↔
    ReachFrom (fun i => g.origIn i = true ∧ g.declares i c = true)
      (fun a b => g.conn a b = true ∧ g.declares b c = true) u := by
  unfold DG.Feeds
  rw [reachFrom_iff_walk]
  constructor
  · rintro ⟨r, hw, hd, ⟨i, hi, ho⟩, hl⟩
    have := (WalkR_and_forall (R := fun a b => g.conn a b = true) (D := fun x => g.declares x c = true)).1 ⟨hw, hd⟩
    exact ⟨r, ⟨i, hi, ho, this.2 i hi⟩, this.1, hl⟩
  · rintro ⟨r, ⟨i, hi, ho, hci⟩, hw, hl⟩
    have := (WalkR_and_forall (R := fun a b => g.conn a b = true) (D := fun x => g.declares x c = true)).2
      ⟨hw, fun a ha => by rw [hi] at ha; cases ha; exact hci⟩
    exact ⟨r, this.1, this.2, ⟨i, hi, ho⟩, hl⟩

theorem Feeds.declares {c u : N} (h : g.Feeds c u) : g.declares u c = true := by
  rw [feeds_iff_reach] at h
  cases h with
  | base h => exact h.2
  | step _ h => exact h.2

theorem Feeds.mem_names {c u : N} (h : g.Feeds c u) : u ∈ g.names := declares_mem_names h.declares

/-! ### `feedsB` -/

theorem feedsAux_sound (c : N) : ∀ (k : Nat) (u : N), g.feedsAux c k u = true → g.Feeds c u
  | 0, _, h => by simp [DG.feedsAux] at h
  | k + 1, u, h => by
    simp only [DG.feedsAux, Bool.and_eq_true, Bool.or_eq_true, List.any_eq_true] at h
    rw [feeds_iff_reach]
    rcases h.2 with ho | ⟨p, hp, hf⟩
    · exact .base ⟨ho, h.1⟩
    · exact .step (feeds_iff_reach.1 (feedsAux_sound c k p hf)) ⟨(mem_preds.1 hp).2, h.1⟩

theorem feedsAux_mono (c : N) : ∀ (k : Nat) (u : N), g.feedsAux c k u = true → g.feedsAux c (k + 1) u = true
  | 0, _, h => by simp [DG.feedsAux] at h
  | k + 1, u, h => by
    rw [DG.feedsAux] at h ⊢
    simp only [Bool.and_eq_true, Bool.or_eq_true, List.any_eq_true] at h ⊢
    refine ⟨h.1, h.2.imp id ?_⟩
    rintro ⟨p, hp, hf⟩
    exact ⟨p, hp, feedsAux_mono c k p hf⟩

theorem feedsAux_mono_le (c : N) {k k' : Nat} (hk : k ≤ k') {u : N} (h : g.feedsAux c k u = true) :
    g.feedsAux c k' u = true := by
  induction hk with
  | refl => exact h
  | step _ ih => exact feedsAux_mono c _ u ih

/-- following a walk forwards, the search succeeds with one more unit of fuel per step -/
theorem feedsAux_of_walk (hc : g.ConnIn) (c : N) : ∀ (r : List N) (i u : N) (k : Nat), g.feedsAux c k i = true →
    r.head? = some i → WalkR (fun a b => g.conn a b = true ∧ g.declares b c = true) r → r.getLast? = some u →
    g.feedsAux c (k + r.length - 1) u = true
  | [], _, _, _, _, h, _, _ => by simp at h
  | [a], i, u, k, hi, h1, _, h3 => by
    simp only [List.head?_cons, Option.some.injEq, List.getLast?_singleton] at h1 h3
    subst h1 h3
    simpa using hi
  | a :: b :: l, i, u, k, hi, h1, h2, h3 => by
    simp only [List.head?_cons, Option.some.injEq] at h1
    subst h1
    rw [List.getLast?_cons_cons] at h3
    have hb : g.feedsAux c (k + 1) b = true := by
      rw [DG.feedsAux]
      simp only [Bool.and_eq_true, Bool.or_eq_true, List.any_eq_true]
      exact ⟨h2.1.2, .inr ⟨a, mem_preds.2 ⟨(hc _ _ (conn_iff.1 h2.1.1)).1, h2.1.1⟩, hi⟩⟩
    have := feedsAux_of_walk hc c (b :: l) b u (k + 1) hb rfl h2.2 h3
    simp only [List.length_cons] at this ⊢
    have e : k + (l.length + 1 + 1) - 1 = k + 1 + (l.length + 1) - 1 := by omega
    rw [e]; exact this

theorem feedsB_iff (hc : g.ConnIn) (ha : g.rgAll.Acyclic) {c u : N} : g.feedsB c u = true ↔ g.Feeds c u := by
  constructor
  · exact feedsAux_sound c _ u
  · rintro ⟨r, hw, hd, ⟨i, hi, ho⟩, hl⟩
    have hnd : r.Nodup := LoaderRoutes.nodup_of_acyclic g.rgAll ha hw
    have hsub : r ⊆ g.names := fun x hx => declares_mem_names (hd x hx)
    have hlen := hnd.length_le_of_subset hsub
    have hw' := (WalkR_and_forall (R := fun a b => g.conn a b = true) (D := fun x => g.declares x c = true)).1 ⟨hw, hd⟩
    have h1 : g.feedsAux c 1 i = true := by
      simp only [DG.feedsAux, Bool.and_eq_true, Bool.or_eq_true]
      exact ⟨hw'.2 i hi, .inl ho⟩
    have := feedsAux_of_walk hc c r i u 1 h1 hi hw'.1 hl
    refine feedsAux_mono_le c ?_ this
    have : 0 < r.length := by cases r <;> simp at hi ⊢
    omega

/-! ### the table of kept capabilities -/

theorem capsIn_keptTable (u : N) : capsIn g.keptTable u = g.keptCaps u := by
  unfold capsIn DG.keptTable DG.keptCaps DG.unit?
  rw [List.find?_map]
  have : ((fun p : N × List N => decide (p.1 = u)) ∘ fun x : UnitD N => (x.name, x.caps.filter fun c => g.feedsB c x.name))
      = fun x : UnitD N => decide (x.name = u) := rfl
  rw [this]
  cases h : g.units.find? (fun x => decide (x.name = u)) with
  | none => rfl
  | some x =>
    have : x.name = u := by simpa using List.find?_some h
    simp [this]

theorem mem_keptTable_iff (hn : g.names.Nodup) (hc : g.ConnIn) (ha : g.rgAll.Acyclic) {u c : N} :
    c ∈ capsIn g.keptTable u ↔ g.Feeds c u := by
  rw [capsIn_keptTable]
  unfold DG.keptCaps
  constructor
  · intro h
    split at h
    · exact (feedsB_iff hc ha).1 (by simpa using (List.mem_filter.1 h).2)
    · simp at h
  · intro h
    obtain ⟨x, hx, rfl, hcx⟩ := declares_iff.1 h.declares
    rw [unit?_of_mem hn hx]
    exact List.mem_filter.2 ⟨hcx, (feedsB_iff hc ha).2 h⟩

/-! ### kept connections and live units, for a table `t` that lists exactly the fed capabilities -/

section Table
variable {t : List (N × List N)} (ht : ∀ u c, c ∈ capsIn t u ↔ g.Feeds c u)
include ht

theorem keptConnT_iff {a b : N} : g.keptConnT t a b = true ↔ g.KeptConn a b := by
  unfold DG.keptConnT DG.KeptConn
  simp only [Bool.and_eq_true, List.any_eq_true, decide_eq_true_eq]
  exact and_congr_right fun _ => exists_congr fun c => by rw [ht, ht]

theorem capsIn_nonempty_iff {u : N} : (!(capsIn t u).isEmpty) = true ↔ ∃ c, g.Feeds c u := by
  rw [Bool.not_eq_true', ← Bool.not_eq_true, List.isEmpty_iff, List.eq_nil_iff_forall_not_mem, Classical.not_forall]
  exact exists_congr fun c => by rw [Classical.not_not, ht]

/-- `Live` as reachability of an original output port -/
theorem live_iff_reach {u : N} : g.Live u ↔ (∃ c, g.Feeds c u) ∧ ReachTo g.KeptConn (fun o => g.origOut o = true) u := by
  unfold DG.Live
  rw [reachTo_iff_walk]

omit ht in
theorem KeptConn.fed_right {a b : N} (h : g.KeptConn a b) : ∃ c, g.Feeds c b := by
  obtain ⟨c, _, hc⟩ := h.2; exact ⟨c, hc⟩

theorem liveAux_sound : ∀ (k : Nat) (u : N), g.liveAux t k u = true → g.Live u
  | 0, _, h => by simp [DG.liveAux] at h
  | k + 1, u, h => by
    rw [DG.liveAux, Bool.and_eq_true, capsIn_nonempty_iff ht] at h
    rw [live_iff_reach ht]
    refine ⟨h.1, ?_⟩
    simp only [Bool.or_eq_true, List.any_eq_true, Bool.and_eq_true] at h
    rcases h.2 with ho | ⟨v, -, hk, hl⟩
    · exact .base ho
    · exact .step ((keptConnT_iff ht).1 hk) ((live_iff_reach ht).1 (liveAux_sound k v hl)).2

theorem liveAux_of_walk (hc : g.ConnIn) : ∀ (r : List N) (u : N) (k : Nat), r.length ≤ k → (∃ c, g.Feeds c u) →
    r.head? = some u → (∃ o, r.getLast? = some o ∧ g.origOut o = true) → WalkR g.KeptConn r → g.liveAux t k u = true
  | [], _, _, _, _, h, _, _ => by simp at h
  | _, _, 0, hk, _, h, _, _ => by
    have := List.eq_nil_of_length_eq_zero (Nat.le_zero.1 hk)
    subst this; simp at h
  | [a], u, k + 1, _, hf, h1, ⟨o, h3, ho⟩, _ => by
    simp only [List.head?_cons, Option.some.injEq, List.getLast?_singleton] at h1 h3
    subst h1 h3
    rw [DG.liveAux, Bool.and_eq_true, capsIn_nonempty_iff ht]
    exact ⟨hf, by simp [ho]⟩
  | a :: b :: l, u, k + 1, hk, hf, h1, ⟨o, h3, ho⟩, hw => by
    simp only [List.head?_cons, Option.some.injEq] at h1
    subst h1
    rw [List.getLast?_cons_cons] at h3
    rw [DG.liveAux, Bool.and_eq_true, capsIn_nonempty_iff ht]
    refine ⟨hf, ?_⟩
    simp only [Bool.or_eq_true, List.any_eq_true, Bool.and_eq_true]
    refine .inr ⟨b, mem_succs.2 ⟨(hc _ _ (conn_iff.1 hw.1.1)).2, hw.1.1⟩, (keptConnT_iff ht).2 hw.1, ?_⟩
    exact liveAux_of_walk hc (b :: l) b k (by simpa using hk) hw.1.fed_right rfl ⟨o, h3, ho⟩ hw.2

theorem liveAux_iff (hc : g.ConnIn) (ha : g.rgAll.Acyclic) {u : N} : g.liveAux t g.names.length u = true ↔ g.Live u := by
  constructor
  · exact liveAux_sound ht _ u
  · rintro ⟨hf, r, hh, ⟨o, hl, ho⟩, hw⟩
    have hw' : g.rgAll.Walk r := WalkR.mono (fun a b hab => hab.1) hw
    have hnd : r.Nodup := LoaderRoutes.nodup_of_acyclic g.rgAll ha hw'
    have hsub : r ⊆ g.names := by
      cases r with
      | nil => simp at hh
      | cons x r =>
        simp only [List.head?_cons, Option.some.injEq] at hh
        subst hh
        intro y hy
        rcases List.mem_cons.1 hy with rfl | hy
        · obtain ⟨c, hc'⟩ := hf; exact hc'.mem_names
        · exact LoaderRoutes.walk_mem_names g.rgAll (fun a b hab => (hc a b (conn_iff.1 hab)).2) r x hw' y hy
    exact liveAux_of_walk ht hc r u _ (hnd.length_le_of_subset hsub) hf hh ⟨o, hl, ho⟩ hw

theorem mem_liveIn_iff (hc : g.ConnIn) (ha : g.rgAll.Acyclic) {u : N} : u ∈ g.liveIn t ↔ g.Live u := by
  unfold DG.liveIn
  rw [List.mem_filter, liveAux_iff ht hc ha]
  exact ⟨fun h => h.2, fun h => ⟨by obtain ⟨c, hc'⟩ := h.1; exact hc'.mem_names, h⟩⟩

end Table

theorem keptConnB_iff (hn : g.names.Nodup) (hc : g.ConnIn) (ha : g.rgAll.Acyclic) {a b : N} :
    g.keptConnB a b = true ↔ g.KeptConn a b :=
  keptConnT_iff (fun _ _ => mem_keptTable_iff hn hc ha)

theorem liveB_iff (hn : g.names.Nodup) (hc : g.ConnIn) (ha : g.rgAll.Acyclic) {u : N} : g.liveB u = true ↔ g.Live u :=
  liveAux_iff (fun _ _ => mem_keptTable_iff hn hc ha) hc ha

theorem mem_liveUnits_iff (hn : g.names.Nodup) (hc : g.ConnIn) (ha : g.rgAll.Acyclic) {u : N} :
    u ∈ g.liveUnits ↔ g.Live u :=
  mem_liveIn_iff (fun _ _ => mem_keptTable_iff hn hc ha) hc ha

end Spec.DG

/-- the connections of `dgOf` always join listed units (`stdName` returns a unit name) -/
theorem dgOf_connIn [LT N] [DecidableRel (α := N) (· < ·)] (fold : N → N) (d : Desc N) : (dgOf fold d).ConnIn := by
  intro a b hab
  rw [dgOf_names]
  simp only [dgOf, connections, List.mem_filterMap] at hab
  obtain ⟨x, -, hm⟩ := hab
  split at hm
  next a0 b0 =>
    split at hm
    next a' b' ha hb =>
      simp only [Option.some.injEq, Prod.mk.injEq] at hm
      obtain ⟨rfl, rfl⟩ := hm
      exact ⟨List.mem_of_find?_eq_some ha, List.mem_of_find?_eq_some hb⟩
    · simp at hm
  · simp at hm

end Loader
end ProcSim
