import ProcSim.Lemmas.LoaderGraph
/-!
# Lemmas for C10 — the loaded processor is exactly the usable part

* §1 the graph of `_create_graph` is the declarative reading `dgOf` of the description (names, connections,
  declared capabilities in standard spelling, final registry = `stdCapName`)
* §2 forward propagation (`cleanStruct`) computes exactly the feedable capabilities (`FeedsG`, by induction along
  `topoOrder`) and keeps exactly the connections whose ends share one
* §3 `rmEmpty` + `chkTerminals` keep exactly the live units (`LiveG`)
* §4 transfer to the walk-based specification (`DG.Feeds`, `DG.KeptConn`, `DG.Live`)
-/
namespace ProcSim
namespace Loader
open Spec

set_option linter.unusedSectionVars false

variable {N : Type} [DecidableEq N] (fold : N → N)

/-! ## §1 capability registry and `dgOf` -/

/-- standard spelling w.r.t. a list of spellings read in order -/
def stdIn (T : List N) (c : N) : N := (lookupFold fold T c).getD c

theorem lookupFold_append (l₁ l₂ : List N) (x : N) :
    lookupFold fold (l₁ ++ l₂) x = (lookupFold fold l₁ x).or (lookupFold fold l₂ x) := by
  simp [lookupFold, List.find?_append]

theorem lookupFold_congr {l : List N} {x y : N} (h : fold x = fold y) : lookupFold fold l x = lookupFold fold l y := by
  simp [lookupFold, h]

theorem lookupFold_cons (a : N) (l : List N) (x : N) :
    lookupFold fold (a :: l) x = if fold a = fold x then some a else lookupFold fold l x := by
  by_cases h : fold a = fold x <;> simp [lookupFold, h]

theorem lookupFold_singleton (c x : N) : lookupFold fold [c] x = if fold c = fold x then some c else none := by
  rw [lookupFold_cons]; rfl

theorem fold_stdIn (T : List N) (c : N) : fold (stdIn fold T c) = fold c := by
  unfold stdIn
  cases h : lookupFold fold T c with
  | none => rfl
  | some y => exact (lookupFold_some fold h).2

theorem stdIn_congr (T : List N) {x y : N} (h : fold x = fold y) (hs : (lookupFold fold T x).isSome = true) :
    stdIn fold T x = stdIn fold T y := by
  unfold stdIn
  rw [← lookupFold_congr fold h]
  obtain ⟨z, hz⟩ := Option.isSome_iff_exists.1 hs
  simp [hz]

/-- `_load_caps`: the unit's capability list, the registry afterwards -/
theorem loadCaps_spec (T : List N) : ∀ (cs seen reg P R : List N),
    (∀ x, lookupFold fold reg x = lookupFold fold P x) → (∀ y ∈ seen, (lookupFold fold P y).isSome = true) →
    T = P ++ cs ++ R →
    (∀ x, lookupFold fold (loadCaps fold cs seen reg).2 x = lookupFold fold (P ++ cs) x) ∧
    (∀ c, c ∈ (loadCaps fold cs seen reg).1 ↔ ∃ c0 ∈ cs, (∀ y ∈ seen, fold y ≠ fold c0) ∧ c = stdIn fold T c0) ∧
    (loadCaps fold cs seen reg).1.Pairwise (fun a b => fold a ≠ fold b)
  | [], seen, reg, P, R, hreg, hseen, hT => by simp [loadCaps, hreg]
  | c :: cs, seen, reg, P, R, hreg, hseen, hT => by
    have hT' : T = (P ++ [c]) ++ cs ++ R := by simp [hT]
    have happ : P ++ c :: cs = (P ++ [c]) ++ cs := by simp
    rw [loadCaps]
    split
    next y hy =>
      -- an equal capability (up to case) was already listed for this unit
      have hy' := lookupFold_some fold hy
      have hPc : (lookupFold fold P c).isSome = true := by
        rw [← lookupFold_congr fold hy'.2]; exact hseen y hy'.1
      have hreg' : ∀ x, lookupFold fold reg x = lookupFold fold (P ++ [c]) x := by
        intro x
        rw [lookupFold_append, lookupFold_singleton, hreg]
        by_cases hx : fold c = fold x
        · rw [lookupFold_congr fold hx] at hPc
          obtain ⟨z, hz⟩ := Option.isSome_iff_exists.1 hPc
          simp [hz]
        · simp [hx]
      have hseen' : ∀ y ∈ seen, (lookupFold fold (P ++ [c]) y).isSome = true := by
        intro z hz; rw [lookupFold_append]; simp [hseen z hz]
      have ih := loadCaps_spec T cs seen reg (P ++ [c]) R hreg' hseen' hT'
      rw [happ]
      refine ⟨ih.1, ?_, ih.2.2⟩
      intro x
      rw [ih.2.1]
      constructor
      · rintro ⟨c0, hc0, h1, h2⟩; exact ⟨c0, List.mem_cons_of_mem _ hc0, h1, h2⟩
      · rintro ⟨c0, hc0, h1, h2⟩
        rcases List.mem_cons.1 hc0 with rfl | hc0
        · exact absurd hy'.2 (h1 y hy'.1)
        · exact ⟨c0, hc0, h1, h2⟩
    next hnone =>
      rw [lookupFold_eq_none] at hnone
      have hseen' : ∀ y ∈ c :: seen, (lookupFold fold (P ++ [c]) y).isSome = true := by
        intro z hz
        rw [lookupFold_append, lookupFold_singleton]
        rcases List.mem_cons.1 hz with rfl | hz
        · cases lookupFold fold P z <;> simp
        · simp [hseen z hz]
      have hstd : ∀ c0, fold c0 = fold c → stdIn fold T c0 = stdIn fold T c := by
        intro c0 h0
        apply stdIn_congr fold T h0
        rw [hT, List.append_assoc, lookupFold_append, List.cons_append, lookupFold_cons, if_pos h0.symm]
        cases lookupFold fold P c0 <;> simp
      -- shared conclusion for both sub-cases
      have fin : ∀ (reg' : List N) (s : N), s = stdIn fold T c →
          (∀ x, lookupFold fold reg' x = lookupFold fold (P ++ [c]) x) →
          (∀ x, lookupFold fold (loadCaps fold cs (c :: seen) reg').2 x = lookupFold fold (P ++ c :: cs) x) ∧
          (∀ x, x ∈ s :: (loadCaps fold cs (c :: seen) reg').1 ↔
            ∃ c0 ∈ c :: cs, (∀ y ∈ seen, fold y ≠ fold c0) ∧ x = stdIn fold T c0) ∧
          (s :: (loadCaps fold cs (c :: seen) reg').1).Pairwise (fun a b => fold a ≠ fold b) := by
        intro reg' s hs hreg'
        have ih := loadCaps_spec T cs (c :: seen) reg' (P ++ [c]) R hreg' hseen' hT'
        rw [happ]
        refine ⟨ih.1, ?_, ?_⟩
        · intro x
          rw [List.mem_cons, ih.2.1]
          constructor
          · rintro (rfl | ⟨c0, hc0, h1, h2⟩)
            · exact ⟨c, List.mem_cons_self, hnone, hs⟩
            · exact ⟨c0, List.mem_cons_of_mem _ hc0, fun y hy => h1 y (List.mem_cons_of_mem _ hy), h2⟩
          · rintro ⟨c0, hc0, h1, h2⟩
            rcases List.mem_cons.1 hc0 with rfl | hc0
            · exact .inl (h2.trans hs.symm)
            · by_cases hcc : fold c = fold c0
              · exact .inl (by rw [h2, hs]; exact hstd c0 hcc.symm)
              · refine .inr ⟨c0, hc0, ?_, h2⟩
                intro y hy
                rcases List.mem_cons.1 hy with rfl | hy
                · exact hcc
                · exact h1 y hy
        · refine List.pairwise_cons.2 ⟨?_, ih.2.2⟩
          intro b hb
          obtain ⟨c0, -, h1, rfl⟩ := (ih.2.1 b).1 hb
          rw [hs, fold_stdIn fold T, fold_stdIn fold T]
          exact h1 c List.mem_cons_self
      split
      next s hsome =>
        simp only
        refine fin reg s ?_ ?_
        · unfold stdIn
          rw [hT, List.append_assoc, lookupFold_append, ← hreg, hsome]; rfl
        · intro x
          rw [lookupFold_append, lookupFold_singleton, hreg]
          by_cases hx : fold c = fold x
          · rw [← hreg, ← lookupFold_congr fold hx, hsome]; rfl
          · simp [hx]
      next hnone' =>
        simp only
        refine fin (reg ++ [c]) c ?_ ?_
        · unfold stdIn
          rw [hT, List.append_assoc, lookupFold_append, ← hreg, hnone', List.cons_append, lookupFold_cons]
          simp
        · intro x
          rw [lookupFold_append, lookupFold_append, hreg]

/-- node `n` of the working graph was made from unit `u` of the description (`T` = all capability spellings in order) -/
def NodeOf (T : List N) (n : GNode N) (u : UnitD N) : Prop :=
  n.name = u.name ∧ n.width = u.width ∧ n.rd = u.rd ∧ n.wr = u.wr ∧ n.acl = u.acl ∧
  (∀ c, c ∈ n.caps ↔ c ∈ u.caps.map (stdIn fold T)) ∧ n.caps.Nodup

/-- element-wise related lists -/
inductive Forall2 {α β : Type} (R : α → β → Prop) : List α → List β → Prop
  | nil : Forall2 R [] []
  | cons {a : α} {b : β} {l₁ : List α} {l₂ : List β} : R a b → Forall2 R l₁ l₂ → Forall2 R (a :: l₁) (b :: l₂)

theorem addUnits_spec (T : List N) : ∀ (us : List (UnitD N)) (names reg P R : List N) (r : List (GNode N) × List N),
    addUnits fold us names reg = .ok r → (∀ x, lookupFold fold reg x = lookupFold fold P x) →
    T = P ++ us.flatMap (·.caps) ++ R →
    (∀ x, lookupFold fold r.2 x = lookupFold fold (P ++ us.flatMap (·.caps)) x) ∧ Forall2 (NodeOf fold T) r.1 us
  | [], _, reg, P, R, r, h, hreg, _ => by
    simp only [addUnits, Except.ok.injEq] at h
    subst h
    exact ⟨by simpa using hreg, .nil⟩
  | u :: us, names, reg, P, R, r, h, hreg, hT => by
    simp only [addUnits] at h
    split at h
    · simp at h
    · split at h
      · simp at h
      · split at h
        · simp at h
        next r' hr' =>
          simp only [Except.ok.injEq] at h
          subst h
          have hT1 : T = P ++ u.caps ++ (us.flatMap (·.caps) ++ R) := by simp [hT]
          have hl := loadCaps_spec fold T u.caps [] reg P _ hreg (by simp) hT1
          have hT2 : T = (P ++ u.caps) ++ us.flatMap (·.caps) ++ R := by simp [hT]
          have ih := addUnits_spec T us _ _ (P ++ u.caps) R r' hr' hl.1 hT2
          refine ⟨?_, .cons ⟨rfl, rfl, rfl, rfl, rfl, ?_, ?_⟩ ih.2⟩
          · intro x; rw [ih.1]; simp
          · intro c
            rw [hl.2.1]
            simp only [List.not_mem_nil, false_imp_iff, implies_true, true_and, List.mem_map]
            constructor
            · rintro ⟨c0, h0, rfl⟩; exact ⟨c0, h0, rfl⟩
            · rintro ⟨c0, h0, rfl⟩; exact ⟨c0, h0, rfl⟩
          · exact hl.2.2.imp (fun hab heq => hab (congrArg fold heq))

theorem forall₂_left {α β : Type} {R : α → β → Prop} {l₁ : List α} {l₂ : List β} (h : Forall2 R l₁ l₂) :
    ∀ a ∈ l₁, ∃ b ∈ l₂, R a b := by
  induction h with
  | nil => simp
  | cons hab _ ih =>
    intro x hx
    rcases List.mem_cons.1 hx with rfl | hx
    · exact ⟨_, List.mem_cons_self, hab⟩
    · obtain ⟨b, hb, hr⟩ := ih x hx; exact ⟨b, List.mem_cons_of_mem _ hb, hr⟩

theorem forall₂_right {α β : Type} {R : α → β → Prop} {l₁ : List α} {l₂ : List β} (h : Forall2 R l₁ l₂) :
    ∀ b ∈ l₂, ∃ a ∈ l₁, R a b := by
  induction h with
  | nil => simp
  | cons hab _ ih =>
    intro x hx
    rcases List.mem_cons.1 hx with rfl | hx
    · exact ⟨_, List.mem_cons_self, hab⟩
    · obtain ⟨b, hb, hr⟩ := ih x hx; exact ⟨b, List.mem_cons_of_mem _ hb, hr⟩

section Order
variable [LT N] [DecidableRel (α := N) (· < ·)]

theorem stdIn_eq_stdCapName (d : Desc N) (c : N) : stdIn fold (d.units.flatMap (·.caps)) c = stdCapName fold d c := rfl

/-- the nodes of the created graph against the units of the description; the final registry -/
theorem createGraph_nodes {d : Desc N} {gr : Graph N × List N} (h : createGraph fold d = .ok gr) :
    Forall2 (NodeOf fold (d.units.flatMap (·.caps))) gr.1.nodes d.units ∧
    (∀ c, stdCap fold gr.2 c = stdCapName fold d c) ∧ ∀ u ∈ d.units, 0 < u.width := by
  obtain ⟨r, es, hr, -, rfl⟩ := createGraph_ok fold h
  have := addUnits_spec fold (d.units.flatMap (·.caps)) d.units [] [] [] [] r hr (fun _ => rfl) (by simp)
  refine ⟨this.2, ?_, addUnits_ok_width fold _ _ _ r hr⟩
  intro c
  unfold stdCap stdCapName
  simp only
  rw [this.1]
  rfl

/-- connections of the created graph = `connections` of the declarative reading -/
theorem createGraph_edges {d : Desc N} {gr : Graph N × List N} (h : createGraph fold d = .ok gr) (e : N × N) :
    e ∈ gr.1.edges ↔ e ∈ connections fold d := by
  obtain ⟨r, es, hr, hes, rfl⟩ := createGraph_ok fold h
  have hn := addUnits_ok_names fold _ _ _ r hr
  rw [hn] at hes
  have := (addEdges_ok fold _ _ _ _ hes).2.1 e
  simp only [List.not_mem_nil, false_or] at this
  simp only [this, connections, List.mem_filterMap]
  constructor
  · rintro ⟨a, b, hab, ha, hb⟩
    refine ⟨[a, b], hab, ?_⟩
    simp only [stdName]
    unfold lookupFold at ha hb
    rw [ha, hb]
  · rintro ⟨x, hx, hm⟩
    split at hm
    next a b =>
      split at hm
      next a' b' ha hb =>
        simp only [Option.some.injEq] at hm
        subst hm
        exact ⟨a, b, hx, ha, hb⟩
      · simp at hm
    · simp at hm

end Order

/-! ## §2 forward propagation computes the feedable capabilities -/

/-- some input port feeds `c` to `u` along connections whose units all declare `c` (on the working graph) -/
def FeedsG (g : Graph N) (c : N) : N → Prop :=
  ReachFrom (fun i => i ∈ g.inPorts ∧ c ∈ g.capsOf i) (fun a b => (a, b) ∈ g.edges ∧ c ∈ g.capsOf b)

theorem FeedsG.declared {g : Graph N} {c u : N} (h : FeedsG g c u) : c ∈ g.capsOf u := by
  cases h with
  | base h => exact h.2
  | step _ h => exact h.2

theorem FeedsG.mem_names {g : Graph N} (hg : g.WF) {c u : N} (h : FeedsG g c u) : u ∈ g.names := by
  cases h with
  | base h => exact (Graph.mem_inPorts.1 h.1).1
  | step _ h => exact (hg.edgesIn _ h.1).2

/-- one-step unfolding: an input port declaring `c`, or a declared capability some predecessor is fed -/
theorem feedsG_iff {g : Graph N} {c u : N} (hu : u ∈ g.names) :
    FeedsG g c u ↔ c ∈ g.capsOf u ∧ ((∀ a, (a, u) ∉ g.edges) ∨ ∃ p, (p, u) ∈ g.edges ∧ FeedsG g c p) := by
  constructor
  · intro h
    cases h with
    | base h => exact ⟨h.2, .inl (Graph.mem_inPorts.1 h.1).2⟩
    | step ha h => exact ⟨h.2, .inr ⟨_, h.1, ha⟩⟩
  · rintro ⟨hc, h | ⟨p, hp, hf⟩⟩
    · exact .base ⟨Graph.mem_inPorts.2 ⟨hu, h⟩, hc⟩
    · exact .step hf ⟨hp, hc⟩

/-- state of `clean_struct` after the units `done` (a prefix of the topological order) have been processed -/
structure CleanInv (g gs : Graph N) (done : List N) : Prop where
  names : gs.names = g.names
  todo : ∀ x, x ∉ done → gs.capsOf x = g.capsOf x
  caps : ∀ x ∈ done, ∀ c, c ∈ gs.capsOf x ↔ FeedsG g c x
  edges : ∀ e, e ∈ gs.edges ↔ e ∈ g.edges ∧ (e.2 ∈ done → ∃ c ∈ g.capsOf e.2, FeedsG g c e.1)
  sub : ∀ x, (gs.capsOf x).Sublist (g.capsOf x)

theorem CleanInv.init (g : Graph N) : CleanInv g g [] :=
  ⟨rfl, fun _ _ => rfl, fun _ h => by simp at h, fun e => by simp, fun _ => List.Sublist.refl _⟩

theorem CleanInv.step {g gs : Graph N} {done : List N} {u : N} (h : CleanInv g gs done) (hu : u ∈ g.names)
    (hnd : u ∉ done) (hpre : ∀ a, (a, u) ∈ g.edges → a ∈ done) : CleanInv g (cleanUnit gs u) (done ++ [u]) := by
  have hu' : u ∈ gs.names := h.names ▸ hu
  have hedge_u : ∀ a, (a, u) ∈ gs.edges ↔ (a, u) ∈ g.edges := fun a => by
    rw [h.edges]; exact ⟨fun h' => h'.1, fun h' => ⟨h', fun hd => absurd hd hnd⟩⟩
  refine ⟨by rw [names_cleanUnit, h.names], ?_, ?_, ?_, ?_⟩
  · intro x hx
    have hxu : x ≠ u := fun hh => hx (hh ▸ List.mem_append_right _ List.mem_cons_self)
    rw [capsOf_cleanUnit_ne hxu]
    exact h.todo x (fun hd => hx (List.mem_append_left _ hd))
  · intro x hx c
    rcases List.mem_append.1 hx with hx | hx
    · have hxu : x ≠ u := fun hh => hnd (hh ▸ hx)
      rw [capsOf_cleanUnit_ne hxu]
      exact h.caps x hx c
    · simp only [List.mem_singleton] at hx
      subst hx
      rw [mem_capsOf_cleanUnit_self hu', feedsG_iff hu, h.todo x hnd]
      refine and_congr_right fun _ => or_congr ?_ ?_
      · exact forall_congr' fun a => not_congr (hedge_u a)
      · refine exists_congr fun p => ?_
        rw [hedge_u]
        exact and_congr_right fun hp => h.caps p (hpre p hp) c
  · intro e
    rw [mem_edges_cleanUnit, h.edges, h.todo u hnd]
    constructor
    · rintro ⟨⟨he, hd⟩, hnew⟩
      refine ⟨he, fun hmem => ?_⟩
      rcases List.mem_append.1 hmem with hmem | hmem
      · exact hd hmem
      · simp only [List.mem_singleton] at hmem
        obtain ⟨c, hc1, hc2⟩ := hnew hmem
        exact ⟨c, hmem ▸ hc1, (h.caps e.1 (hpre e.1 (by rw [← hmem]; exact he)) c).1 hc2⟩
    · rintro ⟨he, hd⟩
      refine ⟨⟨he, fun hmem => hd (List.mem_append_left _ hmem)⟩, fun h2 => ?_⟩
      obtain ⟨c, hc1, hc2⟩ := hd (List.mem_append_right _ (by simp [h2]))
      exact ⟨c, h2 ▸ hc1, (h.caps e.1 (hpre e.1 (by rw [← h2]; exact he)) c).2 hc2⟩
  · intro x
    by_cases hxu : x = u
    · subst hxu
      exact (capsOf_cleanUnit_self_sublist hu').trans (h.sub x)
    · rw [capsOf_cleanUnit_ne hxu]; exact h.sub x

theorem CleanInv.foldl {g : Graph N} (hg : g.WF) : ∀ (todo done : List N) (gs : Graph N),
    topoOrder g = done ++ todo → CleanInv g gs done → CleanInv g (todo.foldl cleanUnit gs) (done ++ todo)
  | [], done, gs, _, h => by simpa using h
  | u :: todo, done, gs, ht, h => by
    have hn := topoOrder_nodup g
    rw [ht] at hn
    have hnd : u ∉ done := fun hd => (List.nodup_append.1 hn).2.2 u hd u List.mem_cons_self rfl
    have hu : u ∈ g.names := topoOrder_subset g (ht ▸ List.mem_append_right _ List.mem_cons_self)
    have hpre : ∀ a, (a, u) ∈ g.edges → a ∈ done := fun a ha => topoOrder_preds_before g ht ha (hg.edgesIn _ ha).1
    have := CleanInv.foldl hg todo (done ++ [u]) (cleanUnit gs u) (by simp [ht]) (h.step hu hnd hpre)
    simpa using this

/-- **fixpoint characterisation of `clean_struct`** on an acyclic well-formed graph -/
theorem cleanStruct_spec {g : Graph N} (hg : g.WF) (hac : isAcyclic g = true) :
    (cleanStruct g).names = g.names ∧
    (∀ x ∈ g.names, ∀ c, c ∈ (cleanStruct g).capsOf x ↔ FeedsG g c x) ∧
    (∀ e, e ∈ (cleanStruct g).edges ↔ e ∈ g.edges ∧ ∃ c ∈ g.capsOf e.2, FeedsG g c e.1) ∧
    (∀ x, ((cleanStruct g).capsOf x).Sublist (g.capsOf x)) := by
  have h : CleanInv g (cleanStruct g) (topoOrder g) := by
    have := CleanInv.foldl hg (topoOrder g) [] g (by simp) (CleanInv.init g)
    simpa [cleanStruct] using this
  refine ⟨h.names, fun x hx => h.caps x ((mem_topoOrder hac).2 hx), fun e => ?_, h.sub⟩
  rw [h.edges]
  exact and_congr_right fun he => ⟨fun h' => h' ((mem_topoOrder hac).2 (hg.edgesIn _ he).2), fun h' _ => h'⟩

/-- kept connection on the working graph -/
def KeptG (g : Graph N) (a b : N) : Prop := (a, b) ∈ g.edges ∧ ∃ c, FeedsG g c a ∧ FeedsG g c b

/-- live unit on the working graph -/
def LiveG (g : Graph N) (u : N) : Prop := (∃ c, FeedsG g c u) ∧ ReachTo (KeptG g) (fun o => o ∈ g.outPorts) u

theorem cleanStruct_edges {g : Graph N} (hg : g.WF) (hac : isAcyclic g = true) (a b : N) :
    (a, b) ∈ (cleanStruct g).edges ↔ KeptG g a b := by
  rw [(cleanStruct_spec hg hac).2.2.1]
  unfold KeptG
  refine and_congr_right fun he => ?_
  constructor
  · rintro ⟨c, hc, hf⟩; exact ⟨c, hf, .step hf ⟨he, hc⟩⟩
  · rintro ⟨c, hf, hf'⟩; exact ⟨c, hf'.declared, hf⟩

theorem KeptG.live_left {g : Graph N} {a b : N} (h : KeptG g a b) (hb : LiveG g b) : LiveG g a :=
  ⟨by obtain ⟨c, hc, _⟩ := h.2; exact ⟨c, hc⟩, .step h hb.2⟩

/-! ## §3 `rm_empty_units` and `chk_terminals` keep exactly the live units -/

theorem mem_rmEmpty_dead {g : Graph N} (hg : g.WF) {u : N} (hu : u ∈ g.names) :
    u ∈ (g.nodes.filter (fun n => n.caps.isEmpty)).map (·.name) ↔ g.capsOf u = [] := by
  simp only [List.mem_map, List.mem_filter, List.isEmpty_iff]
  constructor
  · rintro ⟨n, ⟨hn, hc⟩, rfl⟩
    rw [Graph.capsOf_of_mem hg.namesNodup hn]; exact hc
  · intro h
    obtain ⟨n, hn, rfl⟩ := Graph.mem_names.1 hu
    rw [Graph.capsOf_of_mem hg.namesNodup hn] at h
    exact ⟨n, ⟨hn, h⟩, rfl⟩

theorem mem_rmEmpty_names {g : Graph N} (hg : g.WF) {u : N} :
    u ∈ (rmEmpty g).names ↔ u ∈ g.names ∧ g.capsOf u ≠ [] := by
  unfold rmEmpty
  rw [Graph.mem_names_removeNodes]
  exact and_congr_right fun hu => not_congr (mem_rmEmpty_dead hg hu)

theorem mem_rmEmpty_edges {g : Graph N} (hg : g.WF) {e : N × N} :
    e ∈ (rmEmpty g).edges ↔ e ∈ g.edges ∧ g.capsOf e.1 ≠ [] ∧ g.capsOf e.2 ≠ [] := by
  unfold rmEmpty
  rw [Graph.mem_edges_removeNodes]
  refine and_congr_right fun he => and_congr ?_ ?_
  · exact not_congr (mem_rmEmpty_dead hg (hg.edgesIn e he).1)
  · exact not_congr (mem_rmEmpty_dead hg (hg.edgesIn e he).2)

/-- after propagation and removal of capability-less units: the units that are fed something, and the kept connections -/
theorem rmEmpty_cleanStruct_spec {g : Graph N} (hg : g.WF) (hac : isAcyclic g = true) :
    (∀ u, u ∈ (rmEmpty (cleanStruct g)).names ↔ ∃ c, FeedsG g c u) ∧
    (∀ a b, (a, b) ∈ (rmEmpty (cleanStruct g)).edges ↔ KeptG g a b) := by
  have hcs := cleanStruct_spec hg hac
  have hwf : (cleanStruct g).WF := hg.cleanStruct
  have hne : ∀ u ∈ g.names, (cleanStruct g).capsOf u ≠ [] ↔ ∃ c, FeedsG g c u := by
    intro u hu
    rw [Ne, List.eq_nil_iff_forall_not_mem, Classical.not_forall]
    exact exists_congr fun c => by rw [Classical.not_not, hcs.2.1 u hu]
  constructor
  · intro u
    rw [mem_rmEmpty_names hwf, hcs.1]
    constructor
    · rintro ⟨hu, h⟩; exact (hne u hu).1 h
    · rintro ⟨c, hc⟩; exact ⟨hc.mem_names hg, (hne u (hc.mem_names hg)).2 ⟨c, hc⟩⟩
  · intro a b
    rw [mem_rmEmpty_edges hwf, cleanStruct_edges hg hac]
    constructor
    · exact fun h => h.1
    · intro h
      obtain ⟨c, hc1, hc2⟩ := h.2
      exact ⟨h, (hne a (hc1.mem_names hg)).2 ⟨c, hc1⟩, (hne b (hc2.mem_names hg)).2 ⟨c, hc2⟩⟩

section Order
variable [LT N] [DecidableRel (α := N) (· < ·)]

/-- **the graph `chk_terminals` accepts**: exactly the live units and the kept connections between them -/
theorem chkTerminals_live {g g2 : Graph N} (hg : g.WF) (hac : isAcyclic g = true)
    (hchk : chkTerminals g.inPorts g.outPorts ((rmEmpty (cleanStruct g)).nodes.length + 1) (rmEmpty (cleanStruct g)) = .ok g2) :
    (∀ u, u ∈ g2.names ↔ LiveG g u) ∧ (∀ a b, (a, b) ∈ g2.edges ↔ KeptG g a b ∧ LiveG g a ∧ LiveG g b) := by
  have hs := rmEmpty_cleanStruct_spec hg hac
  have hwf1 : (rmEmpty (cleanStruct g)).WF := hg.cleanStruct.rmEmpty
  have hI : g2.Induced (rmEmpty (cleanStruct g)) := chkTerminals_ok_induced (Graph.Induced.refl hwf1) hchk
  have hfin := chkTerminals_ok_final _ _ _ (Nat.lt_succ_self _) hchk
  -- live units are never removed
  have hkeep : g2.Induced (rmEmpty (cleanStruct g)) ∧ ∀ u, LiveG g u → u ∈ g2.names := by
    refine chkTerminals_ok_inv (P := fun g' => g'.Induced (rmEmpty (cleanStruct g)) ∧ ∀ u, LiveG g u → u ∈ g'.names)
      ?_ _ _ g2 ⟨Graph.Induced.refl hwf1, fun u hu => (hs.1 u).2 hu.1⟩ hchk
    rintro g' ⟨hI', hP⟩ -
    refine ⟨hI'.removeNodes _, fun u hu => Graph.mem_names_removeNodes.2 ⟨hP u hu, fun hdead => ?_⟩⟩
    obtain ⟨hout, hno⟩ := List.mem_filter.1 hdead
    simp only [Bool.not_eq_true', decide_eq_false_iff_not] at hno
    have hsink := (Graph.mem_outPorts.1 hout).2
    cases hu.2 with
    | base ho => exact hno ho
    | @step _ b hk hb =>
      have hb' : LiveG g b := ⟨by obtain ⟨c, _, hc⟩ := hk.2; exact ⟨c, hc⟩, hb⟩
      exact hsink b ((hI'.edges (u, b)).2 ⟨(hs.2 u b).2 hk, hP u hu, hP b hb'⟩)
  -- every remaining unit reaches an original output port
  have hreach : ∀ u ∈ g.names, u ∈ g2.names → ReachTo (KeptG g) (fun o => o ∈ g.outPorts) u := by
    apply topo_succ_induction hac (P := fun u => u ∈ g2.names → ReachTo (KeptG g) (fun o => o ∈ g.outPorts) u)
    intro u _ ih hu2
    by_cases hsink : ∀ b, (u, b) ∉ g2.edges
    · exact .base (hfin u (Graph.mem_outPorts.2 ⟨hu2, hsink⟩))
    · obtain ⟨b, hb⟩ := Classical.not_forall.1 hsink
      have hb := Classical.not_not.1 hb
      have hb1 := (hI.edges (u, b)).1 hb
      have hk : KeptG g u b := (hs.2 u b).1 hb1.1
      exact .step hk (ih b (hg.edgesIn _ hk.1).2 hk.1 hb1.2.2)
  have hlive : ∀ u, u ∈ g2.names ↔ LiveG g u := by
    intro u
    constructor
    · intro hu
      have h1 : u ∈ (rmEmpty (cleanStruct g)).names := hI.names_sublist.subset hu
      obtain ⟨c, hc⟩ := (hs.1 u).1 h1
      exact ⟨⟨c, hc⟩, hreach u (hc.mem_names hg) hu⟩
    · exact hkeep.2 u
  refine ⟨hlive, fun a b => ?_⟩
  rw [hI.edges (a, b), hs.2, hlive, hlive]

/-- **the pruned graph of an accepted description**: exactly the live units and the kept connections between them -/
theorem prepare_live [LT N] [DecidableRel (α := N) (· < ·)] {g g2 : Graph N} (hg : g.WF) (hp : prepare g = .ok g2) :
    (∀ u, u ∈ g2.names ↔ LiveG g u) ∧ (∀ a b, (a, b) ∈ g2.edges ↔ KeptG g a b ∧ LiveG g a ∧ LiveG g b) :=
  chkTerminals_live hg (prepare_ok hp).1 (prepare_ok hp).2.1

end Order

/-! ## §4 transfer to the declarative reading `DG` -/

theorem mem_dedup {α : Type} [DecidableEq α] {l : List α} {a : α} : a ∈ dedup l ↔ a ∈ l := by
  induction l with
  | nil => simp [dedup]
  | cons x xs ih =>
    simp only [dedup, List.mem_cons, List.mem_filter, ih, ne_eq, decide_not, Bool.not_eq_true',
      decide_eq_false_iff_not]
    by_cases h : a = x <;> simp [h]

/-- the working graph `g` and the declarative reading `dg` describe the same capability graph -/
structure DGMatch (dg : DG N) (g : Graph N) : Prop where
  names : dg.names = g.names
  conn : ∀ a b, dg.conn a b = true ↔ (a, b) ∈ g.edges
  declares : ∀ u c, dg.declares u c = true ↔ c ∈ g.capsOf u

namespace DGMatch
variable {dg : DG N} {g : Graph N}

theorem origIn (h : DGMatch dg g) (hg : g.WF) (i : N) : dg.origIn i = true ↔ i ∈ g.inPorts := by
  unfold DG.origIn DG.preds
  rw [Bool.and_eq_true, decide_eq_true_eq, List.isEmpty_iff, List.filter_eq_nil_iff, h.names, Graph.mem_inPorts]
  refine and_congr_right fun _ => ⟨fun h' a ha => h' a (hg.edgesIn _ ha).1 ((h.conn a i).2 ha),
    fun h' a _ hc => h' a ((h.conn a i).1 hc)⟩

theorem origOut (h : DGMatch dg g) (hg : g.WF) (o : N) : dg.origOut o = true ↔ o ∈ g.outPorts := by
  unfold DG.origOut DG.succs
  rw [Bool.and_eq_true, decide_eq_true_eq, List.isEmpty_iff, List.filter_eq_nil_iff, h.names, Graph.mem_outPorts]
  refine and_congr_right fun _ => ⟨fun h' a ha => h' a (hg.edgesIn _ ha).2 ((h.conn o a).2 ha),
    fun h' a _ hc => h' a ((h.conn o a).1 hc)⟩

theorem feeds (h : DGMatch dg g) (hg : g.WF) (c u : N) : dg.Feeds c u ↔ FeedsG g c u := by
  unfold DG.Feeds FeedsG
  rw [reachFrom_iff_walk]
  constructor
  · rintro ⟨r, hw, hd, ⟨i, hi, ho⟩, hl⟩
    have hw' : WalkR (fun a b => (a, b) ∈ g.edges) r := WalkR.mono (fun a b hab => (h.conn a b).1 hab) hw
    have hd' : ∀ x ∈ r, c ∈ g.capsOf x := fun x hx => (h.declares x c).1 (hd x hx)
    have := (WalkR_and_forall (R := fun a b => (a, b) ∈ g.edges) (D := fun x => c ∈ g.capsOf x)).1 ⟨hw', hd'⟩
    exact ⟨r, ⟨i, hi, (h.origIn hg i).1 ho, this.2 i hi⟩, this.1, hl⟩
  · rintro ⟨r, ⟨i, hi, ho, hci⟩, hw, hl⟩
    have := (WalkR_and_forall (R := fun a b => (a, b) ∈ g.edges) (D := fun x => c ∈ g.capsOf x)).2
      ⟨hw, fun a ha => by rw [hi] at ha; cases ha; exact hci⟩
    refine ⟨r, WalkR.mono (fun a b hab => (h.conn a b).2 hab) this.1,
      fun x hx => (h.declares x c).2 (this.2 x hx), ⟨i, hi, (h.origIn hg i).2 ho⟩, hl⟩

theorem keptConn (h : DGMatch dg g) (hg : g.WF) (a b : N) : dg.KeptConn a b ↔ KeptG g a b := by
  unfold DG.KeptConn KeptG
  rw [h.conn]
  exact and_congr_right fun _ => exists_congr fun c => by rw [h.feeds hg, h.feeds hg]

theorem live (h : DGMatch dg g) (hg : g.WF) (u : N) : dg.Live u ↔ LiveG g u := by
  unfold DG.Live LiveG
  rw [reachTo_iff_walk]
  refine and_congr (exists_congr fun c => h.feeds hg c u) (exists_congr fun r => and_congr_right fun _ => and_congr ?_ ?_)
  · exact exists_congr fun o => and_congr_right fun _ => h.origOut hg o
  · exact ⟨WalkR.mono fun a b hab => (h.keptConn hg a b).1 hab, WalkR.mono fun a b hab => (h.keptConn hg a b).2 hab⟩

end DGMatch

section Order
variable [LT N] [DecidableRel (α := N) (· < ·)]

theorem dgOf_names (d : Desc N) : (dgOf fold d).names = d.units.map (·.name) := by
  simp [DG.names, dgOf, List.map_map, Function.comp_def]

/-- the graph `_create_graph` builds is the declarative reading of the description -/
theorem createGraph_match {d : Desc N} {gr : Graph N × List N} (h : createGraph fold d = .ok gr) :
    DGMatch (dgOf fold d) gr.1 := by
  have hwf := createGraph_WF fold h
  have hnodes := (createGraph_nodes fold h).1
  refine ⟨by rw [dgOf_names, createGraph_names fold h], fun a b => ?_, fun u c => ?_⟩
  · rw [createGraph_edges fold h]
    simp only [DG.conn, dgOf]
    exact decide_eq_true_iff
  · simp only [DG.declares, dgOf, List.any_map, List.any_eq_true, Function.comp_def, Bool.and_eq_true, decide_eq_true_eq,
      declared, mem_dedup]
    constructor
    · rintro ⟨x, hx, rfl, hc⟩
      obtain ⟨n, hn, hno⟩ := forall₂_right hnodes x hx
      rw [← hno.1, Graph.capsOf_of_mem hwf.namesNodup hn, hno.2.2.2.2.2.1]
      exact hc
    · intro hc
      unfold Graph.capsOf at hc
      split at hc
      next n hn =>
        have hn' := Graph.node?_some hn
        obtain ⟨x, hx, hno⟩ := forall₂_left hnodes n hn'.1
        exact ⟨x, hx, hno.1 ▸ hn'.2, (hno.2.2.2.2.2.1 c).1 hc⟩
      · simp at hc

end Order

end Loader
end ProcSim
