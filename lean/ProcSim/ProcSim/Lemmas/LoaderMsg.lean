import ProcSim.Model.LoaderMsg
import ProcSim.Spec.Text
/-!
# Lemmas about the loader's exception texts (Model/LoaderMsg.lean)

`Occurs` (Spec/Text.lean) bookkeeping, `repr`/`str(list)` facts and the tactic `occ` that finds a block among
left- or right-nested appends.
-/
namespace ProcSim
namespace LoaderMsg
open Spec.Text Loader

theorem occurs_self (p : List Char) : Occurs p p := ⟨[], [], by simp⟩

theorem occurs_append_right {p s : List Char} (t : List Char) (h : Occurs p s) : Occurs p (s ++ t) := by
  obtain ⟨a, b, rfl⟩ := h
  exact ⟨a, b ++ t, by simp⟩

theorem occurs_append_left {p s : List Char} (t : List Char) (h : Occurs p s) : Occurs p (t ++ s) := by
  obtain ⟨a, b, rfl⟩ := h
  exact ⟨t ++ a, b, by simp⟩

theorem occurs_cons {p s : List Char} (c : Char) (h : Occurs p s) : Occurs p (c :: s) :=
  occurs_append_left [c] h

theorem occurs_trans {a b c : List Char} (h₁ : Occurs a b) (h₂ : Occurs b c) : Occurs a c := by
  obtain ⟨p, q, rfl⟩ := h₁
  obtain ⟨r, s, rfl⟩ := h₂
  exact ⟨r ++ p, q ++ s, by simp⟩

/-- search a block in a tree of `++` / `::` -/
syntax "occ" : tactic
macro_rules
  | `(tactic| occ) => `(tactic| first
      | (with_reducible exact occurs_self _)
      | (with_reducible apply occurs_append_right; occ)
      | (with_reducible apply occurs_append_left; occ)
      | (with_reducible apply occurs_cons; occ))

/-! ### unfolding equations (stated by hand: `simp only [LoadError.messageAt]` is slow at generating them) -/

section
variable {N : Type} (sh : N → String) (site : LockSite)

theorem messageAt_dupElem (o n : N) :
    (LoadError.dupElem o n).messageAt sh site = "Functional unit " ++ sh n ++ " previously added as " ++ sh o := rfl
theorem messageAt_badWidth (u : N) (w : Int) :
    (LoadError.badWidth u w).messageAt sh site =
      "Functional unit " ++ sh u ++ " has a bad width " ++ toString w ++ "." := rfl
theorem messageAt_badEdge (ed : List N) :
    (LoadError.badEdge ed).messageAt sh site =
      "Edge " ++ pyStrList (ed.map sh) ++ " doesn't connect exactly 2 functional units." := rfl
theorem messageAt_undefElem (x : N) :
    (LoadError.undefElem x).messageAt sh site = "Undefined functional unit " ++ sh x := rfl
theorem messageAt_cyclic : (LoadError.cyclic : LoadError N).messageAt sh site = "" := rfl
theorem messageAt_deadInput (p : N) :
    (LoadError.deadInput p).messageAt sh site =
      "No feasible path found from input port " ++ sh p ++ " to any output ports" := rfl
theorem messageAt_emptyProc : (LoadError.emptyProc : LoadError N).messageAt sh site = "No input ports found" := rfl
theorem messageAt_pathLock (s : N) (t : LockType) (c : N) :
    (LoadError.pathLock s t c).messageAt sh site = pathLockMessage sh site s t c := rfl
theorem messageAt_blockedCap (c p : N) :
    (LoadError.blockedCap c p).messageAt sh site =
      "Capability " ++ sh c ++ " blocked from " ++ "port " ++ sh p := rfl

theorem pathLockMessage_noLock (s : N) (t : LockType) (c : N) :
    pathLockMessage sh .noLock s t c =
      "Found a path starting at input port " ++ sh s ++ " with no " ++ t.code ++ " locks for capability " ++ sh c ++ "." := rfl
theorem pathLockMessage_multiple (s : N) (t : LockType) (c : N) :
    pathLockMessage sh .multiple s t c =
      "Found a path passing through " ++ sh s ++ " with multiple " ++ t.code ++ " locks for capability " ++ sh c ++ "." := rfl
theorem pathLockMessage_different (s : N) (t : LockType) (c : N) :
    pathLockMessage sh .different s t c =
      "Paths passing through " ++ sh s ++ " have different " ++ t.code ++ " locks for capability " ++ sh c ++ "." := rfl
end

/-! ### `repr(str)`, `str(list)` -/

theorem flatMap_verbatim (q : Char) : ∀ (l : List Char), (∀ c ∈ l, pyEscChar q c = [c]) → l.flatMap (pyEscChar q) = l
  | [], _ => rfl
  | c :: r, h => by
    have hc := h c (by simp)
    have hr := flatMap_verbatim q r (fun d hd => h d (by simp [hd]))
    simp only [List.flatMap_cons, hc, hr, List.singleton_append]

/-- without escapes `repr(s)` is `s` between the chosen quotes -/
theorem pyReprChars_verbatim {s : String} (h : ReprVerbatim s) :
    pyReprChars s.toList = pyQuote s.toList :: (s.toList ++ [pyQuote s.toList]) := by
  simp only [pyReprChars, flatMap_verbatim _ _ h]

theorem occurs_pyReprChars {s : String} (h : ReprVerbatim s) : Occurs s.toList (pyReprChars s.toList) := by
  rw [pyReprChars_verbatim h]
  occ

theorem occurs_joinComma : ∀ (l : List (List Char)) (x : List Char), x ∈ l → Occurs x (joinComma l)
  | [], _, h => by simp at h
  | [y], x, h => by
    simp only [List.mem_singleton] at h
    subst h
    exact occurs_self _
  | y :: z :: r, x, h => by
    simp only [joinComma]
    rcases List.mem_cons.1 h with rfl | h'
    · occ
    · have := occurs_joinComma (z :: r) x h'
      exact occurs_append_left _ (occurs_cons _ (occurs_cons _ this))

/-- every element whose `repr` has no escapes occurs verbatim in `str(list)` -/
theorem occurs_pyStrList {l : List String} {x : String} (hx : x ∈ l) (hv : ReprVerbatim x) :
    Occurs x.toList (pyStrList l).toList := by
  simp only [pyStrList, String.toList_ofList, pyStrListChars]
  apply occurs_cons
  apply occurs_append_right
  apply occurs_trans (occurs_pyReprChars hv)
  apply occurs_joinComma
  exact List.mem_map.2 ⟨x.toList, List.mem_map.2 ⟨x, hx, rfl⟩, rfl⟩

theorem plain_pyQuote {s : String} (h : PlainName s) : pyQuote s.toList = '\'' := by
  have : s.toList.contains '\'' = false := by
    apply Bool.eq_false_iff.2
    intro hc
    have := List.contains_iff_mem.1 hc
    exact (h _ this).1 rfl
  simp only [pyQuote, this, Bool.false_and, Bool.false_eq_true, if_false]

theorem plain_verbatim {s : String} (h : PlainName s) : ReprVerbatim s := by
  intro c hc
  obtain ⟨h1, h2, h3, h4⟩ := h c hc
  rw [plain_pyQuote h]
  have ht : c ≠ '\t' := by rintro rfl; revert h3; decide
  have hn : c ≠ '\n' := by rintro rfl; revert h3; decide
  have hr : c ≠ '\r' := by rintro rfl; revert h3; decide
  have hlt : ¬ (c.toNat < 32 ∨ c.toNat = 127) := by omega
  simp only [pyEscChar, h1, h2, ht, hn, hr, hlt, or_self, if_false]

end LoaderMsg
end ProcSim
