import ProcSim.PyLite
/-!
# The PyLite runtime means what it says (sanity theorems about the translator's runtime)

`PySet` stands for a Python `set`: these theorems show that, on duplicate-free member lists (which every operation
preserves), `contains / add / remove / eq / len` are exactly membership, insertion, deletion, extensional equality and
cardinality — i.e. nothing observable depends on the order in which the model happens to keep the members.  The list
primitives (`xs[-k]`, `xs[-k] = v`, `del xs[-k]`) are characterised against `List.reverse` indexing.
-/
namespace PyLite
set_option linter.unusedSectionVars false
namespace PySet
variable {α : Type} [DecidableEq α]

/-- the representation invariant: members are kept without repetition -/
def WF (s : PySet α) : Prop := s.elems.Nodup

theorem empty_wf : (empty : PySet α).WF := List.nodup_nil
theorem single_wf (x : α) : (single x).WF := by simp [WF, single]

theorem add_wf {s : PySet α} (h : s.WF) (x : α) : (s.add x).WF := by
  unfold add WF at *
  split
  · exact h
  · rename_i hx
    exact List.nodup_append.2 ⟨h, by simp, by
      intro a ha b hb; rw [List.mem_singleton] at hb; subst hb; intro e; exact hx (e ▸ ha)⟩

theorem remove_wf {s s' : PySet α} (h : s.WF) {x : α} (hr : s.remove x = .ok s') : s'.WF := by
  unfold remove at hr
  split at hr
  · cases hr; exact h.erase x
  · cases hr

@[simp] theorem mem_add (s : PySet α) (x y : α) : y ∈ (s.add x).elems ↔ y = x ∨ y ∈ s.elems := by
  unfold add
  split
  · rename_i hx
    constructor
    · intro h; exact Or.inr h
    · rintro (rfl | h)
      · exact hx
      · exact h
  · simp [or_comm]

theorem contains_iff (s : PySet α) (x : α) : s.contains x = true ↔ x ∈ s.elems := by simp [contains]

/-- `s.remove(x)` raises `KeyError` exactly when `x` is not a member -/
theorem remove_error_iff (s : PySet α) (x : α) : s.remove x = .error .keyError ↔ x ∉ s.elems := by
  unfold remove; split <;> simp_all

/-- after a successful `remove`, exactly `x` is gone -/
theorem mem_remove {s s' : PySet α} (h : s.WF) {x : α} (hr : s.remove x = .ok s') (y : α) :
    y ∈ s'.elems ↔ y ≠ x ∧ y ∈ s.elems := by
  unfold remove at hr
  split at hr
  · cases hr
    exact h.mem_erase_iff
  · cases hr

/-- set equality is extensional equality of the members -/
theorem eq_iff (s t : PySet α) : s.eq t = true ↔ ∀ x, x ∈ s.elems ↔ x ∈ t.elems := by
  simp only [eq, Bool.and_eq_true, List.all_eq_true, decide_eq_true_eq]
  constructor
  · rintro ⟨h1, h2⟩ x; exact ⟨h1 x, h2 x⟩
  · intro h; exact ⟨fun x hx => (h x).1 hx, fun x hx => (h x).2 hx⟩

/-- `len` after `add`: one more exactly when the element is new -/
theorem len_add (s : PySet α) (x : α) : (s.add x).len = if x ∈ s.elems then s.len else s.len + 1 := by
  unfold add len; split <;> simp

/-- `len` after a successful `remove`: one less -/
theorem len_remove {s s' : PySet α} {x : α} (hr : s.remove x = .ok s') : s'.len + 1 = s.len := by
  unfold remove at hr
  split at hr
  · rename_i hx
    cases hr
    simp only [len, List.length_erase_of_mem hx]
    have : 0 < s.elems.length := List.length_pos_of_mem hx
    omega
  · cases hr

/-- truthiness of a set is non-emptiness -/
theorem truthy_iff (s : PySet α) : truthy s = true ↔ s.elems ≠ [] := by
  simp [truthy, Truthy.truthy]

end PySet

/-! ### negative constant indexes address from the tail -/

theorem idxNeg_eq_reverse {α : Type} (xs : List α) (k : Nat) (hk : 1 ≤ k) :
    idxNeg xs k = (match xs.reverse[k - 1]? with | some x => .ok x | none => .error .indexError) := by
  unfold idxNeg
  by_cases h : k = 0 ∨ xs.length < k
  · have hlen : xs.reverse.length ≤ k - 1 := by
      rcases h with h | h
      · omega
      · simp only [List.length_reverse]; omega
    rw [if_pos h, List.getElem?_eq_none hlen]
  · rw [if_neg h]
    have h' : k - 1 < xs.length := by omega
    rw [List.getElem?_reverse h']
    have : xs.length - 1 - (k - 1) = xs.length - k := by omega
    rw [this]
    rfl

/-- `del xs[-1]` on a non-empty list drops the last element; on the empty list it raises `IndexError` -/
theorem delIdxNeg_one {α : Type} (xs : List α) :
    delIdxNeg xs 1 = if xs = [] then .error .indexError else .ok xs.dropLast := by
  unfold delIdxNeg
  cases xs with
  | nil => simp
  | cons a t =>
    have h : ¬ (1 = 0 ∨ (a :: t).length < 1) := by simp
    rw [if_neg h]
    simp only [reduceCtorEq, if_false, List.length_cons, Nat.add_sub_cancel]
    congr 1
    rw [List.dropLast_eq_take]
    simp [List.eraseIdx_eq_take_drop_succ]

end PyLite
