import ProcSim.Lemmas.LoaderRoutes
/-!
# The internal units can be listed sink-first iff their predecessor relation has no closed walk

`PredIn internal a b` — `a` is the name of an internal unit listed among the predecessors of the internal unit `b`
(the reversed edges of `_get_unit_graph`). `postOrder_isSome_iff_acyclic`: for internal units of pairwise different
names, `postOrder internal` succeeds iff there is no closed `PredIn`-walk (pigeonhole for "no sink ⇒ closed walk").
-/
set_option linter.unusedSectionVars false

namespace ProcSim
namespace Loader
open Spec

variable {N : Type} [DecidableEq N]

theorem walk_rank_gt {R : N → N → Prop} {f : N → Nat} (hf : ∀ x y, R x y → f y < f x) :
    ∀ (l : List N) (a b : N), WalkR R (a :: l ++ [b]) → f b < f a
  | [], a, b, h => hf a b h.1
  | c :: l, a, b, h => Nat.lt_trans (walk_rank_gt hf l c b h.2) (hf a c h.1)

/-- a walk that repeats an element contains a closed walk -/
theorem closed_walk_of_not_nodup {R : N → N → Prop} {r : List N} (hw : WalkR R r) (hnd : ¬ r.Nodup) :
    ∃ u l, WalkR R (u :: l ++ [u]) := by
  obtain ⟨x, l1, l2, l3, rfl⟩ := LoaderRoutes.exists_dup_split r hnd
  refine ⟨x, l2, ?_⟩
  have h1 : l1 ++ x :: l2 ++ x :: l3 = l1 ++ ((x :: l2 ++ [x]) ++ l3) := by simp
  rw [h1] at hw
  exact (WalkR_append.1 (WalkR_append.1 hw).2.1).1

theorem exists_long_walk {R : N → N → Prop} {S : List N} (h : ∀ x ∈ S, ∃ y ∈ S, R x y) :
    ∀ (n : Nat) (x : N), x ∈ S → ∃ r : List N, r.length = n + 1 ∧ r.head? = some x ∧ WalkR R r ∧ ∀ y ∈ r, y ∈ S
  | 0, x, hx => ⟨[x], rfl, rfl, trivial, by simpa using hx⟩
  | n + 1, x, hx => by
    obtain ⟨y, hy, hxy⟩ := h x hx
    obtain ⟨r, hlen, hhead, hw, hsub⟩ := exists_long_walk h n y hy
    cases r with
    | nil => simp at hhead
    | cons z r =>
      simp only [List.head?_cons, Option.some.injEq] at hhead
      subst hhead
      refine ⟨x :: z :: r, by simp at hlen ⊢; omega, rfl, ⟨hxy, hw⟩, ?_⟩
      intro w hw'
      rcases List.mem_cons.1 hw' with rfl | hw'
      · exact hx
      · exact hsub w hw'

/-- **pigeonhole**: in a non-empty finite set in which every element has a successor, there is a closed walk -/
theorem exists_closed_walk_of_no_sink {R : N → N → Prop} {S : List N} (hne : S ≠ [])
    (h : ∀ x ∈ S, ∃ y ∈ S, R x y) : ∃ u l, WalkR R (u :: l ++ [u]) := by
  obtain ⟨x, hx⟩ := List.exists_mem_of_ne_nil S hne
  obtain ⟨r, hlen, -, hw, hsub⟩ := exists_long_walk h S.length x hx
  apply closed_walk_of_not_nodup hw
  intro hnd
  have := hnd.length_le_of_subset hsub
  omega

/-- `a` names an internal unit that is a predecessor of the internal unit named `b` -/
def PredIn (internal : List (FuncU N)) (a b : N) : Prop :=
  ∃ f ∈ internal, f.model.name = b ∧ a ∈ f.preds ∧ a ∈ internal.map (·.model.name)

theorem pickSink_eq_none {rem : List (FuncU N)} :
    pickSink rem = none ↔ ∀ a ∈ rem, ∃ w ∈ rem, a.model.name ∈ w.preds := by
  unfold pickSink
  simp only [List.find?_eq_none, List.all_eq_true, Bool.not_eq_true', decide_eq_false_iff_not]
  constructor
  · intro h a ha
    apply Classical.byContradiction
    intro hc
    exact h a ha (fun w hw hin => hc ⟨w, hw, hin⟩)
  · intro h a ha hall
    obtain ⟨w, hw, hin⟩ := h a ha
    exact hall w hw hin

theorem postOrderAux_isSome_of_acyclic {internal : List (FuncU N)}
    (hac : ¬ ∃ u l, WalkR (PredIn internal) (u :: l ++ [u])) :
    ∀ (fuel : Nat) (rem : List (FuncU N)), (∀ x ∈ rem, x ∈ internal) → rem.length ≤ fuel → (postOrderAux fuel rem).isSome = true
  | _, [], _, _ => by simp [postOrderAux]
  | 0, _ :: _, _, h => by simp at h
  | fuel + 1, u :: us, hsub, hlen => by
    simp only [postOrderAux]
    split
    next hnone =>
      exfalso
      rw [pickSink_eq_none] at hnone
      apply hac
      apply exists_closed_walk_of_no_sink (S := (u :: us).map (·.model.name)) (by simp)
      intro x hx
      obtain ⟨a, ha, rfl⟩ := List.mem_map.1 hx
      obtain ⟨w, hw, hin⟩ := hnone a ha
      exact ⟨w.model.name, List.mem_map_of_mem hw, w, hsub w hw, rfl, hin, List.mem_map_of_mem (hsub a ha)⟩
    next s hs =>
      simp only [Option.isSome_map]
      apply postOrderAux_isSome_of_acyclic hac fuel
      · intro x hx; exact hsub x (List.mem_filter.1 hx).1
      · have := length_filter_name_ne_lt (pickSink_some hs).1
        omega

/-- a sink-first list of units with pairwise different names ranks the names: predecessors come later -/
theorem sinkFirst_no_closed_walk {l : List (FuncU N)} (hs : SinkFirst l) (hn : (l.map (·.model.name)).Nodup) :
    ¬ ∃ u r, WalkR (PredIn l) (u :: r ++ [u]) := by
  rintro ⟨u, r, hw⟩
  have key : ∀ a b, PredIn l a b → (l.map (·.model.name)).idxOf b < (l.map (·.model.name)).idxOf a := by
    rintro a b ⟨f, hf, rfl, hin, ha⟩
    obtain ⟨g, hg, rfl⟩ := List.mem_map.1 ha
    obtain ⟨l1, l2, rfl⟩ := List.append_of_mem hf
    have hp := List.pairwise_append.1 hs.1
    have hg2 : g ∈ l2 := by
      rcases List.mem_append.1 hg with h1 | h1
      · exact absurd hin (hp.2.2 g h1 f List.mem_cons_self)
      · rcases List.mem_cons.1 h1 with rfl | h1
        · exact absurd hin (hs.2 g hf)
        · exact h1
    obtain ⟨l3, l4, rfl⟩ := List.append_of_mem hg2
    have e : (l1 ++ f :: (l3 ++ g :: l4)).map (·.model.name) =
        l1.map (·.model.name) ++ f.model.name :: l3.map (·.model.name) ++ g.model.name :: l4.map (·.model.name) := by
      simp
    rw [e] at hn ⊢
    exact idxOf_lt_of_split hn
  exact Nat.lt_irrefl _ (walk_rank_gt key r u u hw)

theorem PredIn.of_perm {l l' : List (FuncU N)} (h : l.Perm l') {a b : N} (hab : PredIn l a b) : PredIn l' a b := by
  obtain ⟨f, hf, h1, h2, h3⟩ := hab
  exact ⟨f, h.mem_iff.1 hf, h1, h2, (h.map _).mem_iff.1 h3⟩

/-- the internal units (of pairwise different names) can be listed sink-first iff there is no closed walk of
internal predecessors -/
theorem postOrder_isSome_iff_acyclic {internal : List (FuncU N)} (hn : (internal.map (·.model.name)).Nodup) :
    (postOrder internal).isSome = true ↔ ¬ ∃ u l, WalkR (PredIn internal) (u :: l ++ [u]) := by
  constructor
  · intro h
    obtain ⟨l, hl⟩ := Option.isSome_iff_exists.1 h
    have hp := postOrder_perm hn hl
    rintro ⟨u, r, hw⟩
    exact sinkFirst_no_closed_walk (postOrder_sinkFirst hl) (postOrder_names_nodup hl)
      ⟨u, r, WalkR.mono (fun a b hab => hab.of_perm hp.symm) hw⟩
  · intro hac
    exact postOrderAux_isSome_of_acyclic hac _ _ (fun _ hx => hx) (Nat.le_refl _)

end Loader
end ProcSim
