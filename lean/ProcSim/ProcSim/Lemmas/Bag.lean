import ProcSim.Lemmas.Sort
import ProcSim.Model.Bag
/-!
# Lemmas about `Model/Bag.lean` (core Lean only) — used by `Props/C17.lean`

Everything lives in the namespace `ProcSim.Bag`. "Keys without duplicates" is `(AMap.keys m).Nodup`
(true of every map built with `AMap.set`, in particular of `Bag.ofPairs`).

`BagValDict K V` = `AMap K (List V)` is a plain `def` for `List (K × List V)`; the lemmas are stated for the list
(so that `∈`, `++`, `induction` are available) and apply to records by unfolding.
-/
namespace ProcSim
namespace Bag

open List
open ISort

attribute [local implicit_reducible] AMap

variable {K V : Type} [DecidableEq K]

/-! ### `get`, `items` -/

@[simp] theorem get_nil (k : K) : get ([] : List (K × List V)) k = [] := rfl

theorem get_cons (k' : K) (vs : List V) (m : List (K × List V)) (k : K) :
    get ((k', vs) :: m) k = if k' = k then vs else get m k := by
  unfold get
  simp only [AMap.get?]
  split <;> rfl

omit [DecidableEq K] in
@[simp] theorem keys_nil : AMap.keys ([] : List (K × List V)) = [] := rfl
omit [DecidableEq K] in
@[simp] theorem keys_cons (p : K × List V) (m : List (K × List V)) :
    AMap.keys (p :: m) = p.1 :: AMap.keys m := rfl

omit [DecidableEq K] in
theorem mem_keys_of_mem {m : List (K × List V)} {p : K × List V} (h : p ∈ m) :
    p.1 ∈ AMap.keys m := mem_map.2 ⟨p, h, rfl⟩

/-- with duplicate-free keys every entry is what `get` returns for its key -/
theorem get_of_mem {m : List (K × List V)} (hn : (AMap.keys m).Nodup) {k : K} {vs : List V}
    (h : (k, vs) ∈ m) : get m k = vs := by
  induction m with
  | nil => cases h
  | cons p m ih =>
    obtain ⟨k', vs'⟩ := p
    rw [keys_cons, nodup_cons] at hn
    rw [get_cons]
    rcases mem_cons.1 h with e | h'
    · cases e; rw [if_pos rfl]
    · have hk : k ∈ AMap.keys m := mem_keys_of_mem h'
      have : ¬ k' = k := fun e => hn.1 (e ▸ hk)
      rw [if_neg this]
      exact ih hn.2 h'

theorem get_eq_nil_of_not_mem_keys {m : List (K × List V)} {k : K} (h : k ∉ AMap.keys m) : get m k = [] := by
  induction m with
  | nil => rfl
  | cons p m ih =>
    obtain ⟨k', vs'⟩ := p
    rw [keys_cons, mem_cons, not_or] at h
    rw [get_cons, if_neg (fun e => h.1 e.symm)]
    exact ih h.2

/-- a non-empty look-up result is a stored entry -/
theorem mem_of_get_ne_nil {m : List (K × List V)} {k : K} (h : get m k ≠ []) :
    (k, get m k) ∈ m := by
  induction m with
  | nil => exact absurd rfl h
  | cons p m ih =>
    obtain ⟨k', vs'⟩ := p
    rw [get_cons] at h ⊢
    by_cases hk : k' = k
    · subst hk; rw [if_pos rfl]; exact mem_cons_self ..
    · rw [if_neg hk] at h ⊢
      exact mem_cons_of_mem _ (ih h)

omit [DecidableEq K] in
theorem mem_items {m : List (K × List V)} {p : K × List V} :
    p ∈ (items m : List (K × List V)) ↔ p ∈ m ∧ p.2 ≠ [] := by
  unfold items
  rw [mem_filter]
  simp

/-- the keys of `items m` -/
def itemKeys (m : List (K × List V)) : List K := (items m : List (K × List V)).map (·.1)

omit [DecidableEq K] in
theorem length_itemKeys (m : List (K × List V)) : (itemKeys m).length = len m := by
  simp [itemKeys, len]

omit [DecidableEq K] in
theorem itemKeys_sublist (m : List (K × List V)) : (itemKeys m).Sublist (AMap.keys m) := by
  unfold itemKeys items AMap.keys
  exact (filter_sublist (l := m)).map _

omit [DecidableEq K] in
theorem itemKeys_nodup {m : List (K × List V)} (hn : (AMap.keys m).Nodup) : (itemKeys m).Nodup :=
  Nodup.sublist (itemKeys_sublist m) hn

theorem mem_itemKeys {m : List (K × List V)} (hn : (AMap.keys m).Nodup) {k : K} :
    k ∈ itemKeys m ↔ get m k ≠ [] := by
  unfold itemKeys
  rw [mem_map]
  constructor
  · rintro ⟨⟨k', vs⟩, hp, rfl⟩
    have := mem_items.1 hp
    rw [get_of_mem hn this.1]
    exact this.2
  · intro h
    exact ⟨(k, get m k), mem_items.2 ⟨mem_of_get_ne_nil h, h⟩, rfl⟩

/-- with duplicate-free keys, `items` lists exactly the non-empty look-up results -/
theorem mem_items_iff {m : List (K × List V)} (hn : (AMap.keys m).Nodup) {k : K} {vs : List V} :
    (k, vs) ∈ (items m : List (K × List V)) ↔ vs = get m k ∧ vs ≠ [] := by
  rw [mem_items]
  constructor
  · rintro ⟨h, hne⟩; exact ⟨(get_of_mem hn h).symm, hne⟩
  · rintro ⟨rfl, hne⟩; exact ⟨mem_of_get_ne_nil hne, hne⟩

/-! ### `allItemsMatch`, `beq` -/

section beq
variable [DecidableEq V] (le : V → V → Bool)

theorem allItemsMatch_eq_all (self : List (K × List V)) (l : List (K × List V)) :
    allItemsMatch le self l = l.all (fun p => sameSorted le p.2 (get self p.1)) := by
  induction l with
  | nil => rfl
  | cons p rest ih =>
    obtain ⟨k, vs⟩ := p
    rw [allItemsMatch, ih, all_cons]

theorem allItemsMatch_iff (self : List (K × List V)) (l : List (K × List V)) :
    allItemsMatch le self l = true ↔ ∀ p ∈ l, isort le p.2 = isort le (get self p.1) := by
  rw [allItemsMatch_eq_all, all_eq_true]
  simp [sameSorted]

/-- `allItemsMatch` reads `self` only through `get` -/
theorem allItemsMatch_congr {s s' : List (K × List V)} (h : ∀ k, get s k = get s' k) (l : List (K × List V)) :
    allItemsMatch le s l = allItemsMatch le s' l := by
  rw [allItemsMatch_eq_all, allItemsMatch_eq_all]
  simp only [h]

/-- `beq` reads `self` only through `get` and `items` -/
theorem beq_congr {s s' : List (K × List V)} (hg : ∀ k, get s k = get s' k) (hi : items s = items s')
    (o : List (K × List V)) : beq le s o = beq le s' o := by
  unfold beq len
  rw [allItemsMatch_congr le hg, hi]

theorem beq_iff (self other : List (K × List V)) :
    beq le self other = true ↔
      len self = len other ∧ ∀ p ∈ (items other : List (K × List V)), isort le p.2 = isort le (get self p.1) := by
  unfold beq
  rw [Bool.and_eq_true, beq_iff_eq, allItemsMatch_iff]
  rfl

end beq

/-! ### the side effect of `__getitem__` -/

theorem set_of_get?_none {m : List (K × List V)} {k : K} (h : AMap.get? m k = none) (v : List V) :
    (AMap.set m k v : List (K × List V)) = m ++ [(k, v)] := by
  induction m with
  | nil => rfl
  | cons p m ih =>
    obtain ⟨k', vs'⟩ := p
    simp only [AMap.get?] at h
    split at h
    · cases h
    · next hk =>
      simp only [AMap.set, if_neg hk, cons_append]
      exact congrArg ((k', vs') :: ·) (ih h)

theorem getM_fst (m : List (K × List V)) (k : K) : (getM m k).1 = get m k := by
  unfold getM get
  split <;> simp_all

theorem get_getM (m : List (K × List V)) (k k' : K) : get (getM m k).2 k' = get m k' := by
  unfold getM
  split
  · rfl
  · next h =>
    simp only
    unfold get
    by_cases hk : k = k'
    · subst hk; rw [AMap.get?_set_eq, h]; rfl
    · rw [AMap.get?_set_ne _ _ hk]

theorem items_getM (m : List (K × List V)) (k : K) : items (getM m k).2 = items m := by
  unfold getM
  split
  · rfl
  · next h =>
    simp only
    unfold items
    rw [set_of_get?_none h, filter_append]
    simp

section beqM
variable [DecidableEq V] (le : V → V → Bool)

theorem allItemsMatchM_cons (s : List (K × List V)) (k : K) (vs : List V) (rest : List (K × List V)) :
    allItemsMatchM le s ((k, vs) :: rest) =
      if sameSorted le vs (getM s k).1 then allItemsMatchM le (getM s k).2 rest else (false, (getM s k).2) := by
  rw [allItemsMatchM]

theorem allItemsMatchM_spec (s : List (K × List V)) (l : List (K × List V)) :
    (allItemsMatchM le s l).1 = allItemsMatch le s l ∧
    (∀ k, get (allItemsMatchM le s l).2 k = get s k) ∧ items (allItemsMatchM le s l).2 = items s := by
  induction l generalizing s with
  | nil => exact ⟨rfl, fun _ => rfl, rfl⟩
  | cons p rest ih =>
    obtain ⟨k, vs⟩ := p
    rw [allItemsMatchM_cons, allItemsMatch, getM_fst]
    by_cases h : sameSorted le vs (get s k) = true
    · rw [if_pos h, h, Bool.true_and]
      obtain ⟨h1, h2, h3⟩ := ih (getM s k).2
      refine ⟨?_, ?_, ?_⟩
      · rw [h1]; exact allItemsMatch_congr le (get_getM s k) rest
      · intro k'; rw [h2, get_getM]
      · rw [h3, items_getM]
    · rw [if_neg h]
      simp only [Bool.not_eq_true] at h
      rw [h, Bool.false_and]
      exact ⟨rfl, get_getM s k, items_getM s k⟩

/-- the side-effecting comparison returns the pure Boolean and leaves `get` and `items` untouched -/
theorem beqM_spec (a b : List (K × List V)) :
    (beqM le a b).1 = beq le a b ∧ (∀ k, get (beqM le a b).2 k = get a k) ∧ items (beqM le a b).2 = items a := by
  unfold beqM beq
  by_cases h : (len a == (items b : List (K × List V)).length) = true
  · rw [if_pos h, h, Bool.true_and]
    exact allItemsMatchM_spec le a (items b)
  · rw [if_neg h]
    simp only [Bool.not_eq_true] at h
    rw [h, Bool.false_and]
    exact ⟨rfl, fun _ => rfl, rfl⟩

end beqM

/-! ### `len`, `repr` read `items` only -/

omit [DecidableEq K] in
theorem len_congr {s s' : List (K × List V)} (h : items s = items s') : len s = len s' := by
  unfold len; rw [h]

omit [DecidableEq K] in
theorem repr_congr (leK : K → K → Bool) (le : V → V → Bool) (kp : K → String) (vp : V → String)
    {s s' : List (K × List V)} (h : items s = items s') : repr leK le kp vp s = repr leK le kp vp s' := by
  unfold repr formatElems canonEntries; rw [h]

/-! ### multiset equality -/

theorem ne_nil_iff_of_perm {α : Type} {x y : List α} (h : x ~ y) : x ≠ [] ↔ y ≠ [] :=
  ⟨fun h1 h2 => h1 (h2 ▸ h).eq_nil, fun h1 h2 => h1 (h2 ▸ h.symm).eq_nil⟩

/-- same multiset under every key -/
def SameBags (a b : List (K × List V)) : Prop := ∀ k, List.Perm (get a k) (get b k)

theorem SameBags.symm {a b : List (K × List V)} (h : SameBags a b) : SameBags b a := fun k => (h k).symm

theorem SameBags.itemKeys_perm {a b : List (K × List V)} (ha : (AMap.keys a).Nodup) (hb : (AMap.keys b).Nodup)
    (h : SameBags a b) : itemKeys a ~ itemKeys b := by
  rw [perm_ext_iff_of_nodup (itemKeys_nodup ha) (itemKeys_nodup hb)]
  intro k
  rw [mem_itemKeys ha, mem_itemKeys hb]
  exact ne_nil_iff_of_perm (h k)

theorem SameBags.len_eq {a b : List (K × List V)} (ha : (AMap.keys a).Nodup) (hb : (AMap.keys b).Nodup)
    (h : SameBags a b) : len a = len b := by
  rw [← length_itemKeys, ← length_itemKeys]
  exact (h.itemKeys_perm ha hb).length_eq

section main
variable [DecidableEq V] {le : V → V → Bool}

/-- `a == b` ⇒ same multiset under every key — for duplicate-free keys and *any* comparison `le` -/
theorem sameBags_of_beq {a b : List (K × List V)} (ha : (AMap.keys a).Nodup) (hb : (AMap.keys b).Nodup)
    (h : beq le a b = true) : SameBags a b := by
  obtain ⟨hlen, hall⟩ := (beq_iff le a b).1 h
  -- non-empty entries of `b` are matched
  have hne : ∀ k, get b k ≠ [] → get b k ~ get a k := fun k hk =>
    perm_of_isort_eq (hall (k, get b k) ((mem_items_iff hb).2 ⟨rfl, hk⟩))
  -- hence the non-empty keys of `b` are non-empty keys of `a`; equally many, so they are all of them
  have hsub : ∀ k, k ∈ itemKeys b → k ∈ itemKeys a := by
    intro k hk
    rw [mem_itemKeys hb] at hk
    rw [mem_itemKeys ha]
    intro e
    exact hk ((e ▸ hne k hk).eq_nil)
  have hsup := subset_of_nodup_subset_length_le (itemKeys_nodup hb) hsub
    (by rw [length_itemKeys, length_itemKeys, hlen]; exact Nat.le_refl _)
  intro k
  by_cases hk : get b k = []
  · have : get a k = [] := by
      apply Classical.byContradiction
      intro e
      exact (mem_itemKeys hb).1 (hsup k ((mem_itemKeys ha).2 e)) hk
    rw [hk, this]
  · exact (hne k hk).symm

/-- same multiset under every key ⇒ `a == b` — for duplicate-free keys and a total order `le` -/
theorem beq_of_sameBags (htot : TotalB le) (htr : TransB le)
    (hanti : ∀ x y, le x y = true → le y x = true → x = y)
    {a b : List (K × List V)} (ha : (AMap.keys a).Nodup) (hb : (AMap.keys b).Nodup) (h : SameBags a b) :
    beq le a b = true := by
  rw [beq_iff]
  refine ⟨h.len_eq ha hb, ?_⟩
  rintro ⟨k, vs⟩ hp
  have := (mem_items_iff hb).1 hp
  simp only
  rw [this.1]
  exact isort_eq_of_perm htot htr (fun x _ y _ => hanti x y) (h k).symm

/-- `__eq__` is multiset equality under every key, for a total order `le` and duplicate-free keys -/
theorem beq_iff_sameBags (htot : TotalB le) (htr : TransB le)
    (hanti : ∀ x y, le x y = true → le y x = true → x = y)
    {a b : List (K × List V)} (ha : (AMap.keys a).Nodup) (hb : (AMap.keys b).Nodup) :
    beq le a b = true ↔ SameBags a b :=
  ⟨sameBags_of_beq ha hb, beq_of_sameBags htot htr hanti ha hb⟩

omit [DecidableEq V] in
/-- equal records have the same canonical entry list -/
theorem canonEntries_eq_of_sameBags {leK : K → K → Bool} (htot : TotalB le) (htr : TransB le)
    (hanti : ∀ x y, le x y = true → le y x = true → x = y)
    (hKtot : TotalB leK) (hKtr : TransB leK) (hKanti : ∀ x y, leK x y = true → leK y x = true → x = y)
    {a b : List (K × List V)} (ha : (AMap.keys a).Nodup) (hb : (AMap.keys b).Nodup) (h : SameBags a b) :
    canonEntries leK le a = canonEntries leK le b := by
  unfold canonEntries
  -- membership in the entry list before sorting by key
  have hmem : ∀ (m : List (K × List V)), (AMap.keys m).Nodup → ∀ k s,
      (k, s) ∈ (items m : List (K × List V)).map (fun p => (p.1, isort le p.2)) ↔
        get m k ≠ [] ∧ s = isort le (get m k) := by
    intro m hm k s
    rw [mem_map]
    constructor
    · rintro ⟨⟨k', vs⟩, hp, e⟩
      simp only [Prod.mk.injEq] at e
      obtain ⟨rfl, rfl⟩ := e
      have := (mem_items_iff hm).1 hp
      exact ⟨this.1 ▸ this.2, by rw [this.1]⟩
    · rintro ⟨hne, rfl⟩
      exact ⟨(k, get m k), (mem_items_iff hm).2 ⟨rfl, hne⟩, rfl⟩
  have hnd : ∀ (m : List (K × List V)), (AMap.keys m).Nodup →
      ((items m : List (K × List V)).map (fun p => (p.1, isort le p.2))).Nodup := by
    intro m hm
    have : (((items m : List (K × List V)).map (fun p => (p.1, isort le p.2))).map (·.1)).Nodup := by
      rw [map_map]
      exact itemKeys_nodup hm
    exact Pairwise.of_map (·.1) (fun x y hxy e => hxy (e ▸ rfl)) this
  have hperm : (items a : List (K × List V)).map (fun p => (p.1, isort le p.2)) ~
      (items b : List (K × List V)).map (fun p => (p.1, isort le p.2)) := by
    rw [perm_ext_iff_of_nodup (hnd a ha) (hnd b hb)]
    rintro ⟨k, s⟩
    rw [hmem a ha, hmem b hb, isort_eq_of_perm htot htr (fun x _ y _ => hanti x y) (h k)]
    rw [ne_nil_iff_of_perm (h k)]
  refine isort_eq_of_perm (le := fun (p q : K × List V) => leK p.1 q.1) (fun x y => hKtot x.1 y.1)
    (fun x y z => hKtr x.1 y.1 z.1) ?_ hperm
  rintro ⟨k, s⟩ hx ⟨k', s'⟩ hy h1 h2
  have hk : k = k' := hKanti k k' h1 h2
  subst hk
  rw [((hmem a ha k s).1 hx).2, ((hmem a ha k s').1 hy).2]

end main

end Bag
end ProcSim
