import ProcSim.Lemmas.LoaderBridge
import ProcSim.Lemmas.LoaderC10Check
/-!
# Stage by stage: what the loader rejects is what `Spec.defects` lists (C11)

Core Lean only.  For each stage of `load_proc_desc` (units, connections, cycle check, dead-end removal, emptiness
check, per-capability checks) the failure of the model is characterised and related to the corresponding stage of
`Spec.defects` and to `Spec.culpritReal`:

* `addUnits_error`, `stage1_clean_iff` — duplicate names / non-positive widths;
* `addEdges_error`, `stage2_clean_iff` — malformed connections / unknown units;
* `stage3_iff` — `isAcyclic` of the created graph is `acyclicB` of the description graph;
* `chkTerminals_error_culprit`, `chkTerminals_ok_noDead`, `stage5_iff` — dead inputs and the emptiness check;
* `usable_equiv` — the graph `chk_terminals` returns is the usable part `(dgOf fold d).usable`;
* `stage6_ok`, `stage6_error` — the per-capability checks against `capDefects` / `culpritReal`;
* `makeProcessor_isSome` — `_make_processor` cannot fail on an accepted graph;
* `load_defects` — the master statement: accepted without defect, or rejected with a listed class and a real culprit.
-/
set_option linter.unusedSectionVars false
set_option linter.unusedSimpArgs false
set_option linter.unusedVariables false

namespace ProcSim
namespace Loader
namespace LoaderDefects
open Spec LoaderLocks LoaderRoutes LoaderBridge

variable {N : Type} [DecidableEq N]

/-! ## `occursBefore` -/

theorem occursBefore_append_of_mem {old new : N} : ∀ {l1 l2 : List N}, old ∈ l1 → new ∈ l2 →
    occursBefore old new (l1 ++ l2) = true
  | [], _, h, _ => by cases h
  | a :: l1, l2, h, hn => by
    simp only [List.cons_append, occursBefore, Bool.or_eq_true, Bool.and_eq_true, decide_eq_true_eq]
    rcases List.mem_cons.1 h with rfl | h
    · exact Or.inl ⟨rfl, List.mem_append_right _ hn⟩
    · exact Or.inr (occursBefore_append_of_mem h hn)

theorem occursBefore_pairwise {R : N → N → Prop} {old new : N} : ∀ {l : List N}, occursBefore old new l = true →
    l.Pairwise R → R old new
  | [], h, _ => by simp [occursBefore] at h
  | a :: l, h, hp => by
    simp only [occursBefore, Bool.or_eq_true, Bool.and_eq_true, decide_eq_true_eq] at h
    rw [List.pairwise_cons] at hp
    rcases h with ⟨rfl, hn⟩ | h
    · exact hp.1 new hn
    · exact occursBefore_pairwise h hp.2

/-! ## Stage 1: units -/

section Stage1
variable (fold : N → N)

/-- a rejecting `addUnits` names a real culprit -/
theorem addUnits_error : ∀ (us : List (UnitD N)) (names reg : List N) (e : LoadError N),
    addUnits fold us names reg = .error e →
    (∃ old new, e = .dupElem old new ∧ fold old = fold new ∧
        occursBefore old new (names ++ us.map (·.name)) = true) ∨
    (∃ u ∈ us, e = .badWidth u.name u.width ∧ u.width ≤ 0)
  | [], _, _, e, h => by simp [addUnits] at h
  | u :: us, names, reg, e, h => by
    simp only [addUnits] at h
    split at h
    next old hold =>
      simp only [Except.error.injEq] at h
      subst h
      left
      obtain ⟨hmem, hfold⟩ := lookupFold_some fold hold
      exact ⟨old, u.name, rfl, hfold, occursBefore_append_of_mem hmem (by simp)⟩
    next hnone =>
      split at h
      next hw =>
        simp only [Except.error.injEq] at h
        subst h
        right
        exact ⟨u, List.mem_cons_self, rfl, hw⟩
      next hw =>
        split at h
        next e' he' =>
          simp only [Except.error.injEq] at h
          subst h
          rcases addUnits_error us _ _ e' he' with ⟨old, new, h1, h2, h3⟩ | ⟨x, hx, h1, h2⟩
          · left
            refine ⟨old, new, h1, h2, ?_⟩
            simpa [List.append_assoc] using h3
          · right
            exact ⟨x, List.mem_cons_of_mem _ hx, h1, h2⟩
        · cases h

section Order
variable [LT N] [DecidableRel (α := N) (· < ·)]

/-- stage 1 of `defects` -/
def stage1 (d : Desc N) : List DefectClass := flag (hasDupName fold d) .dupElem ++ flag (hasBadWidth d) .badWidth

theorem flag_eq_nil {b : Bool} {c : DefectClass} : flag b c = [] ↔ b = false := by
  cases b <;> simp [flag]

theorem mem_flag {b : Bool} {c x : DefectClass} : x ∈ flag b c ↔ b = true ∧ x = c := by
  cases b <;> simp [flag]

theorem hasDupName_false_iff (d : Desc N) :
    hasDupName fold d = false ↔ (d.units.map (·.name)).Pairwise (fun a b => fold a ≠ fold b) := by
  unfold hasDupName
  rw [Bool.not_eq_false']
  induction d.units.map (·.name) with
  | nil => simp [uniqueUpToFold]
  | cons a l ih =>
    simp only [uniqueUpToFold, Bool.and_eq_true, List.all_eq_true, Bool.not_eq_true', decide_eq_false_iff_not,
      List.pairwise_cons, ih]

theorem hasBadWidth_false_iff (d : Desc N) : hasBadWidth d = false ↔ ∀ u ∈ d.units, 0 < u.width := by
  unfold hasBadWidth
  rw [← Bool.not_eq_true, List.any_eq_true]
  constructor
  · intro h u hu
    apply Classical.byContradiction
    intro hw
    exact h ⟨u, hu, by simpa using (by omega : u.width ≤ 0)⟩
  · rintro h ⟨u, hu, hw⟩
    have := h u hu
    simp at hw
    omega

/-- an accepting `addUnits` means stage 1 is clean -/
theorem stage1_of_ok {d : Desc N} {r : List (GNode N) × List N} (h : addUnits fold d.units [] [] = .ok r) :
    stage1 fold d = [] := by
  unfold stage1
  rw [List.append_eq_nil_iff, flag_eq_nil, flag_eq_nil, hasDupName_false_iff, hasBadWidth_false_iff]
  exact ⟨(addUnits_ok_distinct fold _ _ _ r h).2, addUnits_ok_width fold _ _ _ r h⟩

/-- a rejecting `addUnits`: the class is listed by stage 1, the culprit is real -/
theorem stage1_of_error {d : Desc N} {e : LoadError N} (h : addUnits fold d.units [] [] = .error e) :
    e.cls ∈ stage1 fold d ∧ culpritReal fold d e = true := by
  rcases addUnits_error fold _ _ _ e h with ⟨old, new, rfl, h2, h3⟩ | ⟨u, hu, rfl, hw⟩
  · simp only [List.nil_append] at h3
    constructor
    · unfold stage1
      rw [List.mem_append]
      left
      rw [mem_flag]
      refine ⟨?_, rfl⟩
      cases hd : hasDupName fold d with
      | true => rfl
      | false =>
        rw [hasDupName_false_iff] at hd
        exact absurd h2 (occursBefore_pairwise h3 hd)
    · simp [culpritReal, h2, h3]
  · constructor
    · unfold stage1
      rw [List.mem_append]
      right
      rw [mem_flag]
      refine ⟨?_, rfl⟩
      unfold hasBadWidth
      rw [List.any_eq_true]
      exact ⟨u, hu, by simpa using hw⟩
    · simp only [culpritReal, Bool.and_eq_true, List.any_eq_true, decide_eq_true_eq]
      exact ⟨⟨u, hu, rfl, rfl⟩, hw⟩

end Order
end Stage1

/-! ## Stage 2: connections -/

section Stage2
variable (fold : N → N)

/-- a rejecting `addEdges` names a real culprit -/
theorem addEdges_error (names : List N) : ∀ (es : List (List N)) (acc : List (N × N)) (e : LoadError N),
    addEdges fold names es acc = .error e →
    (∃ ed ∈ es, e = .badEdge ed ∧ ed.length ≠ 2) ∨
    (∃ x, e = .undefElem x ∧ (∃ ed ∈ es, ed.length = 2 ∧ x ∈ ed) ∧ lookupFold fold names x = none)
  | [], _, _, h => by simp [addEdges] at h
  | [] :: es, acc, e, h => by
    simp only [addEdges, Except.error.injEq] at h
    subst h
    exact Or.inl ⟨[], List.mem_cons_self, rfl, by simp⟩
  | [a] :: es, acc, e, h => by
    simp only [addEdges, Except.error.injEq] at h
    subst h
    exact Or.inl ⟨[a], List.mem_cons_self, rfl, by simp⟩
  | (a :: b :: c :: l) :: es, acc, e, h => by
    simp only [addEdges, Except.error.injEq] at h
    subst h
    exact Or.inl ⟨a :: b :: c :: l, List.mem_cons_self, rfl, by simp⟩
  | [a, b] :: es, acc, e, h => by
    simp only [addEdges] at h
    split at h
    next ha =>
      simp only [Except.error.injEq] at h
      subst h
      exact Or.inr ⟨a, rfl, ⟨[a, b], List.mem_cons_self, rfl, by simp⟩, ha⟩
    next a' ha =>
      split at h
      next hb =>
        simp only [Except.error.injEq] at h
        subst h
        exact Or.inr ⟨b, rfl, ⟨[a, b], List.mem_cons_self, rfl, by simp⟩, hb⟩
      next b' hb =>
        rcases addEdges_error names es _ e h with ⟨ed, hed, h1, h2⟩ | ⟨x, h1, ⟨ed, hed, h2, h3⟩, h4⟩
        · exact Or.inl ⟨ed, List.mem_cons_of_mem _ hed, h1, h2⟩
        · exact Or.inr ⟨x, h1, ⟨ed, List.mem_cons_of_mem _ hed, h2, h3⟩, h4⟩

section Order
variable [LT N] [DecidableRel (α := N) (· < ·)]

/-- stage 2 of `defects` -/
def stage2 (d : Desc N) : List DefectClass := flag (hasBadEdge d) .badEdge ++ flag (hasUndef fold d) .undefElem

theorem stdName_eq (d : Desc N) (x : N) : stdName fold d x = lookupFold fold (d.units.map (·.name)) x := rfl

/-- an accepting `addEdges` (on the names of the description) means stage 2 is clean -/
theorem stage2_of_ok {d : Desc N} {es : List (N × N)}
    (h : addEdges fold (d.units.map (·.name)) d.edges [] = .ok es) : stage2 fold d = [] := by
  have hall := (addEdges_ok fold _ _ _ _ h).2.2
  unfold stage2
  rw [List.append_eq_nil_iff, flag_eq_nil, flag_eq_nil]
  constructor
  · unfold hasBadEdge
    rw [← Bool.not_eq_true, List.any_eq_true]
    rintro ⟨e, he, hl⟩
    obtain ⟨a, b, rfl, _, _⟩ := hall e he
    simp at hl
  · unfold hasUndef
    rw [← Bool.not_eq_true, List.any_eq_true]
    rintro ⟨e, he, hl⟩
    obtain ⟨a, b, rfl, ha, hb⟩ := hall e he
    simp only [List.length_cons, List.length_nil, Nat.zero_add, Nat.reduceAdd, BEq.rfl, List.any_cons, List.any_nil,
      Bool.or_false, Bool.true_and, Bool.or_eq_true, Option.isNone_iff_eq_none, stdName_eq] at hl
    rcases hl with hl | hl
    · rw [hl] at ha; cases ha
    · rw [hl] at hb; cases hb

/-- a rejecting `addEdges`: the class is listed by stage 2, the culprit is real -/
theorem stage2_of_error {d : Desc N} {e : LoadError N}
    (h : addEdges fold (d.units.map (·.name)) d.edges [] = .error e) :
    e.cls ∈ stage2 fold d ∧ culpritReal fold d e = true := by
  rcases addEdges_error fold _ _ _ e h with ⟨ed, hed, rfl, hl⟩ | ⟨x, rfl, ⟨ed, hed, hl, hx⟩, hnone⟩
  · constructor
    · unfold stage2
      rw [List.mem_append]
      left
      rw [mem_flag]
      refine ⟨?_, rfl⟩
      unfold hasBadEdge
      rw [List.any_eq_true]
      exact ⟨ed, hed, by simpa using hl⟩
    · simp only [culpritReal, Bool.and_eq_true, decide_eq_true_eq]
      exact ⟨hed, by simpa using hl⟩
  · constructor
    · unfold stage2
      rw [List.mem_append]
      right
      rw [mem_flag]
      refine ⟨?_, rfl⟩
      unfold hasUndef
      rw [List.any_eq_true]
      refine ⟨ed, hed, ?_⟩
      rw [Bool.and_eq_true, List.any_eq_true]
      exact ⟨by simpa using hl, x, hx, by rw [stdName_eq, hnone]; rfl⟩
    · simp only [culpritReal, Bool.and_eq_true, List.any_eq_true, decide_eq_true_eq]
      exact ⟨⟨ed, hed, hx⟩, by rw [stdName_eq, hnone]; rfl⟩

end Order
end Stage2

/-! ## Stage 3: the cycle check -/

theorem conn_rgAll_eq {dg : DG N} {g : Graph N} (hm : DGMatch dg g) : dg.rgAll.conn = (rgOfGraph g).conn := by
  funext a b
  show dg.conn a b = decide ((a, b) ∈ g.edges)
  rw [Bool.eq_iff_iff, hm.conn, decide_eq_true_eq]

theorem acyclic_rgAll_iff {dg : DG N} {g : Graph N} (hm : DGMatch dg g) :
    dg.rgAll.Acyclic ↔ (rgOfGraph g).Acyclic := by
  unfold RG.Acyclic RG.Walk
  rw [conn_rgAll_eq hm]

theorem connIn_rgAll {dg : DG N} (hc : dg.ConnIn) : ConnIn dg.rgAll := by
  intro a b hab
  exact (hc a b (DG.conn_iff.1 hab)).2

/-- **stage 3**: the created graph is accepted by the cycle check iff the description graph has no long walk -/
theorem stage3_iff {dg : DG N} {g : Graph N} (hm : DGMatch dg g) (hwf : g.WF) (hc : dg.ConnIn) :
    isAcyclic g = true ↔ dg.rgAll.acyclicB = true := by
  rw [isAcyclic_iff_acyclic hwf, acyclicB_iff _ (connIn_rgAll hc), acyclic_rgAll_iff hm]

/-! ## Stage 4: dead-end removal -/

/-- a rejecting `chk_terminals` stopped at a sink that is an original input port and not an original output port -/
theorem chkTerminals_error_inv {in0 out0 : List N} {P : Graph N → Prop}
    (hstep : ∀ g, P g → (∀ u ∈ g.outPorts.filter (fun u => !decide (u ∈ out0)), u ∉ in0) →
      P (g.removeNodes (g.outPorts.filter (fun u => !decide (u ∈ out0))))) :
    ∀ (fuel : Nat) (g : Graph N) (e : LoadError N), P g → chkTerminals in0 out0 fuel g = .error e →
      ∃ g' p, P g' ∧ e = .deadInput p ∧ p ∈ g'.outPorts ∧ p ∉ out0 ∧ p ∈ in0
  | 0, g, e, _, h => by simp [chkTerminals] at h
  | fuel + 1, g, e, hP, h => by
    simp only [chkTerminals] at h
    split at h
    · cases h
    · split at h
      next p hp =>
        simp only [Except.error.injEq] at h
        subst h
        have hmem := List.mem_of_find?_eq_some hp
        have hin := List.find?_some hp
        rw [List.mem_filter] at hmem
        exact ⟨g, p, hP, rfl, hmem.1, by simpa using hmem.2, by simpa using hin⟩
      next hnone =>
        refine chkTerminals_error_inv hstep fuel _ e (hstep g hP ?_) h
        intro u hu hin
        have := List.find?_eq_none.1 hnone u hu
        simp [hin] at this

section Terminals
variable {g : Graph N}

/-- the step of `chk_terminals` never removes a live unit -/
theorem live_step (hwf : g.WF) (hac : isAcyclic g = true) (g' : Graph N)
    (hP : g'.Induced (rmEmpty (cleanStruct g)) ∧ ∀ u, LiveG g u → u ∈ g'.names) :
    (g'.removeNodes (g'.outPorts.filter (fun u => !decide (u ∈ g.outPorts)))).Induced (rmEmpty (cleanStruct g)) ∧
      ∀ u, LiveG g u → u ∈ (g'.removeNodes (g'.outPorts.filter (fun u => !decide (u ∈ g.outPorts)))).names := by
  have hs := rmEmpty_cleanStruct_spec hwf hac
  obtain ⟨hI', hP⟩ := hP
  refine ⟨hI'.removeNodes _, fun u hu => Graph.mem_names_removeNodes.2 ⟨hP u hu, fun hdead => ?_⟩⟩
  obtain ⟨hout, hno⟩ := List.mem_filter.1 hdead
  simp only [Bool.not_eq_true', decide_eq_false_iff_not] at hno
  have hsink := (Graph.mem_outPorts.1 hout).2
  cases hu.2 with
  | base ho => exact hno ho
  | @step _ b hk hb =>
    have hb' : LiveG g b := ⟨by obtain ⟨c, _, hc⟩ := hk.2; exact ⟨c, hc⟩, hb⟩
    exact hsink b ((hI'.edges (u, b)).2 ⟨(hs.2 u b).2 hk, hP u hu, hP b hb'⟩)

/-- **stage 4, rejecting**: the unit named by `DeadInputError` is an original input port that keeps a capability and
is not live -/
theorem chkTerminals_error_culprit (hwf : g.WF) (hac : isAcyclic g = true) {fuel : Nat} {e : LoadError N}
    (h : chkTerminals g.inPorts g.outPorts fuel (rmEmpty (cleanStruct g)) = .error e) :
    ∃ p, e = .deadInput p ∧ p ∈ g.inPorts ∧ (∃ c, FeedsG g c p) ∧ ¬ LiveG g p := by
  have hs := rmEmpty_cleanStruct_spec hwf hac
  have hwf1 : (rmEmpty (cleanStruct g)).WF := hwf.cleanStruct.rmEmpty
  obtain ⟨g', p, ⟨hI', hP⟩, he, hout, hno, hin⟩ := chkTerminals_error_inv
    (P := fun g' => g'.Induced (rmEmpty (cleanStruct g)) ∧ ∀ u, LiveG g u → u ∈ g'.names)
    (fun g' hP _ => live_step hwf hac g' hP) fuel _ e
    ⟨Graph.Induced.refl hwf1, fun u hu => (hs.1 u).2 hu.1⟩ h
  refine ⟨p, he, hin, ?_, ?_⟩
  · exact (hs.1 p).1 (hI'.names_sublist.subset (Graph.mem_outPorts.1 hout).1)
  · intro hlive
    have hsink := (Graph.mem_outPorts.1 hout).2
    cases hlive.2 with
    | base ho => exact hno ho
    | @step _ b hk hb =>
      have hb' : LiveG g b := ⟨by obtain ⟨c, _, hc⟩ := hk.2; exact ⟨c, hc⟩, hb⟩
      exact hsink b ((hI'.edges (p, b)).2 ⟨(hs.2 p b).2 hk, hP p hlive, hP b hb'⟩)

/-- **stage 4, accepting**: every original input port that keeps a capability is still there -/
theorem chkTerminals_ok_inputs_kept {fuel : Nat} {g1 g2 : Graph N}
    (h : chkTerminals g.inPorts g.outPorts fuel g1 = .ok g2) : ∀ p ∈ g.inPorts, p ∈ g1.names → p ∈ g2.names := by
  refine chkTerminals_ok_inv (P := fun g' => ∀ p ∈ g.inPorts, p ∈ g1.names → p ∈ g'.names) ?_ fuel g1 g2
    (fun p _ hp => hp) h
  intro g' hP hno p hp hp1
  rw [Graph.mem_names_removeNodes]
  exact ⟨hP p hp hp1, fun hd => hno p hd hp⟩

end Terminals

/-! ## The Bool tables of the description against the working graph -/

section Tables
variable {dg : DG N} {g : Graph N}

theorem mem_deadInputs_iff (hn : dg.names.Nodup) (hc : dg.ConnIn) (ha : dg.rgAll.Acyclic) {p : N} :
    p ∈ deadInputs dg ↔ dg.origIn p = true ∧ (∃ c, dg.Feeds c p) ∧ ¬ dg.Live p := by
  have ht : ∀ u c, c ∈ capsIn dg.keptTable u ↔ dg.Feeds c u := fun u c => DG.mem_keptTable_iff hn hc ha
  unfold deadInputs
  simp only [List.mem_filter, Bool.and_eq_true, Bool.not_eq_true', decide_eq_false_iff_not]
  rw [DG.mem_liveIn_iff ht hc ha]
  have hne := DG.capsIn_nonempty_iff ht (u := p)
  rw [Bool.not_eq_true'] at hne
  rw [hne]
  constructor
  · rintro ⟨_, ⟨h1, h2⟩, h3⟩; exact ⟨h1, h2, h3⟩
  · rintro ⟨h1, h2, h3⟩
    refine ⟨?_, ⟨h1, h2⟩, h3⟩
    unfold DG.origIn at h1
    simp only [Bool.and_eq_true, decide_eq_true_eq] at h1
    exact h1.1

theorem hasLiveInput_iff (hn : dg.names.Nodup) (hc : dg.ConnIn) (ha : dg.rgAll.Acyclic) :
    hasLiveInput dg = true ↔ ∃ u, dg.origIn u = true ∧ dg.Live u := by
  unfold hasLiveInput
  simp only [List.any_eq_true, Bool.and_eq_true, decide_eq_true_eq, DG.mem_liveUnits_iff hn hc ha]
  constructor
  · rintro ⟨u, _, h1, h2⟩; exact ⟨u, h1, h2⟩
  · rintro ⟨u, h1, h2⟩
    refine ⟨u, ?_, h1, h2⟩
    unfold DG.origIn at h1
    simp only [Bool.and_eq_true, decide_eq_true_eq] at h1
    exact h1.1

end Tables

/-! ## Stage 6: the graph `chk_terminals` returns is the usable part -/

theorem isIn_iff_mem_inPorts {g : Graph N} (hwf : g.WF) {p : N} (hp : p ∈ g.names) :
    (rgOfGraph g).isIn p = true ↔ p ∈ g.inPorts := by
  rw [LoaderRoutes.isIn_iff, Graph.mem_inPorts]
  constructor
  · intro h
    refine ⟨hp, fun a ha => h a (hwf.edgesIn _ ha).1 ?_⟩
    simpa [rgOfGraph] using ha
  · intro h v _ hv
    exact h.2 v (by simpa [rgOfGraph] using hv)

section Usable
variable [LT N] [DecidableRel (α := N) (· < ·)] (fold : N → N) {d : Desc N} {g g2 : Graph N} {reg : List N}

/-- what stages 1–3 establish about the description graph -/
theorem dg_facts (hcg : createGraph fold d = .ok (g, reg)) (hac : isAcyclic g = true) :
    g.WF ∧ DGMatch (dgOf fold d) g ∧ (dgOf fold d).names.Nodup ∧ (dgOf fold d).ConnIn ∧
      (dgOf fold d).rgAll.Acyclic := by
  have hwf : g.WF := createGraph_WF fold hcg
  have hm : DGMatch (dgOf fold d) g := createGraph_match fold hcg
  refine ⟨hwf, hm, hm.names ▸ hwf.namesNodup, dgOf_connIn fold d, ?_⟩
  exact (acyclic_rgAll_iff hm).2 ((isAcyclic_iff_acyclic hwf).1 hac)

/-- the declared locks of a unit of the final graph -/
theorem lock_usable (hcg : createGraph fold d = .ok (g, reg)) (hac : isAcyclic g = true)
    (hind : g2.Induced (rmEmpty (cleanStruct g))) (t : LockType) {u : N} (hu : u ∈ g2.names) :
    nodeLock g2 t u = (dgOf fold d).usable.lock t u := by
  obtain ⟨hwf, hm, hn, hc, ha⟩ := dg_facts fold hcg hac
  have hcs : (cleanStruct g).WF := hwf.cleanStruct
  have h1 : (rmEmpty (cleanStruct g)).WF := hcs.rmEmpty
  have hu1 : u ∈ (rmEmpty (cleanStruct g)).names := hind.names_sublist.subset hu
  have hucs : u ∈ (cleanStruct g).names := (rmEmpty_induced hcs).names_sublist.subset hu1
  have hnode2 : g2.node? u = (cleanStruct g).node? u := by
    rw [Induced_node? hind h1.namesNodup hu, Induced_node? (rmEmpty_induced hcs) hcs.namesNodup hu1]
  obtain ⟨n, hn', hname⟩ := Graph.mem_names.1 hucs
  have hnode : (cleanStruct g).node? u = some n := hname ▸ Graph.node?_of_mem hcs.namesNodup hn'
  have hs : n.strip ∈ (cleanStruct g).nodes.map GNode.strip := List.mem_map.2 ⟨n, hn', rfl⟩
  rw [strip_cleanStruct] at hs
  obtain ⟨n0, hn0, hstrip⟩ := List.mem_map.1 hs
  simp only [GNode.strip, Prod.mk.injEq] at hstrip
  obtain ⟨x, hx, hno⟩ := forall₂_left (createGraph_nodes fold hcg).1 n0 hn0
  have hx' : ({ x with caps := declared fold d x, acl := x.acl.map (stdCapName fold d) } : UnitD N) ∈
      (dgOf fold d).units := List.mem_map.2 ⟨x, hx, rfl⟩
  have hunit := DG.unit?_of_mem hn hx'
  have hxu : x.name = u := by rw [← hno.1, hstrip.1, hname]
  simp only [hxu] at hunit
  unfold nodeLock
  rw [hnode2, hnode]
  simp only [DG.usable, DG.usableOf, hunit]
  cases t
  · simp only; rw [← hstrip.2.2.1, hno.2.2.1]
  · simp only; rw [← hstrip.2.2.2.1, hno.2.2.2.1]

/-- **the graph `chk_terminals` returns is the usable part of the description** -/
theorem usable_equiv (hcg : createGraph fold d = .ok (g, reg)) (hac : isAcyclic g = true)
    (hterm : chkTerminals g.inPorts g.outPorts ((rmEmpty (cleanStruct g)).nodes.length + 1)
      (rmEmpty (cleanStruct g)) = .ok g2) :
    RGEquivOn (rgOfGraph g2) (dgOf fold d).usable := by
  obtain ⟨hwf, hm, hn, hc, ha⟩ := dg_facts fold hcg hac
  have ht : ∀ u c, c ∈ capsIn (dgOf fold d).keptTable u ↔ (dgOf fold d).Feeds c u :=
    fun u c => DG.mem_keptTable_iff hn hc ha
  have hl := chkTerminals_live hwf hac hterm
  obtain ⟨hwf2, hac2, hind, hclosed⟩ := terminals_final hwf hac hterm
  have hcs : (cleanStruct g).WF := hwf.cleanStruct
  have h1 : (rmEmpty (cleanStruct g)).WF := hcs.rmEmpty
  have hnames : ∀ u, u ∈ g2.names ↔ u ∈ (dgOf fold d).liveIn (dgOf fold d).keptTable := by
    intro u
    rw [hl.1, DG.mem_liveIn_iff ht hc ha, hm.live hwf]
  refine ⟨hnames, ?_, ?_, ?_⟩
  · intro a b
    show decide ((a, b) ∈ g2.edges) =
      (decide (a ∈ (dgOf fold d).liveIn (dgOf fold d).keptTable) &&
        decide (b ∈ (dgOf fold d).liveIn (dgOf fold d).keptTable) &&
        (dgOf fold d).keptConnT (dgOf fold d).keptTable a b)
    rw [Bool.eq_iff_iff]
    simp only [Bool.and_eq_true, decide_eq_true_eq]
    rw [hl.2, ← hnames, ← hnames, hl.1, hl.1, DG.keptConnT_iff ht, hm.keptConn hwf]
    constructor
    · rintro ⟨h1, h2, h3⟩; exact ⟨⟨h2, h3⟩, h1⟩
    · rintro ⟨⟨h2, h3⟩, h1⟩; exact ⟨h1, h2, h3⟩
  · intro u hu c
    have hu' : u ∈ g2.names := hu
    show decide (c ∈ g2.capsOf u) = decide (c ∈ capsIn (dgOf fold d).keptTable u)
    rw [Bool.eq_iff_iff, decide_eq_true_eq, decide_eq_true_eq, ht, hm.feeds hwf]
    have hu1 : u ∈ (rmEmpty (cleanStruct g)).names := hind.names_sublist.subset hu'
    have hucs : u ∈ (cleanStruct g).names := (rmEmpty_induced hcs).names_sublist.subset hu1
    rw [Induced_capsOf hind h1.namesNodup hu', Induced_capsOf (rmEmpty_induced hcs) hcs.namesNodup hu1]
    have hspec := cleanStruct_spec hwf hac
    exact hspec.2.1 u (hspec.1 ▸ hucs) c
  · intro t u hu
    exact lock_usable fold hcg hac hind t hu

end Usable

/-! ## Stage 6: `capDefects` and the culprits, for any capability graph equivalent to the final graph -/

section Stage6
variable {g2 : Graph N} {U : RG N} {capsOf : N → List N}

theorem mem_offered {pc : N × N} :
    pc ∈ offered U capsOf ↔ pc.1 ∈ U.names ∧ U.isIn pc.1 = true ∧ pc.2 ∈ capsOf pc.1 := by
  obtain ⟨p, c⟩ := pc
  unfold offered
  simp only [List.mem_flatMap, List.mem_filter, List.mem_map, Prod.mk.injEq]
  constructor
  · rintro ⟨q, ⟨h1, h2⟩, c', h3, rfl, rfl⟩; exact ⟨h1, h2, h3⟩
  · rintro ⟨h1, h2, h3⟩; exact ⟨p, ⟨h1, h2⟩, c, h3, rfl, rfl⟩

/-- the offered (port, capability) pairs of `U` are those of the final graph -/
theorem offered_iff (hE : RGEquivOn (rgOfGraph g2) U) (hwf2 : g2.WF)
    (hsup : ∀ u c, U.sup u c = decide (c ∈ capsOf u)) {p c : N} :
    (p, c) ∈ offered U capsOf ↔ p ∈ g2.inPorts ∧ c ∈ g2.capsOf p := by
  rw [mem_offered]
  constructor
  · rintro ⟨h1, h2, h3⟩
    have hp : p ∈ g2.names := (hE.names p).2 h1
    refine ⟨(isIn_iff_mem_inPorts hwf2 hp).1 ((hE.isIn_iff p).2 h2), ?_⟩
    have := hE.sup p hp c
    rw [hsup] at this
    have h4 : decide (c ∈ g2.capsOf p) = true := by
      have h5 : (rgOfGraph g2).sup p c = decide (c ∈ g2.capsOf p) := rfl
      rw [← h5, this]; simpa using h3
    simpa using h4
  · rintro ⟨h1, h2⟩
    have hp : p ∈ g2.names := (Graph.mem_inPorts.1 h1).1
    refine ⟨(hE.names p).1 hp, (hE.isIn_iff p).1 ((isIn_iff_mem_inPorts hwf2 hp).2 h1), ?_⟩
    have := hE.sup p hp c
    rw [hsup] at this
    have h5 : (rgOfGraph g2).sup p c = decide (c ∈ g2.capsOf p) := rfl
    rw [h5] at this
    have h6 : decide (c ∈ capsOf p) = true := by rw [← this]; simpa using h2
    simpa using h6

theorem stage6_flags (hE : RGEquivOn (rgOfGraph g2) U) (hwf2 : g2.WF) (hac2 : isAcyclic g2 = true)
    (hsup : ∀ u c, U.sup u c = decide (c ∈ capsOf u)) :
    (hasPathLock U capsOf = true ↔ ∃ p ∈ g2.inPorts, ∃ c ∈ g2.capsOf p, ¬ (rgOfGraph g2).LocksExact c p) ∧
    (hasBlockedCap U capsOf = true ↔ ∃ p ∈ g2.inPorts, ∃ c ∈ g2.capsOf p, ¬ (rgOfGraph g2).ReachesOut c p) := by
  have hc2 := connIn_rgOfGraph hwf2
  have ha2 := (isAcyclic_iff_acyclic hwf2).1 hac2
  have hcU : ConnIn U := hE.connIn hc2
  have haU : U.Acyclic := hE.acyclic_iff.1 ha2
  have hU : ∀ p c, p ∈ g2.inPorts → c ∈ g2.capsOf p → p ∈ g2.names ∧ p ∈ U.names ∧ U.sup p c = true := by
    intro p c h1 h2
    have hp : p ∈ g2.names := (Graph.mem_inPorts.1 h1).1
    have := ((offered_iff hE hwf2 hsup).2 ⟨h1, h2⟩)
    rw [mem_offered] at this
    exact ⟨hp, this.1, by rw [hsup]; simpa using this.2.2⟩
  constructor
  · unfold hasPathLock
    rw [List.any_eq_true]
    constructor
    · rintro ⟨⟨p, c⟩, hmem, hno⟩
      obtain ⟨h1, h2⟩ := (offered_iff hE hwf2 hsup).1 hmem
      obtain ⟨hp, hpU, hs⟩ := hU p c h1 h2
      refine ⟨p, h1, c, h2, ?_⟩
      intro hex
      have := (locksExactB_iff U hcU haU hpU hs).2 ((hE.locksExact_iff hc2 hp).1 hex)
      simp [this] at hno
    · rintro ⟨p, h1, c, h2, hno⟩
      obtain ⟨hp, hpU, hs⟩ := hU p c h1 h2
      refine ⟨(p, c), (offered_iff hE hwf2 hsup).2 ⟨h1, h2⟩, ?_⟩
      cases hb : U.locksExactB c p with
      | false => rfl
      | true => exact absurd ((hE.locksExact_iff hc2 hp).2 ((locksExactB_iff U hcU haU hpU hs).1 hb)) hno
  · unfold hasBlockedCap
    rw [List.any_eq_true]
    constructor
    · rintro ⟨⟨p, c⟩, hmem, hno⟩
      obtain ⟨h1, h2⟩ := (offered_iff hE hwf2 hsup).1 hmem
      obtain ⟨hp, hpU, hs⟩ := hU p c h1 h2
      refine ⟨p, h1, c, h2, ?_⟩
      intro hex
      have := (reachesOutB_iff U hcU haU hpU hs).2 ((hE.reachesOut_iff hc2 hp).1 hex)
      simp [this] at hno
    · rintro ⟨p, h1, c, h2, hno⟩
      obtain ⟨hp, hpU, hs⟩ := hU p c h1 h2
      refine ⟨(p, c), (offered_iff hE hwf2 hsup).2 ⟨h1, h2⟩, ?_⟩
      cases hb : U.reachesOutB c p with
      | false => rfl
      | true => exact absurd ((hE.reachesOut_iff hc2 hp).2 ((reachesOutB_iff U hcU haU hpU hs).1 hb)) hno

/-- what `culpritReal` asks of a `PathLockError` -/
def pathLockCulprit (U : RG N) (start : N) (t : LockType) (cap : N) : Bool :=
  let counts := (U.maxRoutes cap start).map (U.lockCount t)
  decide (start ∈ U.names) && U.sup start cap &&
    (counts.any (fun k => decide (2 ≤ k)) ||
     counts.any (fun k => counts.any (fun k' => k != k')) ||
     (U.isIn start && counts.any (fun k => k == 0)))

/-- what `culpritReal` asks of a `BlockedCapError` -/
def blockedCulprit (U : RG N) (cap port : N) : Bool :=
  decide (port ∈ U.names) && U.isIn port && U.sup port cap && !U.reachesOutB cap port

/-- the culprits `chkCaps` names are real in every capability graph equivalent to the final graph -/
theorem stage6_culprit (hE : RGEquivOn (rgOfGraph g2) U) (hwf2 : g2.WF) (hac2 : isAcyclic g2 = true)
    {e : LoadError N} (h : chkCaps g2 = .error e) :
    (∃ u t c, e = .pathLock u t c ∧ pathLockCulprit U u t c = true) ∨
    (∃ c p, e = .blockedCap c p ∧ blockedCulprit U c p = true) := by
  have hc2 := connIn_rgOfGraph hwf2
  have ha2 := (isAcyclic_iff_acyclic hwf2).1 hac2
  have hcU : ConnIn U := hE.connIn hc2
  have haU : U.Acyclic := hE.acyclic_iff.1 ha2
  rcases chkCaps_error hwf2 hac2 h with ⟨u, t, c, he, hc, hb⟩ | ⟨c, p, he, hpi, hc, hno⟩
  · left
    refine ⟨u, t, c, he, ?_⟩
    have hu : u ∈ g2.names := mem_names_of_capsOf hc
    have huU : u ∈ U.names := (hE.names u).1 hu
    have hsU : U.sup u c = true := by
      rw [← hE.sup u hu c]; simpa [rgOfGraph] using hc
    -- a maximal route of the final graph is listed by `maxRoutes`, with the same lock count
    have hroute : ∀ r, MaxRouteFrom g2 c u r →
        U.lockCount t r ∈ (U.maxRoutes c u).map (U.lockCount t) ∧ U.lockCount t r = (rgOfGraph g2).lockCount t r := by
      intro r hr
      have hm := (hE.isMaxRoute_iff hc2 hu hr.2).1 hr.1
      exact ⟨List.mem_map.2 ⟨r, (mem_maxRoutes_iff U hcU haU huU hsU).2 ⟨hm, hr.2⟩, rfl⟩,
        (hE.lockCount_route hc2 t hu hr.2 hr.1.1).symm⟩
    unfold pathLockCulprit
    simp only [Bool.and_eq_true, Bool.or_eq_true, decide_eq_true_eq, List.any_eq_true]
    refine ⟨⟨huU, hsU⟩, ?_⟩
    rcases hb with (⟨r, hr, h2⟩ | ⟨r1, r2, h1, h2, hne⟩) | ⟨hui, r, hr, h0⟩
    · obtain ⟨hm, heq⟩ := hroute r hr
      exact Or.inl (Or.inl ⟨_, hm, by rw [heq]; exact h2⟩)
    · obtain ⟨hm1, heq1⟩ := hroute r1 h1
      obtain ⟨hm2, heq2⟩ := hroute r2 h2
      refine Or.inl (Or.inr ⟨_, hm1, _, hm2, ?_⟩)
      rw [heq1, heq2]
      simpa using hne
    · obtain ⟨hm, heq⟩ := hroute r hr
      refine Or.inr ⟨(hE.isIn_iff u).1 ((isIn_iff_mem_inPorts hwf2 hu).2 hui), _, hm, ?_⟩
      rw [heq, h0]; rfl
  · right
    refine ⟨c, p, he, ?_⟩
    have hp : p ∈ g2.names := (Graph.mem_inPorts.1 hpi).1
    have hpU : p ∈ U.names := (hE.names p).1 hp
    have hsU : U.sup p c = true := by
      rw [← hE.sup p hp c]; simpa [rgOfGraph] using hc
    unfold blockedCulprit
    simp only [Bool.and_eq_true, decide_eq_true_eq, Bool.not_eq_true']
    refine ⟨⟨⟨hpU, (hE.isIn_iff p).1 ((isIn_iff_mem_inPorts hwf2 hp).2 hpi)⟩, hsU⟩, ?_⟩
    cases hb : U.reachesOutB c p with
    | false => rfl
    | true => exact absurd ((hE.reachesOut_iff hc2 hp).2 ((reachesOutB_iff U hcU haU hpU hsU).1 hb)) hno

end Stage6

/-! ## `_make_processor` cannot fail on an accepted graph -/

section MakeProc
variable [LT N] [DecidableRel (α := N) (· < ·)] (fold : N → N)

theorem makeProcessor_isSome {g : Graph N} (reg : List N) (hwf : g.WF) (hac : isAcyclic g = true) :
    (makeProcessor fold reg g).isSome = true := by
  unfold makeProcessor mkProc
  simp only [Option.isSome_map]
  apply postOrder_isSome_of_sinkFirst
    (l := (topoOrder g).reverse.filterMap (fun u => (g.node? u).map (fuOf fold reg g)))
  · constructor
    · have hp : (topoOrder g).reverse.Pairwise (fun a b => (a, b) ∉ g.edges) :=
        List.pairwise_reverse.2 (topoOrder_forward g)
      refine List.Pairwise.filterMap _ ?_ hp
      intro u v huv a ha b hb
      simp only [Option.mem_def, Option.map_eq_some_iff] at ha hb
      obtain ⟨n, hn, rfl⟩ := ha
      obtain ⟨n', hn', rfl⟩ := hb
      have h1 := (Graph.node?_some hn).2
      have h2 := (Graph.node?_some hn').2
      simp only [fuOf_model, mkModel_name, fuOf_preds, mem_sortNames, Graph.mem_preds, h1, h2]
      exact huv
    · intro a ha
      rw [List.mem_filterMap] at ha
      obtain ⟨u, hu, hm⟩ := ha
      simp only [Option.map_eq_some_iff] at hm
      obtain ⟨n, hn, rfl⟩ := hm
      have h1 := (Graph.node?_some hn).2
      simp only [fuOf_model, mkModel_name, fuOf_preds, mem_sortNames, Graph.mem_preds, h1]
      exact topoOrder_no_loop g (List.mem_reverse.1 hu)
  · intro x hx
    rw [List.mem_map] at hx
    obtain ⟨n, hn, rfl⟩ := hx
    have hn' := (List.mem_filter.1 hn).1
    rw [List.mem_filterMap]
    refine ⟨n.name, List.mem_reverse.2 ((mem_topoOrder hac).2 (Graph.mem_names.2 ⟨n, hn', rfl⟩)), ?_⟩
    rw [Graph.node?_of_mem hwf.namesNodup hn']
    rfl

end MakeProc

/-! # Putting the stages together -/

section Master
variable [LT N] [DecidableRel (α := N) (· < ·)] (fold : N → N)

/-! ## `defects`, stage by stage -/

theorem isEmpty_of_eq_nil {α : Type} {l : List α} (h : l = []) : l.isEmpty = true := by rw [h]; rfl

theorem isEmpty_of_mem {α : Type} {l : List α} {x : α} (h : x ∈ l) : l.isEmpty = false := by
  cases l with
  | nil => cases h
  | cons a t => rfl

/-- `defects` as nested stages -/
theorem defects_unfold (d : Desc N) : defects fold d =
    if (stage1 fold d).isEmpty then
      if (stage2 fold d).isEmpty then
        if (flag (!(dgOf fold d).rgAll.acyclicB) DefectClass.cyclic).isEmpty then
          if (flag (!(deadInputs (dgOf fold d)).isEmpty) DefectClass.deadInput).isEmpty then
            if (flag (!hasLiveInput (dgOf fold d)) DefectClass.emptyProc).isEmpty then
              (if (capDefects (dgOf fold d)).isEmpty then [] else capDefects (dgOf fold d))
            else flag (!hasLiveInput (dgOf fold d)) DefectClass.emptyProc
          else flag (!(deadInputs (dgOf fold d)).isEmpty) DefectClass.deadInput
        else flag (!(dgOf fold d).rgAll.acyclicB) DefectClass.cyclic
      else stage2 fold d
    else stage1 fold d := rfl

/-! ## The paths through `load` -/

theorem createGraph_of {d : Desc N} {r : List (GNode N) × List N} {es : List (N × N)}
    (h1 : addUnits fold d.units [] [] = .ok r) (h2 : addEdges fold (r.1.map (·.name)) d.edges [] = .ok es) :
    createGraph fold d = .ok (⟨r.1, es⟩, r.2) := by
  simp only [createGraph, h1, h2]

theorem load_addUnits_error {d : Desc N} {e : LoadError N} (h : addUnits fold d.units [] [] = .error e) :
    load fold d = .error e := by
  simp only [load, createGraph, h]

theorem load_addEdges_error {d : Desc N} {r : List (GNode N) × List N} {e : LoadError N}
    (h1 : addUnits fold d.units [] [] = .ok r) (h2 : addEdges fold (r.1.map (·.name)) d.edges [] = .error e) :
    load fold d = .error e := by
  simp only [load, createGraph, h1, h2]

theorem load_prepare_error {d : Desc N} {g : Graph N} {reg : List N} {e : LoadError N}
    (hcg : createGraph fold d = .ok (g, reg)) (hp : prepare g = .error e) : load fold d = .error e := by
  simp only [load, hcg, hp]

theorem load_prepare_ok {d : Desc N} {g g2 : Graph N} {reg : List N} {p : Proc N}
    (hcg : createGraph fold d = .ok (g, reg)) (hp : prepare g = .ok g2) (hmk : makeProcessor fold reg g2 = some p) :
    load fold d = .ok p := by
  simp only [load, hcg, hp, hmk]

theorem prepare_cyclic {g : Graph N} (h : isAcyclic g = false) : prepare g = .error .cyclic := by
  simp [prepare, h]

theorem prepare_terminals_error {g : Graph N} {e : LoadError N} (hac : isAcyclic g = true)
    (h : chkTerminals g.inPorts g.outPorts ((rmEmpty (cleanStruct g)).nodes.length + 1)
      (rmEmpty (cleanStruct g)) = .error e) : prepare g = .error e := by
  simp [prepare, hac, h]

theorem prepare_empty {g g2 : Graph N} (hac : isAcyclic g = true)
    (h : chkTerminals g.inPorts g.outPorts ((rmEmpty (cleanStruct g)).nodes.length + 1)
      (rmEmpty (cleanStruct g)) = .ok g2)
    (he : g.inPorts.any (fun p => decide (p ∈ g2.names)) = false) : prepare g = .error .emptyProc := by
  simp only [prepare, hac, h, he]
  simp

theorem prepare_caps_error {g g2 : Graph N} {e : LoadError N} (hac : isAcyclic g = true)
    (h : chkTerminals g.inPorts g.outPorts ((rmEmpty (cleanStruct g)).nodes.length + 1)
      (rmEmpty (cleanStruct g)) = .ok g2)
    (he : g.inPorts.any (fun p => decide (p ∈ g2.names)) = true) (hc : chkCaps g2 = .error e) :
    prepare g = .error e := by
  simp only [prepare, hac, h, he, hc]
  simp

theorem prepare_caps_ok {g g2 : Graph N} (hac : isAcyclic g = true)
    (h : chkTerminals g.inPorts g.outPorts ((rmEmpty (cleanStruct g)).nodes.length + 1)
      (rmEmpty (cleanStruct g)) = .ok g2)
    (he : g.inPorts.any (fun p => decide (p ∈ g2.names)) = true) (hc : chkCaps g2 = .ok ()) :
    prepare g = .ok g2 := by
  simp only [prepare, hac, h, he, hc]
  simp

/-! ## The master statement -/

/-- either the description is accepted and has no documented defect, or it is rejected with the class of a defect
present at the first defective stage and with a real culprit -/
theorem load_defects (d : Desc N) :
    (∃ p, load fold d = .ok p ∧ defects fold d = []) ∨
    (∃ e, load fold d = .error e ∧ e.cls ∈ defects fold d ∧ culpritReal fold d e = true) := by
  -- stage 1
  cases h1 : addUnits fold d.units [] [] with
  | error e =>
    right
    obtain ⟨hcls, hcul⟩ := stage1_of_error fold h1
    refine ⟨e, load_addUnits_error fold h1, ?_, hcul⟩
    rw [defects_unfold, isEmpty_of_mem hcls]
    exact hcls
  | ok r =>
    have hs1 := stage1_of_ok fold h1
    have hnames : r.1.map (·.name) = d.units.map (·.name) := addUnits_ok_names fold _ _ _ r h1
    -- stage 2
    cases h2 : addEdges fold (r.1.map (·.name)) d.edges [] with
    | error e =>
      right
      have h2' := h2
      rw [hnames] at h2'
      obtain ⟨hcls, hcul⟩ := stage2_of_error fold h2'
      refine ⟨e, load_addEdges_error fold h1 h2, ?_, hcul⟩
      rw [defects_unfold, isEmpty_of_eq_nil hs1, isEmpty_of_mem hcls]
      exact hcls
    | ok es =>
      have hs2 : stage2 fold d = [] := by
        have h2' := h2
        rw [hnames] at h2'
        exact stage2_of_ok fold h2'
      have hcg := createGraph_of fold h1 h2
      generalize hg : (⟨r.1, es⟩ : Graph N) = g at hcg
      generalize hreg : r.2 = reg at hcg
      have hwf : g.WF := createGraph_WF fold hcg
      have hm : DGMatch (dgOf fold d) g := createGraph_match fold hcg
      have hc : (dgOf fold d).ConnIn := dgOf_connIn fold d
      -- stage 3
      cases hac : isAcyclic g with
      | false =>
        right
        have hB : (dgOf fold d).rgAll.acyclicB = false := by
          cases hb : (dgOf fold d).rgAll.acyclicB with
          | false => rfl
          | true => rw [(stage3_iff hm hwf hc).2 hb] at hac; cases hac
        refine ⟨.cyclic, load_prepare_error fold hcg (prepare_cyclic hac), ?_, ?_⟩
        · rw [defects_unfold, isEmpty_of_eq_nil hs1, isEmpty_of_eq_nil hs2, hB]
          simp [flag, LoadError.cls]
        · simp [culpritReal, hB]
      | true =>
        have hB : (dgOf fold d).rgAll.acyclicB = true := (stage3_iff hm hwf hc).1 hac
        obtain ⟨_, _, hn, _, ha⟩ := dg_facts fold hcg hac
        have hs := rmEmpty_cleanStruct_spec hwf hac
        -- stage 4
        cases hterm : chkTerminals g.inPorts g.outPorts ((rmEmpty (cleanStruct g)).nodes.length + 1)
            (rmEmpty (cleanStruct g)) with
        | error e =>
          right
          obtain ⟨p, he, hpi, ⟨c, hfc⟩, hnl⟩ := chkTerminals_error_culprit hwf hac hterm
          subst he
          have hdead : p ∈ deadInputs (dgOf fold d) := by
            rw [mem_deadInputs_iff hn hc ha]
            exact ⟨(hm.origIn hwf p).2 hpi, ⟨c, (hm.feeds hwf c p).2 hfc⟩, fun hl => hnl ((hm.live hwf p).1 hl)⟩
          refine ⟨.deadInput p, load_prepare_error fold hcg (prepare_terminals_error hac hterm), ?_, ?_⟩
          · rw [defects_unfold, isEmpty_of_eq_nil hs1, isEmpty_of_eq_nil hs2, hB, isEmpty_of_mem hdead]
            simp [flag, LoadError.cls]
          · simp [culpritReal, hdead]
        | ok g2 =>
          have hl := chkTerminals_live hwf hac hterm
          have hnodead : deadInputs (dgOf fold d) = [] := by
            rw [List.eq_nil_iff_forall_not_mem]
            intro p hp
            rw [mem_deadInputs_iff hn hc ha] at hp
            obtain ⟨hin, ⟨c, hfc⟩, hnl⟩ := hp
            have hpi : p ∈ g.inPorts := (hm.origIn hwf p).1 hin
            have hp1 : p ∈ (rmEmpty (cleanStruct g)).names := (hs.1 p).2 ⟨c, (hm.feeds hwf c p).1 hfc⟩
            have hp2 := chkTerminals_ok_inputs_kept hterm p hpi hp1
            exact hnl ((hm.live hwf p).2 ((hl.1 p).1 hp2))
          have hs4 : (flag (!(deadInputs (dgOf fold d)).isEmpty) DefectClass.deadInput).isEmpty = true := by
            rw [hnodead]; rfl
          -- stage 5
          have hany : g.inPorts.any (fun p => decide (p ∈ g2.names)) = hasLiveInput (dgOf fold d) := by
            rw [Bool.eq_iff_iff, hasLiveInput_iff hn hc ha, List.any_eq_true]
            constructor
            · rintro ⟨p, hpi, hp2⟩
              exact ⟨p, (hm.origIn hwf p).2 hpi, (hm.live hwf p).2 ((hl.1 p).1 (by simpa using hp2))⟩
            · rintro ⟨p, hin, hlive⟩
              exact ⟨p, (hm.origIn hwf p).1 hin, by simpa using (hl.1 p).2 ((hm.live hwf p).1 hlive)⟩
          cases he : g.inPorts.any (fun p => decide (p ∈ g2.names)) with
          | false =>
            right
            have hli : hasLiveInput (dgOf fold d) = false := by rw [← hany, he]
            refine ⟨.emptyProc, load_prepare_error fold hcg (prepare_empty hac hterm he), ?_, ?_⟩
            · rw [defects_unfold, isEmpty_of_eq_nil hs1, isEmpty_of_eq_nil hs2, hB, hs4, hli]
              simp [flag, LoadError.cls]
            · simp [culpritReal, hli]
          | true =>
            have hli : hasLiveInput (dgOf fold d) = true := by rw [← hany, he]
            -- stage 6
            obtain ⟨hwf2, hac2, hind, hclosed⟩ := terminals_final hwf hac hterm
            have hE := usable_equiv fold hcg hac hterm
            have hsup : ∀ u c, (dgOf fold d).usable.sup u c = decide (c ∈ capsIn (dgOf fold d).keptTable u) :=
              fun u c => rfl
            have hflags := stage6_flags hE hwf2 hac2 hsup
            have hdef : defects fold d = capDefects (dgOf fold d) := by
              rw [defects_unfold, isEmpty_of_eq_nil hs1, isEmpty_of_eq_nil hs2, hB, hs4, hli]
              simp only [Bool.not_true, flag, Bool.false_eq_true, if_false, if_true, List.isEmpty_nil]
              split
              next hemp => rw [List.isEmpty_iff] at hemp; rw [hemp]
              · rfl
            have hcapdef : capDefects (dgOf fold d) =
                flag (hasPathLock (dgOf fold d).usable (capsIn (dgOf fold d).keptTable)) DefectClass.pathLock ++
                flag (hasBlockedCap (dgOf fold d).usable (capsIn (dgOf fold d).keptTable)) DefectClass.blockedCap := rfl
            cases hcaps : chkCaps g2 with
            | error e =>
              right
              refine ⟨e, load_prepare_error fold hcg (prepare_caps_error hac hterm he hcaps), ?_, ?_⟩
              · rw [hdef, hcapdef, List.mem_append, mem_flag, mem_flag]
                rcases chkCaps_error_port hwf2 hac2 (fedFromInputs_terminals hwf hac hterm) hcaps with
                  ⟨hcls, hex⟩ | ⟨hcls, hex⟩
                · exact Or.inl ⟨hflags.1.2 hex, hcls⟩
                · exact Or.inr ⟨hflags.2.2 hex, hcls⟩
              · rcases stage6_culprit hE hwf2 hac2 hcaps with ⟨u, t, c, rfl, hcul⟩ | ⟨c, p, rfl, hcul⟩
                · exact hcul
                · exact hcul
            | ok x =>
              left
              have hok := chkCaps_ok hwf2 hac2 hcaps
              have hprep := prepare_caps_ok hac hterm he hcaps
              obtain ⟨p, hp⟩ := Option.isSome_iff_exists.1 (makeProcessor_isSome fold reg hwf2 hac2)
              refine ⟨p, load_prepare_ok fold hcg hprep hp, ?_⟩
              rw [hdef, hcapdef, List.append_eq_nil_iff, flag_eq_nil, flag_eq_nil]
              constructor
              · cases hb : hasPathLock (dgOf fold d).usable (capsIn (dgOf fold d).keptTable) with
                | false => rfl
                | true =>
                  obtain ⟨p', hp', c, hc', hno⟩ := hflags.1.1 hb
                  exact absurd (hok p' hp' c hc').1 hno
              · cases hb : hasBlockedCap (dgOf fold d).usable (capsIn (dgOf fold d).keptTable) with
                | false => rfl
                | true =>
                  obtain ⟨p', hp', c, hc', hno⟩ := hflags.2.1 hb
                  exact absurd (hok p' hp' c hc').2 hno

end Master

end LoaderDefects
end Loader
end ProcSim
