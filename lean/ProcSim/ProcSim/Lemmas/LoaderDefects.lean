import ProcSim.Lemmas.LoaderBridge
import ProcSim.Lemmas.LoaderC10Check
/-!
# Stage by stage: what the loader rejects is what `Spec.defects` lists (C11)

Core Lean only.  For each stage of `load_proc_desc` (units, connections, cycle check, dead-end removal, emptiness
check, per-capability checks) the failure of the model is characterised and related to the corresponding stage of
`Spec.defects` and to `Spec.culpritReal`:

* `addUnits_error`, `stage1_clean_iff` — duplicate names / non-positive widths;
* `addEdges_error`, `stage2_clean_iff` — malformed connections / unknown units;
* `stage3_iff` — `isAcyclic` of the created graph is `acyclicB` of the description graph;
* `chkTerminals_error_culprit`, `chkTerminals_ok_noDead`, `stage5_iff` — dead inputs and the emptiness check;
* `usable_equiv` — the graph `chk_terminals` returns is the usable part `(dgOf fold d).usable`;
* `stage6_ok`, `stage6_error` — the per-capability checks against `capDefects` / `culpritReal`;
* `makeProcessor_isSome` — `_make_processor` cannot fail on an accepted graph.
-/
set_option linter.unusedSectionVars false
set_option linter.unusedSimpArgs false
set_option linter.unusedVariables false

namespace ProcSim
namespace Loader
namespace LoaderDefects
open Spec LoaderLocks LoaderRoutes LoaderBridge

variable {N : Type} [DecidableEq N]

/-! ## `occursBefore` -/

theorem occursBefore_append_of_mem {old new : N} : ∀ {l1 l2 : List N}, old ∈ l1 → new ∈ l2 →
    occursBefore old new (l1 ++ l2) = true
  | [], _, h, _ => by cases h
  | a :: l1, l2, h, hn => by
    simp only [List.cons_append, occursBefore, Bool.or_eq_true, Bool.and_eq_true, decide_eq_true_eq]
    rcases List.mem_cons.1 h with rfl | h
    · exact Or.inl ⟨rfl, List.mem_append_right _ hn⟩
    · exact Or.inr (occursBefore_append_of_mem h hn)

theorem occursBefore_pairwise {R : N → N → Prop} {old new : N} : ∀ {l : List N}, occursBefore old new l = true →
    l.Pairwise R → R old new
  | [], h, _ => by simp [occursBefore] at h
  | a :: l, h, hp => by
    simp only [occursBefore, Bool.or_eq_true, Bool.and_eq_true, decide_eq_true_eq] at h
    rw [List.pairwise_cons] at hp
    rcases h with ⟨rfl, hn⟩ | h
    · exact hp.1 new hn
    · exact occursBefore_pairwise h hp.2

/-! ## Stage 1: units -/

section Stage1
variable (fold : N → N)

/-- a rejecting `addUnits` names a real culprit -/
theorem addUnits_error : ∀ (us : List (UnitD N)) (names reg : List N) (e : LoadError N),
    addUnits fold us names reg = .error e →
    (∃ old new, e = .dupElem old new ∧ fold old = fold new ∧
        occursBefore old new (names ++ us.map (·.name)) = true) ∨
    (∃ u ∈ us, e = .badWidth u.name u.width ∧ u.width ≤ 0)
  | [], _, _, e, h => by simp [addUnits] at h
  | u :: us, names, reg, e, h => by
    simp only [addUnits] at h
    split at h
    next old hold =>
      simp only [Except.error.injEq] at h
      subst h
      left
      obtain ⟨hmem, hfold⟩ := lookupFold_some fold hold
      exact ⟨old, u.name, rfl, hfold, occursBefore_append_of_mem hmem (by simp)⟩
    next hnone =>
      split at h
      next hw =>
        simp only [Except.error.injEq] at h
        subst h
        right
        exact ⟨u, List.mem_cons_self, rfl, hw⟩
      next hw =>
        split at h
        next e' he' =>
          simp only [Except.error.injEq] at h
          subst h
          rcases addUnits_error us _ _ e' he' with ⟨old, new, h1, h2, h3⟩ | ⟨x, hx, h1, h2⟩
          · left
            refine ⟨old, new, h1, h2, ?_⟩
            simpa [List.append_assoc] using h3
          · right
            exact ⟨x, List.mem_cons_of_mem _ hx, h1, h2⟩
        · cases h

section Order
variable [LT N] [DecidableRel (α := N) (· < ·)]

/-- stage 1 of `defects` -/
def stage1 (d : Desc N) : List DefectClass := flag (hasDupName fold d) .dupElem ++ flag (hasBadWidth d) .badWidth

theorem flag_eq_nil {b : Bool} {c : DefectClass} : flag b c = [] ↔ b = false := by
  cases b <;> simp [flag]

theorem mem_flag {b : Bool} {c x : DefectClass} : x ∈ flag b c ↔ b = true ∧ x = c := by
  cases b <;> simp [flag]

theorem hasDupName_false_iff (d : Desc N) :
    hasDupName fold d = false ↔ (d.units.map (·.name)).Pairwise (fun a b => fold a ≠ fold b) := by
  unfold hasDupName
  rw [Bool.not_eq_false']
  induction d.units.map (·.name) with
  | nil => simp [uniqueUpToFold]
  | cons a l ih =>
    simp only [uniqueUpToFold, Bool.and_eq_true, List.all_eq_true, Bool.not_eq_true', decide_eq_false_iff_not,
      List.pairwise_cons, ih]

theorem hasBadWidth_false_iff (d : Desc N) : hasBadWidth d = false ↔ ∀ u ∈ d.units, 0 < u.width := by
  unfold hasBadWidth
  rw [← Bool.not_eq_true, List.any_eq_true]
  constructor
  · intro h u hu
    apply Classical.byContradiction
    intro hw
    exact h ⟨u, hu, by simpa using (by omega : u.width ≤ 0)⟩
  · rintro h ⟨u, hu, hw⟩
    have := h u hu
    simp at hw
    omega

/-- an accepting `addUnits` means stage 1 is clean -/
theorem stage1_of_ok {d : Desc N} {r : List (GNode N) × List N} (h : addUnits fold d.units [] [] = .ok r) :
    stage1 fold d = [] := by
  unfold stage1
  rw [List.append_eq_nil_iff, flag_eq_nil, flag_eq_nil, hasDupName_false_iff, hasBadWidth_false_iff]
  exact ⟨(addUnits_ok_distinct fold _ _ _ r h).2, addUnits_ok_width fold _ _ _ r h⟩

/-- a rejecting `addUnits`: the class is listed by stage 1, the culprit is real -/
theorem stage1_of_error {d : Desc N} {e : LoadError N} (h : addUnits fold d.units [] [] = .error e) :
    e.cls ∈ stage1 fold d ∧ culpritReal fold d e = true := by
  rcases addUnits_error fold _ _ _ e h with ⟨old, new, rfl, h2, h3⟩ | ⟨u, hu, rfl, hw⟩
  · simp only [List.nil_append] at h3
    constructor
    · unfold stage1
      rw [List.mem_append]
      left
      rw [mem_flag]
      refine ⟨?_, rfl⟩
      cases hd : hasDupName fold d with
      | true => rfl
      | false =>
        rw [hasDupName_false_iff] at hd
        exact absurd h2 (occursBefore_pairwise h3 hd)
    · simp [culpritReal, h2, h3]
  · constructor
    · unfold stage1
      rw [List.mem_append]
      right
      rw [mem_flag]
      refine ⟨?_, rfl⟩
      unfold hasBadWidth
      rw [List.any_eq_true]
      exact ⟨u, hu, by simpa using hw⟩
    · simp only [culpritReal, Bool.and_eq_true, List.any_eq_true, decide_eq_true_eq]
      exact ⟨⟨u, hu, rfl, rfl⟩, hw⟩

end Order
end Stage1

/-! ## Stage 2: connections -/

section Stage2
variable (fold : N → N)

/-- a rejecting `addEdges` names a real culprit -/
theorem addEdges_error (names : List N) : ∀ (es : List (List N)) (acc : List (N × N)) (e : LoadError N),
    addEdges fold names es acc = .error e →
    (∃ ed ∈ es, e = .badEdge ed ∧ ed.length ≠ 2) ∨
    (∃ x, e = .undefElem x ∧ (∃ ed ∈ es, ed.length = 2 ∧ x ∈ ed) ∧ lookupFold fold names x = none)
  | [], _, _, h => by simp [addEdges] at h
  | [] :: es, acc, e, h => by
    simp only [addEdges, Except.error.injEq] at h
    subst h
    exact Or.inl ⟨[], List.mem_cons_self, rfl, by simp⟩
  | [a] :: es, acc, e, h => by
    simp only [addEdges, Except.error.injEq] at h
    subst h
    exact Or.inl ⟨[a], List.mem_cons_self, rfl, by simp⟩
  | (a :: b :: c :: l) :: es, acc, e, h => by
    simp only [addEdges, Except.error.injEq] at h
    subst h
    exact Or.inl ⟨a :: b :: c :: l, List.mem_cons_self, rfl, by simp⟩
  | [a, b] :: es, acc, e, h => by
    simp only [addEdges] at h
    split at h
    next ha =>
      simp only [Except.error.injEq] at h
      subst h
      exact Or.inr ⟨a, rfl, ⟨[a, b], List.mem_cons_self, rfl, by simp⟩, ha⟩
    next a' ha =>
      split at h
      next hb =>
        simp only [Except.error.injEq] at h
        subst h
        exact Or.inr ⟨b, rfl, ⟨[a, b], List.mem_cons_self, rfl, by simp⟩, hb⟩
      next b' hb =>
        rcases addEdges_error names es _ e h with ⟨ed, hed, h1, h2⟩ | ⟨x, h1, ⟨ed, hed, h2, h3⟩, h4⟩
        · exact Or.inl ⟨ed, List.mem_cons_of_mem _ hed, h1, h2⟩
        · exact Or.inr ⟨x, h1, ⟨ed, List.mem_cons_of_mem _ hed, h2, h3⟩, h4⟩

section Order
variable [LT N] [DecidableRel (α := N) (· < ·)]

/-- stage 2 of `defects` -/
def stage2 (d : Desc N) : List DefectClass := flag (hasBadEdge d) .badEdge ++ flag (hasUndef fold d) .undefElem

theorem stdName_eq (d : Desc N) (x : N) : stdName fold d x = lookupFold fold (d.units.map (·.name)) x := rfl

/-- an accepting `addEdges` (on the names of the description) means stage 2 is clean -/
theorem stage2_of_ok {d : Desc N} {es : List (N × N)}
    (h : addEdges fold (d.units.map (·.name)) d.edges [] = .ok es) : stage2 fold d = [] := by
  have hall := (addEdges_ok fold _ _ _ _ h).2.2
  unfold stage2
  rw [List.append_eq_nil_iff, flag_eq_nil, flag_eq_nil]
  constructor
  · unfold hasBadEdge
    rw [← Bool.not_eq_true, List.any_eq_true]
    rintro ⟨e, he, hl⟩
    obtain ⟨a, b, rfl, _, _⟩ := hall e he
    simp at hl
  · unfold hasUndef
    rw [← Bool.not_eq_true, List.any_eq_true]
    rintro ⟨e, he, hl⟩
    obtain ⟨a, b, rfl, ha, hb⟩ := hall e he
    simp only [List.length_cons, List.length_nil, Nat.zero_add, Nat.reduceAdd, BEq.rfl, List.any_cons, List.any_nil,
      Bool.or_false, Bool.true_and, Bool.or_eq_true, Option.isNone_iff_eq_none, stdName_eq] at hl
    rcases hl with hl | hl
    · rw [hl] at ha; cases ha
    · rw [hl] at hb; cases hb

/-- a rejecting `addEdges`: the class is listed by stage 2, the culprit is real -/
theorem stage2_of_error {d : Desc N} {e : LoadError N}
    (h : addEdges fold (d.units.map (·.name)) d.edges [] = .error e) :
    e.cls ∈ stage2 fold d ∧ culpritReal fold d e = true := by
  rcases addEdges_error fold _ _ _ e h with ⟨ed, hed, rfl, hl⟩ | ⟨x, rfl, ⟨ed, hed, hl, hx⟩, hnone⟩
  · constructor
    · unfold stage2
      rw [List.mem_append]
      left
      rw [mem_flag]
      refine ⟨?_, rfl⟩
      unfold hasBadEdge
      rw [List.any_eq_true]
      exact ⟨ed, hed, by simpa using hl⟩
    · simp only [culpritReal, Bool.and_eq_true, decide_eq_true_eq]
      exact ⟨hed, by simpa using hl⟩
  · constructor
    · unfold stage2
      rw [List.mem_append]
      right
      rw [mem_flag]
      refine ⟨?_, rfl⟩
      unfold hasUndef
      rw [List.any_eq_true]
      refine ⟨ed, hed, ?_⟩
      rw [Bool.and_eq_true, List.any_eq_true]
      exact ⟨by simpa using hl, x, hx, by rw [stdName_eq, hnone]; rfl⟩
    · simp only [culpritReal, Bool.and_eq_true, List.any_eq_true, decide_eq_true_eq]
      exact ⟨⟨ed, hed, hx⟩, by rw [stdName_eq, hnone]; rfl⟩

end Order
end Stage2

/-! ## Stage 3: the cycle check -/

theorem conn_rgAll_eq {dg : DG N} {g : Graph N} (hm : DGMatch dg g) : dg.rgAll.conn = (rgOfGraph g).conn := by
  funext a b
  show dg.conn a b = decide ((a, b) ∈ g.edges)
  rw [Bool.eq_iff_iff, hm.conn, decide_eq_true_eq]

theorem acyclic_rgAll_iff {dg : DG N} {g : Graph N} (hm : DGMatch dg g) :
    dg.rgAll.Acyclic ↔ (rgOfGraph g).Acyclic := by
  unfold RG.Acyclic RG.Walk
  rw [conn_rgAll_eq hm]

theorem connIn_rgAll {dg : DG N} (hc : dg.ConnIn) : ConnIn dg.rgAll := by
  intro a b hab
  exact (hc a b (DG.conn_iff.1 hab)).2

/-- **stage 3**: the created graph is accepted by the cycle check iff the description graph has no long walk -/
theorem stage3_iff {dg : DG N} {g : Graph N} (hm : DGMatch dg g) (hwf : g.WF) (hc : dg.ConnIn) :
    isAcyclic g = true ↔ dg.rgAll.acyclicB = true := by
  rw [isAcyclic_iff_acyclic hwf, acyclicB_iff _ (connIn_rgAll hc), acyclic_rgAll_iff hm]

/-! ## Stage 4: dead-end removal -/

/-- a rejecting `chk_terminals` stopped at a sink that is an original input port and not an original output port -/
theorem chkTerminals_error_inv {in0 out0 : List N} {P : Graph N → Prop}
    (hstep : ∀ g, P g → (∀ u ∈ g.outPorts.filter (fun u => !decide (u ∈ out0)), u ∉ in0) →
      P (g.removeNodes (g.outPorts.filter (fun u => !decide (u ∈ out0))))) :
    ∀ (fuel : Nat) (g : Graph N) (e : LoadError N), P g → chkTerminals in0 out0 fuel g = .error e →
      ∃ g' p, P g' ∧ e = .deadInput p ∧ p ∈ g'.outPorts ∧ p ∉ out0 ∧ p ∈ in0
  | 0, g, e, _, h => by simp [chkTerminals] at h
  | fuel + 1, g, e, hP, h => by
    simp only [chkTerminals] at h
    split at h
    · cases h
    · split at h
      next p hp =>
        simp only [Except.error.injEq] at h
        subst h
        have hmem := List.mem_of_find?_eq_some hp
        have hin := List.find?_some hp
        rw [List.mem_filter] at hmem
        exact ⟨g, p, hP, rfl, hmem.1, by simpa using hmem.2, by simpa using hin⟩
      next hnone =>
        refine chkTerminals_error_inv hstep fuel _ e (hstep g hP ?_) h
        intro u hu hin
        have := List.find?_eq_none.1 hnone u hu
        simp [hin] at this

section Terminals
variable {g : Graph N}

/-- the step of `chk_terminals` never removes a live unit -/
theorem live_step (hwf : g.WF) (hac : isAcyclic g = true) (g' : Graph N)
    (hP : g'.Induced (rmEmpty (cleanStruct g)) ∧ ∀ u, LiveG g u → u ∈ g'.names) :
    (g'.removeNodes (g'.outPorts.filter (fun u => !decide (u ∈ g.outPorts)))).Induced (rmEmpty (cleanStruct g)) ∧
      ∀ u, LiveG g u → u ∈ (g'.removeNodes (g'.outPorts.filter (fun u => !decide (u ∈ g.outPorts)))).names := by
  have hs := rmEmpty_cleanStruct_spec hwf hac
  obtain ⟨hI', hP⟩ := hP
  refine ⟨hI'.removeNodes _, fun u hu => Graph.mem_names_removeNodes.2 ⟨hP u hu, fun hdead => ?_⟩⟩
  obtain ⟨hout, hno⟩ := List.mem_filter.1 hdead
  simp only [Bool.not_eq_true', decide_eq_false_iff_not] at hno
  have hsink := (Graph.mem_outPorts.1 hout).2
  cases hu.2 with
  | base ho => exact hno ho
  | @step _ b hk hb =>
    have hb' : LiveG g b := ⟨by obtain ⟨c, _, hc⟩ := hk.2; exact ⟨c, hc⟩, hb⟩
    exact hsink b ((hI'.edges (u, b)).2 ⟨(hs.2 u b).2 hk, hP u hu, hP b hb'⟩)

/-- **stage 4, rejecting**: the unit named by `DeadInputError` is an original input port that keeps a capability and
is not live -/
theorem chkTerminals_error_culprit (hwf : g.WF) (hac : isAcyclic g = true) {fuel : Nat} {e : LoadError N}
    (h : chkTerminals g.inPorts g.outPorts fuel (rmEmpty (cleanStruct g)) = .error e) :
    ∃ p, e = .deadInput p ∧ p ∈ g.inPorts ∧ (∃ c, FeedsG g c p) ∧ ¬ LiveG g p := by
  have hs := rmEmpty_cleanStruct_spec hwf hac
  have hwf1 : (rmEmpty (cleanStruct g)).WF := hwf.cleanStruct.rmEmpty
  obtain ⟨g', p, ⟨hI', hP⟩, he, hout, hno, hin⟩ := chkTerminals_error_inv
    (P := fun g' => g'.Induced (rmEmpty (cleanStruct g)) ∧ ∀ u, LiveG g u → u ∈ g'.names)
    (fun g' hP _ => live_step hwf hac g' hP) fuel _ e
    ⟨Graph.Induced.refl hwf1, fun u hu => (hs.1 u).2 hu.1⟩ h
  refine ⟨p, he, hin, ?_, ?_⟩
  · exact (hs.1 p).1 (hI'.names_sublist.subset (Graph.mem_outPorts.1 hout).1)
  · intro hlive
    have hsink := (Graph.mem_outPorts.1 hout).2
    cases hlive.2 with
    | base ho => exact hno ho
    | @step _ b hk hb =>
      have hb' : LiveG g b := ⟨by obtain ⟨c, _, hc⟩ := hk.2; exact ⟨c, hc⟩, hb⟩
      exact hsink b ((hI'.edges (p, b)).2 ⟨(hs.2 p b).2 hk, hP p hlive, hP b hb'⟩)

/-- **stage 4, accepting**: every original input port that keeps a capability is still there -/
theorem chkTerminals_ok_inputs_kept {fuel : Nat} {g1 g2 : Graph N}
    (h : chkTerminals g.inPorts g.outPorts fuel g1 = .ok g2) : ∀ p ∈ g.inPorts, p ∈ g1.names → p ∈ g2.names := by
  refine chkTerminals_ok_inv (P := fun g' => ∀ p ∈ g.inPorts, p ∈ g1.names → p ∈ g'.names) ?_ fuel g1 g2
    (fun p _ hp => hp) h
  intro g' hP hno p hp hp1
  rw [Graph.mem_names_removeNodes]
  exact ⟨hP p hp hp1, fun hd => hno p hd hp⟩

end Terminals

/-! ## The Bool tables of the description against the working graph -/

section Tables
variable {dg : DG N} {g : Graph N}

theorem mem_deadInputs_iff (hn : dg.names.Nodup) (hc : dg.ConnIn) (ha : dg.rgAll.Acyclic) {p : N} :
    p ∈ deadInputs dg ↔ dg.origIn p = true ∧ (∃ c, dg.Feeds c p) ∧ ¬ dg.Live p := by
  have ht : ∀ u c, c ∈ capsIn dg.keptTable u ↔ dg.Feeds c u := fun u c => DG.mem_keptTable_iff hn hc ha
  unfold deadInputs
  simp only [List.mem_filter, Bool.and_eq_true, Bool.not_eq_true', decide_eq_false_iff_not]
  rw [DG.mem_liveIn_iff ht hc ha]
  have hne := DG.capsIn_nonempty_iff ht (u := p)
  rw [Bool.not_eq_true'] at hne
  rw [hne]
  constructor
  · rintro ⟨_, ⟨h1, h2⟩, h3⟩; exact ⟨h1, h2, h3⟩
  · rintro ⟨h1, h2, h3⟩
    refine ⟨?_, ⟨h1, h2⟩, h3⟩
    unfold DG.origIn at h1
    simp only [Bool.and_eq_true, decide_eq_true_eq] at h1
    exact h1.1

theorem hasLiveInput_iff (hn : dg.names.Nodup) (hc : dg.ConnIn) (ha : dg.rgAll.Acyclic) :
    hasLiveInput dg = true ↔ ∃ u, dg.origIn u = true ∧ dg.Live u := by
  unfold hasLiveInput
  simp only [List.any_eq_true, Bool.and_eq_true, decide_eq_true_eq, DG.mem_liveUnits_iff hn hc ha]
  constructor
  · rintro ⟨u, _, h1, h2⟩; exact ⟨u, h1, h2⟩
  · rintro ⟨u, h1, h2⟩
    refine ⟨u, ?_, h1, h2⟩
    unfold DG.origIn at h1
    simp only [Bool.and_eq_true, decide_eq_true_eq] at h1
    exact h1.1

end Tables

end LoaderDefects
end Loader
end ProcSim
