import ProcSim.Spec.Text
/-!
# Helper lemmas for property C14 (program text ↔ instruction list)

Everything here is core Lean (no Mathlib).  The property theorems themselves are in `ProcSim/Props/C14.lean`.

* §1 `lstrip` / `rstrip` / `strip` on texts built from blanks and blank-free tokens
* §2 `splitOnce` (mnemonic / operand text)
* §3 `splitOnComma`, `trimRest`, `splitOperands` on `joinOps`
* §4 a rendered line: `createInstr n (strip (renderLine i w)) reg`
* §5 the register registry (`stdReg`, `getOperands`): lookup by folded key returns the first spelling
* §6 `strLt` is the core order on `List Char`; `sortedUniq` is strictly sorted with the same members
-/
namespace ProcSim
namespace ProgramLemmas
open Program Spec.Text
open ICase (lower strLe strLt)

attribute [local implicit_reducible] AMap

/-- all characters are blanks -/
def Blank (s : List Char) : Prop := ∀ c ∈ s, isWs c = true
/-- no character is a blank -/
def NoWs (s : List Char) : Prop := ∀ c ∈ s, isWs c = false
/-- no character is a comma -/
def NoComma (s : List Char) : Prop := ∀ c ∈ s, c ≠ ','
/-- what `instrOK` lets through as an operand: no blank, no comma (the empty operand of a corruption included) -/
def Opnd (o : List Char) : Prop := NoWs o ∧ NoComma o

theorem isWs_comma : isWs ',' = false := by decide

theorem Blank.nil : Blank [] := by intro c h; simp at h
theorem NoWs.nil : NoWs [] := by intro c h; simp at h
theorem NoComma.nil : NoComma [] := by intro c h; simp at h

theorem Blank.noComma {s : List Char} (h : Blank s) : NoComma s := by
  intro c hc e
  have := h c hc
  rw [e, isWs_comma] at this
  cases this

theorem Blank.append {a b : List Char} (ha : Blank a) (hb : Blank b) : Blank (a ++ b) := by
  intro c hc
  rcases List.mem_append.1 hc with h | h
  · exact ha c h
  · exact hb c h

theorem NoComma.append {a b : List Char} (ha : NoComma a) (hb : NoComma b) : NoComma (a ++ b) := by
  intro c hc
  rcases List.mem_append.1 hc with h | h
  · exact ha c h
  · exact hb c h

theorem Blank.of_cons {c : Char} {s : List Char} (h : Blank (c :: s)) : isWs c = true ∧ Blank s :=
  ⟨h c (by simp), fun d hd => h d (by simp [hd])⟩

theorem NoWs.of_cons {c : Char} {s : List Char} (h : NoWs (c :: s)) : isWs c = false ∧ NoWs s :=
  ⟨h c (by simp), fun d hd => h d (by simp [hd])⟩

theorem NoComma.of_cons {c : Char} {s : List Char} (h : NoComma (c :: s)) : c ≠ ',' ∧ NoComma s :=
  ⟨h c (by simp), fun d hd => h d (by simp [hd])⟩

theorem blankB_iff {s : List Char} : blankB s = true ↔ Blank s := by
  simp [blankB, Blank]

theorem nameOK_iff {t : List Char} : nameOK t = true ↔ t ≠ [] ∧ NoWs t := by
  simp [nameOK, NoWs]

theorem tokOK_iff {t : List Char} : tokOK t = true ↔ t ≠ [] ∧ NoWs t ∧ NoComma t := by
  simp only [tokOK, NoWs, NoComma, Bool.and_eq_true, Bool.not_eq_true', List.isEmpty_eq_false_iff,
    List.all_eq_true, bne_iff_ne, ne_eq]
  constructor
  · rintro ⟨h1, h2⟩
    exact ⟨h1, fun c hc => (h2 c hc).1, fun c hc => (h2 c hc).2⟩
  · rintro ⟨h1, h2, h3⟩
    exact ⟨h1, fun c hc => ⟨h2 c hc, h3 c hc⟩⟩

theorem opnd_of_ok {o : List Char} (h : (o.isEmpty || tokOK o) = true) : Opnd o := by
  rcases Bool.or_eq_true_iff.1 h with h | h
  · have : o = [] := by simpa using h
    subst this
    exact ⟨NoWs.nil, NoComma.nil⟩
  · exact (tokOK_iff.1 h).2

/-! ## 1. `lstrip`, `rstrip`, `strip` -/

@[simp] theorem lstrip_nil : lstrip [] = [] := rfl
@[simp] theorem rstrip_nil : rstrip [] = [] := rfl

theorem lstrip_cons_ws {c : Char} (s : List Char) (h : isWs c = true) : lstrip (c :: s) = lstrip s := by
  simp [lstrip, h]

theorem lstrip_cons_nonws {c : Char} (s : List Char) (h : isWs c = false) : lstrip (c :: s) = c :: s := by
  simp [lstrip, h]

theorem lstrip_blank {s : List Char} (h : Blank s) : lstrip s = [] := by
  induction s with
  | nil => rfl
  | cons c s ih => rw [lstrip_cons_ws s h.of_cons.1]; exact ih h.of_cons.2

theorem lstrip_blank_append {a : List Char} (b : List Char) (h : Blank a) : lstrip (a ++ b) = lstrip b := by
  induction a with
  | nil => rfl
  | cons c a ih => rw [List.cons_append, lstrip_cons_ws _ h.of_cons.1]; exact ih h.of_cons.2

theorem lstrip_noWs {s : List Char} (h : NoWs s) : lstrip s = s := by
  cases s with
  | nil => rfl
  | cons c s => exact lstrip_cons_nonws s h.of_cons.1

/-- a non-blank character stops `lstrip`: what follows it is untouched -/
theorem lstrip_append_cons (a : List Char) {c : Char} (b : List Char) (h : isWs c = false) :
    lstrip (a ++ c :: b) = lstrip a ++ c :: b := by
  induction a with
  | nil => simp [lstrip_cons_nonws b h]
  | cons d a ih =>
    cases hd : isWs d with
    | true => rw [List.cons_append, lstrip_cons_ws _ hd, lstrip_cons_ws _ hd]; exact ih
    | false => rw [List.cons_append, lstrip_cons_nonws _ hd, lstrip_cons_nonws _ hd]; rfl

theorem rstrip_cons_nonws {c : Char} (s : List Char) (h : isWs c = false) : rstrip (c :: s) = c :: rstrip s := by
  simp only [rstrip, h]
  split <;> simp_all

theorem rstrip_cons_of_ne_nil (c : Char) {s : List Char} (h : rstrip s ≠ []) : rstrip (c :: s) = c :: rstrip s := by
  cases hr : rstrip s with
  | nil => exact absurd hr h
  | cons d r => simp [rstrip, hr]

theorem rstrip_cons_ws_nil {c : Char} {s : List Char} (hc : isWs c = true) (h : rstrip s = []) :
    rstrip (c :: s) = [] := by
  simp [rstrip, h, hc]

theorem rstrip_blank {s : List Char} (h : Blank s) : rstrip s = [] := by
  induction s with
  | nil => rfl
  | cons c s ih => exact rstrip_cons_ws_nil h.of_cons.1 (ih h.of_cons.2)

theorem rstrip_noWs {s : List Char} (h : NoWs s) : rstrip s = s := by
  induction s with
  | nil => rfl
  | cons c s ih => rw [rstrip_cons_nonws s h.of_cons.1, ih h.of_cons.2]

/-- a non-blank remainder protects everything before it -/
theorem rstrip_append_of_ne_nil (a : List Char) {b : List Char} (h : rstrip b ≠ []) :
    rstrip (a ++ b) = a ++ rstrip b := by
  induction a with
  | nil => rfl
  | cons c a ih =>
    have : rstrip (a ++ b) ≠ [] := by
      rw [ih]; intro e; exact h (List.append_eq_nil_iff.1 e).2
    rw [List.cons_append, rstrip_cons_of_ne_nil c this, ih]; rfl

theorem rstrip_append_blank (a : List Char) {b : List Char} (h : Blank b) : rstrip (a ++ b) = rstrip a := by
  induction a with
  | nil => exact rstrip_blank h
  | cons c a ih =>
    simp only [List.cons_append, rstrip, ih]

theorem rstrip_noWs_append {a : List Char} (b : List Char) (h : NoWs a) : rstrip (a ++ b) = a ++ rstrip b := by
  induction a with
  | nil => rfl
  | cons c a ih => rw [List.cons_append, rstrip_cons_nonws _ h.of_cons.1, ih h.of_cons.2]; rfl

theorem rstrip_ne_nil_of_noWs {s : List Char} (h : NoWs s) (hne : s ≠ []) : rstrip s ≠ [] := by
  rw [rstrip_noWs h]; exact hne

theorem rstrip_cons_nonws_ne_nil {c : Char} (s : List Char) (h : isWs c = false) : rstrip (c :: s) ≠ [] := by
  rw [rstrip_cons_nonws s h]; simp

/-- `rstrip` of blanks, a blank-free (possibly empty) word, blanks -/
theorem rstrip_blank_word_blank {r o l : List Char} (hr : Blank r) (ho : NoWs o) (hl : Blank l) :
    rstrip (r ++ (o ++ l)) = if o = [] then [] else r ++ o := by
  split
  · next h => subst h; exact rstrip_blank (hr.append hl)
  · next h =>
    rw [← List.append_assoc, rstrip_append_blank _ hl,
      rstrip_append_of_ne_nil r (rstrip_ne_nil_of_noWs ho h), rstrip_noWs ho]

/-- **`strip`**: blanks around a blank-free (possibly empty) word disappear -/
theorem strip_blank_word_blank {r o l : List Char} (hr : Blank r) (ho : NoWs o) (hl : Blank l) :
    strip (r ++ (o ++ l)) = o := by
  unfold strip
  rw [lstrip_blank_append _ hr]
  cases o with
  | nil => rw [List.nil_append, lstrip_blank hl]; rfl
  | cons c o =>
    rw [List.cons_append, lstrip_cons_nonws _ ho.of_cons.1, ← List.cons_append, rstrip_append_blank _ hl,
      rstrip_noWs ho]

/-- **`strip (pre ++ body ++ post) = body`** for blank `pre`/`post` and a body with non-blank first and last
character -/
theorem strip_pre_body_post {pre post : List Char} (c d : Char) (mid : List Char)
    (hpre : Blank pre) (hpost : Blank post) (hc : isWs c = false) (hd : isWs d = false) :
    strip (pre ++ (c :: (mid ++ [d])) ++ post) = c :: (mid ++ [d]) := by
  unfold strip
  rw [List.append_assoc, lstrip_blank_append _ hpre, List.cons_append, lstrip_cons_nonws _ hc,
    ← List.cons_append, rstrip_append_blank _ hpost, ← List.cons_append,
    rstrip_append_of_ne_nil _ (rstrip_cons_nonws_ne_nil [] hd), rstrip_cons_nonws _ hd]
  rfl

theorem strip_blank {s : List Char} (h : Blank s) : strip s = [] := by
  unfold strip; rw [lstrip_blank h]; rfl

/-! ## 2. `splitOnce` -/

theorem spanNonWs_noWs_append {a : List Char} (b : List Char) (h : NoWs a) :
    spanNonWs (a ++ b) = (a ++ (spanNonWs b).1, (spanNonWs b).2) := by
  induction a with
  | nil => rfl
  | cons c a ih => simp [spanNonWs, h.of_cons.1, ih h.of_cons.2]

theorem spanNonWs_cons_ws {c : Char} (s : List Char) (h : isWs c = true) : spanNonWs (c :: s) = ([], c :: s) := by
  simp [spanNonWs, h]

/-- a line without a blank is its own mnemonic: "No operands" -/
theorem splitOnce_noWs {name : List Char} (h : NoWs name) : splitOnce name = (name, none) := by
  have := spanNonWs_noWs_append [] h
  simp only [List.append_nil, spanNonWs] at this
  simp [splitOnce, this]

/-- blank-free mnemonic followed by a text starting with a blank -/
theorem splitOnce_name_ws {name : List Char} {c : Char} (y : List Char) (h : NoWs name) (hc : isWs c = true) :
    splitOnce (name ++ c :: y) = (name, some (lstrip y)) := by
  have := spanNonWs_noWs_append (c :: y) h
  rw [spanNonWs_cons_ws y hc] at this
  simp only [List.append_nil] at this
  simp [splitOnce, this, lstrip_cons_ws y hc]

/-- **`splitOnce (name ++ sep ++ rest) = (name, some rest)`** for a blank-free `name`, a non-empty all-blank
`sep` and `rest` starting with a non-blank (or empty) -/
theorem splitOnce_name_sep_rest {name sep rest : List Char} (h : NoWs name) (hsep : Blank sep) (hne : sep ≠ [])
    (hrest : lstrip rest = rest) : splitOnce (name ++ sep ++ rest) = (name, some rest) := by
  cases sep with
  | nil => contradiction
  | cons c sep =>
    rw [List.append_assoc, List.cons_append, splitOnce_name_ws _ h hsep.of_cons.1,
      lstrip_blank_append _ hsep.of_cons.2, hrest]

/-! ## 3. `splitOnComma`, `trimRest`, `splitOperands` on `joinOps` -/

theorem splitOnComma_noComma {s : List Char} (h : NoComma s) : splitOnComma s = (s, []) := by
  induction s with
  | nil => rfl
  | cons c s ih => simp [splitOnComma, ih h.of_cons.2, h.of_cons.1]

theorem splitOnComma_append_comma {a : List Char} (b : List Char) (h : NoComma a) :
    splitOnComma (a ++ ',' :: b) = (a, (splitOnComma b).1 :: (splitOnComma b).2) := by
  induction a with
  | nil => simp [splitOnComma]
  | cons c a ih => simp [splitOnComma, ih h.of_cons.2, h.of_cons.1]

/-- all pieces between commas -/
def pieces (s : List Char) : List (List Char) := (splitOnComma s).1 :: (splitOnComma s).2

theorem pieces_noComma {s : List Char} (h : NoComma s) : pieces s = [s] := by
  simp [pieces, splitOnComma_noComma h]

theorem pieces_append_comma {a : List Char} (b : List Char) (h : NoComma a) :
    pieces (a ++ ',' :: b) = a :: pieces b := by
  simp [pieces, splitOnComma_append_comma b h]

theorem trimRest_cons_pieces (q s : List Char) : trimRest (q :: pieces s) = strip q :: trimRest (pieces s) := rfl

/-- blanks around every comma -/
def CommasOK (cs : List (List Char × List Char)) : Prop := ∀ p ∈ cs, Blank p.1 ∧ Blank p.2

theorem CommasOK.head {cs : List (List Char × List Char)} (h : CommasOK cs) :
    Blank (cs.headD ([], [])).1 ∧ Blank (cs.headD ([], [])).2 := by
  cases cs with
  | nil => exact ⟨Blank.nil, Blank.nil⟩
  | cons p cs => exact h p (by simp)

theorem CommasOK.tail {cs : List (List Char × List Char)} (h : CommasOK cs) : CommasOK cs.tail := by
  cases cs with
  | nil => exact h
  | cons p cs => intro q hq; exact h q (List.mem_cons_of_mem _ hq)

@[simp] theorem joinOps_nil (cs : List (List Char × List Char)) : joinOps [] cs = [] := by
  cases cs <;> rfl

@[simp] theorem joinOps_single (o : List Char) (cs : List (List Char × List Char)) : joinOps [o] cs = o := by
  cases cs <;> rfl

/-- one equation for both clauses of `joinOps` (missing blanks = none) -/
theorem joinOps_cons_cons (o o' : List Char) (os : List (List Char)) (cs : List (List Char × List Char)) :
    joinOps (o :: o' :: os) cs =
      (o ++ (cs.headD ([], [])).1) ++ ',' :: ((cs.headD ([], [])).2 ++ joinOps (o' :: os) cs.tail) := by
  cases cs with
  | nil => simp [joinOps]
  | cons p cs => obtain ⟨l, r⟩ := p; simp [joinOps]

theorem rstrip_append_comma (a b : List Char) : rstrip (a ++ ',' :: b) = a ++ ',' :: rstrip b := by
  rw [rstrip_append_of_ne_nil a (rstrip_cons_nonws_ne_nil b isWs_comma), rstrip_cons_nonws b isWs_comma]

/-- the pieces after the first comma, trimmed, are the operands after the first — empty ones included -/
theorem trimRest_pieces_join (os : List (List Char)) :
    ∀ (o r : List Char) (cs : List (List Char × List Char)), Blank r → CommasOK cs → (∀ x ∈ o :: os, Opnd x) →
      trimRest (pieces (rstrip (r ++ joinOps (o :: os) cs))) = o :: os := by
  induction os with
  | nil =>
    intro o r cs hr _ hop
    have ho := hop o (by simp)
    have h := rstrip_blank_word_blank (l := []) hr ho.1 Blank.nil
    rw [List.append_nil] at h
    rw [joinOps_single, h]
    split
    · next e => subst e; rfl
    · rw [pieces_noComma (hr.noComma.append ho.2)]
      show [lstrip (r ++ o)] = [o]
      rw [lstrip_blank_append _ hr, lstrip_noWs ho.1]
  | cons o' os ih =>
    intro o r cs hr hcs hop
    have ho := hop o (by simp)
    have hl := hcs.head
    rw [joinOps_cons_cons, ← List.append_assoc, rstrip_append_comma,
      pieces_append_comma _ (hr.noComma.append (ho.2.append hl.1.noComma)), trimRest_cons_pieces,
      ih o' _ cs.tail hl.2 hcs.tail (fun x hx => hop x (by simp [List.mem_cons.1 hx])),
      strip_blank_word_blank hr ho.1 hl.1]

theorem NoComma.lstrip {s : List Char} (h : NoComma s) : NoComma (lstrip s) := by
  induction s with
  | nil => exact h
  | cons c s ih =>
    cases hc : isWs c with
    | true => rw [lstrip_cons_ws s hc]; exact ih h.of_cons.2
    | false => rw [lstrip_cons_nonws s hc]; exact h

/-- **`splitOperands`** of the stripped operand text returns the written operands, however many blanks surround
the commas; an empty operand (two adjacent commas, a leading or a trailing comma) comes back as `[]` -/
theorem splitOperands_join (o : List Char) (os : List (List Char)) (cs : List (List Char × List Char))
    (hcs : CommasOK cs) (hop : ∀ x ∈ o :: os, Opnd x) :
    splitOperands (lstrip (rstrip (joinOps (o :: os) cs))) = (o, os) := by
  have ho := hop o (by simp)
  cases os with
  | nil =>
    rw [joinOps_single, rstrip_noWs ho.1, lstrip_noWs ho.1]
    simp [splitOperands, splitOnComma_noComma ho.2]
  | cons o' os =>
    have hl := hcs.head
    have h1 := trimRest_pieces_join os o' _ cs.tail hl.2 hcs.tail (fun x hx => hop x (by simp [List.mem_cons.1 hx]))
    have h2 : rstrip (lstrip (o ++ (cs.headD ([], [])).1)) = o := by
      have := strip_blank_word_blank Blank.nil ho.1 hl.1
      simpa [strip] using this
    rw [joinOps_cons_cons, rstrip_append_comma, lstrip_append_cons _ _ isWs_comma]
    have h3 := splitOnComma_append_comma (rstrip ((cs.headD ([], [])).2 ++ joinOps (o' :: os) cs.tail))
      (ho.2.append hl.1.noComma).lstrip
    simp only [splitOperands, h3]
    rw [h2]
    exact congrArg _ h1

/-- with genuine (non-empty) tokens nothing is stripped at the right end -/
theorem rstrip_join_tokens (os : List (List Char)) :
    ∀ (o r : List Char) (cs : List (List Char × List Char)), (∀ x ∈ o :: os, x ≠ [] ∧ NoWs x) →
      rstrip (r ++ joinOps (o :: os) cs) = r ++ joinOps (o :: os) cs := by
  induction os with
  | nil =>
    intro o r cs h
    have ho := h o (by simp)
    rw [joinOps_single, rstrip_append_of_ne_nil r (rstrip_ne_nil_of_noWs ho.2 ho.1), rstrip_noWs ho.2]
  | cons o' os ih =>
    intro o r cs h
    rw [joinOps_cons_cons, ← List.append_assoc, rstrip_append_comma,
      ih o' _ cs.tail (fun x hx => h x (by simp [List.mem_cons.1 hx]))]

/-- **`splitOperands (joinOps ops commas) = ops`** for non-empty operand tokens without blanks and commas and
arbitrary blanks around the commas -/
theorem splitOperands_join_tokens (o : List Char) (os : List (List Char)) (cs : List (List Char × List Char))
    (hcs : CommasOK cs) (hop : ∀ x ∈ o :: os, tokOK x = true) :
    splitOperands (joinOps (o :: os) cs) = (o, os) := by
  have hop' : ∀ x ∈ o :: os, Opnd x := fun x hx => (tokOK_iff.1 (hop x hx)).2
  have hne : ∀ x ∈ o :: os, x ≠ [] ∧ NoWs x := fun x hx => ⟨(tokOK_iff.1 (hop x hx)).1, (tokOK_iff.1 (hop x hx)).2.1⟩
  have h := splitOperands_join o os cs hcs hop'
  have h1 := rstrip_join_tokens os o [] cs hne
  rw [List.nil_append] at h1
  rw [h1] at h
  have h2 : lstrip (joinOps (o :: os) cs) = joinOps (o :: os) cs := by
    have ho := hne o (by simp)
    cases ho' : o with
    | nil => exact absurd ho' ho.1
    | cons c t =>
      rw [ho'] at ho
      cases os with
      | nil => rw [joinOps_single]; exact lstrip_cons_nonws _ ho.2.of_cons.1
      | cons o' os =>
        rw [joinOps_cons_cons, List.cons_append, List.cons_append]; exact lstrip_cons_nonws _ ho.2.of_cons.1
  rw [h2] at h
  exact h

/-- the operand text is non-blank unless there is no operand at all -/
theorem rstrip_join_ne_nil (o : List Char) (os : List (List Char)) (cs : List (List Char × List Char))
    (hop : ∀ x ∈ o :: os, Opnd x) (hne : ¬ (o = [] ∧ os = [])) : rstrip (joinOps (o :: os) cs) ≠ [] := by
  cases os with
  | nil =>
    rw [joinOps_single]
    exact rstrip_ne_nil_of_noWs (hop o (by simp)).1 (fun e => hne ⟨e, rfl⟩)
  | cons o' os =>
    rw [joinOps_cons_cons, rstrip_append_comma]
    intro e
    have := (List.append_eq_nil_iff.1 e).2
    cases this

/-! ## 4. one rendered line -/

/-- `_create_instr` after the two splits -/
def createOps (line : Nat) (instr first : List Char) (others : List (List Char)) (reg : Registry) :
    Except ParseError (ProgInstr × Registry) :=
  if first.isEmpty then .error (.emptyOperand line instr 1)
  else
    let (dst, reg1) := stdReg reg first
    match getOperands line instr reg1 2 others with
    | .error e => .error e
    | .ok (sources, reg') => .ok ({ srcs := sortedUniq sources, dst := dst, name := instr, line := line }, reg')

theorem createInstr_of_none {txt instr : List Char} (line : Nat) (reg : Registry)
    (h : splitOnce txt = (instr, none)) : createInstr line txt reg = .error (.noOperands line instr) := by
  simp [createInstr, h]

theorem createInstr_of_some {txt instr operands : List Char} (line : Nat) (reg : Registry)
    (h : splitOnce txt = (instr, some operands)) :
    createInstr line txt reg = createOps line instr (splitOperands operands).1 (splitOperands operands).2 reg := by
  simp only [createInstr, h, createOps]
  rfl

/-- the stripped line: mnemonic, then (unless nothing non-blank follows) the separator and the operand text -/
theorem strip_renderLine (i : SrcInstr) (w : LineWs) (hname : i.name ≠ [] ∧ NoWs i.name)
    (hpre : Blank w.pre) (hpost : Blank w.post) :
    strip (renderLine i w) = i.name ++ rstrip (w.sep ++ joinOps i.ops w.commas) := by
  unfold strip renderLine
  simp only [List.append_assoc]
  rw [lstrip_blank_append _ hpre]
  obtain ⟨hne, hnw⟩ := hname
  have : lstrip (i.name ++ (w.sep ++ (joinOps i.ops w.commas ++ w.post))) =
      i.name ++ (w.sep ++ (joinOps i.ops w.commas ++ w.post)) := by
    cases hn : i.name with
    | nil => exact absurd hn hne
    | cons c n => rw [hn] at hnw; exact lstrip_cons_nonws _ hnw.of_cons.1
  rw [this, rstrip_noWs_append _ hnw, ← List.append_assoc w.sep, rstrip_append_blank _ hpost]

theorem strip_renderLine_ne_nil (i : SrcInstr) (w : LineWs) (hname : i.name ≠ [] ∧ NoWs i.name)
    (hpre : Blank w.pre) (hpost : Blank w.post) : (strip (renderLine i w)).isEmpty = false := by
  rw [strip_renderLine i w hname hpre hpost]
  cases h : i.name with
  | nil => exact absurd h hname.1
  | cons c n => rfl

/-- a line whose operand list is `[]` or `[[]]` strips to its mnemonic: "No operands" -/
theorem createInstr_render_noOps (i : SrcInstr) (w : LineWs) (n : Nat) (reg : Registry)
    (hname : i.name ≠ [] ∧ NoWs i.name) (hpre : Blank w.pre) (hsep : Blank w.sep) (hpost : Blank w.post)
    (hops : i.ops = [] ∨ i.ops = [[]]) :
    createInstr n (strip (renderLine i w)) reg = .error (.noOperands n i.name) := by
  have hj : joinOps i.ops w.commas = [] := by
    rcases hops with h | h <;> rw [h] <;> simp
  rw [strip_renderLine i w hname hpre hpost, hj, List.append_nil, rstrip_blank hsep, List.append_nil]
  exact createInstr_of_none n reg (splitOnce_noWs hname.2)

/-- any other line: mnemonic and exactly the written operands (empty ones included) reach `_get_operands` -/
theorem createInstr_render_ops (i : SrcInstr) (w : LineWs) (n : Nat) (reg : Registry)
    (o : List Char) (os : List (List Char))
    (hname : i.name ≠ [] ∧ NoWs i.name) (hpre : Blank w.pre) (hsep : Blank w.sep) (hsne : w.sep ≠ [])
    (hcs : CommasOK w.commas) (hpost : Blank w.post)
    (hops : i.ops = o :: os) (hop : ∀ x ∈ o :: os, Opnd x) (hne : ¬ (o = [] ∧ os = [])) :
    createInstr n (strip (renderLine i w)) reg = createOps n i.name o os reg := by
  have hj := rstrip_join_ne_nil o os w.commas hop hne
  rw [strip_renderLine i w hname hpre hpost, hops, rstrip_append_of_ne_nil _ hj]
  cases hs : w.sep with
  | nil => exact absurd hs hsne
  | cons c sep =>
    rw [hs] at hsep
    rw [List.cons_append, createInstr_of_some n reg (splitOnce_name_ws _ hname.2 hsep.of_cons.1),
      lstrip_blank_append _ hsep.of_cons.2, splitOperands_join o os w.commas hcs hop]

/-! ## 5. the register registry -/

/-- **registry invariant**: looking up the folded text of `x` returns the first spelling among the operands read
so far (`seen`, in reading order) -/
def RegInv (reg : Registry) (seen : List (List Char)) : Prop :=
  ∀ x, AMap.get? reg (lower x) = seen.find? (fun s => lower s == lower x)

theorem RegInv.nil : RegInv ([] : List (List Char × List Char)) [] := fun _ => rfl

theorem find_single (op x : List Char) :
    [op].find? (fun s => lower s == lower x) = if lower op = lower x then some op else none := by
  by_cases e : lower op = lower x
  · simp [List.find?, e]
  · have : (lower op == lower x) = false := by simpa using e
    simp [List.find?, e, this]

/-- `stdReg` returns the first spelling and keeps the invariant -/
theorem stdReg_spec {reg : Registry} {seen : List (List Char)} (h : RegInv reg seen) (op : List Char) :
    (stdReg reg op).1 = firstSpelling seen op ∧ RegInv (stdReg reg op).2 (seen ++ [op]) := by
  unfold stdReg firstSpelling
  rw [h op]
  cases hf : seen.find? (fun s => lower s == lower op) with
  | some first =>
    refine ⟨rfl, fun x => ?_⟩
    show AMap.get? reg (lower x) = _
    rw [h x, List.find?_append, find_single]
    by_cases e : lower op = lower x
    · rw [← e, hf]; rfl
    · rw [if_neg e, Option.or_none]
  | none =>
    refine ⟨rfl, fun x => ?_⟩
    show AMap.get? (AMap.set reg (lower op) op) (lower x) = _
    rw [List.find?_append, find_single]
    by_cases e : lower op = lower x
    · rw [← e, hf, AMap.get?_set_eq, if_pos rfl]; rfl
    · rw [AMap.get?_set_ne _ _ e, h x, if_neg e, Option.or_none]

/-- `getOperands` stops at the first empty operand, whatever the registry -/
theorem getOperands_error (n : Nat) (name : List Char) (ops : List (List Char)) :
    ∀ (reg : Registry) (k j : Nat), firstEmpty k ops = some j →
      getOperands n name reg k ops = .error (.emptyOperand n name j) := by
  induction ops with
  | nil => intro reg k j h; simp [firstEmpty] at h
  | cons o os ih =>
    intro reg k j h
    unfold firstEmpty at h
    unfold getOperands
    split at h
    · next he => cases h; simp [he]
    · next he => simp only [he, Bool.false_eq_true, ↓reduceIte]; rw [ih _ _ _ h]

/-- without an empty operand `getOperands` returns the first spellings and keeps the invariant -/
theorem getOperands_ok (n : Nat) (name : List Char) (ops : List (List Char)) :
    ∀ (reg : Registry) (seen : List (List Char)) (k : Nat), firstEmpty k ops = none → RegInv reg seen →
      ∃ reg', getOperands n name reg k ops = .ok (stdOps seen ops, reg') ∧ RegInv reg' (seen ++ ops) := by
  induction ops with
  | nil => intro reg seen k _ hinv; exact ⟨reg, rfl, by simpa using hinv⟩
  | cons o os ih =>
    intro reg seen k h hinv
    unfold firstEmpty at h
    split at h
    · cases h
    · next he =>
      obtain ⟨h1, h2⟩ := stdReg_spec hinv o
      obtain ⟨reg', h3, h4⟩ := ih (stdReg reg o).2 (seen ++ [o]) (k + 1) h h2
      refine ⟨reg', ?_, by simpa using h4⟩
      unfold getOperands
      simp only [he, Bool.false_eq_true, ↓reduceIte, h3, stdOps, h1]

theorem createOps_error (n : Nat) (name o : List Char) (os : List (List Char)) (reg : Registry) (j : Nat)
    (h : firstEmpty 1 (o :: os) = some j) : createOps n name o os reg = .error (.emptyOperand n name j) := by
  unfold firstEmpty at h
  unfold createOps
  split at h
  · next he => cases h; simp [he]
  · next he => simp only [he, Bool.false_eq_true, ↓reduceIte]; rw [getOperands_error n name os _ _ _ h]

theorem createOps_ok (n : Nat) (name o : List Char) (os : List (List Char)) (reg : Registry)
    (seen : List (List Char)) (h : firstEmpty 1 (o :: os) = none) (hinv : RegInv reg seen) :
    ∃ reg', createOps n name o os reg =
        .ok ({ srcs := sortedUniq (stdOps (seen ++ [o]) os), dst := firstSpelling seen o, name := name, line := n },
          reg') ∧ RegInv reg' (seen ++ o :: os) := by
  unfold firstEmpty at h
  split at h
  · cases h
  · next he =>
    obtain ⟨h1, h2⟩ := stdReg_spec hinv o
    obtain ⟨reg', h3, h4⟩ := getOperands_ok n name os (stdReg reg o).2 (seen ++ [o]) 2 h h2
    refine ⟨reg', ?_, by simpa using h4⟩
    unfold createOps
    simp only [he, Bool.false_eq_true, ↓reduceIte, h3, h1]

/-! ## 6. `sortedUniq` -/

theorem toNat_lt_iff (a b : Char) : a.toNat < b.toNat ↔ a < b := by
  rw [Char.lt_def, UInt32.lt_iff_toNat_lt]; rfl

/-- Python's `str` order as modelled is the core order of `List Char` -/
theorem strLt_iff (a b : List Char) : strLt a b = true ↔ a < b := by
  induction a generalizing b with
  | nil =>
    cases b with
    | nil => simp [strLt]
    | cons d b => simp [strLt]
  | cons c a ih =>
    cases b with
    | nil => simp [strLt]
    | cons d b =>
      simp only [strLt, Bool.or_eq_true, decide_eq_true_eq, Bool.and_eq_true, beq_iff_eq, ih,
        List.cons_lt_cons_iff, toNat_lt_iff]

theorem strLe_true_iff (a b : List Char) : strLe a b = true ↔ ¬ b < a := by
  simp [strLe, ← strLt_iff]

theorem lt_of_strLe_of_ne {a b : List Char} (h : strLe a b = true) (hne : a ≠ b) : a < b := by
  have h1 : a ≤ b := List.not_lt.1 ((strLe_true_iff a b).1 h)
  rcases List.le_iff_lt_or_eq.1 h1 with h | h
  · exact h
  · exact absurd h hne

theorem lt_of_strLe_false {a b : List Char} (h : strLe a b = false) : b < a := by
  have : ¬ (strLe a b = true) := by simp [h]
  rw [strLe_true_iff] at this
  exact Classical.not_not.1 this

theorem mem_insertBy {α : Type} (le : α → α → Bool) (x y : α) (l : List α) :
    y ∈ insertBy le x l ↔ y = x ∨ y ∈ l := by
  induction l with
  | nil => simp [insertBy]
  | cons z l ih =>
    unfold insertBy
    split
    · simp
    · simp only [List.mem_cons, ih]
      constructor
      · rintro (h | h | h)
        · exact .inr (.inl h)
        · exact .inl h
        · exact .inr (.inr h)
      · rintro (h | h | h)
        · exact .inr (.inl h)
        · exact .inl h
        · exact .inr (.inr h)

theorem mem_isort {α : Type} (le : α → α → Bool) (y : α) (l : List α) : y ∈ isort le l ↔ y ∈ l := by
  induction l with
  | nil => simp [isort]
  | cons x l ih => simp [isort, mem_insertBy, ih]

theorem mem_dedup {α : Type} [DecidableEq α] (y : α) (l : List α) : y ∈ dedup l ↔ y ∈ l := by
  induction l with
  | nil => simp [dedup]
  | cons x l ih =>
    simp only [dedup, List.mem_cons, List.mem_filter, ih, decide_eq_true_eq]
    by_cases e : y = x <;> simp [e]

theorem nodup_dedup {α : Type} [DecidableEq α] (l : List α) : (dedup l).Nodup := by
  induction l with
  | nil => simp [dedup]
  | cons x l ih =>
    simp only [dedup, List.nodup_cons, List.mem_filter, decide_eq_true_eq, ne_eq, not_true_eq_false, and_false,
      not_false_eq_true, true_and]
    exact ih.filter _

theorem pairwise_insertBy (x : List Char) (l : List (List Char)) (hx : x ∉ l) (hl : l.Pairwise (· < ·)) :
    (insertBy strLe x l).Pairwise (· < ·) := by
  induction l with
  | nil => simp [insertBy]
  | cons y l ih =>
    have hy := List.pairwise_cons.1 hl
    have hxy : x ≠ y := fun e => hx (by simp [e])
    have hxl : x ∉ l := fun e => hx (by simp [e])
    unfold insertBy
    cases hle : strLe x y with
    | true =>
      simp only [↓reduceIte]
      have h1 : x < y := lt_of_strLe_of_ne hle hxy
      refine List.pairwise_cons.2 ⟨fun z hz => ?_, hl⟩
      rcases List.mem_cons.1 hz with e | hz
      · rw [e]; exact h1
      · exact List.lt_trans h1 (hy.1 z hz)
    | false =>
      simp only [Bool.false_eq_true, ↓reduceIte]
      refine List.pairwise_cons.2 ⟨fun z hz => ?_, ih hxl hy.2⟩
      rcases (mem_insertBy _ _ _ _).1 hz with e | hz
      · rw [e]; exact lt_of_strLe_false hle
      · exact hy.1 z hz

theorem pairwise_isort (l : List (List Char)) (h : l.Nodup) : (isort strLe l).Pairwise (· < ·) := by
  induction l with
  | nil => simp [isort]
  | cons x l ih =>
    have := List.nodup_cons.1 h
    exact pairwise_insertBy x _ (fun e => this.1 ((mem_isort _ _ _).1 e)) (ih this.2)

theorem strictSorted_of_pairwise (l : List (List Char)) (h : l.Pairwise (· < ·)) : strictSorted l = true := by
  induction l with
  | nil => rfl
  | cons a l ih =>
    cases l with
    | nil => rfl
    | cons b r =>
      have := List.pairwise_cons.1 h
      simp only [strictSorted, Bool.and_eq_true, decide_eq_true_eq]
      exact ⟨this.1 b (by simp), ih this.2⟩

/-- `sortedUniq l` is strictly increasing … -/
theorem strictSorted_sortedUniq (l : List (List Char)) : strictSorted (sortedUniq l) = true :=
  strictSorted_of_pairwise _ (pairwise_isort _ (nodup_dedup l))

/-- … and has the members of `l` -/
theorem mem_sortedUniq (x : List Char) (l : List (List Char)) : x ∈ sortedUniq l ↔ x ∈ l := by
  unfold sortedUniq
  rw [mem_isort, mem_dedup]

/-! ## 7. the whole text: `readLines` on `renderProgram` against `expectedFrom` -/

/-- outcome of the parser vs. the meaning of the written list (the `match` of `C14_parse_render`) -/
def Agree (r : Except ParseError (List ProgInstr)) (e : Except ParseError (List Written)) : Prop :=
  match r, e with
  | .ok got, .ok want => Forall2 Matches want got
  | .error e, .error want => e = want
  | _, _ => False

theorem wsOK_iff {w : LineWs} : wsOK w = true ↔
    (∀ b ∈ w.blanks, Blank b) ∧ Blank w.pre ∧ Blank w.sep ∧ w.sep ≠ [] ∧ CommasOK w.commas ∧ Blank w.post := by
  simp only [wsOK, Bool.and_eq_true, List.all_eq_true, blankB_iff, Bool.not_eq_true', List.isEmpty_eq_false_iff,
    CommasOK, ne_eq]
  constructor
  · rintro ⟨⟨⟨⟨⟨h1, h2⟩, h3⟩, h4⟩, h5⟩, h6⟩; exact ⟨h1, h2, h3, h4, h5, h6⟩
  · rintro ⟨h1, h2, h3, h4, h5, h6⟩; exact ⟨⟨⟨⟨⟨h1, h2⟩, h3⟩, h4⟩, h5⟩, h6⟩

theorem wsOK_headD {ws : List LineWs} (h : ∀ w ∈ ws, wsOK w = true) : wsOK (ws.headD {}) = true := by
  cases ws with
  | nil => decide
  | cons w ws => exact h w (by simp)

theorem wsOK_tail {ws : List LineWs} (h : ∀ w ∈ ws, wsOK w = true) : ∀ w ∈ ws.tail, wsOK w = true := by
  cases ws with
  | nil => exact h
  | cons w ws => intro v hv; exact h v (List.mem_cons_of_mem _ hv)

theorem instrOK_iff {i : SrcInstr} : instrOK i = true ↔ (i.name ≠ [] ∧ NoWs i.name) ∧ ∀ x ∈ i.ops, Opnd x ∧ (x = [] ∨ tokOK x = true) := by
  simp only [instrOK, Bool.and_eq_true, nameOK_iff, List.all_eq_true, Bool.or_eq_true, List.isEmpty_iff]
  constructor
  · rintro ⟨h1, h2⟩
    refine ⟨h1, fun x hx => ⟨opnd_of_ok ?_, h2 x hx⟩⟩
    simpa using h2 x hx
  · rintro ⟨h1, h2⟩
    exact ⟨h1, fun x hx => (h2 x hx).2⟩

/-- one equation for both non-trivial clauses of `renderProgram` (missing choices = default) -/
theorem renderProgram_cons (i : SrcInstr) (is : List SrcInstr) (ws : List LineWs) (tail : List (List Char)) :
    renderProgram (i :: is) ws tail =
      (ws.headD {}).blanks ++ renderLine i (ws.headD {}) :: renderProgram is ws.tail tail := by
  cases ws with
  | nil => rfl
  | cons w ws => rfl

theorem readLines_blank_cons (reg : Registry) (n : Nat) {l : List Char} (ls : List (List Char)) (h : Blank l) :
    readLines reg n (l :: ls) = readLines reg (n + 1) ls := by
  simp [readLines, strip_blank h]

/-- blank lines are skipped but counted -/
theorem readLines_blanks (reg : Registry) (bl : List (List Char)) (rest : List (List Char)) :
    ∀ n, (∀ b ∈ bl, Blank b) → readLines reg n (bl ++ rest) = readLines reg (n + bl.length) rest := by
  induction bl with
  | nil => intro n _; rfl
  | cons b bl ih =>
    intro n h
    rw [List.cons_append, readLines_blank_cons reg n _ (h b (by simp)), ih (n + 1) (fun c hc => h c (by simp [hc])),
      List.length_cons]
    congr 1
    omega

theorem readLines_all_blank (reg : Registry) (n : Nat) (tail : List (List Char)) (h : ∀ b ∈ tail, Blank b) :
    readLines reg n tail = .ok [] := by
  have := readLines_blanks reg tail [] n h
  rw [List.append_nil] at this
  rw [this]; rfl

theorem expectedFrom_noOps (seen : List (List Char)) (n : Nat) (i : SrcInstr) (is : List SrcInstr)
    (ws : List LineWs) (h : i.ops = [] ∨ i.ops = [[]]) :
    expectedFrom seen n (i :: is) ws = .error (.noOperands (n + (ws.headD {}).blanks.length) i.name) := by
  unfold expectedFrom
  rcases h with h | h <;> rw [h]

theorem expectedFrom_ops (seen : List (List Char)) (n : Nat) (i : SrcInstr) (is : List SrcInstr)
    (ws : List LineWs) (o : List Char) (os : List (List Char)) (h : i.ops = o :: os) (hne : ¬ (o = [] ∧ os = [])) :
    expectedFrom seen n (i :: is) ws =
      match firstEmpty 1 (o :: os) with
      | some k => .error (.emptyOperand (n + (ws.headD {}).blanks.length) i.name k)
      | none =>
        match expectedFrom (seen ++ o :: os) (n + (ws.headD {}).blanks.length + 1) is ws.tail with
        | .error e => .error e
        | .ok rest =>
          .ok ({ name := i.name, dst := firstSpelling seen o, srcs := stdOps (seen ++ [o]) os,
                 line := n + (ws.headD {}).blanks.length } :: rest) := by
  rw [expectedFrom, h]
  cases o with
  | cons c o => rfl
  | nil =>
    cases os with
    | nil => exact absurd ⟨rfl, rfl⟩ hne
    | cons o' os => rfl

theorem matches_created (n : Nat) (name dst : List Char) (srcs : List (List Char)) :
    Matches { name := name, dst := dst, srcs := srcs, line := n }
      { srcs := sortedUniq srcs, dst := dst, name := name, line := n } :=
  ⟨rfl, rfl, rfl, strictSorted_sortedUniq srcs, fun x => mem_sortedUniq x srcs⟩

/-- **the round trip**, with the registry, the operands seen so far and the line counter generalised -/
theorem readLines_render (tail : List (List Char)) (htail : ∀ b ∈ tail, Blank b) (is : List SrcInstr) :
    ∀ (ws : List LineWs) (seen : List (List Char)) (reg : Registry) (n : Nat), RegInv reg seen →
      (∀ i ∈ is, instrOK i = true) → (∀ w ∈ ws, wsOK w = true) →
      Agree (readLines reg n (renderProgram is ws tail)) (expectedFrom seen n is ws) := by
  induction is with
  | nil =>
    intro ws seen reg n _ _ _
    have h1 : renderProgram [] ws tail = tail := by cases ws <;> rfl
    have h2 : expectedFrom seen n [] ws = .ok [] := by cases ws <;> rfl
    rw [h1, h2, readLines_all_blank reg n tail htail]
    exact True.intro
  | cons i is ih =>
    intro ws seen reg n hinv his hws
    obtain ⟨hname, hopnd⟩ := instrOK_iff.1 (his i (by simp))
    obtain ⟨hbl, hpre, hsep, hsne, hcs, hpost⟩ := wsOK_iff.1 (wsOK_headD hws)
    have his' : ∀ j ∈ is, instrOK j = true := fun j hj => his j (List.mem_cons_of_mem _ hj)
    rw [renderProgram_cons, readLines_blanks reg _ _ n hbl]
    generalize hln : n + (ws.headD {}).blanks.length = ln
    have hstep : ∀ rest, readLines reg ln (renderLine i (ws.headD {}) :: rest) =
        match createInstr ln (strip (renderLine i (ws.headD {}))) reg with
        | .error e => .error e
        | .ok (ins, reg') =>
          match readLines reg' (ln + 1) rest with
          | .error e => .error e
          | .ok r => .ok (ins :: r) := by
      intro rest
      rw [readLines]
      simp only [strip_renderLine_ne_nil i _ hname hpre hpost, Bool.false_eq_true, ↓reduceIte]
      rfl
    rw [hstep]
    by_cases hno : i.ops = [] ∨ i.ops = [[]]
    · rw [createInstr_render_noOps i _ ln reg hname hpre hsep hpost hno, expectedFrom_noOps seen n i is ws hno, hln]
      exact rfl
    · obtain ⟨o, os, hops, hne⟩ : ∃ o os, i.ops = o :: os ∧ ¬ (o = [] ∧ os = []) := by
        cases h : i.ops with
        | nil => exact absurd (.inl h) hno
        | cons o os => exact ⟨o, os, rfl, fun e => hno (.inr (by rw [h, e.1, e.2]))⟩
      have hop : ∀ x ∈ o :: os, Opnd x := fun x hx => (hopnd x (hops ▸ hx)).1
      rw [createInstr_render_ops i _ ln reg o os hname hpre hsep hsne hcs hpost hops hop hne,
        expectedFrom_ops seen n i is ws o os hops hne, hln]
      cases hfe : firstEmpty 1 (o :: os) with
      | some k =>
        rw [createOps_error ln i.name o os reg k hfe]
        exact rfl
      | none =>
        obtain ⟨reg', hc, hinv'⟩ := createOps_ok ln i.name o os reg seen hfe hinv
        rw [hc]
        have := ih ws.tail (seen ++ o :: os) reg' (ln + 1) hinv' his' (wsOK_tail hws)
        revert this
        dsimp only
        cases readLines reg' (ln + 1) (renderProgram is ws.tail tail) with
        | error e =>
          cases expectedFrom (seen ++ o :: os) (ln + 1) is ws.tail with
          | error e' => exact id
          | ok want => exact id
        | ok got =>
          cases expectedFrom (seen ++ o :: os) (ln + 1) is ws.tail with
          | error e' => exact id
          | ok want => exact fun h => And.intro (matches_created ln i.name _ _) h

/-! ## 8. single-fault corruptions -/

/-- the error (if any) that a written line raises by itself when it is reached at physical line `ln` -/
def lineErr (ln : Nat) (i : SrcInstr) : Option ParseError :=
  match i.ops with
  | [] => some (.noOperands ln i.name)
  | [[]] => some (.noOperands ln i.name)
  | o :: os => (firstEmpty 1 (o :: os)).map (.emptyOperand ln i.name)

theorem lineErr_noOps (ln : Nat) (i : SrcInstr) (h : i.ops = [] ∨ i.ops = [[]]) :
    lineErr ln i = some (.noOperands ln i.name) := by
  unfold lineErr
  rcases h with h | h <;> rw [h]

theorem lineErr_ops (ln : Nat) (i : SrcInstr) (o : List Char) (os : List (List Char)) (h : i.ops = o :: os)
    (hne : ¬ (o = [] ∧ os = [])) : lineErr ln i = (firstEmpty 1 (o :: os)).map (.emptyOperand ln i.name) := by
  rw [lineErr, h]
  cases o with
  | cons c o => rfl
  | nil =>
    cases os with
    | nil => exact absurd ⟨rfl, rfl⟩ hne
    | cons o' os => rfl

theorem ops_cases (i : SrcInstr) :
    (i.ops = [] ∨ i.ops = [[]]) ∨ ∃ o os, i.ops = o :: os ∧ ¬ (o = [] ∧ os = []) := by
  by_cases hno : i.ops = [] ∨ i.ops = [[]]
  · exact .inl hno
  · refine .inr ?_
    cases h : i.ops with
    | nil => exact absurd (.inl h) hno
    | cons o os => exact ⟨o, os, rfl, fun e => hno (.inr (by rw [h, e.1, e.2]))⟩

/-- a line that is faulty by itself decides the meaning of the text from it on -/
theorem expectedFrom_of_lineErr (seen : List (List Char)) (n : Nat) (i : SrcInstr) (is : List SrcInstr)
    (ws : List LineWs) (e : ParseError) (h : lineErr (n + (ws.headD {}).blanks.length) i = some e) :
    expectedFrom seen n (i :: is) ws = .error e := by
  rcases ops_cases i with hno | ⟨o, os, hops, hne⟩
  · rw [lineErr_noOps _ i hno] at h
    rw [expectedFrom_noOps seen n i is ws hno]
    cases h; rfl
  · rw [lineErr_ops _ i o os hops hne] at h
    rw [expectedFrom_ops seen n i is ws o os hops hne]
    cases hfe : firstEmpty 1 (o :: os) with
    | none => rw [hfe] at h; cases h
    | some k => rw [hfe] at h; cases h; rfl

theorem firstEmpty_none (ops : List (List Char)) : ∀ k, (∀ o ∈ ops, o ≠ []) → firstEmpty k ops = none := by
  induction ops with
  | nil => intro k _; rfl
  | cons o os ih =>
    intro k h
    have : o.isEmpty = false := by simpa using h o (by simp)
    simp only [firstEmpty, this, Bool.false_eq_true, ↓reduceIte]
    exact ih _ (fun x hx => h x (by simp [hx]))

theorem faultFree_iff {i : SrcInstr} :
    faultFree i = true ↔ (i.name ≠ [] ∧ NoWs i.name) ∧ i.ops ≠ [] ∧ ∀ o ∈ i.ops, tokOK o = true := by
  simp only [faultFree, Bool.and_eq_true, nameOK_iff, Bool.not_eq_true', List.isEmpty_eq_false_iff,
    List.all_eq_true, and_assoc]

theorem tokOK_ne_nil {o : List Char} (h : tokOK o = true) : o ≠ [] := (tokOK_iff.1 h).1

theorem instrOK_of_faultFree {i : SrcInstr} (h : faultFree i = true) : instrOK i = true := by
  obtain ⟨h1, _, h3⟩ := faultFree_iff.1 h
  simp only [instrOK, Bool.and_eq_true, nameOK_iff, List.all_eq_true, Bool.or_eq_true]
  exact ⟨h1, fun o ho => .inr (h3 o ho)⟩

/-- a fault-free line passes the decision on to the following lines -/
theorem expectedFrom_faultFree_error (seen : List (List Char)) (n : Nat) (i : SrcInstr) (is : List SrcInstr)
    (ws : List LineWs) (e : ParseError) (hi : faultFree i = true)
    (h : ∀ seen', expectedFrom seen' (n + (ws.headD {}).blanks.length + 1) is ws.tail = .error e) :
    expectedFrom seen n (i :: is) ws = .error e := by
  obtain ⟨_, h2, h3⟩ := faultFree_iff.1 hi
  cases hops : i.ops with
  | nil => exact absurd hops h2
  | cons o os =>
    have hne : ¬ (o = [] ∧ os = []) := fun e => tokOK_ne_nil (h3 o (by simp [hops])) e.1
    have hfe : firstEmpty 1 (o :: os) = none :=
      firstEmpty_none _ 1 (fun x hx => tokOK_ne_nil (h3 x (by rw [hops]; exact hx)))
    rw [expectedFrom_ops seen n i is ws o os hops hne, hfe]
    simp only [h]

theorem expectedFrom_mapNth (g : SrcInstr → SrcInstr) (i : SrcInstr) (e : ParseError) (is : List SrcInstr) :
    ∀ (j : Nat) (seen : List (List Char)) (n : Nat) (ws : List LineWs), (∀ x ∈ is, faultFree x = true) →
      is[j]? = some i → lineErr (lineFrom n ws j) (g i) = some e →
      expectedFrom seen n (mapNth g j is) ws = .error e := by
  induction is with
  | nil => intro j seen n ws _ hj; simp at hj
  | cons x is ih =>
    intro j seen n ws hff hj he
    cases j with
    | zero =>
      simp only [List.getElem?_cons_zero, Option.some.injEq] at hj
      subst hj
      exact expectedFrom_of_lineErr seen n (g x) is ws e he
    | succ j =>
      simp only [List.getElem?_cons_succ] at hj
      exact expectedFrom_faultFree_error seen n x _ ws e (hff x (by simp))
        (fun seen' => ih j seen' _ ws.tail (fun y hy => hff y (by simp [hy])) hj he)

theorem mem_mapNth {α : Type} (g : α → α) (y : α) (l : List α) : ∀ j, y ∈ mapNth g j l → y ∈ l ∨ ∃ x ∈ l, y = g x := by
  induction l with
  | nil => intro j h; simp [mapNth] at h
  | cons a l ih =>
    intro j h
    cases j with
    | zero =>
      simp only [mapNth, List.mem_cons] at h
      rcases h with h | h
      · exact .inr ⟨a, by simp, h⟩
      · exact .inl (by simp [h])
    | succ j =>
      simp only [mapNth, List.mem_cons] at h
      rcases h with h | h
      · exact .inl (by simp [h])
      · rcases ih j h with h | ⟨x, hx, h⟩
        · exact .inl (by simp [h])
        · exact .inr ⟨x, by simp [hx], h⟩

theorem mem_setNth {α : Type} (x y : α) (l : List α) : ∀ m, y ∈ setNth x m l → y = x ∨ y ∈ l := by
  induction l with
  | nil => intro m h; simp [setNth] at h
  | cons a l ih =>
    intro m h
    cases m with
    | zero =>
      simp only [setNth, List.mem_cons] at h
      rcases h with h | h
      · exact .inl h
      · exact .inr (by simp [h])
    | succ m =>
      simp only [setNth, List.mem_cons] at h
      rcases h with h | h
      · exact .inr (by simp [h])
      · rcases ih m h with h | h
        · exact .inl h
        · exact .inr (by simp [h])

theorem mem_insertNth {α : Type} (x y : α) (l : List α) : ∀ m, y ∈ insertNth x m l → y = x ∨ y ∈ l := by
  induction l with
  | nil =>
    intro m h
    cases m <;> simp [insertNth] at h <;> exact .inl h
  | cons a l ih =>
    intro m h
    cases m with
    | zero =>
      simp only [insertNth, List.mem_cons] at h
      rcases h with h | h | h
      · exact .inl h
      · exact .inr (by simp [h])
      · exact .inr (by simp [h])
    | succ m =>
      simp only [insertNth, List.mem_cons] at h
      rcases h with h | h
      · exact .inr (by simp [h])
      · rcases ih m h with h | h
        · exact .inl h
        · exact .inr (by simp [h])

theorem length_setNth {α : Type} (x : α) (l : List α) : ∀ m, (setNth x m l).length = l.length := by
  induction l with
  | nil => intro m; cases m <;> rfl
  | cons a l ih => intro m; cases m <;> simp [setNth, ih]

theorem length_insertNth {α : Type} (x : α) (l : List α) : ∀ m, (insertNth x m l).length = l.length + 1 := by
  induction l with
  | nil => intro m; cases m <;> rfl
  | cons a l ih => intro m; cases m <;> simp [insertNth, ih]

theorem firstEmpty_setNth (ops : List (List Char)) :
    ∀ m k0, (∀ o ∈ ops, o ≠ []) → m < ops.length → firstEmpty k0 (setNth [] m ops) = some (k0 + m) := by
  induction ops with
  | nil => intro m k0 _ hm; simp at hm
  | cons o os ih =>
    intro m k0 h hm
    cases m with
    | zero => simp [setNth, firstEmpty]
    | succ m =>
      have : o.isEmpty = false := by simpa using h o (by simp)
      simp only [setNth, firstEmpty, this, Bool.false_eq_true, ↓reduceIte]
      rw [ih m (k0 + 1) (fun x hx => h x (by simp [hx])) (by simpa using hm)]
      congr 1; omega

theorem firstEmpty_insertNth (ops : List (List Char)) :
    ∀ m k0, (∀ o ∈ ops, o ≠ []) → firstEmpty k0 (insertNth [] m ops) = some (k0 + min m ops.length) := by
  induction ops with
  | nil => intro m k0 _; cases m <;> simp [insertNth, firstEmpty]
  | cons o os ih =>
    intro m k0 h
    cases m with
    | zero => simp [insertNth, firstEmpty]
    | succ m =>
      have : o.isEmpty = false := by simpa using h o (by simp)
      simp only [insertNth, firstEmpty, this, Bool.false_eq_true, ↓reduceIte]
      rw [ih m (k0 + 1) (fun x hx => h x (by simp [hx]))]
      congr 1; simp only [List.length_cons]; omega

/-- a list of length ≥ 2 is `o :: os` and not `[[]]` -/
theorem exists_cons_of_two_le {l : List (List Char)} (h : 2 ≤ l.length) :
    ∃ o os, l = o :: os ∧ ¬ (o = [] ∧ os = []) := by
  cases l with
  | nil => simp at h
  | cons o os =>
    refine ⟨o, os, rfl, fun e => ?_⟩
    rw [e.2] at h; simp at h

theorem instrOK_withOps {i : SrcInstr} (ops : List (List Char)) (hi : faultFree i = true)
    (h : ∀ o ∈ ops, o = [] ∨ o ∈ i.ops) : instrOK { i with ops := ops } = true := by
  obtain ⟨h1, _, h3⟩ := faultFree_iff.1 hi
  simp only [instrOK, Bool.and_eq_true, nameOK_iff, List.all_eq_true, Bool.or_eq_true, List.isEmpty_iff]
  exact ⟨h1, fun o ho => (h o ho).imp id (h3 o)⟩

/-- the corrupted list is still a written instruction list in the sense of `instrOK` -/
theorem instrOK_applyFault (f : Fault) (is : List SrcInstr) (his : ∀ i ∈ is, faultFree i = true) :
    ∀ i ∈ applyFault f is, instrOK i = true := by
  intro y hy
  cases f with
  | noOps j =>
    rcases mem_mapNth _ y is j hy with h | ⟨x, hx, rfl⟩
    · exact instrOK_of_faultFree (his y h)
    · exact instrOK_withOps [] (his x hx) (fun o ho => by simp at ho)
  | emptyOp j k =>
    rcases mem_mapNth _ y is j hy with h | ⟨x, hx, rfl⟩
    · exact instrOK_of_faultFree (his y h)
    · exact instrOK_withOps _ (his x hx) (fun o ho => mem_setNth _ _ _ _ ho)
  | extraEmpty j k =>
    rcases mem_mapNth _ y is j hy with h | ⟨x, hx, rfl⟩
    · exact instrOK_of_faultFree (his y h)
    · exact instrOK_withOps _ (his x hx) (fun o ho => mem_insertNth _ _ _ _ ho)

/-- the meaning of a corrupted fault-free list is the error of the corrupted instruction -/
theorem expected_applyFault (f : Fault) (is : List SrcInstr) (ws : List LineWs) (want : ParseError)
    (his : ∀ i ∈ is, faultFree i = true) (hf : faultError f is ws = some want) :
    expected (applyFault f is) ws = .error want := by
  unfold expected
  cases f with
  | noOps j =>
    simp only [faultError, Option.map_eq_some_iff] at hf
    obtain ⟨i, hj, rfl⟩ := hf
    exact expectedFrom_mapNth _ i _ is j [] 1 ws his hj (lineErr_noOps _ _ (.inl rfl))
  | emptyOp j k =>
    simp only [faultError, Option.bind_eq_some_iff] at hf
    obtain ⟨i, hj, hf⟩ := hf
    split at hf
    · next hk =>
      cases hf
      refine expectedFrom_mapNth _ i _ is j [] 1 ws his hj ?_
      have hi := his i (List.mem_of_getElem? hj)
      obtain ⟨_, _, h3⟩ := faultFree_iff.1 hi
      have hne : ∀ o ∈ i.ops, o ≠ [] := fun o ho => tokOK_ne_nil (h3 o ho)
      split
      · next h1 =>
        refine lineErr_noOps _ _ (.inr ?_)
        show setNth [] (k - 1) i.ops = [[]]
        have hk1 : k - 1 = 0 := by omega
        rw [hk1]
        cases hops : i.ops with
        | nil => rw [hops] at h1; simp at h1
        | cons o os =>
          cases os with
          | nil => rfl
          | cons o' os => rw [hops] at h1; simp at h1
      · next h1 =>
        have hlen : 2 ≤ (setNth [] (k - 1) i.ops).length := by rw [length_setNth]; omega
        obtain ⟨o, os, hops, hne'⟩ := exists_cons_of_two_le hlen
        rw [lineErr_ops _ _ o os hops hne', ← hops, firstEmpty_setNth i.ops (k - 1) 1 hne (by omega)]
        show some (ParseError.emptyOperand _ _ (1 + (k - 1))) = _
        have : 1 + (k - 1) = k := by omega
        rw [this]; rfl
    · cases hf
  | extraEmpty j k =>
    simp only [faultError, Option.map_eq_some_iff] at hf
    obtain ⟨i, hj, rfl⟩ := hf
    refine expectedFrom_mapNth _ i _ is j [] 1 ws his hj ?_
    have hi := his i (List.mem_of_getElem? hj)
    obtain ⟨_, h2, h3⟩ := faultFree_iff.1 hi
    have hne : ∀ o ∈ i.ops, o ≠ [] := fun o ho => tokOK_ne_nil (h3 o ho)
    have hpos : 1 ≤ i.ops.length := by
      cases h : i.ops with
      | nil => exact absurd h h2
      | cons o os => simp
    have hlen : 2 ≤ (insertNth [] (k - 1) i.ops).length := by rw [length_insertNth]; omega
    obtain ⟨o, os, hops, hne'⟩ := exists_cons_of_two_le hlen
    rw [lineErr_ops _ _ o os hops hne', ← hops, firstEmpty_insertNth i.ops (k - 1) 1 hne]
    show some (ParseError.emptyOperand _ _ (1 + min (k - 1) i.ops.length)) = _
    have : 1 + min (k - 1) i.ops.length = min (max k 1) (i.ops.length + 1) := by omega
    rw [this]; rfl

theorem eq_error_of_agree {r : Except ParseError (List ProgInstr)} {want : ParseError}
    (h : Agree r (.error want)) : r = .error want := by
  cases r with
  | error e => exact congrArg _ h
  | ok got => exact h.elim

/-! ## 9. the checker -/

theorem sameMembers_iff (x y : List (List Char)) : sameMembers x y = true ↔ ∀ a, a ∈ x ↔ a ∈ y := by
  simp only [sameMembers, Bool.and_eq_true, List.all_eq_true, List.contains_iff_mem]
  constructor
  · rintro ⟨h1, h2⟩ a; exact ⟨h1 a, h2 a⟩
  · intro h; exact ⟨fun a => (h a).1, fun a => (h a).2⟩

theorem checkInstrs_iff (want : List Written) :
    ∀ (j : Nat) (got : List ProgInstr), checkInstrs j want got = none ↔ Forall2 Matches want got := by
  induction want with
  | nil =>
    intro j got
    cases got with
    | nil => simp [checkInstrs, Forall2]
    | cons p ps => simp [checkInstrs, Forall2]
  | cons w ws ih =>
    intro j got
    cases got with
    | nil => simp [checkInstrs, Forall2]
    | cons p ps =>
      simp only [checkInstrs, Forall2, Matches]
      by_cases h1 : p.name = w.name
      · by_cases h2 : p.dst = w.dst
        · by_cases h3 : p.line = w.line
          · by_cases h4 : strictSorted p.srcs = true
            · by_cases h5 : sameMembers p.srcs w.srcs = true
              · have h5' := (sameMembers_iff _ _).1 h5
                simp [h1, h2, h3, h4, h5, h5', ih]
              · have h5' : ¬ ∀ a, a ∈ p.srcs ↔ a ∈ w.srcs := fun h => h5 ((sameMembers_iff _ _).2 h)
                simp [h1, h2, h3, h4, h5, h5']
            · simp [h1, h2, h3, h4]
          · simp [h1, h2, h3]
        · simp [h1, h2]
      · simp [h1]

end ProgramLemmas
end ProcSim
