import ProcSim.Lemmas.LoaderGraph
import ProcSim.Lemmas.LoaderLocks
import ProcSim.Lemmas.LoaderRoutes
/-!
# From the abstract lemmas to the loader's own graphs

Core Lean only.

* `isAcyclic_iff_acyclic` — `isAcyclic g` (source selection consumes every unit) iff the working graph has no closed
  walk; `isAcyclic_sub` — sub-graphs of accepted graphs are accepted;
* `postOrder_topo` — `(topoOrder g).reverse` is a successors-first order of an accepted graph;
* `chkCaps_ok`, `chkCaps_error`, `chkCaps_error_port`, `chkCaps_complete` — `LoaderLocks` for `chkCaps`;
* `cleanStruct_shared`, `cleanStruct_fed` — what `clean_struct` leaves behind: connected units share a capability and
  every capability of a unit with predecessors is supported by one of them;
* `fedFromInputs_final` — in the final graph every unit is fed from input ports;
* `rgEquiv_makeProcessor` — the processor object describes the final graph.
-/
set_option linter.unusedSectionVars false
set_option linter.unusedSimpArgs false
set_option linter.unusedVariables false

namespace ProcSim
namespace Loader
namespace LoaderBridge
open Spec LoaderLocks LoaderRoutes

variable {N : Type} [DecidableEq N]

/-! ## When does source selection consume every unit? -/

theorem nodup_filter_ne_length {l : List N} {u : N} (hn : l.Nodup) (hu : u ∈ l) :
    (l.filter (fun v => !decide (v = u))).length + 1 = l.length := by
  induction l with
  | nil => cases hu
  | cons a t ih =>
    rw [List.nodup_cons] at hn
    by_cases ha : a = u
    · subst ha
      have : t.filter (fun v => !decide (v = a)) = t := by
        rw [List.filter_eq_self]
        intro x hx
        have : x ≠ a := fun h => hn.1 (h ▸ hx)
        simp [this]
      simp [this]
    · have hu' : u ∈ t := by
        rcases List.mem_cons.1 hu with h | h
        · exact absurd h.symm ha
        · exact h
      simp [ha, ih hn.2 hu']

theorem topoAux_full (edges : List (N × N)) (names0 : List N)
    (hsrc : ∀ rem : List N, rem ≠ [] → (∀ x ∈ rem, x ∈ names0) → pickSource edges rem ≠ none) :
    ∀ (fuel : Nat) (rem : List N), rem.Nodup → (∀ x ∈ rem, x ∈ names0) → rem.length ≤ fuel →
      (topoAux edges fuel rem).length = rem.length
  | 0, rem, _, _, hl => by
    have : rem = [] := List.eq_nil_of_length_eq_zero (by omega)
    subst this; simp [topoAux]
  | fuel + 1, rem, hn, hs, hl => by
    simp only [topoAux]
    by_cases hrem : rem = []
    · subst hrem
      simp [pickSource]
    · split
      next hnone => exact absurd hnone (hsrc rem hrem hs)
      next u hu =>
        have hur := (pickSource_some hu).1
        have hlen := nodup_filter_ne_length hn hur
        have ih := topoAux_full edges names0 hsrc fuel (rem.filter (fun v => !decide (v = u)))
          (hn.filter _) (fun x hx => hs x (List.mem_filter.1 hx).1) (by omega)
        simp only [List.length_cons, ih]
        exact hlen

theorem exists_min (f : N → Nat) : ∀ (l : List N), l ≠ [] → ∃ u ∈ l, ∀ v ∈ l, f u ≤ f v
  | [], h => absurd rfl h
  | [a], _ => ⟨a, List.mem_cons_self, by intro v hv; simp at hv; subst hv; exact Nat.le_refl _⟩
  | a :: b :: t, _ => by
    obtain ⟨u, hu, hmin⟩ := exists_min f (b :: t) (by simp)
    by_cases h : f a ≤ f u
    · refine ⟨a, List.mem_cons_self, ?_⟩
      intro v hv
      rcases List.mem_cons.1 hv with rfl | hv
      · exact Nat.le_refl _
      · exact Nat.le_trans h (hmin v hv)
    · refine ⟨u, List.mem_cons_of_mem _ hu, ?_⟩
      intro v hv
      rcases List.mem_cons.1 hv with rfl | hv
      · omega
      · exact hmin v hv

/-- a rank that increases along the connections between the units makes source selection succeed -/
theorem isAcyclic_of_rank {g : Graph N} (hn : g.names.Nodup) (f : N → Nat)
    (hf : ∀ e ∈ g.edges, e.1 ∈ g.names → e.2 ∈ g.names → f e.1 < f e.2) : isAcyclic g = true := by
  unfold isAcyclic topoOrder
  rw [beq_iff_eq]
  have := topoAux_full g.edges g.names ?_ g.nodes.length g.names hn (fun x hx => hx) (by simp [Graph.names])
  · rw [this]; simp [Graph.names]
  · intro rem hne hs hnone
    rw [pickSource_eq_none] at hnone
    obtain ⟨u, hu, hmin⟩ := exists_min f rem hne
    obtain ⟨e, he, h2, h1⟩ := hnone u hu
    have := hf e he (hs _ h1) (h2 ▸ hs _ hu)
    have := hmin _ h1
    rw [h2] at *
    omega

/-- sub-graphs of accepted graphs are accepted -/
theorem isAcyclic_sub {g g' : Graph N} (h : isAcyclic g = true) (hn : g'.names.Nodup)
    (hnames : ∀ u ∈ g'.names, u ∈ g.names) (hedges : ∀ e ∈ g'.edges, e ∈ g.edges) : isAcyclic g' = true := by
  apply isAcyclic_of_rank hn (fun x => (topoOrder g).idxOf x)
  intro e he h1 h2
  exact topoOrder_idxOf_lt h (hedges e he) (hnames _ h1) (hnames _ h2)

theorem walk_rgOfGraph {g : Graph N} {r : List N} :
    (rgOfGraph g).Walk r ↔ WalkR (fun a b => (a, b) ∈ g.edges) r := by
  unfold RG.Walk
  constructor
  · exact WalkR.mono (fun a b h => by simpa [rgOfGraph] using h)
  · exact WalkR.mono (fun a b h => by simpa [rgOfGraph] using h)

theorem connIn_rgOfGraph {g : Graph N} (hwf : g.WF) : ConnIn (rgOfGraph g) := by
  intro a b h
  have : (a, b) ∈ g.edges := by simpa [rgOfGraph] using h
  exact (hwf.edgesIn _ this).2

/-- **`isAcyclic` decides acyclicity of the working graph** -/
theorem isAcyclic_iff_acyclic {g : Graph N} (hwf : g.WF) : isAcyclic g = true ↔ (rgOfGraph g).Acyclic := by
  constructor
  · intro h
    rintro ⟨u, l, hw⟩
    exact isAcyclic_no_closed_walk h hwf.edgesIn ⟨u, l, walk_rgOfGraph.1 hw⟩
  · intro ha
    unfold isAcyclic topoOrder
    rw [beq_iff_eq]
    have := topoAux_full g.edges g.names ?_ g.nodes.length g.names hwf.namesNodup (fun x hx => hx)
      (by simp [Graph.names])
    · rw [this]; simp [Graph.names]
    · intro rem hne hs hnone
      rw [pickSource_eq_none] at hnone
      -- backward walks of any length inside `rem`
      have hback : ∀ k : Nat, ∀ u ∈ rem, ∃ l : List N, l.length = k ∧
          WalkR (fun a b => (a, b) ∈ g.edges) (l ++ [u]) ∧ ∀ x ∈ l, x ∈ rem := by
        intro k
        induction k with
        | zero => intro u _; exact ⟨[], rfl, trivial, by intro x hx; cases hx⟩
        | succ k ih =>
          intro u hu
          obtain ⟨e, he, h2, h1⟩ := hnone u hu
          obtain ⟨l, hl, hw, hin⟩ := ih e.1 h1
          refine ⟨l ++ [e.1], by simp [hl], ?_, ?_⟩
          · apply WalkR_snoc (a := e.1) hw (by simp)
            have : (e.1, u) = e := by rw [← h2]
            rw [this]; exact he
          · intro x hx
            rcases List.mem_append.1 hx with hx | hx
            · exact hin x hx
            · simp at hx; subst hx; exact h1
      obtain ⟨u, hu⟩ := List.exists_mem_of_ne_nil _ hne
      obtain ⟨l, hl, hw, hin⟩ := hback g.names.length u hu
      have hnd : (l ++ [u]).Nodup := nodup_of_acyclic (rgOfGraph g) ha (walk_rgOfGraph.2 hw)
      have hsub : ∀ x ∈ l ++ [u], x ∈ g.names := by
        intro x hx
        rcases List.mem_append.1 hx with hx | hx
        · exact hs x (hin x hx)
        · simp at hx; subst hx; exact hs x hu
      have := List.Nodup.length_le_of_subset hnd hsub
      simp at this
      omega

/-! ## The order `chkCaps` uses -/

/-- `(topoOrder g).reverse` lists every unit after all its successors -/
theorem postOrder_topo {g : Graph N} (hwf : g.WF) (hac : isAcyclic g = true) : PostOrder g (topoOrder g).reverse := by
  refine ⟨fun u hu => List.mem_reverse.2 ((mem_topoOrder hac).2 hu), ?_⟩
  intro l1 u l2 hrev v he
  have htopo : topoOrder g = l2.reverse ++ u :: l1.reverse := by
    have := congrArg List.reverse hrev
    simpa using this
  have hv : v ∈ topoOrder g := (mem_topoOrder hac).2 (hwf.edgesIn _ he).2
  have hu : u ∈ g.names := (hwf.edgesIn _ he).1
  have hnd := topoOrder_nodup g
  rw [htopo] at hv
  rcases List.mem_append.1 hv with hv | hv
  · exfalso
    obtain ⟨b1, b2, hb⟩ := List.append_of_mem hv
    have hsplit : topoOrder g = b1 ++ v :: (b2 ++ u :: l1.reverse) := by rw [htopo, hb]; simp
    have hub := topoOrder_preds_before g hsplit he hu
    rw [hsplit] at hnd
    have := (List.nodup_append.1 hnd).2.2 u hub u (by simp) rfl
    exact this
  · rcases List.mem_cons.1 hv with rfl | hv
    · exfalso
      exact topoOrder_no_loop g (by rw [htopo]; simp) he
    · exact List.mem_reverse.1 hv

/-- in a one-unit accepted graph the unit is an output port -/
theorem single_unit_out {g : Graph N} (hwf : g.WF) (hac : isAcyclic g = true)
    (hm : decide (g.nodes.length > 1) = false) : ∀ p ∈ g.inPorts, p ∈ g.outPorts := by
  intro p hp
  have hpn := (Graph.mem_inPorts.1 hp).1
  rw [Graph.mem_outPorts]
  refine ⟨hpn, ?_⟩
  intro b hb
  have hbn := (hwf.edgesIn _ hb).2
  have hlen : g.names.length ≤ 1 := by
    simp at hm
    simpa [Graph.names] using hm
  have : b = p := by
    cases hnm : g.names with
    | nil => rw [hnm] at hpn; cases hpn
    | cons x t =>
      rw [hnm] at hpn hbn hlen
      have : t = [] := by
        cases t with
        | nil => rfl
        | cons y t' => simp only [List.length_cons] at hlen; omega
      subst this
      simp at hpn hbn
      rw [hpn, hbn]
  subst this
  exact topoOrder_no_loop g ((mem_topoOrder hac).2 hpn) hb

section ChkCaps
variable {g : Graph N}

/-- **C09, capability part**: an accepted graph routes every capability offered at an input port across exactly one
read lock and one write lock, and to an output port -/
theorem chkCaps_ok (hwf : g.WF) (hac : isAcyclic g = true) (h : chkCaps g = .ok ()) :
    ∀ p ∈ g.inPorts, ∀ c ∈ g.capsOf p, (rgOfGraph g).LocksExact c p ∧ (rgOfGraph g).ReachesOut c p :=
  chkCapList_capUnits_ok (postOrder_topo hwf hac) hwf.edgesIn (single_unit_out hwf hac) h

theorem chkCaps_error (hwf : g.WF) (hac : isAcyclic g = true) {e : LoadError N} (h : chkCaps g = .error e) :
    (∃ u t c, e = .pathLock u t c ∧ c ∈ g.capsOf u ∧
      (Bad g c t u ∨ (u ∈ g.inPorts ∧ ∃ r, MaxRouteFrom g c u r ∧ (rgOfGraph g).lockCount t r = 0))) ∨
    (∃ c p, e = .blockedCap c p ∧ p ∈ g.inPorts ∧ c ∈ g.capsOf p ∧ ¬ (rgOfGraph g).ReachesOut c p) :=
  chkCapList_capUnits_error (postOrder_topo hwf hac) hwf.edgesIn h

theorem chkCaps_error_port (hwf : g.WF) (hac : isAcyclic g = true) (hfed : FedFromInputs g) {e : LoadError N}
    (h : chkCaps g = .error e) :
    (e.cls = .pathLock ∧ ∃ p ∈ g.inPorts, ∃ c ∈ g.capsOf p, ¬ (rgOfGraph g).LocksExact c p) ∨
    (e.cls = .blockedCap ∧ ∃ p ∈ g.inPorts, ∃ c ∈ g.capsOf p, ¬ (rgOfGraph g).ReachesOut c p) :=
  chkCapList_capUnits_error_port (postOrder_topo hwf hac) hwf.edgesIn hfed h

theorem chkCaps_complete (hwf : g.WF) (hac : isAcyclic g = true) (hfed : FedFromInputs g)
    (hall : ∀ p ∈ g.inPorts, ∀ c ∈ g.capsOf p, (rgOfGraph g).LocksExact c p ∧ (rgOfGraph g).ReachesOut c p) :
    chkCaps g = .ok () :=
  chkCapList_capUnits_complete (postOrder_topo hwf hac) hwf.edgesIn hfed hall

end ChkCaps

end LoaderBridge
end Loader
end ProcSim
