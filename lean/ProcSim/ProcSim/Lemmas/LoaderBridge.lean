import ProcSim.Lemmas.LoaderGraph
import ProcSim.Lemmas.LoaderLocks
import ProcSim.Lemmas.LoaderRoutes
/-!
# From the abstract lemmas to the loader's own graphs

Core Lean only.

* `isAcyclic_iff_acyclic` — `isAcyclic g` (source selection consumes every unit) iff the working graph has no closed
  walk; `isAcyclic_sub` — sub-graphs of accepted graphs are accepted;
* `postOrder_topo` — `(topoOrder g).reverse` is a successors-first order of an accepted graph;
* `chkCaps_ok`, `chkCaps_error`, `chkCaps_error_port`, `chkCaps_complete` — `LoaderLocks` for `chkCaps`;
* `cleanStruct_shared`, `cleanStruct_fed` — what `clean_struct` leaves behind: connected units share a capability and
  every capability of a unit with predecessors is supported by one of them;
* `fedFromInputs_final` — in the final graph every unit is fed from input ports;
* `rgEquiv_makeProcessor` — the processor object describes the final graph.
-/
set_option linter.unusedSectionVars false
set_option linter.unusedSimpArgs false
set_option linter.unusedVariables false

namespace ProcSim
namespace Loader
namespace LoaderBridge
open Spec LoaderLocks LoaderRoutes

variable {N : Type} [DecidableEq N]

/-! ## When does source selection consume every unit? -/

theorem nodup_filter_ne_length {l : List N} {u : N} (hn : l.Nodup) (hu : u ∈ l) :
    (l.filter (fun v => !decide (v = u))).length + 1 = l.length := by
  induction l with
  | nil => cases hu
  | cons a t ih =>
    rw [List.nodup_cons] at hn
    by_cases ha : a = u
    · subst ha
      have : t.filter (fun v => !decide (v = a)) = t := by
        rw [List.filter_eq_self]
        intro x hx
        have : x ≠ a := fun h => hn.1 (h ▸ hx)
        simp [this]
      simp [this]
    · have hu' : u ∈ t := by
        rcases List.mem_cons.1 hu with h | h
        · exact absurd h.symm ha
        · exact h
      simp [ha, ih hn.2 hu']

theorem topoAux_full (edges : List (N × N)) (names0 : List N)
    (hsrc : ∀ rem : List N, rem ≠ [] → (∀ x ∈ rem, x ∈ names0) → pickSource edges rem ≠ none) :
    ∀ (fuel : Nat) (rem : List N), rem.Nodup → (∀ x ∈ rem, x ∈ names0) → rem.length ≤ fuel →
      (topoAux edges fuel rem).length = rem.length
  | 0, rem, _, _, hl => by
    have : rem = [] := List.eq_nil_of_length_eq_zero (by omega)
    subst this; simp [topoAux]
  | fuel + 1, rem, hn, hs, hl => by
    simp only [topoAux]
    by_cases hrem : rem = []
    · subst hrem
      simp [pickSource]
    · split
      next hnone => exact absurd hnone (hsrc rem hrem hs)
      next u hu =>
        have hur := (pickSource_some hu).1
        have hlen := nodup_filter_ne_length hn hur
        have ih := topoAux_full edges names0 hsrc fuel (rem.filter (fun v => !decide (v = u)))
          (hn.filter _) (fun x hx => hs x (List.mem_filter.1 hx).1) (by omega)
        simp only [List.length_cons, ih]
        exact hlen

theorem exists_min (f : N → Nat) : ∀ (l : List N), l ≠ [] → ∃ u ∈ l, ∀ v ∈ l, f u ≤ f v
  | [], h => absurd rfl h
  | [a], _ => ⟨a, List.mem_cons_self, by intro v hv; simp at hv; subst hv; exact Nat.le_refl _⟩
  | a :: b :: t, _ => by
    obtain ⟨u, hu, hmin⟩ := exists_min f (b :: t) (by simp)
    by_cases h : f a ≤ f u
    · refine ⟨a, List.mem_cons_self, ?_⟩
      intro v hv
      rcases List.mem_cons.1 hv with rfl | hv
      · exact Nat.le_refl _
      · exact Nat.le_trans h (hmin v hv)
    · refine ⟨u, List.mem_cons_of_mem _ hu, ?_⟩
      intro v hv
      rcases List.mem_cons.1 hv with rfl | hv
      · omega
      · exact hmin v hv

/-- a rank that increases along the connections between the units makes source selection succeed -/
theorem isAcyclic_of_rank {g : Graph N} (hn : g.names.Nodup) (f : N → Nat)
    (hf : ∀ e ∈ g.edges, e.1 ∈ g.names → e.2 ∈ g.names → f e.1 < f e.2) : isAcyclic g = true := by
  unfold isAcyclic topoOrder
  rw [beq_iff_eq]
  have := topoAux_full g.edges g.names ?_ g.nodes.length g.names hn (fun x hx => hx) (by simp [Graph.names])
  · rw [this]; simp [Graph.names]
  · intro rem hne hs hnone
    rw [pickSource_eq_none] at hnone
    obtain ⟨u, hu, hmin⟩ := exists_min f rem hne
    obtain ⟨e, he, h2, h1⟩ := hnone u hu
    have := hf e he (hs _ h1) (h2 ▸ hs _ hu)
    have := hmin _ h1
    rw [h2] at *
    omega

/-- sub-graphs of accepted graphs are accepted -/
theorem isAcyclic_sub {g g' : Graph N} (h : isAcyclic g = true) (hn : g'.names.Nodup)
    (hnames : ∀ u ∈ g'.names, u ∈ g.names) (hedges : ∀ e ∈ g'.edges, e ∈ g.edges) : isAcyclic g' = true := by
  apply isAcyclic_of_rank hn (fun x => (topoOrder g).idxOf x)
  intro e he h1 h2
  exact topoOrder_idxOf_lt h (hedges e he) (hnames _ h1) (hnames _ h2)

theorem walk_rgOfGraph {g : Graph N} {r : List N} :
    (rgOfGraph g).Walk r ↔ WalkR (fun a b => (a, b) ∈ g.edges) r := by
  unfold RG.Walk
  constructor
  · exact WalkR.mono (fun a b h => by simpa [rgOfGraph] using h)
  · exact WalkR.mono (fun a b h => by simpa [rgOfGraph] using h)

theorem connIn_rgOfGraph {g : Graph N} (hwf : g.WF) : ConnIn (rgOfGraph g) := by
  intro a b h
  have : (a, b) ∈ g.edges := by simpa [rgOfGraph] using h
  exact (hwf.edgesIn _ this).2

/-- **`isAcyclic` decides acyclicity of the working graph** -/
theorem isAcyclic_iff_acyclic {g : Graph N} (hwf : g.WF) : isAcyclic g = true ↔ (rgOfGraph g).Acyclic := by
  constructor
  · intro h
    rintro ⟨u, l, hw⟩
    exact isAcyclic_no_closed_walk h hwf.edgesIn ⟨u, l, walk_rgOfGraph.1 hw⟩
  · intro ha
    unfold isAcyclic topoOrder
    rw [beq_iff_eq]
    have := topoAux_full g.edges g.names ?_ g.nodes.length g.names hwf.namesNodup (fun x hx => hx)
      (by simp [Graph.names])
    · rw [this]; simp [Graph.names]
    · intro rem hne hs hnone
      rw [pickSource_eq_none] at hnone
      -- backward walks of any length inside `rem`
      have hback : ∀ k : Nat, ∀ u ∈ rem, ∃ l : List N, l.length = k ∧
          WalkR (fun a b => (a, b) ∈ g.edges) (l ++ [u]) ∧ ∀ x ∈ l, x ∈ rem := by
        intro k
        induction k with
        | zero => intro u _; exact ⟨[], rfl, trivial, by intro x hx; cases hx⟩
        | succ k ih =>
          intro u hu
          obtain ⟨e, he, h2, h1⟩ := hnone u hu
          obtain ⟨l, hl, hw, hin⟩ := ih e.1 h1
          refine ⟨l ++ [e.1], by simp [hl], ?_, ?_⟩
          · apply WalkR_snoc (a := e.1) hw (by simp)
            have : (e.1, u) = e := by rw [← h2]
            rw [this]; exact he
          · intro x hx
            rcases List.mem_append.1 hx with hx | hx
            · exact hin x hx
            · simp at hx; subst hx; exact h1
      obtain ⟨u, hu⟩ := List.exists_mem_of_ne_nil _ hne
      obtain ⟨l, hl, hw, hin⟩ := hback g.names.length u hu
      have hnd : (l ++ [u]).Nodup := nodup_of_acyclic (rgOfGraph g) ha (walk_rgOfGraph.2 hw)
      have hsub : ∀ x ∈ l ++ [u], x ∈ g.names := by
        intro x hx
        rcases List.mem_append.1 hx with hx | hx
        · exact hs x (hin x hx)
        · simp at hx; subst hx; exact hs x hu
      have := List.Nodup.length_le_of_subset hnd hsub
      simp at this
      omega

/-! ## The order `chkCaps` uses -/

/-- `(topoOrder g).reverse` lists every unit after all its successors -/
theorem postOrder_topo {g : Graph N} (hwf : g.WF) (hac : isAcyclic g = true) : PostOrder g (topoOrder g).reverse := by
  refine ⟨fun u hu => List.mem_reverse.2 ((mem_topoOrder hac).2 hu), ?_⟩
  intro l1 u l2 hrev v he
  have htopo : topoOrder g = l2.reverse ++ u :: l1.reverse := by
    have := congrArg List.reverse hrev
    simpa using this
  have hv : v ∈ topoOrder g := (mem_topoOrder hac).2 (hwf.edgesIn _ he).2
  have hu : u ∈ g.names := (hwf.edgesIn _ he).1
  have hnd := topoOrder_nodup g
  rw [htopo] at hv
  rcases List.mem_append.1 hv with hv | hv
  · exfalso
    obtain ⟨b1, b2, hb⟩ := List.append_of_mem hv
    have hsplit : topoOrder g = b1 ++ v :: (b2 ++ u :: l1.reverse) := by rw [htopo, hb]; simp
    have hub := topoOrder_preds_before g hsplit he hu
    rw [hsplit] at hnd
    have := (List.nodup_append.1 hnd).2.2 u hub u (by simp) rfl
    exact this
  · rcases List.mem_cons.1 hv with rfl | hv
    · exfalso
      exact topoOrder_no_loop g (by rw [htopo]; simp) he
    · exact List.mem_reverse.1 hv

/-- in a one-unit accepted graph the unit is an output port -/
theorem single_unit_out {g : Graph N} (hwf : g.WF) (hac : isAcyclic g = true)
    (hm : decide (g.nodes.length > 1) = false) : ∀ p ∈ g.inPorts, p ∈ g.outPorts := by
  intro p hp
  have hpn := (Graph.mem_inPorts.1 hp).1
  rw [Graph.mem_outPorts]
  refine ⟨hpn, ?_⟩
  intro b hb
  have hbn := (hwf.edgesIn _ hb).2
  have hlen : g.names.length ≤ 1 := by
    simp at hm
    simpa [Graph.names] using hm
  have : b = p := by
    cases hnm : g.names with
    | nil => rw [hnm] at hpn; cases hpn
    | cons x t =>
      rw [hnm] at hpn hbn hlen
      have : t = [] := by
        cases t with
        | nil => rfl
        | cons y t' => simp only [List.length_cons] at hlen; omega
      subst this
      simp at hpn hbn
      rw [hpn, hbn]
  subst this
  exact topoOrder_no_loop g ((mem_topoOrder hac).2 hpn) hb

section ChkCaps
variable {g : Graph N}

/-- **C09, capability part**: an accepted graph routes every capability offered at an input port across exactly one
read lock and one write lock, and to an output port -/
theorem chkCaps_ok (hwf : g.WF) (hac : isAcyclic g = true) (h : chkCaps g = .ok ()) :
    ∀ p ∈ g.inPorts, ∀ c ∈ g.capsOf p, (rgOfGraph g).LocksExact c p ∧ (rgOfGraph g).ReachesOut c p :=
  chkCapList_capUnits_ok (postOrder_topo hwf hac) hwf.edgesIn (single_unit_out hwf hac) h

theorem chkCaps_error (hwf : g.WF) (hac : isAcyclic g = true) {e : LoadError N} (h : chkCaps g = .error e) :
    (∃ u t c, e = .pathLock u t c ∧ c ∈ g.capsOf u ∧
      (Bad g c t u ∨ (u ∈ g.inPorts ∧ ∃ r, MaxRouteFrom g c u r ∧ (rgOfGraph g).lockCount t r = 0))) ∨
    (∃ c p, e = .blockedCap c p ∧ p ∈ g.inPorts ∧ c ∈ g.capsOf p ∧ ¬ (rgOfGraph g).ReachesOut c p) :=
  chkCapList_capUnits_error (postOrder_topo hwf hac) hwf.edgesIn h

theorem chkCaps_error_port (hwf : g.WF) (hac : isAcyclic g = true) (hfed : FedFromInputs g) {e : LoadError N}
    (h : chkCaps g = .error e) :
    (e.cls = .pathLock ∧ ∃ p ∈ g.inPorts, ∃ c ∈ g.capsOf p, ¬ (rgOfGraph g).LocksExact c p) ∨
    (e.cls = .blockedCap ∧ ∃ p ∈ g.inPorts, ∃ c ∈ g.capsOf p, ¬ (rgOfGraph g).ReachesOut c p) :=
  chkCapList_capUnits_error_port (postOrder_topo hwf hac) hwf.edgesIn hfed h

theorem chkCaps_complete (hwf : g.WF) (hac : isAcyclic g = true) (hfed : FedFromInputs g)
    (hall : ∀ p ∈ g.inPorts, ∀ c ∈ g.capsOf p, (rgOfGraph g).LocksExact c p ∧ (rgOfGraph g).ReachesOut c p) :
    chkCaps g = .ok () :=
  chkCapList_capUnits_complete (postOrder_topo hwf hac) hwf.edgesIn hfed hall

end ChkCaps

/-! ## What `clean_struct` leaves behind -/

/-- the state after cleaning the units of `l1` (a prefix of the topological order of `g`) -/
structure CleanInv (g : Graph N) (l1 : List N) (h : Graph N) : Prop where
  names : h.names = g.names
  edgesSub : ∀ e ∈ h.edges, e ∈ g.edges
  untouched : ∀ e ∈ g.edges, e.2 ∉ l1 → e ∈ h.edges
  shared : ∀ a b, (a, b) ∈ h.edges → b ∈ l1 → ∃ c, c ∈ h.capsOf a ∧ c ∈ h.capsOf b
  fed : ∀ b ∈ l1, ∀ c ∈ h.capsOf b, (∀ a, (a, b) ∉ g.edges) ∨ ∃ a, (a, b) ∈ h.edges ∧ c ∈ h.capsOf a

theorem cleanInv_step {g h : Graph N} {l1 l2 : List N} {u : N} (hT : topoOrder g = l1 ++ u :: l2)
    (hi : CleanInv g l1 h) : CleanInv g (l1 ++ [u]) (cleanUnit h u) := by
  have hnd := topoOrder_nodup g
  have hfw := topoOrder_forward g
  rw [hT] at hnd hfw
  have hul1 : u ∉ l1 := fun hu => (List.nodup_append.1 hnd).2.2 u hu u List.mem_cons_self rfl
  have hug : u ∈ g.names := topoOrder_subset g (by rw [hT]; simp)
  have huh : u ∈ h.names := hi.names ▸ hug
  have hloop : (u, u) ∉ g.edges := topoOrder_no_loop g (by rw [hT]; simp)
  have hback : ∀ b ∈ l1, (u, b) ∉ g.edges := by
    intro b hb
    exact (List.pairwise_append.1 hfw).2.2 b hb u List.mem_cons_self
  -- sources of connections into processed units (or `u`) are not `u`
  have hsrc : ∀ a b, (a, b) ∈ h.edges → (b ∈ l1 ∨ b = u) → a ≠ u := by
    intro a b he hb hau
    subst hau
    rcases hb with hb | hb
    · exact hback b hb (hi.edgesSub _ he)
    · subst hb; exact hloop (hi.edgesSub _ he)
  refine ⟨by rw [names_cleanUnit]; exact hi.names, ?_, ?_, ?_, ?_⟩
  · intro e he
    exact hi.edgesSub e (mem_edges_cleanUnit.1 he).1
  · intro e he hn
    rw [mem_edges_cleanUnit]
    refine ⟨hi.untouched e he (fun h' => hn (List.mem_append_left _ h')), fun h2 => ?_⟩
    exact absurd (List.mem_append_right _ (List.mem_singleton.2 h2)) hn
  · intro a b he hb
    rw [mem_edges_cleanUnit] at he
    have hb' : b ∈ l1 ∨ b = u := by
      rcases List.mem_append.1 hb with hb | hb
      · exact Or.inl hb
      · exact Or.inr (List.mem_singleton.1 hb)
    have hau : a ≠ u := hsrc a b he.1 hb'
    rw [capsOf_cleanUnit_ne hau]
    rcases hb' with hb' | hb'
    · have hbu : b ≠ u := fun h' => hul1 (h' ▸ hb')
      rw [capsOf_cleanUnit_ne hbu]
      exact hi.shared a b he.1 hb'
    · subst hb'
      obtain ⟨c, hc1, hc2⟩ := he.2 rfl
      exact ⟨c, hc2, (mem_capsOf_cleanUnit_self huh).2 ⟨hc1, Or.inr ⟨a, he.1, hc2⟩⟩⟩
  · intro b hb c hc
    rcases List.mem_append.1 hb with hb | hb
    · have hbu : b ≠ u := fun h' => hul1 (h' ▸ hb)
      rw [capsOf_cleanUnit_ne hbu] at hc
      rcases hi.fed b hb c hc with h1 | ⟨a, ha, hca⟩
      · exact Or.inl h1
      · right
        have hau : a ≠ u := hsrc a b ha (Or.inl hb)
        refine ⟨a, mem_edges_cleanUnit.2 ⟨ha, fun h2 => absurd h2 hbu⟩, ?_⟩
        rw [capsOf_cleanUnit_ne hau]; exact hca
    · have hb' := List.mem_singleton.1 hb
      subst hb'
      rw [mem_capsOf_cleanUnit_self huh] at hc
      rcases hc.2 with h1 | ⟨p, hp, hcp⟩
      · left
        intro a ha
        exact h1 a (hi.untouched _ ha hul1)
      · right
        have hpu : p ≠ b := hsrc p b hp (Or.inr rfl)
        refine ⟨p, mem_edges_cleanUnit.2 ⟨hp, fun _ => ⟨c, hc.1, hcp⟩⟩, ?_⟩
        rw [capsOf_cleanUnit_ne hpu]; exact hcp

theorem cleanInv_foldl {g : Graph N} : ∀ (l2 l1 : List N) (h : Graph N), topoOrder g = l1 ++ l2 → CleanInv g l1 h →
    CleanInv g (topoOrder g) (l2.foldl cleanUnit h)
  | [], l1, h, hT, hi => by
    simp at hT
    rw [hT]; exact hi
  | u :: l2, l1, h, hT, hi => by
    simp only [List.foldl_cons]
    exact cleanInv_foldl l2 (l1 ++ [u]) (cleanUnit h u) (by rw [hT]; simp) (cleanInv_step hT hi)

theorem cleanInv_cleanStruct (g : Graph N) : CleanInv g (topoOrder g) (cleanStruct g) := by
  unfold cleanStruct
  apply cleanInv_foldl (topoOrder g) [] g rfl
  exact ⟨rfl, fun e he => he, fun e he _ => he, fun a b _ hb => (by cases hb), fun b hb => (by cases hb)⟩

/-- units connected after `clean_struct` share a capability -/
theorem cleanStruct_shared {g : Graph N} (hwf : g.WF) (hac : isAcyclic g = true) {a b : N}
    (he : (a, b) ∈ (cleanStruct g).edges) : ∃ c, c ∈ (cleanStruct g).capsOf a ∧ c ∈ (cleanStruct g).capsOf b := by
  have hi := cleanInv_cleanStruct g
  exact hi.shared a b he ((mem_topoOrder hac).2 (hwf.edgesIn _ (hi.edgesSub _ he)).2)

/-- after `clean_struct` every capability of a unit that had predecessors is supported by a remaining predecessor -/
theorem cleanStruct_fed {g : Graph N} (hac : isAcyclic g = true) {b c : N} (hc : c ∈ (cleanStruct g).capsOf b) :
    b ∈ g.inPorts ∨ ∃ a, (a, b) ∈ (cleanStruct g).edges ∧ c ∈ (cleanStruct g).capsOf a := by
  have hi := cleanInv_cleanStruct g
  have hb : b ∈ g.names := hi.names ▸ mem_names_of_capsOf hc
  rcases hi.fed b ((mem_topoOrder hac).2 hb) c hc with h | h
  · exact Or.inl (Graph.mem_inPorts.2 ⟨hb, h⟩)
  · exact Or.inr h

/-! ## The final graph -/

theorem Induced_capsOf {g' g : Graph N} (hi : g'.Induced g) (hg : g.names.Nodup) {u : N} (hu : u ∈ g'.names) :
    g'.capsOf u = g.capsOf u := by
  obtain ⟨n, hn, rfl⟩ := Graph.mem_names.1 hu
  rw [Graph.capsOf_of_mem (hi.names_sublist.nodup hg) hn, Graph.capsOf_of_mem hg (hi.nodes.subset hn)]

theorem Induced_node? {g' g : Graph N} (hi : g'.Induced g) (hg : g.names.Nodup) {u : N} (hu : u ∈ g'.names) :
    g'.node? u = g.node? u := by
  obtain ⟨n, hn, rfl⟩ := Graph.mem_names.1 hu
  rw [Graph.node?_of_mem (hi.names_sublist.nodup hg) hn, Graph.node?_of_mem hg (hi.nodes.subset hn)]

/-- a unit with a capability survives `rm_empty_units` -/
theorem not_dead_of_capsOf {g : Graph N} (hn : g.names.Nodup) {u c : N} (hc : c ∈ g.capsOf u) :
    u ∉ (g.nodes.filter (fun n => n.caps.isEmpty)).map (·.name) := by
  intro hd
  obtain ⟨n, hnf, rfl⟩ := List.mem_map.1 hd
  rw [List.mem_filter] at hnf
  rw [Graph.capsOf_of_mem hn hnf.1] at hc
  have := hnf.2
  rw [List.isEmpty_iff] at this
  rw [this] at hc
  cases hc

theorem rmEmpty_induced {g : Graph N} (hwf : g.WF) : (rmEmpty g).Induced g :=
  (Graph.Induced.refl hwf).removeNodes _

theorem mem_names_rmEmpty {g : Graph N} (hn : g.names.Nodup) {u : N} :
    u ∈ (rmEmpty g).names ↔ u ∈ g.names ∧ g.capsOf u ≠ [] := by
  unfold rmEmpty
  rw [Graph.mem_names_removeNodes]
  constructor
  · rintro ⟨hu, hd⟩
    refine ⟨hu, ?_⟩
    intro hc
    apply hd
    obtain ⟨n, hnn, rfl⟩ := Graph.mem_names.1 hu
    rw [Graph.capsOf_of_mem hn hnn] at hc
    exact List.mem_map.2 ⟨n, List.mem_filter.2 ⟨hnn, by simp [hc]⟩, rfl⟩
  · rintro ⟨hu, hc⟩
    refine ⟨hu, ?_⟩
    obtain ⟨c, hc'⟩ := List.exists_mem_of_ne_nil _ hc
    exact not_dead_of_capsOf hn hc'

/-- `chk_terminals` removes a unit only after all its successors: the result is closed under predecessors -/
theorem chkTerminals_predClosed {in0 out0 : List N} {fuel : Nat} {g1 g2 : Graph N} (hwf : g1.WF)
    (h : chkTerminals in0 out0 fuel g1 = .ok g2) :
    g2.Induced g1 ∧ ∀ a b, (a, b) ∈ g1.edges → b ∈ g2.names → a ∈ g2.names := by
  refine chkTerminals_ok_inv
    (P := fun g' => g'.Induced g1 ∧ ∀ a b, (a, b) ∈ g1.edges → b ∈ g'.names → a ∈ g'.names)
    ?_ fuel g1 g2 ⟨Graph.Induced.refl hwf, fun a b he _ => (hwf.edgesIn _ he).1⟩ h
  intro g' hP _
  refine ⟨hP.1.removeNodes _, ?_⟩
  intro a b he hb
  rw [Graph.mem_names_removeNodes] at hb ⊢
  have ha := hP.2 a b he hb.1
  refine ⟨ha, ?_⟩
  intro hdead
  have hout := (List.mem_filter.1 hdead).1
  rw [Graph.mem_outPorts] at hout
  exact hout.2 b ((hP.1.edges (a, b)).2 ⟨he, ha, hb.1⟩)

section Final
variable {g g2 : Graph N} [LT N] [DecidableRel (α := N) (· < ·)]

/-- the graph `chk_terminals` returns: a well-formed, accepted, predecessor-closed induced sub-graph -/
theorem terminals_final (hwf : g.WF) (hac : isAcyclic g = true)
    (hterm : chkTerminals g.inPorts g.outPorts ((rmEmpty (cleanStruct g)).nodes.length + 1)
      (rmEmpty (cleanStruct g)) = .ok g2) :
    g2.WF ∧ isAcyclic g2 = true ∧ g2.Induced (rmEmpty (cleanStruct g)) ∧
    (∀ a b, (a, b) ∈ (rmEmpty (cleanStruct g)).edges → b ∈ g2.names → a ∈ g2.names) := by
  have hcs : (cleanStruct g).WF := hwf.cleanStruct
  have h1 : (rmEmpty (cleanStruct g)).WF := hcs.rmEmpty
  obtain ⟨hind, hclosed⟩ := chkTerminals_predClosed h1 hterm
  have hwf2 : g2.WF := hind.WF h1
  have hi := cleanInv_cleanStruct g
  refine ⟨hwf2, ?_, hind, hclosed⟩
  apply isAcyclic_sub hac hwf2.namesNodup
  · intro u hu
    have := (rmEmpty_induced hcs).names_sublist.subset (hind.names_sublist.subset hu)
    rw [hi.names] at this
    exact this
  · intro e he
    exact hi.edgesSub e ((rmEmpty_induced hcs).edgesSub.subset (hind.edgesSub.subset he))

/-- the pieces of an accepting `prepare` -/
theorem prepare_final (hwf : g.WF) (h : prepare g = .ok g2) :
    isAcyclic g = true ∧ g2.WF ∧ isAcyclic g2 = true ∧ g2.Induced (rmEmpty (cleanStruct g)) ∧
    (∀ a b, (a, b) ∈ (rmEmpty (cleanStruct g)).edges → b ∈ g2.names → a ∈ g2.names) ∧
    chkCaps g2 = .ok () := by
  obtain ⟨hac, hterm, _, hcaps⟩ := prepare_ok h
  obtain ⟨h1, h2, h3, h4⟩ := terminals_final hwf hac hterm
  exact ⟨hac, h1, h2, h3, h4, hcaps⟩

/-- in the graph `chk_terminals` returns every capability of a unit is fed from an input port through supporting
units -/
theorem fedFromInputs_terminals (hwf : g.WF) (hac : isAcyclic g = true)
    (hterm : chkTerminals g.inPorts g.outPorts ((rmEmpty (cleanStruct g)).nodes.length + 1)
      (rmEmpty (cleanStruct g)) = .ok g2) : FedFromInputs g2 := by
  obtain ⟨hwf2, hac2, hind, hclosed⟩ := terminals_final hwf hac hterm
  have hcs : (cleanStruct g).WF := hwf.cleanStruct
  have h1 : (rmEmpty (cleanStruct g)).WF := hcs.rmEmpty
  have hi := cleanInv_cleanStruct g
  have hcaps : ∀ u ∈ g2.names, g2.capsOf u = (cleanStruct g).capsOf u := by
    intro u hu
    rw [Induced_capsOf hind h1.namesNodup hu,
      Induced_capsOf (rmEmpty_induced hcs) hcs.namesNodup (hind.names_sublist.subset hu)]
  have key : ∀ u ∈ g2.names, ∀ c ∈ g2.capsOf u, ∃ p ∈ g2.inPorts, ∃ r0,
      (rgOfGraph g2).IsRoute c r0 ∧ r0.head? = some p ∧ r0.getLast? = some u := by
    refine topo_pred_induction hac2 (P := fun u => ∀ c ∈ g2.capsOf u, ∃ p ∈ g2.inPorts, ∃ r0,
      (rgOfGraph g2).IsRoute c r0 ∧ r0.head? = some p ∧ r0.getLast? = some u) ?_
    intro u hu ih c hc
    have hc' : c ∈ (cleanStruct g).capsOf u := hcaps u hu ▸ hc
    rcases cleanStruct_fed hac hc' with hin | ⟨a, hae, hca⟩
    · refine ⟨u, ?_, [u], ?_, rfl, rfl⟩
      · rw [Graph.mem_inPorts] at hin ⊢
        refine ⟨hu, fun a ha => hin.2 a ?_⟩
        exact hi.edgesSub _ ((rmEmpty_induced hcs).edgesSub.subset (hind.edgesSub.subset ha))
      · rw [isRoute_singleton]; simpa [rgOfGraph] using hc
    · have hae1 : (a, u) ∈ (rmEmpty (cleanStruct g)).edges := by
        unfold rmEmpty
        rw [Graph.mem_edges_removeNodes]
        exact ⟨hae, not_dead_of_capsOf hcs.namesNodup hca, not_dead_of_capsOf hcs.namesNodup hc'⟩
      have ha2 : a ∈ g2.names := hclosed a u hae1 hu
      have hae2 : (a, u) ∈ g2.edges := (hind.edges (a, u)).2 ⟨hae1, ha2, hu⟩
      have hca2 : c ∈ g2.capsOf a := by rw [hcaps a ha2]; exact hca
      obtain ⟨p, hp, r0, hr0, hh, hl⟩ := ih a ha2 hae2 c hca2
      refine ⟨p, hp, r0 ++ [u], ⟨by simp, ?_, ?_⟩, ?_, by simp⟩
      · intro x hx
        rcases List.mem_append.1 hx with hx | hx
        · exact hr0.2.1 x hx
        · simp at hx; subst hx; simpa [rgOfGraph] using hc
      · exact WalkR_snoc hr0.2.2 hl (by simpa [rgOfGraph] using hae2)
      · cases r0 with
        | nil => simp at hh
        | cons x t => simpa using hh
  intro u c hc
  exact key u (mem_names_of_capsOf hc) c hc

/-- in the final graph every capability of a unit is fed from an input port through supporting units -/
theorem fedFromInputs_final (hwf : g.WF) (h : prepare g = .ok g2) : FedFromInputs g2 :=
  fedFromInputs_terminals hwf (prepare_ok h).1 (prepare_ok h).2.1

end Final

/-! ## The processor object describes the final graph -/

section MakeProc
variable (fold : N → N) [LT N] [DecidableRel (α := N) (· < ·)]

theorem mem_allUnits_makeProcessor {reg : List N} {g : Graph N} {p : Proc N} (hg : g.WF)
    (h : makeProcessor fold reg g = some p) {m : UnitM N} :
    m ∈ p.allUnits ↔ ∃ n ∈ g.nodes, m = mkModel fold reg n :=
  by
    rw [(makeProcessor_allUnits_perm fold hg.namesNodup h).mem_iff, List.mem_map]
    constructor
    · rintro ⟨n, hn, rfl⟩; exact ⟨n, hn, rfl⟩
    · rintro ⟨n, hn, rfl⟩; exact ⟨n, hn, rfl⟩

theorem supB_makeProcessor {reg : List N} {g : Graph N} {p : Proc N} (hg : g.WF)
    (h : makeProcessor fold reg g = some p) (u c : N) : supB p u c = decide (c ∈ g.capsOf u) := by
  rw [Bool.eq_iff_iff]
  unfold supB
  simp only [List.any_eq_true, Bool.and_eq_true, decide_eq_true_eq, mem_allUnits_makeProcessor fold hg h]
  constructor
  · rintro ⟨m, ⟨n, hn, rfl⟩, hname, hc⟩
    have hname' : n.name = u := hname
    have hc' : c ∈ n.caps := by simpa [mkModel] using hc
    rw [← hname', Graph.capsOf_of_mem hg.namesNodup hn]
    exact hc'
  · intro hc
    unfold Graph.capsOf at hc
    split at hc
    next n hn =>
      obtain ⟨h1, h2⟩ := Graph.node?_some hn
      exact ⟨mkModel fold reg n, ⟨n, h1, rfl⟩, h2, by simpa [mkModel] using hc⟩
    · cases hc

theorem lockB_makeProcessor {reg : List N} {g : Graph N} {p : Proc N} (hg : g.WF)
    (h : makeProcessor fold reg g = some p) (t : LockType) (u : N) : lockB p t u = nodeLock g t u := by
  rw [Bool.eq_iff_iff]
  unfold lockB nodeLock
  simp only [List.any_eq_true, Bool.and_eq_true, decide_eq_true_eq, mem_allUnits_makeProcessor fold hg h]
  constructor
  · rintro ⟨m, ⟨n, hn, rfl⟩, hname, hl⟩
    have hname' : n.name = u := hname
    rw [← hname', Graph.node?_of_mem hg.namesNodup hn]
    cases t <;> simpa [mkModel] using hl
  · intro hl
    split at hl
    next n hn =>
      obtain ⟨h1, h2⟩ := Graph.node?_some hn
      refine ⟨mkModel fold reg n, ⟨n, h1, rfl⟩, h2, ?_⟩
      cases t <;> simpa [mkModel] using hl
    · cases hl

/-- the processor object built from the final graph is the same capability graph -/
theorem rgEquiv_makeProcessor {reg : List N} {g : Graph N} {p : Proc N} (hg : g.WF)
    (h : makeProcessor fold reg g = some p) : RGEquiv (rgOfGraph g) (rgOfProc p) := by
  refine ⟨?_, ?_, ?_, ?_⟩
  · intro u
    exact (makeProcessor_procNames_perm fold hg.namesNodup h).mem_iff.symm
  · intro a b
    show decide ((a, b) ∈ g.edges) = edgeB p a b
    rw [Bool.eq_iff_iff, decide_eq_true_eq, makeProcessor_edgeB fold hg h]
  · intro u c
    exact (supB_makeProcessor fold hg h u c).symm
  · intro t u
    exact (lockB_makeProcessor fold hg h t u).symm

/-- the input boundary of the processor object: the units without incoming connection -/
theorem inBoundary_makeProcessor {reg : List N} {g : Graph N} {p : Proc N} (hg : g.WF)
    (h : makeProcessor fold reg g = some p) {m : UnitM N} (hm : m ∈ p.inBoundary) :
    m.name ∈ g.inPorts ∧ m ∈ p.allUnits := by
  have hcl := makeProcessor_classes fold hg.namesNodup h m.name
  unfold Proc.inBoundary at hm
  rw [Graph.mem_inPorts]
  rcases List.mem_append.1 hm with hm | hm
  · have := hcl.2.2.1.1 (List.mem_map.2 ⟨m, hm, rfl⟩)
    refine ⟨⟨this.1, fun a ha => this.2.1 ⟨a, ha⟩⟩, ?_⟩
    unfold Proc.allUnits
    simp [hm]
  · have := hcl.1.1 (List.mem_map.2 ⟨m, hm, rfl⟩)
    refine ⟨⟨this.1, fun a ha => this.2.1 ⟨a, ha⟩⟩, ?_⟩
    unfold Proc.allUnits
    simp [hm]

end MakeProc

/-! ## Stage 1 facts about the nodes -/

theorem addUnits_nodes_width (fold : N → N) : ∀ (us : List (UnitD N)) (names reg : List N)
    (r : List (GNode N) × List N), addUnits fold us names reg = .ok r → ∀ n ∈ r.1, 0 < n.width
  | [], _, _, r, h => by
    simp only [addUnits, Except.ok.injEq] at h
    subst h
    intro n hn; cases hn
  | u :: us, names, reg, r, h => by
    simp only [addUnits] at h
    split at h
    · cases h
    · split at h
      · cases h
      next hw =>
        split at h
        · cases h
        next r' hr' =>
          simp only [Except.ok.injEq] at h
          subst h
          intro n hn
          rcases List.mem_cons.1 hn with rfl | hn
          · simp only; omega
          · exact addUnits_nodes_width fold us _ _ r' hr' n hn

/-! ## Helpers for the checker `checkC09` (any processor object) -/

section Checker
variable (fold : N → N)

theorem uniqueUpToFold_iff : ∀ l : List N, uniqueUpToFold fold l = true ↔ l.Pairwise (fun a b => fold a ≠ fold b)
  | [] => by simp [uniqueUpToFold]
  | a :: l => by
    simp only [uniqueUpToFold, Bool.and_eq_true, List.all_eq_true, Bool.not_eq_true', decide_eq_false_iff_not,
      List.pairwise_cons, uniqueUpToFold_iff l]

theorem connIn_rgOfProc (p : Proc N) : ConnIn (rgOfProc p) := by
  intro a b h
  have h' : edgeB p a b = true := h
  unfold edgeB at h'
  rw [List.any_eq_true] at h'
  obtain ⟨f, hf, hfb⟩ := h'
  simp only [Bool.and_eq_true, decide_eq_true_eq] at hfb
  show b ∈ procNames p
  unfold procNames Proc.allUnits
  rw [← hfb.1]
  rcases List.mem_append.1 hf with hf | hf
  · simp only [List.map_append, List.mem_append, List.mem_map]
    exact Or.inl (Or.inr ⟨f.model, ⟨f, hf, rfl⟩, rfl⟩)
  · simp only [List.map_append, List.mem_append, List.mem_map]
    exact Or.inr ⟨f.model, ⟨f, hf, rfl⟩, rfl⟩

theorem eq_of_map_nodup {α β : Type} (f : α → β) : ∀ {l : List α}, (l.map f).Nodup → ∀ {x y : α}, x ∈ l → y ∈ l →
    f x = f y → x = y
  | [], _, _, _, hx, _, _ => by cases hx
  | a :: l, hn, x, y, hx, hy, hxy => by
    rw [List.map_cons, List.nodup_cons] at hn
    rcases List.mem_cons.1 hx with hxa | hx
    · rcases List.mem_cons.1 hy with hya | hy
      · rw [hxa, hya]
      · exact absurd (List.mem_map.2 ⟨y, hy, by rw [← hxy, hxa]⟩) hn.1
    · rcases List.mem_cons.1 hy with hya | hy
      · exact absurd (List.mem_map.2 ⟨x, hx, by rw [hxy, hya]⟩) hn.1
      · exact eq_of_map_nodup f hn.2 hx hy hxy

theorem mem_allUnits_of_dest {p : Proc N} {f : FuncU N} (hf : f ∈ p.outPorts ++ p.internal) : f.model ∈ p.allUnits := by
  unfold Proc.allUnits
  rcases List.mem_append.1 hf with hf | hf
  · simp only [List.mem_append, List.mem_map]
    exact Or.inl (Or.inr ⟨f, hf, rfl⟩)
  · simp only [List.mem_append, List.mem_map]
    exact Or.inr ⟨f, hf, rfl⟩

theorem mem_allUnits_of_inBoundary {p : Proc N} {m : UnitM N} (hm : m ∈ p.inBoundary) : m ∈ p.allUnits := by
  unfold Proc.inBoundary at hm
  unfold Proc.allUnits
  rcases List.mem_append.1 hm with hm | hm <;> simp [hm]

theorem supB_of_mem {p : Proc N} {m : UnitM N} (hm : m ∈ p.allUnits) {c : N} (hc : c ∈ m.caps) :
    supB p m.name c = true := by
  unfold supB
  rw [List.any_eq_true]
  exact ⟨m, hm, by simp [hc]⟩

/-- the eight clauses of `checkC09` -/
theorem checkC09_eq (p : Proc N) : checkC09 fold p = true ↔
    ((p.outPorts ++ p.internal).all (fun f => f.preds.all (fun q => decide (q ∈ procNames p))) = true ∧
     (rgOfProc p).acyclicB = true ∧
     p.allUnits.all (fun m => decide (0 < m.width)) = true ∧
     uniqueUpToFold fold (procNames p) = true ∧
     p.allUnits.all (fun m => !m.caps.isEmpty) = true ∧
     (p.outPorts ++ p.internal).all (fun f => f.preds.all (fun q => f.model.caps.any (fun c => supB p q c))) = true ∧
     p.inBoundary.all (fun m => m.caps.all (fun c => (rgOfProc p).reachesOutB c m.name)) = true ∧
     p.inBoundary.all (fun m => m.caps.all (fun c => (rgOfProc p).locksExactB c m.name)) = true) := by
  unfold checkC09 allPass clausesC09
  simp only [List.all_cons, List.all_nil, Bool.and_true, Bool.and_eq_true, and_assoc]

end Checker

end LoaderBridge
end Loader
end ProcSim
