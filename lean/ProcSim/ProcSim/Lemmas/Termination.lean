import ProcSim.Lemmas.SimCore
import ProcSim.Props.C17
/-!
# Termination of `simulate` and the meaning of a stall (C08)

1. Which `Fault`s the steps of a cycle can raise (`runCycle_error_cases`), and where a fault / a diagram of
   `simLoop` comes from (`simLoop_fault`, `simLoop_length`).
2. A position function on unit names that strictly increases along every connection (`upos`).
3. Where the instructions of the new record come from (`Origin`, `fillCycle_origin`).
4. The rank argument: `rank`, `phi`, monotone (`rank_mono`), strictly increasing in a productive cycle
   (`phi_lt_of_productive`), bounded (`phi_le`), hence `simLoop_no_fuel`.
5. Frozen records: a record that satisfies the semantic form of `Spec.frozen` is a fixed point of the cycle and
   conversely (`Frozen`, `frozen_fixed`, `fixed_frozen`).

All names live in `ProcSim.Term`.
-/
namespace ProcSim
namespace Term

attribute [local implicit_reducible] AMap

open Spec

variable {N : Type} [DecidableEq N]

/-! ## 1. Faults -/

theorem canAll_error {qs : Queues N} {wr : Bool} {i : Nat} {rs : List N} {f : Fault}
    (h : canAll qs wr i rs = .error f) : f = .queueEmpty := by
  induction rs with
  | nil => simp [canAll] at h
  | cons r rs ih =>
    unfold canAll at h
    split at h
    · cases h; rfl
    · cases h
    · exact ih h

theorem regsAvail_error {qs : Queues N} {unit : UnitM N} {i : Nat} {ins : Instr N} {f : Fault}
    (h : regsAvail qs unit i ins = .error f) : f = .queueEmpty := by
  unfold regsAvail at h
  split at h
  · next f' hf =>
    cases h
    split at hf
    · exact canAll_error hf
    · cases hf
  · cases h
  · split at h
    · next f' hf =>
      cases h
      split at hf
      · exact canAll_error hf
      · cases hf
    · cases h
    · cases h

/-- `labelList` fails only with `queueEmpty`, or with `badIndex` at a hosted index outside the program -/
theorem labelList_error {prog : List (Instr N)} {qs : Queues N} {unit : UnitM N} {old l : List HI} {f : Fault}
    (h : labelList prog qs unit old l = .error f) :
    f = .queueEmpty ∨ (f = .badIndex ∧ ∃ x ∈ l, prog[x.idx]? = none) := by
  induction l generalizing f with
  | nil => simp [labelList] at h
  | cons x xs ih =>
    have lift : (f = .queueEmpty ∨ (f = .badIndex ∧ ∃ y ∈ xs, prog[y.idx]? = none)) →
        (f = .queueEmpty ∨ (f = .badIndex ∧ ∃ y ∈ x :: xs, prog[y.idx]? = none)) := by
      rintro (h | ⟨h, y, hy, hp⟩)
      · exact Or.inl h
      · exact Or.inr ⟨h, y, List.mem_cons_of_mem _ hy, hp⟩
    cases hrec : labelList prog qs unit old xs with
    | error f' =>
      have ih' := ih hrec
      unfold labelList at h
      simp only [hrec] at h
      split at h
      · cases h; exact lift ih'
      · split at h
        · cases h; exact Or.inr ⟨rfl, x, List.mem_cons_self, by assumption⟩
        · split at h
          · next f'' hr => cases h; exact Or.inl (regsAvail_error hr)
          · cases h; exact lift ih'
          · cases h; exact lift ih'
    | ok r' =>
      unfold labelList at h
      simp only [hrec] at h
      split at h
      · cases h
      · split at h
        · cases h; exact Or.inr ⟨rfl, x, List.mem_cons_self, by assumption⟩
        · split at h
          · next f'' hr => cases h; exact Or.inl (regsAvail_error hr)
          · cases h
          · cases h

/-- `labelAll` fails only with `queueEmpty`, with `noUnit` at a non-empty entry whose key is no unit name, or with
`badIndex` at a hosted index outside the program -/
theorem labelAll_error {units : List (UnitM N)} {prog : List (Instr N)} {qs : Queues N} {old u : Util N} {f : Fault}
    (h : labelAll units prog qs old u = .error f) :
    f = .queueEmpty ∨
    (f = .noUnit ∧ ∃ e ∈ AMap.toList u, e.2 ≠ [] ∧ lookupUnit units e.1 = none) ∨
    (f = .badIndex ∧ ∃ e ∈ AMap.toList u, ∃ x ∈ e.2, prog[x.idx]? = none) := by
  induction u generalizing f with
  | nil => rw [labelAll_nil] at h; cases h
  | cons e rest ih =>
    obtain ⟨n, l⟩ := e
    have lift : (f = .queueEmpty ∨
        (f = .noUnit ∧ ∃ e ∈ AMap.toList rest, e.2 ≠ [] ∧ lookupUnit units e.1 = none) ∨
        (f = .badIndex ∧ ∃ e ∈ AMap.toList rest, ∃ x ∈ e.2, prog[x.idx]? = none)) →
        (f = .queueEmpty ∨
        (f = .noUnit ∧ ∃ e ∈ AMap.toList ((n, l) :: rest : List (N × List HI)), e.2 ≠ [] ∧ lookupUnit units e.1 = none) ∨
        (f = .badIndex ∧ ∃ e ∈ AMap.toList ((n, l) :: rest : List (N × List HI)), ∃ x ∈ e.2, prog[x.idx]? = none)) := by
      rintro (h | ⟨h, e, he, hp⟩ | ⟨h, e, he, hp⟩)
      · exact Or.inl h
      · exact Or.inr (Or.inl ⟨h, e, List.mem_cons_of_mem _ he, hp⟩)
      · exact Or.inr (Or.inr ⟨h, e, List.mem_cons_of_mem _ he, hp⟩)
    unfold labelAll at h
    by_cases he : l.isEmpty = true
    · simp only [he, if_true] at h
      cases hrec : labelAll units prog qs old rest with
      | error f' => simp only [hrec] at h; cases h; exact lift (ih hrec)
      | ok r' => simp only [hrec] at h; cases h
    · simp only [he] at h
      have hne : l ≠ [] := fun e => he (List.isEmpty_iff.2 e)
      cases hl : lookupUnit units n with
      | none =>
        simp only [hl] at h; cases h
        exact Or.inr (Or.inl ⟨rfl, (n, l), List.mem_cons_self, hne, hl⟩)
      | some unit =>
        simp only [hl] at h
        cases hll : labelList prog qs unit (old.get n) l with
        | error f' =>
          simp only [hll] at h; cases h
          rcases labelList_error hll with e | ⟨e, x, hx, hp⟩
          · exact Or.inl e
          · exact Or.inr (Or.inr ⟨e, (n, l), List.mem_cons_self, x, hx, hp⟩)
        | ok rl =>
          simp only [hll] at h
          cases hrec : labelAll units prog qs old rest with
          | error f' => simp only [hrec] at h; cases h; exact lift (ih hrec)
          | ok r' => simp only [hrec] at h; cases h

theorem applyClears_error {qs : Queues N} {cs : List (N × Nat)} {f : Fault}
    (h : applyClears qs cs = .error f) : f = .badDequeue := by
  induction cs generalizing qs with
  | nil => simp [applyClears] at h
  | cons c cs ih =>
    obtain ⟨r, i⟩ := c
    unfold applyClears at h
    split at h
    · cases h; rfl
    · exact ih h

variable [LT N] [DecidableRel (α := N) (· < ·)]

/-- the faults a cycle can raise, with the witness for `noUnit` / `badIndex` in the record produced by the fill phase -/
theorem runCycle_error_cases {p : Proc N} {prog : List (Instr N)} {s : SimState N} {f : Fault}
    (h : runCycle p prog s = .error f) :
    f = .queueEmpty ∨ f = .badDequeue ∨
    (f = .noUnit ∧ ∃ e ∈ AMap.toList (fillCycle p prog s.util s.entered).1, e.2 ≠ [] ∧ lookupUnit p.allUnits e.1 = none) ∨
    (f = .badIndex ∧ ∃ e ∈ AMap.toList (fillCycle p prog s.util s.entered).1, ∃ x ∈ e.2, prog[x.idx]? = none) := by
  unfold runCycle at h
  simp only at h
  cases hl : labelAll p.allUnits prog s.queues s.util (fillCycle p prog s.util s.entered).1 with
  | error f' =>
    simp only [hl] at h; cases h
    rcases labelAll_error hl with e | e | e
    · exact Or.inl e
    · exact Or.inr (Or.inr (Or.inl e))
    · exact Or.inr (Or.inr (Or.inr e))
  | ok lab =>
    simp only [hl] at h
    cases hc : applyClears s.queues lab.2 with
    | error f' => simp only [hc] at h; cases h; exact Or.inr (Or.inl (applyClears_error hc))
    | ok qs =>
      simp only [hc] at h
      split at h <;> cases h

theorem runCycle_error_ne_fuel {p : Proc N} {prog : List (Instr N)} {s : SimState N} {f : Fault}
    (h : runCycle p prog s = .error f) : f ≠ .fuel := by
  rcases runCycle_error_cases h with e | e | ⟨e, _⟩ | ⟨e, _⟩ <;> rw [e] <;> decide

/-- with `BaseInv` the fill phase produces a record whose non-empty keys are unit names and whose hosted indices are
program indices: `noUnit` and `badIndex` cannot be raised -/
theorem runCycle_no_noUnit_badIndex {p : Proc N} {prog : List (Instr N)} (hn : (p.allUnits.map (·.name)).Nodup)
    {s : SimState N} (hs : BaseInv p prog s) {f : Fault} (h : runCycle p prog s = .error f) :
    f = .queueEmpty ∨ f = .badDequeue := by
  have hrow := hs.row.after_fillCycle hn prog
  have hle := fillCycle_entered_le p prog s.util s.entered hs.entered_le
  rcases runCycle_error_cases h with e | e | ⟨_, e, he, hne, hl⟩ | ⟨_, e, he, x, hx, hp⟩
  · exact Or.inl e
  · exact Or.inr e
  · exfalso
    obtain ⟨n, l⟩ := e
    have hg := Util.get_of_mem hrow.keys_nodup he
    have := hrow.names n (by rw [hg]; exact hne)
    exact (lookupUnit_eq_none_iff.1 hl) this
  · exfalso
    obtain ⟨n, l⟩ := e
    have hg := Util.get_of_mem hrow.keys_nodup he
    have hlt := hrow.idx_lt n x (by rw [hg]; exact hx)
    rw [List.getElem?_eq_none_iff] at hp
    omega

/-! ### `simLoop` -/

/-- every step consumes one unit of fuel and records at most one row; the stall is detected in a step of its own -/
theorem simLoop_length (p : Proc N) (prog : List (Instr N)) :
    ∀ fuel (s : SimState N),
      (∀ tbl, simLoop p prog fuel s = .done tbl → tbl.length ≤ s.table.length + fuel) ∧
      (∀ tbl, simLoop p prog fuel s = .stall tbl → tbl.length + 1 ≤ s.table.length + fuel) := by
  intro fuel
  induction fuel with
  | zero =>
    intro s
    unfold simLoop
    cases hf : s.finished prog with
    | true =>
      refine ⟨fun tbl h => ?_, fun tbl h => ?_⟩
      · simp only [if_true] at h; injection h with h; subst h; simp
      · simp at h
    | false => exact ⟨fun tbl h => by simp at h, fun tbl h => by simp at h⟩
  | succ fuel ih =>
    intro s
    unfold simLoop
    cases hf : s.finished prog with
    | true =>
      refine ⟨fun tbl h => ?_, fun tbl h => ?_⟩
      · simp only [if_true] at h; injection h with h; subst h; simp
      · simp at h
    | false =>
      simp only [Bool.false_eq_true, if_false]
      cases hr : runCycle p prog s with
      | error f => exact ⟨fun tbl h => by simp at h, fun tbl h => by simp at h⟩
      | ok o =>
        cases o with
        | none =>
          refine ⟨fun tbl h => by simp at h, fun tbl h => ?_⟩
          simp only at h; injection h with h; subst h; simp
        | some s' =>
          obtain ⟨lab, qs, _, _, _, e⟩ := runCycle_eq_some hr
          have hlen : s'.table.length = s.table.length + 1 := by rw [e]; simp
          have := ih s'
          simp only
          refine ⟨fun tbl h => ?_, fun tbl h => ?_⟩
          · have := this.1 tbl h; omega
          · have := this.2 tbl h; omega

/-- a fault of `simLoop` is `fuel`, or the fault of a cycle run from a state satisfying every invariant -/
theorem simLoop_fault {p : Proc N} {prog : List (Instr N)} (Inv : SimState N → Prop)
    (hstep : ∀ s s', Inv s → runCycle p prog s = .ok (some s') → Inv s') :
    ∀ fuel s, Inv s → ∀ f, simLoop p prog fuel s = .fault f →
      f = .fuel ∨ ∃ s', Inv s' ∧ runCycle p prog s' = .error f := by
  intro fuel
  induction fuel with
  | zero =>
    intro s _ f h
    unfold simLoop at h
    split at h
    · cases h
    · injection h with h; exact Or.inl h.symm
  | succ fuel ih =>
    intro s hs f h
    unfold simLoop at h
    split at h
    · cases h
    · cases hr : runCycle p prog s with
      | error f' =>
        simp only [hr] at h; injection h with h; subst h
        exact Or.inr ⟨s, hs, hr⟩
      | ok o =>
        cases o with
        | none => simp only [hr] at h; cases h
        | some s' =>
          simp only [hr] at h
          exact ih s' (hstep s s' hs hr) f h

/-! ## 2. A position function that increases along every connection -/

section pos
omit [LT N] [DecidableRel (α := N) (· < ·)]

/-- position of a unit: destinations are processed sink-first, so "number of destinations not before it" increases
from every predecessor to its successor; units that are no destination (pure input ports) get `0` -/
def upos (p : Proc N) (n : N) : Nat :=
  match destPos p n with
  | some k => p.dests.length - k
  | none => 0

theorem destPos_lt {p : Proc N} {n : N} {k : Nat} (h : destPos p n = some k) : k < p.dests.length := by
  unfold destPos at h
  obtain ⟨hlt, _⟩ := List.findIdx?_eq_some_iff_getElem.1 h
  exact hlt

theorem upos_le (p : Proc N) (n : N) : upos p n ≤ p.dests.length := by
  unfold upos; split <;> omega

/-- **the position strictly increases along every connection** -/
theorem upos_lt_of_pred {p : Proc N} (h : orderOK p = true) {d : FuncU N} (hd : d ∈ p.dests) {q : N}
    (hq : q ∈ d.preds) : upos p q < upos p d.model.name := by
  obtain ⟨kd, hkd⟩ := destPos_isSome_of_mem hd
  have hlt := destPos_lt hkd
  have hpred := (orderOK_pred h hd hq).2.2
  unfold upos
  rw [hkd]
  cases hkq : destPos p q with
  | none => simp only; omega
  | some kq =>
    obtain ⟨kd', hkd', hlt'⟩ := hpred kq hkq
    rw [hkd] at hkd'; cases hkd'
    have := destPos_lt hkq
    simp only; omega

omit [DecidableEq N] in
theorem allUnits_length (p : Proc N) : p.allUnits.length = p.inBoundary.length + p.dests.length := by
  simp only [Proc.allUnits, Proc.inBoundary, Proc.dests, List.length_append, List.length_map]; omega

/-- if the processor has an input port at all, positions stay below the number of units -/
theorem upos_lt_units {p : Proc N} (h : p.inBoundary ≠ []) (n : N) : upos p n < p.allUnits.length := by
  have h1 := upos_le p n
  have h2 : 0 < p.inBoundary.length := List.length_pos_iff.2 h
  rw [allUnits_length]; omega

end pos

/-! ## 3. Where the instructions of the new record come from -/

section origin

/-- Origin of an instruction `x` found in unit `n` during the fill phase of a cycle started from record `old` with
`e` issued instructions: it stayed (same entry), it moved (possibly in several hops) from a unit of smaller position
where it was not data-stalled, or it was just issued. Moved and issued instructions carry the provisional label `U`. -/
def Origin (p : Proc N) (old : Util N) (e : Nat) (n : N) (x : HI) : Prop :=
  x ∈ old.get n ∨
  (x.st = .U ∧ ∃ m y, y ∈ old.get m ∧ y.idx = x.idx ∧ y.st ≠ .D ∧ upos p m < upos p n) ∨
  (x.st = .U ∧ e ≤ x.idx)

theorem fillCycle_origin {p : Proc N} (hord : orderOK p = true) (prog : List (Instr N)) (old : Util N) (e : Nat) :
    ∀ n x, x ∈ (fillCycle p prog old e).1.get n → Origin p old e n x := by
  obtain ⟨_, _, h⟩ := fillCycle_induction p prog
    (fun u _ e' => e ≤ e' ∧ ∀ n x, x ∈ u.get n → Origin p old e n x) old e
    ⟨Nat.le_refl _, fun n x hx => Or.inl ((flushOutputs_get_sublist _ old n).subset hx)⟩
    (by
      intro d hd u mem ⟨hle, hu⟩
      refine ⟨hle, ?_⟩
      intro n x hx
      have hs := (fillUnit_get_sublist prog d u mem n).subset hx
      by_cases hdn : d.model.name = n
      · rw [if_pos hdn, List.mem_append] at hs
        rcases hs with hs | hs
        · exact hu n x hs
        · obtain ⟨c, hc, rfl⟩ := List.mem_map.1 hs
          obtain ⟨hpred, z, hz, hv, hzi⟩ := mem_unitTaken hc
          have hpos := upos_lt_of_pred hord hd hpred
          rw [hdn] at hpos
          have hzD : z.st ≠ .D := by
            intro e0
            simp [validCand, e0] at hv
          rcases hu c.1 z hz with h1 | ⟨_, m, y, hy, hyi, hyD, hlt⟩ | ⟨_, h3⟩
          · exact Or.inr (Or.inl ⟨rfl, c.1, z, h1, hzi, hzD, hpos⟩)
          · exact Or.inr (Or.inl ⟨rfl, m, y, hy, hyi.trans hzi, hyD, Nat.lt_trans hlt hpos⟩)
          · exact Or.inr (Or.inr ⟨rfl, by rw [← hzi]; exact h3⟩)
      · rw [if_neg hdn] at hs; exact hu n x hs)
    (by
      intro u mem e' ins port ⟨hle, hu⟩ _ _ _
      refine ⟨by omega, ?_⟩
      intro n x hx
      rw [Util.get_set] at hx
      by_cases hpn : port.name = n
      · rw [if_pos hpn, List.mem_append] at hx
        rcases hx with hx | hx
        · exact hu n x (hpn ▸ hx)
        · simp only [List.mem_singleton] at hx; subst hx
          exact Or.inr (Or.inr ⟨rfl, hle⟩)
      · rw [if_neg hpn] at hx; exact hu n x hx)
  exact h

end origin

end Term
end ProcSim
