import ProcSim.Lemmas.SimCore
import ProcSim.Props.C17
/-!
# Termination of `simulate` and the meaning of a stall (C08)

1. Which `Fault`s the steps of a cycle can raise (`runCycle_error_cases`, `runCycle_no_noUnit_badIndex`), and where a
   fault / a diagram of `simLoop` comes from (`simLoop_fault`, `simLoop_length`).
2. A position function on unit names that strictly increases along every connection (`upos`, `upos_lt_of_pred`).
3. Where the instructions of the record produced by the fill phase come from (`Origin`, `fillCycle_origin`).
4. The rank argument: `rank`, `phi`; per-instruction case analysis of a cycle `CycleCtx` (`rank_new`, `rank_mono`,
   `perm_of_rank_eq`, `phi_lt`), the bound `phi_le`.
5. `TermInv`, `cycleCtx_of_labelAll`, `phi_lt_of_productive`, `simLoop_no_fuel`, `simulate_no_fuel`,
   `simulate_fault_cases`.
6. Tracing the fill phase (`NonStay`, `Bad`, `fillDests_trace`, `issueLoop_trace`): either nothing happened or an
   entry is there that did not simply stay.
7. Frozen records are exactly the fixed points of the cycle (`FrozenRec`, `fixed_frozen`, `frozen_fixed`).
8. Reachable states and the prefixes of a diagram (`Reach`, `Reach.prefix`, `Appears`, `prefix_entered`, `prefix_util`).
9. Reading `Spec.frozen` on a diagram (`firstCycle_le_iff`, `issuedBy_eq`, `frozen_core_iff`, `frozen_prefix_iff`,
   `DExact_of_C02`, `FrozenDClause`, `stall_frozen`, `not_frozen_before`).

All names live in `ProcSim.Term`. Imports `Props/C17.lean` for `Util_beq_iff_multiset` (the stall test is per-unit
multiset equality).
-/
namespace ProcSim
namespace Term

attribute [local implicit_reducible] AMap

open Spec

variable {N : Type} [DecidableEq N]

/-! ## 1. Faults -/

theorem canAll_error {qs : Queues N} {wr : Bool} {i : Nat} {rs : List N} {f : Fault}
    (h : canAll qs wr i rs = .error f) : f = .queueEmpty := by
  induction rs with
  | nil => simp [canAll] at h
  | cons r rs ih =>
    unfold canAll at h
    split at h
    · cases h; rfl
    · cases h
    · exact ih h

theorem regsAvail_error {qs : Queues N} {unit : UnitM N} {i : Nat} {ins : Instr N} {f : Fault}
    (h : regsAvail qs unit i ins = .error f) : f = .queueEmpty := by
  unfold regsAvail at h
  split at h
  · next f' hf =>
    cases h
    split at hf
    · exact canAll_error hf
    · cases hf
  · cases h
  · split at h
    · next f' hf =>
      cases h
      split at hf
      · exact canAll_error hf
      · cases hf
    · cases h
    · cases h

/-- `labelList` fails only with `queueEmpty`, or with `badIndex` at a hosted index outside the program -/
theorem labelList_error {prog : List (Instr N)} {qs : Queues N} {unit : UnitM N} {old l : List HI} {f : Fault}
    (h : labelList prog qs unit old l = .error f) :
    f = .queueEmpty ∨ (f = .badIndex ∧ ∃ x ∈ l, prog[x.idx]? = none) := by
  induction l generalizing f with
  | nil => simp [labelList] at h
  | cons x xs ih =>
    have lift : (f = .queueEmpty ∨ (f = .badIndex ∧ ∃ y ∈ xs, prog[y.idx]? = none)) →
        (f = .queueEmpty ∨ (f = .badIndex ∧ ∃ y ∈ x :: xs, prog[y.idx]? = none)) := by
      rintro (h | ⟨h, y, hy, hp⟩)
      · exact Or.inl h
      · exact Or.inr ⟨h, y, List.mem_cons_of_mem _ hy, hp⟩
    cases hrec : labelList prog qs unit old xs with
    | error f' =>
      have ih' := ih hrec
      unfold labelList at h
      simp only [hrec] at h
      split at h
      · cases h; exact lift ih'
      · split at h
        · cases h; exact Or.inr ⟨rfl, x, List.mem_cons_self, by assumption⟩
        · split at h
          · next f'' hr => cases h; exact Or.inl (regsAvail_error hr)
          · cases h; exact lift ih'
          · cases h; exact lift ih'
    | ok r' =>
      unfold labelList at h
      simp only [hrec] at h
      split at h
      · cases h
      · split at h
        · cases h; exact Or.inr ⟨rfl, x, List.mem_cons_self, by assumption⟩
        · split at h
          · next f'' hr => cases h; exact Or.inl (regsAvail_error hr)
          · cases h
          · cases h

/-- `labelAll` fails only with `queueEmpty`, with `noUnit` at a non-empty entry whose key is no unit name, or with
`badIndex` at a hosted index outside the program -/
theorem labelAll_error {units : List (UnitM N)} {prog : List (Instr N)} {qs : Queues N} {old u : Util N} {f : Fault}
    (h : labelAll units prog qs old u = .error f) :
    f = .queueEmpty ∨
    (f = .noUnit ∧ ∃ e ∈ AMap.toList u, e.2 ≠ [] ∧ lookupUnit units e.1 = none) ∨
    (f = .badIndex ∧ ∃ e ∈ AMap.toList u, ∃ x ∈ e.2, prog[x.idx]? = none) := by
  induction u generalizing f with
  | nil => rw [labelAll_nil] at h; cases h
  | cons e rest ih =>
    obtain ⟨n, l⟩ := e
    have lift : (f = .queueEmpty ∨
        (f = .noUnit ∧ ∃ e ∈ AMap.toList rest, e.2 ≠ [] ∧ lookupUnit units e.1 = none) ∨
        (f = .badIndex ∧ ∃ e ∈ AMap.toList rest, ∃ x ∈ e.2, prog[x.idx]? = none)) →
        (f = .queueEmpty ∨
        (f = .noUnit ∧ ∃ e ∈ AMap.toList ((n, l) :: rest : List (N × List HI)), e.2 ≠ [] ∧ lookupUnit units e.1 = none) ∨
        (f = .badIndex ∧ ∃ e ∈ AMap.toList ((n, l) :: rest : List (N × List HI)), ∃ x ∈ e.2, prog[x.idx]? = none)) := by
      rintro (h | ⟨h, e, he, hp⟩ | ⟨h, e, he, hp⟩)
      · exact Or.inl h
      · exact Or.inr (Or.inl ⟨h, e, List.mem_cons_of_mem _ he, hp⟩)
      · exact Or.inr (Or.inr ⟨h, e, List.mem_cons_of_mem _ he, hp⟩)
    unfold labelAll at h
    by_cases he : l.isEmpty = true
    · simp only [he, if_true] at h
      cases hrec : labelAll units prog qs old rest with
      | error f' => simp only [hrec] at h; cases h; exact lift (ih hrec)
      | ok r' => simp only [hrec] at h; cases h
    · simp only [he] at h
      have hne : l ≠ [] := fun e => he (List.isEmpty_iff.2 e)
      cases hl : lookupUnit units n with
      | none =>
        simp only [hl] at h; cases h
        exact Or.inr (Or.inl ⟨rfl, (n, l), List.mem_cons_self, hne, hl⟩)
      | some unit =>
        simp only [hl] at h
        cases hll : labelList prog qs unit (old.get n) l with
        | error f' =>
          simp only [hll] at h; cases h
          rcases labelList_error hll with e | ⟨e, x, hx, hp⟩
          · exact Or.inl e
          · exact Or.inr (Or.inr ⟨e, (n, l), List.mem_cons_self, x, hx, hp⟩)
        | ok rl =>
          simp only [hll] at h
          cases hrec : labelAll units prog qs old rest with
          | error f' => simp only [hrec] at h; cases h; exact lift (ih hrec)
          | ok r' => simp only [hrec] at h; cases h

theorem applyClears_error {qs : Queues N} {cs : List (N × Nat)} {f : Fault}
    (h : applyClears qs cs = .error f) : f = .badDequeue := by
  induction cs generalizing qs with
  | nil => simp [applyClears] at h
  | cons c cs ih =>
    obtain ⟨r, i⟩ := c
    unfold applyClears at h
    split at h
    · cases h; rfl
    · exact ih h

variable [LT N] [DecidableRel (α := N) (· < ·)]

/-- the faults a cycle can raise, with the witness for `noUnit` / `badIndex` in the record produced by the fill phase -/
theorem runCycle_error_cases {p : Proc N} {prog : List (Instr N)} {s : SimState N} {f : Fault}
    (h : runCycle p prog s = .error f) :
    f = .queueEmpty ∨ f = .badDequeue ∨
    (f = .noUnit ∧ ∃ e ∈ AMap.toList (fillCycle p prog s.util s.entered).1, e.2 ≠ [] ∧ lookupUnit p.allUnits e.1 = none) ∨
    (f = .badIndex ∧ ∃ e ∈ AMap.toList (fillCycle p prog s.util s.entered).1, ∃ x ∈ e.2, prog[x.idx]? = none) := by
  unfold runCycle at h
  simp only at h
  cases hl : labelAll p.allUnits prog s.queues s.util (fillCycle p prog s.util s.entered).1 with
  | error f' =>
    simp only [hl] at h; cases h
    rcases labelAll_error hl with e | e | e
    · exact Or.inl e
    · exact Or.inr (Or.inr (Or.inl e))
    · exact Or.inr (Or.inr (Or.inr e))
  | ok lab =>
    simp only [hl] at h
    cases hc : applyClears s.queues lab.2 with
    | error f' => simp only [hc] at h; cases h; exact Or.inr (Or.inl (applyClears_error hc))
    | ok qs =>
      simp only [hc] at h
      split at h <;> cases h

theorem runCycle_error_ne_fuel {p : Proc N} {prog : List (Instr N)} {s : SimState N} {f : Fault}
    (h : runCycle p prog s = .error f) : f ≠ .fuel := by
  rcases runCycle_error_cases h with e | e | ⟨e, _⟩ | ⟨e, _⟩ <;> rw [e] <;> decide

/-- with `BaseInv` the fill phase produces a record whose non-empty keys are unit names and whose hosted indices are
program indices: `noUnit` and `badIndex` cannot be raised -/
theorem runCycle_no_noUnit_badIndex {p : Proc N} {prog : List (Instr N)} (hn : (p.allUnits.map (·.name)).Nodup)
    {s : SimState N} (hs : BaseInv p prog s) {f : Fault} (h : runCycle p prog s = .error f) :
    f = .queueEmpty ∨ f = .badDequeue := by
  have hrow := hs.row.after_fillCycle hn prog
  have hle := fillCycle_entered_le p prog s.util s.entered hs.entered_le
  rcases runCycle_error_cases h with e | e | ⟨_, e, he, hne, hl⟩ | ⟨_, e, he, x, hx, hp⟩
  · exact Or.inl e
  · exact Or.inr e
  · exfalso
    obtain ⟨n, l⟩ := e
    have hg := Util.get_of_mem hrow.keys_nodup he
    have := hrow.names n (by rw [hg]; exact hne)
    exact (lookupUnit_eq_none_iff.1 hl) this
  · exfalso
    obtain ⟨n, l⟩ := e
    have hg := Util.get_of_mem hrow.keys_nodup he
    have hlt := hrow.idx_lt n x (by rw [hg]; exact hx)
    rw [List.getElem?_eq_none_iff] at hp
    omega

/-! ### `simLoop` -/

/-- every step consumes one unit of fuel and records at most one row; the stall is detected in a step of its own -/
theorem simLoop_length (p : Proc N) (prog : List (Instr N)) :
    ∀ fuel (s : SimState N),
      (∀ tbl, simLoop p prog fuel s = .done tbl → tbl.length ≤ s.table.length + fuel) ∧
      (∀ tbl, simLoop p prog fuel s = .stall tbl → tbl.length + 1 ≤ s.table.length + fuel) := by
  intro fuel
  induction fuel with
  | zero =>
    intro s
    unfold simLoop
    cases hf : s.finished prog with
    | true =>
      refine ⟨fun tbl h => ?_, fun tbl h => ?_⟩
      · simp only [if_true] at h; injection h with h; subst h; simp
      · simp at h
    | false => exact ⟨fun tbl h => by simp at h, fun tbl h => by simp at h⟩
  | succ fuel ih =>
    intro s
    unfold simLoop
    cases hf : s.finished prog with
    | true =>
      refine ⟨fun tbl h => ?_, fun tbl h => ?_⟩
      · simp only [if_true] at h; injection h with h; subst h; simp
      · simp at h
    | false =>
      simp only [Bool.false_eq_true, if_false]
      cases hr : runCycle p prog s with
      | error f => exact ⟨fun tbl h => by simp at h, fun tbl h => by simp at h⟩
      | ok o =>
        cases o with
        | none =>
          refine ⟨fun tbl h => by simp at h, fun tbl h => ?_⟩
          simp only at h; injection h with h; subst h; simp
        | some s' =>
          obtain ⟨lab, qs, _, _, _, e⟩ := runCycle_eq_some hr
          have hlen : s'.table.length = s.table.length + 1 := by rw [e]; simp
          have := ih s'
          simp only
          refine ⟨fun tbl h => ?_, fun tbl h => ?_⟩
          · have := this.1 tbl h; omega
          · have := this.2 tbl h; omega

/-- a fault of `simLoop` is `fuel`, or the fault of a cycle run from a state satisfying every invariant -/
theorem simLoop_fault {p : Proc N} {prog : List (Instr N)} (Inv : SimState N → Prop)
    (hstep : ∀ s s', Inv s → runCycle p prog s = .ok (some s') → Inv s') :
    ∀ fuel s, Inv s → ∀ f, simLoop p prog fuel s = .fault f →
      f = .fuel ∨ ∃ s', Inv s' ∧ runCycle p prog s' = .error f := by
  intro fuel
  induction fuel with
  | zero =>
    intro s _ f h
    unfold simLoop at h
    split at h
    · cases h
    · injection h with h; exact Or.inl h.symm
  | succ fuel ih =>
    intro s hs f h
    unfold simLoop at h
    split at h
    · cases h
    · cases hr : runCycle p prog s with
      | error f' =>
        simp only [hr] at h; injection h with h; subst h
        exact Or.inr ⟨s, hs, hr⟩
      | ok o =>
        cases o with
        | none => simp only [hr] at h; cases h
        | some s' =>
          simp only [hr] at h
          exact ih s' (hstep s s' hs hr) f h

/-! ## 2. A position function that increases along every connection -/

section pos
omit [LT N] [DecidableRel (α := N) (· < ·)]

/-- position of a unit: destinations are processed sink-first, so "number of destinations not before it" increases
from every predecessor to its successor; units that are no destination (pure input ports) get `0` -/
def upos (p : Proc N) (n : N) : Nat :=
  match destPos p n with
  | some k => p.dests.length - k
  | none => 0

theorem destPos_lt {p : Proc N} {n : N} {k : Nat} (h : destPos p n = some k) : k < p.dests.length := by
  unfold destPos at h
  obtain ⟨hlt, _⟩ := List.findIdx?_eq_some_iff_getElem.1 h
  exact hlt

theorem upos_le (p : Proc N) (n : N) : upos p n ≤ p.dests.length := by
  unfold upos; split <;> omega

/-- **the position strictly increases along every connection** -/
theorem upos_lt_of_pred {p : Proc N} (h : orderOK p = true) {d : FuncU N} (hd : d ∈ p.dests) {q : N}
    (hq : q ∈ d.preds) : upos p q < upos p d.model.name := by
  obtain ⟨kd, hkd⟩ := destPos_isSome_of_mem hd
  have hlt := destPos_lt hkd
  have hpred := (orderOK_pred h hd hq).2.2
  unfold upos
  rw [hkd]
  cases hkq : destPos p q with
  | none => simp only; omega
  | some kq =>
    obtain ⟨kd', hkd', hlt'⟩ := hpred kq hkq
    rw [hkd] at hkd'; cases hkd'
    have := destPos_lt hkq
    simp only; omega

omit [DecidableEq N] in
theorem allUnits_length (p : Proc N) : p.allUnits.length = p.inBoundary.length + p.dests.length := by
  simp only [Proc.allUnits, Proc.inBoundary, Proc.dests, List.length_append, List.length_map]; omega

/-- if the processor has an input port at all, positions stay below the number of units -/
theorem upos_lt_units {p : Proc N} (h : p.inBoundary ≠ []) (n : N) : upos p n < p.allUnits.length := by
  have h1 := upos_le p n
  have h2 : 0 < p.inBoundary.length := List.length_pos_iff.2 h
  rw [allUnits_length]; omega

end pos

/-! ## 3. Where the instructions of the new record come from -/

section origin

/-- Origin of an instruction `x` found in unit `n` during the fill phase of a cycle started from record `old` with
`e` issued instructions: it stayed (same entry), it moved (possibly in several hops) from a unit of smaller position
where it was not data-stalled, or it was just issued. Moved and issued instructions carry the provisional label `U`. -/
def Origin (p : Proc N) (old : Util N) (e : Nat) (n : N) (x : HI) : Prop :=
  x ∈ old.get n ∨
  (x.st = .U ∧ ∃ m y, y ∈ old.get m ∧ y.idx = x.idx ∧ y.st ≠ .D ∧ upos p m < upos p n) ∨
  (x.st = .U ∧ e ≤ x.idx)

theorem fillCycle_origin {p : Proc N} (hord : orderOK p = true) (prog : List (Instr N)) (old : Util N) (e : Nat) :
    ∀ n x, x ∈ (fillCycle p prog old e).1.get n → Origin p old e n x := by
  obtain ⟨_, _, h⟩ := fillCycle_induction p prog
    (fun u _ e' => e ≤ e' ∧ ∀ n x, x ∈ u.get n → Origin p old e n x) old e
    ⟨Nat.le_refl _, fun n x hx => Or.inl ((flushOutputs_get_sublist _ old n).subset hx)⟩
    (by
      intro d hd u mem ⟨hle, hu⟩
      refine ⟨hle, ?_⟩
      intro n x hx
      have hs := (fillUnit_get_sublist prog d u mem n).subset hx
      by_cases hdn : d.model.name = n
      · rw [if_pos hdn, List.mem_append] at hs
        rcases hs with hs | hs
        · exact hu n x hs
        · obtain ⟨c, hc, rfl⟩ := List.mem_map.1 hs
          obtain ⟨hpred, z, hz, hv, hzi⟩ := mem_unitTaken hc
          have hpos := upos_lt_of_pred hord hd hpred
          rw [hdn] at hpos
          have hzD : z.st ≠ .D := by
            intro e0
            simp [validCand, e0] at hv
          rcases hu c.1 z hz with h1 | ⟨_, m, y, hy, hyi, hyD, hlt⟩ | ⟨_, h3⟩
          · exact Or.inr (Or.inl ⟨rfl, c.1, z, h1, hzi, hzD, hpos⟩)
          · exact Or.inr (Or.inl ⟨rfl, m, y, hy, hyi.trans hzi, hyD, Nat.lt_trans hlt hpos⟩)
          · exact Or.inr (Or.inr ⟨rfl, by rw [← hzi]; exact h3⟩)
      · rw [if_neg hdn] at hs; exact hu n x hs)
    (by
      intro u mem e' ins port ⟨hle, hu⟩ _ _ _
      refine ⟨by omega, ?_⟩
      intro n x hx
      rw [Util.get_set] at hx
      by_cases hpn : port.name = n
      · rw [if_pos hpn, List.mem_append] at hx
        rcases hx with hx | hx
        · exact hu n x (hpn ▸ hx)
        · simp only [List.mem_singleton] at hx; subst hx
          exact Or.inr (Or.inr ⟨rfl, hle⟩)
      · rw [if_neg hpn] at hx; exact hu n x hx)
  exact h

end origin

/-! ## 4. The rank argument -/

section rank
omit [LT N] [DecidableRel (α := N) (· < ·)]

omit [DecidableEq N] in
theorem eq_of_idx_eq {l : List HI} (h : (l.map (·.idx)).Nodup) {a b : HI} (ha : a ∈ l) (hb : b ∈ l)
    (e : a.idx = b.idx) : a = b := by
  induction l with
  | nil => cases ha
  | cons c l ih =>
    simp only [List.map_cons, List.nodup_cons] at h
    rcases List.mem_cons.1 ha with rfl | ha' <;> rcases List.mem_cons.1 hb with rfl | hb'
    · rfl
    · exact absurd (List.mem_map.2 ⟨b, hb', e.symm⟩) h.1
    · exact absurd (List.mem_map.2 ⟨a, ha', e⟩) h.1
    · exact ih h.2 ha' hb'

omit [DecidableEq N] in
theorem nodup_of_idx_nodup {l : List HI} (h : (l.map (·.idx)).Nodup) : l.Nodup := by
  induction l with
  | nil => exact List.nodup_nil
  | cons c l ih =>
    simp only [List.map_cons, List.nodup_cons] at h
    exact List.nodup_cons.2 ⟨fun hc => h.1 (List.mem_map.2 ⟨c, hc, rfl⟩), ih h.2⟩

omit [DecidableEq N] in
/-- in a list without repeated program index, "was loaded" reads the label of the entry itself -/
theorem wasLoaded_of_mem {l : List HI} (h : (l.map (·.idx)).Nodup) {x : HI} (hx : x ∈ l) :
    wasLoaded l x.idx = (x.st != .D) := by
  unfold wasLoaded
  cases hd : (x.st != .D) with
  | true => exact List.any_eq_true.2 ⟨x, hx, by simp [hd]⟩
  | false =>
    rw [List.any_eq_false]
    intro o ho
    by_cases e : o.idx = x.idx
    · have := eq_of_idx_eq h ho hx e
      subst this
      simp [hd]
    · simp [e]

/-- the unit hosting program index `i` in record `u`, with the label (search in the order of `names`) -/
def findHost (names : List N) (u : Util N) (i : Nat) : Option (N × Stall) :=
  names.findSome? (fun n => ((u.get n).find? (fun x => x.idx == i)).map (fun x => (n, x.st)))

theorem findHost_some {names : List N} {u : Util N} {i : Nat} {n : N} {l : Stall}
    (h : findHost names u i = some (n, l)) : n ∈ names ∧ (⟨i, l⟩ : HI) ∈ u.get n := by
  obtain ⟨a, ha, hf⟩ := List.exists_of_findSome?_eq_some h
  rw [Option.map_eq_some_iff] at hf
  obtain ⟨x, hx, e⟩ := hf
  cases e
  have h1 := List.find?_some hx
  have h2 := List.mem_of_find?_eq_some hx
  have : x.idx = i := by simpa using h1
  subst this
  exact ⟨ha, h2⟩

theorem findHost_none {names : List N} {u : Util N} {i : Nat} (h : findHost names u i = none) :
    ∀ n ∈ names, ∀ x ∈ u.get n, x.idx ≠ i := by
  intro n hn x hx e
  have := List.findSome?_eq_none_iff.1 h n hn
  rw [Option.map_eq_none_iff, List.find?_eq_none] at this
  exact this x hx (by simp [e])

theorem findHost_of_mem {names : List N} {u : Util N} (hnd : RowND u) {n : N} (hn : n ∈ names) {x : HI}
    (hx : x ∈ u.get n) : findHost names u x.idx = some (n, x.st) := by
  cases h : findHost names u x.idx with
  | none => exact absurd rfl (findHost_none h n hn x hx)
  | some r =>
    obtain ⟨n', l'⟩ := r
    obtain ⟨_, h2⟩ := findHost_some h
    have : n = n' := hnd.unique_host n n' x.idx (List.mem_map.2 ⟨x, hx, rfl⟩) (List.mem_map.2 ⟨_, h2, rfl⟩)
    subst this
    have e := congrArg HI.st (eq_of_idx_eq (hnd.nodup_unit n) hx h2 rfl)
    simp only at e
    rw [e]

def labRank : Stall → Nat
  | .D => 1 | .U => 2 | .S => 3

theorem labRank_pos (l : Stall) : 1 ≤ labRank l := by cases l <;> simp [labRank]
theorem labRank_le (l : Stall) : labRank l ≤ 3 := by cases l <;> simp [labRank]
theorem labRank_inj {a b : Stall} (h : labRank a = labRank b) : a = b := by
  cases a <;> cases b <;> simp [labRank] at h <;> rfl

/-- rank of a retired instruction -/
def retRank (p : Proc N) : Nat := 3 * p.allUnits.length + 1

/-- rank of program index `i` in a state with record `u` and `e` issued instructions: `0` before it is issued,
`3·pos(unit) + 1/2/3` while hosted with label `D/U/S`, `3·|units| + 1` once retired -/
def rank (p : Proc N) (u : Util N) (e : Nat) (i : Nat) : Nat :=
  match findHost (p.allUnits.map (·.name)) u i with
  | some (n, l) => 3 * upos p n + labRank l
  | none => if i < e then retRank p else 0

theorem rank_of_mem {p : Proc N} {u : Util N} (e : Nat) (hnd : RowND u) {n : N}
    (hn : n ∈ p.allUnits.map (·.name)) {x : HI} (hx : x ∈ u.get n) :
    rank p u e x.idx = 3 * upos p n + labRank x.st := by
  unfold rank; rw [findHost_of_mem hnd hn hx]

theorem rank_of_not_hosted {p : Proc N} {u : Util N} {e i : Nat}
    (h : findHost (p.allUnits.map (·.name)) u i = none) : rank p u e i = if i < e then retRank p else 0 := by
  unfold rank; rw [h]

/-- What a cycle does, per hosted instruction of the new record `new` (`e'` issued) w.r.t. the previous record `old`
(`e` issued): it stayed in its unit (a `D` stays `D` or becomes `U`; `U`/`S` become `S`), it came from a unit of
smaller position where it was not `D`, or it was issued in this cycle. -/
structure CycleCtx (p : Proc N) (old : Util N) (e : Nat) (new : Util N) (e' : Nat) : Prop where
  rowOld : RowBase p e old
  ndOld : RowND old
  rowNew : RowBase p e' new
  ndNew : RowND new
  hle : e ≤ e'
  /-- a unit that hosts an instruction has a position below the number of units -/
  hpos : ∀ m y, y ∈ old.get m → upos p m < p.allUnits.length
  cases : ∀ n x', x' ∈ new.get n →
    (∃ x ∈ old.get n, x.idx = x'.idx ∧ (x.st = .D → x'.st ≠ .S) ∧ (x.st ≠ .D → x'.st = .S)) ∨
    (∃ m y, y ∈ old.get m ∧ y.idx = x'.idx ∧ y.st ≠ .D ∧ upos p m < upos p n) ∨
    e ≤ x'.idx

theorem CycleCtx.names_old {p : Proc N} {old new : Util N} {e e' : Nat} (C : CycleCtx p old e new e') {n : N}
    {x : HI} (hx : x ∈ old.get n) : n ∈ p.allUnits.map (·.name) :=
  C.rowOld.names n (fun e0 => by rw [e0] at hx; cases hx)

theorem CycleCtx.names_new {p : Proc N} {old new : Util N} {e e' : Nat} (C : CycleCtx p old e new e') {n : N}
    {x : HI} (hx : x ∈ new.get n) : n ∈ p.allUnits.map (·.name) :=
  C.rowNew.names n (fun e0 => by rw [e0] at hx; cases hx)

/-- a hosted instruction ranks below a retired one -/
theorem CycleCtx.rank_old_lt {p : Proc N} {old new : Util N} {e e' : Nat} (C : CycleCtx p old e new e') {m : N}
    {y : HI} (hy : y ∈ old.get m) : rank p old e y.idx < retRank p := by
  rw [rank_of_mem e C.ndOld (C.names_old hy) hy]
  have := C.hpos m y hy
  have := labRank_le y.st
  unfold retRank; omega

/-- how the rank of the instruction behind an entry `x'` of the new record compares with its old rank: strictly
larger, or the very same entry was in the same unit of the old record -/
theorem CycleCtx.rank_new {p : Proc N} {old new : Util N} {e e' : Nat} (C : CycleCtx p old e new e') {n : N}
    {x' : HI} (hx' : x' ∈ new.get n) :
    rank p old e x'.idx < rank p new e' x'.idx ∨
    (x' ∈ old.get n ∧ rank p old e x'.idx = rank p new e' x'.idx) := by
  have hnew := rank_of_mem e' C.ndNew (C.names_new hx') hx'
  rcases C.cases n x' hx' with ⟨x, hx, hi, hD, hND⟩ | ⟨m, y, hy, hi, _, hlt⟩ | hge
  · have hold := rank_of_mem e C.ndOld (C.names_old hx) hx
    rw [hi] at hold
    rw [hnew, hold]
    by_cases hst : x.st = x'.st
    · right
      have : x = x' := by
        obtain ⟨a, b⟩ := x; obtain ⟨a', b'⟩ := x'
        simp only at hi hst; rw [hi, hst]
      rw [← this]; exact ⟨hx, rfl⟩
    · left
      by_cases hd : x.st = .D
      · have h1 := hD hd
        rw [hd] at hst ⊢
        cases hs : x'.st <;> simp_all [labRank]
      · have h1 := hND hd
        rw [h1] at hst ⊢
        cases hs : x.st <;> simp_all [labRank]
  · left
    have hold := rank_of_mem e C.ndOld (C.names_old hy) hy
    rw [hi] at hold
    rw [hnew, hold]
    have := labRank_le y.st
    have := labRank_pos x'.st
    omega
  · left
    have hnone : findHost (p.allUnits.map (·.name)) old x'.idx = none := by
      cases h : findHost (p.allUnits.map (·.name)) old x'.idx with
      | none => rfl
      | some r =>
        obtain ⟨m, l⟩ := r
        have := C.rowOld.idx_lt m _ (findHost_some h).2
        simp only at this; omega
    rw [rank_of_not_hosted hnone, hnew, if_neg (by omega)]
    have := labRank_pos x'.st
    omega

/-- **the rank of an instruction never decreases** -/
theorem CycleCtx.rank_mono {p : Proc N} {old new : Util N} {e e' : Nat} (C : CycleCtx p old e new e') (i : Nat) :
    rank p old e i ≤ rank p new e' i := by
  cases hN : findHost (p.allUnits.map (·.name)) new i with
  | some r =>
    obtain ⟨n, l'⟩ := r
    have hx' := (findHost_some hN).2
    rcases C.rank_new hx' with h | ⟨_, h⟩
    · exact Nat.le_of_lt h
    · exact Nat.le_of_eq h
  | none =>
    rw [rank_of_not_hosted hN]
    cases hO : findHost (p.allUnits.map (·.name)) old i with
    | some r =>
      obtain ⟨m, l⟩ := r
      have hy := (findHost_some hO).2
      have h1 := C.rowOld.idx_lt m _ hy
      have h2 := C.rank_old_lt hy
      have := C.hle
      simp only at h1 h2
      rw [if_pos (by omega)]; omega
    | none =>
      rw [rank_of_not_hosted hO]
      have := C.hle
      split <;> split <;> omega

omit [DecidableEq N] in
theorem sum_map_le {l : List Nat} {f g : Nat → Nat} (h : ∀ i ∈ l, f i ≤ g i) : (l.map f).sum ≤ (l.map g).sum := by
  induction l with
  | nil => simp
  | cons a l ih =>
    have h1 := h a List.mem_cons_self
    have h2 := ih (fun i hi => h i (List.mem_cons_of_mem _ hi))
    simp only [List.map_cons, List.sum_cons]; omega

omit [DecidableEq N] in
theorem eq_of_sum_map_le {l : List Nat} {f g : Nat → Nat} (h : ∀ i ∈ l, f i ≤ g i)
    (hs : (l.map g).sum ≤ (l.map f).sum) : ∀ i ∈ l, f i = g i := by
  induction l with
  | nil => intro i hi; cases hi
  | cons a l ih =>
    have h1 := h a List.mem_cons_self
    have h2 := sum_map_le (fun i hi => h i (List.mem_cons_of_mem _ hi))
    simp only [List.map_cons, List.sum_cons] at hs
    intro i hi
    rcases List.mem_cons.1 hi with rfl | hi'
    · omega
    · exact ih (fun i hi => h i (List.mem_cons_of_mem _ hi)) (by omega) i hi'

omit [DecidableEq N] in
theorem sum_map_le_const {l : List Nat} {f : Nat → Nat} {c : Nat} (h : ∀ i ∈ l, f i ≤ c) :
    (l.map f).sum ≤ l.length * c := by
  induction l with
  | nil => simp
  | cons a l ih =>
    have h1 := h a List.mem_cons_self
    have h2 := ih (fun i hi => h i (List.mem_cons_of_mem _ hi))
    simp only [List.map_cons, List.sum_cons, List.length_cons, Nat.add_mul, Nat.one_mul]; omega

/-- the potential: sum of the ranks of all program indices -/
def phi (p : Proc N) (nprog : Nat) (u : Util N) (e : Nat) : Nat := ((List.range nprog).map (rank p u e)).sum

theorem CycleCtx.phi_mono {p : Proc N} {old new : Util N} {e e' : Nat} (C : CycleCtx p old e new e') (nprog : Nat) :
    phi p nprog old e ≤ phi p nprog new e' :=
  sum_map_le (fun i _ => C.rank_mono i)

/-- if no rank changed, the new record equals the old one as per-unit multisets -/
theorem CycleCtx.perm_of_rank_eq {p : Proc N} {old new : Util N} {e e' : Nat} (C : CycleCtx p old e new e')
    {nprog : Nat} (he' : e' ≤ nprog) (heq : ∀ i, i < nprog → rank p old e i = rank p new e' i) :
    ∀ n, (new.get n).Perm (old.get n) := by
  have step1 : ∀ n x', x' ∈ new.get n → x' ∈ old.get n := by
    intro n x' hx'
    have hlt := C.rowNew.idx_lt n x' hx'
    rcases C.rank_new hx' with h | ⟨h, _⟩
    · have := heq x'.idx (by omega); omega
    · exact h
  have step2 : ∀ m y, y ∈ old.get m → y ∈ new.get m := by
    intro m y hy
    have hlt := C.rowOld.idx_lt m y hy
    have hle := C.hle
    have hr := C.rank_old_lt hy
    have he := heq y.idx (by omega)
    cases hN : findHost (p.allUnits.map (·.name)) new y.idx with
    | none =>
      rw [rank_of_not_hosted hN, if_pos (by omega)] at he
      omega
    | some r =>
      obtain ⟨n, l'⟩ := r
      have hx' := (findHost_some hN).2
      have hold := step1 n _ hx'
      have : m = n := C.ndOld.unique_host m n y.idx (List.mem_map.2 ⟨y, hy, rfl⟩) (List.mem_map.2 ⟨_, hold, rfl⟩)
      subst this
      have := eq_of_idx_eq (C.ndOld.nodup_unit m) hy hold rfl
      rw [this]; exact hx'
  intro n
  rw [List.perm_ext_iff_of_nodup (nodup_of_idx_nodup (C.ndNew.nodup_unit n)) (nodup_of_idx_nodup (C.ndOld.nodup_unit n))]
  exact fun a => ⟨step1 n a, step2 n a⟩

/-- **a productive cycle strictly increases the potential** -/
theorem CycleCtx.phi_lt {p : Proc N} {old new : Util N} {e e' : Nat} (C : CycleCtx p old e new e')
    {nprog : Nat} (he' : e' ≤ nprog) (hb : Util.beq new old = false) : phi p nprog old e < phi p nprog new e' := by
  have hmono : ∀ i ∈ List.range nprog, rank p old e i ≤ rank p new e' i := fun i _ => C.rank_mono i
  by_cases hlt : phi p nprog old e < phi p nprog new e'
  · exact hlt
  · exfalso
    have heq := eq_of_sum_map_le hmono (by unfold phi at hlt; omega)
    have hperm := C.perm_of_rank_eq he' (fun i hi => heq i (List.mem_range.2 hi))
    rw [(Util_beq_iff_multiset C.rowNew.keys_nodup C.rowOld.keys_nodup).2 hperm] at hb
    cases hb

/-- the potential is at most `instructions × (3 × units + 1)` -/
theorem phi_le {p : Proc N} {u : Util N} {e : Nat}
    (hpos : ∀ m y, y ∈ u.get m → upos p m < p.allUnits.length) (nprog : Nat) :
    phi p nprog u e ≤ nprog * retRank p := by
  have : ∀ i ∈ List.range nprog, rank p u e i ≤ retRank p := by
    intro i _
    unfold rank
    cases h : findHost (p.allUnits.map (·.name)) u i with
    | some r =>
      obtain ⟨n, l⟩ := r
      have := hpos n _ (findHost_some h).2
      have := labRank_le l
      simp only; unfold retRank; omega
    | none => simp only; split <;> omega
  have := sum_map_le_const this
  simpa [phi] using this

end rank

/-! ## 5. The cycle context of a real cycle, the termination invariant, and the bound -/

section term

omit [LT N] [DecidableRel (α := N) (· < ·)] in
/-- the per-instruction case analysis for the relabelled record of a cycle -/
theorem labelled_cases {p : Proc N} {prog : List (Instr N)} {qs : Queues N} {old : Util N}
    (hnd : RowND old) {e : Nat} {mid : Util N} (hmid : ∀ n x, x ∈ mid.get n → Origin p old e n x)
    {lab : Util N × List (N × Nat)} (hlab : labelAll p.allUnits prog qs old mid = .ok lab) :
    ∀ n x', x' ∈ lab.1.get n →
      (∃ x ∈ old.get n, x.idx = x'.idx ∧ (x.st = .D → x'.st ≠ .S) ∧ (x.st ≠ .D → x'.st = .S)) ∨
      (∃ m y, y ∈ old.get m ∧ y.idx = x'.idx ∧ y.st ≠ .D ∧ upos p m < upos p n) ∨
      e ≤ x'.idx := by
  intro n x' hx'
  have hg := labelAll_get hlab n
  by_cases hne : mid.get n = []
  · rw [hg.1 hne] at hx'; cases hx'
  · obtain ⟨unit, _, hnew⟩ := hg.2 hne
    rw [hnew] at hx'
    obtain ⟨x, hx, rfl⟩ := List.mem_map.1 hx'
    rcases hmid n x hx with h1 | ⟨_, m, y, hy, hi, hD, hlt⟩ | ⟨_, h3⟩
    · left
      refine ⟨x, h1, rfl, ?_, ?_⟩
      · intro hd hS
        have := (labelOf_eq_S_iff prog qs unit (old.get n) x.idx).1 hS
        rw [wasLoaded_of_mem (hnd.nodup_unit n) h1, hd] at this
        simp at this
      · intro hd
        apply (labelOf_eq_S_iff prog qs unit (old.get n) x.idx).2
        rw [wasLoaded_of_mem (hnd.nodup_unit n) h1]
        simpa using hd
    · exact Or.inr (Or.inl ⟨m, y, hy, hi, hD, hlt⟩)
    · exact Or.inr (Or.inr h3)

/-- without input ports nothing is ever issued -/
theorem fillCycle_entered_of_no_inputs (p : Proc N) (prog : List (Instr N)) (old : Util N) (e : Nat) :
    p.inBoundary ≠ [] ∨ (fillCycle p prog old e).2 = e := by
  obtain ⟨_, h⟩ := fillCycle_induction p prog (fun _ _ e' => p.inBoundary ≠ [] ∨ e' = e) old e
    (Or.inr rfl) (fun _ _ _ _ h => h)
    (fun _ _ _ _ port _ _ hport _ => Or.inl (fun e0 => by rw [e0] at hport; cases hport))
  exact h

/-- the invariant of the termination proof: `CoreInv`, and "something was issued ⇒ there is an input port" -/
structure TermInv (p : Proc N) (prog : List (Instr N)) (s : SimState N) : Prop extends CoreInv p prog s where
  hin : 0 < s.entered → p.inBoundary ≠ []

omit [LT N] [DecidableRel (α := N) (· < ·)] in
theorem TermInv.init (p : Proc N) (prog : List (Instr N)) : TermInv p prog (initState prog) :=
  ⟨CoreInv.init p prog, fun h => by simp [initState] at h⟩

theorem TermInv.step {p : Proc N} {prog : List (Instr N)} (hwf : wfProc p = true) {s s' : SimState N}
    (h : TermInv p prog s) (hs : runCycle p prog s = .ok (some s')) : TermInv p prog s' := by
  refine ⟨h.toCoreInv.step_wf hwf hs, ?_⟩
  obtain ⟨lab, qs, _, _, _, rfl⟩ := runCycle_eq_some hs
  simp only
  intro hpos
  rcases fillCycle_entered_of_no_inputs p prog s.util s.entered with h1 | h1
  · exact h1
  · rw [h1] at hpos; exact h.hin hpos

omit [LT N] [DecidableRel (α := N) (· < ·)] in
theorem TermInv.hpos {p : Proc N} {prog : List (Instr N)} {s : SimState N} (h : TermInv p prog s) :
    ∀ m y, y ∈ s.util.get m → upos p m < p.allUnits.length := by
  intro m y hy
  have := h.row.idx_lt m y hy
  exact upos_lt_units (h.hin (by omega)) m

/-- the cycle context of the cycle run from a state satisfying the invariant (whatever the stall test says) -/
theorem cycleCtx_of_labelAll {p : Proc N} {prog : List (Instr N)} (hwf : wfProc p = true) {s : SimState N}
    (h : TermInv p prog s) {lab : Util N × List (N × Nat)}
    (hlab : labelAll p.allUnits prog s.queues s.util (fillCycle p prog s.util s.entered).1 = .ok lab) :
    CycleCtx p s.util s.entered lab.1 (fillCycle p prog s.util s.entered).2 := by
  have hn := wfProc_nodup_names hwf
  have hfill := h.row.after_fillCycle hn prog
  refine ⟨h.row, h.nd, ?_, ?_, fillCycle_entered_ge p prog _ _, h.hpos, ?_⟩
  · exact hfill.congr (by rw [labelAll_keys hlab]; exact hfill.keys_nodup) (labelAll_get_idx hlab)
  · exact (h.nd.after_fillCycle h.row hn (wfProc_preds_nodup hwf) (wfProc_self_not_pred hwf) prog).congr
      (labelAll_get_idx hlab)
  · exact labelled_cases h.nd (fillCycle_origin (wfProc_orderOK hwf) prog s.util s.entered) hlab

/-- potential of a state -/
def SimState.phi (p : Proc N) (prog : List (Instr N)) (s : SimState N) : Nat :=
  Term.phi p prog.length s.util s.entered

omit [LT N] [DecidableRel (α := N) (· < ·)] in
theorem TermInv.phi_le {p : Proc N} {prog : List (Instr N)} {s : SimState N} (h : TermInv p prog s) :
    SimState.phi p prog s ≤ prog.length * retRank p :=
  Term.phi_le h.hpos prog.length

/-- **a productive cycle strictly increases the potential** -/
theorem phi_lt_of_productive {p : Proc N} {prog : List (Instr N)} (hwf : wfProc p = true) {s s' : SimState N}
    (h : TermInv p prog s) (hs : runCycle p prog s = .ok (some s')) :
    SimState.phi p prog s < SimState.phi p prog s' := by
  obtain ⟨lab, qs, hlab, _, hb, rfl⟩ := runCycle_eq_some hs
  exact (cycleCtx_of_labelAll hwf h hlab).phi_lt (fillCycle_entered_le p prog _ _ h.entered_le) hb

/-- with enough fuel for the remaining potential (plus one for the stall-detecting cycle), `simLoop` does not run out
of fuel -/
theorem simLoop_no_fuel {p : Proc N} {prog : List (Instr N)} (hwf : wfProc p = true) :
    ∀ fuel s, TermInv p prog s → prog.length * retRank p + 1 ≤ SimState.phi p prog s + fuel →
      simLoop p prog fuel s ≠ .fault .fuel := by
  intro fuel
  induction fuel with
  | zero =>
    intro s hs hf
    have := hs.phi_le
    omega
  | succ fuel ih =>
    intro s hs hf
    unfold simLoop
    split
    · intro h; cases h
    · cases hr : runCycle p prog s with
      | error f =>
        simp only
        intro h; injection h with h
        exact runCycle_error_ne_fuel hr h
      | ok o =>
        cases o with
        | none => simp only; intro h; cases h
        | some s' =>
          simp only
          have := phi_lt_of_productive hwf hs hr
          exact ih s' (hs.step hwf hr) (by omega)

omit [DecidableEq N] [LT N] [DecidableRel (α := N) (· < ·)] in
theorem cycleBound_eq (p : Proc N) (prog : List (Instr N)) : cycleBound p prog = prog.length * retRank p + 1 := rfl

/-- **`simulate` never runs out of fuel** -/
theorem simulate_no_fuel {p : Proc N} (prog : List (Instr N)) (hwf : wfProc p = true) :
    simulate p prog ≠ .fault .fuel := by
  unfold simulate
  apply simLoop_no_fuel hwf _ _ (TermInv.init p prog)
  rw [cycleBound_eq]; omega

/-- a fault of `simulate` is `queueEmpty` or `badDequeue` -/
theorem simulate_fault_cases {p : Proc N} (prog : List (Instr N)) (hwf : wfProc p = true) {f : Fault}
    (h : simulate p prog = .fault f) : f = .queueEmpty ∨ f = .badDequeue := by
  have hn := wfProc_nodup_names hwf
  rcases simLoop_fault (p := p) (prog := prog) (BaseInv p prog) (fun _ _ hs hr => hs.step hn hr)
    (cycleBound p prog) (initState prog) (BaseInv.init p prog) f h with e | ⟨s', hs', hr⟩
  · rw [e] at h; exact absurd h (simulate_no_fuel prog hwf)
  · exact runCycle_no_noUnit_badIndex hn hs' hr

end term

/-! ## 6. Tracing the fill phase: either nothing happened, or some entry is there that did not stay -/

section trace
omit [LT N] [DecidableRel (α := N) (· < ·)]

/-- an entry that did not simply stay in its unit: it moved in (from a unit of smaller position) or was issued -/
def NonStay (p : Proc N) (old : Util N) (e : Nat) (n : N) (x : HI) : Prop :=
  (x.st = .U ∧ ∃ m y, y ∈ old.get m ∧ y.idx = x.idx ∧ y.st ≠ .D ∧ upos p m < upos p n) ∨
  (x.st = .U ∧ e ≤ x.idx)

/-- some entry of `u` did not simply stay -/
def Bad (p : Proc N) (old : Util N) (e : Nat) (u : Util N) : Prop := ∃ n x, x ∈ u.get n ∧ NonStay p old e n x

/-- a taken candidate is appended to the destination, as an entry that did not stay -/
theorem fillUnit_appended {p : Proc N} (hord : orderOK p = true) {prog : List (Instr N)} {old : Util N} {e : Nat}
    {d : FuncU N} (hd : d ∈ p.dests) {u : Util N} {mem : Bool}
    (hO : ∀ n x, x ∈ u.get n → Origin p old e n x) {c : N × Nat} (hc : c ∈ unitTaken prog d u mem) :
    (⟨c.2, .U⟩ : HI) ∈ (fillUnit prog d u mem).1.get d.model.name ∧ NonStay p old e d.model.name ⟨c.2, .U⟩ := by
  constructor
  · rw [fillUnit_get_self prog d u mem (orderOK_self_not_pred hord hd)]
    exact List.mem_append_right _ (List.mem_map.2 ⟨c, hc, rfl⟩)
  · obtain ⟨hpred, z, hz, hv, hzi⟩ := mem_unitTaken hc
    have hpos := upos_lt_of_pred hord hd hpred
    have hzD : z.st ≠ .D := by
      intro e0
      simp [validCand, e0] at hv
    rcases hO c.1 z hz with h1 | ⟨_, m, y, hy, hyi, hyD, hlt⟩ | ⟨_, h3⟩
    · exact Or.inl ⟨rfl, c.1, z, h1, hzi, hzD, hpos⟩
    · exact Or.inl ⟨rfl, m, y, hy, hyi.trans hzi, hyD, Nat.lt_trans hlt hpos⟩
    · exact Or.inr ⟨rfl, by rw [← hzi]; exact h3⟩

theorem fillUnit_origin {p : Proc N} (hord : orderOK p = true) {prog : List (Instr N)} {old : Util N} {e : Nat}
    {d : FuncU N} (hd : d ∈ p.dests) {u : Util N} {mem : Bool}
    (hO : ∀ n x, x ∈ u.get n → Origin p old e n x) :
    ∀ n x, x ∈ (fillUnit prog d u mem).1.get n → Origin p old e n x := by
  intro n x hx
  have hs := (fillUnit_get_sublist prog d u mem n).subset hx
  by_cases hdn : d.model.name = n
  · rw [if_pos hdn, List.mem_append] at hs
    rcases hs with hs | hs
    · exact hO n x hs
    · obtain ⟨c, hc, rfl⟩ := List.mem_map.1 hs
      rw [← hdn]
      exact Or.inr (fillUnit_appended hord hd hO hc).2
  · rw [if_neg hdn] at hs; exact hO n x hs

theorem fillUnit_bad {p : Proc N} (hord : orderOK p = true) {prog : List (Instr N)} {old : Util N} {e : Nat}
    {d : FuncU N} (hd : d ∈ p.dests) {u : Util N} {mem : Bool}
    (hO : ∀ n x, x ∈ u.get n → Origin p old e n x) (hb : Bad p old e u) : Bad p old e (fillUnit prog d u mem).1 := by
  obtain ⟨n, x, hx, hns⟩ := hb
  cases ht : (unitTaken prog d u mem).any (fun m => m.1 == n && m.2 == x.idx) with
  | true =>
    obtain ⟨c, hc, hcn⟩ := List.any_eq_true.1 ht
    simp only [Bool.and_eq_true, beq_iff_eq] at hcn
    have := fillUnit_appended hord hd hO hc
    exact ⟨d.model.name, _, this.1, this.2⟩
  | false =>
    refine ⟨n, x, ?_, hns⟩
    rw [fillUnit_get, List.mem_filter]
    refine ⟨?_, by simp [ht]⟩
    split
    · exact List.mem_append_left _ hx
    · exact hx

theorem fillUnit_get_of_taken_nil (prog : List (Instr N)) (d : FuncU N) (u : Util N) (mem : Bool)
    (h : unitTaken prog d u mem = []) (n : N) : (fillUnit prog d u mem).1.get n = u.get n := by
  rw [fillUnit_get, h]
  simp

theorem fillUnit_snd_of_taken_nil (prog : List (Instr N)) (d : FuncU N) (u : Util N) (mem : Bool)
    (h : unitTaken prog d u mem = []) : (fillUnit prog d u mem).2 = mem := by
  rw [fillUnit_snd, h]; simp

theorem unitTaken_congr (prog : List (Instr N)) (d : FuncU N) {u u' : Util N} (mem : Bool)
    (h : ∀ n, u.get n = u'.get n) : unitTaken prog d u mem = unitTaken prog d u' mem := by
  unfold unitTaken candidates candsOf
  simp only [h]

theorem fillDests_cons' (prog : List (Instr N)) (d : FuncU N) (ds : List (FuncU N)) (u : Util N) (mem : Bool) :
    fillDests prog (d :: ds) u mem = fillDests prog ds (fillUnit prog d u mem).1 (fillUnit prog d u mem).2 := rfl

/-- trace of the moves: origins are kept, a non-staying entry persists, and either there is one at the end or
nothing happened at all (no destination took anything, the memory flag is unchanged) -/
theorem fillDests_trace {p : Proc N} (hord : orderOK p = true) (prog : List (Instr N)) (old : Util N) (e : Nat) :
    ∀ (ds : List (FuncU N)), (∀ d ∈ ds, d ∈ p.dests) → ∀ u mem, (∀ n x, x ∈ u.get n → Origin p old e n x) →
      (∀ n x, x ∈ (fillDests prog ds u mem).1.get n → Origin p old e n x) ∧
      (Bad p old e u → Bad p old e (fillDests prog ds u mem).1) ∧
      (Bad p old e (fillDests prog ds u mem).1 ∨
        ((∀ n, (fillDests prog ds u mem).1.get n = u.get n) ∧ (fillDests prog ds u mem).2 = mem ∧
          ∀ d ∈ ds, unitTaken prog d u mem = [])) := by
  intro ds
  induction ds with
  | nil =>
    intro _ u mem hO
    exact ⟨hO, fun h => h, Or.inr ⟨fun _ => rfl, rfl, fun _ h => by cases h⟩⟩
  | cons d ds ih =>
    intro hds u mem hO
    have hd := hds d List.mem_cons_self
    have hO1 := fillUnit_origin (prog := prog) (mem := mem) hord hd hO
    obtain ⟨i1, i2, i3⟩ := ih (fun d' hd' => hds d' (List.mem_cons_of_mem _ hd')) _ (fillUnit prog d u mem).2 hO1
    rw [fillDests_cons']
    refine ⟨i1, fun hb => i2 (fillUnit_bad hord hd hO hb), ?_⟩
    by_cases ht : unitTaken prog d u mem = []
    · rcases i3 with hb | ⟨e1, e2, e3⟩
      · exact Or.inl hb
      · right
        have hg := fillUnit_get_of_taken_nil prog d u mem ht
        have hm := fillUnit_snd_of_taken_nil prog d u mem ht
        refine ⟨fun n => (e1 n).trans (hg n), e2.trans hm, ?_⟩
        intro d' hd'
        rcases List.mem_cons.1 hd' with rfl | hd''
        · exact ht
        · have h3 := e3 d' hd''
          rw [hm, unitTaken_congr prog d' mem hg] at h3
          exact h3
    · left
      obtain ⟨c, hc⟩ := List.exists_mem_of_ne_nil _ ht
      have := fillUnit_appended hord hd hO hc
      exact i2 ⟨d.model.name, _, this.1, this.2⟩

/-- trace of the issue loop: every entry persists, and either nothing was issued (then the first instruction offered
fits no port) or an issued entry is there at the end -/
theorem issueLoop_trace (p : Proc N) (old : Util N) (e : Nat) (ports : List (UnitM N)) (l : List (Instr N))
    (u : Util N) (mem : Bool) (e0 : Nat) (he : e ≤ e0) :
    (∀ n x, x ∈ u.get n → x ∈ (issueLoop ports l u mem e0).1.get n) ∧
    ((issueLoop ports l u mem e0 = (u, e0) ∧ ∀ ins rest, l = ins :: rest → tryPorts ins.cap e0 ports u mem = none) ∨
      Bad p old e (issueLoop ports l u mem e0).1) := by
  have pers : ∀ (l : List (Instr N)) (u : Util N) (mem : Bool) (e0 : Nat) n x, x ∈ u.get n →
      x ∈ (issueLoop ports l u mem e0).1.get n := by
    intro l u mem e0 n x hx
    obtain ⟨l', h1, _⟩ := issueLoop_get_prefix ports l u mem e0 n
    rw [h1]; exact List.mem_append_left _ hx
  refine ⟨pers l u mem e0, ?_⟩
  cases l with
  | nil => exact Or.inl ⟨rfl, fun _ _ h => by cases h⟩
  | cons ins rest =>
    cases ht : tryPorts ins.cap e0 ports u mem with
    | none =>
      left
      refine ⟨by simp [issueLoop, ht], ?_⟩
      intro ins' rest' h
      injection h with h1 _
      rw [← h1]; exact ht
    | some r =>
      right
      obtain ⟨pre, port, post, _, _, _, rfl⟩ := tryPorts_eq_some ht
      have hmem : (⟨e0, .U⟩ : HI) ∈ (u.set port.name (u.get port.name ++ [⟨e0, .U⟩])).get port.name := by
        rw [Util.get_set_eq]; simp
      have := pers rest _ (mem || decide (ins.cap ∈ port.acl)) (e0 + 1) port.name _ hmem
      refine ⟨port.name, ⟨e0, .U⟩, ?_, Or.inr ⟨rfl, he⟩⟩
      simpa [issueLoop, ht] using this

end trace

/-! ## 7. Frozen records are exactly the fixed points of the cycle -/

section frozen

/-- Semantic form of `Spec.frozen` for a record `old` with `e` instructions issued. The clause about data-stalled
instructions is the parameter `dOK`. -/
structure FrozenRec (p : Proc N) (prog : List (Instr N)) (old : Util N) (e : Nat) (dOK : UnitM N → HI → Prop) :
    Prop where
  /-- nobody is unstalled (an unstalled instruction becomes `S` or leaves) -/
  noU : ∀ u ∈ p.allUnits, ∀ h ∈ old.get u.name, h.st ≠ .U
  /-- a structurally stalled instruction is not at the output boundary and every successor supporting it is full -/
  sBlocked : ∀ u ∈ p.allUnits, ∀ h ∈ old.get u.name, h.st = .S →
    u.name ∉ p.outBoundary ∧
    ∀ v ∈ succsOf p u.name, supports prog h.idx v = true → v.width ≤ (old.get v.name).length
  dBlocked : ∀ u ∈ p.allUnits, ∀ h ∈ old.get u.name, h.st = .D → dOK u h
  /-- the next instruction does not exist or every input port supporting it is full -/
  noIssue : prog.length ≤ e ∨ ∀ u ∈ p.inBoundary, supports prog e u = true → u.width ≤ (old.get u.name).length

omit [LT N] [DecidableRel (α := N) (· < ·)] in
theorem mem_succsOf_iff {p : Proc N} {n : N} {v : UnitM N} :
    v ∈ succsOf p n ↔ ∃ d ∈ p.dests, n ∈ d.preds ∧ d.model = v := by
  simp only [succsOf, List.mem_map, List.mem_filter, decide_eq_true_eq]
  constructor
  · rintro ⟨d, ⟨hd, hp⟩, rfl⟩; exact ⟨d, hd, hp, rfl⟩
  · rintro ⟨d, hd, hp, rfl⟩; exact ⟨d, ⟨hd, hp⟩, rfl⟩

theorem fillCycle_unfold (p : Proc N) (prog : List (Instr N)) (old : Util N) (e : Nat) :
    fillCycle p prog old e =
      issueLoop (sortedInputs p) (prog.drop e)
        (fillDests prog p.dests (flushOutputs p.outBoundary old) false).1
        (fillDests prog p.dests (flushOutputs p.outBoundary old) false).2 e := rfl

/-- **stall ⇒ frozen.** If the cycle run from `s` reproduces the last record (stall error), that record is frozen:
nobody is unstalled, every `S` is blocked by full successors, every `D` is refused again by the register queues
(`labelOf … = D`), and the next instruction fits no input port. Memory can not be the reason for any refusal since
nothing entered anywhere in that cycle. -/
theorem fixed_frozen {p : Proc N} {prog : List (Instr N)} (hwf : wfProc p = true) {s : SimState N}
    (h : TermInv p prog s) (hr : runCycle p prog s = .ok none) :
    FrozenRec p prog s.util s.entered (fun u x => labelOf prog s.queues u (s.util.get u.name) x.idx = .D) := by
  obtain ⟨lab, qs, hlab, _, hb⟩ := runCycle_eq_none hr
  have C := cycleCtx_of_labelAll hwf h hlab
  have hperm := (Util_beq_iff_multiset C.rowNew.keys_nodup C.rowOld.keys_nodup).1 hb
  have hord := wfProc_orderOK hwf
  have hn := wfProc_nodup_names hwf
  have notBad : ¬ Bad p s.util s.entered (fillCycle p prog s.util s.entered).1 := by
    rintro ⟨n, x, hx, hns⟩
    have hi : x.idx ∈ (lab.1.get n).map (·.idx) := by
      rw [labelAll_get_idx hlab n]; exact List.mem_map.2 ⟨x, hx, rfl⟩
    obtain ⟨x', hx', hxi⟩ := List.mem_map.1 hi
    have hold : x' ∈ s.util.get n := (hperm n).mem_iff.1 hx'
    rcases hns with ⟨_, m, y, hy, hyi, _, hlt⟩ | ⟨_, hge⟩
    · have : m = n := h.nd.unique_host m n x.idx (List.mem_map.2 ⟨y, hy, hyi⟩) (List.mem_map.2 ⟨x', hold, hxi⟩)
      subst this; omega
    · have := h.row.idx_lt n x' hold; omega
  have hF0 : ∀ n x, x ∈ (flushOutputs p.outBoundary s.util).get n → Origin p s.util s.entered n x :=
    fun n x hx => Or.inl ((flushOutputs_get_sublist _ _ n).subset hx)
  obtain ⟨_, _, t3⟩ := fillDests_trace hord prog s.util s.entered p.dests (fun _ hd => hd) _ false hF0
  obtain ⟨_, i2⟩ := issueLoop_trace p s.util s.entered (sortedInputs p) (prog.drop s.entered)
    (fillDests prog p.dests (flushOutputs p.outBoundary s.util) false).1
    (fillDests prog p.dests (flushOutputs p.outBoundary s.util) false).2 s.entered (Nat.le_refl _)
  rw [← fillCycle_unfold] at i2
  obtain ⟨hiss, htry⟩ := i2.resolve_right notBad
  have e1 : (fillCycle p prog s.util s.entered).1 =
      (fillDests prog p.dests (flushOutputs p.outBoundary s.util) false).1 := congrArg Prod.fst hiss
  obtain ⟨g1, g2, g3⟩ := t3.resolve_left (by rw [← e1]; exact notBad)
  have hmidget : ∀ n, (fillCycle p prog s.util s.entered).1.get n = (flushOutputs p.outBoundary s.util).get n := by
    intro n; rw [e1]; exact g1 n
  have hflush : ∀ n, (flushOutputs p.outBoundary s.util).get n = s.util.get n := by
    intro n
    have l1 := labelAll_get_length hlab n
    have l2 := (hperm n).length_eq
    rw [hmidget n] at l1
    rw [flushOutputs_get] at l1 ⊢
    split
    · next hin =>
      rw [if_pos hin] at l1
      exact List.filter_eq_self.2 (List.length_filter_eq_length_iff.1 (by omega))
    · rfl
  refine ⟨?_, ?_, ?_, ?_⟩
  · intro u hu x hx hst
    have hx' : x ∈ lab.1.get u.name := (hperm u.name).mem_iff.2 hx
    rcases C.cases u.name x hx' with ⟨y, hy, hyi, _, hND⟩ | ⟨m, y, hy, hyi, _, hlt⟩ | hge
    · have := eq_of_idx_eq (h.nd.nodup_unit u.name) hy hx hyi
      subst this
      have := hND (by rw [hst]; decide)
      rw [hst] at this; cases this
    · have : m = u.name :=
        h.nd.unique_host m u.name x.idx (List.mem_map.2 ⟨y, hy, hyi⟩) (List.mem_map.2 ⟨x, hx, rfl⟩)
      subst this; omega
    · have := h.row.idx_lt u.name x hx; omega
  · intro u hu x hx hst
    constructor
    · intro hout
      have := hflush u.name
      rw [flushOutputs_get, if_pos hout] at this
      have := List.filter_eq_self.1 this x hx
      simp [hst] at this
    · intro v hv hsup
      obtain ⟨d, hd, hpred, rfl⟩ := mem_succsOf_iff.1 hv
      have ht := g3 d hd
      unfold unitTaken at ht
      have hcand : (u.name, x.idx) ∈ candidates prog d (flushOutputs p.outBoundary s.util) := by
        refine mem_candidates.2 ⟨hpred, x, by rw [hflush]; exact hx, ?_, rfl⟩
        unfold supports at hsup
        simp [validCand, hst, hsup]
      rcases fillTaken_stop prog d.model (candidates prog d (flushOutputs p.outBoundary s.util))
        ((flushOutputs p.outBoundary s.util).get d.model.name).length false with hs | hs
      · rw [ht, hflush] at hs
        simp only [List.length_nil, Nat.add_zero] at hs
        omega
      · rcases hs _ hcand with h1 | ⟨_, h2⟩
        · rw [ht] at h1; cases h1
        · rw [ht] at h2; simp at h2
  · intro u hu x hx hst
    have hne : (fillCycle p prog s.util s.entered).1.get u.name ≠ [] := by
      rw [hmidget, hflush]; exact List.ne_nil_of_mem hx
    obtain ⟨unit, hlu, hnew⟩ := (labelAll_get hlab u.name).2 hne
    have hu' : unit = u := by
      have := lookupUnit_of_mem hn hu
      rw [this] at hlu; exact (Option.some.inj hlu).symm
    subst hu'
    rw [hmidget, hflush] at hnew
    have hx' : (⟨x.idx, labelOf prog s.queues unit (s.util.get unit.name) x.idx⟩ : HI) ∈ lab.1.get unit.name := by
      rw [hnew]; exact List.mem_map.2 ⟨x, hx, rfl⟩
    have hold := (hperm unit.name).mem_iff.1 hx'
    have := congrArg HI.st (eq_of_idx_eq (h.nd.nodup_unit unit.name) hold hx rfl)
    simp only at this
    rw [this, hst]
  · by_cases hlt : prog.length ≤ s.entered
    · exact Or.inl hlt
    · right
      intro q hq hsup
      have hlt' : s.entered < prog.length := by omega
      have ht := htry _ _ (List.drop_eq_getElem_cons hlt')
      have hnu := tryPorts_eq_none_iff.1 ht q (mem_sortedInputs.2 hq)
      have hcap : prog[s.entered].cap ∈ q.caps := by
        simpa [supports, capIn, List.getElem?_eq_getElem hlt'] using hsup
      by_cases hw : ((fillDests prog p.dests (flushOutputs p.outBoundary s.util) false).1.get q.name).length = q.width
      · rw [g1, hflush] at hw; omega
      · exfalso
        exact hnu ⟨hcap, by rw [g2]; rfl, hw⟩

/-- **frozen ⇒ stall.** If the last record is frozen — the `D` clause in the form "the relabelled record does not show
the instruction unstalled" — the cycle reproduces it: the stall test succeeds. -/
theorem frozen_fixed {p : Proc N} {prog : List (Instr N)} (hwf : wfProc p = true) {s : SimState N}
    (h : TermInv p prog s) {lab : Util N × List (N × Nat)}
    (hlab : labelAll p.allUnits prog s.queues s.util (fillCycle p prog s.util s.entered).1 = .ok lab)
    (hf : FrozenRec p prog s.util s.entered (fun u x => ∀ l, (⟨x.idx, l⟩ : HI) ∈ lab.1.get u.name → l ≠ .U)) :
    Util.beq lab.1 s.util = true := by
  have C := cycleCtx_of_labelAll hwf h hlab
  have hn := wfProc_nodup_names hwf
  have unitOf : ∀ n x, x ∈ s.util.get n → ∃ u ∈ p.allUnits, u.name = n := by
    intro n x hx
    have := h.row.names n (List.ne_nil_of_mem hx)
    obtain ⟨u, hu, e⟩ := List.mem_map.1 this
    exact ⟨u, hu, e⟩
  have allD : ∀ n ∈ p.outBoundary, ∀ x ∈ s.util.get n, x.st = .D := by
    intro n hn' x hx
    obtain ⟨u, hu, rfl⟩ := unitOf n x hx
    cases hst : x.st with
    | U => exact absurd hst (hf.noU u hu x hx)
    | S => exact absurd hn' (hf.sBlocked u hu x hx hst).1
    | D => rfl
  have hflush : ∀ n, (flushOutputs p.outBoundary s.util).get n = s.util.get n := by
    intro n
    rw [flushOutputs_get]
    split
    · next hin =>
      apply List.filter_eq_self.2
      intro x hx
      simp [allD n hin x hx]
    · rfl
  have hmoves : (∀ n, (moveFlights p prog s.util).1.get n = s.util.get n) ∧ (moveFlights p prog s.util).2 = false := by
    refine moveFlights_induction p prog (fun u mem => (∀ n, u.get n = s.util.get n) ∧ mem = false) s.util
      ⟨hflush, rfl⟩ ?_
    intro d hd u mem ⟨hu, hm⟩
    have ht : unitTaken prog d u mem = [] := by
      unfold unitTaken
      by_cases hcs : candidates prog d u = []
      · rw [hcs]; rfl
      · obtain ⟨c, hc⟩ := List.exists_mem_of_ne_nil _ hcs
        obtain ⟨hpred, x, hx, hv, _⟩ := mem_candidates.1 hc
        rw [hu] at hx
        obtain ⟨uu, huu, hname⟩ := unitOf c.1 x hx
        rw [← hname] at hx hpred
        simp only [validCand, Bool.and_eq_true, bne_iff_ne, ne_eq] at hv
        have hS : x.st = .S := by
          cases hst : x.st with
          | U => exact absurd hst (hf.noU uu huu x hx)
          | S => rfl
          | D => exact absurd hst hv.1
        have hfull := (hf.sBlocked uu huu x hx hS).2 d.model (mem_succsOf_iff.2 ⟨d, hd, hpred, rfl⟩) hv.2
        have hw := h.row.width d.model (model_mem_allUnits_of_mem_dests hd)
        apply fillTaken_of_full
        rw [hu]; omega
    refine ⟨fun n => ?_, ?_⟩
    · rw [fillUnit_get_of_taken_nil prog d u mem ht]; exact hu n
    · rw [fillUnit_snd_of_taken_nil prog d u mem ht]; exact hm
  have hissue : fillCycle p prog s.util s.entered = ((moveFlights p prog s.util).1, s.entered) := by
    show issueLoop (sortedInputs p) (prog.drop s.entered) (moveFlights p prog s.util).1 (moveFlights p prog s.util).2
      s.entered = _
    cases hdrop : prog.drop s.entered with
    | nil => rfl
    | cons ins rest =>
      obtain ⟨hins, _⟩ := drop_eq_cons hdrop
      have hlt : s.entered < prog.length := (List.getElem?_eq_some_iff.1 hins).1
      have hnone : tryPorts ins.cap s.entered (sortedInputs p) (moveFlights p prog s.util).1
          (moveFlights p prog s.util).2 = none := by
        apply tryPorts_eq_none_iff.2
        intro q hq ⟨hcap, _, hw⟩
        have hq' := mem_sortedInputs.1 hq
        rcases hf.noIssue with hle | hfull
        · omega
        · have := hfull q hq' (by simp [supports, capIn, hins, hcap])
          have hw' := h.row.width q (mem_allUnits_of_mem_inBoundary hq')
          rw [hmoves.1] at hw; omega
      simp [issueLoop, hnone]
  have hmid : ∀ n, (fillCycle p prog s.util s.entered).1.get n = s.util.get n := by
    intro n; rw [hissue]; exact hmoves.1 n
  have hnew : ∀ n, lab.1.get n = s.util.get n := by
    intro n
    have hg := labelAll_get hlab n
    by_cases hne : (fillCycle p prog s.util s.entered).1.get n = []
    · rw [hg.1 hne, ← hmid n, hne]
    · obtain ⟨unit, hlu, hmap⟩ := hg.2 hne
      obtain ⟨hunit, hname⟩ := lookupUnit_some hlu
      subst hname
      rw [hmid] at hmap
      have hid : ∀ x ∈ s.util.get unit.name,
          (⟨x.idx, labelOf prog s.queues unit (s.util.get unit.name) x.idx⟩ : HI) = x := by
        intro x hx
        have hwl := wasLoaded_of_mem (h.nd.nodup_unit unit.name) hx
        cases hst : x.st with
        | U => exact absurd hst (hf.noU unit hunit x hx)
        | S =>
          have : labelOf prog s.queues unit (s.util.get unit.name) x.idx = .S := by
            apply (labelOf_eq_S_iff _ _ _ _ _).2
            rw [hwl, hst]; rfl
          rw [this, ← hst]
        | D =>
          have hmem : (⟨x.idx, labelOf prog s.queues unit (s.util.get unit.name) x.idx⟩ : HI) ∈ lab.1.get unit.name := by
            rw [hmap]; exact List.mem_map.2 ⟨x, hx, rfl⟩
          have hnU := hf.dBlocked unit hunit x hx hst _ hmem
          have hnS : labelOf prog s.queues unit (s.util.get unit.name) x.idx ≠ .S := by
            intro hS
            have := (labelOf_eq_S_iff _ _ _ _ _).1 hS
            rw [hwl, hst] at this
            cases this
          have : labelOf prog s.queues unit (s.util.get unit.name) x.idx = .D := by
            cases hl : labelOf prog s.queues unit (s.util.get unit.name) x.idx with
            | U => exact absurd hl hnU
            | S => exact absurd hl hnS
            | D => rfl
          rw [this, ← hst]
      rw [hmap]
      exact (List.map_congr_left hid).trans (List.map_id _)
  exact (Util_beq_iff_multiset C.rowNew.keys_nodup C.rowOld.keys_nodup).2 (fun n => by rw [hnew n])

end frozen

/-! ## 8. Reachable states and the prefixes of a diagram -/

section reach

omit [LT N] [DecidableRel (α := N) (· < ·)] in
/-- every instruction issued by the issue loop is hosted at its end -/
theorem issueLoop_hosts (ports : List (UnitM N)) (l : List (Instr N)) (u : Util N) (mem : Bool) (e0 : Nat) :
    ∀ i, e0 ≤ i → i < (issueLoop ports l u mem e0).2 →
      ∃ n, (⟨i, .U⟩ : HI) ∈ (issueLoop ports l u mem e0).1.get n := by
  induction l generalizing u mem e0 with
  | nil => intro i h1 h2; simp only [issueLoop] at h2; omega
  | cons ins rest ih =>
    intro i h1 h2
    unfold issueLoop at h2 ⊢
    cases ht : tryPorts ins.cap e0 ports u mem with
    | none => simp only [ht] at h2; omega
    | some r =>
      simp only [ht] at h2 ⊢
      obtain ⟨pre, port, post, _, _, _, rfl⟩ := tryPorts_eq_some ht
      by_cases hi : i = e0
      · subst hi
        obtain ⟨l', h1', _⟩ := issueLoop_get_prefix ports rest (u.set port.name (u.get port.name ++ [⟨i, .U⟩]))
          (mem || decide (ins.cap ∈ port.acl)) (i + 1) port.name
        refine ⟨port.name, ?_⟩
        rw [h1', Util.get_set_eq]; simp
      · exact ih _ _ (e0 + 1) i (by omega) h2

theorem fillCycle_hosts (p : Proc N) (prog : List (Instr N)) (old : Util N) (e : Nat) :
    ∀ i, e ≤ i → i < (fillCycle p prog old e).2 → ∃ n, (⟨i, .U⟩ : HI) ∈ (fillCycle p prog old e).1.get n := by
  rw [fillCycle_unfold]; exact issueLoop_hosts _ _ _ _ _

/-- states reachable from the initial state by productive cycles -/
inductive Reach (p : Proc N) (prog : List (Instr N)) : SimState N → Prop
  | init : Reach p prog (initState prog)
  | step {s s' : SimState N} : Reach p prog s → runCycle p prog s = .ok (some s') → Reach p prog s'

theorem Reach.termInv {p : Proc N} {prog : List (Instr N)} (hwf : wfProc p = true) {s : SimState N}
    (h : Reach p prog s) : TermInv p prog s := by
  induction h with
  | init => exact TermInv.init p prog
  | step _ hr ih => exact ih.step hwf hr

/-- every issued instruction appears in some recorded cycle -/
def Appears (s : SimState N) : Prop :=
  ∀ i, i < s.entered → ∃ r ∈ s.table, ∃ n, i ∈ (r.get n).map (·.idx)

theorem Reach.appears {p : Proc N} {prog : List (Instr N)} {s : SimState N} (h : Reach p prog s) : Appears s := by
  induction h with
  | init => intro i hi; simp [initState] at hi
  | @step s s' _ hr ih =>
    obtain ⟨lab, qs, hlab, _, _, rfl⟩ := runCycle_eq_some hr
    intro i hi
    simp only at hi ⊢
    by_cases hlt : i < s.entered
    · obtain ⟨r, hr', n, hn⟩ := ih i hlt
      exact ⟨r, List.mem_cons_of_mem _ hr', n, hn⟩
    · obtain ⟨n, hn⟩ := fillCycle_hosts p prog s.util s.entered i (by omega) hi
      refine ⟨lab.1, List.mem_cons_self, n, ?_⟩
      rw [labelAll_get_idx hlab n]
      exact List.mem_map.2 ⟨_, hn, rfl⟩

/-- every prefix of the table of a reachable state is the table of a reachable state that made a productive cycle -/
theorem Reach.prefix {p : Proc N} {prog : List (Instr N)} {s : SimState N} (h : Reach p prog s) :
    ∀ t, t < s.table.length → ∃ s0 s1, Reach p prog s0 ∧ runCycle p prog s0 = .ok (some s1) ∧
      s0.table.reverse = s.table.reverse.take t ∧ s1.table.reverse = s.table.reverse.take (t + 1) := by
  induction h with
  | init => intro t ht; simp [initState] at ht
  | @step s s' hs hr ih =>
    obtain ⟨lab, qs, hlab, _, _, e⟩ := runCycle_eq_some hr
    have htab : s'.table.reverse = s.table.reverse ++ [lab.1] := by rw [e]; simp
    intro t ht
    have hlen : s'.table.length = s.table.length + 1 := by rw [e]; simp
    rw [htab]
    by_cases hlt : t < s.table.length
    · obtain ⟨s0, s1, h0, hr0, e0, e1⟩ := ih t hlt
      refine ⟨s0, s1, h0, hr0, ?_, ?_⟩
      · rw [e0, List.take_append_of_le_length (by simp; omega)]
      · rw [e1, List.take_append_of_le_length (by simp; omega)]
    · have ht' : t = s.table.length := by omega
      subst ht'
      refine ⟨s, s', hs, hr, ?_, ?_⟩
      · rw [List.take_append_of_le_length (by simp), List.take_of_length_le (by simp)]
      · rw [htab, List.take_of_length_le (by simp)]

theorem Diagram_reach {p : Proc N} {prog : List (Instr N)} {tbl : List (Util N)} {stalled : Bool}
    (h : Diagram p prog tbl stalled) :
    ∃ s, Reach p prog s ∧ tbl = s.table.reverse ∧ (stalled = true → runCycle p prog s = .ok none) ∧
      (stalled = false → s.finished prog = true) :=
  simulate_induction (Reach p prog) Reach.init (fun _ _ h hr => h.step hr) tbl stalled h

omit [LT N] [DecidableRel (α := N) (· < ·)] in
/-- `i` is hosted by a unit of the processor in some row `t' < k` of the diagram -/
def AppearsBefore (units : List (UnitM N)) (tbl : List (Util N)) (i k : Nat) : Prop :=
  ∃ t', t' < k ∧ t' < tbl.length ∧
    ∃ u ∈ units, ∃ h ∈ (tbl.getD t' ([] : List (N × List HI))).get u.name, h.idx = i

/-- in the state whose table is the first `k` rows of the diagram, the issued instructions are exactly those
appearing in these rows -/
theorem prefix_entered {p : Proc N} {prog : List (Instr N)} (hwf : wfProc p = true) {s : SimState N}
    (h : Reach p prog s) {tbl : List (Util N)} {k : Nat} (htab : s.table.reverse = tbl.take k) :
    ∀ i, i < s.entered ↔ AppearsBefore p.allUnits tbl i k := by
  have hT := h.termInv hwf
  have hmem : ∀ r, r ∈ s.table ↔ r ∈ tbl.take k := by
    intro r; rw [← htab, List.mem_reverse]
  intro i
  constructor
  · intro hi
    obtain ⟨r, hr, n, hn⟩ := h.appears i hi
    obtain ⟨j, hj, rfl⟩ := List.mem_take_iff_getElem.1 ((hmem r).1 hr)
    obtain ⟨x, hx, hxi⟩ := List.mem_map.1 hn
    have hname := (hT.rows _ hr).names n (List.ne_nil_of_mem hx)
    obtain ⟨u, hu, rfl⟩ := List.mem_map.1 hname
    have hjT : j < tbl.length := by omega
    refine ⟨j, by omega, hjT, u, hu, x, ?_, hxi⟩
    rw [List.getD_eq_getElem?_getD, List.getElem?_eq_getElem hjT]
    exact hx
  · rintro ⟨t', h1, h2, u, hu, x, hx, rfl⟩
    rw [List.getD_eq_getElem?_getD, List.getElem?_eq_getElem h2] at hx
    have : tbl[t'] ∈ s.table := (hmem _).2 (List.mem_take_iff_getElem.2 ⟨t', by omega, rfl⟩)
    exact (hT.rows _ this).idx_lt u.name x hx

/-- … and its current record is the last of these rows (the empty record if there is none) -/
theorem prefix_util {p : Proc N} {prog : List (Instr N)} (hwf : wfProc p = true) {s : SimState N}
    (h : Reach p prog s) {tbl : List (Util N)} {k : Nat} (hk : k ≤ tbl.length)
    (htab : s.table.reverse = tbl.take k) : s.util = prevRow tbl k := by
  have hT := h.termInv hwf
  have e : s.table = (tbl.take k).reverse := by rw [← htab, List.reverse_reverse]
  rw [hT.util_eq, e, List.head?_reverse, List.getLast?_eq_getElem?, List.length_take, prevRow]
  have : min k tbl.length = k := by omega
  rw [this]
  by_cases h0 : k = 0
  · subst h0; simp
  · rw [if_neg h0, List.getElem?_take_of_lt (by omega), List.getD_eq_getElem?_getD]

end reach

/-! ## 9. Reading `Spec.frozen` on a diagram -/

section glue

omit [LT N] [DecidableRel (α := N) (· < ·)] in
/-- the first cycle in which `i` appears is `≤ t` iff `i` appears in a row `< t + 1` -/
theorem firstCycle_le_iff (c : Ctx N) (i t : Nat) :
    (match c.firstCycle i with | some f => decide (f ≤ t) | none => false) = true ↔
      AppearsBefore c.units c.tbl i (t + 1) := by
  have hG : ∀ t0 (x : Nat × UnitM N × Stall),
      x ∈ c.units.flatMap (fun u => ((c.occ t0 u.name).filter (fun h => h.idx == i)).map (fun h => (t0, u, h.st))) →
      x.1 = t0 ∧ ∃ u ∈ c.units, ∃ h ∈ c.occ t0 u.name, h.idx = i := by
    intro t0 x hx
    obtain ⟨u, hu, hx⟩ := List.mem_flatMap.1 hx
    obtain ⟨h, hh, rfl⟩ := List.mem_map.1 hx
    obtain ⟨hh1, hh2⟩ := List.mem_filter.1 hh
    exact ⟨rfl, u, hu, h, hh1, by simpa using hh2⟩
  have hfc : c.firstCycle i = ((List.range c.T).findSome? (fun t0 =>
      (c.units.flatMap (fun u => ((c.occ t0 u.name).filter (fun h => h.idx == i)).map
        (fun h => (t0, u, h.st)))).head?)).map (·.1) := by
    unfold Ctx.firstCycle Ctx.positions
    rw [List.head?_flatMap]
  rw [hfc]
  constructor
  · intro h
    cases hfs : (List.range c.T).findSome? (fun t0 =>
        (c.units.flatMap (fun u => ((c.occ t0 u.name).filter (fun h => h.idx == i)).map
          (fun h => (t0, u, h.st)))).head?) with
    | none => rw [hfs] at h; simp at h
    | some x =>
      rw [hfs] at h
      simp only [Option.map_some, decide_eq_true_eq] at h
      obtain ⟨t0, ht0, hx⟩ := List.exists_of_findSome?_eq_some hfs
      obtain ⟨e1, u, hu, y, hy, hyi⟩ := hG t0 x (List.mem_of_head? hx)
      exact ⟨t0, by omega, List.mem_range.1 ht0, u, hu, y, hy, hyi⟩
  · rintro ⟨t', h1, h2, u, hu, y, hy, hyi⟩
    have hne : (c.units.flatMap (fun u => ((c.occ t' u.name).filter (fun h => h.idx == i)).map
        (fun h => (t', u, h.st)))).head? ≠ none := by
      intro e0
      rw [List.head?_eq_none_iff] at e0
      have : (t', u, y.st) ∈ c.units.flatMap (fun u => ((c.occ t' u.name).filter (fun h => h.idx == i)).map
          (fun h => (t', u, h.st))) :=
        List.mem_flatMap.2 ⟨u, hu, List.mem_map.2 ⟨y, List.mem_filter.2 ⟨hy, by simp [hyi]⟩, rfl⟩⟩
      rw [e0] at this; cases this
    cases hfs : (List.range c.T).findSome? (fun t0 =>
        (c.units.flatMap (fun u => ((c.occ t0 u.name).filter (fun h => h.idx == i)).map
          (fun h => (t0, u, h.st)))).head?) with
    | none =>
      exact absurd (List.findSome?_eq_none_iff.1 hfs t' (List.mem_range.2 h2)) hne
    | some x =>
      simp only [Option.map_some, decide_eq_true_eq]
      obtain ⟨l₁, a, l₂, hsplit, hx, hpre⟩ := List.findSome?_eq_some_iff.1 hfs
      have hxa := (hG a x (List.mem_of_head? hx)).1
      have hmem : t' ∈ l₁ ++ a :: l₂ := by rw [← hsplit]; exact List.mem_range.2 h2
      have hpw : (l₁ ++ a :: l₂).Pairwise (· < ·) := by rw [← hsplit]; exact List.pairwise_lt_range
      rcases List.mem_append.1 hmem with hm | hm
      · exact absurd (hpre t' hm) hne
      · rcases List.mem_cons.1 hm with rfl | hm'
        · omega
        · have := (List.pairwise_cons.1 (List.pairwise_append.1 hpw).2.1).1 t' hm'
          omega

omit [DecidableEq N] [LT N] [DecidableRel (α := N) (· < ·)] in
theorem filter_lt_range {E n : Nat} (h : E ≤ n) : ((List.range n).filter (fun i => decide (i < E))).length = E := by
  induction n with
  | zero => have : E = 0 := by omega
            subst this; rfl
  | succ n ih =>
    rw [List.range_succ, List.filter_append, List.length_append]
    by_cases hE : E ≤ n
    · rw [ih hE]
      have : ¬ n < E := by omega
      simp [this]
    · have hE' : E = n + 1 := by omega
      subst hE'
      have h1 : (List.range n).filter (fun i => decide (i < n + 1)) = List.range n := by
        apply List.filter_eq_self.2
        intro i hi
        have := List.mem_range.1 hi
        simp; omega
      rw [h1]; simp

omit [LT N] [DecidableRel (α := N) (· < ·)] in
/-- `issuedBy` is the number of issued instructions, if those are the ones that have appeared -/
theorem issuedBy_eq (c : Ctx N) (t E : Nat) (hE : E ≤ c.n)
    (h : ∀ i, i < c.n → (AppearsBefore c.units c.tbl i (t + 1) ↔ i < E)) : issuedBy c t = E := by
  unfold issuedBy
  rw [← filter_lt_range hE]
  congr 1
  apply List.filter_congr
  intro i hi
  rw [Bool.eq_iff_iff]
  exact (firstCycle_le_iff c i t).trans ((h i (List.mem_range.1 hi)).trans (by simp))

omit [LT N] [DecidableRel (α := N) (· < ·)] in
theorem FrozenRec.imp {p : Proc N} {prog : List (Instr N)} {old : Util N} {e : Nat} {dOK dOK' : UnitM N → HI → Prop}
    (hf : FrozenRec p prog old e dOK)
    (h : ∀ u ∈ p.allUnits, ∀ x ∈ old.get u.name, x.st = .D → dOK u x → dOK' u x) : FrozenRec p prog old e dOK' :=
  ⟨hf.noU, hf.sBlocked, fun u hu x hx hst => h u hu x hx hst (hf.dBlocked u hu x hx hst), hf.noIssue⟩

omit [LT N] [DecidableRel (α := N) (· < ·)] in
/-- the Boolean body of `Spec.frozen` says `FrozenRec` -/
theorem frozen_core_iff (c : Ctx N) (row : Util N) (tEnd nxt : Nat) :
    (c.units.all (fun u => (row.get u.name).all (fun h =>
        match h.st with
        | .U => false
        | .S => !isOutB c.p u.name &&
            (succsOf c.p u.name).all (fun v => !supports c.prog h.idx v || decide (v.width ≤ (row.get v.name).length))
        | .D => mustWait c h.idx tEnd u)) &&
      (decide (c.n ≤ nxt) ||
        c.p.inBoundary.all (fun u => !supports c.prog nxt u || decide (u.width ≤ (row.get u.name).length)))) = true ↔
    FrozenRec c.p c.prog row nxt (fun u h => mustWait c h.idx tEnd u = true) := by
  simp only [Bool.and_eq_true, List.all_eq_true, Bool.or_eq_true, decide_eq_true_eq]
  constructor
  · rintro ⟨h1, h2⟩
    refine ⟨?_, ?_, ?_, ?_⟩
    · intro u hu x hx hst
      have := h1 u hu x hx
      simp only [hst] at this
      cases this
    · intro u hu x hx hst
      have := h1 u hu x hx
      simp only [hst, Bool.and_eq_true, Bool.not_eq_true', isOutB, decide_eq_false_iff_not, List.all_eq_true,
        Bool.or_eq_true, decide_eq_true_eq] at this
      refine ⟨this.1, fun v hv hs => ?_⟩
      rcases this.2 v hv with h | h
      · rw [hs] at h; cases h
      · exact h
    · intro u hu x hx hst
      have := h1 u hu x hx
      simp only [hst] at this
      exact this
    · rcases h2 with h | h
      · exact Or.inl h
      · right
        intro u hu hs
        rcases h u hu with h' | h'
        · rw [hs] at h'; cases h'
        · exact h'
  · intro hf
    refine ⟨?_, ?_⟩
    · intro u hu x hx
      cases hst : x.st with
      | U => exact absurd hst (hf.noU u hu x hx)
      | S =>
        have := hf.sBlocked u hu x hx hst
        simp only [Bool.and_eq_true, Bool.not_eq_true', isOutB, decide_eq_false_iff_not, List.all_eq_true,
          Bool.or_eq_true, decide_eq_true_eq]
        refine ⟨this.1, fun v hv => ?_⟩
        cases hs : supports c.prog x.idx v with
        | true => exact Or.inr (this.2 v hv hs)
        | false => exact Or.inl rfl
      | D => exact hf.dBlocked u hu x hx hst
    · rcases hf.noIssue with h | h
      · exact Or.inl h
      · right
        intro u hu
        cases hs : supports c.prog nxt u with
        | true => exact Or.inr (h u hu hs)
        | false => exact Or.inl rfl

omit [LT N] [DecidableRel (α := N) (· < ·)] in
theorem frozen_some (c : Ctx N) (t : Nat) :
    frozen c (some t) =
      (c.units.all (fun u => ((c.row t).get u.name).all (fun h =>
        match h.st with
        | .U => false
        | .S => !isOutB c.p u.name &&
            (succsOf c.p u.name).all (fun v => !supports c.prog h.idx v || decide (v.width ≤ ((c.row t).get v.name).length))
        | .D => mustWait c h.idx (t + 1) u)) &&
      (decide (c.n ≤ issuedBy c t) ||
        c.p.inBoundary.all (fun u => !supports c.prog (issuedBy c t) u || decide (u.width ≤ ((c.row t).get u.name).length)))) :=
  rfl

/-- index of the row before cycle `k` -/
def prevIdx (k : Nat) : Option Nat := if k = 0 then none else some (k - 1)

/-- **Reading `Spec.frozen` through the run.** For the reachable state whose table is the first `k` rows of the
diagram, `frozen` of the last of these rows (of the empty record if `k = 0`) says `FrozenRec` of the state's record
and issue count, with the diagram's `mustWait … k` as the clause for `D`. -/
theorem frozen_prefix_iff {p : Proc N} {prog : List (Instr N)} (hwf : wfProc p = true) {s : SimState N}
    (h : Reach p prog s) {tbl : List (Util N)} (stalled : Bool) {k : Nat} (hk : k ≤ tbl.length)
    (htab : s.table.reverse = tbl.take k) :
    frozen (ctx p prog tbl stalled) (prevIdx k) = true ↔
      FrozenRec p prog s.util s.entered (fun u x => mustWait (ctx p prog tbl stalled) x.idx k u = true) := by
  have hutil := prefix_util hwf h hk htab
  have hent := prefix_entered hwf h htab
  by_cases h0 : k = 0
  · subst h0
    have e0 : s.entered = 0 := by
      cases he : s.entered with
      | zero => rfl
      | succ m =>
        obtain ⟨t', ht', _⟩ := (hent 0).1 (by omega)
        omega
    rw [hutil, e0]
    exact frozen_core_iff (ctx p prog tbl stalled) ([] : List (N × List HI)) 0 0
  · have hpi : prevIdx k = some (k - 1) := by simp [prevIdx, h0]
    have hrow : (ctx p prog tbl stalled).row (k - 1) = s.util := by
      rw [hutil]; simp [prevRow, h0, Ctx.row, ctx]
    have hiss : issuedBy (ctx p prog tbl stalled) (k - 1) = s.entered := by
      apply issuedBy_eq _ _ _ (h.termInv hwf).entered_le
      intro i _
      have : k - 1 + 1 = k := by omega
      rw [this]
      exact (hent i).symm
    have hk1 : k - 1 + 1 = k := by omega
    rw [hpi, frozen_some, hrow, hiss, hk1]
    exact frozen_core_iff (ctx p prog tbl stalled) s.util k s.entered

/-- exactness of data stalls (first clause of `Spec.C02`), in usable form -/
def DExact (c : Ctx N) : Prop :=
  ∀ i, i < c.n → ∀ t, t < c.T → ∀ u ∈ c.units, ∀ h ∈ c.occ t u.name, h.idx = i →
    (h.st == .S || ((h.st == .D) == mustWait c i t u)) = true

omit [LT N] [DecidableRel (α := N) (· < ·)] in
theorem DExact_of_C02 (c : Ctx N) (h : (Spec.C02 c).ok = true) : DExact c := by
  simp only [Spec.C02, Clauses.ok, List.all_cons, List.all_nil, Bool.and_true, Bool.and_eq_true] at h
  have h1 := List.all_eq_true.1 h.1
  intro i hi t ht u hu x hx hxi
  have hpos : (t, u, x.st) ∈ c.positions i := by
    unfold Ctx.positions
    exact List.mem_flatMap.2 ⟨t, List.mem_range.2 ht, List.mem_flatMap.2 ⟨u, hu,
      List.mem_map.2 ⟨x, List.mem_filter.2 ⟨hx, by simp [hxi]⟩, rfl⟩⟩⟩
  exact h1 (i, t, u, x.st) (List.mem_flatMap.2 ⟨i, List.mem_range.2 hi, List.mem_map.2 ⟨_, hpos, rfl⟩⟩)

/-- **The `D` clause of "stall ⇒ frozen"** — the one ingredient that belongs to property C02 (exactness of data stalls,
for the *unrecorded* stall-detecting cycle): when the cycle run from a reachable state reproduces its record, an
instruction labelled `D` again by the register queues must still wait according to the diagram. -/
def FrozenDClause (p : Proc N) (prog : List (Instr N)) : Prop :=
  ∀ s, Reach p prog s → runCycle p prog s = .ok none → ∀ u ∈ p.allUnits, ∀ x ∈ s.util.get u.name, x.st = .D →
    labelOf prog s.queues u (s.util.get u.name) x.idx = .D →
    mustWait (ctx p prog s.table.reverse true) x.idx s.table.length u = true

/-- **clause 2 of `Spec.C08`**, given the `D` clause -/
theorem stall_frozen {p : Proc N} {prog : List (Instr N)} (hwf : wfProc p = true) (hD : FrozenDClause p prog)
    {tbl : List (Util N)} (hd : Diagram p prog tbl true) :
    frozen (ctx p prog tbl true) (prevIdx tbl.length) = true := by
  obtain ⟨s, hs, rfl, hr, _⟩ := Diagram_reach hd
  have hr := hr rfl
  have hlen : s.table.reverse.length = s.table.length := List.length_reverse
  rw [frozen_prefix_iff hwf hs true (Nat.le_refl _) (List.take_length).symm]
  refine (fixed_frozen hwf (hs.termInv hwf) hr).imp ?_
  intro u hu x hx hst hl
  rw [hlen]
  exact hD s hs hr u hu x hx hst hl

/-- **clause 3 of `Spec.C08`**, given exactness of data stalls on the diagram: the row before any recorded cycle
(the empty record before the first) was not frozen -/
theorem not_frozen_before {p : Proc N} {prog : List (Instr N)} (hwf : wfProc p = true)
    {tbl : List (Util N)} {stalled : Bool} (hd : Diagram p prog tbl stalled)
    (hC : DExact (ctx p prog tbl stalled)) {t : Nat} (ht : t < tbl.length) :
    frozen (ctx p prog tbl stalled) (prevIdx t) = false := by
  obtain ⟨s, hs, rfl, _, _⟩ := Diagram_reach hd
  have hlen : s.table.reverse.length = s.table.length := List.length_reverse
  obtain ⟨s0, s1, h0, hr0, e0, e1⟩ := hs.prefix t (by omega)
  cases hfz : frozen (ctx p prog s.table.reverse stalled) (prevIdx t) with
  | false => rfl
  | true =>
    exfalso
    have hf := (frozen_prefix_iff hwf h0 stalled (by omega) e0).1 hfz
    obtain ⟨lab, qs, hlab, _, hb, e⟩ := runCycle_eq_some hr0
    have h1 : Reach p prog s1 := h0.step hr0
    have hrow : s1.util = s.table.reverse.getD t ([] : List (N × List HI)) := by
      rw [prefix_util hwf h1 (by omega) e1]; simp [prevRow]
    have hlab1 : lab.1 = s1.util := by rw [e]
    have hT0 := h0.termInv hwf
    have := frozen_fixed hwf hT0 hlab (hf.imp (by
      intro u hu x hx hst hmw l hl hU
      subst hU
      rw [hlab1, hrow] at hl
      have hxn : x.idx < prog.length := Nat.lt_of_lt_of_le (hT0.row.idx_lt u.name x hx) hT0.entered_le
      have := hC x.idx hxn t ht u hu _ hl rfl
      simp only at this
      rw [hmw] at this
      simp at this))
    rw [this] at hb
    cases hb

end glue

end Term
end ProcSim
