import ProcSim.Lemmas.SimCore
/-!
# Routes, core part: where every hosted instruction of a cycle comes from (used by C03 and by C01/C02/C16)

The stable first part of the route lemmas (sections 1–3); `Lemmas/Routes.lean` builds sections 4–7 on top of it.

1. The processing order: a destination is filled before any of its predecessors is refilled (`dests_order`).
2. The fill phase of a cycle, per hosted instruction: *stayed*, *moved* along a declared connection, or *issued*
   (`FillInv`, `IssueInv`, `fillCycle_issueInv`).
3. The two-row relation `Step` (origin with labels, `vanish`, `hosted`), proved for `runCycle` (`runCycle_step`).
-/
namespace ProcSim
open Spec

attribute [local implicit_reducible] AMap

variable {N : Type} [DecidableEq N]

/-! ## 0. List helpers (in `namespace Routes`: other lemma files define helpers of the same names) -/

namespace Routes

/-- consecutive elements are related by `R` (Prop version of `Spec.pairsOK`) -/
def Adjacent {α : Type} (R : α → α → Prop) : List α → Prop
  | [] => True
  | [_] => True
  | a :: b :: rest => R a b ∧ Adjacent R (b :: rest)

theorem Adjacent.imp {α : Type} {R S : α → α → Prop} (h : ∀ a b, R a b → S a b) :
    ∀ {l : List α}, Adjacent R l → Adjacent S l
  | [], _ => trivial
  | [_], _ => trivial
  | _ :: b :: rest, ⟨h1, h2⟩ => ⟨h _ _ h1, Adjacent.imp h (l := b :: rest) h2⟩

theorem Adjacent.tail {α : Type} {R : α → α → Prop} {a : α} {l : List α} (h : Adjacent R (a :: l)) :
    Adjacent R l := by
  cases l with
  | nil => trivial
  | cons b rest => exact h.2

/-- a prefix of a chain is a chain -/
theorem Adjacent.of_append_left {α : Type} {R : α → α → Prop} :
    ∀ {l l' : List α}, Adjacent R (l ++ l') → Adjacent R l
  | [], _, _ => trivial
  | [_], _, _ => trivial
  | a :: b :: rest, l', h => by
    have h' : R a b ∧ Adjacent R (b :: (rest ++ l')) := h
    exact ⟨h'.1, Adjacent.of_append_left (l := b :: rest) (l' := l') h'.2⟩

/-- two elements with the same key in a list whose keys are duplicate-free are equal -/
theorem eq_of_key_eq_of_nodup {α β : Type} (f : α → β) {l : List α} (hn : (l.map f).Nodup) {a b : α}
    (ha : a ∈ l) (hb : b ∈ l) (h : f a = f b) : a = b := by
  induction l with
  | nil => cases ha
  | cons c l ih =>
    simp only [List.map_cons, List.nodup_cons] at hn
    rcases List.mem_cons.1 ha with e | e <;> rcases List.mem_cons.1 hb with e' | e'
    · rw [e, e']
    · subst e; exact absurd (List.mem_map.2 ⟨b, e', h.symm⟩) hn.1
    · subst e'; exact absurd (List.mem_map.2 ⟨a, e, h⟩) hn.1
    · exact ih hn.2 e e'

/-- a duplicate-free list contained in another list is not longer -/
theorem length_le_of_nodup_subset {α : Type} [DecidableEq α] {l l' : List α} (hn : l.Nodup) (hs : ∀ a ∈ l, a ∈ l') :
    l.length ≤ l'.length := by
  induction l generalizing l' with
  | nil => simp
  | cons a l ih =>
    rw [List.nodup_cons] at hn
    have ha : a ∈ l' := hs a List.mem_cons_self
    have : l.length ≤ (l'.erase a).length := by
      apply ih hn.2
      intro b hb
      have hne : b ≠ a := fun e => hn.1 (e ▸ hb)
      exact (List.mem_erase_of_ne hne).2 (hs b (List.mem_cons_of_mem _ hb))
    rw [List.length_erase_of_mem ha] at this
    have hpos : 0 < l'.length := List.length_pos_of_mem ha
    simp only [List.length_cons]; omega

/-- … and if it is at least as long, it contains every element of the other list -/
theorem mem_of_nodup_subset_of_length_ge {α : Type} [DecidableEq α] {l l' : List α} (hn : l.Nodup)
    (hs : ∀ a ∈ l, a ∈ l') (hlen : l'.length ≤ l.length) : ∀ b ∈ l', b ∈ l := by
  intro b hb
  by_cases hbl : b ∈ l
  · exact hbl
  · exfalso
    have : l.length ≤ (l'.erase b).length := by
      apply length_le_of_nodup_subset hn
      intro a ha
      have hne : a ≠ b := fun e => hbl (e ▸ ha)
      exact (List.mem_erase_of_ne hne).2 (hs a ha)
    rw [List.length_erase_of_mem hb] at this
    have hpos : 0 < l'.length := List.length_pos_of_mem hb
    omega

/-! ## 1. Structure: names, order of the destinations, `predsOf` -/

section structure_
omit [DecidableEq N]

theorem dests_names_sublist (p : Proc N) :
    (p.dests.map (·.model.name)).Sublist (p.allUnits.map (·.name)) := by
  simp only [Proc.dests, Proc.allUnits, List.map_append, List.map_map, List.append_assoc]
  exact (List.sublist_append_right _ _).trans (List.sublist_append_right _ _)

theorem outBoundary_sublist (p : Proc N) : p.outBoundary.Sublist (p.allUnits.map (·.name)) := by
  simp only [Proc.outBoundary, Proc.allUnits, List.map_append, List.map_map, List.append_assoc]
  refine (List.Sublist.trans ?_ (List.sublist_append_right _ _))
  rw [← List.append_assoc]
  exact List.sublist_append_left _ _

theorem dests_names_nodup {p : Proc N} (hn : (p.allUnits.map (·.name)).Nodup) :
    (p.dests.map (·.model.name)).Nodup := (dests_names_sublist p).nodup hn

theorem outBoundary_nodup {p : Proc N} (hn : (p.allUnits.map (·.name)).Nodup) : p.outBoundary.Nodup :=
  (outBoundary_sublist p).nodup hn

end structure_

/-- with unique names, the stored position of a destination is its position -/
theorem destPos_of_split {p : Proc N} (hn : (p.allUnits.map (·.name)).Nodup) {pre post : List (FuncU N)}
    {d : FuncU N} (h : p.dests = pre ++ d :: post) : destPos p d.model.name = some pre.length := by
  have hnd := dests_names_nodup hn
  rw [h, List.map_append, List.map_cons, List.nodup_append] at hnd
  have hpre : pre.findIdx? (fun d' => decide (d'.model.name = d.model.name)) = none := by
    rw [List.findIdx?_eq_none_iff]
    intro x hx
    simp only [decide_eq_false_iff_not]
    intro e
    exact hnd.2.2 _ (List.mem_map.2 ⟨x, hx, rfl⟩) _ List.mem_cons_self e
  unfold destPos
  rw [h, List.findIdx?_append, hpre, List.findIdx?_cons]
  simp

/-- **Processing order.** When destination `d` is filled, none of its predecessors has been filled yet in this
cycle: the destinations before `d` in the stored order are not predecessors of `d`. -/
theorem dests_order {p : Proc N} (hn : (p.allUnits.map (·.name)).Nodup) (ho : orderOK p = true)
    {pre post : List (FuncU N)} {d : FuncU N} (h : p.dests = pre ++ d :: post) :
    ∀ d' ∈ pre, d'.model.name ∉ d.preds := by
  intro d' hd' hq
  have hd : d ∈ p.dests := by rw [h]; simp
  obtain ⟨pre', post', hsplit⟩ := List.append_of_mem hd'
  have h' : p.dests = pre' ++ d' :: (post' ++ d :: post) := by rw [h, hsplit]; simp
  have hkq := destPos_of_split hn h'
  obtain ⟨kd, hkd, hlt⟩ := (orderOK_pred ho hd hq).2.2 _ hkq
  rw [destPos_of_split hn h] at hkd
  cases hkd
  have : pre.length = pre'.length + (post'.length + 1) := by rw [hsplit]; simp
  omega

/-- with unique names, `predsOf` reads the predecessor list of the destination of that name -/
theorem predsOf_of_mem {p : Proc N} (hn : (p.allUnits.map (·.name)).Nodup) {d : FuncU N} (hd : d ∈ p.dests) :
    predsOf p d.model.name = d.preds := by
  unfold predsOf
  cases hf : p.dests.find? (fun d' => decide (d'.model.name = d.model.name)) with
  | none =>
    rw [List.find?_eq_none] at hf
    have := hf d hd
    simp at this
  | some d' =>
    have h1 := List.mem_of_find?_eq_some hf
    have h2 : d'.model.name = d.model.name := by simpa using List.find?_some hf
    have : d' = d := eq_of_key_eq_of_nodup (fun x : FuncU N => x.model.name) (dests_names_nodup hn) h1 hd h2
    rw [this]

end Routes
open Routes

/-! ## 2. The fill phase, per hosted instruction -/

/-- instruction `i` stayed in unit `n` (at the output boundary only data-stalled instructions stay) -/
def Stayed (p : Proc N) (old : Util N) (n : N) (i : Nat) : Prop :=
  ∃ y ∈ old.get n, y.idx = i ∧ (n ∈ p.outBoundary → y.st = .D)

/-- instruction `i` arrived in unit `n` by a move along a declared connection: it was hosted, not data-stalled, by a
predecessor `q` of `n` in the previous record, and `n` supports its capability -/
def Moved (p : Proc N) (prog : List (Instr N)) (old : Util N) (n : N) (i : Nat) : Prop :=
  ∃ d ∈ p.dests, d.model.name = n ∧ ∃ q ∈ d.preds, ∃ y ∈ old.get q, y.idx = i ∧ y.st ≠ .D ∧
    capIn prog i d.model.caps = true

/-- instruction `i` was issued in this cycle (`e ≤ i < e'`) into the input-boundary port `n`, which supports its
capability -/
def Issued (p : Proc N) (prog : List (Instr N)) (e e' : Nat) (n : N) (i : Nat) : Prop :=
  e ≤ i ∧ i < e' ∧ ∃ port ∈ p.inBoundary, port.name = n ∧ capIn prog i port.caps = true

/-- Invariant of the move phase (`done` = names of the destinations filled so far): units not yet filled hold only
what they held in the previous record (with the same labels); every hosted instruction stayed or moved; an
instruction that the flush does not remove is still hosted somewhere. -/
structure FillInv (p : Proc N) (prog : List (Instr N)) (old : Util N) (done : List N) (u : Util N) : Prop where
  untouched : ∀ n, n ∉ done → ∀ x ∈ u.get n, x ∈ old.get n
  origin : ∀ n x, x ∈ u.get n → Stayed p old n x.idx ∨ Moved p prog old n x.idx
  alive : ∀ n y, y ∈ old.get n → (n ∉ p.outBoundary ∨ y.st = .D) → ∃ n', y.idx ∈ (u.get n').map (·.idx)

theorem FillInv.after_flush (p : Proc N) (prog : List (Instr N)) (old : Util N) :
    FillInv p prog old [] (flushOutputs p.outBoundary old) := by
  refine ⟨?_, ?_, ?_⟩
  · intro n _ x hx
    exact (flushOutputs_get_sublist _ _ _).subset hx
  · intro n x hx
    left
    refine ⟨x, (flushOutputs_get_sublist _ _ _).subset hx, rfl, ?_⟩
    intro hn
    rw [flushOutputs_get, if_pos hn] at hx
    simpa using (List.mem_filter.1 hx).2
  · intro n y hy hcond
    refine ⟨n, List.mem_map.2 ⟨y, ?_, rfl⟩⟩
    rw [flushOutputs_get]
    split
    · next hn =>
      rcases hcond with h | h
      · exact absurd hn h
      · exact List.mem_filter.2 ⟨hy, by simp [h]⟩
    · exact hy

theorem FillInv.after_fillUnit {p : Proc N} {prog : List (Instr N)} {old : Util N} {done done' : List N}
    {u : Util N} (h : FillInv p prog old done u) {d : FuncU N} (hd : d ∈ p.dests)
    (hself : d.model.name ∉ d.preds) (hpreds : ∀ q ∈ d.preds, q ∉ done)
    (hdone : ∀ n, n ∉ done' → n ∉ done ∧ d.model.name ≠ n) (mem : Bool) :
    FillInv p prog old done' (fillUnit prog d u mem).1 := by
  have hsub := fillUnit_get_sublist prog d u mem
  refine ⟨?_, ?_, ?_⟩
  · intro n hn x hx
    obtain ⟨h1, h2⟩ := hdone n hn
    have := (hsub n).subset hx
    rw [if_neg h2] at this
    exact h.untouched n h1 x this
  · intro n x hx
    have hx' := (hsub n).subset hx
    by_cases hdn : d.model.name = n
    · rw [if_pos hdn, List.mem_append] at hx'
      rcases hx' with hx' | hx'
      · exact h.origin n x hx'
      · right
        obtain ⟨c, hc, rfl⟩ := List.mem_map.1 hx'
        obtain ⟨hq, y, hy, hv, he⟩ := mem_unitTaken hc
        have hy' := h.untouched c.1 (hpreds c.1 hq) y hy
        simp only [validCand, Bool.and_eq_true, bne_iff_ne, ne_eq] at hv
        refine ⟨d, hd, hdn, c.1, hq, y, hy', he, hv.1, ?_⟩
        simp only
        rw [← he]; exact hv.2
    · rw [if_neg hdn] at hx'
      exact h.origin n x hx'
  · intro n y hy hcond
    obtain ⟨n', hn'⟩ := h.alive n y hy hcond
    by_cases hdn : d.model.name = n'
    · refine ⟨n', ?_⟩
      rw [← hdn, fillUnit_get_self prog d u mem hself, List.map_append, List.mem_append]
      left; rw [hdn]; exact hn'
    · obtain ⟨x, hx, hxi⟩ := List.mem_map.1 hn'
      by_cases htk : (unitTaken prog d u mem).any (fun m => m.1 == n' && m.2 == x.idx) = true
      · obtain ⟨c, hc, hce⟩ := List.any_eq_true.1 htk
        simp only [Bool.and_eq_true, beq_iff_eq] at hce
        refine ⟨d.model.name, ?_⟩
        rw [fillUnit_get_self prog d u mem hself, List.map_append, List.mem_append]
        right
        rw [List.map_map]
        exact List.mem_map.2 ⟨c, hc, by simp only [Function.comp]; rw [hce.2, hxi]⟩
      · refine ⟨n', List.mem_map.2 ⟨x, ?_, hxi⟩⟩
        rw [fillUnit_get_of_ne prog d u mem hdn]
        have hf := Bool.eq_false_iff.2 htk
        exact List.mem_filter.2 ⟨hx, by simp only [hf, Bool.not_false]⟩

/-- the move phase along the stored order of the destinations (`pre` = the destinations already filled) -/
theorem FillInv.after_fillDests {p : Proc N} {prog : List (Instr N)} {old : Util N}
    (hn : (p.allUnits.map (·.name)).Nodup) (ho : orderOK p = true) :
    ∀ (ds pre : List (FuncU N)) (u : Util N) (mem : Bool), p.dests = pre ++ ds →
      FillInv p prog old (pre.map (·.model.name)) u →
      FillInv p prog old (p.dests.map (·.model.name)) (fillDests prog ds u mem).1
  | [], pre, u, mem, hsplit, h => by
    rw [List.append_nil] at hsplit
    rw [hsplit]; exact h
  | d :: ds, pre, u, mem, hsplit, h => by
    unfold fillDests
    have hd : d ∈ p.dests := by rw [hsplit]; simp
    have h' : FillInv p prog old ((pre ++ [d]).map (·.model.name)) (fillUnit prog d u mem).1 := by
      refine h.after_fillUnit hd (orderOK_self_not_pred ho hd) ?_ ?_ mem
      · intro q hq hmem
        obtain ⟨d', hd', e⟩ := List.mem_map.1 hmem
        exact dests_order hn ho hsplit d' hd' (e ▸ hq)
      · intro n hn'
        simp only [List.map_append, List.map_cons, List.map_nil, List.mem_append, List.mem_singleton,
          not_or] at hn'
        exact ⟨hn'.1, fun e => hn'.2 e.symm⟩
    exact FillInv.after_fillDests hn ho ds (pre ++ [d]) _ _ (by rw [hsplit]; simp) h'

/-- after the moves of a cycle every hosted instruction stayed or moved along a declared connection -/
theorem FillInv.after_moveFlights {p : Proc N} (prog : List (Instr N)) (old : Util N)
    (hn : (p.allUnits.map (·.name)).Nodup) (ho : orderOK p = true) :
    FillInv p prog old (p.dests.map (·.model.name)) (moveFlights p prog old).1 :=
  FillInv.after_fillDests hn ho p.dests [] _ false rfl (FillInv.after_flush p prog old)

/-- Invariant of the issue phase started with `e` entered instructions, now at `e'`. -/
structure IssueInv (p : Proc N) (prog : List (Instr N)) (old : Util N) (e : Nat) (u : Util N) (e' : Nat) :
    Prop where
  le : e ≤ e'
  origin : ∀ n x, x ∈ u.get n → Stayed p old n x.idx ∨ Moved p prog old n x.idx ∨ Issued p prog e e' n x.idx
  alive : ∀ n y, y ∈ old.get n → (n ∉ p.outBoundary ∨ y.st = .D) → ∃ n', y.idx ∈ (u.get n').map (·.idx)
  hosted : ∀ i, e ≤ i → i < e' → ∃ n, i ∈ (u.get n).map (·.idx)

theorem Issued.mono {p : Proc N} {prog : List (Instr N)} {e e' e'' : Nat} {n : N} {i : Nat}
    (h : Issued p prog e e' n i) (hle : e' ≤ e'') : Issued p prog e e'' n i :=
  ⟨h.1, Nat.lt_of_lt_of_le h.2.1 hle, h.2.2⟩

theorem IssueInv.of_fillInv {p : Proc N} {prog : List (Instr N)} {old : Util N} {done : List N} {u : Util N}
    (h : FillInv p prog old done u) (e : Nat) : IssueInv p prog old e u e :=
  ⟨Nat.le_refl _, fun n x hx => (h.origin n x hx).elim Or.inl (fun m => Or.inr (Or.inl m)), h.alive,
    fun i h1 h2 => by omega⟩

theorem IssueInv.after_issue {p : Proc N} {prog : List (Instr N)} {old : Util N} {e e' : Nat} {u : Util N}
    (h : IssueInv p prog old e u e') {ins : Instr N} (hins : prog[e']? = some ins) {port : UnitM N}
    (hport : port ∈ p.inBoundary) (hcap : ins.cap ∈ port.caps) :
    IssueInv p prog old e (u.set port.name (u.get port.name ++ [⟨e', .U⟩])) (e' + 1) := by
  have hle := h.le
  refine ⟨by omega, ?_, ?_, ?_⟩
  · intro n x hx
    rw [Util.get_set] at hx
    have old_case : x ∈ u.get n → Stayed p old n x.idx ∨ Moved p prog old n x.idx ∨ Issued p prog e (e' + 1) n x.idx := by
      intro hx
      rcases h.origin n x hx with a | a | a
      · exact Or.inl a
      · exact Or.inr (Or.inl a)
      · exact Or.inr (Or.inr (a.mono (by omega)))
    by_cases hpn : port.name = n
    · rw [if_pos hpn, List.mem_append] at hx
      rcases hx with hx | hx
      · exact old_case (hpn ▸ hx)
      · simp only [List.mem_singleton] at hx
        subst hx
        refine Or.inr (Or.inr ⟨hle, by simp, port, hport, hpn, ?_⟩)
        simp [capIn, hins, hcap]
    · rw [if_neg hpn] at hx; exact old_case hx
  · intro n y hy hcond
    obtain ⟨n', hn'⟩ := h.alive n y hy hcond
    refine ⟨n', ?_⟩
    rw [Util.get_set]
    split
    · next hpn => rw [List.map_append, List.mem_append]; left; rw [hpn]; exact hn'
    · exact hn'
  · intro i h1 h2
    by_cases hi : i < e'
    · obtain ⟨n, hn'⟩ := h.hosted i h1 hi
      refine ⟨n, ?_⟩
      rw [Util.get_set]
      split
      · next hpn => rw [List.map_append, List.mem_append]; left; rw [hpn]; exact hn'
      · exact hn'
    · have : i = e' := by omega
      subst this
      refine ⟨port.name, ?_⟩
      rw [Util.get_set_eq]; simp

variable [LT N] [DecidableRel (α := N) (· < ·)]

/-- **The fill phase of a cycle.** In the record `F = (fillCycle p prog old e).1` (before relabelling) every hosted
instruction stayed where it was in `old`, or moved along a declared connection from a unit where it was not
data-stalled, or was issued in this cycle into a supporting input-boundary port; what the flush does not remove is
still hosted; every instruction issued in the cycle is hosted. -/
theorem fillCycle_issueInv {p : Proc N} (prog : List (Instr N)) (old : Util N) (e : Nat)
    (hn : (p.allUnits.map (·.name)).Nodup) (ho : orderOK p = true) :
    IssueInv p prog old e (fillCycle p prog old e).1 (fillCycle p prog old e).2 := by
  have h1 := IssueInv.of_fillInv (FillInv.after_moveFlights prog old hn ho) e
  obtain ⟨_, h2, _⟩ := issueLoop_induction prog (sortedInputs p) (fun u _ e' => IssueInv p prog old e u e')
    (fun u mem e' ins pre port post hP hins hports hu _ =>
      hP.after_issue hins (mem_sortedInputs.1 (by rw [hports]; simp)) hu.1)
    _ (moveFlights p prog old).2 e h1
  exact h2

/-! ## 3. The two-row relation -/

omit [LT N] [DecidableRel (α := N) (· < ·)] in
theorem wasLoaded_iff (l : List HI) (i : Nat) : wasLoaded l i = true ↔ ∃ o ∈ l, o.idx = i ∧ o.st ≠ .D := by
  simp [wasLoaded]

/-- **Two-row relation** between a record `old` (with `e` entered instructions) and the next record `new` (`e'`
entered). Every hosted instruction of `new`
* stayed in its unit — then it is labelled `S` iff it was not data-stalled there before, and at the output boundary
  only a data-stalled instruction stays —, or
* is labelled `U`/`D` and either moved along a declared connection (from a unit where it was not `D`, into a unit
  supporting its capability) or was issued in this cycle into a supporting input-boundary port.
An instruction disappears only from the output boundary and only when not data-stalled; every instruction issued in
the cycle is hosted. -/
structure Step (p : Proc N) (prog : List (Instr N)) (e : Nat) (old new : Util N) (e' : Nat) : Prop where
  le : e ≤ e'
  origin : ∀ n x, x ∈ new.get n →
    (∃ y ∈ old.get n, y.idx = x.idx ∧ (n ∈ p.outBoundary → y.st = .D) ∧ (x.st = .S ↔ y.st ≠ .D)) ∨
    (x.st ≠ .S ∧ (Moved p prog old n x.idx ∨ Issued p prog e e' n x.idx))
  vanish : ∀ n y, y ∈ old.get n → (∀ n', y.idx ∉ (new.get n').map (·.idx)) → n ∈ p.outBoundary ∧ y.st ≠ .D
  hosted : ∀ i, e ≤ i → i < e' → ∃ n, i ∈ (new.get n).map (·.idx)

omit [LT N] [DecidableRel (α := N) (· < ·)] in
/-- relabelling the filled record gives the two-row relation -/
theorem Step.of_labelAll {p : Proc N} {prog : List (Instr N)} {old F : Util N} {e e' : Nat}
    (hF : IssueInv p prog old e F e') (hb : RowBase p e old) (hnd : RowND old)
    (hself : ∀ d ∈ p.dests, d.model.name ∉ d.preds) {units : List (UnitM N)} {qs : Queues N}
    {lab : Util N × List (N × Nat)} (hlab : labelAll units prog qs old F = .ok lab) :
    Step p prog e old lab.1 e' := by
  have hidx := labelAll_get_idx hlab
  refine ⟨hF.le, ?_, ?_, ?_⟩
  · intro n x hx
    have hxi : x.idx ∈ (F.get n).map (·.idx) := by rw [← hidx n]; exact List.mem_map.2 ⟨x, hx, rfl⟩
    obtain ⟨x0, hx0, hx0i⟩ := List.mem_map.1 hxi
    have hS := labelAll_S_iff hlab hx
    rw [wasLoaded_iff] at hS
    rcases hF.origin n x0 hx0 with ⟨y, hy, hyi, hout⟩ | hm | hi
    · left
      refine ⟨y, hy, hyi.trans hx0i, hout, ?_⟩
      rw [hS]
      constructor
      · rintro ⟨o, ho, hoi, hod⟩
        have : o = y := eq_of_key_eq_of_nodup (fun h : HI => h.idx) (hnd.nodup_unit n) ho hy
          (hoi.trans (hyi.trans hx0i).symm)
        rw [← this]; exact hod
      · intro h; exact ⟨y, hy, hyi.trans hx0i, h⟩
    · right
      rw [hx0i] at hm
      refine ⟨?_, Or.inl hm⟩
      intro hs
      obtain ⟨o, ho, hoi, _⟩ := hS.1 hs
      obtain ⟨d, hd, hdn, q, hq, y, hy, hyi, _, _⟩ := hm
      have : n = q := hnd.unique_host n q x.idx (List.mem_map.2 ⟨o, ho, hoi⟩) (List.mem_map.2 ⟨y, hy, hyi⟩)
      exact hself d hd (by rw [hdn, this]; exact hq)
    · right
      rw [hx0i] at hi
      refine ⟨?_, Or.inr hi⟩
      intro hs
      obtain ⟨o, ho, hoi, _⟩ := hS.1 hs
      have := hb.idx_lt n o ho
      have := hi.1
      omega
  · intro n y hy hgone
    refine Classical.byContradiction (fun hc => ?_)
    have hcond : n ∉ p.outBoundary ∨ y.st = .D := by
      by_cases h1 : n ∈ p.outBoundary
      · by_cases h2 : y.st = .D
        · exact Or.inr h2
        · exact absurd ⟨h1, h2⟩ hc
      · exact Or.inl h1
    obtain ⟨n', hn'⟩ := hF.alive n y hy hcond
    exact hgone n' (by rw [hidx n']; exact hn')
  · intro i h1 h2
    obtain ⟨n, hn'⟩ := hF.hosted i h1 h2
    exact ⟨n, by rw [hidx n]; exact hn'⟩

/-- **`runCycle` satisfies the two-row relation** (for a state satisfying the core invariant of a well-formed
processor). -/
theorem runCycle_step {p : Proc N} {prog : List (Instr N)} (hwf : wfProc p = true) {s s' : SimState N}
    (h : CoreInv p prog s) (hs : runCycle p prog s = .ok (some s')) :
    Step p prog s.entered s.util s'.util s'.entered := by
  obtain ⟨lab, qs, hlab, _, _, rfl⟩ := runCycle_eq_some hs
  exact Step.of_labelAll (fillCycle_issueInv prog s.util s.entered (wfProc_nodup_names hwf) (wfProc_orderOK hwf))
    h.row h.nd (wfProc_self_not_pred hwf) hlab

section stepfacts
omit [LT N] [DecidableRel (α := N) (· < ·)]

/-- an instruction hosted in the new record was hosted in the old one or has just been issued -/
theorem Step.hosted_old_or_new {p : Proc N} {prog : List (Instr N)} {e e' : Nat} {old new : Util N}
    (h : Step p prog e old new e') {n : N} {i : Nat} (hi : i ∈ (new.get n).map (·.idx)) :
    (∃ n', i ∈ (old.get n').map (·.idx)) ∨ (e ≤ i ∧ i < e') := by
  obtain ⟨x, hx, rfl⟩ := List.mem_map.1 hi
  rcases h.origin n x hx with ⟨y, hy, hyi, _⟩ | ⟨_, hm | hi⟩
  · exact Or.inl ⟨n, List.mem_map.2 ⟨y, hy, hyi⟩⟩
  · obtain ⟨d, _, _, q, _, y, hy, hyi, _⟩ := hm
    exact Or.inl ⟨q, List.mem_map.2 ⟨y, hy, hyi⟩⟩
  · exact Or.inr ⟨hi.1, hi.2.1⟩

/-- gone is gone: an already issued instruction that is not hosted in the old record is not hosted in the new one -/
theorem Step.not_hosted_of_not_hosted {p : Proc N} {prog : List (Instr N)} {e e' : Nat} {old new : Util N}
    (h : Step p prog e old new e') {i : Nat} (hi : i < e) (hold : ∀ n, i ∉ (old.get n).map (·.idx)) :
    ∀ n, i ∉ (new.get n).map (·.idx) := by
  intro n hn
  rcases h.hosted_old_or_new hn with ⟨n', hn'⟩ | ⟨h1, _⟩
  · exact hold n' hn'
  · omega

/-- the flush: a not data-stalled instruction at the output boundary is not hosted in the next record -/
theorem Step.flushed {p : Proc N} {prog : List (Instr N)} {e e' : Nat} {old new : Util N}
    (h : Step p prog e old new e') (hb : RowBase p e old) (hnd : RowND old) (ho : orderOK p = true)
    {n : N} (hn : n ∈ p.outBoundary) {y : HI} (hy : y ∈ old.get n) (hyd : y.st ≠ .D) :
    ∀ n', y.idx ∉ (new.get n').map (·.idx) := by
  intro n' hn'
  obtain ⟨x, hx, hxi⟩ := List.mem_map.1 hn'
  rcases h.origin n' x hx with ⟨y', hy', hyi', hout, _⟩ | ⟨_, hm | hi⟩
  · have e1 : n' = n := hnd.unique_host n' n x.idx (List.mem_map.2 ⟨y', hy', hyi'⟩) (List.mem_map.2 ⟨y, hy, hxi.symm⟩)
    subst e1
    have : y' = y := eq_of_key_eq_of_nodup (fun h : HI => h.idx) (hnd.nodup_unit n') hy' hy (hyi'.trans hxi)
    subst this
    exact hyd (hout hn)
  · obtain ⟨d, hd, _, q, hq, y', hy', hyi', _⟩ := hm
    have e1 : q = n := hnd.unique_host q n x.idx (List.mem_map.2 ⟨y', hy', hyi'⟩) (List.mem_map.2 ⟨y, hy, hxi.symm⟩)
    subst e1
    exact (orderOK_pred ho hd hq).2.1 hn
  · have := hb.idx_lt n y hy
    have := hi.1
    omega

/-- never `S` at the output boundary -/
theorem Step.outB_not_S {p : Proc N} {prog : List (Instr N)} {e e' : Nat} {old new : Util N}
    (h : Step p prog e old new e') {n : N} (hn : n ∈ p.outBoundary) {x : HI} (hx : x ∈ new.get n) : x.st ≠ .S := by
  rcases h.origin n x hx with ⟨y, _, _, hout, hS⟩ | ⟨h1, _⟩
  · intro hs; exact (hS.1 hs) (hout hn)
  · exact h1

/-- an instruction never leaves a unit while data-stalled: it is in the same unit in the next record -/
theorem Step.D_stays {p : Proc N} {prog : List (Instr N)} {e e' : Nat} {old new : Util N}
    (h : Step p prog e old new e') (hb : RowBase p e old) (hnd : RowND old)
    {n : N} {y : HI} (hy : y ∈ old.get n) (hyd : y.st = .D) : y.idx ∈ (new.get n).map (·.idx) := by
  refine Classical.byContradiction (fun hc => ?_)
  by_cases hex : ∃ n', y.idx ∈ (new.get n').map (·.idx)
  · obtain ⟨n', hn'⟩ := hex
    obtain ⟨x, hx, hxi⟩ := List.mem_map.1 hn'
    rcases h.origin n' x hx with ⟨y', hy', hyi', _⟩ | ⟨_, hm | hi⟩
    · have e1 : n' = n := hnd.unique_host n' n x.idx (List.mem_map.2 ⟨y', hy', hyi'⟩) (List.mem_map.2 ⟨y, hy, hxi.symm⟩)
      subst e1
      exact hc hn'
    · obtain ⟨d, hd, _, q, hq, y', hy', hyi', hyd', _⟩ := hm
      have e1 : q = n := hnd.unique_host q n x.idx (List.mem_map.2 ⟨y', hy', hyi'⟩) (List.mem_map.2 ⟨y, hy, hxi.symm⟩)
      subst e1
      have : y' = y := eq_of_key_eq_of_nodup (fun h : HI => h.idx) (hnd.nodup_unit q) hy' hy (hyi'.trans hxi)
      subst this
      exact hyd' hyd
    · have := hb.idx_lt n y hy
      have := hi.1
      omega
  · have := h.vanish n y hy (fun n' hn' => hex ⟨n', hn'⟩)
    exact this.2 hyd

end stepfacts

end ProcSim
