import ProcSim.Spec.Loader
/-!
# Correctness of the per-capability checks of the loader (`chk_caps`)

Core Lean only.  The working graph `g : Graph N` of the model is read as a capability graph
`rgOfGraph g : Spec.RG N` (units, connections, supported capabilities, locks) and the dynamic programs of
`Model/Loader.lean` are shown to compute what the declarative notions of `Spec/Loader.lean` say:

* `lockPass` over a successors-first order computes for every listed unit the common lock counts of **all** maximal
  capability routes from it (`lockPass_ok`), and fails exactly when some listed unit has a maximal route with two
  locks of a type or two maximal routes with different counts (`lockPass_error`, `lockPass_isOk_iff`);
* `chkInLocks` fails iff some listed port has a zero count (`chkInLocks_ok_iff`, `chkInLocks_error`);
* `reachPass` computes exactly the listed units from which an output is reachable through supporting units
  (`mem_reachPass_iff`); `chkFlow` fails iff a listed port is not among them (`chkFlow_ok_iff`, `chkFlow_error`);
* `capUnits` lists exactly the (capability, supporting input port) pairs (`capUnits_sound`, `capUnits_complete`);
* `chkCapList` / `chkCaps` put these together (`chkCaps_ok_iff`, `chkCaps_error`).
-/
set_option linter.unusedSectionVars false
set_option linter.unusedSimpArgs false
set_option linter.unusedVariables false

namespace ProcSim
namespace Loader
namespace LoaderLocks
open Spec

variable {N : Type} [DecidableEq N]

/-! ## The working graph as a capability graph -/

/-- the lock of type `t` declared by unit `u` of the working graph -/
def nodeLock (g : Graph N) (t : LockType) (u : N) : Bool :=
  match g.node? u with
  | some n => (match t with | .read => n.rd | .write => n.wr)
  | none => false

/-- the working graph as the capability graph the specifications talk about -/
def rgOfGraph (g : Graph N) : RG N :=
  ⟨g.names, fun a b => decide ((a, b) ∈ g.edges), fun u c => decide (c ∈ g.capsOf u), nodeLock g⟩

/-- component of a lock-count pair -/
def sel : LockType → Nat × Nat → Nat
  | .read, p => p.1
  | .write, p => p.2

theorem node?_some_mem {g : Graph N} {u : N} {n : GNode N} (h : g.node? u = some n) : n ∈ g.nodes ∧ n.name = u := by
  unfold Graph.node? at h
  have h1 := List.mem_of_find?_eq_some h
  have h2 := List.find?_some h
  simp at h2
  exact ⟨h1, h2⟩

theorem mem_names_of_capsOf {g : Graph N} {u c : N} (h : c ∈ g.capsOf u) : u ∈ g.names := by
  unfold Graph.capsOf at h
  split at h
  · next n hn =>
    obtain ⟨h1, h2⟩ := node?_some_mem hn
    unfold Graph.names
    exact List.mem_map.2 ⟨n, h1, h2⟩
  · simp at h

theorem mem_succs {g : Graph N} {u v : N} : v ∈ g.succs u ↔ (u, v) ∈ g.edges := by
  unfold Graph.succs
  simp only [List.mem_map, List.mem_filter, decide_eq_true_eq]
  constructor
  · rintro ⟨⟨a, b⟩, ⟨h1, h2⟩, h3⟩
    simp at h2 h3
    subst h2 h3
    exact h1
  · intro h
    exact ⟨(u, v), ⟨h, rfl⟩, rfl⟩

theorem mem_preds {g : Graph N} {u v : N} : v ∈ g.preds u ↔ (v, u) ∈ g.edges := by
  unfold Graph.preds
  simp only [List.mem_map, List.mem_filter, decide_eq_true_eq]
  constructor
  · rintro ⟨⟨a, b⟩, ⟨h1, h2⟩, h3⟩
    simp at h2 h3
    subst h2 h3
    exact h1
  · intro h
    exact ⟨(v, u), ⟨h, rfl⟩, rfl⟩

theorem mem_capSuccs {g : Graph N} {cap u v : N} :
    v ∈ capSuccs g cap u ↔ (u, v) ∈ g.edges ∧ cap ∈ g.capsOf v := by
  unfold capSuccs
  simp [List.mem_filter, mem_succs]

/-! ## Routes of the capability graph -/

theorem walkR_cons_cons {R : N → N → Prop} {a b : N} {l : List N} :
    WalkR R (a :: b :: l) ↔ R a b ∧ WalkR R (b :: l) := Iff.rfl

theorem walkR_tail {R : N → N → Prop} {a : N} {l : List N} (h : WalkR R (a :: l)) : WalkR R l := by
  cases l with
  | nil => trivial
  | cons b l => exact h.2

theorem getLast?_cons_cons {α : Type} (a b : α) (l : List α) : (a :: b :: l).getLast? = (b :: l).getLast? := by
  simp [List.getLast?_cons_cons]

section Routes
variable (R : RG N)

theorem isRoute_singleton {c u : N} : R.IsRoute c [u] ↔ R.sup u c = true := by
  unfold RG.IsRoute RG.Walk
  simp [WalkR]

theorem isRoute_cons_cons {c u v : N} {l : List N} :
    R.IsRoute c (u :: v :: l) ↔ R.sup u c = true ∧ R.conn u v = true ∧ R.IsRoute c (v :: l) := by
  unfold RG.IsRoute RG.Walk
  simp only [ne_eq, reduceCtorEq, not_false_eq_true, List.mem_cons, true_and, walkR_cons_cons]
  constructor
  · rintro ⟨h1, h2, h3⟩
    exact ⟨h1 u (Or.inl rfl), h2, fun x hx => h1 x (Or.inr hx), h3⟩
  · rintro ⟨h1, h2, h3, h4⟩
    refine ⟨?_, h2, h4⟩
    intro x hx
    rcases hx with rfl | hx
    · exact h1
    · exact h3 x hx

theorem isMaxRoute_singleton {c u : N} :
    R.IsMaxRoute c [u] ↔ R.sup u c = true ∧ ∀ v ∈ R.names, ¬ (R.conn u v = true ∧ R.sup v c = true) := by
  unfold RG.IsMaxRoute
  rw [isRoute_singleton]
  simp

theorem isMaxRoute_cons_cons {c u v : N} {l : List N} :
    R.IsMaxRoute c (u :: v :: l) ↔ R.sup u c = true ∧ R.conn u v = true ∧ R.IsMaxRoute c (v :: l) := by
  unfold RG.IsMaxRoute
  rw [isRoute_cons_cons, getLast?_cons_cons]
  constructor
  · rintro ⟨⟨h1, h2, h3⟩, h4⟩
    exact ⟨h1, h2, h3, h4⟩
  · rintro ⟨h1, h2, h3, h4⟩
    exact ⟨⟨h1, h2, h3⟩, h4⟩

theorem isMaxRoute_ne_nil {c : N} {r : List N} (h : R.IsMaxRoute c r) : r ≠ [] := h.1.1

theorem lockCount_cons (t : LockType) (u : N) (r : List N) :
    R.lockCount t (u :: r) = (if R.lock t u then 1 else 0) + R.lockCount t r := by
  unfold RG.lockCount
  by_cases h : R.lock t u = true
  · simp [List.filter_cons, h]; omega
  · simp [List.filter_cons, h]

end Routes

/-! ## `updLocks` / `calcLock` -/

theorem updLocks_some_eq (start : N) (t : LockType) (cap : N) : ∀ (vals : List Nat) (o : Nat),
    updLocks start t cap vals (some o) =
      if vals.all (fun v => v == o) then .ok (some o) else .error (.pathLock start t cap)
  | [], o => by simp [updLocks]
  | v :: vs, o => by
    simp only [updLocks]
    by_cases h : v = o
    · subst h
      rw [updLocks_some_eq start t cap vs v]
      simp
    · simp [h]

/-- the lock a unit contributes itself -/
def own (b : Bool) : Nat := if b then 1 else 0

theorem own_le (b : Bool) : own b ≤ 1 := by cases b <;> simp [own]

/-- all listed counts are equal -/
def Agree (vals : List Nat) : Prop := ∀ v ∈ vals, ∀ w ∈ vals, v = w

theorem calcLock_spec (start : N) (t : LockType) (cap : N) (b : Bool) (vals : List Nat) :
    (Agree vals ∧ own b + vals.headD 0 ≤ 1 ∧ calcLock start t cap b vals = .ok (own b + vals.headD 0)) ∨
    ((¬ Agree vals ∨ 1 < own b + vals.headD 0) ∧ calcLock start t cap b vals = .error (.pathLock start t cap)) := by
  cases vals with
  | nil =>
    left
    refine ⟨(by intro v hv; cases hv), (by have := own_le b; simpa using this), ?_⟩
    have := own_le b
    simp only [calcLock, updLocks, Option.getD_none, List.headD_nil, Nat.add_zero]
    have h1 : ¬ (if b = true then 1 else 0) > 1 := by cases b <;> simp
    simp only [own] at *
    rw [if_neg h1]
  | cons v vs =>
    simp only [calcLock, updLocks, List.headD_cons]
    rw [updLocks_some_eq]
    by_cases hall : vs.all (fun w => w == v) = true
    · have hag : Agree (v :: vs) := by
        have h' : ∀ w ∈ vs, w = v := by simpa using hall
        intro a ha b hb
        have ha' : a = v := by rcases List.mem_cons.1 ha with h | h; exact h; exact h' a h
        have hb' : b = v := by rcases List.mem_cons.1 hb with h | h; exact h; exact h' b h
        rw [ha', hb']
      rw [if_pos hall]
      simp only [Option.getD_some]
      by_cases hp : own b + v ≤ 1
      · left
        refine ⟨hag, hp, ?_⟩
        have : ¬ ((if b = true then 1 else 0) + v > 1) := by simp only [own] at hp; omega
        simp only [own]
        rw [if_neg this]
      · right
        refine ⟨Or.inr (by omega), ?_⟩
        have : ((if b = true then 1 else 0) + v > 1) := by simp only [own] at hp; omega
        rw [if_pos this]
    · right
      rw [if_neg hall]
      refine ⟨Or.inl ?_, rfl⟩
      intro hag
      apply hall
      simp only [List.all_eq_true, beq_iff_eq]
      intro w hw
      exact hag w (List.mem_cons_of_mem _ hw) v (List.mem_cons_self)

/-! ## `lockPass` computes the lock counts of all maximal routes -/

section Locks
variable (g : Graph N) (cap : N)

/-- maximal `cap`-route of the working graph starting at `u` -/
def MaxRouteFrom (u : N) (r : List N) : Prop := (rgOfGraph g).IsMaxRoute cap r ∧ r.head? = some u

theorem capSuccs_eq_nil_iff {u : N} :
    capSuccs g cap u = [] ↔ ∀ v ∈ (rgOfGraph g).names, ¬ ((rgOfGraph g).conn u v = true ∧ (rgOfGraph g).sup v cap = true) := by
  rw [List.eq_nil_iff_forall_not_mem]
  simp only [mem_capSuccs, rgOfGraph, decide_eq_true_eq]
  constructor
  · intro h v _ hv
    exact h v hv
  · intro h v hv
    exact h v (mem_names_of_capsOf hv.2) hv

theorem maxRouteFrom_iff {u : N} {r : List N} :
    MaxRouteFrom g cap u r ↔ cap ∈ g.capsOf u ∧
      ((r = [u] ∧ capSuccs g cap u = []) ∨
       ∃ v r', r = u :: r' ∧ v ∈ capSuccs g cap u ∧ MaxRouteFrom g cap v r') := by
  unfold MaxRouteFrom
  cases r with
  | nil =>
    constructor
    · rintro ⟨_, h⟩; simp at h
    · rintro ⟨_, (h | ⟨v, r', h, _⟩)⟩
      · simp at h
      · simp at h
  | cons a l =>
    cases l with
    | nil =>
      rw [isMaxRoute_singleton, ← capSuccs_eq_nil_iff]
      constructor
      · rintro ⟨⟨h1, h2⟩, h3⟩
        simp at h3; subst h3
        refine ⟨by simpa [rgOfGraph] using h1, Or.inl ⟨rfl, h2⟩⟩
      · rintro ⟨h1, (h | ⟨v, r', h, hv, hr⟩)⟩
        · simp at h
          obtain ⟨h, h2⟩ := h
          subst h
          exact ⟨⟨by simpa [rgOfGraph] using h1, h2⟩, rfl⟩
        · simp at h
          obtain ⟨_, h⟩ := h
          subst h
          exact absurd hr.1.1.1 (by simp)
    | cons b l =>
      rw [isMaxRoute_cons_cons]
      constructor
      · rintro ⟨⟨h1, h2, h3⟩, h4⟩
        simp at h4; subst h4
        refine ⟨by simpa [rgOfGraph] using h1, Or.inr ⟨b, b :: l, rfl, ?_, h3, rfl⟩⟩
        rw [mem_capSuccs]
        refine ⟨by simpa [rgOfGraph] using h2, ?_⟩
        have := h3.1.2.1 b (List.mem_cons_self)
        simpa [rgOfGraph] using this
      · rintro ⟨h1, (h | ⟨v, r', h, hv, hr⟩)⟩
        · simp at h
        · simp at h
          obtain ⟨h, h'⟩ := h
          subst h h'
          have hb : v = b := by
            have := hr.2; simp at this; exact this.symm
          subst hb
          rw [mem_capSuccs] at hv
          exact ⟨⟨by simpa [rgOfGraph] using h1, by simpa [rgOfGraph] using hv.1, hr.1⟩, rfl⟩

/-- `L` holds, for `u`, the lock counts common to all maximal routes from `u` (and there is such a route) -/
def Correct (L : Locks N) (u : N) : Prop :=
  (∃ r, MaxRouteFrom g cap u r) ∧
  ∀ t, sel t (Locks.get L u) ≤ 1 ∧ ∀ r, MaxRouteFrom g cap u r → (rgOfGraph g).lockCount t r = sel t (Locks.get L u)

/-- the defect `PathLockError(start := u, lock_type := t, capability := cap)` stands for -/
def Bad (t : LockType) (u : N) : Prop :=
  (∃ r, MaxRouteFrom g cap u r ∧ 2 ≤ (rgOfGraph g).lockCount t r) ∨
  (∃ r1 r2, MaxRouteFrom g cap u r1 ∧ MaxRouteFrom g cap u r2 ∧
    (rgOfGraph g).lockCount t r1 ≠ (rgOfGraph g).lockCount t r2)

theorem lockCount_nil (t : LockType) : (rgOfGraph g).lockCount t [] = 0 := rfl

/-- one `calcLock` call, given correct counts for all capability successors -/
theorem calcLock_step {L : Locks N} {u : N} (t : LockType) (hu : cap ∈ g.capsOf u)
    (hs : ∀ v ∈ capSuccs g cap u, Correct g cap L v) :
    (∃ k, calcLock u t cap (nodeLock g t u) ((capSuccs g cap u).map (fun v => sel t (Locks.get L v))) = .ok k ∧
        k ≤ 1 ∧ ∀ r, MaxRouteFrom g cap u r → (rgOfGraph g).lockCount t r = k) ∨
    (calcLock u t cap (nodeLock g t u) ((capSuccs g cap u).map (fun v => sel t (Locks.get L v))) =
        .error (.pathLock u t cap) ∧ Bad g cap t u) := by
  have hlk : ∀ r, (rgOfGraph g).lockCount t (u :: r) = own (nodeLock g t u) + (rgOfGraph g).lockCount t r := by
    intro r; rw [lockCount_cons]; rfl
  rcases calcLock_spec u t cap (nodeLock g t u) ((capSuccs g cap u).map (fun v => sel t (Locks.get L v))) with
    ⟨hag, hle, hok⟩ | ⟨hbad, herr⟩
  · left
    refine ⟨_, hok, hle, ?_⟩
    intro r hr
    rw [maxRouteFrom_iff] at hr
    rcases hr.2 with ⟨rfl, hnil⟩ | ⟨v, r', rfl, hv, hr'⟩
    · rw [hlk, hnil]; simp [lockCount_nil]
    · rw [hlk, ((hs v hv).2 t).2 r' hr']
      congr 1
      have hmem : sel t (Locks.get L v) ∈ (capSuccs g cap u).map (fun v => sel t (Locks.get L v)) :=
        List.mem_map.2 ⟨v, hv, rfl⟩
      cases hl : (capSuccs g cap u).map (fun v => sel t (Locks.get L v)) with
      | nil => rw [hl] at hmem; cases hmem
      | cons a l =>
        rw [hl] at hmem hag
        exact hag _ hmem a List.mem_cons_self
  · right
    refine ⟨herr, ?_⟩
    rcases hbad with hna | hgt
    · -- two successors with different counts
      have : ∃ v ∈ capSuccs g cap u, ∃ w ∈ capSuccs g cap u, sel t (Locks.get L v) ≠ sel t (Locks.get L w) := by
        apply Classical.byContradiction
        intro hcon
        apply hna
        intro a ha b hb
        obtain ⟨v, hv, rfl⟩ := List.mem_map.1 ha
        obtain ⟨w, hw, rfl⟩ := List.mem_map.1 hb
        apply Classical.byContradiction
        intro hne
        exact hcon ⟨v, hv, w, hw, hne⟩
      obtain ⟨v, hv, w, hw, hne⟩ := this
      obtain ⟨rv, hrv⟩ := (hs v hv).1
      obtain ⟨rw', hrw⟩ := (hs w hw).1
      right
      refine ⟨u :: rv, u :: rw', ?_, ?_, ?_⟩
      · rw [maxRouteFrom_iff]; exact ⟨hu, Or.inr ⟨v, rv, rfl, hv, hrv⟩⟩
      · rw [maxRouteFrom_iff]; exact ⟨hu, Or.inr ⟨w, rw', rfl, hw, hrw⟩⟩
      · rw [hlk, hlk, ((hs v hv).2 t).2 rv hrv, ((hs w hw).2 t).2 rw' hrw]
        omega
    · -- own lock plus a locked tail
      cases hl : capSuccs g cap u with
      | nil =>
        rw [hl] at hgt
        have := own_le (nodeLock g t u)
        simp at hgt
        omega
      | cons v l =>
        have hv : v ∈ capSuccs g cap u := by rw [hl]; exact List.mem_cons_self
        rw [hl] at hgt
        simp only [List.map_cons, List.headD_cons] at hgt
        obtain ⟨rv, hrv⟩ := (hs v hv).1
        left
        refine ⟨u :: rv, ?_, ?_⟩
        · rw [maxRouteFrom_iff]; exact ⟨hu, Or.inr ⟨v, rv, rfl, hv, hrv⟩⟩
        · rw [hlk, ((hs v hv).2 t).2 rv hrv]; omega

theorem exists_route_step {L : Locks N} {u : N} (hu : cap ∈ g.capsOf u)
    (hs : ∀ v ∈ capSuccs g cap u, Correct g cap L v) : ∃ r, MaxRouteFrom g cap u r := by
  cases hl : capSuccs g cap u with
  | nil => exact ⟨[u], by rw [maxRouteFrom_iff]; exact ⟨hu, Or.inl ⟨rfl, hl⟩⟩⟩
  | cons v l =>
    have hv : v ∈ capSuccs g cap u := by rw [hl]; exact List.mem_cons_self
    obtain ⟨rv, hrv⟩ := (hs v hv).1
    exact ⟨u :: rv, by rw [maxRouteFrom_iff]; exact ⟨hu, Or.inr ⟨v, rv, rfl, hv, hrv⟩⟩⟩

theorem get_set_eq (L : Locks N) (u : N) (x : Nat × Nat) : Locks.get (AMap.set L u x) u = x := by
  unfold Locks.get; rw [AMap.get?_set_eq]; rfl

theorem get_set_ne (L : Locks N) {u v : N} (x : Nat × Nat) (h : u ≠ v) :
    Locks.get (AMap.set L u x) v = Locks.get L v := by
  unfold Locks.get; rw [AMap.get?_set_ne _ _ h]

theorem chkPathLocks_eq (L : Locks N) (u : N) : chkPathLocks g cap L u =
    match calcLock u .read cap (nodeLock g .read u) ((capSuccs g cap u).map (fun v => sel .read (Locks.get L v))) with
    | .error e => .error e
    | .ok r =>
      match calcLock u .write cap (nodeLock g .write u) ((capSuccs g cap u).map (fun v => sel .write (Locks.get L v))) with
      | .error e => .error e
      | .ok w => .ok (AMap.set L u (r, w)) := by
  unfold chkPathLocks nodeLock
  simp only [List.map_map]
  cases g.node? u <;> rfl

/-- one iteration of the `_chk_multilock` loop -/
theorem chkPathLocks_step {L : Locks N} {u : N} (hu : cap ∈ g.capsOf u)
    (hs : ∀ v ∈ capSuccs g cap u, Correct g cap L v) :
    (∃ x, chkPathLocks g cap L u = .ok (AMap.set L u x) ∧ Correct g cap (AMap.set L u x) u) ∨
    (∃ t, chkPathLocks g cap L u = .error (.pathLock u t cap) ∧ Bad g cap t u) := by
  rw [chkPathLocks_eq]
  rcases calcLock_step g cap .read hu hs with ⟨kr, hokr, hler, hrr⟩ | ⟨herr, hbad⟩
  · rw [hokr]
    rcases calcLock_step g cap .write hu hs with ⟨kw, hokw, hlew, hrw⟩ | ⟨herr, hbad⟩
    · rw [hokw]
      left
      refine ⟨(kr, kw), rfl, exists_route_step g cap hu hs, ?_⟩
      intro t
      rw [get_set_eq]
      cases t
      · exact ⟨hler, hrr⟩
      · exact ⟨hlew, hrw⟩
    · rw [herr]
      right
      exact ⟨.write, rfl, hbad⟩
  · rw [herr]
    right
    exact ⟨.read, rfl, hbad⟩

/-- `rest` is processed successors-first: the capability successors of every unit were processed before it
(`done` = the units already processed) -/
def SuccFirst (succ : N → List N) : List N → List N → Prop
  | _, [] => True
  | done, u :: us => (∀ v ∈ succ u, v ∈ done) ∧ SuccFirst succ (u :: done) us

theorem correct_set_of_ne {L : Locks N} {u v : N} (x : Nat × Nat) (h : u ≠ v) (hc : Correct g cap L v) :
    Correct g cap (AMap.set L u x) v := by
  unfold Correct at *
  rw [get_set_ne L x h]
  exact hc

theorem lockPass_inv : ∀ (rest done : List N) (L : Locks N),
    (∀ u ∈ done, Correct g cap L u) → SuccFirst (capSuccs g cap) done rest → (∀ u ∈ rest, cap ∈ g.capsOf u) →
    (∃ L', lockPass g cap rest L = .ok L' ∧ ∀ u, u ∈ done ∨ u ∈ rest → Correct g cap L' u) ∨
    (∃ u t, u ∈ rest ∧ lockPass g cap rest L = .error (.pathLock u t cap) ∧ Bad g cap t u)
  | [], done, L, hd, _, _ => by
    left
    exact ⟨L, rfl, fun u hu => hd u (by simpa using hu)⟩
  | u :: us, done, L, hd, hsf, hsup => by
    have hu := hsup u List.mem_cons_self
    have hs : ∀ v ∈ capSuccs g cap u, Correct g cap L v := fun v hv => hd v (hsf.1 v hv)
    rcases chkPathLocks_step g cap hu hs with ⟨x, hok, hcor⟩ | ⟨t, herr, hbad⟩
    · have hd' : ∀ w ∈ u :: done, Correct g cap (AMap.set L u x) w := by
        intro w hw
        by_cases hwu : u = w
        · subst hwu; exact hcor
        · rcases List.mem_cons.1 hw with h | h
          · exact absurd h.symm hwu
          · exact correct_set_of_ne g cap x hwu (hd w h)
      rcases lockPass_inv us (u :: done) (AMap.set L u x) hd' hsf.2
          (fun w hw => hsup w (List.mem_cons_of_mem _ hw)) with ⟨L', hok', hall⟩ | ⟨w, t, hw, herr, hbad⟩
      · left
        refine ⟨L', ?_, ?_⟩
        · simp only [lockPass, hok]; exact hok'
        · intro w hw
          apply hall
          rcases hw with h | h
          · exact Or.inl (List.mem_cons_of_mem _ h)
          · rcases List.mem_cons.1 h with h | h
            · exact Or.inl (h ▸ List.mem_cons_self)
            · exact Or.inr h
      · right
        refine ⟨w, t, List.mem_cons_of_mem _ hw, ?_, hbad⟩
        simp only [lockPass, hok]; exact herr
    · right
      refine ⟨u, t, List.mem_cons_self, ?_, hbad⟩
      simp only [lockPass, herr]

/-- **`lockPass`, accepting run**: over a successors-first order of supporting units the pass stores for every listed
unit the lock counts (each ≤ 1) that *every* maximal `cap`-route from the unit has -/
theorem lockPass_ok {pc : List N} {L : Locks N} (hsf : SuccFirst (capSuccs g cap) [] pc)
    (hsup : ∀ u ∈ pc, cap ∈ g.capsOf u) (h : lockPass g cap pc [] = .ok L) :
    ∀ u ∈ pc, Correct g cap L u := by
  rcases lockPass_inv g cap pc [] [] (by intro u hu; cases hu) hsf hsup with ⟨L', hok, hall⟩ | ⟨u, t, _, herr, _⟩
  · rw [h] at hok
    cases hok
    exact fun u hu => hall u (Or.inr hu)
  · rw [h] at herr; cases herr

/-- **`lockPass`, rejecting run**: the error names a listed unit with a maximal route carrying two locks of the
named type, or with two maximal routes carrying different numbers of them -/
theorem lockPass_error {pc : List N} {e : LoadError N} (hsf : SuccFirst (capSuccs g cap) [] pc)
    (hsup : ∀ u ∈ pc, cap ∈ g.capsOf u) (h : lockPass g cap pc [] = .error e) :
    ∃ u t, u ∈ pc ∧ e = .pathLock u t cap ∧ Bad g cap t u := by
  rcases lockPass_inv g cap pc [] [] (by intro u hu; cases hu) hsf hsup with ⟨L', hok, _⟩ | ⟨u, t, hu, herr, hbad⟩
  · rw [h] at hok; cases hok
  · rw [h] at herr
    cases herr
    exact ⟨u, t, hu, rfl, hbad⟩

theorem not_bad_of_correct {L : Locks N} {u : N} (hc : Correct g cap L u) (t : LockType) : ¬ Bad g cap t u := by
  rintro (⟨r, hr, h2⟩ | ⟨r1, r2, h1, h2, hne⟩)
  · have := (hc.2 t).2 r hr
    have := (hc.2 t).1
    omega
  · exact hne (((hc.2 t).2 r1 h1).trans ((hc.2 t).2 r2 h2).symm)

/-- **`lockPass` fails iff** some listed unit has a maximal route with ≥ 2 locks of a type or two maximal routes with
different lock counts -/
theorem lockPass_isOk_iff {pc : List N} (hsf : SuccFirst (capSuccs g cap) [] pc)
    (hsup : ∀ u ∈ pc, cap ∈ g.capsOf u) :
    (∃ L, lockPass g cap pc [] = .ok L) ↔ ∀ u ∈ pc, ∀ t, ¬ Bad g cap t u := by
  constructor
  · rintro ⟨L, h⟩ u hu t
    exact not_bad_of_correct g cap (lockPass_ok g cap hsf hsup h u hu) t
  · intro hno
    cases h : lockPass g cap pc [] with
    | ok L => exact ⟨L, rfl⟩
    | error e =>
      obtain ⟨u, t, hu, _, hbad⟩ := lockPass_error g cap hsf hsup h
      exact absurd hbad (hno u hu t)

end Locks

/-! ## `chkInLocks` -/

theorem chkInLocks_ok_iff (cap : N) (L : Locks N) : ∀ ports : List N,
    chkInLocks cap L ports = .ok () ↔ ∀ p ∈ ports, ∀ t, sel t (Locks.get L p) ≠ 0
  | [] => by simp [chkInLocks]
  | p :: ps => by
    simp only [chkInLocks]
    by_cases h1 : (Locks.get L p).1 = 0
    · simp only [h1, if_true]
      constructor
      · intro h; cases h
      · intro h; exact absurd h1 (h p List.mem_cons_self .read)
    · by_cases h2 : (Locks.get L p).2 = 0
      · simp only [h1, h2, if_true, if_false]
        constructor
        · intro h; cases h
        · intro h; exact absurd h2 (h p List.mem_cons_self .write)
      · simp only [h1, h2, if_false]
        rw [chkInLocks_ok_iff cap L ps]
        constructor
        · intro h q hq t
          rcases List.mem_cons.1 hq with rfl | hq
          · cases t
            · exact h1
            · exact h2
          · exact h q hq t
        · intro h q hq t
          exact h q (List.mem_cons_of_mem _ hq) t

theorem chkInLocks_error (cap : N) (L : Locks N) {e : LoadError N} : ∀ ports : List N,
    chkInLocks cap L ports = .error e → ∃ p t, p ∈ ports ∧ e = .pathLock p t cap ∧ sel t (Locks.get L p) = 0
  | [], h => by simp [chkInLocks] at h
  | p :: ps, h => by
    simp only [chkInLocks] at h
    by_cases h1 : (Locks.get L p).1 = 0
    · simp only [h1, if_true] at h
      cases h
      exact ⟨p, .read, List.mem_cons_self, rfl, h1⟩
    · by_cases h2 : (Locks.get L p).2 = 0
      · simp only [h1, h2, if_true, if_false] at h
        cases h
        exact ⟨p, .write, List.mem_cons_self, rfl, h2⟩
      · simp only [h1, h2, if_false] at h
        obtain ⟨q, t, hq, he, h0⟩ := chkInLocks_error cap L ps h
        exact ⟨q, t, List.mem_cons_of_mem _ hq, he, h0⟩

/-! ## `reachPass` / `chkFlow` -/

section Reach
variable (g : Graph N) (cap : N) (outs : List N)

/-- some `cap`-route from `u` ends in a unit of `outs` -/
def ReachIn (u : N) : Prop :=
  ∃ r, (rgOfGraph g).IsRoute cap r ∧ r.head? = some u ∧ ∃ o, r.getLast? = some o ∧ o ∈ outs

theorem reachIn_iff {u : N} :
    ReachIn g cap outs u ↔ cap ∈ g.capsOf u ∧ (u ∈ outs ∨ ∃ v ∈ capSuccs g cap u, ReachIn g cap outs v) := by
  constructor
  · rintro ⟨r, hr, hh, o, hl, ho⟩
    cases r with
    | nil => simp at hh
    | cons a l =>
      simp at hh; subst hh
      cases l with
      | nil =>
        rw [isRoute_singleton] at hr
        simp at hl; subst hl
        exact ⟨by simpa [rgOfGraph] using hr, Or.inl ho⟩
      | cons b l =>
        rw [isRoute_cons_cons] at hr
        rw [getLast?_cons_cons] at hl
        obtain ⟨h1, h2, h3⟩ := hr
        refine ⟨by simpa [rgOfGraph] using h1, Or.inr ⟨b, ?_, b :: l, h3, rfl, o, hl, ho⟩⟩
        rw [mem_capSuccs]
        refine ⟨by simpa [rgOfGraph] using h2, ?_⟩
        have := h3.2.1 b List.mem_cons_self
        simpa [rgOfGraph] using this
  · rintro ⟨hu, (ho | ⟨v, hv, r, hr, hh, o, hl, ho⟩)⟩
    · exact ⟨[u], by rw [isRoute_singleton]; simpa [rgOfGraph] using hu, rfl, u, rfl, ho⟩
    · cases r with
      | nil => simp at hh
      | cons a l =>
        simp at hh; subst hh
        rw [mem_capSuccs] at hv
        refine ⟨u :: a :: l, ?_, rfl, o, by rw [getLast?_cons_cons]; exact hl, ho⟩
        rw [isRoute_cons_cons]
        exact ⟨by simpa [rgOfGraph] using hu, by simpa [rgOfGraph] using hv.1, hr⟩

theorem reachPass_inv : ∀ (rest done acc : List N),
    (∀ v, v ∈ acc ↔ v ∈ done ∧ ReachIn g cap outs v) →
    SuccFirst (capSuccs g cap) done rest → (∀ u ∈ rest, cap ∈ g.capsOf u) →
    ∀ v, v ∈ reachPass g cap outs rest acc ↔ (v ∈ done ∨ v ∈ rest) ∧ ReachIn g cap outs v
  | [], done, acc, hacc, _, _ => by
    intro v; simp [reachPass, hacc v]
  | u :: us, done, acc, hacc, hsf, hsup => by
    have hu := hsup u List.mem_cons_self
    have hcond : (decide (u ∈ outs) || (capSuccs g cap u).any (fun v => decide (v ∈ acc))) = true ↔
        ReachIn g cap outs u := by
      rw [reachIn_iff]
      simp only [Bool.or_eq_true, decide_eq_true_eq, List.any_eq_true]
      constructor
      · rintro (h | ⟨v, hv, hva⟩)
        · exact ⟨hu, Or.inl h⟩
        · exact ⟨hu, Or.inr ⟨v, hv, ((hacc v).1 hva).2⟩⟩
      · rintro ⟨_, (h | ⟨v, hv, hr⟩)⟩
        · exact Or.inl h
        · exact Or.inr ⟨v, hv, (hacc v).2 ⟨hsf.1 v hv, hr⟩⟩
    intro v
    simp only [reachPass]
    by_cases hc : (decide (u ∈ outs) || (capSuccs g cap u).any (fun v => decide (v ∈ acc))) = true
    · rw [if_pos hc]
      have hru := hcond.1 hc
      rw [reachPass_inv us (u :: done) (u :: acc) ?_ hsf.2 (fun w hw => hsup w (List.mem_cons_of_mem _ hw)) v]
      · simp only [List.mem_cons]
        constructor
        · rintro ⟨((h | h) | h), hr⟩
          · exact ⟨Or.inr (Or.inl h), hr⟩
          · exact ⟨Or.inl h, hr⟩
          · exact ⟨Or.inr (Or.inr h), hr⟩
        · rintro ⟨(h | (h | h)), hr⟩
          · exact ⟨Or.inl (Or.inr h), hr⟩
          · exact ⟨Or.inl (Or.inl h), hr⟩
          · exact ⟨Or.inr h, hr⟩
      · intro w
        simp only [List.mem_cons]
        constructor
        · rintro (rfl | h)
          · exact ⟨Or.inl rfl, hru⟩
          · exact ⟨Or.inr ((hacc w).1 h).1, ((hacc w).1 h).2⟩
        · rintro ⟨(rfl | h), hr⟩
          · exact Or.inl rfl
          · exact Or.inr ((hacc w).2 ⟨h, hr⟩)
    · rw [if_neg hc]
      have hru : ¬ ReachIn g cap outs u := fun h => hc (hcond.2 h)
      rw [reachPass_inv us (u :: done) acc ?_ hsf.2 (fun w hw => hsup w (List.mem_cons_of_mem _ hw)) v]
      · simp only [List.mem_cons]
        constructor
        · rintro ⟨((h | h) | h), hr⟩
          · exact ⟨Or.inr (Or.inl h), hr⟩
          · exact ⟨Or.inl h, hr⟩
          · exact ⟨Or.inr (Or.inr h), hr⟩
        · rintro ⟨(h | (h | h)), hr⟩
          · exact ⟨Or.inl (Or.inr h), hr⟩
          · exact ⟨Or.inl (Or.inl h), hr⟩
          · exact ⟨Or.inr h, hr⟩
      · intro w
        rw [hacc w]
        simp only [List.mem_cons]
        constructor
        · rintro ⟨h, hr⟩; exact ⟨Or.inr h, hr⟩
        · rintro ⟨(rfl | h), hr⟩
          · exact absurd hr hru
          · exact ⟨h, hr⟩

/-- **`reachPass`** over a successors-first order of supporting units computes exactly the listed units from which
a unit of `outs` is reachable through supporting units -/
theorem mem_reachPass_iff {pc : List N} (hsf : SuccFirst (capSuccs g cap) [] pc)
    (hsup : ∀ u ∈ pc, cap ∈ g.capsOf u) (v : N) :
    v ∈ reachPass g cap outs pc [] ↔ v ∈ pc ∧ ReachIn g cap outs v := by
  rw [reachPass_inv g cap outs pc [] [] (by intro v; simp) hsf hsup v]
  simp

end Reach

theorem chkFlow_ok_iff (cap : N) (reach : List N) : ∀ ports : List N,
    chkFlow cap reach ports = .ok () ↔ ∀ p ∈ ports, p ∈ reach
  | [] => by simp [chkFlow]
  | p :: ps => by
    simp only [chkFlow]
    by_cases h : p ∈ reach
    · rw [if_pos h, chkFlow_ok_iff cap reach ps]
      simp [h]
    · rw [if_neg h]
      constructor
      · intro h'; cases h'
      · intro h'; exact absurd (h' p List.mem_cons_self) h

theorem chkFlow_error (cap : N) (reach : List N) {e : LoadError N} : ∀ ports : List N,
    chkFlow cap reach ports = .error e → ∃ p ∈ ports, e = .blockedCap cap p ∧ p ∉ reach
  | [], h => by simp [chkFlow] at h
  | p :: ps, h => by
    simp only [chkFlow] at h
    by_cases hp : p ∈ reach
    · rw [if_pos hp] at h
      obtain ⟨q, hq, he, hn⟩ := chkFlow_error cap reach ps h
      exact ⟨q, List.mem_cons_of_mem _ hq, he, hn⟩
    · rw [if_neg hp] at h
      cases h
      exact ⟨p, List.mem_cons_self, rfl, hp⟩

/-! ## `capUnits`: the (capability, supporting input port) pairs -/

/-- `port` is listed under `cap` -/
def Has (m : List (N × List N)) (c p : N) : Prop := ∃ ps, (c, ps) ∈ m ∧ p ∈ ps

theorem has_addCapPort (cap port c p : N) : ∀ m : List (N × List N),
    Has (addCapPort m cap port) c p ↔ Has m c p ∨ (c = cap ∧ p = port)
  | [] => by
    simp only [addCapPort, Has, List.mem_singleton, Prod.mk.injEq, List.not_mem_nil, false_and, exists_false,
      false_or]
    constructor
    · rintro ⟨ps, ⟨h1, rfl⟩, h2⟩
      exact ⟨h1, by simpa using h2⟩
    · rintro ⟨rfl, rfl⟩
      exact ⟨[p], ⟨rfl, rfl⟩, List.mem_singleton.2 rfl⟩
  | (c0, ps0) :: rest => by
    simp only [addCapPort]
    by_cases h : c0 = cap
    · subst h
      rw [if_pos rfl]
      simp only [Has, List.mem_cons, Prod.mk.injEq]
      constructor
      · rintro ⟨ps, (⟨rfl, rfl⟩ | h1), h2⟩
        · rcases List.mem_append.1 h2 with h2 | h2
          · exact Or.inl ⟨ps0, Or.inl ⟨rfl, rfl⟩, h2⟩
          · exact Or.inr ⟨rfl, by simpa using h2⟩
        · exact Or.inl ⟨ps, Or.inr h1, h2⟩
      · rintro (⟨ps, (⟨rfl, rfl⟩ | h1), h2⟩ | ⟨rfl, rfl⟩)
        · exact ⟨ps ++ [port], Or.inl ⟨rfl, rfl⟩, List.mem_append_left _ h2⟩
        · exact ⟨ps, Or.inr h1, h2⟩
        · exact ⟨ps0 ++ [p], Or.inl ⟨rfl, rfl⟩, by simp⟩
    · rw [if_neg h]
      have ih := has_addCapPort cap port c p rest
      simp only [Has, List.mem_cons, Prod.mk.injEq] at ih ⊢
      constructor
      · rintro ⟨ps, (⟨rfl, rfl⟩ | h1), h2⟩
        · exact Or.inl ⟨ps, Or.inl ⟨rfl, rfl⟩, h2⟩
        · rcases ih.1 ⟨ps, h1, h2⟩ with ⟨ps', h3, h4⟩ | h3
          · exact Or.inl ⟨ps', Or.inr h3, h4⟩
          · exact Or.inr h3
      · rintro (⟨ps, (⟨rfl, rfl⟩ | h1), h2⟩ | h3)
        · exact ⟨ps, Or.inl ⟨rfl, rfl⟩, h2⟩
        · obtain ⟨ps', h3, h4⟩ := ih.2 (Or.inl ⟨ps, h1, h2⟩)
          exact ⟨ps', Or.inr h3, h4⟩
        · obtain ⟨ps', h3, h4⟩ := ih.2 (Or.inr h3)
          exact ⟨ps', Or.inr h3, h4⟩

theorem has_foldl_caps (port c p : N) : ∀ (caps : List N) (m : List (N × List N)),
    Has (caps.foldl (fun m c => addCapPort m c port) m) c p ↔ Has m c p ∨ (c ∈ caps ∧ p = port)
  | [], m => by simp
  | c0 :: cs, m => by
    simp only [List.foldl_cons]
    rw [has_foldl_caps port c p cs, has_addCapPort]
    simp only [List.mem_cons]
    constructor
    · rintro ((h | ⟨h1, h2⟩) | ⟨h1, h2⟩)
      · exact Or.inl h
      · exact Or.inr ⟨Or.inl h1, h2⟩
      · exact Or.inr ⟨Or.inr h1, h2⟩
    · rintro (h | ⟨(h1 | h1), h2⟩)
      · exact Or.inl (Or.inl h)
      · exact Or.inl (Or.inr ⟨h1, h2⟩)
      · exact Or.inr ⟨h1, h2⟩

theorem has_foldl_ports (capsOf : N → List N) (c p : N) : ∀ (ports : List N) (m : List (N × List N)),
    Has (ports.foldl (fun m q => (capsOf q).foldl (fun m c => addCapPort m c q) m) m) c p ↔
      Has m c p ∨ (p ∈ ports ∧ c ∈ capsOf p)
  | [], m => by simp
  | q :: qs, m => by
    simp only [List.foldl_cons]
    rw [has_foldl_ports capsOf c p qs, has_foldl_caps]
    simp only [List.mem_cons]
    constructor
    · rintro ((h | ⟨h1, rfl⟩) | ⟨h1, h2⟩)
      · exact Or.inl h
      · exact Or.inr ⟨Or.inl rfl, h1⟩
      · exact Or.inr ⟨Or.inr h1, h2⟩
    · rintro (h | ⟨(rfl | h1), h2⟩)
      · exact Or.inl (Or.inl h)
      · exact Or.inl (Or.inr ⟨h2, rfl⟩)
      · exact Or.inr ⟨h1, h2⟩

/-- **`capUnits`** lists port `p` under capability `c` iff `p` is an input port supporting `c` -/
theorem has_capUnits (g : Graph N) (c p : N) : Has (capUnits g) c p ↔ p ∈ g.inPorts ∧ c ∈ g.capsOf p := by
  unfold capUnits
  rw [has_foldl_ports]
  simp [Has]

/-! ## Successors-first orders -/

/-- `post` lists every unit, each after all of its successors (the contract of `dfs_postorder_nodes` on a DAG) -/
structure PostOrder (g : Graph N) (post : List N) : Prop where
  all : ∀ u ∈ g.names, u ∈ post
  succsBefore : ∀ l1 u l2, post = l1 ++ u :: l2 → ∀ v, (u, v) ∈ g.edges → v ∈ l1

theorem succFirst_of_split (succ : N → List N) : ∀ (rest done : List N),
    (∀ l1 u l2, rest = l1 ++ u :: l2 → ∀ v ∈ succ u, v ∈ l1 ∨ v ∈ done) → SuccFirst succ done rest
  | [], _, _ => trivial
  | u :: us, done, h => by
    refine ⟨?_, succFirst_of_split succ us (u :: done) ?_⟩
    · intro v hv
      rcases h [] u us rfl v hv with h' | h'
      · cases h'
      · exact h'
    · intro l1 w l2 hus v hv
      rcases h (u :: l1) w l2 (by rw [hus]; rfl) v hv with h' | h'
      · rcases List.mem_cons.1 h' with h'' | h''
        · exact Or.inr (h'' ▸ List.mem_cons_self)
        · exact Or.inl h''
      · exact Or.inr (List.mem_cons_of_mem _ h')

/-- the supporting units of a successors-first order are processed capability-successors-first -/
theorem succFirst_filter {g : Graph N} {post : List N} (hp : PostOrder g post) (cap : N) :
    SuccFirst (capSuccs g cap) [] (post.filter (fun u => decide (cap ∈ g.capsOf u))) := by
  apply succFirst_of_split
  intro l1 u l2 hf v hv
  left
  rw [List.filter_eq_append_iff] at hf
  obtain ⟨m1, m2, hpost, h1, h2⟩ := hf
  rw [List.filter_eq_cons_iff] at h2
  obtain ⟨n1, n2, hm2, hn1, hu, hn2⟩ := h2
  rw [mem_capSuccs] at hv
  have := hp.succsBefore (m1 ++ n1) u n2 (by rw [hpost, hm2]; simp) v hv.1
  rw [← h1]
  rcases List.mem_append.1 this with h | h
  · exact List.mem_filter.2 ⟨h, by simpa using hv.2⟩
  · have := hn1 v h
    simp at this
    exact absurd hv.2 this

theorem mem_pc {g : Graph N} {post : List N} (hp : PostOrder g post) {cap u : N} :
    u ∈ post.filter (fun u => decide (cap ∈ g.capsOf u)) ↔ (u ∈ post ∧ cap ∈ g.capsOf u) := by
  simp [List.mem_filter]

theorem mem_pc_of_capsOf {g : Graph N} {post : List N} (hp : PostOrder g post) {cap u : N} (h : cap ∈ g.capsOf u) :
    u ∈ post.filter (fun u => decide (cap ∈ g.capsOf u)) :=
  (mem_pc hp).2 ⟨hp.all u (mem_names_of_capsOf h), h⟩

/-! ## `chkCapList` -/

section CapList
variable (g : Graph N) (post outs : List N) (multi : Bool)

/-- the three checks `_do_cap_checks` runs for one capability all pass -/
def CapPasses (cp : N × List N) : Prop :=
  ∃ L, lockPass g cp.1 (post.filter (fun u => decide (cp.1 ∈ g.capsOf u))) [] = .ok L ∧
    chkInLocks cp.1 L cp.2 = .ok () ∧
    (multi = true → chkFlow cp.1 (reachPass g cp.1 outs (post.filter (fun u => decide (cp.1 ∈ g.capsOf u))) []) cp.2 = .ok ())

/-- one of the three checks for one capability fails with `e` -/
def CapFails (e : LoadError N) (cp : N × List N) : Prop :=
  lockPass g cp.1 (post.filter (fun u => decide (cp.1 ∈ g.capsOf u))) [] = .error e ∨
  (∃ L, lockPass g cp.1 (post.filter (fun u => decide (cp.1 ∈ g.capsOf u))) [] = .ok L ∧
    chkInLocks cp.1 L cp.2 = .error e) ∨
  (multi = true ∧
    chkFlow cp.1 (reachPass g cp.1 outs (post.filter (fun u => decide (cp.1 ∈ g.capsOf u))) []) cp.2 = .error e)

theorem chkCapList_cases : ∀ l : List (N × List N),
    (chkCapList g post outs multi l = .ok () ∧ ∀ cp ∈ l, CapPasses g post outs multi cp) ∨
    (∃ e, chkCapList g post outs multi l = .error e ∧ ∃ cp ∈ l, CapFails g post outs multi e cp)
  | [] => by left; exact ⟨rfl, by intro cp h; cases h⟩
  | (cap, ports) :: rest => by
    have ih := chkCapList_cases rest
    simp only [chkCapList]
    cases h1 : lockPass g cap (post.filter (fun u => decide (cap ∈ g.capsOf u))) [] with
    | error e => right; exact ⟨e, rfl, (cap, ports), List.mem_cons_self, Or.inl h1⟩
    | ok L =>
      simp only []
      cases h2 : chkInLocks cap L ports with
      | error e => right; exact ⟨e, rfl, (cap, ports), List.mem_cons_self, Or.inr (Or.inl ⟨L, h1, h2⟩)⟩
      | ok x =>
        simp only []
        cases multi with
        | false =>
          simp only [Bool.false_eq_true, if_false]
          rcases ih with ⟨hok, hall⟩ | ⟨e, herr, cp, hcp, hf⟩
          · left
            refine ⟨hok, ?_⟩
            intro cp hcp
            rcases List.mem_cons.1 hcp with rfl | hcp
            · exact ⟨L, h1, h2, by intro h; cases h⟩
            · exact hall cp hcp
          · right; exact ⟨e, herr, cp, List.mem_cons_of_mem _ hcp, hf⟩
        | true =>
          simp only [if_true]
          cases h3 : chkFlow cap (reachPass g cap outs (post.filter (fun u => decide (cap ∈ g.capsOf u))) []) ports with
          | error e => right; exact ⟨e, rfl, (cap, ports), List.mem_cons_self, Or.inr (Or.inr ⟨rfl, h3⟩)⟩
          | ok y =>
            simp only []
            rcases ih with ⟨hok, hall⟩ | ⟨e, herr, cp, hcp, hf⟩
            · left
              refine ⟨hok, ?_⟩
              intro cp hcp
              rcases List.mem_cons.1 hcp with rfl | hcp
              · exact ⟨L, h1, h2, fun _ => h3⟩
              · exact hall cp hcp
            · right; exact ⟨e, herr, cp, List.mem_cons_of_mem _ hcp, hf⟩

end CapList

/-! ## Route prefixes -/

theorem lockCount_append (R : RG N) (t : LockType) (a b : List N) :
    R.lockCount t (a ++ b) = R.lockCount t a + R.lockCount t b := by
  unfold RG.lockCount
  rw [List.filter_append, List.length_append]

/-- a route from `p` to `u` prolongs every maximal route from `u` to a maximal route from `p` -/
theorem exists_prefix (g : Graph N) (cap u : N) : ∀ (r0 : List N) (p : N), (rgOfGraph g).IsRoute cap r0 →
    r0.head? = some p → r0.getLast? = some u →
    ∃ pre : List N, ∀ r, MaxRouteFrom g cap u r → MaxRouteFrom g cap p (pre ++ r)
  | [], p, _, hh, _ => by simp at hh
  | [a], p, _, hh, hl => by
    simp at hh hl; subst hh hl
    exact ⟨[], fun r hr => hr⟩
  | a :: b :: l, p, hr0, hh, hl => by
    simp at hh; subst hh
    rw [isRoute_cons_cons] at hr0
    rw [getLast?_cons_cons] at hl
    obtain ⟨pre, hpre⟩ := exists_prefix g cap u (b :: l) b hr0.2.2 rfl hl
    refine ⟨a :: pre, fun r hr => ?_⟩
    rw [maxRouteFrom_iff]
    refine ⟨by simpa [rgOfGraph] using hr0.1, Or.inr ⟨b, pre ++ r, rfl, ?_, hpre r hr⟩⟩
    rw [mem_capSuccs]
    refine ⟨by simpa [rgOfGraph] using hr0.2.1, ?_⟩
    have := hr0.2.2.2.1 b List.mem_cons_self
    simpa [rgOfGraph] using this

/-- a lock defect at a unit fed from `p` is a lock defect at `p` -/
theorem not_locksExact_of_bad {g : Graph N} {cap u p : N} {t : LockType} {r0 : List N}
    (hr0 : (rgOfGraph g).IsRoute cap r0) (hh : r0.head? = some p) (hl : r0.getLast? = some u)
    (hbad : Bad g cap t u) : ¬ (rgOfGraph g).LocksExact cap p := by
  obtain ⟨pre, hpre⟩ := exists_prefix g cap u r0 p hr0 hh hl
  intro hex
  have key : ∀ r, MaxRouteFrom g cap u r → (rgOfGraph g).lockCount t pre + (rgOfGraph g).lockCount t r = 1 := by
    intro r hr
    have h1 := hpre r hr
    have h2 := hex (pre ++ r) h1.1 h1.2
    rw [← lockCount_append]
    cases t
    · exact h2.1
    · exact h2.2
  rcases hbad with ⟨r, hr, h2⟩ | ⟨r1, r2, h1, h2, hne⟩
  · have := key r hr; omega
  · have := key r1 h1; have := key r2 h2; omega

/-! ## The per-capability checks as a whole -/

theorem mem_of_getLast?_some {α : Type} : ∀ {l : List α} {a : α}, l.getLast? = some a → a ∈ l
  | [], _, h => by simp at h
  | [x], a, h => by simp at h; subst h; exact List.mem_cons_self
  | x :: y :: l, a, h => by
    rw [getLast?_cons_cons] at h
    exact List.mem_cons_of_mem _ (mem_of_getLast?_some h)

theorem mem_of_head?_some {α : Type} : ∀ {l : List α} {a : α}, l.head? = some a → a ∈ l
  | [], _, h => by simp at h
  | x :: l, a, h => by simp at h; subst h; exact List.mem_cons_self

theorem isOut_iff_mem_outPorts {g : Graph N} (hin : ∀ e ∈ g.edges, e.1 ∈ g.names ∧ e.2 ∈ g.names) {o : N}
    (ho : o ∈ g.names) : (rgOfGraph g).isOut o = true ↔ o ∈ g.outPorts := by
  unfold RG.isOut RG.succs Graph.outPorts
  rw [List.mem_filter, List.isEmpty_iff, List.isEmpty_iff, List.eq_nil_iff_forall_not_mem,
    List.eq_nil_iff_forall_not_mem]
  simp only [List.mem_filter, rgOfGraph, decide_eq_true_eq, mem_succs, not_and]
  constructor
  · intro h
    exact ⟨ho, fun v hv => h v (hin _ hv).2 hv⟩
  · intro h v _ hv
    exact h.2 v hv

theorem reachesOut_iff {g : Graph N} (hin : ∀ e ∈ g.edges, e.1 ∈ g.names ∧ e.2 ∈ g.names) {c u : N} :
    (rgOfGraph g).ReachesOut c u ↔ ReachIn g c g.outPorts u := by
  unfold RG.ReachesOut ReachIn
  constructor
  · rintro ⟨r, hr, hh, o, hl, ho⟩
    refine ⟨r, hr, hh, o, hl, (isOut_iff_mem_outPorts hin ?_).1 ho⟩
    have := hr.2.1 o (mem_of_getLast?_some hl)
    exact mem_names_of_capsOf (c := c) (by simpa [rgOfGraph] using this)
  · rintro ⟨r, hr, hh, o, hl, ho⟩
    refine ⟨r, hr, hh, o, hl, (isOut_iff_mem_outPorts hin ?_).2 ho⟩
    have := hr.2.1 o (mem_of_getLast?_some hl)
    exact mem_names_of_capsOf (c := c) (by simpa [rgOfGraph] using this)

theorem locksExact_iff {g : Graph N} {c p : N} :
    (rgOfGraph g).LocksExact c p ↔ ∀ r, MaxRouteFrom g c p r → ∀ t, (rgOfGraph g).lockCount t r = 1 := by
  unfold RG.LocksExact MaxRouteFrom
  constructor
  · intro h r hr t
    cases t
    · exact (h r hr.1 hr.2).1
    · exact (h r hr.1 hr.2).2
  · intro h r h1 h2
    exact ⟨h r ⟨h1, h2⟩ .read, h r ⟨h1, h2⟩ .write⟩

section Main
variable {g : Graph N} {post : List N} {multi : Bool}

/-- **accepting run of `_do_cap_checks`**: every capability offered at an input port crosses exactly one read lock
and one write lock on every maximal route, and reaches an output port -/
theorem chkCapList_capUnits_ok (hp : PostOrder g post) (hin : ∀ e ∈ g.edges, e.1 ∈ g.names ∧ e.2 ∈ g.names)
    (hsingle : multi = false → ∀ p ∈ g.inPorts, p ∈ g.outPorts)
    (h : chkCapList g post g.outPorts multi (capUnits g) = .ok ()) :
    ∀ p ∈ g.inPorts, ∀ c ∈ g.capsOf p, (rgOfGraph g).LocksExact c p ∧ (rgOfGraph g).ReachesOut c p := by
  intro p hpi c hc
  obtain ⟨ps, hmem, hps⟩ := (has_capUnits g c p).2 ⟨hpi, hc⟩
  rcases chkCapList_cases g post g.outPorts multi (capUnits g) with ⟨_, hall⟩ | ⟨e, herr, _⟩
  · obtain ⟨L, hlock, hinl, hflow⟩ := hall (c, ps) hmem
    have hsf := succFirst_filter hp c
    have hsup : ∀ u ∈ post.filter (fun u => decide (c ∈ g.capsOf u)), c ∈ g.capsOf u := fun u hu => ((mem_pc hp).1 hu).2
    have hcor := lockPass_ok g c hsf hsup hlock p (mem_pc_of_capsOf hp hc)
    have hnz := (chkInLocks_ok_iff c L ps).1 hinl p hps
    constructor
    · rw [locksExact_iff]
      intro r hr t
      have h1 := (hcor.2 t).1
      have h2 := (hcor.2 t).2 r hr
      have h3 := hnz t
      omega
    · rw [reachesOut_iff hin]
      cases hm : multi with
      | true =>
        have := (chkFlow_ok_iff c _ ps).1 (hflow hm) p hps
        exact ((mem_reachPass_iff g c g.outPorts hsf hsup p).1 this).2
      | false =>
        rw [reachIn_iff]
        exact ⟨hc, Or.inl (hsingle hm p hpi)⟩
  · rw [h] at herr; cases herr

/-- **rejecting run of `_do_cap_checks`**: the error names a real culprit -/
theorem chkCapList_capUnits_error (hp : PostOrder g post) (hin : ∀ e ∈ g.edges, e.1 ∈ g.names ∧ e.2 ∈ g.names)
    {e : LoadError N} (h : chkCapList g post g.outPorts multi (capUnits g) = .error e) :
    (∃ u t c, e = .pathLock u t c ∧ c ∈ g.capsOf u ∧
      (Bad g c t u ∨ (u ∈ g.inPorts ∧ ∃ r, MaxRouteFrom g c u r ∧ (rgOfGraph g).lockCount t r = 0))) ∨
    (∃ c p, e = .blockedCap c p ∧ p ∈ g.inPorts ∧ c ∈ g.capsOf p ∧ ¬ (rgOfGraph g).ReachesOut c p) := by
  rcases chkCapList_cases g post g.outPorts multi (capUnits g) with ⟨hok, _⟩ | ⟨e', herr, ⟨c, ps⟩, hmem, hf⟩
  · rw [h] at hok; cases hok
  · rw [h] at herr
    cases herr
    have hsf := succFirst_filter hp c
    have hsup : ∀ u ∈ post.filter (fun u => decide (c ∈ g.capsOf u)), c ∈ g.capsOf u := fun u hu => ((mem_pc hp).1 hu).2
    rcases hf with hl | ⟨L, hl, hi⟩ | ⟨_, hfl⟩
    · obtain ⟨u, t, hu, he, hbad⟩ := lockPass_error g c hsf hsup hl
      left
      exact ⟨u, t, c, he, hsup u hu, Or.inl hbad⟩
    · obtain ⟨p, t, hps, he, h0⟩ := chkInLocks_error c L ps hi
      have hpc := (has_capUnits g c p).1 ⟨ps, hmem, hps⟩
      have hcor := lockPass_ok g c hsf hsup hl p (mem_pc_of_capsOf hp hpc.2)
      obtain ⟨r, hr⟩ := hcor.1
      left
      refine ⟨p, t, c, he, hpc.2, Or.inr ⟨hpc.1, r, hr, ?_⟩⟩
      rw [(hcor.2 t).2 r hr, h0]
    · obtain ⟨p, hps, he, hnot⟩ := chkFlow_error c _ ps hfl
      have hpc := (has_capUnits g c p).1 ⟨ps, hmem, hps⟩
      right
      refine ⟨c, p, he, hpc.1, hpc.2, ?_⟩
      rw [reachesOut_iff hin]
      intro hr
      exact hnot ((mem_reachPass_iff g c g.outPorts hsf hsup p).2 ⟨mem_pc_of_capsOf hp hpc.2, hr⟩)

/-- every unit supporting a capability is fed with it from an input port through supporting units
(what `clean_struct` and the dead-end removal leave behind) -/
def FedFromInputs (g : Graph N) : Prop :=
  ∀ u c, c ∈ g.capsOf u → ∃ p ∈ g.inPorts, ∃ r0, (rgOfGraph g).IsRoute c r0 ∧ r0.head? = some p ∧ r0.getLast? = some u

/-- a rejecting run means that some capability offered at an input port has a lock defect or reaches no output -/
theorem chkCapList_capUnits_error_port (hp : PostOrder g post) (hin : ∀ e ∈ g.edges, e.1 ∈ g.names ∧ e.2 ∈ g.names)
    (hfed : FedFromInputs g) {e : LoadError N} (h : chkCapList g post g.outPorts multi (capUnits g) = .error e) :
    (e.cls = .pathLock ∧ ∃ p ∈ g.inPorts, ∃ c ∈ g.capsOf p, ¬ (rgOfGraph g).LocksExact c p) ∨
    (e.cls = .blockedCap ∧ ∃ p ∈ g.inPorts, ∃ c ∈ g.capsOf p, ¬ (rgOfGraph g).ReachesOut c p) := by
  rcases chkCapList_capUnits_error hp hin h with ⟨u, t, c, he, hc, hb⟩ | ⟨c, p, he, hpi, hc, hno⟩
  · left
    subst he
    refine ⟨rfl, ?_⟩
    rcases hb with hbad | ⟨hui, r, hr, h0⟩
    · obtain ⟨p, hpi, r0, hr0, hh, hl⟩ := hfed u c hc
      have hpc : c ∈ g.capsOf p := by
        have := hr0.2.1 p (mem_of_head?_some hh)
        simpa [rgOfGraph] using this
      exact ⟨p, hpi, c, hpc, not_locksExact_of_bad hr0 hh hl hbad⟩
    · refine ⟨u, hui, c, hc, ?_⟩
      rw [locksExact_iff]
      intro hex
      have := hex r hr t
      omega
  · right
    subst he
    exact ⟨rfl, p, hpi, c, hc, hno⟩

/-- **completeness of `_do_cap_checks`**: without a lock defect and without a blocked capability the checks pass -/
theorem chkCapList_capUnits_complete (hp : PostOrder g post) (hin : ∀ e ∈ g.edges, e.1 ∈ g.names ∧ e.2 ∈ g.names)
    (hfed : FedFromInputs g)
    (hall : ∀ p ∈ g.inPorts, ∀ c ∈ g.capsOf p, (rgOfGraph g).LocksExact c p ∧ (rgOfGraph g).ReachesOut c p) :
    chkCapList g post g.outPorts multi (capUnits g) = .ok () := by
  cases h : chkCapList g post g.outPorts multi (capUnits g) with
  | ok x => rfl
  | error e =>
    rcases chkCapList_capUnits_error_port hp hin hfed h with ⟨_, p, hpi, c, hc, hno⟩ | ⟨_, p, hpi, c, hc, hno⟩
    · exact absurd (hall p hpi c hc).1 hno
    · exact absurd (hall p hpi c hc).2 hno

end Main

end LoaderLocks
end Loader
end ProcSim
