import ProcSim.Lemmas.LoaderGraph
import ProcSim.Lemmas.LoaderLocks
/-!
# The `Bool` checkers of `Spec/Loader.lean` on capability graphs decide the declarative notions

Core Lean only.  For a capability graph `R : Spec.RG N` whose connections end in listed units (`ConnIn`):

* `acyclicB_iff` — `R.acyclicB = true ↔ R.Acyclic` (a closed walk can be repeated for ever; conversely a walk
  through `|names| + 1` listed units repeats a unit — pigeonhole);
* `mem_maxRoutes_iff` — on an acyclic graph `R.maxRoutes c u` lists exactly the maximal `c`-routes from `u`;
* `reachesOutB_iff`, `locksExactB_iff` — the route checkers decide `ReachesOut` / `LocksExact`;
* `RGEquiv` — two capability graphs with the same units (as sets), connections, capabilities and locks satisfy the
  same declarative statements (used to move between the loader's working graph, the processor object and the
  usable part of a description).
-/
set_option linter.unusedSectionVars false
set_option linter.unusedSimpArgs false
set_option linter.unusedVariables false

namespace ProcSim
namespace Loader
namespace LoaderRoutes
open Spec LoaderLocks

variable {N : Type} [DecidableEq N]

/-! ## Pigeonhole -/

theorem exists_dup_split : ∀ (l : List N), ¬ l.Nodup → ∃ x l1 l2 l3, l = l1 ++ x :: l2 ++ x :: l3
  | [], h => absurd List.nodup_nil h
  | a :: t, h => by
    by_cases ha : a ∈ t
    · obtain ⟨l2, l3, ht⟩ := List.append_of_mem ha
      exact ⟨a, [], l2, l3, by simp [ht]⟩
    · have : ¬ t.Nodup := fun hn => h (List.nodup_cons.2 ⟨ha, hn⟩)
      obtain ⟨x, l1, l2, l3, ht⟩ := exists_dup_split t this
      exact ⟨x, a :: l1, l2, l3, by simp [ht]⟩

section RGfacts
variable (R : RG N)

/-- connections end in listed units -/
def ConnIn : Prop := ∀ a b, R.conn a b = true → b ∈ R.names

theorem mem_rg_succs {u v : N} : v ∈ R.succs u ↔ v ∈ R.names ∧ R.conn u v = true := by
  simp [RG.succs, List.mem_filter]

theorem mem_rg_preds {u v : N} : v ∈ R.preds u ↔ v ∈ R.names ∧ R.conn v u = true := by
  simp [RG.preds, List.mem_filter]

theorem walk_cons_cons {a b : N} {l : List N} : R.Walk (a :: b :: l) ↔ R.conn a b = true ∧ R.Walk (b :: l) := Iff.rfl

theorem walk_mem_names (hc : ConnIn R) : ∀ (l : List N) (u : N), R.Walk (u :: l) → ∀ v ∈ l, v ∈ R.names
  | [], _, _, v, hv => by cases hv
  | b :: l, u, hw, v, hv => by
    rw [walk_cons_cons] at hw
    rcases List.mem_cons.1 hv with rfl | hv
    · exact hc _ _ hw.1
    · exact walk_mem_names hc l b hw.2 v hv

/-- a walk that repeats a unit contains a closed walk -/
theorem closed_of_not_nodup {r : List N} (hw : R.Walk r) (hnd : ¬ r.Nodup) : ∃ u l, R.Walk (u :: l ++ [u]) := by
  obtain ⟨x, l1, l2, l3, rfl⟩ := exists_dup_split r hnd
  refine ⟨x, l2, ?_⟩
  unfold RG.Walk at *
  have h1 : l1 ++ x :: l2 ++ x :: l3 = l1 ++ ((x :: l2 ++ [x]) ++ l3) := by simp
  rw [h1] at hw
  exact (WalkR_append.1 (WalkR_append.1 hw).2.1).1

theorem nodup_of_acyclic (ha : R.Acyclic) {r : List N} (hw : R.Walk r) : r.Nodup := by
  apply Classical.byContradiction
  intro hnd
  exact ha (closed_of_not_nodup R hw hnd)

theorem longWalkFrom_iff : ∀ (k : Nat) (u : N),
    R.longWalkFrom k u = true ↔ ∃ l : List N, l.length = k ∧ R.Walk (u :: l) ∧ ∀ v ∈ l, v ∈ R.names
  | 0, u => ⟨fun _ => ⟨[], rfl, trivial, by intro v hv; cases hv⟩, fun _ => rfl⟩
  | k + 1, u => by
    simp only [RG.longWalkFrom, List.any_eq_true]
    constructor
    · rintro ⟨v, hv, hk⟩
      obtain ⟨l, hl, hw, hn⟩ := (longWalkFrom_iff k v).1 hk
      rw [mem_rg_succs] at hv
      refine ⟨v :: l, by simp [hl], (walk_cons_cons R).2 ⟨hv.2, hw⟩, ?_⟩
      intro x hx
      rcases List.mem_cons.1 hx with rfl | hx
      · exact hv.1
      · exact hn x hx
    · rintro ⟨l, hl, hw, hn⟩
      cases l with
      | nil => simp at hl
      | cons v l =>
        rw [walk_cons_cons] at hw
        exact ⟨v, (mem_rg_succs R).2 ⟨hn v List.mem_cons_self, hw.1⟩,
          (longWalkFrom_iff k v).2 ⟨l, by simpa using hl, hw.2, fun x hx => hn x (List.mem_cons_of_mem _ hx)⟩⟩

/-- in a walk `r ++ [z]` every unit of `r` has a successor in `r ++ [z]` -/
theorem walk_next : ∀ (r : List N) (z : N), R.Walk (r ++ [z]) → ∀ x ∈ r, ∃ y, (y ∈ r ∨ y = z) ∧ R.conn x y = true
  | [], _, _, x, hx => by cases hx
  | [a], z, hw, x, hx => by
    simp at hx; subst hx
    exact ⟨z, Or.inr rfl, hw.1⟩
  | a :: b :: t, z, hw, x, hx => by
    have hw' : R.Walk (a :: b :: (t ++ [z])) := hw
    rw [walk_cons_cons] at hw'
    rcases List.mem_cons.1 hx with rfl | hx
    · exact ⟨b, Or.inl (by simp), hw'.1⟩
    · obtain ⟨y, hy, hc⟩ := walk_next (b :: t) z hw'.2 x hx
      refine ⟨y, ?_, hc⟩
      rcases hy with hy | hy
      · exact Or.inl (List.mem_cons_of_mem _ hy)
      · exact Or.inr hy

/-- **`acyclicB` decides `Acyclic`** -/
theorem acyclicB_iff (hc : ConnIn R) : R.acyclicB = true ↔ R.Acyclic := by
  unfold RG.acyclicB
  simp only [List.all_eq_true, Bool.not_eq_true']
  constructor
  · intro hB
    rintro ⟨u, l, hw⟩
    have hw' : R.Walk ((u :: l) ++ [u]) := hw
    have hnext : ∀ x ∈ u :: l, ∃ y ∈ u :: l, R.conn x y = true := by
      intro x hx
      obtain ⟨y, hy, hxy⟩ := walk_next R (u :: l) u hw' x hx
      refine ⟨y, ?_, hxy⟩
      rcases hy with hy | hy
      · exact hy
      · exact hy ▸ List.mem_cons_self
    have hall : ∀ k, ∀ x ∈ u :: l, R.longWalkFrom k x = true := by
      intro k
      induction k with
      | zero => intro x _; rfl
      | succ k ih =>
        intro x hx
        obtain ⟨y, hy, hxy⟩ := hnext x hx
        simp only [RG.longWalkFrom, List.any_eq_true]
        exact ⟨y, (mem_rg_succs R).2 ⟨hc _ _ hxy, hxy⟩, ih y hy⟩
    obtain ⟨y, hy, hxy⟩ := hnext u List.mem_cons_self
    have := hB y (hc _ _ hxy)
    rw [hall _ y hy] at this
    cases this
  · intro ha u hu
    cases h : R.longWalkFrom R.names.length u with
    | false => rfl
    | true =>
      obtain ⟨l, hl, hw, hn⟩ := (longWalkFrom_iff R _ u).1 h
      have hnd := nodup_of_acyclic R ha hw
      have hsub : ∀ x ∈ u :: l, x ∈ R.names := by
        intro x hx
        rcases List.mem_cons.1 hx with rfl | hx
        · exact hu
        · exact hn x hx
      have := List.Nodup.length_le_of_subset hnd hsub
      simp at this
      omega

/-! ## Route enumeration -/

theorem mem_routesFrom (hc : ConnIn R) (c : N) : ∀ (k : Nat) (u : N) (r : List N), R.sup u c = true →
    (r ∈ R.routesFrom c k u ↔ r.head? = some u ∧ R.IsRoute c r ∧
      ((R.IsMaxRoute c r ∧ r.length ≤ k + 1) ∨ r.length = k + 1))
  | 0, u, r, hu => by
    simp only [RG.routesFrom, List.mem_singleton]
    constructor
    · rintro rfl
      exact ⟨rfl, (isRoute_singleton R).2 hu, Or.inr rfl⟩
    · rintro ⟨hh, _, hlen⟩
      cases r with
      | nil => simp at hh
      | cons a t =>
        simp at hh; subst hh
        have : t.length = 0 := by
          rcases hlen with ⟨_, h⟩ | h
          · simp only [List.length_cons] at h; omega
          · simp only [List.length_cons] at h; omega
        rw [List.eq_nil_of_length_eq_zero this]
  | k + 1, u, r, hu => by
    have hnx : ∀ v, v ∈ (R.succs u).filter (fun v => R.sup v c) ↔ v ∈ R.names ∧ R.conn u v = true ∧ R.sup v c = true := by
      intro v; rw [List.mem_filter, mem_rg_succs]; exact and_assoc
    simp only [RG.routesFrom]
    by_cases hemp : ((R.succs u).filter (fun v => R.sup v c)).isEmpty = true
    · rw [if_pos hemp]
      rw [List.isEmpty_iff] at hemp
      simp only [List.mem_singleton]
      constructor
      · rintro rfl
        refine ⟨rfl, (isRoute_singleton R).2 hu, Or.inl ⟨?_, by simp⟩⟩
        rw [isMaxRoute_singleton]
        refine ⟨hu, ?_⟩
        intro v hv hcv
        have : v ∈ (R.succs u).filter (fun v => R.sup v c) := (hnx v).2 ⟨hv, hcv.1, hcv.2⟩
        rw [hemp] at this
        cases this
      · rintro ⟨hh, hr, _⟩
        cases r with
        | nil => simp at hh
        | cons a t =>
          simp at hh; subst hh
          cases t with
          | nil => rfl
          | cons v t' =>
            rw [isRoute_cons_cons] at hr
            have hv : R.sup v c = true := hr.2.2.2.1 v List.mem_cons_self
            have : v ∈ (R.succs a).filter (fun v => R.sup v c) := (hnx v).2 ⟨hc _ _ hr.2.1, hr.2.1, hv⟩
            rw [hemp] at this
            cases this
    · rw [if_neg hemp]
      simp only [List.mem_flatMap, List.mem_map]
      constructor
      · rintro ⟨v, hv, r', hr', rfl⟩
        rw [hnx] at hv
        obtain ⟨hh, hr, hd⟩ := (mem_routesFrom hc c k v r' hv.2.2).1 hr'
        cases r' with
        | nil => simp at hh
        | cons a t' =>
          simp at hh; subst hh
          refine ⟨rfl, (isRoute_cons_cons R).2 ⟨hu, hv.2.1, hr⟩, ?_⟩
          rcases hd with ⟨hm, hl⟩ | hl
          · exact Or.inl ⟨(isMaxRoute_cons_cons R).2 ⟨hu, hv.2.1, hm⟩, by simp at hl ⊢; omega⟩
          · exact Or.inr (by simp at hl ⊢; omega)
      · rintro ⟨hh, hr, hd⟩
        cases r with
        | nil => simp at hh
        | cons a t =>
          simp at hh; subst hh
          cases t with
          | nil =>
            exfalso
            rcases hd with ⟨hm, _⟩ | hl
            · rw [isMaxRoute_singleton] at hm
              apply hemp
              rw [List.isEmpty_iff, List.eq_nil_iff_forall_not_mem]
              intro v hv
              rw [hnx] at hv
              exact hm.2 v hv.1 hv.2
            · simp at hl
          | cons v t' =>
            rw [isRoute_cons_cons] at hr
            have hv : R.sup v c = true := hr.2.2.2.1 v List.mem_cons_self
            refine ⟨v, (hnx v).2 ⟨hc _ _ hr.2.1, hr.2.1, hv⟩, v :: t', ?_, rfl⟩
            rw [mem_routesFrom hc c k v (v :: t') hv]
            refine ⟨rfl, hr.2.2, ?_⟩
            rcases hd with ⟨hm, hl⟩ | hl
            · rw [isMaxRoute_cons_cons] at hm
              exact Or.inl ⟨hm.2.2, by simp at hl ⊢; omega⟩
            · exact Or.inr (by simp at hl ⊢; omega)

theorem route_length_le (hc : ConnIn R) (ha : R.Acyclic) {c u : N} {r : List N} (hu : u ∈ R.names)
    (hr : R.IsRoute c r) (hh : r.head? = some u) : r.length ≤ R.names.length := by
  cases r with
  | nil => simp
  | cons a t =>
    simp at hh; subst hh
    have hnd := nodup_of_acyclic R ha hr.2.2
    apply List.Nodup.length_le_of_subset hnd
    intro x hx
    rcases List.mem_cons.1 hx with rfl | hx
    · exact hu
    · exact walk_mem_names R hc t _ hr.2.2 x hx

/-- **`maxRoutes`** lists exactly the maximal routes -/
theorem mem_maxRoutes_iff (hc : ConnIn R) (ha : R.Acyclic) {c u : N} (hu : u ∈ R.names) (hs : R.sup u c = true)
    {r : List N} : r ∈ R.maxRoutes c u ↔ R.IsMaxRoute c r ∧ r.head? = some u := by
  unfold RG.maxRoutes
  rw [mem_routesFrom R hc c _ u r hs]
  constructor
  · rintro ⟨hh, hr, hd⟩
    rcases hd with ⟨hm, _⟩ | hl
    · exact ⟨hm, hh⟩
    · have := route_length_le R hc ha hu hr hh
      omega
  · rintro ⟨hm, hh⟩
    refine ⟨hh, hm.1, Or.inl ⟨hm, ?_⟩⟩
    have := route_length_le R hc ha hu hm.1 hh
    omega

theorem isOut_iff {o : N} : R.isOut o = true ↔ ∀ v ∈ R.names, R.conn o v ≠ true := by
  unfold RG.isOut
  rw [List.isEmpty_iff, List.eq_nil_iff_forall_not_mem]
  constructor
  · intro h v hv hcv; exact h v ((mem_rg_succs R).2 ⟨hv, hcv⟩)
  · intro h v hv; rw [mem_rg_succs] at hv; exact h v hv.1 hv.2

theorem isIn_iff {o : N} : R.isIn o = true ↔ ∀ v ∈ R.names, R.conn v o ≠ true := by
  unfold RG.isIn
  rw [List.isEmpty_iff, List.eq_nil_iff_forall_not_mem]
  constructor
  · intro h v hv hcv; exact h v ((mem_rg_preds R).2 ⟨hv, hcv⟩)
  · intro h v hv; rw [mem_rg_preds] at hv; exact h v hv.1 hv.2

/-- **`reachesOutB` decides `ReachesOut`** -/
theorem reachesOutB_iff (hc : ConnIn R) (ha : R.Acyclic) {c u : N} (hu : u ∈ R.names) (hs : R.sup u c = true) :
    R.reachesOutB c u = true ↔ R.ReachesOut c u := by
  unfold RG.reachesOutB RG.ReachesOut
  simp only [List.any_eq_true]
  constructor
  · rintro ⟨r, hr, hl⟩
    rw [mem_maxRoutes_iff R hc ha hu hs] at hr
    split at hl
    next o ho => exact ⟨r, hr.1.1, hr.2, o, ho, hl⟩
    · cases hl
  · rintro ⟨r, hr, hh, o, hl, ho⟩
    refine ⟨r, (mem_maxRoutes_iff R hc ha hu hs).2 ⟨⟨hr, ?_⟩, hh⟩, by rw [hl]; exact ho⟩
    intro o' ho' v hv hcv
    rw [hl] at ho'
    cases ho'
    exact (isOut_iff R).1 ho v hv hcv.1

/-- **`locksExactB` decides `LocksExact`** -/
theorem locksExactB_iff (hc : ConnIn R) (ha : R.Acyclic) {c u : N} (hu : u ∈ R.names) (hs : R.sup u c = true) :
    R.locksExactB c u = true ↔ R.LocksExact c u := by
  unfold RG.locksExactB RG.LocksExact
  simp only [List.all_eq_true, Bool.and_eq_true, beq_iff_eq]
  constructor
  · intro h r hm hh
    exact h r ((mem_maxRoutes_iff R hc ha hu hs).2 ⟨hm, hh⟩)
  · intro h r hr
    rw [mem_maxRoutes_iff R hc ha hu hs] at hr
    exact h r hr.1 hr.2

end RGfacts

/-! ## Capability graphs that say the same -/

/-- same units (as sets), same connections, capabilities and locks -/
structure RGEquiv (A B : RG N) : Prop where
  names : ∀ u, u ∈ A.names ↔ u ∈ B.names
  conn : ∀ a b, A.conn a b = B.conn a b
  sup : ∀ u c, A.sup u c = B.sup u c
  lock : ∀ t u, A.lock t u = B.lock t u

namespace RGEquiv
variable {A B : RG N}

theorem symm (h : RGEquiv A B) : RGEquiv B A :=
  ⟨fun u => (h.names u).symm, fun a b => (h.conn a b).symm, fun u c => (h.sup u c).symm, fun t u => (h.lock t u).symm⟩

theorem conn_eq (h : RGEquiv A B) : A.conn = B.conn := funext fun a => funext fun b => h.conn a b
theorem sup_eq (h : RGEquiv A B) : A.sup = B.sup := funext fun a => funext fun b => h.sup a b
theorem lock_eq (h : RGEquiv A B) : A.lock = B.lock := funext fun a => funext fun b => h.lock a b

theorem walk_iff (h : RGEquiv A B) (r : List N) : A.Walk r ↔ B.Walk r := by
  unfold RG.Walk; rw [h.conn_eq]

theorem acyclic_iff (h : RGEquiv A B) : A.Acyclic ↔ B.Acyclic := by
  unfold RG.Acyclic
  simp only [h.walk_iff]

theorem isRoute_iff (h : RGEquiv A B) (c : N) (r : List N) : A.IsRoute c r ↔ B.IsRoute c r := by
  unfold RG.IsRoute
  rw [h.walk_iff, h.sup_eq]

theorem isMaxRoute_iff (h : RGEquiv A B) (c : N) (r : List N) : A.IsMaxRoute c r ↔ B.IsMaxRoute c r := by
  unfold RG.IsMaxRoute
  rw [h.isRoute_iff, h.sup_eq, h.conn_eq]
  simp only [h.names]

theorem lockCount_eq (h : RGEquiv A B) (t : LockType) (r : List N) : A.lockCount t r = B.lockCount t r := by
  unfold RG.lockCount; rw [h.lock_eq]

theorem locksExact_iff (h : RGEquiv A B) (c u : N) : A.LocksExact c u ↔ B.LocksExact c u := by
  unfold RG.LocksExact
  simp only [h.isMaxRoute_iff, h.lockCount_eq]

theorem isOut_iff (h : RGEquiv A B) (o : N) : A.isOut o = true ↔ B.isOut o = true := by
  rw [LoaderRoutes.isOut_iff, LoaderRoutes.isOut_iff, h.conn_eq]
  simp only [h.names]

theorem isIn_iff (h : RGEquiv A B) (o : N) : A.isIn o = true ↔ B.isIn o = true := by
  rw [LoaderRoutes.isIn_iff, LoaderRoutes.isIn_iff, h.conn_eq]
  simp only [h.names]

theorem reachesOut_iff (h : RGEquiv A B) (c u : N) : A.ReachesOut c u ↔ B.ReachesOut c u := by
  unfold RG.ReachesOut
  simp only [h.isRoute_iff, h.isOut_iff]

theorem connIn_iff (h : RGEquiv A B) : ConnIn A ↔ ConnIn B := by
  unfold ConnIn
  rw [h.conn_eq]
  simp only [h.names]

end RGEquiv

/-- the same, but capabilities and locks are only compared on the listed units (outside them one side may keep
information about units that are not part of the graph) -/
structure RGEquivOn (A B : RG N) : Prop where
  names : ∀ u, u ∈ A.names ↔ u ∈ B.names
  conn : ∀ a b, A.conn a b = B.conn a b
  sup : ∀ u ∈ A.names, ∀ c, A.sup u c = B.sup u c
  lock : ∀ t, ∀ u ∈ A.names, A.lock t u = B.lock t u

theorem RGEquiv.on {A B : RG N} (h : RGEquiv A B) : RGEquivOn A B :=
  ⟨h.names, h.conn, fun u _ c => h.sup u c, fun t u _ => h.lock t u⟩

namespace RGEquivOn
variable {A B : RG N}

theorem symm (h : RGEquivOn A B) : RGEquivOn B A :=
  ⟨fun u => (h.names u).symm, fun a b => (h.conn a b).symm, fun u hu c => (h.sup u ((h.names u).2 hu) c).symm,
    fun t u hu => (h.lock t u ((h.names u).2 hu)).symm⟩

theorem conn_eq (h : RGEquivOn A B) : A.conn = B.conn := funext fun a => funext fun b => h.conn a b

theorem walk_iff (h : RGEquivOn A B) (r : List N) : A.Walk r ↔ B.Walk r := by
  unfold RG.Walk; rw [h.conn_eq]

theorem acyclic_iff (h : RGEquivOn A B) : A.Acyclic ↔ B.Acyclic := by
  unfold RG.Acyclic
  simp only [h.walk_iff]

theorem connIn (h : RGEquivOn A B) (hc : ConnIn A) : ConnIn B := by
  intro a b hab
  rw [← h.conn] at hab
  exact (h.names b).1 (hc a b hab)

/-- the units of a walk that starts at a listed unit are listed -/
theorem walk_units (hc : ConnIn A) {r : List N} {u : N} (hu : u ∈ A.names) (hh : r.head? = some u) (hw : A.Walk r) :
    ∀ x ∈ r, x ∈ A.names := by
  cases r with
  | nil => intro x hx; cases hx
  | cons a t =>
    simp at hh; subst hh
    intro x hx
    rcases List.mem_cons.1 hx with rfl | hx
    · exact hu
    · exact walk_mem_names A hc t _ hw x hx

theorem isRoute_iff (h : RGEquivOn A B) (hc : ConnIn A) {c u : N} (hu : u ∈ A.names) {r : List N}
    (hh : r.head? = some u) : A.IsRoute c r ↔ B.IsRoute c r := by
  unfold RG.IsRoute
  constructor
  · rintro ⟨h1, h2, h3⟩
    have hin := walk_units hc hu hh h3
    exact ⟨h1, fun x hx => by rw [← h.sup x (hin x hx)]; exact h2 x hx, (h.walk_iff r).1 h3⟩
  · rintro ⟨h1, h2, h3⟩
    have h3' := (h.walk_iff r).2 h3
    have hin := walk_units hc hu hh h3'
    exact ⟨h1, fun x hx => by rw [h.sup x (hin x hx)]; exact h2 x hx, h3'⟩

theorem isMaxRoute_iff (h : RGEquivOn A B) (hc : ConnIn A) {c u : N} (hu : u ∈ A.names) {r : List N}
    (hh : r.head? = some u) : A.IsMaxRoute c r ↔ B.IsMaxRoute c r := by
  unfold RG.IsMaxRoute
  rw [h.isRoute_iff hc hu hh]
  refine and_congr_right fun _ => ?_
  constructor
  · intro hm x hx v hv
    have hv' := (h.names v).2 hv
    rw [← h.conn, ← h.sup v hv']
    exact hm x hx v hv'
  · intro hm x hx v hv
    rw [h.conn, h.sup v hv]
    exact hm x hx v ((h.names v).1 hv)

theorem lockCount_eq (h : RGEquivOn A B) (t : LockType) {r : List N} (hin : ∀ x ∈ r, x ∈ A.names) :
    A.lockCount t r = B.lockCount t r := by
  unfold RG.lockCount
  congr 1
  apply List.filter_congr
  intro x hx
  exact h.lock t x (hin x hx)

theorem lockCount_route (h : RGEquivOn A B) (hc : ConnIn A) (t : LockType) {c u : N} (hu : u ∈ A.names) {r : List N}
    (hh : r.head? = some u) (hr : A.IsRoute c r) : A.lockCount t r = B.lockCount t r :=
  h.lockCount_eq t (walk_units hc hu hh hr.2.2)

theorem locksExact_iff (h : RGEquivOn A B) (hc : ConnIn A) {c u : N} (hu : u ∈ A.names) :
    A.LocksExact c u ↔ B.LocksExact c u := by
  unfold RG.LocksExact
  constructor
  · intro hA r hr hh
    have hr' := (h.isMaxRoute_iff hc hu hh).2 hr
    rw [← h.lockCount_route hc .read hu hh hr'.1, ← h.lockCount_route hc .write hu hh hr'.1]
    exact hA r hr' hh
  · intro hB r hr hh
    rw [h.lockCount_route hc .read hu hh hr.1, h.lockCount_route hc .write hu hh hr.1]
    exact hB r ((h.isMaxRoute_iff hc hu hh).1 hr) hh

theorem isOut_iff (h : RGEquivOn A B) (o : N) : A.isOut o = true ↔ B.isOut o = true := by
  rw [LoaderRoutes.isOut_iff, LoaderRoutes.isOut_iff, h.conn_eq]
  simp only [h.names]

theorem isIn_iff (h : RGEquivOn A B) (o : N) : A.isIn o = true ↔ B.isIn o = true := by
  rw [LoaderRoutes.isIn_iff, LoaderRoutes.isIn_iff, h.conn_eq]
  simp only [h.names]

theorem reachesOut_iff (h : RGEquivOn A B) (hc : ConnIn A) {c u : N} (hu : u ∈ A.names) :
    A.ReachesOut c u ↔ B.ReachesOut c u := by
  unfold RG.ReachesOut
  constructor
  · rintro ⟨r, hr, hh, o, hl, ho⟩
    exact ⟨r, (h.isRoute_iff hc hu hh).1 hr, hh, o, hl, (h.isOut_iff o).1 ho⟩
  · rintro ⟨r, hr, hh, o, hl, ho⟩
    exact ⟨r, (h.isRoute_iff hc hu hh).2 hr, hh, o, hl, (h.isOut_iff o).2 ho⟩

end RGEquivOn

end LoaderRoutes
end Loader
end ProcSim
