import ProcSim.Spec.Queue
/-!
# Helper lemmas for property C19 (register access queues)

Everything here is core Lean (no Mathlib).  The property theorems themselves are in `ProcSim/Props/C19.lean`.
-/
namespace ProcSim
namespace QueueLemmas
open Spec

/-! ## `leadReads` / `afterReads` -/

@[simp] theorem leadReads_nil : leadReads [] = [] := rfl
@[simp] theorem leadReads_read (o : Nat) (rest : List Req) :
    leadReads ((false, o) :: rest) = o :: leadReads rest := rfl
@[simp] theorem leadReads_write (o : Nat) (rest : List Req) : leadReads ((true, o) :: rest) = [] := rfl
@[simp] theorem afterReads_nil : afterReads [] = [] := rfl
@[simp] theorem afterReads_read (o : Nat) (rest : List Req) :
    afterReads ((false, o) :: rest) = afterReads rest := rfl
@[simp] theorem afterReads_write (o : Nat) (rest : List Req) :
    afterReads ((true, o) :: rest) = (true, o) :: rest := rfl

theorem leadReads_map_append (os : List Nat) (l : List Req) :
    leadReads (os.map (fun o => (false, o)) ++ l) = os ++ leadReads l := by
  induction os with
  | nil => simp
  | cons a as ih => simp [ih]

theorem afterReads_map_append (os : List Nat) (l : List Req) :
    afterReads (os.map (fun o => (false, o)) ++ l) = afterReads l := by
  induction os with
  | nil => simp
  | cons a as ih => simp [ih]

/-- the pending list is its leading reads followed by the rest -/
theorem leadReads_append_afterReads (l : List Req) :
    (leadReads l).map (fun o => (false, o)) ++ afterReads l = l := by
  induction l with
  | nil => rfl
  | cons r t ih =>
    obtain ⟨w, a⟩ := r
    cases w <;> simp [ih]

theorem mem_of_mem_leadReads {l : List Req} {o : Nat} (h : o ∈ leadReads l) : (false, o) ∈ l := by
  induction l with
  | nil => simp at h
  | cons r t ih =>
    obtain ⟨w, a⟩ := r
    cases w with
    | true => simp at h
    | false =>
      simp only [leadReads_read, List.mem_cons] at h
      rcases h with h | h
      · simp [h]
      · exact List.mem_cons_of_mem _ (ih h)

theorem mem_of_mem_afterReads {l : List Req} {r : Req} (h : r ∈ afterReads l) : r ∈ l := by
  induction l with
  | nil => simp at h
  | cons x t ih =>
    obtain ⟨w, a⟩ := x
    cases w with
    | true => simpa using h
    | false => exact List.mem_cons_of_mem _ (ih (by simpa using h))

theorem afterReads_eq_self_of_leadReads_nil {l : List Req} (h : leadReads l = []) : afterReads l = l := by
  cases l with
  | nil => rfl
  | cons x t =>
    obtain ⟨w, a⟩ := x
    cases w with
    | true => rfl
    | false => simp at h

theorem mem_leadReads_append_left {l : List Req} {o : Nat} (l2 : List Req) (h : o ∈ leadReads l) :
    o ∈ leadReads (l ++ l2) := by
  induction l with
  | nil => simp at h
  | cons x t ih =>
    obtain ⟨w, a⟩ := x
    cases w with
    | true => simp at h
    | false =>
      simp only [leadReads_read, List.mem_cons, List.cons_append] at h ⊢
      rcases h with h | h
      · exact Or.inl h
      · exact Or.inr (ih h)

/-- `o` is in the leading run of reads iff its read is pending and every request before it is a read -/
theorem mem_leadReads_iff (l : List Req) (o : Nat) :
    o ∈ leadReads l ↔ ∃ pre post, l = pre ++ (false, o) :: post ∧ ∀ r ∈ pre, r.1 = false := by
  constructor
  · intro h
    induction l with
    | nil => simp at h
    | cons x t ih =>
      obtain ⟨w, a⟩ := x
      cases w with
      | true => simp at h
      | false =>
        simp only [leadReads_read, List.mem_cons] at h
        rcases h with h | h
        · exact ⟨[], t, by simp [h], by simp⟩
        · obtain ⟨pre, post, hl, hp⟩ := ih h
          refine ⟨(false, a) :: pre, post, by simp [hl], ?_⟩
          intro r hr
          rcases List.mem_cons.1 hr with hr | hr
          · simp [hr]
          · exact hp r hr
  · rintro ⟨pre, post, hl, hp⟩
    subst hl
    induction pre with
    | nil => simp
    | cons x t ih =>
      obtain ⟨w, a⟩ := x
      have hw : w = false := hp (w, a) (by simp)
      subst hw
      simp only [List.cons_append, leadReads_read, List.mem_cons]
      exact Or.inr (ih (fun r hr => hp r (List.mem_cons_of_mem _ hr)))

/-- the "write directly after its owner's own sole read" shape -/
theorem own_read_write_iff (l : List Req) (o : Nat) :
    (leadReads l = [o] ∧ (afterReads l).head? = some (true, o)) ↔ ∃ rest, l = (false, o) :: (true, o) :: rest := by
  constructor
  · rintro ⟨h1, h2⟩
    cases l with
    | nil => simp at h1
    | cons x t =>
      obtain ⟨w, a⟩ := x
      cases w with
      | true => simp at h1
      | false =>
        simp only [leadReads_read, List.cons.injEq] at h1
        obtain ⟨ha, ht⟩ := h1
        subst ha
        rw [afterReads_read, afterReads_eq_self_of_leadReads_nil ht] at h2
        cases t with
        | nil => simp at h2
        | cons y t' =>
          simp only [List.head?_cons, Option.some.injEq] at h2
          exact ⟨t', by rw [h2]⟩
  · rintro ⟨rest, rfl⟩
    simp

/-! ## `abs` and the shape of well-formed queues -/

@[simp] theorem abs_nil : abs [] = [] := rfl

theorem abs_cons (g : Group) (rest : Queue) :
    abs (g :: rest) = g.owners.map (fun o => (g.wr, o)) ++ abs rest := by
  simp [abs]

theorem abs_append (q1 q2 : Queue) : abs (q1 ++ q2) = abs q1 ++ abs q2 := by
  simp [abs]

/-- one-step unfolding of the representation invariant -/
theorem WFq_cons (g : Group) (q : Queue) :
    WFq (g :: q) ↔
      (g.owners ≠ [] ∧ g.owners.Nodup ∧ (g.wr = true → g.owners.length = 1)) ∧
      (∀ g', q.head? = some g' → ¬(g.wr = false ∧ g'.wr = false)) ∧ WFq q := by
  cases q with
  | nil => simp [WFq]
  | cons g' r =>
    simp only [WFq, List.head?_cons, Option.some.injEq, forall_eq']
    constructor
    · rintro ⟨a, b, c, d, e⟩; exact ⟨⟨a, b, c⟩, d, e⟩
    · rintro ⟨⟨a, b, c⟩, d, e⟩; exact ⟨a, b, c, d, e⟩

theorem WFq_tail {g : Group} {q : Queue} (h : WFq (g :: q)) : WFq q := ((WFq_cons g q).1 h).2.2

theorem wfq_iff (q : Queue) : wfq q = true ↔ WFq q := by
  induction q with
  | nil => simp [wfq, WFq]
  | cons g r ih =>
    cases r with
    | nil => cases hw : g.wr <;> simp [wfq, WFq, hw, and_assoc]
    | cons g' r' =>
      simp only [wfq, WFq, Bool.and_eq_true, ih]
      cases hw : g.wr <;> cases hw' : g'.wr <;> simp [and_assoc]

/-- a write group at the front is a single write request -/
theorem write_front {g : Group} {rest : Queue} (h : WFq (g :: rest)) (hw : g.wr = true) :
    ∃ o, g.owners = [o] ∧ abs (g :: rest) = (true, o) :: abs rest := by
  have hl : g.owners.length = 1 := ((WFq_cons g rest).1 h).1.2.2 hw
  match hg : g.owners, hl with
  | [o], _ => exact ⟨o, rfl, by simp [abs_cons, hg, hw]⟩

/-- behind a read group there is nothing or a single write request -/
theorem behind_read {g : Group} {rest : Queue} (h : WFq (g :: rest)) (hr : g.wr = false) :
    rest = [] ∨ ∃ g2 r o2, rest = g2 :: r ∧ g2.owners = [o2] ∧ abs rest = (true, o2) :: abs r := by
  cases rest with
  | nil => exact Or.inl rfl
  | cons g2 r =>
    right
    have h' := (WFq_cons g (g2 :: r)).1 h
    have hw : g2.wr = true := by
      have := h'.2.1 g2 rfl
      cases hg2 : g2.wr with
      | true => rfl
      | false => exact absurd ⟨hr, hg2⟩ this
    obtain ⟨o2, ho2, habs⟩ := write_front h'.2.2 hw
    exact ⟨g2, r, o2, rfl, ho2, habs⟩

theorem read_front {g : Group} {rest : Queue} (h : WFq (g :: rest)) (hr : g.wr = false) :
    abs (g :: rest) = g.owners.map (fun o => (false, o)) ++ abs rest ∧
    leadReads (abs (g :: rest)) = g.owners ∧ afterReads (abs (g :: rest)) = abs rest := by
  have habs : abs (g :: rest) = g.owners.map (fun o => (false, o)) ++ abs rest := by rw [abs_cons, hr]
  refine ⟨habs, ?_, ?_⟩
  · rw [habs, leadReads_map_append]
    rcases behind_read h hr with h0 | ⟨g2, r, o2, _, _, h2⟩
    · simp [h0]
    · simp [h2]
  · rw [habs, afterReads_map_append]
    rcases behind_read h hr with h0 | ⟨g2, r, o2, _, _, h2⟩
    · simp [h0]
    · simp [h2]

theorem abs_eq_nil_iff {q : Queue} (h : WFq q) : abs q = [] ↔ q = [] := by
  cases q with
  | nil => simp
  | cons g r =>
    have := ((WFq_cons g r).1 h).1.1
    simp [abs_cons, this]

end QueueLemmas
end ProcSim
