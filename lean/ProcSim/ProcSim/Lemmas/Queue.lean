import ProcSim.Spec.Queue
/-!
# Helper lemmas for property C19 (register access queues)

Everything here is core Lean (no Mathlib).  The property theorems themselves are in `ProcSim/Props/C19.lean`.
-/
namespace ProcSim
namespace QueueLemmas
open Spec

/-! ## `leadReads` / `afterReads` -/

@[simp] theorem leadReads_nil : leadReads [] = [] := rfl
@[simp] theorem leadReads_read (o : Nat) (rest : List Req) :
    leadReads ((false, o) :: rest) = o :: leadReads rest := rfl
@[simp] theorem leadReads_write (o : Nat) (rest : List Req) : leadReads ((true, o) :: rest) = [] := rfl
@[simp] theorem afterReads_nil : afterReads [] = [] := rfl
@[simp] theorem afterReads_read (o : Nat) (rest : List Req) :
    afterReads ((false, o) :: rest) = afterReads rest := rfl
@[simp] theorem afterReads_write (o : Nat) (rest : List Req) :
    afterReads ((true, o) :: rest) = (true, o) :: rest := rfl

theorem leadReads_map_append (os : List Nat) (l : List Req) :
    leadReads (os.map (fun o => (false, o)) ++ l) = os ++ leadReads l := by
  induction os with
  | nil => simp
  | cons a as ih => simp [ih]

theorem afterReads_map_append (os : List Nat) (l : List Req) :
    afterReads (os.map (fun o => (false, o)) ++ l) = afterReads l := by
  induction os with
  | nil => simp
  | cons a as ih => simp [ih]

/-- the pending list is its leading reads followed by the rest -/
theorem leadReads_append_afterReads (l : List Req) :
    (leadReads l).map (fun o => (false, o)) ++ afterReads l = l := by
  induction l with
  | nil => rfl
  | cons r t ih =>
    obtain ⟨w, a⟩ := r
    cases w <;> simp [ih]

theorem mem_of_mem_leadReads {l : List Req} {o : Nat} (h : o ∈ leadReads l) : (false, o) ∈ l := by
  induction l with
  | nil => simp at h
  | cons r t ih =>
    obtain ⟨w, a⟩ := r
    cases w with
    | true => simp at h
    | false =>
      simp only [leadReads_read, List.mem_cons] at h
      rcases h with h | h
      · simp [h]
      · exact List.mem_cons_of_mem _ (ih h)

theorem mem_of_mem_afterReads {l : List Req} {r : Req} (h : r ∈ afterReads l) : r ∈ l := by
  induction l with
  | nil => simp at h
  | cons x t ih =>
    obtain ⟨w, a⟩ := x
    cases w with
    | true => simpa using h
    | false => exact List.mem_cons_of_mem _ (ih (by simpa using h))

theorem afterReads_eq_self_of_leadReads_nil {l : List Req} (h : leadReads l = []) : afterReads l = l := by
  cases l with
  | nil => rfl
  | cons x t =>
    obtain ⟨w, a⟩ := x
    cases w with
    | true => rfl
    | false => simp at h

theorem mem_leadReads_append_left {l : List Req} {o : Nat} (l2 : List Req) (h : o ∈ leadReads l) :
    o ∈ leadReads (l ++ l2) := by
  induction l with
  | nil => simp at h
  | cons x t ih =>
    obtain ⟨w, a⟩ := x
    cases w with
    | true => simp at h
    | false =>
      simp only [leadReads_read, List.mem_cons, List.cons_append] at h ⊢
      rcases h with h | h
      · exact Or.inl h
      · exact Or.inr (ih h)

/-- `o` is in the leading run of reads iff its read is pending and every request before it is a read -/
theorem mem_leadReads_iff (l : List Req) (o : Nat) :
    o ∈ leadReads l ↔ ∃ pre post, l = pre ++ (false, o) :: post ∧ ∀ r ∈ pre, r.1 = false := by
  constructor
  · intro h
    induction l with
    | nil => simp at h
    | cons x t ih =>
      obtain ⟨w, a⟩ := x
      cases w with
      | true => simp at h
      | false =>
        simp only [leadReads_read, List.mem_cons] at h
        rcases h with h | h
        · exact ⟨[], t, by simp [h], by simp⟩
        · obtain ⟨pre, post, hl, hp⟩ := ih h
          refine ⟨(false, a) :: pre, post, by simp [hl], ?_⟩
          intro r hr
          rcases List.mem_cons.1 hr with hr | hr
          · simp [hr]
          · exact hp r hr
  · rintro ⟨pre, post, hl, hp⟩
    subst hl
    induction pre with
    | nil => simp
    | cons x t ih =>
      obtain ⟨w, a⟩ := x
      have hw : w = false := hp (w, a) (by simp)
      subst hw
      simp only [List.cons_append, leadReads_read, List.mem_cons]
      exact Or.inr (ih (fun r hr => hp r (List.mem_cons_of_mem _ hr)))

/-- the "write directly after its owner's own sole read" shape -/
theorem own_read_write_iff (l : List Req) (o : Nat) :
    (leadReads l = [o] ∧ (afterReads l).head? = some (true, o)) ↔ ∃ rest, l = (false, o) :: (true, o) :: rest := by
  constructor
  · rintro ⟨h1, h2⟩
    cases l with
    | nil => simp at h1
    | cons x t =>
      obtain ⟨w, a⟩ := x
      cases w with
      | true => simp at h1
      | false =>
        simp only [leadReads_read, List.cons.injEq] at h1
        obtain ⟨ha, ht⟩ := h1
        subst ha
        rw [afterReads_read, afterReads_eq_self_of_leadReads_nil ht] at h2
        cases t with
        | nil => simp at h2
        | cons y t' =>
          simp only [List.head?_cons, Option.some.injEq] at h2
          exact ⟨t', by rw [h2]⟩
  · rintro ⟨rest, rfl⟩
    simp

/-! ## `abs` and the shape of well-formed queues -/

@[simp] theorem abs_nil : abs [] = [] := rfl

theorem abs_cons (g : Group) (rest : Queue) :
    abs (g :: rest) = g.owners.map (fun o => (g.wr, o)) ++ abs rest := by
  simp [abs]

theorem abs_append (q1 q2 : Queue) : abs (q1 ++ q2) = abs q1 ++ abs q2 := by
  simp [abs]

/-- one-step unfolding of the representation invariant -/
theorem WFq_cons (g : Group) (q : Queue) :
    WFq (g :: q) ↔
      (g.owners ≠ [] ∧ g.owners.Nodup ∧ (g.wr = true → g.owners.length = 1)) ∧
      (∀ g', q.head? = some g' → ¬(g.wr = false ∧ g'.wr = false)) ∧ WFq q := by
  cases q with
  | nil => simp [WFq]
  | cons g' r =>
    simp only [WFq, List.head?_cons, Option.some.injEq, forall_eq']
    constructor
    · rintro ⟨a, b, c, d, e⟩; exact ⟨⟨a, b, c⟩, d, e⟩
    · rintro ⟨⟨a, b, c⟩, d, e⟩; exact ⟨a, b, c, d, e⟩

theorem WFq_tail {g : Group} {q : Queue} (h : WFq (g :: q)) : WFq q := ((WFq_cons g q).1 h).2.2

theorem wfq_iff (q : Queue) : wfq q = true ↔ WFq q := by
  induction q with
  | nil => simp [wfq, WFq]
  | cons g r ih =>
    cases r with
    | nil => cases hw : g.wr <;> simp [wfq, WFq, hw, and_assoc]
    | cons g' r' =>
      simp only [wfq, WFq, Bool.and_eq_true, ih]
      cases hw : g.wr <;> cases hw' : g'.wr <;> simp [and_assoc]

/-- a write group at the front is a single write request -/
theorem write_front {g : Group} {rest : Queue} (h : WFq (g :: rest)) (hw : g.wr = true) :
    ∃ o, g.owners = [o] ∧ abs (g :: rest) = (true, o) :: abs rest := by
  have hl : g.owners.length = 1 := ((WFq_cons g rest).1 h).1.2.2 hw
  match hg : g.owners, hl with
  | [o], _ => exact ⟨o, rfl, by simp [abs_cons, hg, hw]⟩

/-- behind a read group there is nothing or a single write request -/
theorem behind_read {g : Group} {rest : Queue} (h : WFq (g :: rest)) (hr : g.wr = false) :
    rest = [] ∨ ∃ g2 r o2, rest = g2 :: r ∧ g2.owners = [o2] ∧ abs rest = (true, o2) :: abs r := by
  cases rest with
  | nil => exact Or.inl rfl
  | cons g2 r =>
    right
    have h' := (WFq_cons g (g2 :: r)).1 h
    have hw : g2.wr = true := by
      have := h'.2.1 g2 rfl
      cases hg2 : g2.wr with
      | true => rfl
      | false => exact absurd ⟨hr, hg2⟩ this
    obtain ⟨o2, ho2, habs⟩ := write_front h'.2.2 hw
    exact ⟨g2, r, o2, rfl, ho2, habs⟩

theorem read_front {g : Group} {rest : Queue} (h : WFq (g :: rest)) (hr : g.wr = false) :
    abs (g :: rest) = g.owners.map (fun o => (false, o)) ++ abs rest ∧
    leadReads (abs (g :: rest)) = g.owners ∧ afterReads (abs (g :: rest)) = abs rest := by
  have habs : abs (g :: rest) = g.owners.map (fun o => (false, o)) ++ abs rest := by rw [abs_cons, hr]
  refine ⟨habs, ?_, ?_⟩
  · rw [habs, leadReads_map_append]
    rcases behind_read h hr with h0 | ⟨g2, r, o2, _, _, h2⟩
    · simp [h0]
    · simp [h2]
  · rw [habs, afterReads_map_append]
    rcases behind_read h hr with h0 | ⟨g2, r, o2, _, _, h2⟩
    · simp [h0]
    · simp [h2]

theorem abs_eq_nil_iff {q : Queue} (h : WFq q) : abs q = [] ↔ q = [] := by
  cases q with
  | nil => simp
  | cons g r =>
    have := ((WFq_cons g r).1 h).1.1
    simp [abs_cons, this]

/-! ## `push` and `build` -/

theorem addOwner_ne_nil (os : List Nat) (o : Nat) : Queue.addOwner os o ≠ [] := by
  unfold Queue.addOwner
  split
  · rename_i h; intro h0; simp [h0] at h
  · simp

theorem addOwner_nodup {os : List Nat} (h : os.Nodup) (o : Nat) : (Queue.addOwner os o).Nodup := by
  unfold Queue.addOwner
  split
  · exact h
  · rename_i hn
    rw [List.nodup_append]
    refine ⟨h, by simp, ?_⟩
    intro a ha b hb
    simp only [List.mem_singleton] at hb
    subst hb
    intro hab; subst hab; exact hn ha

theorem addOwner_of_not_mem {os : List Nat} {o : Nat} (h : o ∉ os) : Queue.addOwner os o = os ++ [o] := by
  simp [Queue.addOwner, h]

@[simp] theorem push_nil (wr : Bool) (o : Nat) : Queue.push [] wr o = [⟨wr, [o]⟩] := rfl

theorem push_cons_cons (g g' : Group) (rest : Queue) (wr : Bool) (o : Nat) :
    Queue.push (g :: g' :: rest) wr o = g :: Queue.push (g' :: rest) wr o := rfl

theorem push_single (g : Group) (wr : Bool) (o : Nat) :
    Queue.push [g] wr o =
      if wr = false ∧ g.wr = false then [⟨false, Queue.addOwner g.owners o⟩] else [g, ⟨wr, [o]⟩] := by
  cases wr <;> cases hg : g.wr <;> simp [Queue.push, hg]

/-- pushing never changes the access type of the front group -/
theorem push_head_wr (g : Group) (rest : Queue) (wr : Bool) (o : Nat) :
    ∃ g1 t, Queue.push (g :: rest) wr o = g1 :: t ∧ g1.wr = g.wr := by
  cases rest with
  | nil =>
    rw [push_single]
    split
    · rename_i h; exact ⟨_, _, rfl, h.2.symm⟩
    · exact ⟨_, _, rfl, rfl⟩
  | cons g' r => exact ⟨_, _, push_cons_cons .., rfl⟩

theorem push_wf {q : Queue} (h : WFq q) (wr : Bool) (o : Nat) : WFq (q.push wr o) := by
  induction q with
  | nil => simp [WFq]
  | cons g rest ih =>
    cases rest with
    | nil =>
      rw [push_single]
      have hg := ((WFq_cons g []).1 h).1
      split
      · rename_i hc
        rw [WFq_cons]
        exact ⟨⟨addOwner_ne_nil _ _, addOwner_nodup hg.2.1 _, by simp⟩, by simp, trivial⟩
      · rename_i hc
        rw [WFq_cons, WFq_cons]
        refine ⟨hg, ?_, ⟨by simp, by simp, by simp⟩, by simp, trivial⟩
        intro g' hg'
        simp only [List.head?_cons, Option.some.injEq] at hg'
        subst hg'
        intro hh; exact hc ⟨hh.2, hh.1⟩
    | cons g' r =>
      rw [push_cons_cons]
      have h' := (WFq_cons g (g' :: r)).1 h
      obtain ⟨g1, t, hp, hw⟩ := push_head_wr g' r wr o
      rw [WFq_cons]
      refine ⟨h'.1, ?_, ih h'.2.2⟩
      intro g'' hg''
      rw [hp] at hg''
      simp only [List.head?_cons, Option.some.injEq] at hg''
      subst hg''
      rw [hw]
      exact h'.2.1 g' rfl

theorem foldl_push_wf (reqs : List Req) {q : Queue} (h : WFq q) :
    WFq (reqs.foldl (fun q r => q.push r.1 r.2) q) := by
  induction reqs generalizing q with
  | nil => exact h
  | cons r rs ih => exact ih (push_wf h r.1 r.2)

/-! ### `RunsDistinct` -/

theorem runsDistinct_iff (l : List Req) : runsDistinct l = true ↔ RunsDistinct l := by
  induction l with
  | nil => simp [runsDistinct, RunsDistinct]
  | cons x t ih =>
    obtain ⟨w, a⟩ := x
    cases w <;> simp [runsDistinct, RunsDistinct, ih]

theorem RunsDistinct_append_right {l1 l2 : List Req} (h : RunsDistinct (l1 ++ l2)) : RunsDistinct l2 := by
  induction l1 with
  | nil => exact h
  | cons x t ih =>
    obtain ⟨w, a⟩ := x
    cases w with
    | true => exact ih h
    | false => exact ih h.2

theorem RunsDistinct_append_left {l1 l2 : List Req} (h : RunsDistinct (l1 ++ l2)) : RunsDistinct l1 := by
  induction l1 with
  | nil => trivial
  | cons x t ih =>
    obtain ⟨w, a⟩ := x
    cases w with
    | true => exact ih h
    | false => exact ⟨fun hm => h.1 (mem_leadReads_append_left l2 hm), ih h.2⟩

theorem not_mem_of_RunsDistinct_reads {os : List Nat} {o : Nat}
    (h : RunsDistinct (os.map (fun a => (false, a)) ++ [(false, o)])) : o ∉ os := by
  induction os with
  | nil => simp
  | cons a as ih =>
    have h1 : a ∉ leadReads (as.map (fun a => (false, a)) ++ [(false, o)]) := h.1
    rw [leadReads_map_append] at h1
    simp only [leadReads_read, leadReads_nil, List.mem_append, List.mem_singleton, not_or] at h1
    simp only [List.mem_cons, not_or]
    exact ⟨fun e => h1.2 e.symm, ih h.2⟩

/-- pushing appends the request, provided a read is not already a member of the trailing run of reads -/
theorem abs_push (q : Queue) (wr : Bool) (o : Nat) (h : RunsDistinct (abs q ++ [(wr, o)])) :
    abs (q.push wr o) = abs q ++ [(wr, o)] := by
  induction q with
  | nil => simp [abs_cons]
  | cons g rest ih =>
    cases rest with
    | nil =>
      rw [push_single]
      split
      · rename_i hc
        obtain ⟨hwr, hg⟩ := hc
        subst hwr
        have hn : o ∉ g.owners := by
          apply not_mem_of_RunsDistinct_reads
          simpa [abs_cons, hg] using h
        simp [abs_cons, addOwner_of_not_mem hn, hg]
      · simp [abs_cons]
    | cons g' r =>
      rw [push_cons_cons, abs_cons, abs_cons g, ih, List.append_assoc]
      rw [abs_cons g, List.append_assoc] at h
      exact RunsDistinct_append_right h

theorem abs_foldl_push (reqs : List Req) (q : Queue) (h : RunsDistinct (abs q ++ reqs)) :
    abs (reqs.foldl (fun q r => q.push r.1 r.2) q) = abs q ++ reqs := by
  induction reqs generalizing q with
  | nil => simp
  | cons r rs ih =>
    have h1 : RunsDistinct (abs q ++ [r]) := by
      apply RunsDistinct_append_left (l2 := rs)
      simpa using h
    have hp : abs (q.push r.1 r.2) = abs q ++ [r] := abs_push q r.1 r.2 h1
    rw [List.foldl_cons, ih (q.push r.1 r.2) (by rw [hp]; simpa using h), hp]
    simp

/-! ### program order -/

/-- position of a request in program order: owners ascending, an owner's read before its write -/
def key (r : Req) : Nat := 2 * r.2 + r.1.toNat

theorem key_injective {r s : Req} (h : key r = key s) : r = s := by
  obtain ⟨w1, o1⟩ := r
  obtain ⟨w2, o2⟩ := s
  cases w1 <;> cases w2 <;> simp [key] at h ⊢ <;> omega

theorem programOrder_tail {r : Req} {rest : List Req} (h : programOrder (r :: rest) = true) :
    programOrder rest = true := by
  cases rest with
  | nil => rfl
  | cons s t =>
    obtain ⟨w1, o1⟩ := r
    obtain ⟨w2, o2⟩ := s
    simp only [programOrder, Bool.and_eq_true] at h
    exact h.2

/-- in program order every later request has a strictly larger key -/
theorem programOrder_key_lt {r : Req} {rest : List Req} (h : programOrder (r :: rest) = true) :
    ∀ x ∈ rest, key r < key x := by
  induction rest generalizing r with
  | nil => simp
  | cons s t ih =>
    have hrs : key r < key s := by
      obtain ⟨w1, o1⟩ := r
      obtain ⟨w2, o2⟩ := s
      simp only [programOrder, Bool.and_eq_true] at h
      have h1 := h.1
      cases w1 <;> cases w2 <;> simp [key] at h1 ⊢ <;> omega
    intro x hx
    rcases List.mem_cons.1 hx with hx | hx
    · exact hx ▸ hrs
    · exact Nat.lt_trans hrs (ih (programOrder_tail h) x hx)

theorem programOrder_not_mem {r : Req} {rest : List Req} (h : programOrder (r :: rest) = true) : r ∉ rest :=
  fun hm => Nat.lt_irrefl _ (programOrder_key_lt h r hm)

theorem programOrder_nodup {reqs : List Req} (h : programOrder reqs = true) : reqs.Nodup := by
  induction reqs with
  | nil => exact List.nodup_nil
  | cons r rest ih => exact List.nodup_cons.2 ⟨programOrder_not_mem h, ih (programOrder_tail h)⟩

theorem programOrder_runsDistinct {reqs : List Req} (h : programOrder reqs = true) : RunsDistinct reqs := by
  induction reqs with
  | nil => trivial
  | cons r rest ih =>
    obtain ⟨w, o⟩ := r
    cases w with
    | true => exact ih (programOrder_tail h)
    | false => exact ⟨fun hm => programOrder_not_mem h (mem_of_mem_leadReads hm), ih (programOrder_tail h)⟩

/-! ## `canServe` / `removeSpec` at the request level -/

theorem canServe_read_head (a : Nat) (t : List Req) (o : Nat) :
    canServe ((false, a) :: t) false o = some (decide (o ∈ leadReads ((false, a) :: t))) ∧
    canServe ((false, a) :: t) true o =
      some (leadReads ((false, a) :: t) == [o] && (afterReads ((false, a) :: t)).head? == some (true, o)) := by
  simp [canServe]

theorem canServe_write_head (a : Nat) (t : List Req) (wr : Bool) (o : Nat) :
    canServe ((true, a) :: t) wr o = some (wr && o == a) := rfl

theorem removeSpec_read_head (a : Nat) (t : List Req) (o : Nat) :
    removeSpec ((false, a) :: t) o =
      if o ∈ leadReads ((false, a) :: t) then some (((false, a) :: t).erase (false, o)) else none := rfl

theorem removeSpec_write_head (a : Nat) (t : List Req) (o : Nat) :
    removeSpec ((true, a) :: t) o = if o = a then some t else none := rfl

theorem removable_iff (p : List Req) (o : Nat) :
    removable p o = true ↔ p.head? = some (true, o) ∨ o ∈ leadReads p := by
  cases p with
  | nil => simp [removable, removeSpec]
  | cons x t =>
    obtain ⟨w, a⟩ := x
    cases w with
    | true =>
      simp only [removable, removeSpec_write_head, List.head?_cons, leadReads_write, List.not_mem_nil, or_false]
      by_cases h : o = a
      · simp [h]
      · simp [h]; exact fun e => h e.symm
    | false =>
      simp only [removable, removeSpec_read_head]
      by_cases h : o ∈ leadReads ((false, a) :: t)
      · rw [if_pos h]; simpa using h
      · rw [if_neg h]; simpa using h

/-- what a permitted removal removes: the head write, or the owner's read in the leading run -/
theorem removeSpec_eq_some_iff (p p' : List Req) (o : Nat) :
    removeSpec p o = some p' ↔
      (p = (true, o) :: p') ∨ (o ∈ leadReads p ∧ p' = p.erase (false, o)) := by
  cases p with
  | nil => simp [removeSpec]
  | cons x t =>
    obtain ⟨w, a⟩ := x
    cases w with
    | true =>
      simp only [removeSpec_write_head, leadReads_write, List.not_mem_nil, false_and, or_false]
      by_cases h : o = a
      · subst h; simp
      · simp [h]; intro e; exact absurd e.symm h
    | false =>
      simp only [removeSpec_read_head]
      by_cases h : o ∈ leadReads ((false, a) :: t)
      · rw [if_pos h]
        constructor
        · intro e; exact Or.inr ⟨h, (Option.some.inj e).symm⟩
        · rintro (e | ⟨_, e⟩)
          · simp at e
          · rw [e]
      · rw [if_neg h]
        constructor
        · intro e; simp at e
        · rintro (e | ⟨hm, _⟩)
          · simp at e
          · exact absurd hm h

theorem removeSpec_sublist {p p' : List Req} {o : Nat} (h : removeSpec p o = some p') : p'.Sublist p := by
  rcases (removeSpec_eq_some_iff p p' o).1 h with h | ⟨_, h⟩
  · subst h; exact List.sublist_cons_self _ _
  · subst h; exact List.erase_sublist

theorem removeSpec_length {p p' : List Req} {o : Nat} (h : removeSpec p o = some p') :
    p'.length + 1 = p.length := by
  rcases (removeSpec_eq_some_iff p p' o).1 h with h | ⟨hm, h⟩
  · subst h; simp
  · subst h
    have hm' := mem_of_mem_leadReads hm
    rw [List.length_erase_of_mem hm']
    have : 0 < p.length := List.length_pos_of_mem hm'
    omega

theorem exists_removable {p : List Req} (h : p ≠ []) : ∃ o, removable p o = true := by
  cases p with
  | nil => exact absurd rfl h
  | cons x t =>
    obtain ⟨w, a⟩ := x
    refine ⟨a, (removable_iff _ _).2 ?_⟩
    cases w <;> simp

/-- the three ways of being servable, and nothing else -/
theorem canServe_eq_some_true_iff (p : List Req) (wr : Bool) (o : Nat) :
    canServe p wr o = some true ↔
      (wr = false ∧ o ∈ leadReads p) ∨
      (wr = true ∧ (p.head? = some (true, o) ∨
        (leadReads p = [o] ∧ (afterReads p).head? = some (true, o)))) := by
  cases p with
  | nil => cases wr <;> simp [canServe]
  | cons x t =>
    obtain ⟨w, a⟩ := x
    cases w with
    | true =>
      rw [canServe_write_head]
      cases wr with
      | false => simp
      | true => simp; exact eq_comm
    | false =>
      cases wr with
      | false => rw [(canServe_read_head a t o).1]; simp
      | true => rw [(canServe_read_head a t o).2]; simp

theorem mem_of_canServe {p : List Req} {wr : Bool} {o : Nat} (h : canServe p wr o = some true) :
    (wr, o) ∈ p := by
  rcases (canServe_eq_some_true_iff p wr o).1 h with ⟨hw, hm⟩ | ⟨hw, hh | ⟨_, hh⟩⟩
  · subst hw; exact mem_of_mem_leadReads hm
  · subst hw; exact List.mem_of_mem_head? hh
  · subst hw; exact mem_of_mem_afterReads (List.mem_of_mem_head? hh)

theorem removable_of_canServe {p : List Req} {wr : Bool} {o : Nat} (h : canServe p wr o = some true) :
    removable p o = true := by
  rw [removable_iff]
  rcases (canServe_eq_some_true_iff p wr o).1 h with ⟨_, hm⟩ | ⟨_, hh | ⟨hl, _⟩⟩
  · exact Or.inr hm
  · exact Or.inl hh
  · right; rw [hl]; simp

theorem canServe_of_removable {p : List Req} {o : Nat} (h : removable p o = true) :
    canServe p true o = some true ∨ canServe p false o = some true := by
  rcases (removable_iff p o).1 h with h | h
  · exact Or.inl ((canServe_eq_some_true_iff p true o).2 (Or.inr ⟨rfl, Or.inl h⟩))
  · exact Or.inr ((canServe_eq_some_true_iff p false o).2 (Or.inl ⟨rfl, h⟩))

/-- both requests of one owner servable at once = the self-dependency shape -/
theorem own_pair_shape {p : List Req} {o : Nat} (hr : canServe p false o = some true)
    (hw : canServe p true o = some true) : ∃ rest, p = (false, o) :: (true, o) :: rest := by
  rcases (canServe_eq_some_true_iff p true o).1 hw with ⟨h, _⟩ | ⟨_, hh | hh⟩
  · cases h
  · rcases (canServe_eq_some_true_iff p false o).1 hr with ⟨_, hm⟩ | ⟨h, _⟩
    · cases p with
      | nil => simp at hh
      | cons x t =>
        simp only [List.head?_cons, Option.some.injEq] at hh
        subst hh; simp at hm
    · cases h
  · exact (own_read_write_iff p o).1 hh

theorem removeSpec_own_pair (o : Nat) (rest : List Req) :
    removeSpec ((false, o) :: (true, o) :: rest) o = some ((true, o) :: rest) ∧
    removeSpec ((true, o) :: rest) o = some rest := by
  simp [removeSpec]

/-! ## refinement of `canAccess` and `dequeue` -/

theorem canAccess_refines {q : Queue} (h : WFq q) (wr : Bool) (o : Nat) :
    q.canAccess wr o = canServe (abs q) wr o := by
  cases q with
  | nil => rfl
  | cons g rest =>
    cases hw : g.wr with
    | true =>
      obtain ⟨o', ho', habs⟩ := write_front h hw
      rw [habs, canServe_write_head]
      cases wr with
      | false => simp [Queue.canAccess, hw]
      | true => simp [Queue.canAccess, hw, ho']; rw [Bool.eq_iff_iff]; simp
    | false =>
      obtain ⟨habs, hl, ha⟩ := read_front h hw
      have hne := ((WFq_cons g rest).1 h).1.1
      obtain ⟨a, as, hcons⟩ := List.exists_cons_of_ne_nil hne
      have hshape : abs (g :: rest) = (false, a) :: (as.map (fun o => (false, o)) ++ abs rest) := by
        rw [habs, hcons]; rfl
      have hcs := canServe_read_head a (as.map (fun o => (false, o)) ++ abs rest) o
      rw [← hshape, hl, ha] at hcs
      cases wr with
      | false => rw [hcs.1]; simp [Queue.canAccess, hw]
      | true =>
        rw [hcs.2]
        rcases behind_read h hw with h0 | ⟨g2, r, o2, hrest, ho2, h2⟩
        · subst h0; simp [Queue.canAccess, hw]
        · subst hrest
          rw [h2]
          simp [Queue.canAccess, hw, ho2]
          congr 1
          rw [Bool.eq_iff_iff]; simp only [decide_eq_true_eq, beq_iff_eq, Prod.mk.injEq, true_and]
          exact eq_comm

theorem map_erase_read (os : List Nat) (o : Nat) (l : List Req) (h : o ∈ os) :
    (os.map (fun a => (false, a)) ++ l).erase (false, o) = (os.erase o).map (fun a => (false, a)) ++ l := by
  induction os with
  | nil => simp at h
  | cons a as ih =>
    by_cases e : a = o
    · subst e; simp
    · have h' : o ∈ as := by
        rcases List.mem_cons.1 h with h | h
        · exact absurd h.symm e
        · exact h
      have e' : ((false, a) : Req) ≠ (false, o) := by simp [e]
      simp only [List.map_cons, List.cons_append]
      rw [List.erase_cons_tail (by simpa using e'), List.erase_cons_tail (by simpa using e), ih h']
      simp

theorem dequeue_refines {q : Queue} (h : WFq q) (o : Nat) :
    (q.dequeue o).map abs = removeSpec (abs q) o := by
  cases q with
  | nil => rfl
  | cons g rest =>
    cases hw : g.wr with
    | true =>
      obtain ⟨o', ho', habs⟩ := write_front h hw
      rw [habs, removeSpec_write_head]
      by_cases e : o = o' <;> simp [Queue.dequeue, ho', e]
    | false =>
      obtain ⟨habs, hl, ha⟩ := read_front h hw
      have hne := ((WFq_cons g rest).1 h).1.1
      obtain ⟨a, as, hcons⟩ := List.exists_cons_of_ne_nil hne
      have hshape : abs (g :: rest) = (false, a) :: (as.map (fun o => (false, o)) ++ abs rest) := by
        rw [habs, hcons]; rfl
      have hrs := removeSpec_read_head a (as.map (fun o => (false, o)) ++ abs rest) o
      rw [← hshape, hl] at hrs
      rw [hrs]
      by_cases hm : o ∈ g.owners
      · rw [if_pos hm, habs, map_erase_read _ _ _ hm]
        simp only [Queue.dequeue, if_pos hm]
        by_cases he : (g.owners.erase o).isEmpty = true
        · simp [List.isEmpty_iff.1 he]
        · simp [he, abs_cons, hw]
      · simp [Queue.dequeue, hm]

theorem dequeue_wf {q q' : Queue} {o : Nat} (h : WFq q) (hd : q.dequeue o = some q') : WFq q' := by
  cases q with
  | nil => simp [Queue.dequeue] at hd
  | cons g rest =>
    have h' := (WFq_cons g rest).1 h
    by_cases hm : o ∈ g.owners
    · simp only [Queue.dequeue, if_pos hm] at hd
      by_cases he : (g.owners.erase o).isEmpty = true
      · simp only [he, if_true, Option.some.injEq] at hd
        subst hd; exact h'.2.2
      · simp only [he, Bool.false_eq_true, if_false, Option.some.injEq] at hd
        subst hd
        rw [WFq_cons]
        refine ⟨⟨?_, h'.1.2.1.erase o, ?_⟩, h'.2.1, h'.2.2⟩
        · intro e; exact he (List.isEmpty_iff.2 e)
        · intro hw
          exfalso
          apply he
          have hl : g.owners.length = 1 := h'.1.2.2 hw
          have := List.length_erase_of_mem hm
          rw [List.isEmpty_iff, ← List.length_eq_zero_iff]
          omega
    · simp [Queue.dequeue, hm] at hd

/-! ## histories -/

@[simp] theorem runHistory_nil (q : Queue) : runHistory q [] = some q := by
  cases q <;> rfl

theorem runHistory_cons (q : Queue) (o : Nat) (os : List Nat) :
    runHistory q (o :: os) = (q.dequeue o).bind (fun q' => runHistory q' os) := by
  rw [runHistory]
  cases q.dequeue o <;> rfl

@[simp] theorem runSpec_nil (p : List Req) : runSpec p [] = some p := by
  cases p <;> rfl

theorem runSpec_cons (p : List Req) (o : Nat) (os : List Nat) :
    runSpec p (o :: os) = (removeSpec p o).bind (fun p' => runSpec p' os) := by
  rw [runSpec]
  cases removeSpec p o <;> rfl

theorem runHistory_append (q : Queue) (os1 os2 : List Nat) :
    runHistory q (os1 ++ os2) = (runHistory q os1).bind (fun q' => runHistory q' os2) := by
  induction os1 generalizing q with
  | nil => simp
  | cons o os ih =>
    rw [List.cons_append, runHistory_cons, runHistory_cons]
    cases q.dequeue o with
    | none => rfl
    | some q' => simp [ih]

theorem runHistory_wf {q q' : Queue} {os : List Nat} (h : WFq q) (hr : runHistory q os = some q') : WFq q' := by
  induction os generalizing q with
  | nil => simp at hr; exact hr ▸ h
  | cons o os ih =>
    rw [runHistory_cons] at hr
    cases hd : q.dequeue o with
    | none => simp [hd] at hr
    | some q1 =>
      rw [hd] at hr
      exact ih (dequeue_wf h hd) hr

theorem runHistory_refines {q : Queue} (h : WFq q) (os : List Nat) :
    (runHistory q os).map abs = runSpec (abs q) os := by
  induction os generalizing q with
  | nil => simp
  | cons o os ih =>
    rw [runHistory_cons, runSpec_cons, ← dequeue_refines h]
    cases hd : q.dequeue o with
    | none => rfl
    | some q1 => simpa using ih (dequeue_wf h hd)

theorem runSpec_sublist {p p' : List Req} {os : List Nat} (h : runSpec p os = some p') : p'.Sublist p := by
  induction os generalizing p with
  | nil => simp at h; exact h ▸ List.Sublist.refl _
  | cons o os ih =>
    rw [runSpec_cons] at h
    cases hr : removeSpec p o with
    | none => simp [hr] at h
    | some p1 =>
      rw [hr] at h
      exact (ih h).trans (removeSpec_sublist hr)

theorem runSpec_length {p p' : List Req} {os : List Nat} (h : runSpec p os = some p') :
    p'.length + os.length = p.length := by
  induction os generalizing p with
  | nil => simp at h; simp [h]
  | cons o os ih =>
    rw [runSpec_cons] at h
    cases hr : removeSpec p o with
    | none => simp [hr] at h
    | some p1 =>
      rw [hr] at h
      have := ih h
      have := removeSpec_length hr
      simp only [List.length_cons]
      omega

theorem permittedHistory_iff (p : List Req) (os : List Nat) :
    PermittedHistory p os ↔ (runSpec p os).isSome = true := by
  induction os generalizing p with
  | nil => simp [PermittedHistory]
  | cons o os ih =>
    rw [PermittedHistory, runSpec_cons, removable]
    cases hr : removeSpec p o with
    | none => simp
    | some p1 => simp [ih]

/-- no dead-lock at the request level: any pending list can be emptied by permitted removals -/
theorem exists_runSpec_empty (p : List Req) : ∃ os, runSpec p os = some [] := by
  generalize hn : p.length = n
  induction n generalizing p with
  | zero => exact ⟨[], by simp [List.length_eq_zero_iff.1 hn]⟩
  | succ n ih =>
    have hne : p ≠ [] := by intro e; simp [e] at hn
    obtain ⟨o, ho⟩ := exists_removable hne
    rw [removable, Option.isSome_iff_exists] at ho
    obtain ⟨p1, hp1⟩ := ho
    have := removeSpec_length hp1
    obtain ⟨os, hos⟩ := ih p1 (by omega)
    exact ⟨o :: os, by rw [runSpec_cons, hp1]; exact hos⟩

/-! ## the oldest pending request, in terms of the registered sequence -/

theorem sublist_tail_of_cons_sublist_append {α : Type} {x : α} {t pre post : List α}
    (hs : (x :: t).Sublist (pre ++ x :: post)) (hx : x ∉ pre) : t.Sublist post := by
  induction pre with
  | nil => exact List.cons_sublist_cons.1 hs
  | cons a as ih =>
    have hax : x ≠ a := fun e => hx (by simp [e])
    have hx' : x ∉ as := fun hm => hx (List.mem_cons_of_mem _ hm)
    rw [List.cons_append] at hs
    cases hs with
    | cons _ h => exact ih h hx'
    | cons_cons _ h => exact absurd rfl hax

/-- Let `pending` be what is left (an order-preserving sublist) of the duplicate-free registered sequence `reqs`.
A pending request is the oldest pending one iff every request registered before it has been removed. -/
theorem head_iff_earlier_removed {α : Type} {reqs pending : List α} (hnd : reqs.Nodup)
    (hsub : pending.Sublist reqs) (x : α) :
    pending.head? = some x ↔
      x ∈ pending ∧ ∀ pre post, reqs = pre ++ x :: post → ∀ r ∈ pre, r ∉ pending := by
  constructor
  · intro hh
    obtain ⟨t, rfl⟩ : ∃ t, pending = x :: t := by
      cases pending with
      | nil => simp at hh
      | cons y t => simp at hh; exact ⟨t, by rw [hh]⟩
    refine ⟨by simp, ?_⟩
    rintro pre post rfl r hr hrp
    rw [List.nodup_append] at hnd
    obtain ⟨_, hnd2, hdis⟩ := hnd
    have hx : x ∉ pre := fun hm => hdis x hm x (by simp) rfl
    have ht := sublist_tail_of_cons_sublist_append hsub hx
    rcases List.mem_cons.1 hrp with e | hrt
    · exact hx (e ▸ hr)
    · exact hdis r hr r (List.mem_cons_of_mem _ (ht.subset hrt)) rfl
  · rintro ⟨hx, hall⟩
    cases pending with
    | nil => simp at hx
    | cons h t =>
      by_cases e : h = x
      · simp [e]
      · exfalso
        have hxt : x ∈ t := by
          rcases List.mem_cons.1 hx with e' | e'
          · exact absurd e'.symm e
          · exact e'
        obtain ⟨pre, post, hreqs⟩ := List.append_of_mem (hsub.subset hx)
        subst hreqs
        have hh : h ∉ pre := fun hm => hall pre post rfl h hm (by simp)
        have ht := sublist_tail_of_cons_sublist_append (x := h) (t := t) (pre := pre) (post := post)
        -- `h :: t` is a sublist of `pre ++ x :: post` with `h ∉ pre`, `h ≠ x`: so `h :: t` sits inside `post`
        have hs2 : (h :: t).Sublist post := by
          have h1 : (h :: t).Sublist (x :: post) := by
            clear ht hall
            induction pre with
            | nil => simpa using hsub
            | cons a as ih =>
              have hha : h ≠ a := fun e => hh (by simp [e])
              rw [List.cons_append] at hsub hnd
              cases hsub with
              | cons _ h' => exact ih (List.nodup_cons.1 hnd).2 h' (fun hm => hh (List.mem_cons_of_mem _ hm))
              | cons_cons _ h' => exact absurd rfl hha
          cases h1 with
          | cons _ h' => exact h'
          | cons_cons _ h' => exact absurd rfl e
        have hxpost : x ∈ post := hs2.subset (List.mem_cons_of_mem _ hxt)
        rw [List.nodup_append] at hnd
        exact (List.nodup_cons.1 hnd.2.1).1 hxpost

theorem programOrder_pairwise {l : List Req} (h : programOrder l = true) :
    l.Pairwise (fun a b => key a < key b) := by
  induction l with
  | nil => exact List.Pairwise.nil
  | cons r rest ih => exact List.pairwise_cons.2 ⟨programOrder_key_lt h, ih (programOrder_tail h)⟩

/-- in program order nothing is registered between an owner's read and its write -/
theorem own_pair_adjacent {reqs rest : List Req} {o : Nat} (hpo : programOrder reqs = true)
    (hsub : ((false, o) :: (true, o) :: rest).Sublist reqs) :
    ∃ pre post, reqs = pre ++ (false, o) :: (true, o) :: post := by
  have hnd := programOrder_nodup hpo
  have hpw := programOrder_pairwise hpo
  obtain ⟨pre, post1, hreqs⟩ := List.append_of_mem (hsub.subset (List.mem_cons_self ..))
  subst hreqs
  have hx : ((false, o) : Req) ∉ pre := by
    rw [List.nodup_append] at hnd
    exact fun hm => hnd.2.2 _ hm _ (List.mem_cons_self ..) rfl
  have ht := sublist_tail_of_cons_sublist_append hsub hx
  obtain ⟨mid, post, hpost⟩ := List.append_of_mem (ht.subset (List.mem_cons_self ..))
  subst hpost
  cases mid with
  | nil => exact ⟨pre, post, rfl⟩
  | cons m ms =>
    exfalso
    rw [List.pairwise_append] at hpw
    have h1 := List.pairwise_cons.1 hpw.2.1
    have hlo : key (false, o) < key m := h1.1 m (by simp)
    have hhi : key m < key (true, o) := (List.pairwise_cons.1 h1.2).1 (true, o) (by simp)
    simp only [key, Bool.toNat_false, Bool.toNat_true] at hlo hhi
    omega

end QueueLemmas
end ProcSim
