import ProcSim.Spec.Sim
/-!
# Shared foundation for the simulator proofs (C01–C08)

1. `AMap` / `Util` / `Queues` algebra.
2. Exact characterisations of every step of a cycle in terms of `Util.get`.
3. The core invariant `CoreInv` (and its weaker part `BaseInv`), proved for `initState` and preserved by `runCycle`.
4. Lifting principles from `runCycle` to diagrams of `simulate` (`simulate_induction`, `Diagram_adjacent`).

Core Lean only (no Mathlib import).
-/
namespace ProcSim

/- `AMap K V` is a plain `def` for `List (K × V)`; the proofs below constantly move between the two views, so the
definition is made transparent to unification *locally* (downstream proof files may want the same line). -/
attribute [local implicit_reducible] AMap

/-! ## 1. `AMap` algebra -/

namespace AMap
variable {K V : Type}

/-- the entries of the map as a list (`AMap` is not reducible, so `∈` needs this view) -/
def toList (m : AMap K V) : List (K × V) := m

@[simp] theorem toList_nil : toList ([] : List (K × V)) = [] := rfl

@[simp] theorem toList_cons (p : K × V) (m : List (K × V)) : toList (p :: m : List (K × V)) = p :: toList m := rfl

@[simp] theorem keys_nil : keys ([] : List (K × V)) = [] := rfl

@[simp] theorem keys_cons (p : K × V) (m : List (K × V)) : keys (p :: m : List (K × V)) = p.1 :: keys m := rfl

variable [DecidableEq K]

theorem get?_cons (k' : K) (v : V) (m : List (K × V)) (k : K) :
    get? ((k', v) :: m : List (K × V)) k = if k' = k then some v else get? m k := rfl

theorem set_cons (k' : K) (v' : V) (m : List (K × V)) (k : K) (v : V) :
    set ((k', v') :: m : List (K × V)) k v = if k' = k then (k, v) :: m else (k', v') :: set m k v := rfl

/-- a key that is not in `keys` is unbound (and conversely) -/
theorem get?_eq_none_iff {m : AMap K V} {k : K} : m.get? k = none ↔ k ∉ m.keys := by
  induction m with
  | nil => simp
  | cons p m ih =>
    obtain ⟨k', v'⟩ := p
    by_cases h : k' = k
    · simp [get?_cons, h]
    · have h' : ¬ k = k' := fun e => h e.symm
      simp [get?_cons, h, h', ih]

theorem get?_eq_none_of_not_mem_keys {m : AMap K V} {k : K} (h : k ∉ m.keys) : m.get? k = none :=
  get?_eq_none_iff.2 h

theorem mem_keys_of_get?_eq_some {m : AMap K V} {k : K} {v : V} (h : m.get? k = some v) : k ∈ m.keys := by
  by_cases hk : k ∈ m.keys
  · exact hk
  · rw [get?_eq_none_of_not_mem_keys hk] at h; cases h

/-- a bound key is bound to an entry of the list -/
theorem mem_of_get?_eq_some {m : AMap K V} {k : K} {v : V} (h : m.get? k = some v) :
    (k, v) ∈ m.toList := by
  induction m with
  | nil => cases h
  | cons p m ih =>
    obtain ⟨k', v'⟩ := p
    by_cases hk : k' = k
    · simp only [get?_cons, hk, if_true, Option.some.injEq] at h
      subst hk; subst h; exact List.mem_cons_self
    · simp only [get?_cons, hk, if_false] at h
      exact List.mem_cons_of_mem _ (ih h)

/-- with duplicate-free keys every entry is the binding of its key -/
theorem get?_of_mem {m : AMap K V} {k : K} {v : V} (hn : m.keys.Nodup) (h : (k, v) ∈ m.toList) :
    m.get? k = some v := by
  induction m with
  | nil => cases h
  | cons p m ih =>
    obtain ⟨k', v'⟩ := p
    simp only [keys_cons, List.nodup_cons] at hn
    rcases List.mem_cons.1 h with e | h'
    · cases e; simp [get?_cons]
    · have hk : k ∈ keys m := List.mem_map.2 ⟨(k, v), h', rfl⟩
      have : ¬ k' = k := fun e => hn.1 (e ▸ hk)
      simp only [get?_cons, this, if_false]
      exact ih hn.2 h'

theorem mem_keys_set {m : AMap K V} {k k' : K} {v : V} : k' ∈ (m.set k v).keys ↔ k' = k ∨ k' ∈ m.keys := by
  induction m with
  | nil => simp [set, keys]
  | cons p m ih =>
    obtain ⟨k₀, v₀⟩ := p
    by_cases h : k₀ = k
    · subst h; simp [set_cons]
    · simp only [set_cons, h, if_false, keys_cons, List.mem_cons, ih]
      constructor
      · rintro (e | e | e)
        · exact Or.inr (Or.inl e)
        · exact Or.inl e
        · exact Or.inr (Or.inr e)
      · rintro (e | e | e)
        · exact Or.inr (Or.inl e)
        · exact Or.inl e
        · exact Or.inr (Or.inr e)

/-- `set` overwrites in place or appends at the end -/
theorem keys_set (m : AMap K V) (k : K) (v : V) :
    (m.set k v).keys = if k ∈ m.keys then m.keys else m.keys ++ [k] := by
  induction m with
  | nil => simp [set, keys]
  | cons p m ih =>
    obtain ⟨k₀, v₀⟩ := p
    by_cases h : k₀ = k
    · subst h; simp [set_cons]
    · have h' : ¬ k = k₀ := fun e => h e.symm
      simp only [set_cons, h, if_false, keys_cons, ih, List.mem_cons, h', false_or]
      split <;> simp

/-- `set` never creates a duplicate key -/
theorem keys_set_nodup {m : AMap K V} (k : K) (v : V) (hn : m.keys.Nodup) : (m.set k v).keys.Nodup := by
  rw [keys_set]
  split
  · exact hn
  · next h =>
    rw [List.nodup_append]
    refine ⟨hn, by simp, ?_⟩
    intro a ha b hb
    simp only [List.mem_singleton] at hb
    subst hb
    exact fun e => h (e ▸ ha)

theorem get?_set (m : AMap K V) (k k' : K) (v : V) :
    (m.set k v).get? k' = if k = k' then some v else m.get? k' := by
  split
  · next h => subst h; exact get?_set_eq m k v
  · next h => exact get?_set_ne m v h

end AMap

variable {N : Type} [DecidableEq N]

/-! ### `Util` -/

namespace Util

@[simp] theorem get_nil (n : N) : Util.get ([] : List (N × List HI)) n = [] := rfl

theorem get_cons (k : N) (l : List HI) (u : List (N × List HI)) (n : N) :
    Util.get ((k, l) :: u : List (N × List HI)) n = if k = n then l else Util.get u n := by
  unfold Util.get
  rw [AMap.get?_cons]
  split <;> rfl

@[simp] theorem get_set_eq (u : Util N) (n : N) (l : List HI) : (u.set n l).get n = l := by
  simp [Util.get, Util.set]

theorem get_set_ne (u : Util N) {n n' : N} (l : List HI) (h : n ≠ n') : (u.set n l).get n' = u.get n' := by
  simp [Util.get, Util.set, AMap.get?_set_ne u l h]

theorem get_set (u : Util N) (n n' : N) (l : List HI) : (u.set n l).get n' = if n = n' then l else u.get n' := by
  split
  · next h => subst h; exact get_set_eq u n l
  · next h => exact get_set_ne u l h

theorem keys_set_nodup {u : Util N} (n : N) (l : List HI) (h : (AMap.keys u).Nodup) :
    (AMap.keys (u.set n l)).Nodup := AMap.keys_set_nodup n l h

theorem mem_keys_set {u : Util N} {n n' : N} {l : List HI} :
    n' ∈ AMap.keys (u.set n l) ↔ n' = n ∨ n' ∈ AMap.keys u := AMap.mem_keys_set

theorem get_of_not_mem_keys {u : Util N} {n : N} (h : n ∉ AMap.keys u) : u.get n = [] := by
  simp [Util.get, AMap.get?_eq_none_of_not_mem_keys h]

theorem mem_keys_of_get_ne_nil {u : Util N} {n : N} (h : u.get n ≠ []) : n ∈ AMap.keys u := by
  by_cases hk : n ∈ AMap.keys u
  · exact hk
  · exact absurd (get_of_not_mem_keys hk) h

/-- with duplicate-free keys every entry is what `get` returns -/
theorem get_of_mem {u : Util N} {n : N} {l : List HI} (hn : (AMap.keys u).Nodup)
    (h : (n, l) ∈ AMap.toList u) : u.get n = l := by
  simp [Util.get, AMap.get?_of_mem hn h]

/-- a non-empty `get` comes from an entry -/
theorem mem_of_get_ne_nil {u : Util N} {n : N} (h : u.get n ≠ []) : (n, u.get n) ∈ AMap.toList u := by
  unfold Util.get at h ⊢
  cases hg : AMap.get? u n with
  | none => simp [hg] at h
  | some v => simpa using AMap.mem_of_get?_eq_some hg

end Util

/-! ### `Queues` -/

namespace Queues

@[simp] theorem get_set_eq (qs : Queues N) (r : N) (q : Queue) : (qs.set r q).get r = q := by
  simp [Queues.get, Queues.set]

theorem get_set_ne (qs : Queues N) {r r' : N} (q : Queue) (h : r ≠ r') : (qs.set r q).get r' = qs.get r' := by
  simp [Queues.get, Queues.set, AMap.get?_set_ne qs q h]

theorem get_set (qs : Queues N) (r r' : N) (q : Queue) : (qs.set r q).get r' = if r = r' then q else qs.get r' := by
  split
  · next h => subst h; exact get_set_eq qs r q
  · next h => exact get_set_ne qs q h

theorem keys_set_nodup {qs : Queues N} (r : N) (q : Queue) (h : (AMap.keys qs).Nodup) :
    (AMap.keys (qs.set r q)).Nodup := AMap.keys_set_nodup r q h

end Queues

end ProcSim
