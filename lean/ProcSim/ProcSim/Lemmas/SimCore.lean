import ProcSim.Spec.Sim
/-!
# Shared foundation for the simulator proofs (C01–C08)

1. `AMap` / `Util` / `Queues` algebra.
2. Exact characterisations of every step of a cycle in terms of `Util.get`.
3. The core invariant `CoreInv` (and its weaker part `BaseInv`), proved for `initState` and preserved by `runCycle`.
4. Lifting principles from `runCycle` to diagrams of `simulate` (`simulate_induction`, `Diagram_adjacent`).

Core Lean only (no Mathlib import).
-/
namespace ProcSim

/- `AMap K V` is a plain `def` for `List (K × V)`; the proofs below constantly move between the two views, so the
definition is made transparent to unification *locally* (downstream proof files may want the same line). -/
attribute [local implicit_reducible] AMap

/-! ## 1. `AMap` algebra -/

namespace AMap
variable {K V : Type}

/-- the entries of the map as a list (`AMap` is not reducible, so `∈` needs this view) -/
def toList (m : AMap K V) : List (K × V) := m

@[simp] theorem toList_nil : toList ([] : List (K × V)) = [] := rfl

@[simp] theorem toList_cons (p : K × V) (m : List (K × V)) : toList (p :: m : List (K × V)) = p :: toList m := rfl

@[simp] theorem keys_nil : keys ([] : List (K × V)) = [] := rfl

@[simp] theorem keys_cons (p : K × V) (m : List (K × V)) : keys (p :: m : List (K × V)) = p.1 :: keys m := rfl

variable [DecidableEq K]

theorem get?_cons (k' : K) (v : V) (m : List (K × V)) (k : K) :
    get? ((k', v) :: m : List (K × V)) k = if k' = k then some v else get? m k := rfl

theorem set_cons (k' : K) (v' : V) (m : List (K × V)) (k : K) (v : V) :
    set ((k', v') :: m : List (K × V)) k v = if k' = k then (k, v) :: m else (k', v') :: set m k v := rfl

/-- a key that is not in `keys` is unbound (and conversely) -/
theorem get?_eq_none_iff {m : AMap K V} {k : K} : m.get? k = none ↔ k ∉ m.keys := by
  induction m with
  | nil => simp
  | cons p m ih =>
    obtain ⟨k', v'⟩ := p
    by_cases h : k' = k
    · simp [get?_cons, h]
    · have h' : ¬ k = k' := fun e => h e.symm
      simp [get?_cons, h, h', ih]

theorem get?_eq_none_of_not_mem_keys {m : AMap K V} {k : K} (h : k ∉ m.keys) : m.get? k = none :=
  get?_eq_none_iff.2 h

theorem mem_keys_of_get?_eq_some {m : AMap K V} {k : K} {v : V} (h : m.get? k = some v) : k ∈ m.keys := by
  by_cases hk : k ∈ m.keys
  · exact hk
  · rw [get?_eq_none_of_not_mem_keys hk] at h; cases h

/-- a bound key is bound to an entry of the list -/
theorem mem_of_get?_eq_some {m : AMap K V} {k : K} {v : V} (h : m.get? k = some v) :
    (k, v) ∈ m.toList := by
  induction m with
  | nil => cases h
  | cons p m ih =>
    obtain ⟨k', v'⟩ := p
    by_cases hk : k' = k
    · simp only [get?_cons, hk, if_true, Option.some.injEq] at h
      subst hk; subst h; exact List.mem_cons_self
    · simp only [get?_cons, hk, if_false] at h
      exact List.mem_cons_of_mem _ (ih h)

/-- with duplicate-free keys every entry is the binding of its key -/
theorem get?_of_mem {m : AMap K V} {k : K} {v : V} (hn : m.keys.Nodup) (h : (k, v) ∈ m.toList) :
    m.get? k = some v := by
  induction m with
  | nil => cases h
  | cons p m ih =>
    obtain ⟨k', v'⟩ := p
    simp only [keys_cons, List.nodup_cons] at hn
    rcases List.mem_cons.1 h with e | h'
    · cases e; simp [get?_cons]
    · have hk : k ∈ keys m := List.mem_map.2 ⟨(k, v), h', rfl⟩
      have : ¬ k' = k := fun e => hn.1 (e ▸ hk)
      simp only [get?_cons, this, if_false]
      exact ih hn.2 h'

theorem mem_keys_set {m : AMap K V} {k k' : K} {v : V} : k' ∈ (m.set k v).keys ↔ k' = k ∨ k' ∈ m.keys := by
  induction m with
  | nil => simp [set, keys]
  | cons p m ih =>
    obtain ⟨k₀, v₀⟩ := p
    by_cases h : k₀ = k
    · subst h; simp [set_cons]
    · simp only [set_cons, h, if_false, keys_cons, List.mem_cons, ih]
      constructor
      · rintro (e | e | e)
        · exact Or.inr (Or.inl e)
        · exact Or.inl e
        · exact Or.inr (Or.inr e)
      · rintro (e | e | e)
        · exact Or.inr (Or.inl e)
        · exact Or.inl e
        · exact Or.inr (Or.inr e)

/-- `set` overwrites in place or appends at the end -/
theorem keys_set (m : AMap K V) (k : K) (v : V) :
    (m.set k v).keys = if k ∈ m.keys then m.keys else m.keys ++ [k] := by
  induction m with
  | nil => simp [set, keys]
  | cons p m ih =>
    obtain ⟨k₀, v₀⟩ := p
    by_cases h : k₀ = k
    · subst h; simp [set_cons]
    · have h' : ¬ k = k₀ := fun e => h e.symm
      simp only [set_cons, h, if_false, keys_cons, ih, List.mem_cons, h', false_or]
      split <;> simp

/-- `set` never creates a duplicate key -/
theorem keys_set_nodup {m : AMap K V} (k : K) (v : V) (hn : m.keys.Nodup) : (m.set k v).keys.Nodup := by
  rw [keys_set]
  split
  · exact hn
  · next h =>
    rw [List.nodup_append]
    refine ⟨hn, by simp, ?_⟩
    intro a ha b hb
    simp only [List.mem_singleton] at hb
    subst hb
    exact fun e => h (e ▸ ha)

theorem get?_set (m : AMap K V) (k k' : K) (v : V) :
    (m.set k v).get? k' = if k = k' then some v else m.get? k' := by
  split
  · next h => subst h; exact get?_set_eq m k v
  · next h => exact get?_set_ne m v h

end AMap

variable {N : Type} [DecidableEq N]

/-! ### `Util` -/

namespace Util

@[simp] theorem get_nil (n : N) : Util.get ([] : List (N × List HI)) n = [] := rfl

theorem get_cons (k : N) (l : List HI) (u : List (N × List HI)) (n : N) :
    Util.get ((k, l) :: u : List (N × List HI)) n = if k = n then l else Util.get u n := by
  unfold Util.get
  rw [AMap.get?_cons]
  split <;> rfl

@[simp] theorem get_set_eq (u : Util N) (n : N) (l : List HI) : (u.set n l).get n = l := by
  simp [Util.get, Util.set]

theorem get_set_ne (u : Util N) {n n' : N} (l : List HI) (h : n ≠ n') : (u.set n l).get n' = u.get n' := by
  simp [Util.get, Util.set, AMap.get?_set_ne u l h]

theorem get_set (u : Util N) (n n' : N) (l : List HI) : (u.set n l).get n' = if n = n' then l else u.get n' := by
  split
  · next h => subst h; exact get_set_eq u n l
  · next h => exact get_set_ne u l h

theorem keys_set_nodup {u : Util N} (n : N) (l : List HI) (h : (AMap.keys u).Nodup) :
    (AMap.keys (u.set n l)).Nodup := AMap.keys_set_nodup n l h

theorem mem_keys_set {u : Util N} {n n' : N} {l : List HI} :
    n' ∈ AMap.keys (u.set n l) ↔ n' = n ∨ n' ∈ AMap.keys u := AMap.mem_keys_set

theorem get_of_not_mem_keys {u : Util N} {n : N} (h : n ∉ AMap.keys u) : u.get n = [] := by
  simp [Util.get, AMap.get?_eq_none_of_not_mem_keys h]

theorem mem_keys_of_get_ne_nil {u : Util N} {n : N} (h : u.get n ≠ []) : n ∈ AMap.keys u := by
  by_cases hk : n ∈ AMap.keys u
  · exact hk
  · exact absurd (get_of_not_mem_keys hk) h

/-- with duplicate-free keys every entry is what `get` returns -/
theorem get_of_mem {u : Util N} {n : N} {l : List HI} (hn : (AMap.keys u).Nodup)
    (h : (n, l) ∈ AMap.toList u) : u.get n = l := by
  simp [Util.get, AMap.get?_of_mem hn h]

/-- a non-empty `get` comes from an entry -/
theorem mem_of_get_ne_nil {u : Util N} {n : N} (h : u.get n ≠ []) : (n, u.get n) ∈ AMap.toList u := by
  unfold Util.get at h ⊢
  cases hg : AMap.get? u n with
  | none => simp [hg] at h
  | some v => simpa using AMap.mem_of_get?_eq_some hg

end Util

/-! ### `Queues` -/

namespace Queues

@[simp] theorem get_set_eq (qs : Queues N) (r : N) (q : Queue) : (qs.set r q).get r = q := by
  simp [Queues.get, Queues.set]

theorem get_set_ne (qs : Queues N) {r r' : N} (q : Queue) (h : r ≠ r') : (qs.set r q).get r' = qs.get r' := by
  simp [Queues.get, Queues.set, AMap.get?_set_ne qs q h]

theorem get_set (qs : Queues N) (r r' : N) (q : Queue) : (qs.set r q).get r' = if r = r' then q else qs.get r' := by
  split
  · next h => subst h; exact get_set_eq qs r q
  · next h => exact get_set_ne qs q h

theorem keys_set_nodup {qs : Queues N} (r : N) (q : Queue) (h : (AMap.keys qs).Nodup) :
    (AMap.keys (qs.set r q)).Nodup := AMap.keys_set_nodup r q h

end Queues

/-! ## 2. The steps of a cycle, in terms of `Util.get` -/

/-! ### flush -/

theorem flushOutputs_nil (u : Util N) : flushOutputs [] u = u := rfl

theorem flushOutputs_cons (o : N) (outs : List N) (u : Util N) :
    flushOutputs (o :: outs) u = flushOutputs outs (u.set o ((u.get o).filter (fun h => h.st == .D))) := rfl

/-- exact content of every unit after the flush -/
theorem flushOutputs_get (outs : List N) (u : Util N) (n : N) :
    (flushOutputs outs u).get n = if n ∈ outs then (u.get n).filter (fun h => h.st == .D) else u.get n := by
  induction outs generalizing u with
  | nil => simp [flushOutputs_nil]
  | cons o outs ih =>
    rw [flushOutputs_cons, ih, Util.get_set]
    by_cases h1 : o = n
    · subst h1; simp [List.filter_filter]
    · have h2 : ¬ n = o := fun e => h1 e.symm
      simp [h1, h2]

theorem flushOutputs_keys_nodup (outs : List N) {u : Util N} (h : (AMap.keys u).Nodup) :
    (AMap.keys (flushOutputs outs u)).Nodup := by
  induction outs generalizing u with
  | nil => exact h
  | cons o outs ih => rw [flushOutputs_cons]; exact ih (Util.keys_set_nodup _ _ h)

theorem mem_keys_flushOutputs {outs : List N} {u : Util N} {n : N} :
    n ∈ AMap.keys (flushOutputs outs u) ↔ n ∈ outs ∨ n ∈ AMap.keys u := by
  induction outs generalizing u with
  | nil => simp [flushOutputs_nil]
  | cons o outs ih =>
    rw [flushOutputs_cons, ih, Util.mem_keys_set, List.mem_cons]
    constructor
    · rintro (h | h | h)
      · exact Or.inl (Or.inr h)
      · exact Or.inl (Or.inl h)
      · exact Or.inr h
    · rintro ((h | h) | h)
      · exact Or.inr (Or.inl h)
      · exact Or.inl h
      · exact Or.inr (Or.inr h)

theorem flushOutputs_get_sublist (outs : List N) (u : Util N) (n : N) :
    ((flushOutputs outs u).get n).Sublist (u.get n) := by
  rw [flushOutputs_get]; split
  · exact List.filter_sublist
  · exact List.Sublist.refl _

/-! ### the fill loop -/

/-- The candidates the fill loop takes: `len` is the current content length of the destination, `mem` the memory
flag. (`fillLoop_eq` shows that `fillLoop` appends exactly these.) -/
def fillTaken (prog : List (Instr N)) (d : UnitM N) : List (N × Nat) → Nat → Bool → List (N × Nat)
  | [], _, _ => []
  | c :: cs, len, mem =>
    if len = d.width then []
    else if mem && capIn prog c.2 d.acl then fillTaken prog d cs len mem
    else c :: fillTaken prog d cs (len + 1) (mem || capIn prog c.2 d.acl)

/-- exact result of the fill loop -/
theorem fillLoop_eq (prog : List (Instr N)) (d : UnitM N) (cs : List (N × Nat)) (cur : List HI) (mem : Bool)
    (moved : List (N × Nat)) :
    fillLoop prog d cs cur mem moved =
      (cur ++ (fillTaken prog d cs cur.length mem).map (fun c => (⟨c.2, .U⟩ : HI)),
       mem || (fillTaken prog d cs cur.length mem).any (fun c => capIn prog c.2 d.acl),
       moved ++ fillTaken prog d cs cur.length mem) := by
  induction cs generalizing cur mem moved with
  | nil => simp [fillLoop, fillTaken]
  | cons c cs ih =>
    unfold fillLoop fillTaken
    by_cases h1 : cur.length = d.width
    · simp [h1]
    · simp only [h1, if_false]
      cases h2 : (mem && capIn prog c.2 d.acl)
      · simp only [Bool.false_eq_true, if_false]
        rw [ih (cur ++ [(⟨c.2, .U⟩ : HI)]) (mem || capIn prog c.2 d.acl) (moved ++ [c])]
        simp [Bool.or_assoc]
      · simp only [if_true]; exact ih cur mem moved

theorem fillTaken_sublist (prog : List (Instr N)) (d : UnitM N) (cs : List (N × Nat)) (len : Nat) (mem : Bool) :
    (fillTaken prog d cs len mem).Sublist cs := by
  induction cs generalizing len mem with
  | nil => simp [fillTaken]
  | cons c cs ih =>
    unfold fillTaken
    split
    · exact List.nil_sublist _
    · split
      · exact (ih len mem).cons _
      · exact (ih _ _).cons_cons _

/-- the loop never fills beyond the width (if it started within it) -/
theorem fillTaken_length (prog : List (Instr N)) (d : UnitM N) (cs : List (N × Nat)) (len : Nat) (mem : Bool)
    (h : len ≤ d.width) : len + (fillTaken prog d cs len mem).length ≤ d.width := by
  induction cs generalizing len mem with
  | nil => simpa [fillTaken] using h
  | cons c cs ih =>
    unfold fillTaken
    split
    · simpa using h
    · next h1 =>
      split
      · exact ih len mem h
      · have := ih (len + 1) (mem || capIn prog c.2 d.acl) (by omega)
        simp only [List.length_cons]; omega

/-- memory-flag accounting: (flag before) + (number of taken candidates that need memory) = (flag after), as
numbers. Hence at most one taken candidate needs memory, and none if the flag was already set. -/
theorem fillTaken_mem (prog : List (Instr N)) (d : UnitM N) (cs : List (N × Nat)) (len : Nat) (mem : Bool) :
    mem.toNat + ((fillTaken prog d cs len mem).filter (fun c => capIn prog c.2 d.acl)).length =
      (mem || (fillTaken prog d cs len mem).any (fun c => capIn prog c.2 d.acl)).toNat := by
  induction cs generalizing len mem with
  | nil => simp [fillTaken]
  | cons c cs ih =>
    unfold fillTaken
    split
    · simp
    · split
      · exact ih len mem
      · next h2 =>
        have := ih (len + 1) (mem || capIn prog c.2 d.acl)
        simp only [List.filter_cons, List.any_cons]
        cases hm : mem <;> cases hc : capIn prog c.2 d.acl <;> simp [hm, hc] at this h2 ⊢ <;> omega

/-- why the loop stopped: the unit is full, or every candidate was taken or skipped because it needs the memory
port, which was busy (and therefore is busy at the end) -/
theorem fillTaken_stop (prog : List (Instr N)) (d : UnitM N) (cs : List (N × Nat)) (len : Nat) (mem : Bool) :
    len + (fillTaken prog d cs len mem).length = d.width ∨
    ∀ c ∈ cs, c ∈ fillTaken prog d cs len mem ∨
      (capIn prog c.2 d.acl = true ∧
        (mem || (fillTaken prog d cs len mem).any (fun c => capIn prog c.2 d.acl)) = true) := by
  induction cs generalizing len mem with
  | nil => right; simp
  | cons c cs ih =>
    unfold fillTaken
    split
    · next h => left; simpa using h
    · split
      · next h1 h2 =>
        rcases ih len mem with h | h
        · exact Or.inl h
        · right
          intro c' hc'
          rcases List.mem_cons.1 hc' with e | e
          · subst e
            simp only [Bool.and_eq_true] at h2
            exact Or.inr ⟨h2.2, by simp [h2.1]⟩
          · exact h c' e
      · next h1 h2 =>
        rcases ih (len + 1) (mem || capIn prog c.2 d.acl) with h | h
        · left; simp only [List.length_cons]; omega
        · right
          intro c' hc'
          rcases List.mem_cons.1 hc' with e | e
          · subst e; exact Or.inl List.mem_cons_self
          · rcases h c' e with h' | h'
            · exact Or.inl (List.mem_cons_of_mem _ h')
            · refine Or.inr ⟨h'.1, ?_⟩
              have := h'.2
              simp only [List.any_cons, Bool.or_eq_true] at this ⊢
              rcases this with (a | a) | a
              · exact Or.inl a
              · exact Or.inr (Or.inl a)
              · exact Or.inr (Or.inr a)

/-! ### removal of the moved instructions -/

/-- exact content of every unit after `_clr_src_units` -/
theorem removeMoved_get (u : Util N) (ms : List (N × Nat)) (n : N) :
    (removeMoved u ms).get n = (u.get n).filter (fun x => !(ms.any (fun m => m.1 == n && m.2 == x.idx))) := by
  induction ms generalizing u with
  | nil =>
    symm; apply List.filter_eq_self.2; intro x _; simp
  | cons m ms ih =>
    obtain ⟨h, i⟩ := m
    unfold removeMoved
    rw [ih, Util.get_set]
    by_cases hn : h = n
    · subst hn
      simp only [if_true, List.filter_filter, List.any_cons, beq_self_eq_true, Bool.true_and]
      apply List.filter_congr
      intro x _
      have e : (x.idx != i) = !(i == x.idx) := by
        show (!(x.idx == i)) = !(i == x.idx)
        rw [show (x.idx == i) = (i == x.idx) from BEq.comm]
      rw [e]
      cases (i == x.idx) <;> cases (ms.any fun m => m.1 == h && m.2 == x.idx) <;> rfl
    · have hb : (h == n) = false := by simp [hn]
      simp only [hn, if_false, List.any_cons, hb, Bool.false_and, Bool.false_or]

theorem removeMoved_keys_nodup {u : Util N} (ms : List (N × Nat)) (h : (AMap.keys u).Nodup) :
    (AMap.keys (removeMoved u ms)).Nodup := by
  induction ms generalizing u with
  | nil => exact h
  | cons m ms ih =>
    obtain ⟨a, i⟩ := m
    unfold removeMoved
    exact ih (Util.keys_set_nodup _ _ h)

theorem mem_keys_removeMoved {u : Util N} {ms : List (N × Nat)} {n : N} :
    n ∈ AMap.keys (removeMoved u ms) ↔ n ∈ ms.map (·.1) ∨ n ∈ AMap.keys u := by
  induction ms generalizing u with
  | nil => simp [removeMoved]
  | cons m ms ih =>
    obtain ⟨a, i⟩ := m
    unfold removeMoved
    rw [ih, Util.mem_keys_set, List.map_cons, List.mem_cons]
    constructor
    · rintro (h | h | h)
      · exact Or.inl (Or.inr h)
      · exact Or.inl (Or.inl h)
      · exact Or.inr h
    · rintro ((h | h) | h)
      · exact Or.inr (Or.inl h)
      · exact Or.inl h
      · exact Or.inr (Or.inr h)

theorem removeMoved_get_sublist (u : Util N) (ms : List (N × Nat)) (n : N) :
    ((removeMoved u ms).get n).Sublist (u.get n) := by
  rw [removeMoved_get]; exact List.filter_sublist

/-! ### sorting (`isort`, `sortByKey`) -/

theorem insertBy_perm {α : Type} (le : α → α → Bool) (x : α) (l : List α) : (insertBy le x l).Perm (x :: l) := by
  induction l with
  | nil => exact List.Perm.refl _
  | cons y ys ih =>
    unfold insertBy
    split
    · exact List.Perm.refl _
    · exact ((List.Perm.cons y ih).trans (List.Perm.swap x y ys))

theorem isort_perm {α : Type} (le : α → α → Bool) (l : List α) : (isort le l).Perm l := by
  induction l with
  | nil => exact List.Perm.refl _
  | cons x xs ih => exact (insertBy_perm le x _).trans (List.Perm.cons x ih)

theorem mem_isort {α : Type} {le : α → α → Bool} {l : List α} {a : α} : a ∈ isort le l ↔ a ∈ l :=
  (isort_perm le l).mem_iff

theorem sortByKey_perm {α : Type} (key : α → Nat) (l : List α) : (sortByKey key l).Perm l := isort_perm _ l

theorem mem_sortByKey {α : Type} {key : α → Nat} {l : List α} {a : α} : a ∈ sortByKey key l ↔ a ∈ l :=
  (sortByKey_perm key l).mem_iff

theorem insertBy_key_sorted {α : Type} (key : α → Nat) (x : α) (l : List α)
    (h : l.Pairwise (fun a b => key a ≤ key b)) :
    (insertBy (fun a b => decide (key a ≤ key b)) x l).Pairwise (fun a b => key a ≤ key b) := by
  induction l with
  | nil => simp [insertBy]
  | cons y ys ih =>
    unfold insertBy
    rw [List.pairwise_cons] at h
    split
    · next hxy =>
      have hxy : key x ≤ key y := by simpa using hxy
      refine List.pairwise_cons.2 ⟨?_, List.pairwise_cons.2 h⟩
      intro z hz
      rcases List.mem_cons.1 hz with e | e
      · subst e; exact hxy
      · exact Nat.le_trans hxy (h.1 z e)
    · next hxy =>
      have hxy : key y ≤ key x := by
        have : ¬ key x ≤ key y := by simpa using hxy
        omega
      refine List.pairwise_cons.2 ⟨?_, ih h.2⟩
      intro z hz
      rcases List.mem_cons.1 ((insertBy_perm _ x ys).mem_iff.1 hz) with e | e
      · subst e; exact hxy
      · exact h.1 z e

/-- `sortByKey` sorts -/
theorem sortByKey_sorted {α : Type} (key : α → Nat) (l : List α) :
    (sortByKey key l).Pairwise (fun a b => key a ≤ key b) := by
  induction l with
  | nil => simp [sortByKey, isort]
  | cons x xs ih => exact insertBy_key_sorted key x _ ih

/-! ### candidates -/

theorem mem_candsOf {prog : List (Instr N)} {d : UnitM N} {u : Util N} {host : N} {c : N × Nat} :
    c ∈ candsOf prog d u host ↔ c.1 = host ∧ ∃ h ∈ u.get host, validCand prog d h = true ∧ h.idx = c.2 := by
  obtain ⟨a, i⟩ := c
  simp only [candsOf, List.mem_map, List.mem_filter, Prod.mk.injEq]
  constructor
  · rintro ⟨h, ⟨hm, hv⟩, rfl, rfl⟩; exact ⟨rfl, h, hm, hv, rfl⟩
  · rintro ⟨rfl, h, hm, hv, rfl⟩; exact ⟨h, ⟨hm, hv⟩, rfl, rfl⟩

theorem candidates_perm (prog : List (Instr N)) (d : FuncU N) (u : Util N) :
    (candidates prog d u).Perm (d.preds.flatMap (candsOf prog d.model u)) := sortByKey_perm _ _

/-- a candidate is a non-`D` instruction of a predecessor whose capability the destination supports -/
theorem mem_candidates {prog : List (Instr N)} {d : FuncU N} {u : Util N} {c : N × Nat} :
    c ∈ candidates prog d u ↔
      c.1 ∈ d.preds ∧ ∃ h ∈ u.get c.1, validCand prog d.model h = true ∧ h.idx = c.2 := by
  rw [(candidates_perm prog d u).mem_iff, List.mem_flatMap]
  constructor
  · rintro ⟨host, hh, hc⟩
    have := mem_candsOf.1 hc
    rw [this.1]; exact ⟨hh, this.2⟩
  · rintro ⟨hh, hc⟩
    exact ⟨c.1, hh, mem_candsOf.2 ⟨rfl, hc⟩⟩

/-- candidates are tried oldest first -/
theorem candidates_sorted (prog : List (Instr N)) (d : FuncU N) (u : Util N) :
    (candidates prog d u).Pairwise (fun a b => a.2 ≤ b.2) := sortByKey_sorted _ _

/-! ### filling one destination -/

/-- the `(host, index)` pairs destination `d` takes from record `u` when the memory flag is `mem` -/
def unitTaken (prog : List (Instr N)) (d : FuncU N) (u : Util N) (mem : Bool) : List (N × Nat) :=
  fillTaken prog d.model (candidates prog d u) (u.get d.model.name).length mem

theorem fillUnit_fst (prog : List (Instr N)) (d : FuncU N) (u : Util N) (mem : Bool) :
    (fillUnit prog d u mem).1 =
      removeMoved (u.set d.model.name
        (u.get d.model.name ++ (unitTaken prog d u mem).map (fun c => (⟨c.2, .U⟩ : HI)))) (unitTaken prog d u mem) := by
  simp [fillUnit, fillLoop_eq, unitTaken]

/-- the memory flag after filling `d` -/
theorem fillUnit_snd (prog : List (Instr N)) (d : FuncU N) (u : Util N) (mem : Bool) :
    (fillUnit prog d u mem).2 = (mem || (unitTaken prog d u mem).any (fun c => capIn prog c.2 d.model.acl)) := by
  simp [fillUnit, fillLoop_eq, unitTaken]

/-- exact content of every unit after filling `d` -/
theorem fillUnit_get (prog : List (Instr N)) (d : FuncU N) (u : Util N) (mem : Bool) (n : N) :
    (fillUnit prog d u mem).1.get n =
      (if d.model.name = n then u.get n ++ (unitTaken prog d u mem).map (fun c => (⟨c.2, .U⟩ : HI)) else u.get n).filter
        (fun x => !((unitTaken prog d u mem).any (fun m => m.1 == n && m.2 == x.idx))) := by
  rw [fillUnit_fst, removeMoved_get, Util.get_set]
  by_cases h : d.model.name = n
  · subst h; simp
  · simp [h]

theorem mem_unitTaken {prog : List (Instr N)} {d : FuncU N} {u : Util N} {mem : Bool} {c : N × Nat}
    (h : c ∈ unitTaken prog d u mem) :
    c.1 ∈ d.preds ∧ ∃ x ∈ u.get c.1, validCand prog d.model x = true ∧ x.idx = c.2 :=
  mem_candidates.1 ((fillTaken_sublist _ _ _ _ _).subset h)

theorem unitTaken_sublist (prog : List (Instr N)) (d : FuncU N) (u : Util N) (mem : Bool) :
    (unitTaken prog d u mem).Sublist (candidates prog d u) := fillTaken_sublist _ _ _ _ _

/-- a unit other than `d` only loses instructions -/
theorem fillUnit_get_of_ne (prog : List (Instr N)) (d : FuncU N) (u : Util N) (mem : Bool) {n : N}
    (h : d.model.name ≠ n) :
    (fillUnit prog d u mem).1.get n =
      (u.get n).filter (fun x => !((unitTaken prog d u mem).any (fun m => m.1 == n && m.2 == x.idx))) := by
  rw [fillUnit_get]; simp [h]

/-- a destination that is not its own predecessor keeps its content and gets the taken candidates appended -/
theorem fillUnit_get_self (prog : List (Instr N)) (d : FuncU N) (u : Util N) (mem : Bool)
    (h : d.model.name ∉ d.preds) :
    (fillUnit prog d u mem).1.get d.model.name =
      u.get d.model.name ++ (unitTaken prog d u mem).map (fun c => (⟨c.2, .U⟩ : HI)) := by
  rw [fillUnit_get]
  simp only [if_true]
  apply List.filter_eq_self.2
  intro x _
  simp only [Bool.not_eq_true', List.any_eq_false, Bool.and_eq_true, beq_iff_eq, not_and]
  intro c hc e
  exact absurd (e ▸ (mem_unitTaken hc).1) h

/-- in every unit, the new content is a sub-list of the old content plus (for `d`) the taken candidates -/
theorem fillUnit_get_sublist (prog : List (Instr N)) (d : FuncU N) (u : Util N) (mem : Bool) (n : N) :
    ((fillUnit prog d u mem).1.get n).Sublist
      (if d.model.name = n then u.get n ++ (unitTaken prog d u mem).map (fun c => (⟨c.2, .U⟩ : HI)) else u.get n) := by
  rw [fillUnit_get]; exact List.filter_sublist

theorem fillUnit_keys_nodup (prog : List (Instr N)) (d : FuncU N) {u : Util N} (mem : Bool)
    (h : (AMap.keys u).Nodup) : (AMap.keys (fillUnit prog d u mem).1).Nodup := by
  rw [fillUnit_fst]; exact removeMoved_keys_nodup _ (Util.keys_set_nodup _ _ h)

theorem mem_keys_fillUnit {prog : List (Instr N)} {d : FuncU N} {u : Util N} {mem : Bool} {n : N}
    (h : n ∈ AMap.keys (fillUnit prog d u mem).1) : n = d.model.name ∨ n ∈ d.preds ∨ n ∈ AMap.keys u := by
  rw [fillUnit_fst, mem_keys_removeMoved, Util.mem_keys_set] at h
  rcases h with h | h | h
  · obtain ⟨c, hc, rfl⟩ := List.mem_map.1 h
    exact Or.inr (Or.inl (mem_unitTaken hc).1)
  · exact Or.inl h
  · exact Or.inr (Or.inr h)

/-- the unit never exceeds its width by filling -/
theorem fillUnit_length_self (prog : List (Instr N)) (d : FuncU N) (u : Util N) (mem : Bool)
    (h : (u.get d.model.name).length ≤ d.model.width) :
    ((fillUnit prog d u mem).1.get d.model.name).length ≤ d.model.width := by
  have h1 := (fillUnit_get_sublist prog d u mem d.model.name).length_le
  simp only [if_true, List.length_append, List.length_map] at h1
  have h2 := fillTaken_length prog d.model (candidates prog d u) _ mem h
  unfold unitTaken at h1
  omega

/-- memory accounting for one destination -/
theorem fillUnit_mem (prog : List (Instr N)) (d : FuncU N) (u : Util N) (mem : Bool) :
    mem.toNat + ((unitTaken prog d u mem).filter (fun c => capIn prog c.2 d.model.acl)).length =
      (fillUnit prog d u mem).2.toNat := by
  rw [fillUnit_snd]; exact fillTaken_mem _ _ _ _ _

/-! ### filling all destinations -/

/-- invariant principle for `fillDests` -/
theorem fillDests_induction (prog : List (Instr N)) (P : Util N → Bool → Prop) (ds : List (FuncU N))
    (hstep : ∀ d ∈ ds, ∀ u mem, P u mem → P (fillUnit prog d u mem).1 (fillUnit prog d u mem).2)
    (u : Util N) (mem : Bool) (h : P u mem) :
    P (fillDests prog ds u mem).1 (fillDests prog ds u mem).2 := by
  induction ds generalizing u mem with
  | nil => exact h
  | cons d ds ih =>
    unfold fillDests
    exact ih (fun d' hd' => hstep d' (List.mem_cons_of_mem _ hd')) _ _ (hstep d List.mem_cons_self u mem h)

/-- invariant principle for `moveFlights`: holds after the flush (memory flag `false`), preserved by every
destination -/
theorem moveFlights_induction (p : Proc N) (prog : List (Instr N)) (P : Util N → Bool → Prop) (u : Util N)
    (h0 : P (flushOutputs p.outBoundary u) false)
    (hstep : ∀ d ∈ p.dests, ∀ u mem, P u mem → P (fillUnit prog d u mem).1 (fillUnit prog d u mem).2) :
    P (moveFlights p prog u).1 (moveFlights p prog u).2 :=
  fillDests_induction prog P p.dests hstep _ _ h0

/-! ### issue -/

/-- a port is usable for capability `cap` -/
def portUsable (cap : N) (u : Util N) (mem : Bool) (port : UnitM N) : Prop :=
  cap ∈ port.caps ∧ (mem && decide (cap ∈ port.acl)) = false ∧ (u.get port.name).length ≠ port.width

/-- `tryPorts` picks the first usable port, appends the instruction there and updates the memory flag -/
theorem tryPorts_eq_some {cap : N} {i : Nat} {ports : List (UnitM N)} {u : Util N} {mem : Bool}
    {r : Util N × Bool} (h : tryPorts cap i ports u mem = some r) :
    ∃ pre port post, ports = pre ++ port :: post ∧ portUsable cap u mem port ∧
      (∀ q ∈ pre, ¬ portUsable cap u mem q) ∧
      r = (u.set port.name (u.get port.name ++ [⟨i, .U⟩]), mem || decide (cap ∈ port.acl)) := by
  induction ports with
  | nil => simp [tryPorts] at h
  | cons q qs ih =>
    unfold tryPorts at h
    by_cases h1 : cap ∈ q.caps
    · simp only [h1, if_true] at h
      by_cases h2 : ((mem && decide (cap ∈ q.acl)) || decide ((u.get q.name).length = q.width)) = true
      · have h2' := h2
        simp only [Bool.or_eq_true, decide_eq_true_eq] at h2'
        rw [if_pos h2] at h
        obtain ⟨pre, port, post, e, hu, hpre, hr⟩ := ih h
        refine ⟨q :: pre, port, post, by simp [e], hu, ?_, hr⟩
        intro q' hq'
        rcases List.mem_cons.1 hq' with e' | e'
        · subst e'
          rintro ⟨_, a, b⟩
          rcases h2' with c | c
          · rw [a] at c; cases c
          · exact b c
        · exact hpre q' e'
      · have h2' := h2
        simp only [Bool.or_eq_true, decide_eq_true_eq, not_or, Bool.not_eq_true] at h2'
        rw [if_neg h2] at h
        refine ⟨[], q, qs, rfl, ⟨h1, h2'.1, h2'.2⟩, by simp, ?_⟩
        simpa using h.symm
    · simp only [h1, if_false] at h
      obtain ⟨pre, port, post, e, hu, hpre, hr⟩ := ih h
      refine ⟨q :: pre, port, post, by simp [e], hu, ?_, hr⟩
      intro q' hq'
      rcases List.mem_cons.1 hq' with e' | e'
      · subst e'; exact fun hq => h1 hq.1
      · exact hpre q' e'

theorem tryPorts_eq_none_iff {cap : N} {i : Nat} {ports : List (UnitM N)} {u : Util N} {mem : Bool} :
    tryPorts cap i ports u mem = none ↔ ∀ q ∈ ports, ¬ portUsable cap u mem q := by
  induction ports with
  | nil => simp [tryPorts]
  | cons q qs ih =>
    unfold tryPorts
    by_cases h1 : cap ∈ q.caps
    · simp only [h1, if_true]
      by_cases h2b : ((mem && decide (cap ∈ q.acl)) || decide ((u.get q.name).length = q.width)) = true
      · have h2 : (mem && decide (cap ∈ q.acl)) = true ∨ (u.get q.name).length = q.width := by
          simpa only [Bool.or_eq_true, decide_eq_true_eq] using h2b
        rw [if_pos h2b, ih]
        constructor
        · intro h q' hq'
          rcases List.mem_cons.1 hq' with e' | e'
          · subst e'
            rintro ⟨_, a, b⟩
            rcases h2 with c | c
            · rw [a] at c; cases c
            · exact b c
          · exact h q' e'
        · intro h q' hq'; exact h q' (List.mem_cons_of_mem _ hq')
      · have h2 : ¬ ((mem && decide (cap ∈ q.acl)) = true ∨ (u.get q.name).length = q.width) := by
          simpa only [Bool.or_eq_true, decide_eq_true_eq] using h2b
        rw [if_neg h2b]
        simp only [reduceCtorEq, false_iff]
        intro h
        apply h q List.mem_cons_self
        simp only [not_or, Bool.not_eq_true] at h2
        exact ⟨h1, h2.1, h2.2⟩
    · simp only [h1, if_false, ih]
      constructor
      · intro h q' hq'
        rcases List.mem_cons.1 hq' with e' | e'
        · subst e'; exact fun hq => h1 hq.1
        · exact h q' e'
      · intro h q' hq'; exact h q' (List.mem_cons_of_mem _ hq')

theorem issueLoop_entered_ge (ports : List (UnitM N)) (l : List (Instr N)) (u : Util N) (mem : Bool) (e : Nat) :
    e ≤ (issueLoop ports l u mem e).2 := by
  induction l generalizing u mem e with
  | nil => simp [issueLoop]
  | cons ins rest ih =>
    unfold issueLoop
    cases tryPorts ins.cap e ports u mem with
    | none => simp
    | some r => have := ih r.1 r.2 (e + 1); simp only; omega

/-- `entered` grows by at most the number of instructions offered -/
theorem issueLoop_entered_le (ports : List (UnitM N)) (l : List (Instr N)) (u : Util N) (mem : Bool) (e : Nat) :
    (issueLoop ports l u mem e).2 ≤ e + l.length := by
  induction l generalizing u mem e with
  | nil => simp [issueLoop]
  | cons ins rest ih =>
    unfold issueLoop
    cases tryPorts ins.cap e ports u mem with
    | none => simp
    | some r => have := ih r.1 r.2 (e + 1); simp only [List.length_cons]; omega

theorem issueLoop_drop_entered_le (ports : List (UnitM N)) (prog : List (Instr N)) (u : Util N) (mem : Bool)
    (e : Nat) (h : e ≤ prog.length) : (issueLoop ports (prog.drop e) u mem e).2 ≤ prog.length := by
  have := issueLoop_entered_le ports (prog.drop e) u mem e
  simp only [List.length_drop] at this
  omega

theorem drop_eq_cons {α : Type} {l : List α} {e : Nat} {a : α} {rest : List α} (h : l.drop e = a :: rest) :
    l[e]? = some a ∧ l.drop (e + 1) = rest := by
  have hlt : e < l.length := by
    by_cases hlt : e < l.length
    · exact hlt
    · rw [List.drop_eq_nil_of_le (by omega)] at h; cases h
  rw [List.drop_eq_getElem_cons hlt] at h
  injection h with h1 h2
  exact ⟨by rw [List.getElem?_eq_getElem hlt, h1], h2⟩

/-- Invariant principle for the issue loop run on `prog.drop e`: `P` is preserved by every single issue (of
instruction `e = prog[e]` into the first usable port); at the end either the program is exhausted or no port takes
the next instruction. -/
theorem issueLoop_induction (prog : List (Instr N)) (ports : List (UnitM N)) (P : Util N → Bool → Nat → Prop)
    (hstep : ∀ u mem e ins pre port post, P u mem e → prog[e]? = some ins → ports = pre ++ port :: post →
      portUsable ins.cap u mem port → (∀ q ∈ pre, ¬ portUsable ins.cap u mem q) →
      P (u.set port.name (u.get port.name ++ [⟨e, .U⟩])) (mem || decide (ins.cap ∈ port.acl)) (e + 1))
    (u : Util N) (mem : Bool) (e : Nat) (h : P u mem e) :
    ∃ mem', P (issueLoop ports (prog.drop e) u mem e).1 mem' (issueLoop ports (prog.drop e) u mem e).2 ∧
      ∀ ins, prog[(issueLoop ports (prog.drop e) u mem e).2]? = some ins →
        tryPorts ins.cap (issueLoop ports (prog.drop e) u mem e).2 ports
          (issueLoop ports (prog.drop e) u mem e).1 mem' = none := by
  generalize hl : prog.drop e = l
  induction l generalizing u mem e with
  | nil =>
    refine ⟨mem, h, ?_⟩
    intro ins hins
    simp only [issueLoop] at hins
    have : prog.length ≤ e := List.drop_eq_nil_iff.1 hl
    rw [List.getElem?_eq_none this] at hins; cases hins
  | cons ins rest ih =>
    obtain ⟨hins, hrest⟩ := drop_eq_cons hl
    unfold issueLoop
    cases ht : tryPorts ins.cap e ports u mem with
    | none =>
      refine ⟨mem, h, ?_⟩
      intro ins' hins'
      simp only at hins'
      rw [hins] at hins'; cases hins'
      exact ht
    | some r =>
      obtain ⟨pre, port, post, hp, hu, hpre, hr⟩ := tryPorts_eq_some ht
      subst hr
      exact ih _ _ (e + 1) (hstep u mem e ins pre port post h hins hp hu hpre) hrest

/-! ### labels -/

/-- the label instruction `i` gets in `unit` (when labelling succeeds): `S` iff it was loaded there in the previous
cycle, else `U`/`D` by the queue test -/
def labelOf (prog : List (Instr N)) (qs : Queues N) (unit : UnitM N) (old : List HI) (i : Nat) : Stall :=
  if wasLoaded old i then .S
  else match prog[i]? with
    | none => .D
    | some ins =>
      match regsAvail qs unit i ins with
      | .ok (some _) => .U
      | _ => .D

/-- the dequeues instruction `i` requests in `unit` -/
def clearsOf (prog : List (Instr N)) (qs : Queues N) (unit : UnitM N) (old : List HI) (i : Nat) : List (N × Nat) :=
  if wasLoaded old i then []
  else match prog[i]? with
    | none => []
    | some ins =>
      match regsAvail qs unit i ins with
      | .ok (some regs) => regs.map (fun x => (x, i))
      | _ => []

theorem labelOf_eq_S_iff (prog : List (Instr N)) (qs : Queues N) (unit : UnitM N) (old : List HI) (i : Nat) :
    labelOf prog qs unit old i = .S ↔ wasLoaded old i = true := by
  unfold labelOf
  split
  · simp [*]
  · next h =>
    simp only [h]
    split
    · simp
    · split <;> simp

/-- on success `labelList` keeps the instructions and their order; the labels are `labelOf`, the requested clears
`clearsOf` -/
theorem labelList_ok {prog : List (Instr N)} {qs : Queues N} {unit : UnitM N} {old l : List HI}
    {r : List HI × List (N × Nat)} (h : labelList prog qs unit old l = .ok r) :
    r.1 = l.map (fun x => (⟨x.idx, labelOf prog qs unit old x.idx⟩ : HI)) ∧
    r.2 = l.flatMap (fun x => clearsOf prog qs unit old x.idx) := by
  induction l generalizing r with
  | nil => simp only [labelList] at h; cases h; simp
  | cons x xs ih =>
    cases hrec : labelList prog qs unit old xs with
    | error f =>
      unfold labelList at h
      simp only [hrec] at h
      split at h
      · cases h
      · split at h
        · cases h
        · split at h <;> cases h
    | ok r' =>
      obtain ⟨ih1, ih2⟩ := ih hrec
      by_cases hw : wasLoaded old x.idx = true
      · simp only [labelList, hw, if_true, hrec] at h
        cases h
        simp [labelOf, clearsOf, hw, ih1, ih2]
      · cases hp : prog[x.idx]? with
        | none => simp only [labelList, hw, hp] at h; cases h
        | some ins =>
          cases hr : regsAvail qs unit x.idx ins with
          | error f => simp only [labelList, hw, hp, hr] at h; cases h
          | ok o =>
            cases o with
            | none =>
              simp only [labelList, hw, hp, hr, hrec] at h
              cases h
              simp [labelOf, clearsOf, hw, hp, hr, ih1, ih2]
            | some regs =>
              simp only [labelList, hw, hp, hr, hrec] at h
              cases h
              simp [labelOf, clearsOf, hw, hp, hr, ih1, ih2]

theorem labelList_idx {prog : List (Instr N)} {qs : Queues N} {unit : UnitM N} {old l : List HI}
    {r : List HI × List (N × Nat)} (h : labelList prog qs unit old l = .ok r) :
    r.1.map (·.idx) = l.map (·.idx) := by
  rw [(labelList_ok h).1, List.map_map]; rfl

theorem labelList_length {prog : List (Instr N)} {qs : Queues N} {unit : UnitM N} {old l : List HI}
    {r : List HI × List (N × Nat)} (h : labelList prog qs unit old l = .ok r) : r.1.length = l.length := by
  rw [(labelList_ok h).1, List.length_map]

/-- label `S` iff the instruction was loaded in this unit in the previous cycle -/
theorem labelList_S_iff {prog : List (Instr N)} {qs : Queues N} {unit : UnitM N} {old l : List HI}
    {r : List HI × List (N × Nat)} (h : labelList prog qs unit old l = .ok r) {x : HI} (hx : x ∈ r.1) :
    x.st = .S ↔ wasLoaded old x.idx = true := by
  rw [(labelList_ok h).1] at hx
  obtain ⟨y, _, rfl⟩ := List.mem_map.1 hx
  exact labelOf_eq_S_iff _ _ _ _ _

/-! ### `lookupUnit` -/

theorem lookupUnit_some {us : List (UnitM N)} {n : N} {v : UnitM N} (h : lookupUnit us n = some v) :
    v ∈ us ∧ v.name = n := by
  induction us with
  | nil => cases h
  | cons u us ih =>
    unfold lookupUnit at h
    cases hl : lookupUnit us n with
    | some w =>
      simp only [hl] at h; cases h
      exact ⟨List.mem_cons_of_mem _ (ih hl).1, (ih hl).2⟩
    | none =>
      simp only [hl] at h
      by_cases e : u.name = n
      · simp only [e, if_true] at h; cases h; exact ⟨List.mem_cons_self, e⟩
      · simp [e] at h

theorem lookupUnit_eq_none_iff {us : List (UnitM N)} {n : N} : lookupUnit us n = none ↔ n ∉ us.map (·.name) := by
  induction us with
  | nil => simp [lookupUnit]
  | cons u us ih =>
    unfold lookupUnit
    cases hl : lookupUnit us n with
    | some w =>
      have := (lookupUnit_some hl)
      simp only [reduceCtorEq, List.map_cons, List.mem_cons, not_or, false_iff, not_and, Classical.not_not]
      intro _
      exact List.mem_map.2 ⟨w, this.1, this.2⟩
    | none =>
      have hn := ih.1 hl
      by_cases e : u.name = n
      · simp [e]
      · have e' : ¬ n = u.name := fun x => e x.symm
        simp [e, e', hn]

/-- with unique names, `lookupUnit` finds the unit of that name -/
theorem lookupUnit_of_mem {us : List (UnitM N)} {v : UnitM N} (hn : (us.map (·.name)).Nodup) (hv : v ∈ us) :
    lookupUnit us v.name = some v := by
  induction us with
  | nil => cases hv
  | cons u us ih =>
    simp only [List.map_cons, List.nodup_cons] at hn
    unfold lookupUnit
    rcases List.mem_cons.1 hv with e | e
    · subst e
      rw [lookupUnit_eq_none_iff.2 hn.1]; simp
    · rw [ih hn.2 e]

/-- two units of the same name in a list with unique names are equal -/
theorem unit_eq_of_name_eq {us : List (UnitM N)} (hn : (us.map (·.name)).Nodup) {a b : UnitM N}
    (ha : a ∈ us) (hb : b ∈ us) (h : a.name = b.name) : a = b := by
  have h1 := lookupUnit_of_mem hn ha
  have h2 := lookupUnit_of_mem hn hb
  rw [h, h2] at h1
  exact (Option.some.inj h1).symm

/-! ### `labelAll` -/

theorem labelAll_nil (units : List (UnitM N)) (prog : List (Instr N)) (qs : Queues N) (old : Util N) :
    labelAll units prog qs old ([] : List (N × List HI)) = .ok (([] : List (N × List HI)), []) := rfl

/-- unfolding of a successful `labelAll` on a non-empty record -/
theorem labelAll_cons_ok {units : List (UnitM N)} {prog : List (Instr N)} {qs : Queues N} {old : Util N}
    {n : N} {l : List HI} {rest : List (N × List HI)} {r : Util N × List (N × Nat)}
    (h : labelAll units prog qs old ((n, l) :: rest : List (N × List HI)) = .ok r) :
    ∃ r', labelAll units prog qs old rest = .ok r' ∧
      ((l = [] ∧ r = (((n, []) :: r'.1 : List (N × List HI)), r'.2)) ∨
       (l ≠ [] ∧ ∃ unit rl, lookupUnit units n = some unit ∧ labelList prog qs unit (old.get n) l = .ok rl ∧
          r = (((n, rl.1) :: r'.1 : List (N × List HI)), rl.2 ++ r'.2))) := by
  unfold labelAll at h
  by_cases he : l.isEmpty = true
  · simp only [he, if_true] at h
    cases hrec : labelAll units prog qs old rest with
    | error f => simp only [hrec] at h; cases h
    | ok r' =>
      simp only [hrec] at h; cases h
      exact ⟨r', rfl, Or.inl ⟨List.isEmpty_iff.1 he, rfl⟩⟩
  · simp only [he] at h
    have hne : l ≠ [] := fun e => he (List.isEmpty_iff.2 e)
    cases hl : lookupUnit units n with
    | none => simp only [hl] at h; cases h
    | some unit =>
      simp only [hl] at h
      cases hll : labelList prog qs unit (old.get n) l with
      | error f => simp only [hll] at h; cases h
      | ok rl =>
        simp only [hll] at h
        cases hrec : labelAll units prog qs old rest with
        | error f => simp only [hrec] at h; cases h
        | ok r' =>
          simp only [hrec] at h; cases h
          exact ⟨r', rfl, Or.inr ⟨hne, unit, rl, rfl, hll, rfl⟩⟩

/-- relabelling keeps the keys -/
theorem labelAll_keys {units : List (UnitM N)} {prog : List (Instr N)} {qs : Queues N} {old u : Util N}
    {r : Util N × List (N × Nat)} (h : labelAll units prog qs old u = .ok r) : AMap.keys r.1 = AMap.keys u := by
  induction u generalizing r with
  | nil => rw [labelAll_nil] at h; cases h; rfl
  | cons e rest ih =>
    obtain ⟨n, l⟩ := e
    obtain ⟨r', hr', hcase⟩ := labelAll_cons_ok h
    rcases hcase with ⟨_, rfl⟩ | ⟨_, unit, rl, _, _, rfl⟩
    · simp [ih hr']
    · simp [ih hr']

/-- exact content of every unit after relabelling: same instructions in the same order, labels `labelOf` w.r.t. the
unit found by `lookupUnit` and the unit's content in the previous record -/
theorem labelAll_get {units : List (UnitM N)} {prog : List (Instr N)} {qs : Queues N} {old u : Util N}
    {r : Util N × List (N × Nat)} (h : labelAll units prog qs old u = .ok r) (n : N) :
    (u.get n = [] → r.1.get n = []) ∧
    (u.get n ≠ [] → ∃ unit, lookupUnit units n = some unit ∧
      r.1.get n = (u.get n).map (fun x => (⟨x.idx, labelOf prog qs unit (old.get n) x.idx⟩ : HI))) := by
  induction u generalizing r with
  | nil => rw [labelAll_nil] at h; cases h; simp
  | cons e rest ih =>
    obtain ⟨k, l⟩ := e
    obtain ⟨r', hr', hcase⟩ := labelAll_cons_ok h
    have ih' := ih hr'
    rcases hcase with ⟨hl, rfl⟩ | ⟨hl, unit, rl, hlu, hll, rfl⟩
    · subst hl
      simp only [Util.get_cons]
      by_cases hk : k = n
      · simp [hk]
      · simpa [hk] using ih'
    · simp only [Util.get_cons]
      by_cases hk : k = n
      · subst hk
        simp only [if_true]
        exact ⟨fun e => absurd e hl, fun _ => ⟨unit, hlu, (labelList_ok hll).1⟩⟩
      · simpa [hk] using ih'

/-- relabelling keeps, per unit, the hosted program indices in the same order -/
theorem labelAll_get_idx {units : List (UnitM N)} {prog : List (Instr N)} {qs : Queues N} {old u : Util N}
    {r : Util N × List (N × Nat)} (h : labelAll units prog qs old u = .ok r) (n : N) :
    (r.1.get n).map (·.idx) = (u.get n).map (·.idx) := by
  have := labelAll_get h n
  by_cases hn : u.get n = []
  · rw [this.1 hn, hn]
  · obtain ⟨unit, _, e⟩ := this.2 hn
    rw [e, List.map_map]; rfl

theorem labelAll_get_length {units : List (UnitM N)} {prog : List (Instr N)} {qs : Queues N} {old u : Util N}
    {r : Util N × List (N × Nat)} (h : labelAll units prog qs old u = .ok r) (n : N) :
    (r.1.get n).length = (u.get n).length := by
  have := congrArg List.length (labelAll_get_idx h n)
  simpa using this

/-- a hosted instruction is labelled `S` iff it was in the same unit, not `D`, in the previous record -/
theorem labelAll_S_iff {units : List (UnitM N)} {prog : List (Instr N)} {qs : Queues N} {old u : Util N}
    {r : Util N × List (N × Nat)} (h : labelAll units prog qs old u = .ok r) {n : N} {x : HI}
    (hx : x ∈ r.1.get n) : x.st = .S ↔ wasLoaded (old.get n) x.idx = true := by
  have := labelAll_get h n
  by_cases hn : u.get n = []
  · rw [this.1 hn] at hx; cases hx
  · obtain ⟨unit, _, e⟩ := this.2 hn
    rw [e] at hx
    obtain ⟨y, _, rfl⟩ := List.mem_map.1 hx
    exact labelOf_eq_S_iff _ _ _ _ _

/-! ### the cycle -/

variable [LT N] [DecidableRel (α := N) (· < ·)]

omit [DecidableEq N] in
theorem mem_sortedInputs {p : Proc N} {m : UnitM N} : m ∈ sortedInputs p ↔ m ∈ p.inBoundary := mem_isort

omit [DecidableEq N] [LT N] [DecidableRel (α := N) (· < ·)] in
theorem mem_allUnits_of_mem_inBoundary {p : Proc N} {m : UnitM N} (h : m ∈ p.inBoundary) : m ∈ p.allUnits := by
  simp only [Proc.inBoundary, List.mem_append] at h
  simp only [Proc.allUnits, List.mem_append]
  rcases h with h | h
  · exact Or.inl (Or.inl (Or.inr h))
  · exact Or.inl (Or.inl (Or.inl h))

omit [DecidableEq N] [LT N] [DecidableRel (α := N) (· < ·)] in
theorem model_mem_allUnits_of_mem_dests {p : Proc N} {d : FuncU N} (h : d ∈ p.dests) : d.model ∈ p.allUnits := by
  simp only [Proc.dests, List.mem_append] at h
  simp only [Proc.allUnits, List.mem_append, List.mem_map]
  rcases h with h | h
  · exact Or.inl (Or.inr ⟨d, h, rfl⟩)
  · exact Or.inr ⟨d, h, rfl⟩

/-- Invariant principle for the fill phase of a cycle (`fillCycle` = flush, fill the destinations, issue): `P`
holds after the flush with the memory flag clear, is preserved by filling any destination and by any single issue
into a usable input-boundary port. -/
theorem fillCycle_induction (p : Proc N) (prog : List (Instr N)) (P : Util N → Bool → Nat → Prop)
    (old : Util N) (e : Nat)
    (h0 : P (flushOutputs p.outBoundary old) false e)
    (hfill : ∀ d ∈ p.dests, ∀ u mem, P u mem e → P (fillUnit prog d u mem).1 (fillUnit prog d u mem).2 e)
    (hissue : ∀ u mem e' ins port, P u mem e' → prog[e']? = some ins → port ∈ p.inBoundary →
      portUsable ins.cap u mem port →
      P (u.set port.name (u.get port.name ++ [⟨e', .U⟩])) (mem || decide (ins.cap ∈ port.acl)) (e' + 1)) :
    ∃ mem', P (fillCycle p prog old e).1 mem' (fillCycle p prog old e).2 := by
  have h1 := moveFlights_induction p prog (fun u mem => P u mem e) old h0 hfill
  obtain ⟨mem', h2, _⟩ := issueLoop_induction prog (sortedInputs p) P
    (fun u mem e' ins pre port post hP hins hports hu _ =>
      hissue u mem e' ins port hP hins
        (mem_sortedInputs.1 (by rw [hports]; simp)) hu)
    _ _ e h1
  exact ⟨mem', h2⟩

theorem fillCycle_entered_ge (p : Proc N) (prog : List (Instr N)) (old : Util N) (e : Nat) :
    e ≤ (fillCycle p prog old e).2 := issueLoop_entered_ge _ _ _ _ _

theorem fillCycle_entered_le (p : Proc N) (prog : List (Instr N)) (old : Util N) (e : Nat) (h : e ≤ prog.length) :
    (fillCycle p prog old e).2 ≤ prog.length := issueLoop_drop_entered_le _ _ _ _ _ h

/-- `applyClears` works on the queues only: a successful cycle records exactly the relabelled record -/
theorem runCycle_eq_some {p : Proc N} {prog : List (Instr N)} {s s' : SimState N}
    (h : runCycle p prog s = .ok (some s')) :
    ∃ lab qs, labelAll p.allUnits prog s.queues s.util (fillCycle p prog s.util s.entered).1 = .ok lab ∧
      applyClears s.queues lab.2 = .ok qs ∧ Util.beq lab.1 s.util = false ∧
      s' = { util := lab.1, queues := qs, entered := (fillCycle p prog s.util s.entered).2,
             exited := s.exited + countOut p.outBoundary lab.1, table := lab.1 :: s.table } := by
  unfold runCycle at h
  simp only at h
  cases hl : labelAll p.allUnits prog s.queues s.util (fillCycle p prog s.util s.entered).1 with
  | error f => simp only [hl] at h; cases h
  | ok lab =>
    simp only [hl] at h
    cases hc : applyClears s.queues lab.2 with
    | error f => simp only [hc] at h; cases h
    | ok qs =>
      simp only [hc] at h
      cases hb : Util.beq lab.1 s.util with
      | true => simp [hb] at h
      | false =>
        simp only [hb, Bool.false_eq_true, if_false] at h
        injection h with h; injection h with h
        exact ⟨lab, qs, rfl, hc, hb, h.symm⟩

theorem runCycle_eq_none {p : Proc N} {prog : List (Instr N)} {s : SimState N}
    (h : runCycle p prog s = .ok none) :
    ∃ lab qs, labelAll p.allUnits prog s.queues s.util (fillCycle p prog s.util s.entered).1 = .ok lab ∧
      applyClears s.queues lab.2 = .ok qs ∧ Util.beq lab.1 s.util = true := by
  unfold runCycle at h
  simp only at h
  cases hl : labelAll p.allUnits prog s.queues s.util (fillCycle p prog s.util s.entered).1 with
  | error f => simp only [hl] at h; cases h
  | ok lab =>
    simp only [hl] at h
    cases hc : applyClears s.queues lab.2 with
    | error f => simp only [hc] at h; cases h
    | ok qs =>
      simp only [hc] at h
      cases hb : Util.beq lab.1 s.util with
      | true => exact ⟨lab, qs, rfl, hc, hb⟩
      | false => simp [hb] at h

end ProcSim
